/-
  IEEE reasoning layer, part 4: core's `roundWithAccuracy spec s m e .exact` IS the value-level rounding `R`.

  `rwa_eq` rewrites the definition of core (two `shiftToTargetExponent` passes around `roundedMantissa`) to the sign-free
  mantissa/exponent pair `rwaME`; `rwaME_caseB / caseA_lt / caseA_eq` evaluate it in its three cases (nothing to drop;
  rounded mantissa still below `2^p`; rounded mantissa carried to `2^p` and renormalised); `rwaME_val` states
  `(rwaME m e).1 · 2^(rwaME m e).2 = R p emin (m · 2^e)` and `rwaME_canon` that the result is in canonical form
  (`CanonME`: mantissa `< 2^p`, exponent `≥ emin`, normalised unless the exponent is `emin`).

  Layout of the layer (all generic in `spec : Float.Model.Format`, instantiated for binary32/binary64 in `F32.lean`/`F64.lean`):
    Shift      residual-bit shifter = `rneShift` (quotient/remainder closed form)
    Rne        `rne : ℚ → ℤ` round-half-even: monotone, `|rne x − x| ≤ ½`, odd symmetry, `= rneShift` on `m / 2^k`
    RoundQ     `R p emin : ℚ → ℚ`: monotone on all of ℚ, error `≤ ½ ulp`, fixes representable values
    RoundModel (this file) `roundWithAccuracy = R`
    Ops        `round`, `normalize`, `mul`, `add` on exact values (`val (mul a b) = R (val a · val b)` …), canonical results
    Pack       `unpack (pack f) = f` for canonical `f` below the overflow threshold, `= ±∞` at or above it
    Compare    every unpacked bit pattern is canonical; `compare/lt/le` = order of exact values; uniqueness of canonical forms
    Repack     the three outcomes (`finite`, `+∞`, `−∞`) of re-packing a rounded result, by its value against `Ω = 2^(emax+1)`
    Magic      `a + 2^(p−1)` = `2^(p−1) + rne a` in the mantissa bits (the float → integer trick of stimulus.rs), bit pattern
    F32, F64   `Float32`/`Float`: `v : Float → ℚ`, `mul_cases`, `add_cases`, `lt_iff`, `le_iff`, NaN/∞ rules, `toBits_add_magic`
    ShiftAcc   the shifter started from an inexact accuracy represents `x/2^k`; rounded mantissa = `rne`
    RoundAcc   `roundWithAccuracy` with any accuracy = `R` (under `e ≤ tE`)
    Div        `div` = `R (a/b)` (through `divCore`), `sub` = `R (a−b)`, `neg`, `abs`
    Conv       `toInt` = truncation `⌊·⌋` of the value, `ofNat` = `R n`
    Unpack     unpacked bit patterns are below the overflow threshold (`repack` is the identity on them)
    Ulp        `ulp`, `|R z − z| ≤ ½ ulp (R z)`, `Int.log` scaling, rounding up past a midpoint (`R_ge_succ`)
    F32Ops, F64Ops   `sub_cases`, `div_cases`, `v_neg`, `v_abs`, `toUIntN_eq`, `toFloat_small`, no-overflow corollaries `*_of_le`
    Bits32     `U_bits`: unpacked form from the three bit fields; on finite floats with the sign bit clear
               `a.toBits ≤ b.toBits ↔ v a ≤ v b`
  Not covered yet: `sqrt`, `ofScientific`, the signed `toIntN`, `pack (unpack b) = b`, a `Bits64` analogue of `Bits32`.
-/
import PaletteProofs.Ieee.RoundQ

namespace Ieee
open Float.Model Float.Model.UnpackedFloat

def sgn : Sign → ℚ
  | .positive => 1
  | .negative => -1

/-- exact value of a finite float; `0` for zeros (and, by convention, for infinities and NaN) -/
def val : UnpackedFloat → ℚ
  | .finite s m e _ => sgn s * m * 2^e
  | _ => 0

theorem mantissa_shift_exact (q j : ℕ) :
    ((ExtendedMantissa.ofMantissaAndAccuracy q .exact) >>> j).mantissa = q / 2^j := by
  cases j with
  | zero => simp [shift_zero, ExtendedMantissa.ofMantissaAndAccuracy]
  | succ j => rw [shift_exact_succ]

/-- mantissa and exponent produced by `roundWithAccuracy … .exact` (independent of the sign) -/
def rwaME (spec : Format) (m : ℕ) (e : ℤ) : ℕ × ℤ :=
  let k := (spec.targetExponent (totalExponent m e) - e).toNat
  let q := rneShift m k
  let e₁ := e + k
  let k₂ := (spec.targetExponent (totalExponent q e₁) - e₁).toNat
  (q / 2^k₂, e₁ + k₂)

theorem rwa_eq (spec : Format) (s : Sign) (m : ℕ) (e : ℤ) :
    roundWithAccuracy spec s m e .exact =
      if h : (rwaME spec m e).1 = 0 then .zero s
      else .finite s (rwaME spec m e).1 (rwaME spec m e).2 (Nat.pos_of_ne_zero h) := by
  simp only [roundWithAccuracy, shiftToTargetExponent, shiftToExponent, roundedMantissa_shift,
    mantissa_shift_exact]
  by_cases h : (rwaME spec m e).1 = 0
  · rw [dif_pos h, dif_pos]; exact h
  · rw [dif_neg h, dif_neg]; rfl; exact h

/-! ### the three cases of `rwaME` -/

theorem rneShift_zero (m : ℕ) : rneShift m 0 = m := by simp [rneShift, Nat.mod_one]

/-- target exponent of the exact value `m·2^e` -/
def tE (spec : Format) (m : ℕ) (e : ℤ) : ℤ := spec.targetExponent (totalExponent m e)

theorem tE_def (spec : Format) (m : ℕ) (e : ℤ) :
    tE spec m e = max ((m.log2 : ℤ) + 1 + e - spec.mantissaBits) spec.minExponent := rfl

theorem one_le_mantissaBits (spec : Format) : 1 ≤ spec.mantissaBits := by
  unfold Format.mantissaBits; omega

theorem rwaME_caseB {spec : Format} {m : ℕ} {e : ℤ} (h : tE spec m e < e) : rwaME spec m e = (m, e) := by
  have hk : (spec.targetExponent (totalExponent m e) - e).toNat = 0 := by
    change (tE spec m e - e).toNat = 0; omega
  unfold rwaME
  simp only [hk, rneShift_zero, Nat.cast_zero, add_zero, pow_zero, Nat.div_one]

theorem log2_add_one_le {q p : ℕ} (hp : 1 ≤ p) (hq : q < 2^p) : q.log2 + 1 ≤ p := by
  rcases Nat.eq_zero_or_pos q with h0 | h0
  · subst h0; simpa using hp
  · have := (Nat.log2_lt (Nat.pos_iff_ne_zero.mp h0)).mpr hq; omega

theorem rwaME_caseA_lt {spec : Format} {m : ℕ} {e : ℤ} (h : e ≤ tE spec m e)
    (hq : rneShift m (tE spec m e - e).toNat < 2^spec.mantissaBits) :
    rwaME spec m e = (rneShift m (tE spec m e - e).toNat, tE spec m e) := by
  have he1 : e + ((tE spec m e - e).toNat : ℤ) = tE spec m e := by omega
  have hl := log2_add_one_le (one_le_mantissaBits spec) hq
  have hmin : spec.minExponent ≤ tE spec m e := le_max_right _ _
  unfold rwaME
  change ((rneShift m (tE spec m e - e).toNat) / 2^(tE spec (rneShift m (tE spec m e - e).toNat) (e + ((tE spec m e - e).toNat : ℤ)) - (e + ((tE spec m e - e).toNat : ℤ))).toNat,
      e + ((tE spec m e - e).toNat : ℤ) + ((tE spec (rneShift m (tE spec m e - e).toNat) (e + ((tE spec m e - e).toNat : ℤ)) - (e + ((tE spec m e - e).toNat : ℤ))).toNat : ℤ)) = _
  rw [he1]
  have hk2 : (tE spec (rneShift m (tE spec m e - e).toNat) (tE spec m e) - tE spec m e).toNat = 0 := by
    rw [tE_def spec (rneShift m (tE spec m e - e).toNat)]
    have : max (((rneShift m (tE spec m e - e).toNat).log2 : ℤ) + 1 + tE spec m e - spec.mantissaBits) spec.minExponent ≤ tE spec m e :=
      max_le (by omega) hmin
    omega
  rw [hk2]; simp

theorem rwaME_caseA_eq {spec : Format} {m : ℕ} {e : ℤ} (h : e ≤ tE spec m e)
    (hq : rneShift m (tE spec m e - e).toNat = 2^spec.mantissaBits) :
    rwaME spec m e = (2^(spec.mantissaBits - 1), tE spec m e + 1) := by
  have he1 : e + ((tE spec m e - e).toNat : ℤ) = tE spec m e := by omega
  have hmin : spec.minExponent ≤ tE spec m e := le_max_right _ _
  unfold rwaME
  change ((rneShift m (tE spec m e - e).toNat) / 2^(tE spec (rneShift m (tE spec m e - e).toNat) (e + ((tE spec m e - e).toNat : ℤ)) - (e + ((tE spec m e - e).toNat : ℤ))).toNat,
      e + ((tE spec m e - e).toNat : ℤ) + ((tE spec (rneShift m (tE spec m e - e).toNat) (e + ((tE spec m e - e).toNat : ℤ)) - (e + ((tE spec m e - e).toNat : ℤ))).toNat : ℤ)) = _
  rw [he1, hq]
  have hk2 : (tE spec (2^spec.mantissaBits) (tE spec m e) - tE spec m e).toNat = 1 := by
    rw [tE_def spec (2^spec.mantissaBits), Nat.log2_two_pow]
    have : max ((spec.mantissaBits : ℤ) + 1 + tE spec m e - spec.mantissaBits) spec.minExponent = tE spec m e + 1 := by
      rw [max_eq_left (by omega)]; omega
    omega
  rw [hk2]
  have := one_le_mantissaBits spec
  congr 1
  rw [pow_one]
  obtain ⟨j, hj⟩ : ∃ j, spec.mantissaBits = j + 1 := ⟨spec.mantissaBits - 1, by omega⟩
  rw [hj, Nat.pow_succ]; simp

/-! ### value and canonical form of the result -/

theorem intLog_eq {r : ℚ} {z : ℤ} (hr : 0 < r) (h0 : (2 : ℚ)^z ≤ r) (h1 : r < (2 : ℚ)^(z + 1)) : Int.log 2 r = z := by
  have a : z ≤ Int.log 2 r := (Int.zpow_le_iff_le_log (b := 2) (by norm_num) hr).mp (by exact_mod_cast h0)
  have b : Int.log 2 r < z + 1 := (Int.lt_zpow_iff_log_lt (b := 2) (by norm_num) hr).mp (by exact_mod_cast h1)
  omega

theorem natCast_two_pow_log2_le {m : ℕ} (hm : 0 < m) : (2 : ℚ)^(m.log2) ≤ m := by
  exact_mod_cast Nat.log2_self_le (Nat.pos_iff_ne_zero.mp hm)

theorem natCast_lt_two_pow_log2 (m : ℕ) : (m : ℚ) < 2^(m.log2 + 1) := by
  exact_mod_cast (Nat.lt_log2_self (n := m))

theorem intLog_nat_mul_zpow {m : ℕ} (hm : 0 < m) (e : ℤ) : Int.log 2 ((m : ℚ) * 2^e) = m.log2 + e := by
  have hmq : (0 : ℚ) < m := by exact_mod_cast hm
  apply intLog_eq (mul_pos hmq (two_zpow_pos e))
  · rw [zpow_add₀ (by norm_num), zpow_natCast]
    exact mul_le_mul_of_nonneg_right (natCast_two_pow_log2_le hm) (two_zpow_pos e).le
  · rw [show (m.log2 : ℤ) + e + 1 = ((m.log2 + 1 : ℕ) : ℤ) + e by push_cast; ring, zpow_add₀ (by norm_num), zpow_natCast]
    exact mul_lt_mul_of_pos_right (natCast_lt_two_pow_log2 m) (two_zpow_pos e)

theorem texp_eq_tE (spec : Format) {m : ℕ} (hm : 0 < m) (e : ℤ) :
    texp spec.mantissaBits spec.minExponent ((m : ℚ) * 2^e) = tE spec m e := by
  have hmq : (0 : ℚ) < m := by exact_mod_cast hm
  unfold texp
  rw [abs_of_pos (mul_pos hmq (two_zpow_pos e)), intLog_nat_mul_zpow hm, tE_def]
  congr 1; ring

/-- `m·2^e / 2^te = m / 2^k` when `te = e + k` -/
theorem scaled_eq (m : ℕ) (e te : ℤ) (k : ℕ) (hk : e + k = te) : ((m : ℚ) * 2^e) / 2^te = (m : ℚ) / 2^k := by
  rw [← hk, zpow_add₀ (by norm_num), zpow_natCast]
  have := (two_zpow_pos e).ne'
  field_simp

theorem rneShift_le_pow {spec : Format} {m : ℕ} {e : ℤ} (h : e ≤ tE spec m e) :
    rneShift m (tE spec m e - e).toNat ≤ 2^spec.mantissaBits := by
  set k := (tE spec m e - e).toNat with hk
  have h1 : (m.log2 : ℤ) + 1 + e - spec.mantissaBits ≤ tE spec m e := le_max_left _ _
  have h2 : m.log2 + 1 ≤ k + spec.mantissaBits := by omega
  have h3 : (m : ℚ) ≤ 2^(k + spec.mantissaBits) :=
    le_trans (natCast_lt_two_pow_log2 m).le (pow_le_pow_right₀ (by norm_num) h2)
  have h4 : (m : ℚ) / 2^k ≤ 2^spec.mantissaBits := by
    rw [div_le_iff₀ (by positivity), ← pow_add, add_comm]; exact h3
  have h5 := rne_le_of_le_natPow h4
  rw [rne_div_pow] at h5
  exact_mod_cast h5

structure CanonME (spec : Format) (m : ℕ) (e : ℤ) : Prop where
  lt : m < 2^spec.mantissaBits
  emin_le : spec.minExponent ≤ e
  norm : m = 0 ∨ 2^(spec.mantissaBits - 1) ≤ m ∨ e = spec.minExponent

/-- **core's `roundWithAccuracy` computes `R`** (magnitude part) -/
theorem rwaME_val (spec : Format) {m : ℕ} (hm : 0 < m) (e : ℤ) :
    ((rwaME spec m e).1 : ℚ) * 2^(rwaME spec m e).2 = R spec.mantissaBits spec.minExponent ((m : ℚ) * 2^e) := by
  have hp := one_le_mantissaBits spec
  rcases lt_or_ge (tE spec m e) e with hB | hA
  · rw [rwaME_caseB hB]
    have h1 : (m.log2 : ℤ) + 1 + e - spec.mantissaBits ≤ tE spec m e := le_max_left _ _
    have h2 : spec.minExponent ≤ tE spec m e := le_max_right _ _
    have hlt : m < 2^spec.mantissaBits :=
      lt_of_lt_of_le Nat.lt_log2_self (Nat.pow_le_pow_right (by norm_num) (by omega))
    have := R_fix (p := spec.mantissaBits) (emin := spec.minExponent) (n := (m : ℤ)) (t := e)
      (by rw [abs_of_nonneg (by positivity)]; exact_mod_cast hlt) (by omega)
    simpa using this.symm
  · unfold R
    rw [texp_eq_tE spec hm, scaled_eq m e (tE spec m e) (tE spec m e - e).toNat (by omega), rne_div_pow]
    rcases (rneShift_le_pow hA).lt_or_eq with hq | hq
    · rw [rwaME_caseA_lt hA hq]; simp
    · rw [rwaME_caseA_eq hA hq, hq]
      obtain ⟨j, hj⟩ : ∃ j, spec.mantissaBits = j + 1 := ⟨spec.mantissaBits - 1, by omega⟩
      simp only [hj, Nat.add_sub_cancel]
      push_cast
      rw [zpow_add₀ (by norm_num)]; ring

theorem rwaME_canon (spec : Format) {m : ℕ} (hm : 0 < m) {e : ℤ} (hA : e ≤ tE spec m e) :
    CanonME spec (rwaME spec m e).1 (rwaME spec m e).2 := by
  have hp := one_le_mantissaBits spec
  have hmin : spec.minExponent ≤ tE spec m e := le_max_right _ _
  rcases (rneShift_le_pow hA).lt_or_eq with hq | hq
  · rw [rwaME_caseA_lt hA hq]
    refine ⟨hq, hmin, ?_⟩
    by_cases hte : tE spec m e = spec.minExponent
    · exact Or.inr (Or.inr hte)
    · right; left
      set k := (tE spec m e - e).toNat with hk
      have hk' : (k : ℤ) + spec.mantissaBits = m.log2 + 1 := by
        have := tE_def spec m e
        rcases le_total ((m.log2 : ℤ) + 1 + e - spec.mantissaBits) spec.minExponent with hh | hh
        · rw [max_eq_right hh] at this; exact absurd this hte
        · rw [max_eq_left hh] at this; omega
      have hk'' : k + (spec.mantissaBits - 1) = m.log2 := by omega
      have h3 : (2 : ℚ)^(spec.mantissaBits - 1) ≤ (m : ℚ) / 2^k := by
        rw [le_div_iff₀ (by positivity), ← pow_add, add_comm, hk'']
        exact natCast_two_pow_log2_le hm
      have h5 := natPow_le_rne_of_le h3
      rw [rne_div_pow] at h5
      exact_mod_cast h5
  · rw [rwaME_caseA_eq hA hq]
    refine ⟨Nat.pow_lt_pow_right (by norm_num) (by omega), by simp only; omega, Or.inr (Or.inl le_rfl)⟩

end Ieee
