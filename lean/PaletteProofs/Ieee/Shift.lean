/-
  IEEE reasoning layer, part 1: the residual-bit shifter of `Float.Model.UnpackedFloat` computes
  round-half-even division by a power of two.

  Core (`Init/Data/Float/Model/Unpacked/Round.lean`) rounds by shifting an `ExtendedMantissa` (mantissa, round bit,
  sticky bit) right one bit at a time and then applying `roundToNearestEven`.  Here the loop is replaced by the closed
  form `rneShift m k` (quotient, remainder, compare the doubled remainder with `2^k`), proved equal to the loop.
-/
import Mathlib.Tactic.Ring
import Mathlib.Tactic.Linarith

namespace Ieee
open Float.Model Float.Model.UnpackedFloat

/-- round-half-even of `m / 2^k` on naturals -/
def rneShift (m k : ℕ) : ℕ :=
  if 2 * (m % 2^k) < 2^k then m / 2^k
  else if 2^k < 2 * (m % 2^k) then m / 2^k + 1
  else m / 2^k + (m / 2^k) % 2

theorem shift_zero (em : ExtendedMantissa) : em >>> 0 = em := rfl
theorem shift_succ (em : ExtendedMantissa) (k : ℕ) : em >>> (k + 1) = (em >>> k).shiftRightOne := rfl

/-- state of the shifter after `k+1` steps from an exact mantissa -/
theorem shift_exact_succ (m k : ℕ) :
    (ExtendedMantissa.ofMantissaAndAccuracy m .exact) >>> (k + 1) =
      ⟨m / 2^(k+1), decide ((m / 2^k) % 2 ≠ 0), decide (m % 2^k ≠ 0)⟩ := by
  induction k with
  | zero =>
    rw [shift_succ, shift_zero]
    simp [ExtendedMantissa.ofMantissaAndAccuracy, ExtendedMantissa.shiftRightOne, Nat.mod_one, beq_eq_decide]
  | succ k ih =>
    rw [shift_succ, ih]
    simp only [ExtendedMantissa.shiftRightOne]
    congr 1
    · rw [Nat.div_div_eq_div_mul, ← Nat.pow_succ]
    · simp [beq_eq_decide]
    · rw [Nat.mod_pow_succ (b := 2) (k := k)]
      have h2 : m / 2^k % 2 = 0 ∨ m / 2^k % 2 = 1 := by omega
      have hp : 0 < 2^k := Nat.pos_of_ne_zero (by simp)
      rcases h2 with h | h <;> simp [h]

theorem roundedMantissa_shift (m k : ℕ) :
    ((ExtendedMantissa.ofMantissaAndAccuracy m .exact) >>> k).roundedMantissa = rneShift m k := by
  cases k with
  | zero =>
    simp [shift_zero, ExtendedMantissa.ofMantissaAndAccuracy, ExtendedMantissa.roundedMantissa,
      ExtendedMantissa.accuracy, Accuracy.roundToNearestEven, rneShift, Nat.mod_one]
  | succ k =>
    rw [shift_exact_succ]
    have hp : 0 < 2^k := Nat.pos_of_ne_zero (by simp)
    have hs : 2^(k+1) = 2 * 2^k := by rw [Nat.pow_succ]; omega
    have hmod : m % 2^(k+1) = m % 2^k + 2^k * (m / 2^k % 2) := Nat.mod_pow_succ
    have hlt : m % 2^k < 2^k := Nat.mod_lt _ hp
    have h2 : m / 2^k % 2 = 0 ∨ m / 2^k % 2 = 1 := by omega
    unfold rneShift
    rw [hmod, hs]
    rcases h2 with h | h <;> by_cases h0 : m % 2^k = 0 <;>
      (simp [h, h0, ExtendedMantissa.roundedMantissa, ExtendedMantissa.accuracy, Accuracy.roundToNearestEven]; try omega)

end Ieee
