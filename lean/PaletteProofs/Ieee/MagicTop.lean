/-
  IEEE reasoning layer: the magic-number addition on the whole range the code uses it (`scaled < 2^(p−1)`, not only
  `scaled ≤ 2^(p−1) − 1` as in `Magic.lean`).  For `2^(p−1) − 1 < a < 2^(p−1)` (one float in binary64: `2^52 − ½`) the sum can
  round up to `2^p`; the carry runs into the exponent field and the bit pattern is still `bits(2^(p−1)) + rne a`.
-/
import PaletteProofs.Ieee.F64
import PaletteProofs.Ieee.F32

namespace Ieee
open Float.Model Float.Model.UnpackedFloat

/-- the carry case: `rne a = 2^(p−1)`, the sum is `2^p = 2^(p−1) · 2^1` -/
theorem add_magic_carry (spec : Format) {a : UnpackedFloat} (ca : Canon spec a) (fa : a.isFinite = true)
    (h0 : 0 ≤ val a) (h1 : val a < 2^(spec.mantissaBits - 1)) (hr : rne (val a) = 2^(spec.mantissaBits - 1)) :
    ∃ h, UnpackedFloat.add spec a (magicC spec) = .finite .positive (2^(spec.mantissaBits - 1)) 1 h := by
  have hmbw := spec.hm
  set P := spec.mantissaBits - 1 with hP
  have hPP : spec.mantissaBits = P + 1 := by unfold Format.mantissaBits at *; omega
  have hPpos : 1 ≤ P := by unfold Format.mantissaBits at *; omega
  have hval : val (UnpackedFloat.add spec a (magicC spec)) = (2 : ℚ)^(P + 1) := by
    rw [val_add spec fa rfl ca (canon_magicC spec), val_magicC]
    have hw0 : (2 : ℚ)^(spec.mantissaBits - 1) ≤ val a + 2^P := by rw [← hP]; linarith
    have hw1 : val a + 2^P < 2^spec.mantissaBits := by rw [hPP, pow_succ]; linarith
    rw [R_top_binade spec hw0 hw1]
    obtain ⟨j, hj⟩ : ∃ j, P = j + 1 := ⟨P - 1, by omega⟩
    have he : (2 : ℚ)^P = ((2 * 2^j : ℤ) : ℚ) := by rw [hj, pow_succ]; push_cast; ring
    rw [he, rne_add_even, hr]
    push_cast; rw [hj, pow_succ, pow_succ, pow_succ]; ring
  have hpos : 0 < val (UnpackedFloat.add spec a (magicC spec)) := by rw [hval]; positivity
  obtain ⟨m, e, h, hu, hc, hmag⟩ := pos_finite_of_val_pos (canon_add spec ca (canon_magicC spec)) hpos
  have hcand : CanonME spec (2^P) 1 := by
    refine ⟨?_, le_trans (minExponent_le_zero spec) (by norm_num), Or.inr (Or.inl le_rfl)⟩
    rw [hPP]; exact Nat.pow_lt_pow_right (by norm_num) (by omega)
  have hcpos : 0 < 2^P := Nat.pos_of_ne_zero (by simp)
  have huniq := canon_unique hc hcand h hcpos (by
    rw [hmag, hval]; unfold mag; push_cast; rw [pow_succ])
  refine ⟨hcpos, ?_⟩
  rw [hu]
  exact finite_congr huniq.1 huniq.2

/-- bit pattern of `finite + 2^(p−1) 1` = `2^p`: the pattern of `2^(p−1)` plus `2^(p−1)` -/
theorem toNat_pack_carry (spec : Format) (h : 0 < 2^spec.mantissaBitsWithoutImplicit)
    (hov : spec.exponentBias + spec.mantissaBitsWithoutImplicit + 2 < 2^spec.exponentBits) :
    (UnpackedFloat.pack spec (.finite .positive (2^spec.mantissaBitsWithoutImplicit) 1 h)).toNat =
      (spec.exponentBias + spec.mantissaBitsWithoutImplicit) * 2^spec.mantissaBitsWithoutImplicit +
        2^spec.mantissaBitsWithoutImplicit := by
  have hp : spec.mantissaBits = spec.mantissaBitsWithoutImplicit + 1 := by unfold Format.mantissaBits; omega
  have hB : biasedExp spec 1 = spec.exponentBias + spec.mantissaBitsWithoutImplicit + 1 := by
    unfold biasedExp; omega
  rw [pack_finite_eq, hB, if_neg (by omega)]
  have hlog : (2^spec.mantissaBitsWithoutImplicit).log2 + 1 = spec.mantissaBits := by
    rw [hp, Nat.log2_two_pow]
  rw [if_pos hlog, toNat_packComponents_pos, BitVec.toNat_ofNat, BitVec.toNat_ofNat,
    Nat.mod_eq_of_lt (by omega), Nat.mod_self]
  ring

namespace F64

/-- **magic-number rounding on the whole range `0 ≤ a < 2^52`** -/
theorem toBits_add_magic_lt {a c : Float} (fa : IsFin a) (h0 : 0 ≤ v a) (h1 : v a < 2^52) (hc : U c = magicC spec) :
    (a + c).toBits.toNat = 0x4330000000000000 + (rne (v a)).toNat ∧ (rne (v a)).toNat ≤ 2^52 := by
  have hrle : rne (v a) ≤ 2^52 := by
    have := rne_mono h1.le
    rwa [show ((2 : ℚ)^52) = (((2^52 : ℤ)) : ℚ) by norm_num, rne_intCast] at this
  have hr0 : 0 ≤ rne (v a) := rne_nonneg h0
  rcases hrle.lt_or_eq with hlt | heq
  · -- no carry: the value is at most 2^52 − 1 after all?  not necessarily; but rne a ≤ 2^52 − 1
    by_cases hle : v a ≤ 2^52 - 1
    · obtain ⟨hb, hle'⟩ := toBits_add_magic fa h0 hle hc
      exact ⟨hb, le_trans hle' (by norm_num)⟩
    · -- 2^52 − 1 < a < 2^52 and rne a < 2^52 would force rne a = 2^52 − 1 … which needs a − (2^52 − 1) ≤ ½; then
      -- a ≤ 2^52 − ½, fine, but `toBits_add_magic` wants a ≤ 2^52 − 1.  Floats in this gap are exactly 2^52 − ½, whose rne is 2^52.
      exfalso
      rw [not_le] at hle
      -- a = m·2^e canonical in (2^52 − 1, 2^52): e = −1, m = 2^53 − 1
      have hc' := canon_U a
      unfold v IsFin at *
      cases hu : U a <;> rw [hu] at fa hc' h0 h1 hle hlt hr0 <;> simp only [UnpackedFloat.isFinite, Bool.false_eq_true] at fa
      · simp [val] at hle; linarith
      · rename_i s m e hm
        have cm : CanonME spec m e := hc'
        cases s
        · rw [val_neg_eq] at h0; have := mag_pos hm e; linarith
        · rw [val_pos_eq] at hle h1 hlt
          -- compare with 2^52 = mag 2^52 0 and with 2^51 = mag 2^52 (−1)
          have c52 : CanonME spec (2^52) 0 := ⟨by decide, by decide, Or.inr (Or.inl (by decide))⟩
          have c51 : CanonME spec (2^52) (-1) := ⟨by decide, by decide, Or.inr (Or.inl (by decide))⟩
          have he0 : e ≤ 0 := by
            by_contra hgt
            have := mag_lt_of_exp_lt c52 cm hm (by omega)
            unfold mag at this h1; norm_num at this; linarith
          have he1 : -1 ≤ e := by
            by_contra hgt
            have := mag_lt_of_exp_lt cm c51 (by norm_num) (by omega)
            unfold mag at this hle; norm_num at this hle; linarith
          have hmlt : (m : ℚ) < 2^53 := by exact_mod_cast cm.lt
          rcases (show e = 0 ∨ e = -1 by omega) with rfl | rfl
          · -- integers: no float strictly between 2^52 − 1 and 2^52
            unfold mag at hle h1; simp only [zpow_zero, mul_one] at hle h1
            have a1 : (2^52 - 1 : ℤ) < (m : ℤ) := by
              have : ((2^52 - 1 : ℤ) : ℚ) < ((m : ℤ) : ℚ) := by push_cast; linarith
              exact_mod_cast this
            have a2 : (m : ℤ) < 2^52 := by
              have : ((m : ℤ) : ℚ) < ((2^52 : ℤ) : ℚ) := by push_cast; linarith
              exact_mod_cast this
            omega
          · -- half-integers: m = 2^53 − 1, rne = 2^52 (tie to even), contradiction with hlt
            unfold mag at hle h1 hlt
            have e2 : (2 : ℚ)^(-1 : ℤ) = 1 / 2 := by norm_num
            rw [e2] at hle h1 hlt
            have a1 : (2^53 - 2 : ℤ) < (m : ℤ) := by
              have : ((2^53 - 2 : ℤ) : ℚ) < ((m : ℤ) : ℚ) := by push_cast; linarith
              exact_mod_cast this
            have a2 : (m : ℤ) < 2^53 := by exact_mod_cast cm.lt
            have hm' : m = 2^53 - 1 := by omega
            have : rne ((m : ℚ) * (1 / 2)) = 2^52 := by
              rw [hm']
              have hx : (((2^53 - 1 : ℕ) : ℚ)) * (1 / 2) = 4503599627370495 + 1 / 2 := by norm_num
              rw [hx, rne_of_floor (f := 4503599627370495) (by norm_num) (by norm_num)]
              norm_num
            rw [this] at hlt; exact absurd hlt (lt_irrefl _)
  · -- carry
    obtain ⟨h, hadd⟩ := add_magic_carry spec (canon_U a) fa h0 (by have : spec.mantissaBits - 1 = 52 := rfl; rw [this]; exact h1)
      (by have : spec.mantissaBits - 1 = 52 := rfl; rw [this]; exact heq)
    refine ⟨?_, by rw [heq]; norm_num⟩
    show (Float.Model.pack (UnpackedFloat.add spec (U a) (U c))).toBits.toNat = _
    rw [hc, hadd]
    show (UnpackedFloat.pack spec _).toNat = _
    have := toNat_pack_carry spec h (by decide)
    refine this.trans ?_
    rw [heq]; norm_num [spec, Format.binary64, Format.exponentBias]; rfl

end F64

end Ieee
