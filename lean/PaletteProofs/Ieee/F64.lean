/-
  IEEE reasoning layer, binary64 instance: `Float` operations (`*`, `+`, `<`, `≤`, `isNaN`, `toBits`) in terms of the
  exact value `F64.v x : ℚ` of a finite float.
-/
import PaletteProofs.Ieee.Magic

namespace Ieee.F64
open Float.Model Float.Model.UnpackedFloat Ieee

abbrev spec : Format := Format.binary64

/-- the unpacked form of a `Float` (what every model operation starts from) -/
def U (x : Float) : UnpackedFloat := x.toModel.unpack

/-- finite (zero, subnormal or normal), i.e. neither infinite nor NaN -/
def IsFin (x : Float) : Prop := (U x).isFinite = true

/-- exact value of a finite `Float` (`0` by convention for infinities and NaN) -/
def v (x : Float) : ℚ := val (U x)

/-- round to nearest even in binary64, unbounded exponent range above -/
abbrev R64 : ℚ → ℚ := Rs spec

theorem canon_U (x : Float) : Canon spec (U x) := canon_unpack spec _

theorem U_mul (a b : Float) : U (a * b) = repack spec (UnpackedFloat.mul spec (U a) (U b)) := rfl
theorem U_add (a b : Float) : U (a + b) = repack spec (UnpackedFloat.add spec (U a) (U b)) := rfl
theorem toModel_add (a b : Float) : (a + b).toModel = Float.Model.pack (UnpackedFloat.add spec (U a) (U b)) := rfl
theorem isNaN_eq (a : Float) : a.isNaN = (U a).isNaN := rfl
theorem lt_iff_U (a b : Float) : a < b ↔ (U a).lt (U b) = true := by
  show (Float.lt a b = true) ↔ _
  unfold Float.lt
  simp only [decide_eq_true_eq]
  exact Iff.rfl
theorem le_iff_U (a b : Float) : a ≤ b ↔ (U a).le (U b) = true := by
  show (Float.le a b = true) ↔ _
  unfold Float.le
  simp only [decide_eq_true_eq]
  exact Iff.rfl

theorem heb : 2 ≤ spec.exponentBits := by decide

theorem IsFin.not_nan {a : Float} (h : IsFin a) : a.isNaN = false := by
  rw [isNaN_eq]; unfold IsFin at h
  cases hu : U a <;> rw [hu] at h <;> simp_all [UnpackedFloat.isFinite, UnpackedFloat.isNaN]

theorem lt_iff {a b : Float} (ha : IsFin a) (hb : IsFin b) : a < b ↔ v a < v b := by
  rw [lt_iff_U]; exact lt_iff_val (canon_U a) (canon_U b) ha hb

theorem le_iff {a b : Float} (ha : IsFin a) (hb : IsFin b) : a ≤ b ↔ v a ≤ v b := by
  rw [le_iff_U]; exact le_iff_val (canon_U a) (canon_U b) ha hb

/-- **`Float.mul` rounds the exact product**; overflow to the signed infinity at `|R64 (a·b)| ≥ 2^1024` -/
theorem mul_cases {a b : Float} (ha : IsFin a) (hb : IsFin b) :
    (|R64 (v a * v b)| < Ω spec ∧ IsFin (a * b) ∧ v (a * b) = R64 (v a * v b)) ∨
    (Ω spec ≤ R64 (v a * v b) ∧ U (a * b) = .infinity .positive) ∨
    (R64 (v a * v b) ≤ -Ω spec ∧ U (a * b) = .infinity .negative) := by
  have hv : val (UnpackedFloat.mul spec (U a) (U b)) = R64 (val (U a) * val (U b)) := val_mul spec ha hb
  have hf := isFinite_mul spec ha hb
  have hc := canon_mul spec (canon_U a) (canon_U b)
  unfold IsFin v
  rw [U_mul, ← hv]
  rcases repack_cases spec heb hc hf with ⟨h1, h2⟩ | ⟨h1, h2⟩ | ⟨h1, h2⟩
  · left; rw [h2]; exact ⟨h1, hf, rfl⟩
  · right; left; exact ⟨h1, h2⟩
  · right; right; exact ⟨h1, h2⟩

/-- **`Float.add` rounds the exact sum** -/
theorem add_cases {a b : Float} (ha : IsFin a) (hb : IsFin b) :
    (|R64 (v a + v b)| < Ω spec ∧ IsFin (a + b) ∧ v (a + b) = R64 (v a + v b)) ∨
    (Ω spec ≤ R64 (v a + v b) ∧ U (a + b) = .infinity .positive) ∨
    (R64 (v a + v b) ≤ -Ω spec ∧ U (a + b) = .infinity .negative) := by
  have hv : val (UnpackedFloat.add spec (U a) (U b)) = R64 (val (U a) + val (U b)) :=
    val_add spec ha hb (canon_U a) (canon_U b)
  have hf := isFinite_add spec ha hb
  have hc := canon_add spec (canon_U a) (canon_U b)
  unfold IsFin v
  rw [U_add, ← hv]
  rcases repack_cases spec heb hc hf with ⟨h1, h2⟩ | ⟨h1, h2⟩ | ⟨h1, h2⟩
  · left; rw [h2]; exact ⟨h1, hf, rfl⟩
  · right; left; exact ⟨h1, h2⟩
  · right; right; exact ⟨h1, h2⟩

/-- **magic-number rounding on `Float`**: for finite `0 ≤ a ≤ 2^52 − 1`, the bit pattern of `a + 2^52` is
`0x4330000000000000 + rne a` -/
theorem toBits_add_magic {a c : Float} (fa : IsFin a) (h0 : 0 ≤ v a) (h1 : v a ≤ 2^52 - 1)
    (hc : U c = magicC spec) :
    (a + c).toBits.toNat = 0x4330000000000000 + (rne (v a)).toNat ∧ (rne (v a)).toNat ≤ 2^52 - 1 := by
  obtain ⟨h, heq, hle⟩ := add_magic spec (canon_U a) fa h0 (by have : spec.mantissaBits - 1 = 52 := rfl; rw [this]; exact h1)
  refine ⟨?_, hle⟩
  show (Float.Model.pack (UnpackedFloat.add spec (U a) (U c))).toBits.toNat = _
  rw [hc, heq]
  show (UnpackedFloat.pack spec _).toNat = _
  rw [toNat_pack_magic spec (by rfl) hle h (by decide)]
  rfl

/-! ### infinities and NaN -/

theorem not_nan_of_inf {a : Float} {s : Sign} (h : U a = .infinity s) : a.isNaN = false := by
  rw [isNaN_eq, h]; rfl

theorem nan_of_U {a : Float} (h : U a = .notANumber) : a.isNaN = true := by
  rw [isNaN_eq, h]; rfl

theorem U_nan_of_isNaN {a : Float} (h : a.isNaN = true) : U a = .notANumber := by
  rw [isNaN_eq] at h
  cases hu : U a <;> rw [hu] at h <;> simp_all [UnpackedFloat.isNaN]

/-- a non-NaN float is `−∞`, finite, or `+∞` -/
theorem cases_of_not_nan {a : Float} (h : a.isNaN = false) :
    U a = .infinity .negative ∨ IsFin a ∨ U a = .infinity .positive := by
  rw [isNaN_eq] at h
  unfold IsFin
  cases hu : U a <;> rw [hu] at h <;> simp_all [UnpackedFloat.isNaN, UnpackedFloat.isFinite]
  rename_i s; cases s <;> simp

theorem lt_posInf {a b : Float} (hb : IsFin b) (ha : U a = .infinity .positive) : b < a := by
  rw [lt_iff_U, ha]; unfold IsFin at hb
  cases hu : U b <;> rw [hu] at hb <;> simp_all [UnpackedFloat.isFinite, UnpackedFloat.lt, UnpackedFloat.compare]

theorem not_lt_negInf {a b : Float} (hb : IsFin b) (ha : U a = .infinity .negative) : ¬ b < a := by
  rw [lt_iff_U, ha]; unfold IsFin at hb
  cases hu : U b <;> rw [hu] at hb <;> simp_all [UnpackedFloat.isFinite, UnpackedFloat.lt, UnpackedFloat.compare]

theorem negInf_lt {a b : Float} (hb : IsFin b) (ha : U a = .infinity .negative) : a < b := by
  rw [lt_iff_U, ha]; unfold IsFin at hb
  cases hu : U b <;> rw [hu] at hb <;> simp_all [UnpackedFloat.isFinite, UnpackedFloat.lt, UnpackedFloat.compare]

theorem not_posInf_le {a b : Float} (hb : IsFin b) (ha : U a = .infinity .positive) : ¬ a ≤ b := by
  rw [le_iff_U, ha]; unfold IsFin at hb
  cases hu : U b <;> rw [hu] at hb <;> simp_all [UnpackedFloat.isFinite, UnpackedFloat.le, UnpackedFloat.compare]

theorem not_le_negInf {a b : Float} (hb : IsFin b) (ha : U a = .infinity .negative) : ¬ b ≤ a := by
  rw [le_iff_U, ha]; unfold IsFin at hb
  cases hu : U b <;> rw [hu] at hb <;> simp_all [UnpackedFloat.isFinite, UnpackedFloat.le, UnpackedFloat.compare]

theorem not_posInf_le_negInf {a b : Float} (ha : U a = .infinity .positive) (hb : U b = .infinity .negative) : ¬ a ≤ b := by
  rw [le_iff_U, ha, hb]; simp [UnpackedFloat.le, UnpackedFloat.compare, compare]

theorem U_mul_nan {a b : Float} (ha : U a = .notANumber) : U (a * b) = .notANumber := by
  rw [U_mul, ha]
  have : UnpackedFloat.mul spec .notANumber (U b) = .notANumber := by cases U b <;> rfl
  rw [this, repack_nan]

theorem U_mul_inf {a b : Float} {s : Sign} (ha : U a = .infinity s) (hb : IsFin b) (hpos : 0 < v b) :
    U (a * b) = .infinity s := by
  rw [U_mul, ha]
  unfold IsFin at hb; unfold v at hpos
  cases hu : U b <;> rw [hu] at hb hpos <;> simp only [UnpackedFloat.isFinite, Bool.false_eq_true] at hb
  · simp [val] at hpos
  · rename_i s₂ m e h
    cases s₂
    · rw [val_neg_eq] at hpos; have := mag_pos h e; linarith
    · simp only [UnpackedFloat.mul]
      cases s <;> exact repack_inf spec _

theorem not_nan_of_le {a b : Float} (h : a ≤ b) : a.isNaN = false ∧ b.isNaN = false := by
  rw [le_iff_U] at h
  rw [isNaN_eq, isNaN_eq]
  cases ha : U a <;> cases hb : U b <;> rw [ha, hb] at h <;>
    simp_all [UnpackedFloat.le, UnpackedFloat.compare, UnpackedFloat.isNaN]

theorem isInf_eq (a : Float) : a.isInf = (U a).isInf := rfl

theorem isInf_of_U {a : Float} {s : Sign} (h : U a = .infinity s) : a.isInf = true := by
  rw [isInf_eq, h]; rfl

theorem IsFin.not_inf {a : Float} (h : IsFin a) : a.isInf = false := by
  rw [isInf_eq]; unfold IsFin at h
  cases hu : U a <;> rw [hu] at h <;> simp_all [UnpackedFloat.isFinite, UnpackedFloat.isInf]

end Ieee.F64
