/-
  IEEE reasoning layer, binary32 instance, part 2: `-`, `/`, unary `-`, `abs`, `toUInt64`, `UInt64.toFloat` on exact
  values, and the no-overflow corollaries used by rounding-error arguments (`*_of_le`: a natural-number bound below `2^53`
  on the exact result keeps everything finite).
-/
import PaletteProofs.Ieee.F64
import PaletteProofs.Ieee.Unpack

namespace Ieee.F64
open Float.Model Float.Model.UnpackedFloat Ieee

theorem expOK_U (x : Float) : ExpOK spec (U x) := expOK_unpack spec heb _

theorem U_neg (a : Float) : U (-a) = (U a).neg := by
  show repack spec (U a).neg = _
  exact repack_of_expOK spec (canon_neg (canon_U a)) (expOK_neg (expOK_U a))

theorem U_abs (a : Float) : U (Float.abs a) = (U a).abs := by
  show repack spec (U a).abs = _
  exact repack_of_expOK spec (canon_abs (canon_U a)) (expOK_abs (expOK_U a))

theorem v_neg (a : Float) : v (-a) = - v a := by unfold v; rw [U_neg, val_neg]
theorem v_abs (a : Float) : v (Float.abs a) = |v a| := by unfold v; rw [U_abs, val_abs]
theorem IsFin.neg {a : Float} (h : IsFin a) : IsFin (-a) := by
  unfold IsFin at *; rw [U_neg, isFinite_neg]; exact h
theorem IsFin.abs {a : Float} (h : IsFin a) : IsFin (Float.abs a) := by
  unfold IsFin at *; rw [U_abs, isFinite_abs]; exact h

theorem U_sub (a b : Float) : U (a - b) = repack spec (UnpackedFloat.sub spec (U a) (U b)) := rfl
theorem U_div (a b : Float) : U (a / b) = repack spec (UnpackedFloat.div spec (U a) (U b)) := rfl

/-- **`Float.sub` rounds the exact difference** -/
theorem sub_cases {a b : Float} (ha : IsFin a) (hb : IsFin b) :
    (|R64 (v a - v b)| < Ω spec ∧ IsFin (a - b) ∧ v (a - b) = R64 (v a - v b)) ∨
    (Ω spec ≤ R64 (v a - v b) ∧ U (a - b) = .infinity .positive) ∨
    (R64 (v a - v b) ≤ -Ω spec ∧ U (a - b) = .infinity .negative) := by
  have hv : val (UnpackedFloat.sub spec (U a) (U b)) = R64 (val (U a) - val (U b)) :=
    val_sub spec ha hb (canon_U a) (canon_U b)
  have hf := isFinite_sub spec ha hb
  have hc := canon_sub spec (canon_U a) (canon_U b)
  unfold IsFin v
  rw [U_sub, ← hv]
  rcases repack_cases spec heb hc hf with ⟨h1, h2⟩ | ⟨h1, h2⟩ | ⟨h1, h2⟩
  · left; rw [h2]; exact ⟨h1, hf, rfl⟩
  · right; left; exact ⟨h1, h2⟩
  · right; right; exact ⟨h1, h2⟩

/-- **`Float.div` rounds the exact quotient** (finite operands, non-zero divisor) -/
theorem div_cases {a b : Float} (ha : IsFin a) (hb : IsFin b) (hb0 : v b ≠ 0) :
    (|R64 (v a / v b)| < Ω spec ∧ IsFin (a / b) ∧ v (a / b) = R64 (v a / v b)) ∨
    (Ω spec ≤ R64 (v a / v b) ∧ U (a / b) = .infinity .positive) ∨
    (R64 (v a / v b) ≤ -Ω spec ∧ U (a / b) = .infinity .negative) := by
  have hv : val (UnpackedFloat.div spec (U a) (U b)) = R64 (val (U a) / val (U b)) := val_div spec ha hb hb0
  have hf := isFinite_div spec ha hb hb0
  have hc := canon_div spec (U a) (U b)
  unfold IsFin v
  rw [U_div, ← hv]
  rcases repack_cases spec heb hc hf with ⟨h1, h2⟩ | ⟨h1, h2⟩ | ⟨h1, h2⟩
  · left; rw [h2]; exact ⟨h1, hf, rfl⟩
  · right; left; exact ⟨h1, h2⟩
  · right; right; exact ⟨h1, h2⟩

/-! ### no-overflow corollaries -/

theorem Ω_eq : Ω spec = 2^1024 := by norm_num [Ω]

theorem R64_mono {x y : ℚ} (h : x ≤ y) : R64 x ≤ R64 y := R_mono (one_le_mantissaBits spec) h

theorem R64_natCast {n : ℕ} (hn : n < 2^53) : R64 (n : ℚ) = n := R_natCast_of_lt hn (by decide)

theorem R64_intCast {n : ℤ} (hn : |n| < 2^53) : R64 (n : ℚ) = n := by
  have := R_fix (p := spec.mantissaBits) (emin := spec.minExponent) (n := n) (t := 0) hn (by decide)
  simpa using this

theorem R64_abs_le_nat {z : ℚ} {n : ℕ} (hn : n < 2^53) (h : |z| ≤ n) : |R64 z| ≤ n := by
  rw [abs_le] at h ⊢
  constructor
  · have := R64_mono h.1
    rw [show (-(n : ℚ)) = ((-(n : ℤ) : ℤ) : ℚ) by push_cast; rfl, R64_intCast (by rw [abs_neg]; exact_mod_cast hn)] at this
    push_cast at this; exact this
  · have := R64_mono h.2
    rwa [R64_natCast hn] at this

theorem lt_Ω_of_le_nat {r : ℚ} {n : ℕ} (hn : n < 2^53) (h : |r| ≤ n) : |r| < Ω spec := by
  rw [Ω_eq]
  have h1 : (n : ℚ) < 2^53 := by exact_mod_cast hn
  have h2 : (2 : ℚ)^53 ≤ 2^1024 := pow_le_pow_right₀ (by norm_num) (by norm_num)
  calc |r| ≤ n := h
    _ < 2^53 := h1
    _ ≤ 2^1024 := h2

theorem fin_of_cases {c : Float} {r : ℚ}
    (h : (|r| < Ω spec ∧ IsFin c ∧ v c = r) ∨ (Ω spec ≤ r ∧ U c = .infinity .positive) ∨
         (r ≤ -Ω spec ∧ U c = .infinity .negative)) (hr : |r| < Ω spec) : IsFin c ∧ v c = r := by
  rw [abs_lt] at hr
  rcases h with ⟨_, h⟩ | ⟨h, _⟩ | ⟨h, _⟩
  · exact h
  · linarith
  · linarith

theorem mul_of_le {a b : Float} (ha : IsFin a) (hb : IsFin b) {n : ℕ} (hn : n < 2^53) (h : |v a * v b| ≤ n) :
    IsFin (a * b) ∧ v (a * b) = R64 (v a * v b) :=
  fin_of_cases (mul_cases ha hb) (lt_Ω_of_le_nat hn (R64_abs_le_nat hn h))

theorem add_of_le {a b : Float} (ha : IsFin a) (hb : IsFin b) {n : ℕ} (hn : n < 2^53) (h : |v a + v b| ≤ n) :
    IsFin (a + b) ∧ v (a + b) = R64 (v a + v b) :=
  fin_of_cases (add_cases ha hb) (lt_Ω_of_le_nat hn (R64_abs_le_nat hn h))

theorem sub_of_le {a b : Float} (ha : IsFin a) (hb : IsFin b) {n : ℕ} (hn : n < 2^53) (h : |v a - v b| ≤ n) :
    IsFin (a - b) ∧ v (a - b) = R64 (v a - v b) :=
  fin_of_cases (sub_cases ha hb) (lt_Ω_of_le_nat hn (R64_abs_le_nat hn h))

theorem div_of_le {a b : Float} (ha : IsFin a) (hb : IsFin b) (hb0 : v b ≠ 0) {n : ℕ} (hn : n < 2^53)
    (h : |v a / v b| ≤ n) : IsFin (a / b) ∧ v (a / b) = R64 (v a / v b) :=
  fin_of_cases (div_cases ha hb hb0) (lt_Ω_of_le_nat hn (R64_abs_le_nat hn h))

/-! ### conversions -/

theorem toUInt64_eq {a : Float} (ha : IsFin a) (h0 : 0 ≤ v a) (h1 : v a < 2^64) :
    (a.toUInt64.toNat : ℤ) = ⌊v a⌋ := by
  show ((UnpackedFloat.toUInt64 (U a)).toNat : ℤ) = _
  unfold UnpackedFloat.toUInt64
  rw [toInt_of_nonneg ha h0]
  have hf0 : 0 ≤ ⌊v a⌋ := Int.floor_nonneg.mpr h0
  have hf1 : ⌊v a⌋ < 2^64 := by
    rw [Int.floor_lt]; exact_mod_cast h1
  have hlt : ⌊val (U a)⌋.toNat < UInt64.size := by
    have : ⌊v a⌋.toNat < 2^64 := by omega
    exact this
  rw [UInt64.ofNatClamp_eq_ofNat _ hlt, UInt64.toNat_ofNat_of_lt' hlt]
  show ((⌊v a⌋.toNat : ℕ) : ℤ) = _
  omega

theorem U_toFloat (n : UInt64) : U n.toFloat = repack spec (UnpackedFloat.ofNat spec n.toNat) := rfl

theorem toFloat_small (n : UInt64) (h : n.toNat < 2^53) : IsFin n.toFloat ∧ v n.toFloat = n.toNat := by
  have hv : val (UnpackedFloat.ofNat spec n.toNat) = (n.toNat : ℚ) := by
    rw [val_ofNat]; exact R64_natCast h
  have hf := isFinite_ofNat spec n.toNat
  have hc := canon_ofNat spec n.toNat
  unfold IsFin v
  rw [U_toFloat]
  rcases repack_cases spec heb hc hf with ⟨_, h2⟩ | ⟨h1, _⟩ | ⟨h1, _⟩
  · rw [h2]; exact ⟨hf, hv⟩
  · exfalso; rw [hv, Ω_eq] at h1
    have : (n.toNat : ℚ) < 2^53 := by exact_mod_cast h
    have h2 : (2 : ℚ)^53 ≤ 2^1024 := pow_le_pow_right₀ (by norm_num) (by norm_num)
    exact absurd h1 (not_le.mpr (lt_of_lt_of_le this h2))
  · exfalso; rw [hv] at h1
    have h3 : (0 : ℚ) ≤ n.toNat := Nat.cast_nonneg _
    exact absurd h1 (not_le.mpr (lt_of_lt_of_le (neg_neg_of_pos (Ω_pos spec)) h3))

end Ieee.F64
