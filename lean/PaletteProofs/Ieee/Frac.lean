/-
  IEEE reasoning layer: integer and fractional parts of a float.
  * `frac_fix`: the fractional part `x − ⌊x⌋` of a non-negative canonical float is representable (so `x − trunc x` is computed
    exactly, whatever the format);
  * `isInt_of_large`: a canonical float of magnitude at least `2^(p−1)` is an integer;
  * `scale_up_fix`: multiplying a float by `2^w` is exact.
  Instances for binary32 / binary64 (`F32.R32_frac`, `F64.R64_frac`, `F32.isInt_of_large`, `F64.isInt_of_large`).
-/
import PaletteProofs.Ieee.F32Ops
import PaletteProofs.Ieee.F64Ops
import Mathlib.Algebra.Order.Floor.Ring

namespace Ieee
open Float.Model Float.Model.UnpackedFloat

theorem frac_fix (spec : Format) {m : ℕ} {e : ℤ} (cm : CanonME spec m e) :
    Rs spec (mag m e - ⌊mag m e⌋) = mag m e - ⌊mag m e⌋ := by
  have hfl := trunc_eq_floor m e
  unfold mag
  rw [← hfl]
  rcases le_total 0 e with he | he
  · have h1 : (-e).toNat = 0 := by omega
    have h2 : (e.toNat : ℤ) = e := by omega
    rw [h1, pow_zero, Nat.div_one]
    have : (2 : ℚ)^e = 2^e.toNat := by rw [← zpow_natCast, h2]
    rw [this]; push_cast; rw [sub_self]; exact Rs_zero spec
  · have h1 : e.toNat = 0 := by omega
    have h2 : ((-e).toNat : ℤ) = -e := by omega
    rw [h1, pow_zero, Nat.mul_one]
    set k := (-e).toNat with hk
    have hp : (0 : ℚ) < 2^k := by positivity
    have h2e : (2 : ℚ)^e = 1 / 2^k := by rw [← zpow_natCast, h2, zpow_neg]; simp
    have hdm := Nat.div_add_mod m (2^k)
    have hr : m % 2^k < 2^k := Nat.mod_lt _ (Nat.pos_of_ne_zero (by simp))
    have hrm : m % 2^k ≤ m := Nat.mod_le _ _
    have key : (m : ℚ) * 2^e - (((m / 2^k : ℕ) : ℤ) : ℚ) = (((m % 2^k : ℕ) : ℤ) : ℚ) * 2^e := by
      have hm : (m : ℚ) = (2^k : ℚ) * ((m / 2^k : ℕ) : ℚ) + ((m % 2^k : ℕ) : ℚ) := by exact_mod_cast hdm.symm
      rw [h2e, Int.cast_natCast, Int.cast_natCast]
      generalize ((m / 2^k : ℕ) : ℚ) = q at hm ⊢
      generalize ((m % 2^k : ℕ) : ℚ) = r at hm ⊢
      rw [hm]; field_simp; ring
    rw [key]
    apply R_fix (p := spec.mantissaBits) (emin := spec.minExponent)
    · rw [abs_of_nonneg (by positivity)]
      have := cm.lt
      exact_mod_cast lt_of_le_of_lt hrm this
    · exact cm.emin_le

theorem frac_fix_val (spec : Format) {f : UnpackedFloat} (cf : Canon spec f) (ff : f.isFinite = true) (h0 : 0 ≤ val f) :
    Rs spec (val f - ⌊val f⌋) = val f - ⌊val f⌋ := by
  cases f <;> simp only [UnpackedFloat.isFinite, Bool.false_eq_true] at ff
  · simp [val, Rs_zero]
  · rename_i s m e hm
    cases s
    · rw [val_neg_eq] at h0; have := mag_pos hm e; linarith
    · rw [val_pos_eq]; exact frac_fix spec cf

theorem isInt_of_large_val (spec : Format) {f : UnpackedFloat} (cf : Canon spec f) (ff : f.isFinite = true)
    (h : (2 : ℚ)^(spec.mantissaBits - 1) ≤ |val f|) : ∃ n : ℤ, val f = n := by
  have hp := one_le_mantissaBits spec
  cases f <;> simp only [UnpackedFloat.isFinite, Bool.false_eq_true] at ff
  · exact ⟨0, by simp [val]⟩
  · rename_i s m e hm
    have hcm : CanonME spec m e := cf
    have he : 0 ≤ e := by
      by_contra hneg
      have hlt : (m : ℚ) < 2^spec.mantissaBits := by exact_mod_cast hcm.lt
      have h2 : (2 : ℚ)^e ≤ 2^(-1 : ℤ) := zpow_le_zpow_right₀ (by norm_num) (by omega)
      have hmag : mag m e < 2^(spec.mantissaBits - 1) := by
        unfold mag
        calc (m : ℚ) * 2^e < 2^spec.mantissaBits * 2^e := mul_lt_mul_of_pos_right hlt (two_zpow_pos e)
          _ ≤ 2^spec.mantissaBits * 2^(-1 : ℤ) := mul_le_mul_of_nonneg_left h2 (by positivity)
          _ = 2^(spec.mantissaBits - 1) := by
              obtain ⟨j, hj⟩ : ∃ j, spec.mantissaBits = j + 1 := ⟨spec.mantissaBits - 1, by omega⟩
              rw [hj, Nat.add_sub_cancel, pow_succ]; norm_num; ring
      have hpos := mag_pos hm e
      cases s
      · rw [val_neg_eq, abs_neg, abs_of_pos hpos] at h; linarith
      · rw [val_pos_eq, abs_of_pos hpos] at h; linarith
    obtain ⟨k, hk⟩ : ∃ k : ℕ, (k : ℤ) = e := ⟨e.toNat, by omega⟩
    cases s
    · exact ⟨-(m * 2^k : ℕ), by rw [val_neg_eq]; unfold mag; rw [← hk, zpow_natCast]; push_cast; ring⟩
    · exact ⟨(m * 2^k : ℕ), by rw [val_pos_eq]; unfold mag; rw [← hk, zpow_natCast]; push_cast; ring⟩

/-- scaling a canonical float up by `2^w` is exact (as a value; overflow is handled where it is used) -/
theorem scale_up_fix (spec : Format) {f : UnpackedFloat} (cf : Canon spec f) (ff : f.isFinite = true) (w : ℕ) :
    Rs spec (val f * 2^w) = val f * 2^w := by
  cases f <;> simp only [UnpackedFloat.isFinite, Bool.false_eq_true] at ff
  · simp [val, Rs_zero]
  · rename_i s m e hm
    have cm : CanonME spec m e := cf
    have key : val (.finite s m e hm) * 2^w = (((sgn s).num * m : ℤ) : ℚ) * 2^(e + w) := by
      simp only [val]
      rw [zpow_add₀ (by norm_num), zpow_natCast]
      cases s <;> simp [sgn] <;> ring
    rw [key]
    apply R_fix (p := spec.mantissaBits) (emin := spec.minExponent)
    · have : |(sgn s).num * (m : ℤ)| = m := by cases s <;> simp [sgn]
      rw [this]; exact_mod_cast cm.lt
    · have := cm.emin_le; omega

namespace F32
theorem R32_scale_up {x : Float32} (hx : IsFin x) (w : ℕ) : R32 (v x * 2^w) = v x * 2^w :=
  scale_up_fix spec (canon_U x) hx w
theorem R32_frac {x : Float32} (hx : IsFin x) (h0 : 0 ≤ v x) : R32 (v x - ⌊v x⌋) = v x - ⌊v x⌋ :=
  frac_fix_val spec (canon_U x) hx h0
theorem isInt_of_large {x : Float32} (hx : IsFin x) (h : 2^23 ≤ |v x|) : ∃ n : ℤ, v x = n :=
  isInt_of_large_val spec (canon_U x) hx h
end F32

namespace F64
theorem R64_scale_up' {x : Float} (hx : IsFin x) (w : ℕ) : R64 (v x * 2^w) = v x * 2^w :=
  scale_up_fix spec (canon_U x) hx w
theorem R64_frac {x : Float} (hx : IsFin x) (h0 : 0 ≤ v x) : R64 (v x - ⌊v x⌋) = v x - ⌊v x⌋ :=
  frac_fix_val spec (canon_U x) hx h0
theorem isInt_of_large {x : Float} (hx : IsFin x) (h : 2^52 ≤ |v x|) : ∃ n : ℤ, v x = n :=
  isInt_of_large_val spec (canon_U x) hx h
end F64

end Ieee
