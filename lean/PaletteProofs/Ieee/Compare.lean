/-
  IEEE reasoning layer, part 7: every unpacked bit pattern is canonical, canonical representations are unique, and
  `compare`/`lt`/`le` of the model agree with the order of the exact values on finite canonical floats.
-/
import PaletteProofs.Ieee.Pack

namespace Ieee
open Float.Model Float.Model.UnpackedFloat

theorem canon_unpack (spec : Format) (b : BitVec spec.numBits) : Canon spec (UnpackedFloat.unpack spec b) := by
  have hme := minExponent_eq spec
  have hp : spec.mantissaBits = spec.mantissaBitsWithoutImplicit + 1 := by unfold Format.mantissaBits; omega
  unfold UnpackedFloat.unpack
  simp only
  split
  · split <;> trivial
  · split
    · rename_i h0
      split
      · trivial
      · refine ⟨?_, ?_, Or.inr (Or.inr ?_)⟩
        · have := (unpackMantissa b).isLt
          rw [hp, Nat.pow_succ]; omega
        · rw [h0]; simp; omega
        · rw [h0]; simp; omega
    · rename_i h1 h0
      have hE : 0 < (unpackExponent b).toNat := by
        rcases Nat.eq_zero_or_pos (unpackExponent b).toNat with h | h
        · exact absurd (BitVec.eq_of_toNat_eq (by simpa using h)) h0
        · exact h
      have hm : (1#1 ++ unpackMantissa b).toNat = 2^spec.mantissaBitsWithoutImplicit + (unpackMantissa b).toNat := by
        rw [BitVec.toNat_append, ← Nat.shiftLeft_add_eq_or_of_lt (unpackMantissa b).isLt, Nat.shiftLeft_eq]; simp
      have := (unpackMantissa b).isLt
      refine ⟨?_, ?_, Or.inr (Or.inl ?_)⟩
      · rw [hm, hp, Nat.pow_succ]; omega
      · omega
      · rw [hm, hp, Nat.add_sub_cancel]; omega

def mag (m : ℕ) (e : ℤ) : ℚ := (m : ℚ) * 2^e

theorem mag_pos {m : ℕ} (hm : 0 < m) (e : ℤ) : 0 < mag m e :=
  mul_pos (by exact_mod_cast hm) (two_zpow_pos e)

theorem val_pos_eq (m : ℕ) (e : ℤ) (h : 0 < m) : val (.finite .positive m e h) = mag m e := by
  simp [val, sgn, mag]

theorem val_neg_eq (m : ℕ) (e : ℤ) (h : 0 < m) : val (.finite .negative m e h) = - mag m e := by
  simp [val, sgn, mag]

theorem mag_lt_of_exp_lt {spec : Format} {m₁ m₂ : ℕ} {e₁ e₂ : ℤ} (c₁ : CanonME spec m₁ e₁) (c₂ : CanonME spec m₂ e₂)
    (h₂ : 0 < m₂) (he : e₁ < e₂) : mag m₁ e₁ < mag m₂ e₂ := by
  have hp := one_le_mantissaBits spec
  have hn : 2^(spec.mantissaBits - 1) ≤ m₂ := by
    rcases c₂.norm with h | h | h
    · omega
    · exact h
    · have := c₁.emin_le; omega
  have h1 : (m₁ : ℚ) < 2^spec.mantissaBits := by exact_mod_cast c₁.lt
  have h2 : (2 : ℚ)^(spec.mantissaBits - 1) ≤ m₂ := by exact_mod_cast hn
  unfold mag
  calc (m₁ : ℚ) * 2^e₁ < 2^spec.mantissaBits * 2^e₁ := mul_lt_mul_of_pos_right h1 (two_zpow_pos _)
    _ = 2^(spec.mantissaBits - 1) * 2^(e₁ + 1) := by
        obtain ⟨j, hj⟩ : ∃ j, spec.mantissaBits = j + 1 := ⟨spec.mantissaBits - 1, by omega⟩
        rw [hj, Nat.add_sub_cancel, pow_succ, zpow_add₀ (by norm_num)]; ring
    _ ≤ 2^(spec.mantissaBits - 1) * 2^e₂ :=
        mul_le_mul_of_nonneg_left (zpow_le_zpow_right₀ (by norm_num) (by omega)) (by positivity)
    _ ≤ (m₂ : ℚ) * 2^e₂ := mul_le_mul_of_nonneg_right h2 (two_zpow_pos _).le

theorem compare_mag {spec : Format} {m₁ m₂ : ℕ} {e₁ e₂ : ℤ} (c₁ : CanonME spec m₁ e₁) (c₂ : CanonME spec m₂ e₂)
    (h₁ : 0 < m₁) (h₂ : 0 < m₂) :
    (compare e₁ e₂).then (compare m₁ m₂) = compare (mag m₁ e₁) (mag m₂ e₂) := by
  rcases lt_trichotomy e₁ e₂ with he | he | he
  · rw [compare_lt_iff_lt.mpr he, (compare_lt_iff_lt (a := mag m₁ e₁)).mpr (mag_lt_of_exp_lt c₁ c₂ h₂ he)]; rfl
  · subst he
    rw [compare_eq_iff_eq.mpr rfl]
    simp only [Ordering.then]
    rcases lt_trichotomy m₁ m₂ with hm | hm | hm
    · rw [compare_lt_iff_lt.mpr hm, (compare_lt_iff_lt (a := mag m₁ e₁)).mpr]
      exact mul_lt_mul_of_pos_right (by exact_mod_cast hm) (two_zpow_pos _)
    · subst hm; rw [compare_eq_iff_eq.mpr rfl, compare_eq_iff_eq.mpr rfl]
    · rw [compare_gt_iff_gt.mpr hm, (compare_gt_iff_gt (a := mag m₁ e₁)).mpr]
      exact mul_lt_mul_of_pos_right (by exact_mod_cast hm) (two_zpow_pos _)
  · rw [compare_gt_iff_gt.mpr he, (compare_gt_iff_gt (a := mag m₁ e₁)).mpr (mag_lt_of_exp_lt c₂ c₁ h₁ he)]; rfl

/-- on finite canonical floats the model's comparison is the comparison of exact values -/
theorem compare_eq_val {spec : Format} {a b : UnpackedFloat} (ca : Canon spec a) (cb : Canon spec b)
    (fa : a.isFinite = true) (fb : b.isFinite = true) :
    a.compare b = some (compare (val a) (val b)) := by
  cases a <;> cases b <;> simp only [UnpackedFloat.isFinite, Bool.false_eq_true] at fa fb
  · simp [UnpackedFloat.compare, val]
  · rename_i s₁ s₂ m₂ e₂ h₂
    cases s₂
    · simp only [UnpackedFloat.compare, val_neg_eq, show val (UnpackedFloat.zero s₁) = 0 from rfl]
      rw [(compare_gt_iff_gt (a := (0 : ℚ))).mpr (by have := mag_pos h₂ e₂; linarith)]
    · simp only [UnpackedFloat.compare, val_pos_eq, show val (UnpackedFloat.zero s₁) = 0 from rfl]
      rw [(compare_lt_iff_lt (a := (0 : ℚ))).mpr (mag_pos h₂ e₂)]
  · rename_i s₁ m₁ e₁ h₁ s₂
    cases s₁
    · simp only [UnpackedFloat.compare, val_neg_eq, show val (UnpackedFloat.zero s₂) = 0 from rfl]
      rw [(compare_lt_iff_lt (b := (0 : ℚ))).mpr (by have := mag_pos h₁ e₁; linarith)]
    · simp only [UnpackedFloat.compare, val_pos_eq, show val (UnpackedFloat.zero s₂) = 0 from rfl]
      rw [(compare_gt_iff_gt (b := (0 : ℚ))).mpr (mag_pos h₁ e₁)]
  · rename_i s₁ m₁ e₁ h₁ s₂ m₂ e₂ h₂
    have p₁ := mag_pos h₁ e₁
    have p₂ := mag_pos h₂ e₂
    cases s₁ <;> cases s₂ <;> simp only [UnpackedFloat.compare, val_neg_eq, val_pos_eq]
    · rw [compare_mag ca cb h₁ h₂]
      congr 1
      rcases lt_trichotomy (mag m₁ e₁) (mag m₂ e₂) with h | h | h
      · rw [compare_lt_iff_lt.mpr h, compare_gt_iff_gt.mpr (by linarith : -mag m₂ e₂ < -mag m₁ e₁)]; rfl
      · rw [h, compare_eq_iff_eq.mpr rfl, compare_eq_iff_eq.mpr rfl]; rfl
      · rw [compare_gt_iff_gt.mpr h, compare_lt_iff_lt.mpr (by linarith : -mag m₁ e₁ < -mag m₂ e₂)]; rfl
    · rw [compare_lt_iff_lt.mpr (by linarith : -mag m₁ e₁ < mag m₂ e₂)]
    · rw [compare_gt_iff_gt.mpr (by linarith : -mag m₂ e₂ < mag m₁ e₁)]
    · rw [compare_mag ca cb h₁ h₂]

theorem lt_iff_val {spec : Format} {a b : UnpackedFloat} (ca : Canon spec a) (cb : Canon spec b)
    (fa : a.isFinite = true) (fb : b.isFinite = true) : a.lt b = true ↔ val a < val b := by
  unfold UnpackedFloat.lt
  rw [compare_eq_val ca cb fa fb]
  rcases lt_trichotomy (val a) (val b) with h | h | h
  · simp [compare_lt_iff_lt.mpr h, h]
  · simp [h]
  · simp [compare_gt_iff_gt.mpr h, not_lt.mpr h.le]

theorem le_iff_val {spec : Format} {a b : UnpackedFloat} (ca : Canon spec a) (cb : Canon spec b)
    (fa : a.isFinite = true) (fb : b.isFinite = true) : a.le b = true ↔ val a ≤ val b := by
  unfold UnpackedFloat.le
  rw [compare_eq_val ca cb fa fb]
  rcases lt_trichotomy (val a) (val b) with h | h | h
  · simp [compare_lt_iff_lt.mpr h, h.le]
  · simp [h]
  · simp [compare_gt_iff_gt.mpr h, not_le.mpr h]

/-- canonical representations are unique -/
theorem canon_unique {spec : Format} {m₁ m₂ : ℕ} {e₁ e₂ : ℤ} (c₁ : CanonME spec m₁ e₁) (c₂ : CanonME spec m₂ e₂)
    (h₁ : 0 < m₁) (h₂ : 0 < m₂) (h : mag m₁ e₁ = mag m₂ e₂) : m₁ = m₂ ∧ e₁ = e₂ := by
  rcases lt_trichotomy e₁ e₂ with he | he | he
  · have := mag_lt_of_exp_lt c₁ c₂ h₂ he; linarith
  · subst he
    refine ⟨?_, rfl⟩
    unfold mag at h
    have := mul_right_cancel₀ (two_zpow_pos e₁).ne' h
    exact_mod_cast this
  · have := mag_lt_of_exp_lt c₂ c₁ h₁ he; linarith

end Ieee
