/-
  IEEE reasoning layer, part 6: packing a canonical unpacked float into the bit format and unpacking it again.
-/
import PaletteProofs.Ieee.Ops

namespace Ieee
open Float.Model Float.Model.UnpackedFloat

theorem unpackSign_packComponents {spec : Format} {sign exponent mantissa} :
    unpackSign (packComponents spec sign exponent mantissa) = sign.toBitVec := by
  ext i hi
  have : i = 0 := by omega
  subst this
  simp [unpackSign, packComponents, BitVec.getLsbD_eq_getElem, BitVec.getLsbD_append, BitVec.getElem_append]

theorem ofBitVec_toBitVec (s : Sign) : Sign.ofBitVec s.toBitVec = s := by
  cases s <;> simp [Sign.ofBitVec, Sign.toBitVec]

theorem unpack_packComponents (spec : Format) (s : Sign) (E : BitVec spec.exponentBits)
    (M : BitVec spec.mantissaBitsWithoutImplicit) :
    UnpackedFloat.unpack spec (packComponents spec s E M) =
      if E = -1#_ then (if M = 0#_ then .infinity s else .notANumber)
      else if E = 0#_ then
        (if h : M = 0#_ then .zero s
         else .finite s M.toNat ((E.toNat : ℤ) - (spec.exponentBias + spec.mantissaBitsWithoutImplicit) + 1)
            (by simpa [BitVec.toNat_pos, BitVec.pos_iff_ne_zero]))
      else .finite s (1#1 ++ M).toNat ((E.toNat : ℤ) - (spec.exponentBias + spec.mantissaBitsWithoutImplicit)) (by simp) := by
  simp only [UnpackedFloat.unpack, unpackMantissa_packComponents, unpackExponent_packComponents, unpackSign_packComponents,
    ofBitVec_toBitVec]

theorem finite_congr {s : Sign} {m m' : ℕ} {e e' : ℤ} {h : 0 < m} {h' : 0 < m'} (hm : m = m') (he : e = e') :
    UnpackedFloat.finite s m e h = UnpackedFloat.finite s m' e' h' := by
  subst hm he; rfl

/-- biased exponent field of a finite float -/
def biasedExp (spec : Format) (e : ℤ) : ℕ := (e + spec.exponentBias + spec.mantissaBitsWithoutImplicit).toNat

theorem pack_finite_eq (spec : Format) (s : Sign) (m : ℕ) (e : ℤ) (hm : 0 < m) :
    UnpackedFloat.pack spec (.finite s m e hm) =
      if 2^spec.exponentBits ≤ biasedExp spec e + 1 then packedInfinity spec s
      else if m.log2 + 1 = spec.mantissaBits then
        packComponents spec s (BitVec.ofNat _ (biasedExp spec e)) (BitVec.ofNat _ m)
      else packComponents spec s 0#_ (BitVec.ofNat _ m) := rfl

theorem minExponent_eq (spec : Format) :
    spec.minExponent = 1 - (spec.exponentBias : ℤ) - spec.mantissaBitsWithoutImplicit := by
  have h2 : 1 ≤ 2^(spec.exponentBits - 1) := Nat.one_le_two_pow
  unfold Format.minExponent Format.mantissaBits Format.exponentBias
  push_cast [h2]; omega

theorem neg_one_ne_zero_bv {w : ℕ} (hw : 0 < w) : (0#w) ≠ -1#w := by
  intro h
  have := congrArg BitVec.toNat h
  rw [BitVec.neg_one_eq_allOnes, BitVec.toNat_allOnes] at this
  have : 2 ≤ 2^w := by
    calc 2 = 2^1 := rfl
      _ ≤ 2^w := Nat.pow_le_pow_right (by norm_num) hw
  simp at *; omega

theorem unpack_packedInfinity (spec : Format) (s : Sign) :
    UnpackedFloat.unpack spec (packedInfinity spec s) = .infinity s := by
  unfold packedInfinity; rw [unpack_packComponents]; simp

theorem unpack_packedZero (spec : Format) (s : Sign) :
    UnpackedFloat.unpack spec (packedZero spec s) = .zero s := by
  unfold packedZero
  rw [unpack_packComponents, if_neg (show ¬ ((0 : BitVec spec.exponentBits) = -1#_) from neg_one_ne_zero_bv spec.he)]; simp

/-- pack then unpack is the identity on canonical finite floats below the overflow threshold -/
theorem unpack_pack_finite (spec : Format) (s : Sign) (m : ℕ) (e : ℤ) (hm : 0 < m) (hc : CanonME spec m e)
    (hov : biasedExp spec e + 1 < 2^spec.exponentBits) :
    UnpackedFloat.unpack spec (UnpackedFloat.pack spec (.finite s m e hm)) = .finite s m e hm := by
  have hme := minExponent_eq spec
  have hlt := hc.lt
  have hmin := hc.emin_le
  have hB : (biasedExp spec e : ℤ) = e + spec.exponentBias + spec.mantissaBitsWithoutImplicit := by
    unfold biasedExp; omega
  have hp : spec.mantissaBits = spec.mantissaBitsWithoutImplicit + 1 := by unfold Format.mantissaBits; omega
  rw [pack_finite_eq, if_neg (by omega)]
  by_cases hn : m.log2 + 1 = spec.mantissaBits
  · -- normal
    rw [if_pos hn, unpack_packComponents]
    have hBlt : biasedExp spec e < 2^spec.exponentBits := by omega
    have hE : (BitVec.ofNat spec.exponentBits (biasedExp spec e)).toNat = biasedExp spec e := by
      rw [BitVec.toNat_ofNat, Nat.mod_eq_of_lt hBlt]
    have hE1 : BitVec.ofNat spec.exponentBits (biasedExp spec e) ≠ -1#_ := by
      intro h; have := congrArg BitVec.toNat h
      rw [hE, BitVec.neg_one_eq_allOnes, BitVec.toNat_allOnes] at this; omega
    have hE0 : BitVec.ofNat spec.exponentBits (biasedExp spec e) ≠ 0#_ := by
      intro h; have := congrArg BitVec.toNat h
      rw [hE] at this; simp at this; omega
    rw [if_neg hE1, if_neg hE0]
    have hlo : 2^spec.mantissaBitsWithoutImplicit ≤ m := by
      have := Nat.log2_self_le (Nat.pos_iff_ne_zero.mp hm)
      rw [show m.log2 = spec.mantissaBitsWithoutImplicit by omega] at this; exact this
    have hhi : m < 2 * 2^spec.mantissaBitsWithoutImplicit := by
      rw [hp, Nat.pow_succ] at hlt; omega
    apply finite_congr
    · rw [BitVec.toNat_append, BitVec.toNat_ofNat, BitVec.toNat_ofNat]
      have hmod : m % 2^spec.mantissaBitsWithoutImplicit = m - 2^spec.mantissaBitsWithoutImplicit := by
        rw [Nat.mod_eq_sub_mod hlo, Nat.mod_eq_of_lt (by omega)]
      rw [hmod, ← Nat.shiftLeft_add_eq_or_of_lt (by omega), Nat.shiftLeft_eq]
      simp; omega
    · rw [hE]; omega
  · -- subnormal
    rw [if_neg hn, unpack_packComponents, if_neg (neg_one_ne_zero_bv spec.he)]
    have hlt' : m < 2^spec.mantissaBitsWithoutImplicit := by
      by_contra hge
      have h1 : spec.mantissaBitsWithoutImplicit ≤ m.log2 := (Nat.le_log2 (Nat.pos_iff_ne_zero.mp hm)).mpr (by omega)
      have h2 : m.log2 < spec.mantissaBits := (Nat.log2_lt (Nat.pos_iff_ne_zero.mp hm)).mpr hlt
      omega
    have he : e = spec.minExponent := by
      rcases hc.norm with h | h | h
      · omega
      · rw [hp, Nat.add_sub_cancel] at h; omega
      · exact h
    have hM : (BitVec.ofNat spec.mantissaBitsWithoutImplicit m).toNat = m := by
      rw [BitVec.toNat_ofNat, Nat.mod_eq_of_lt hlt']
    have hM0 : BitVec.ofNat spec.mantissaBitsWithoutImplicit m ≠ 0#_ := by
      intro h; have := congrArg BitVec.toNat h
      rw [hM] at this; simp at this; omega
    rw [if_pos rfl, dif_neg hM0]
    apply finite_congr hM
    simp; omega

/-- pack then unpack of a canonical finite float at or above the overflow threshold gives infinity -/
theorem unpack_pack_overflow (spec : Format) (s : Sign) (m : ℕ) (e : ℤ) (hm : 0 < m)
    (hov : 2^spec.exponentBits ≤ biasedExp spec e + 1) :
    UnpackedFloat.unpack spec (UnpackedFloat.pack spec (.finite s m e hm)) = .infinity s := by
  rw [pack_finite_eq, if_pos hov, unpack_packedInfinity]

end Ieee
