/-
  IEEE reasoning layer, binary32 instance, part 2: `-`, `/`, unary `-`, `abs`, `toUInt32`, `UInt32.toFloat32` on exact
  values, and the no-overflow corollaries used by rounding-error arguments (`*_of_le`: a natural-number bound below `2^24`
  on the exact result keeps everything finite).
-/
import PaletteProofs.Ieee.F32
import PaletteProofs.Ieee.Unpack

namespace Ieee.F32
open Float.Model Float.Model.UnpackedFloat Ieee

theorem expOK_U (x : Float32) : ExpOK spec (U x) := expOK_unpack spec heb _

theorem U_neg (a : Float32) : U (-a) = (U a).neg := by
  show repack spec (U a).neg = _
  exact repack_of_expOK spec (canon_neg (canon_U a)) (expOK_neg (expOK_U a))

theorem U_abs (a : Float32) : U (Float32.abs a) = (U a).abs := by
  show repack spec (U a).abs = _
  exact repack_of_expOK spec (canon_abs (canon_U a)) (expOK_abs (expOK_U a))

theorem v_neg (a : Float32) : v (-a) = - v a := by unfold v; rw [U_neg, val_neg]
theorem v_abs (a : Float32) : v (Float32.abs a) = |v a| := by unfold v; rw [U_abs, val_abs]
theorem IsFin.neg {a : Float32} (h : IsFin a) : IsFin (-a) := by
  unfold IsFin at *; rw [U_neg, isFinite_neg]; exact h
theorem IsFin.abs {a : Float32} (h : IsFin a) : IsFin (Float32.abs a) := by
  unfold IsFin at *; rw [U_abs, isFinite_abs]; exact h

theorem U_sub (a b : Float32) : U (a - b) = repack spec (UnpackedFloat.sub spec (U a) (U b)) := rfl
theorem U_div (a b : Float32) : U (a / b) = repack spec (UnpackedFloat.div spec (U a) (U b)) := rfl

/-- **`Float32.sub` rounds the exact difference** -/
theorem sub_cases {a b : Float32} (ha : IsFin a) (hb : IsFin b) :
    (|R32 (v a - v b)| < Ω spec ∧ IsFin (a - b) ∧ v (a - b) = R32 (v a - v b)) ∨
    (Ω spec ≤ R32 (v a - v b) ∧ U (a - b) = .infinity .positive) ∨
    (R32 (v a - v b) ≤ -Ω spec ∧ U (a - b) = .infinity .negative) := by
  have hv : val (UnpackedFloat.sub spec (U a) (U b)) = R32 (val (U a) - val (U b)) :=
    val_sub spec ha hb (canon_U a) (canon_U b)
  have hf := isFinite_sub spec ha hb
  have hc := canon_sub spec (canon_U a) (canon_U b)
  unfold IsFin v
  rw [U_sub, ← hv]
  rcases repack_cases spec heb hc hf with ⟨h1, h2⟩ | ⟨h1, h2⟩ | ⟨h1, h2⟩
  · left; rw [h2]; exact ⟨h1, hf, rfl⟩
  · right; left; exact ⟨h1, h2⟩
  · right; right; exact ⟨h1, h2⟩

/-- **`Float32.div` rounds the exact quotient** (finite operands, non-zero divisor) -/
theorem div_cases {a b : Float32} (ha : IsFin a) (hb : IsFin b) (hb0 : v b ≠ 0) :
    (|R32 (v a / v b)| < Ω spec ∧ IsFin (a / b) ∧ v (a / b) = R32 (v a / v b)) ∨
    (Ω spec ≤ R32 (v a / v b) ∧ U (a / b) = .infinity .positive) ∨
    (R32 (v a / v b) ≤ -Ω spec ∧ U (a / b) = .infinity .negative) := by
  have hv : val (UnpackedFloat.div spec (U a) (U b)) = R32 (val (U a) / val (U b)) := val_div spec ha hb hb0
  have hf := isFinite_div spec ha hb hb0
  have hc := canon_div spec (U a) (U b)
  unfold IsFin v
  rw [U_div, ← hv]
  rcases repack_cases spec heb hc hf with ⟨h1, h2⟩ | ⟨h1, h2⟩ | ⟨h1, h2⟩
  · left; rw [h2]; exact ⟨h1, hf, rfl⟩
  · right; left; exact ⟨h1, h2⟩
  · right; right; exact ⟨h1, h2⟩

/-! ### no-overflow corollaries -/

theorem Ω_eq : Ω spec = 2^128 := by norm_num [Ω]

theorem R32_mono {x y : ℚ} (h : x ≤ y) : R32 x ≤ R32 y := R_mono (one_le_mantissaBits spec) h

theorem R32_natCast {n : ℕ} (hn : n < 2^24) : R32 (n : ℚ) = n := R_natCast_of_lt hn (by decide)

theorem R32_intCast {n : ℤ} (hn : |n| < 2^24) : R32 (n : ℚ) = n := by
  have := R_fix (p := spec.mantissaBits) (emin := spec.minExponent) (n := n) (t := 0) hn (by decide)
  simpa using this

theorem R32_abs_le_nat {z : ℚ} {n : ℕ} (hn : n < 2^24) (h : |z| ≤ n) : |R32 z| ≤ n := by
  rw [abs_le] at h ⊢
  constructor
  · have := R32_mono h.1
    rw [show (-(n : ℚ)) = ((-(n : ℤ) : ℤ) : ℚ) by push_cast; rfl, R32_intCast (by rw [abs_neg]; exact_mod_cast hn)] at this
    push_cast at this; exact this
  · have := R32_mono h.2
    rwa [R32_natCast hn] at this

theorem lt_Ω_of_le_nat {r : ℚ} {n : ℕ} (hn : n < 2^24) (h : |r| ≤ n) : |r| < Ω spec := by
  rw [Ω_eq]
  have h1 : (n : ℚ) < 2^24 := by exact_mod_cast hn
  have h2 : (2 : ℚ)^24 ≤ 2^128 := pow_le_pow_right₀ (by norm_num) (by norm_num)
  linarith

theorem fin_of_cases {c : Float32} {r : ℚ}
    (h : (|r| < Ω spec ∧ IsFin c ∧ v c = r) ∨ (Ω spec ≤ r ∧ U c = .infinity .positive) ∨
         (r ≤ -Ω spec ∧ U c = .infinity .negative)) (hr : |r| < Ω spec) : IsFin c ∧ v c = r := by
  rw [abs_lt] at hr
  rcases h with ⟨_, h⟩ | ⟨h, _⟩ | ⟨h, _⟩
  · exact h
  · linarith
  · linarith

theorem mul_of_le {a b : Float32} (ha : IsFin a) (hb : IsFin b) {n : ℕ} (hn : n < 2^24) (h : |v a * v b| ≤ n) :
    IsFin (a * b) ∧ v (a * b) = R32 (v a * v b) :=
  fin_of_cases (mul_cases ha hb) (lt_Ω_of_le_nat hn (R32_abs_le_nat hn h))

theorem add_of_le {a b : Float32} (ha : IsFin a) (hb : IsFin b) {n : ℕ} (hn : n < 2^24) (h : |v a + v b| ≤ n) :
    IsFin (a + b) ∧ v (a + b) = R32 (v a + v b) :=
  fin_of_cases (add_cases ha hb) (lt_Ω_of_le_nat hn (R32_abs_le_nat hn h))

theorem sub_of_le {a b : Float32} (ha : IsFin a) (hb : IsFin b) {n : ℕ} (hn : n < 2^24) (h : |v a - v b| ≤ n) :
    IsFin (a - b) ∧ v (a - b) = R32 (v a - v b) :=
  fin_of_cases (sub_cases ha hb) (lt_Ω_of_le_nat hn (R32_abs_le_nat hn h))

theorem div_of_le {a b : Float32} (ha : IsFin a) (hb : IsFin b) (hb0 : v b ≠ 0) {n : ℕ} (hn : n < 2^24)
    (h : |v a / v b| ≤ n) : IsFin (a / b) ∧ v (a / b) = R32 (v a / v b) :=
  fin_of_cases (div_cases ha hb hb0) (lt_Ω_of_le_nat hn (R32_abs_le_nat hn h))

/-! ### conversions -/

theorem toUInt32_eq {a : Float32} (ha : IsFin a) (h0 : 0 ≤ v a) (h1 : v a < 2^32) :
    (a.toUInt32.toNat : ℤ) = ⌊v a⌋ := by
  show ((UnpackedFloat.toUInt32 (U a)).toNat : ℤ) = _
  unfold UnpackedFloat.toUInt32
  rw [toInt_of_nonneg ha h0]
  have hf0 : 0 ≤ ⌊v a⌋ := Int.floor_nonneg.mpr h0
  have hf1 : ⌊v a⌋ < 2^32 := by
    rw [Int.floor_lt]; exact_mod_cast h1
  have hlt : ⌊val (U a)⌋.toNat < UInt32.size := by
    have : ⌊v a⌋.toNat < 2^32 := by omega
    exact this
  rw [UInt32.ofNatClamp_eq_ofNat _ hlt, UInt32.toNat_ofNat_of_lt' hlt]
  show ((⌊v a⌋.toNat : ℕ) : ℤ) = _
  omega

theorem U_toFloat32 (n : UInt32) : U n.toFloat32 = repack spec (UnpackedFloat.ofNat spec n.toNat) := rfl

theorem toFloat32_small (n : UInt32) (h : n.toNat < 2^24) : IsFin n.toFloat32 ∧ v n.toFloat32 = n.toNat := by
  have hv : val (UnpackedFloat.ofNat spec n.toNat) = (n.toNat : ℚ) := by
    rw [val_ofNat]; exact R32_natCast h
  have hf := isFinite_ofNat spec n.toNat
  have hc := canon_ofNat spec n.toNat
  unfold IsFin v
  rw [U_toFloat32]
  rcases repack_cases spec heb hc hf with ⟨_, h2⟩ | ⟨h1, _⟩ | ⟨h1, _⟩
  · rw [h2]; exact ⟨hf, hv⟩
  · exfalso; rw [hv, Ω_eq] at h1
    have : (n.toNat : ℚ) < 2^24 := by exact_mod_cast h
    have h2 : (2 : ℚ)^24 ≤ 2^128 := pow_le_pow_right₀ (by norm_num) (by norm_num)
    linarith
  · exfalso; rw [hv] at h1
    have := Ω_pos spec
    have : (0 : ℚ) ≤ n.toNat := by positivity
    linarith

end Ieee.F32
