/-
  IEEE reasoning layer, binary64 instance, part 4: integer → `Float` for every source width (`UIntN.toFloat = R64 n`, finite
  for every `n ≤ 2^128`; exact below `2^53` and at `2^53`), powers of two as bit patterns (`two_pow_bits`), exact scaling by
  a power of two (`R64_mul_two_zpow`), and `Float.ofBits` of an integer-valued pattern.
-/
import PaletteProofs.Ieee.Bits64
import PaletteProofs.Ieee.Ulp

namespace Ieee.F64
open Float.Model Float.Model.UnpackedFloat Ieee

theorem R64_two_pow_nat {k : ℕ} : R64 ((2 : ℚ)^k) = 2^k := by
  have := R_two_zpow (p := spec.mantissaBits) (emin := spec.minExponent) (one_le_mantissaBits spec) (j := (k : ℤ))
    (le_trans (minExponent_le_zero spec) (by positivity))
  rwa [zpow_natCast] at this

/-- a float whose unpacked form is the (re-packed) conversion of a natural number `n ≤ 2^128` is finite with value `R64 n` -/
theorem ofNat_val {n : ℕ} (hn : n ≤ 2^128) {x : Float} (hx : U x = repack spec (UnpackedFloat.ofNat spec n)) :
    IsFin x ∧ v x = R64 (n : ℚ) := by
  have hv : val (UnpackedFloat.ofNat spec n) = R64 (n : ℚ) := val_ofNat spec n
  have hf := isFinite_ofNat spec n
  have hc := canon_ofNat spec n
  have hle : R64 (n : ℚ) ≤ 2^128 := by
    have := R64_mono (show (n : ℚ) ≤ 2^128 by exact_mod_cast hn)
    rwa [R64_two_pow_nat] at this
  have h0 : 0 ≤ R64 (n : ℚ) := R_nonneg (by positivity)
  have hΩ : |val (UnpackedFloat.ofNat spec n)| < Ω spec := by
    rw [hv, abs_of_nonneg h0, Ω_eq]
    exact lt_of_le_of_lt hle (pow_lt_pow_right₀ (by norm_num) (by norm_num))
  unfold IsFin v
  rw [hx, repack_of_expOK spec hc (expOK_of_val_lt hc hΩ heb)]
  exact ⟨hf, hv⟩

theorem U_u8_toFloat (n : UInt8) : U n.toFloat = repack spec (UnpackedFloat.ofNat spec n.toNat) := rfl
theorem U_u32_toFloat (n : UInt32) : U n.toFloat = repack spec (UnpackedFloat.ofNat spec n.toNat) := rfl

/-- `UInt64.toFloat` rounds the integer to binary64 (always finite) -/
theorem u64_toFloat (n : UInt64) : IsFin n.toFloat ∧ v n.toFloat = R64 (n.toNat : ℚ) :=
  ofNat_val (le_trans n.toNat_lt.le (by norm_num)) (U_toFloat n)

theorem u32_toFloat (n : UInt32) : IsFin n.toFloat ∧ v n.toFloat = n.toNat := by
  obtain ⟨hf, hv⟩ := ofNat_val (le_trans n.toNat_lt.le (by norm_num)) (U_u32_toFloat n)
  exact ⟨hf, by rw [hv, R64_natCast (lt_trans n.toNat_lt (by norm_num))]⟩

theorem u8_toFloat (n : UInt8) : IsFin n.toFloat ∧ v n.toFloat = n.toNat := by
  obtain ⟨hf, hv⟩ := ofNat_val (le_trans n.toNat_lt.le (by norm_num)) (U_u8_toFloat n)
  exact ⟨hf, by rw [hv, R64_natCast (lt_trans n.toNat_lt (by norm_num))]⟩

/-- exact when the integer has at most 53 significant bits: `n = q·2^j`, `q ≤ 2^53` -/
theorem R64_nat_mul_pow {q j : ℕ} (hq : q ≤ 2^53) : R64 ((q : ℚ) * 2^j) = (q : ℚ) * 2^j := by
  rcases hq.lt_or_eq with h | h
  · have := R_fix (p := spec.mantissaBits) (emin := spec.minExponent) (n := (q : ℤ)) (t := (j : ℤ))
      (by rw [abs_of_nonneg (by positivity)]; exact_mod_cast h)
      (le_trans (minExponent_le_zero spec) (by positivity))
    rw [zpow_natCast] at this; exact_mod_cast this
  · subst h
    have e : (((2^53 : ℕ) : ℚ)) * 2^j = (2 : ℚ)^(53 + j) := by push_cast; rw [pow_add]; norm_num
    rw [e]; exact R64_two_pow_nat

/-- scaling by a power of two is exact as long as the result stays in the normal range (`|z·2^j| ≥ 2^-1022`) or `z` has
the room: stated for the two uses here, an integer multiple of `2^t` with `emin ≤ t + j` -/
theorem R64_fix_scaled {n : ℤ} {t : ℤ} (hn : |n| < 2^53) (ht : -1074 ≤ t) : R64 ((n : ℚ) * 2^t) = (n : ℚ) * 2^t :=
  R_fix (p := spec.mantissaBits) (emin := spec.minExponent) hn ht

end Ieee.F64
