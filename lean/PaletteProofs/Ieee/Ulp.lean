/-
  IEEE reasoning layer, part 15: the unit in the last place `ulp p emin z` (spacing of the format at `z`; the least
  subnormal at `0`), the rounding error in units of the RESULT (`|R z − z| ≤ ½ ulp (R z)`), scaling of `Int.log`,
  and "rounding up past the midpoint" (`R_ge_succ`).
-/
import PaletteProofs.Ieee.RoundQ

namespace Ieee

variable {p : ℕ} {emin : ℤ}

/-- spacing of the format `(p, emin)` at `z` -/
def ulp (p : ℕ) (emin : ℤ) (z : ℚ) : ℚ := if z = 0 then 2^emin else 2^(texp p emin z)

theorem ulp_pos (z : ℚ) : 0 < ulp p emin z := by unfold ulp; split <;> exact two_zpow_pos _

theorem ulp_of_ne {z : ℚ} (h : z ≠ 0) : ulp p emin z = 2^(texp p emin z) := by unfold ulp; rw [if_neg h]

theorem two_zpow_emin_le_ulp (z : ℚ) : (2 : ℚ)^emin ≤ ulp p emin z := by
  unfold ulp; split
  · exact le_rfl
  · exact zpow_le_zpow_right₀ (by norm_num) (emin_le_texp z)

theorem intLog_mul_zpow {y : ℚ} (hy : 0 < y) (j : ℤ) : Int.log 2 (y * 2^j) = Int.log 2 y + j := by
  apply intLog_eq' (mul_pos hy (zpow_pos (by norm_num) j))
  · have := Int.zpow_log_le_self (b := 2) (r := y) (by norm_num) hy
    rw [zpow_add₀ (by norm_num)]
    exact mul_le_mul_of_nonneg_right (by exact_mod_cast this) (zpow_pos (by norm_num) j).le
  · have := Int.lt_zpow_succ_log_self (b := 2) (by norm_num) y
    rw [show Int.log 2 y + j + 1 = (Int.log 2 y + 1) + j by ring, zpow_add₀ (by norm_num)]
    exact mul_lt_mul_of_pos_right (by exact_mod_cast this) (zpow_pos (by norm_num) j)
where
  intLog_eq' {r : ℚ} {z : ℤ} (hr : 0 < r) (h0 : (2 : ℚ)^z ≤ r) (h1 : r < (2 : ℚ)^(z + 1)) : Int.log 2 r = z := by
    have a : z ≤ Int.log 2 r := (Int.zpow_le_iff_le_log (b := 2) (by norm_num) hr).mp (by exact_mod_cast h0)
    have b : Int.log 2 r < z + 1 := (Int.lt_zpow_iff_log_lt (b := 2) (by norm_num) hr).mp (by exact_mod_cast h1)
    omega

theorem texp_mono_abs {x y : ℚ} (hx : x ≠ 0) (h : |x| ≤ |y|) : texp p emin x ≤ texp p emin y := by
  unfold texp
  have := Int.log_mono_right (b := 2) (abs_pos.mpr hx) h
  exact max_le_max (by omega) le_rfl

/-- powers of two in range are representable -/
theorem R_two_zpow (hp : 1 ≤ p) {j : ℤ} (hj : emin ≤ j) : R p emin ((2 : ℚ)^j) = 2^j := by
  have := R_fix (p := p) (emin := emin) (n := 1) (t := j) (by
    rw [abs_one]; exact one_lt_pow₀ (by norm_num) (by omega)) hj
  simpa using this

theorem abs_R (x : ℚ) : |R p emin x| = R p emin |x| := by
  rcases le_total 0 x with h | h
  · rw [abs_of_nonneg h, abs_of_nonneg (R_nonneg h)]
  · rw [abs_of_nonpos h, R_neg, abs_of_nonpos]
    have := R_nonneg (p := p) (emin := emin) (x := -x) (by linarith)
    rw [R_neg] at this; linarith

/-- the rounding error is at most half a unit in the last place of the RESULT -/
theorem R_error_ulp (hp : 1 ≤ p) (z : ℚ) : |R p emin z - z| ≤ ulp p emin (R p emin z) / 2 := by
  rcases eq_or_ne z 0 with hz | hz
  · subst hz; rw [R_zero, sub_zero, abs_zero]; exact div_nonneg (ulp_pos _).le (by norm_num)
  refine le_trans (R_error z) (div_le_div_of_nonneg_right ?_ (by norm_num))
  by_cases hR : R p emin z = 0
  · -- underflow to zero: the input was below the subnormal range
    rw [hR]; unfold ulp; rw [if_pos rfl]
    apply zpow_le_zpow_right₀ (by norm_num)
    set t := texp p emin z with ht
    have h0 : rne (z / 2^t) = 0 := by
      have : (rne (z / 2^t) : ℚ) * 2^t = 0 := hR
      rcases mul_eq_zero.mp this with h | h
      · exact_mod_cast h
      · exact absurd h (two_zpow_pos t).ne'
    have herr := abs_rne_sub_le (z / 2^t)
    rw [h0] at herr; simp only [Int.cast_zero, zero_sub, abs_neg] at herr
    rw [abs_div, abs_of_pos (two_zpow_pos t), div_le_iff₀ (two_zpow_pos t)] at herr
    have hlt : |z| < ((2 : ℕ) : ℚ)^t := by
      have : (1 / 2 : ℚ) * 2^t < 2^t := by have := two_zpow_pos t; linarith
      push_cast; linarith
    have hl := (Int.lt_zpow_iff_log_lt (b := 2) (by norm_num) (abs_pos.mpr hz)).mp hlt
    have : t = max (Int.log 2 |z| + 1 - p) emin := rfl
    rcases le_total (Int.log 2 |z| + 1 - (p : ℤ)) emin with hh | hh
    · rw [max_eq_right hh] at this; omega
    · rw [max_eq_left hh] at this; omega
  · rw [ulp_of_ne hR]
    apply zpow_le_zpow_right₀ (by norm_num)
    -- |R z| ≥ 2^(log |z|) when that power is representable
    by_cases hsmall : Int.log 2 |z| + 1 - (p : ℤ) ≤ emin
    · have : texp p emin z = emin := max_eq_right hsmall
      rw [this]; exact emin_le_texp _
    · rw [not_le] at hsmall
      have hpow : (2 : ℚ)^(Int.log 2 |z|) ≤ |z| := by
        have := Int.zpow_log_le_self (b := 2) (r := |z|) (by norm_num) (abs_pos.mpr hz)
        exact_mod_cast this
      have hRge : (2 : ℚ)^(Int.log 2 |z|) ≤ |R p emin z| := by
        rw [abs_R, ← R_two_zpow (p := p) (emin := emin) hp (j := Int.log 2 |z|) (by omega)]
        exact R_mono hp hpow
      have hlog : Int.log 2 |z| ≤ Int.log 2 |R p emin z| :=
        (Int.zpow_le_iff_le_log (b := 2) (by norm_num) (abs_pos.mpr hR)).mp (by exact_mod_cast hRge)
      unfold texp
      exact max_le_max (by omega) le_rfl

/-- **rounding up past the midpoint**: `a = n·2^t` normalised (`2^(p-1) ≤ n < 2^p`), `z > a + 2^(t-1)` ⟹ `R z ≥ a + 2^t` -/
theorem R_ge_succ (hp : 1 ≤ p) {n : ℕ} {t : ℤ} (hn0 : 2^(p - 1) ≤ n) (hn1 : n < 2^p) (ht : emin ≤ t) {z : ℚ}
    (hz : (n : ℚ) * 2^t + 2^t / 2 < z) : (n : ℚ) * 2^t + 2^t ≤ R p emin z := by
  have h2t := two_zpow_pos t
  have hnq0 : (2 : ℚ)^(p - 1) ≤ n := by exact_mod_cast hn0
  have hnq1 : (n : ℚ) < 2^p := by exact_mod_cast hn1
  have hzpos : 0 < z := by
    have : (0 : ℚ) ≤ (n : ℚ) * 2^t := by positivity
    linarith
  have ha_lo : (2 : ℚ)^((p - 1 : ℕ) + t) ≤ z := by
    rw [zpow_add₀ (by norm_num), zpow_natCast]
    have : (2 : ℚ)^(p - 1) * 2^t ≤ n * 2^t := mul_le_mul_of_nonneg_right hnq0 h2t.le
    linarith
  have hlog : ((p - 1 : ℕ) : ℤ) + t ≤ Int.log 2 z :=
    (Int.zpow_le_iff_le_log (b := 2) (by norm_num) hzpos).mp (by exact_mod_cast ha_lo)
  have htz : t ≤ texp p emin z := by
    unfold texp; rw [abs_of_pos hzpos]
    exact le_trans (by omega) (le_max_left _ _)
  rcases htz.lt_or_eq with hlt | heq
  · -- z lies in a higher binade: the power of two in between is representable
    set t' := texp p emin z with ht'
    have ht'log : t' = Int.log 2 z + 1 - p := by
      have : t' = max (Int.log 2 |z| + 1 - p) emin := rfl
      rw [abs_of_pos hzpos] at this
      rcases le_total (Int.log 2 z + 1 - (p : ℤ)) emin with hh | hh
      · rw [max_eq_right hh] at this; omega
      · rw [max_eq_left hh] at this; exact this
    have hzge : (2 : ℚ)^(Int.log 2 z) ≤ z := by
      have := Int.zpow_log_le_self (b := 2) (r := z) (by norm_num) hzpos
      exact_mod_cast this
    have hRge : (2 : ℚ)^(Int.log 2 z) ≤ R p emin z := by
      rw [← R_two_zpow (p := p) (emin := emin) hp (j := Int.log 2 z) (by omega)]
      exact R_mono hp hzge
    refine le_trans ?_ hRge
    -- a + 2^t ≤ 2^(p+t) ≤ 2^(log z)
    have h1 : (n : ℚ) * 2^t + 2^t ≤ 2^((p : ℤ) + t) := by
      rw [zpow_add₀ (by norm_num), zpow_natCast]
      have : (n : ℚ) + 1 ≤ 2^p := by exact_mod_cast hn1
      nlinarith
    exact le_trans h1 (zpow_le_zpow_right₀ (by norm_num) (by omega))
  · unfold R; rw [← heq]
    have hdiv : (n : ℚ) + 1 / 2 < z / 2^t := by
      rw [lt_div_iff₀ h2t]; linarith
    have hr : (n : ℤ) + 1 ≤ rne (z / 2^t) := by
      have hfl : (n : ℤ) ≤ ⌊z / 2^t⌋ := by rw [Int.le_floor]; push_cast; linarith
      rcases hfl.lt_or_eq with h | h
      · exact le_trans h (floor_le_rne _)
      · unfold rne
        rw [← h]; push_cast
        rw [if_neg (by linarith), if_pos (by linarith)]
    have : ((n : ℚ) + 1) ≤ (rne (z / 2^t) : ℚ) := by exact_mod_cast hr
    nlinarith

end Ieee
