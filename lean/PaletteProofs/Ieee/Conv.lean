/-
  IEEE reasoning layer, part 13: conversions.  `toInt` truncates the exact value toward zero; `ofNat`/`ofInt` round the
  integer (`R n`, exact below `2^p`).
-/
import PaletteProofs.Ieee.Div

namespace Ieee
open Float.Model Float.Model.UnpackedFloat

theorem roundToInt_eq (s : Sign) (m : ℕ) (e : ℤ) :
    roundToInt s m e = s.apply ((m * 2^e.toNat / 2^(-e).toNat : ℕ) : ℤ) := by
  simp only [roundToInt, decreaseExponent, shiftToExponent, Nat.shiftLeft_eq, mantissa_shift_exact]
  have h1 : (e - 0).toNat = e.toNat := by rw [sub_zero]
  have h2 : (0 - (e - ((e - 0).toNat : ℤ))).toNat = (-e).toNat := by omega
  rw [h1] at h2 ⊢; rw [h2]

/-- truncation of the magnitude: `⌊m·2^e⌋` -/
theorem trunc_eq_floor (m : ℕ) (e : ℤ) : ((m * 2^e.toNat / 2^(-e).toNat : ℕ) : ℤ) = ⌊(m : ℚ) * 2^e⌋ := by
  symm
  rw [Int.floor_eq_iff]
  rcases le_total 0 e with he | he
  · have h1 : (-e).toNat = 0 := by omega
    have h2 : (e.toNat : ℤ) = e := by omega
    rw [h1, pow_zero, Nat.div_one]
    have : (2 : ℚ)^e = 2^e.toNat := by rw [← zpow_natCast, h2]
    rw [this]; push_cast
    constructor <;> linarith
  · have h1 : e.toNat = 0 := by omega
    have h2 : ((-e).toNat : ℤ) = -e := by omega
    rw [h1, pow_zero, Nat.mul_one]
    have : (2 : ℚ)^e = 1 / 2^(-e).toNat := by
      rw [← zpow_natCast, h2, zpow_neg]; simp
    rw [this]
    set n := (-e).toNat
    have hp : (0 : ℚ) < 2^n := by positivity
    have hdm := Nat.div_add_mod m (2^n)
    have hr : m % 2^n < 2^n := Nat.mod_lt _ (Nat.pos_of_ne_zero (by simp))
    generalize m / 2^n = q at *
    generalize m % 2^n = r at *
    have hm : (m : ℚ) = (2^n : ℚ) * q + r := by exact_mod_cast hdm.symm
    have hrq : (r : ℚ) < 2^n := by exact_mod_cast hr
    have hr0 : (0 : ℚ) ≤ r := by positivity
    push_cast
    rw [mul_one_div, hm]
    constructor
    · rw [le_div_iff₀ hp]; nlinarith
    · rw [div_lt_iff₀ hp]; nlinarith

theorem toInt_of_nonneg {f : UnpackedFloat} (ff : f.isFinite = true) (h0 : 0 ≤ val f) (a b : ℤ) :
    f.toInt a b = ⌊val f⌋ := by
  cases f <;> simp only [UnpackedFloat.isFinite, Bool.false_eq_true] at ff
  · simp [UnpackedFloat.toInt, val]
  · rename_i s m e h
    cases s
    · rw [val_neg_eq] at h0; have := mag_pos h e; linarith
    · simp only [UnpackedFloat.toInt]
      rw [roundToInt_eq, val_pos_eq, trunc_eq_floor]; rfl

theorem toInt_of_nonpos {f : UnpackedFloat} (ff : f.isFinite = true) (h0 : val f ≤ 0) (a b : ℤ) :
    f.toInt a b ≤ 0 := by
  cases f <;> simp only [UnpackedFloat.isFinite, Bool.false_eq_true] at ff
  · simp [UnpackedFloat.toInt]
  · rename_i s m e h
    cases s
    · simp only [UnpackedFloat.toInt]
      rw [roundToInt_eq]; simp only [Sign.apply]
      have : (0 : ℤ) ≤ ((m * 2^e.toNat / 2^(-e).toNat : ℕ) : ℤ) := Int.natCast_nonneg _
      omega
    · rw [val_pos_eq] at h0; have := mag_pos h e; linarith

/-! ### `ofNat` -/

theorem val_ofNat (spec : Format) (n : ℕ) : val (UnpackedFloat.ofNat spec n) = Rs spec (n : ℚ) := by
  unfold UnpackedFloat.ofNat UnpackedFloat.ofInt
  rw [val_normalize]; simp

theorem isFinite_ofNat (spec : Format) (n : ℕ) : (UnpackedFloat.ofNat spec n).isFinite = true :=
  isFinite_normalize ..

theorem canon_ofNat (spec : Format) (n : ℕ) : Canon spec (UnpackedFloat.ofNat spec n) :=
  canon_normalize ..

end Ieee
