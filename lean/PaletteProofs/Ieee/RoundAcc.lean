/-
  IEEE reasoning layer, part 11: `roundWithAccuracy spec s q e acc` for an arbitrary accuracy.  If `(q, acc)` describes the
  real `x ∈ [q, q+1)` (`AccRep`), the exponent is not above the target exponent (`e ≤ tE`, so the first shift really
  rounds at the target unit) and the binade of `x` is visible from `q` (`1 ≤ q`, or the target is `emin` anyway), then the
  result is finite, canonical and has value `R (± x·2^e)`.
-/
import PaletteProofs.Ieee.ShiftAcc
import PaletteProofs.Ieee.Pack

namespace Ieee
open Float.Model Float.Model.UnpackedFloat

/-- the renormalising second pass of `roundWithAccuracy` -/
def stage2 (spec : Format) (r : ℕ) (e₁ : ℤ) : ℕ × ℤ :=
  (r / 2^(tE spec r e₁ - e₁).toNat, e₁ + ((tE spec r e₁ - e₁).toNat : ℤ))

theorem rwa_acc_eq (spec : Format) (s : Sign) (q : ℕ) (e : ℤ) (acc : Accuracy) :
    roundWithAccuracy spec s q e acc =
      if h : (stage2 spec ((ExtendedMantissa.ofMantissaAndAccuracy q acc) >>> (tE spec q e - e).toNat).roundedMantissa
                (e + ((tE spec q e - e).toNat : ℤ))).1 = 0 then .zero s
      else .finite s
        (stage2 spec ((ExtendedMantissa.ofMantissaAndAccuracy q acc) >>> (tE spec q e - e).toNat).roundedMantissa
                (e + ((tE spec q e - e).toNat : ℤ))).1
        (stage2 spec ((ExtendedMantissa.ofMantissaAndAccuracy q acc) >>> (tE spec q e - e).toNat).roundedMantissa
                (e + ((tE spec q e - e).toNat : ℤ))).2 (Nat.pos_of_ne_zero h) := by
  simp only [roundWithAccuracy, shiftToTargetExponent, shiftToExponent, mantissa_shift_exact]
  by_cases h : (stage2 spec ((ExtendedMantissa.ofMantissaAndAccuracy q acc) >>> (tE spec q e - e).toNat).roundedMantissa
                (e + ((tE spec q e - e).toNat : ℤ))).1 = 0
  · rw [dif_pos h, dif_pos]; exact h
  · rw [dif_neg h, dif_neg]; rfl; exact h

theorem stage2_lt {spec : Format} {r : ℕ} {e₁ : ℤ} (hr : r < 2^spec.mantissaBits) (he : spec.minExponent ≤ e₁) :
    stage2 spec r e₁ = (r, e₁) := by
  have hl := log2_add_one_le (one_le_mantissaBits spec) hr
  have hk2 : (tE spec r e₁ - e₁).toNat = 0 := by
    rw [tE_def]
    have : max ((r.log2 : ℤ) + 1 + e₁ - spec.mantissaBits) spec.minExponent ≤ e₁ := max_le (by omega) he
    omega
  unfold stage2; rw [hk2]; simp

theorem stage2_eq {spec : Format} {e₁ : ℤ} (he : spec.minExponent ≤ e₁) :
    stage2 spec (2^spec.mantissaBits) e₁ = (2^(spec.mantissaBits - 1), e₁ + 1) := by
  have hk2 : (tE spec (2^spec.mantissaBits) e₁ - e₁).toNat = 1 := by
    rw [tE_def, Nat.log2_two_pow]
    have : max ((spec.mantissaBits : ℤ) + 1 + e₁ - spec.mantissaBits) spec.minExponent = e₁ + 1 := by
      rw [max_eq_left (by omega)]; omega
    omega
  have := one_le_mantissaBits spec
  unfold stage2; rw [hk2]
  obtain ⟨j, hj⟩ : ∃ j, spec.mantissaBits = j + 1 := ⟨spec.mantissaBits - 1, by omega⟩
  rw [hj, Nat.pow_succ]; simp

theorem intLog_of_mem {q : ℕ} (hq : 1 ≤ q) {x : ℚ} (h0 : (q : ℚ) ≤ x) (h1 : x < q + 1) (e : ℤ) :
    Int.log 2 (x * 2^e) = q.log2 + e := by
  have hx : 0 < x := lt_of_lt_of_le (by exact_mod_cast hq) h0
  apply intLog_eq (mul_pos hx (two_zpow_pos e))
  · rw [zpow_add₀ (by norm_num), zpow_natCast]
    exact mul_le_mul_of_nonneg_right (le_trans (natCast_two_pow_log2_le hq) h0) (two_zpow_pos e).le
  · rw [show (q.log2 : ℤ) + e + 1 = ((q.log2 + 1 : ℕ) : ℤ) + e by push_cast; ring, zpow_add₀ (by norm_num), zpow_natCast]
    apply mul_lt_mul_of_pos_right _ (two_zpow_pos e)
    have : q + 1 ≤ 2^(q.log2 + 1) := Nat.lt_log2_self
    have : ((q + 1 : ℕ) : ℚ) ≤ 2^(q.log2 + 1) := by exact_mod_cast this
    push_cast at this; linarith

theorem accRep_bounds {q : ℕ} {acc : Accuracy} {x : ℚ} (h : AccRep q acc x) : (q : ℚ) ≤ x ∧ x < q + 1 := by
  have := emRep_ofAcc h
  cases acc with
  | exact => simp only [AccRep] at h; subst h; exact ⟨le_rfl, by linarith⟩
  | inexact o =>
    cases o <;> simp only [AccRep] at h
    · exact ⟨h.1.le, by linarith [h.2]⟩
    · subst h; exact ⟨by linarith, by linarith⟩
    · exact ⟨by linarith [h.1], h.2⟩

/-- **`roundWithAccuracy` with any accuracy computes `R`** -/
theorem rwa_acc_spec (spec : Format) (s : Sign) {q : ℕ} {e : ℤ} {acc : Accuracy} {x : ℚ} (hrep : AccRep q acc x)
    (hA : e ≤ tE spec q e) (hq : 1 ≤ q ∨ 1 + e - (spec.mantissaBits : ℤ) ≤ spec.minExponent) :
    val (roundWithAccuracy spec s q e acc) = Rs spec (sgn s * (x * 2^e)) ∧
    Canon spec (roundWithAccuracy spec s q e acc) ∧ (roundWithAccuracy spec s q e acc).isFinite = true := by
  have hp := one_le_mantissaBits spec
  obtain ⟨hx0, hx1⟩ := accRep_bounds hrep
  have hxnn : 0 ≤ x := le_trans (by positivity) hx0
  have hmin : spec.minExponent ≤ tE spec q e := le_max_right _ _
  set k := (tE spec q e - e).toNat with hk
  have hek : e + (k : ℤ) = tE spec q e := by omega
  have hr := roundedMantissa_shift_acc hrep k
  set r := ((ExtendedMantissa.ofMantissaAndAccuracy q acc) >>> k).roundedMantissa with hrdef
  have hfin : (roundWithAccuracy spec s q e acc).isFinite = true := by
    rw [rwa_acc_eq]; split <;> rfl
  rw [← sgn_mul_R]
  rcases eq_or_lt_of_le hxnn with hx | hx
  · -- x = 0
    have hr0 : r = 0 := by
      have : (r : ℤ) = 0 := by rw [hr, ← hx, zero_div, show (0 : ℚ) = ((0 : ℤ) : ℚ) by simp, rne_intCast]
      exact_mod_cast this
    have hz : roundWithAccuracy spec s q e acc = .zero s := by
      rw [rwa_acc_eq, ← hk, ← hrdef, hr0, dif_pos]; simp [stage2]
    rw [hz, ← hx]
    exact ⟨by simp [val, Rs_zero], trivial, rfl⟩
  · -- x > 0
    have hX : 0 < x * 2^e := mul_pos hx (two_zpow_pos e)
    have htexp : texp spec.mantissaBits spec.minExponent (x * 2^e) = tE spec q e := by
      unfold texp
      rw [abs_of_pos hX, tE_def]
      rcases hq with hq | hq
      · rw [intLog_of_mem hq hx0 hx1]; congr 1; ring
      · rcases Nat.eq_zero_or_pos q with h0 | h0
        · subst h0
          have hlt : x * 2^e < ((2 : ℕ) : ℚ)^e := by
            have : x < 1 := by simpa using hx1
            calc x * 2^e < 1 * 2^e := mul_lt_mul_of_pos_right this (two_zpow_pos e)
              _ = ((2 : ℕ) : ℚ)^e := by simp
          have hl := (Int.lt_zpow_iff_log_lt (b := 2) (by norm_num) hX).mp hlt
          rw [max_eq_right (by omega), max_eq_right (by simp; omega)]
        · rw [intLog_of_mem h0 hx0 hx1]; congr 1; ring
    have hscaled : x / 2^k = (x * 2^e) / 2^(tE spec q e) := by
      rw [← hek, zpow_add₀ (by norm_num), zpow_natCast]
      have := (two_zpow_pos e).ne'
      field_simp
    -- bound r ≤ 2^p
    have hlogup : x * 2^e < 2^(tE spec q e + spec.mantissaBits) := by
      have h1 := Int.lt_zpow_succ_log_self (b := 2) (by norm_num) (x * 2^e)
      have h2 : Int.log 2 (x * 2^e) + 1 - spec.mantissaBits ≤ tE spec q e := by
        rw [← htexp]; unfold texp; rw [abs_of_pos hX]; exact le_max_left _ _
      have h3 : ((2 : ℕ) : ℚ)^(Int.log 2 (x * 2^e) + 1) ≤ (2 : ℚ)^(tE spec q e + spec.mantissaBits) := by
        push_cast; exact zpow_le_zpow_right₀ (by norm_num) (by omega)
      exact lt_of_lt_of_le h1 h3
    have hle : x / 2^k ≤ 2^spec.mantissaBits := by
      rw [hscaled, div_le_iff₀ (two_zpow_pos _), ← zpow_natCast, ← zpow_add₀ (by norm_num), add_comm]
      exact hlogup.le
    have hrle : r ≤ 2^spec.mantissaBits := by
      have h5 := rne_le_of_le_natPow hle
      rw [← hr] at h5; exact_mod_cast h5
    have hRval : Rs spec (x * 2^e) = (r : ℚ) * 2^(tE spec q e) := by
      unfold Rs R; rw [htexp, ← hscaled, ← hr]; push_cast; ring
    rw [hRval]
    rcases hrle.lt_or_eq with hlt | heq
    · have hst : stage2 spec r (e + (k : ℤ)) = (r, tE spec q e) := by rw [hek]; exact stage2_lt hlt hmin
      have hform : roundWithAccuracy spec s q e acc =
          if h : r = 0 then .zero s else .finite s r (tE spec q e) (Nat.pos_of_ne_zero h) := by
        rw [rwa_acc_eq, ← hk, ← hrdef]
        by_cases h0 : r = 0
        · rw [dif_pos h0, dif_pos]; rw [hst]; exact h0
        · rw [dif_neg h0, dif_neg (by rw [hst]; exact h0)]
          exact finite_congr (by rw [hst]) (by rw [hst])
      rw [hform]
      by_cases h0 : r = 0
      · rw [dif_pos h0, h0]; exact ⟨by simp [val], trivial, rfl⟩
      · rw [dif_neg h0]
        refine ⟨by simp only [val]; ring, ⟨hlt, hmin, ?_⟩, rfl⟩
        by_cases hte : tE spec q e = spec.minExponent
        · exact Or.inr (Or.inr hte)
        · right; left
          have hlog : Int.log 2 (x * 2^e) + 1 - spec.mantissaBits = tE spec q e := by
            have h := htexp
            unfold texp at h; rw [abs_of_pos hX] at h
            rcases le_total (Int.log 2 (x * 2^e) + 1 - (spec.mantissaBits : ℤ)) spec.minExponent with hh | hh
            · rw [max_eq_right hh] at h; exact absurd h.symm hte
            · rw [max_eq_left hh] at h; exact h
          have hlow := Int.zpow_log_le_self (b := 2) (r := x * 2^e) (by norm_num) hX
          have h3 : (2 : ℚ)^(spec.mantissaBits - 1) ≤ x / 2^k := by
            rw [hscaled, le_div_iff₀ (two_zpow_pos _), ← zpow_natCast, ← zpow_add₀ (by norm_num)]
            rw [show ((spec.mantissaBits - 1 : ℕ) : ℤ) + tE spec q e = Int.log 2 (x * 2^e) by omega]
            exact_mod_cast hlow
          have h5 := natPow_le_rne_of_le h3
          rw [← hr] at h5; exact_mod_cast h5
    · have hst : stage2 spec r (e + (k : ℤ)) = (2^(spec.mantissaBits - 1), tE spec q e + 1) := by
        rw [hek, heq]; exact stage2_eq hmin
      have hpos : 0 < 2^(spec.mantissaBits - 1) := Nat.pos_of_ne_zero (by simp)
      have hform : roundWithAccuracy spec s q e acc = .finite s (2^(spec.mantissaBits - 1)) (tE spec q e + 1) hpos := by
        rw [rwa_acc_eq, ← hk, ← hrdef, dif_neg (by rw [hst]; exact hpos.ne')]
        exact finite_congr (by rw [hst]) (by rw [hst])
      rw [hform, heq]
      refine ⟨?_, ⟨Nat.pow_lt_pow_right (by norm_num) (by omega), by omega, Or.inr (Or.inl le_rfl)⟩, rfl⟩
      obtain ⟨j, hj⟩ : ∃ j, spec.mantissaBits = j + 1 := ⟨spec.mantissaBits - 1, by omega⟩
      simp only [val, hj, Nat.add_sub_cancel]
      push_cast
      rw [zpow_add₀ (by norm_num)]; ring

end Ieee
