/-
  IEEE reasoning layer, part 2: round-half-even `rne : ℚ → ℤ`, its order/error properties, and its agreement
  with the natural-number closed form `rneShift` of the core shifter.
-/
import PaletteProofs.Ieee.Shift
import Mathlib.Data.Rat.Floor
import Mathlib.Algebra.Order.Floor.Ring
import Mathlib.Tactic.Ring
import Mathlib.Tactic.Linarith
import Mathlib.Tactic.Positivity
import Mathlib.Tactic.Push

namespace Ieee

/-- round to the nearest integer, ties to the even one -/
def rne (x : ℚ) : ℤ :=
  if 2 * (x - ⌊x⌋) < 1 then ⌊x⌋ else if 1 < 2 * (x - ⌊x⌋) then ⌊x⌋ + 1 else ⌊x⌋ + ⌊x⌋ % 2

theorem floor_le_rne (x : ℚ) : ⌊x⌋ ≤ rne x := by
  unfold rne; split_ifs <;> omega

theorem rne_le_floor_succ (x : ℚ) : rne x ≤ ⌊x⌋ + 1 := by
  unfold rne; split_ifs <;> omega

theorem rne_intCast (n : ℤ) : rne (n : ℚ) = n := by
  unfold rne; simp

theorem rne_natCast (n : ℕ) : rne (n : ℚ) = n := by
  have := rne_intCast (n : ℤ); simpa using this

/-- characterisation from an integer part and a fractional part -/
theorem rne_of_floor {x : ℚ} {f : ℤ} (h0 : (f : ℚ) ≤ x) (h1 : x < f + 1) :
    rne x = if 2 * (x - f) < 1 then f else if 1 < 2 * (x - f) then f + 1 else f + f % 2 := by
  have : ⌊x⌋ = f := Int.floor_eq_iff.mpr ⟨h0, h1⟩
  unfold rne; rw [this]

theorem rne_mono {x y : ℚ} (h : x ≤ y) : rne x ≤ rne y := by
  have hf : ⌊x⌋ ≤ ⌊y⌋ := Int.floor_mono h
  rcases hf.lt_or_eq with hlt | heq
  · calc rne x ≤ ⌊x⌋ + 1 := rne_le_floor_succ x
      _ ≤ ⌊y⌋ := hlt
      _ ≤ rne y := floor_le_rne y
  · unfold rne
    rw [← heq]
    have hx : x - ⌊x⌋ ≤ y - ⌊x⌋ := by linarith
    split_ifs <;> first | omega | (exfalso; linarith)

theorem abs_rne_sub_le (x : ℚ) : |(rne x : ℚ) - x| ≤ 1 / 2 := by
  have h0 : (⌊x⌋ : ℚ) ≤ x := Int.floor_le x
  have h1 : x < ⌊x⌋ + 1 := Int.lt_floor_add_one x
  unfold rne
  rw [abs_le]
  split_ifs with ha hb
  · constructor <;> linarith
  · push_cast; constructor <;> linarith
  · have he : 2 * (x - ⌊x⌋) = 1 := le_antisymm (not_lt.mp hb) (not_lt.mp ha)
    have hm : ⌊x⌋ % 2 = 0 ∨ ⌊x⌋ % 2 = 1 := by omega
    rcases hm with hm | hm <;> rw [hm] <;> push_cast <;> constructor <;> linarith

theorem rne_neg (x : ℚ) : rne (-x) = - rne x := by
  have h0 : (⌊x⌋ : ℚ) ≤ x := Int.floor_le x
  have h1 : x < ⌊x⌋ + 1 := Int.lt_floor_add_one x
  by_cases hx : x = ⌊x⌋
  · rw [hx, ← Int.cast_neg, rne_intCast, rne_intCast]
  · have hlt : (⌊x⌋ : ℚ) < x := lt_of_le_of_ne h0 (Ne.symm hx)
    have hfl : ⌊-x⌋ = -⌊x⌋ - 1 := by
      rw [Int.floor_eq_iff]; push_cast; constructor <;> linarith
    unfold rne
    rw [hfl]
    push_cast
    split_ifs <;> first | omega | (exfalso; linarith)

theorem rne_nonneg {x : ℚ} (h : 0 ≤ x) : 0 ≤ rne x := by
  have := rne_mono h; rwa [show (0 : ℚ) = ((0 : ℤ) : ℚ) by simp, rne_intCast] at this

/-- `rne` of `m / 2^k` is the closed form of the core shifter -/
theorem rne_div_pow (m k : ℕ) : rne ((m : ℚ) / 2^k) = rneShift m k := by
  have hp : (0 : ℚ) < 2^k := by positivity
  have hpn : 0 < 2^k := Nat.pos_of_ne_zero (by simp)
  have hr : m % 2^k < 2^k := Nat.mod_lt _ hpn
  have hdm0 := Nat.div_add_mod m (2^k)
  unfold rneShift
  generalize m / 2^k = q at *
  generalize m % 2^k = r at *
  have hdm : (m : ℚ) = (2^k : ℚ) * (q : ℚ) + (r : ℚ) := by exact_mod_cast hdm0.symm
  have hrq : (r : ℚ) < 2^k := by exact_mod_cast hr
  have hrq0 : (0 : ℚ) ≤ (r : ℚ) := by positivity
  have hx : (m : ℚ) / 2^k = (q : ℚ) + (r : ℚ) / 2^k := by
    rw [hdm]; field_simp
  have hfrac0 : (0 : ℚ) ≤ (r : ℚ) / 2^k := by positivity
  have hfrac1 : (r : ℚ) / 2^k < 1 := by rw [div_lt_one hp]; exact hrq
  have hc : (((q : ℕ) : ℤ) : ℚ) = (q : ℚ) := by simp
  rw [rne_of_floor (f := ((q : ℕ) : ℤ)) (by rw [hc]; linarith) (by rw [hc]; linarith)]
  have hsub : (m : ℚ) / 2^k - (((q : ℕ) : ℤ) : ℚ) = (r : ℚ) / 2^k := by
    rw [hc]; linarith
  rw [hsub]
  have e1 : (2 * ((r : ℚ) / 2^k) < 1) ↔ 2 * r < 2^k := by
    rw [← mul_div_assoc, div_lt_one hp]; exact_mod_cast Iff.rfl
  have e2 : (1 < 2 * ((r : ℚ) / 2^k)) ↔ 2^k < 2 * r := by
    rw [← mul_div_assoc, one_lt_div hp]; exact_mod_cast Iff.rfl
  simp only [e1, e2]
  split_ifs <;> omega

end Ieee
