/-
  IEEE reasoning layer, part 10: the residual-bit shifter started from an INEXACT accuracy (used by `div`, `sqrt`,
  `ofScientific`): an extended mantissa "represents" a real `x` (`EmRep`: integer part = mantissa, round/sticky bits =
  position of the fraction relative to ½); one shift step represents `x/2`; the rounded mantissa is `rne x`.
-/
import PaletteProofs.Ieee.Rne

namespace Ieee
open Float.Model Float.Model.UnpackedFloat

/-- `em` describes the non-negative real `x`: `mantissa = ⌊x⌋`, `roundBit = (frac x ≥ ½)`, `stickyBit = (frac x ∉ {0, ½})` -/
structure EmRep (em : ExtendedMantissa) (x : ℚ) : Prop where
  lo : (em.mantissa : ℚ) ≤ x
  hi : x < em.mantissa + 1
  rb : em.roundBit = true ↔ 1 / 2 ≤ x - em.mantissa
  sb : em.stickyBit = true ↔ (x - em.mantissa ≠ 0 ∧ x - em.mantissa ≠ 1 / 2)

/-- meaning of an `Accuracy` attached to the integer `q`: where the real `x ∈ [q, q+1)` lies -/
def AccRep (q : ℕ) : Accuracy → ℚ → Prop
  | .exact, x => x = q
  | .inexact .lt, x => (q : ℚ) < x ∧ x < q + 1 / 2
  | .inexact .eq, x => x = q + 1 / 2
  | .inexact .gt, x => (q : ℚ) + 1 / 2 < x ∧ x < q + 1

theorem emRep_ofAcc {q : ℕ} {acc : Accuracy} {x : ℚ} (h : AccRep q acc x) :
    EmRep (ExtendedMantissa.ofMantissaAndAccuracy q acc) x := by
  cases acc with
  | exact =>
    simp only [AccRep] at h; subst h
    refine ⟨le_rfl, by simp [ExtendedMantissa.ofMantissaAndAccuracy], ?_, ?_⟩ <;>
      simp [ExtendedMantissa.ofMantissaAndAccuracy]
  | inexact o =>
    cases o <;> simp only [AccRep] at h <;> simp only [ExtendedMantissa.ofMantissaAndAccuracy]
    · refine ⟨h.1.le, by linarith [h.2], ?_, ?_⟩
      · simp only [Bool.false_eq_true, false_iff, not_le]; linarith [h.2]
      · simp only [true_iff]; constructor <;> intro hh <;> linarith [h.1, h.2]
    · subst h
      refine ⟨by linarith, by linarith, ?_, ?_⟩
      · simp
      · simp
    · refine ⟨by linarith [h.1], h.2, ?_, ?_⟩
      · simp only [true_iff]; linarith [h.1]
      · simp only [true_iff]; constructor <;> intro hh <;> linarith [h.1, h.2]

theorem emRep_shiftRightOne {em : ExtendedMantissa} {x : ℚ} (h : EmRep em x) : EmRep em.shiftRightOne (x / 2) := by
  obtain ⟨lo, hi, rb, sb⟩ := h
  have hdm := Nat.div_add_mod em.mantissa 2
  have hb : em.mantissa % 2 = 0 ∨ em.mantissa % 2 = 1 := by omega
  have hM : (em.mantissa : ℚ) = 2 * ((em.mantissa / 2 : ℕ) : ℚ) + ((em.mantissa % 2 : ℕ) : ℚ) := by exact_mod_cast hdm.symm
  simp only [ExtendedMantissa.shiftRightOne]
  rcases hb with hb | hb <;> rw [hb] at hM <;> simp only [hb] <;> refine ⟨?_, ?_, ?_, ?_⟩
  · push_cast at hM; linarith
  · push_cast at hM; linarith
  · simp only [bne_self_eq_false, Bool.false_eq_true, false_iff, not_le]; push_cast at hM; linarith
  · rw [Bool.or_eq_true, rb, sb]; push_cast at hM
    constructor
    · rintro (h1 | ⟨h1, h2⟩)
      · constructor <;> intro hh <;> linarith
      · constructor <;> intro hh
        · apply h1; linarith
        · linarith
    · rintro ⟨h1, _⟩
      by_cases hc : 1 / 2 ≤ x - em.mantissa
      · exact Or.inl hc
      · right; constructor <;> intro hh
        · apply h1; linarith
        · linarith
  · push_cast at hM; linarith
  · push_cast at hM; linarith
  · simp only [Nat.one_ne_zero, ne_eq, not_false_eq_true, bne_iff_ne, true_iff]; push_cast at hM; linarith
  · rw [Bool.or_eq_true, rb, sb]; push_cast at hM
    constructor
    · rintro (h1 | ⟨h1, h2⟩)
      · constructor <;> intro hh <;> linarith
      · constructor <;> intro hh
        · linarith
        · apply h1; linarith
    · rintro ⟨_, h2⟩
      by_cases hc : 1 / 2 ≤ x - em.mantissa
      · exact Or.inl hc
      · right; constructor <;> intro hh
        · apply h2; linarith
        · linarith

theorem emRep_shift {em : ExtendedMantissa} {x : ℚ} (h : EmRep em x) (k : ℕ) : EmRep (em >>> k) (x / 2^k) := by
  induction k with
  | zero => simpa [shift_zero] using h
  | succ k ih =>
    rw [shift_succ]
    have := emRep_shiftRightOne ih
    rwa [div_div, ← pow_succ] at this

theorem roundedMantissa_of_emRep {em : ExtendedMantissa} {x : ℚ} (h : EmRep em x) :
    (em.roundedMantissa : ℤ) = rne x := by
  obtain ⟨lo, hi, rb, sb⟩ := h
  rw [rne_of_floor (f := (em.mantissa : ℤ)) (by exact_mod_cast lo) (by push_cast; exact hi)]
  push_cast
  obtain ⟨m, r, s⟩ := em
  simp only at lo hi rb sb ⊢
  cases r <;> cases s <;>
    simp only [ExtendedMantissa.roundedMantissa, ExtendedMantissa.accuracy, Accuracy.roundToNearestEven,
      Bool.false_eq_true, false_iff, true_iff, not_le, not_and_or, not_not] at rb sb ⊢
  · rcases sb with sb | sb
    · rw [if_pos (by linarith)]
    · linarith
  · rw [if_pos (by linarith)]
  · have hx : x - (m : ℚ) = 1 / 2 := by
      rcases sb with sb | sb
      · linarith
      · exact sb
    rw [if_neg (by linarith), if_neg (by linarith)]; push_cast; omega
  · have h2 : x - (m : ℚ) ≠ 1 / 2 := sb.2
    have : 1 / 2 < x - (m : ℚ) := lt_of_le_of_ne rb (Ne.symm h2)
    rw [if_neg (by linarith), if_pos (by linarith)]; push_cast; ring

/-- the shifter started from `(q, acc)` describing the real `x` rounds `x / 2^k` to nearest even -/
theorem roundedMantissa_shift_acc {q : ℕ} {acc : Accuracy} {x : ℚ} (h : AccRep q acc x) (k : ℕ) :
    (((ExtendedMantissa.ofMantissaAndAccuracy q acc) >>> k).roundedMantissa : ℤ) = rne (x / 2^k) :=
  roundedMantissa_of_emRep (emRep_shift (emRep_ofAcc h) k)

end Ieee
