/-
  IEEE reasoning layer: the remaining order facts about infinities (`−∞ ≤ b` and `a ≤ +∞` for every non-NaN operand), on
  unpacked floats and for `Float32` / `Float`; with `lt_iff`/`le_iff` (finite operands) and the `not_*` lemmas of
  `F32.lean`/`F64.lean` they decide `≤` for every pair of bit patterns.
-/
import PaletteProofs.Ieee.F32Ops
import PaletteProofs.Ieee.F64Ops

namespace Ieee
open Float.Model Float.Model.UnpackedFloat

theorem negInf_le_U {b : UnpackedFloat} (hb : b.isNaN = false) : (UnpackedFloat.infinity .negative).le b = true := by
  cases b <;> simp_all [UnpackedFloat.le, UnpackedFloat.compare, UnpackedFloat.isNaN]
  all_goals (rename_i s; cases s <;> simp [compare])

theorem le_posInf_U {a : UnpackedFloat} (ha : a.isNaN = false) : a.le (.infinity .positive) = true := by
  cases a <;> simp_all [UnpackedFloat.le, UnpackedFloat.compare, UnpackedFloat.isNaN]
  all_goals (rename_i s; cases s <;> simp [compare])

namespace F32
theorem negInf_le {a b : Float32} (ha : U a = .infinity .negative) (hb : b.isNaN = false) : a ≤ b := by
  rw [le_iff_U, ha]; exact negInf_le_U (by rwa [isNaN_eq] at hb)
theorem le_posInf {a b : Float32} (hb : U b = .infinity .positive) (ha : a.isNaN = false) : a ≤ b := by
  rw [le_iff_U, hb]; exact le_posInf_U (by rwa [isNaN_eq] at ha)
end F32

namespace F64
theorem negInf_le {a b : Float} (ha : U a = .infinity .negative) (hb : b.isNaN = false) : a ≤ b := by
  rw [le_iff_U, ha]; exact negInf_le_U (by rwa [isNaN_eq] at hb)
theorem le_posInf {a b : Float} (hb : U b = .infinity .positive) (ha : a.isNaN = false) : a ≤ b := by
  rw [le_iff_U, hb]; exact le_posInf_U (by rwa [isNaN_eq] at ha)
end F64

end Ieee
