/-
  IEEE reasoning layer, part 5: `round`, `normalize`, `mul`, `add` of `Float.Model.UnpackedFloat` on exact values.
  For finite (or zero) canonical operands the result has value `R (a·b)` resp. `R (a+b)`, is finite and canonical
  (overflow to infinity happens only at the packing step, see `Pack.lean`).
-/
import PaletteProofs.Ieee.RoundModel

namespace Ieee
open Float.Model Float.Model.UnpackedFloat

/-- canonical form for the format: mantissa below `2^p`, exponent at least `emin`, normalised unless `e = emin` -/
def Canon (spec : Format) : UnpackedFloat → Prop
  | .finite _ m e _ => CanonME spec m e
  | _ => True

abbrev Rs (spec : Format) : ℚ → ℚ := R spec.mantissaBits spec.minExponent

theorem Rs_zero (spec : Format) : Rs spec 0 = 0 := R_zero

theorem sgn_mul (s₁ s₂ : Sign) : sgn (s₁ * s₂) = sgn s₁ * sgn s₂ := by
  cases s₁ <;> cases s₂ <;>
    first | (show sgn Sign.positive = _; simp [sgn]) | (show sgn Sign.negative = _; simp [sgn])

theorem sgn_neg (s : Sign) : sgn (-s) = - sgn s := by
  cases s <;>
    first | (show sgn Sign.positive = _; simp [sgn]) | (show sgn Sign.negative = _; simp [sgn])

theorem sgn_mul_R (spec : Format) (s : Sign) (x : ℚ) : sgn s * Rs spec x = Rs spec (sgn s * x) := by
  cases s
  · simp only [sgn, neg_mul, one_mul, Rs, R_neg]
  · simp only [sgn, one_mul]

theorem val_rwa (spec : Format) (s : Sign) {m : ℕ} (hm : 0 < m) (e : ℤ) :
    val (roundWithAccuracy spec s m e .exact) = Rs spec (sgn s * ((m : ℚ) * 2^e)) := by
  rw [← sgn_mul_R]; unfold Rs
  rw [← rwaME_val spec hm e, rwa_eq]
  split
  · rename_i h; simp [val, h]
  · simp only [val]; ring

theorem isFinite_rwa (spec : Format) (s : Sign) (m : ℕ) (e : ℤ) :
    (roundWithAccuracy spec s m e .exact).isFinite = true := by
  rw [rwa_eq]; split <;> rfl

theorem canon_rwa (spec : Format) (s : Sign) {m : ℕ} (hm : 0 < m) {e : ℤ} (hA : e ≤ tE spec m e) :
    Canon spec (roundWithAccuracy spec s m e .exact) := by
  rw [rwa_eq]; split
  · trivial
  · exact rwaME_canon spec hm hA

/-! ### `round` -/

theorem log2_mul_two_pow {m : ℕ} (hm : 0 < m) (j : ℕ) : (m * 2^j).log2 = m.log2 + j := by
  have h0 : m * 2^j ≠ 0 := Nat.mul_ne_zero (Nat.pos_iff_ne_zero.mp hm) (by simp)
  rw [Nat.log2_eq_iff h0]
  constructor
  · rw [Nat.pow_add]; exact Nat.mul_le_mul_right _ (Nat.log2_self_le (Nat.pos_iff_ne_zero.mp hm))
  · rw [show m.log2 + j + 1 = (m.log2 + 1) + j by omega, Nat.pow_add]
    exact Nat.mul_lt_mul_of_pos_right Nat.lt_log2_self (Nat.pos_of_ne_zero (by simp))

theorem round_eq (spec : Format) (s : Sign) (m : ℕ) (e : ℤ) :
    UnpackedFloat.round spec s m e =
      roundWithAccuracy spec s (m * 2^(e - tE spec m e).toNat) (e - ((e - tE spec m e).toNat : ℤ)) .exact := by
  simp only [UnpackedFloat.round, decreaseExponent, Nat.shiftLeft_eq]
  rfl

theorem tE_shift (spec : Format) {m : ℕ} (hm : 0 < m) (e : ℤ) (j : ℕ) :
    tE spec (m * 2^j) (e - j) = tE spec m e := by
  rw [tE_def, tE_def, log2_mul_two_pow hm]; congr 1; push_cast; ring

theorem val_round (spec : Format) (s : Sign) {m : ℕ} (hm : 0 < m) (e : ℤ) :
    val (UnpackedFloat.round spec s m e) = Rs spec (sgn s * ((m : ℚ) * 2^e)) := by
  rw [round_eq, val_rwa spec s (Nat.mul_pos hm (Nat.pos_of_ne_zero (by simp)))]
  congr 2
  push_cast
  rw [mul_assoc, ← zpow_natCast, ← zpow_add₀ (by norm_num)]; congr 2; ring

theorem isFinite_round (spec : Format) (s : Sign) (m : ℕ) (e : ℤ) :
    (UnpackedFloat.round spec s m e).isFinite = true := by
  rw [round_eq]; exact isFinite_rwa ..

theorem canon_round (spec : Format) (s : Sign) {m : ℕ} (hm : 0 < m) (e : ℤ) :
    Canon spec (UnpackedFloat.round spec s m e) := by
  rw [round_eq]
  apply canon_rwa spec s (Nat.mul_pos hm (Nat.pos_of_ne_zero (by simp)))
  rw [tE_shift spec hm]; omega

/-! ### `normalize` -/

theorem val_normalize (spec : Format) (M : ℤ) (e : ℤ) (zs : Sign) :
    val (normalize spec M e zs) = Rs spec ((M : ℚ) * 2^e) := by
  unfold normalize
  rcases lt_trichotomy M 0 with h | h | h
  · have hc : compare M 0 = .lt := by rw [compare_lt_iff_lt]; exact h
    simp only [hc]
    rw [val_round spec _ (by omega)]
    congr 1
    have : (((-M).toNat : ℕ) : ℚ) = -(M : ℚ) := by
      have : (((-M).toNat : ℕ) : ℤ) = -M := by omega
      exact_mod_cast this
    rw [this]; simp [sgn]
  · subst h
    have hc : compare (0 : ℤ) 0 = .eq := by rw [compare_eq_iff_eq]
    simp only [hc]; simp [val, Rs, R_zero]
  · have hc : compare M 0 = .gt := by rw [compare_gt_iff_gt]; exact h
    simp only [hc]
    rw [val_round spec _ (by omega)]
    congr 1
    have : ((M.toNat : ℕ) : ℚ) = (M : ℚ) := by
      have : ((M.toNat : ℕ) : ℤ) = M := by omega
      exact_mod_cast this
    rw [this]; simp [sgn]

theorem isFinite_normalize (spec : Format) (M : ℤ) (e : ℤ) (zs : Sign) :
    (normalize spec M e zs).isFinite = true := by
  unfold normalize
  split <;> first | exact isFinite_round .. | rfl

theorem canon_normalize (spec : Format) (M : ℤ) (e : ℤ) (zs : Sign) :
    Canon spec (normalize spec M e zs) := by
  unfold normalize
  split
  · rename_i h; rw [compare_lt_iff_lt] at h; exact canon_round spec _ (by omega) e
  · trivial
  · rename_i h; rw [compare_gt_iff_gt] at h; exact canon_round spec _ (by omega) e

/-! ### `mul` -/

theorem minExponent_le_zero (spec : Format) : spec.minExponent ≤ 0 := by
  have h1 := spec.hm
  have h2 : (1 : ℤ) ≤ 2^(spec.exponentBits - 1) := by exact_mod_cast Nat.one_le_two_pow
  unfold Format.minExponent Format.mantissaBits
  push_cast; omega

theorem val_mul (spec : Format) {a b : UnpackedFloat} (ha : a.isFinite = true) (hb : b.isFinite = true) :
    val (UnpackedFloat.mul spec a b) = Rs spec (val a * val b) := by
  cases a <;> cases b <;> simp only [UnpackedFloat.isFinite, Bool.false_eq_true] at ha hb
  · simp only [UnpackedFloat.mul, val, zero_mul, Rs_zero]
  · simp only [UnpackedFloat.mul, val, zero_mul, Rs_zero]
  · simp only [UnpackedFloat.mul, val, mul_zero, Rs_zero]
  · rename_i s₁ m₁ e₁ h₁ s₂ m₂ e₂ h₂
    simp only [UnpackedFloat.mul]
    rw [val_rwa spec _ (Nat.mul_pos h₁ h₂), sgn_mul]
    congr 1; simp only [val]; push_cast
    rw [zpow_add₀ (by norm_num)]; ring

theorem isFinite_mul (spec : Format) {a b : UnpackedFloat} (ha : a.isFinite = true) (hb : b.isFinite = true) :
    (UnpackedFloat.mul spec a b).isFinite = true := by
  cases a <;> cases b <;> simp only [UnpackedFloat.isFinite, Bool.false_eq_true] at ha hb <;>
    first | rfl | exact isFinite_rwa ..

theorem log2_mul_ge {m₁ m₂ j : ℕ} (h₁ : 2^j ≤ m₁) (h₂ : 0 < m₂) : j ≤ (m₁ * m₂).log2 := by
  have h0 : m₁ * m₂ ≠ 0 := Nat.mul_ne_zero (by have : 0 < 2^j := Nat.pos_of_ne_zero (by simp); omega) (by omega)
  rw [Nat.le_log2 h0]
  calc 2^j ≤ m₁ := h₁
    _ = m₁ * 1 := (Nat.mul_one _).symm
    _ ≤ m₁ * m₂ := Nat.mul_le_mul_left _ h₂

theorem canon_mul (spec : Format) {a b : UnpackedFloat} (ha : Canon spec a) (hb : Canon spec b) :
    Canon spec (UnpackedFloat.mul spec a b) := by
  cases a <;> cases b <;> simp only [UnpackedFloat.mul] <;> try trivial
  rename_i s₁ m₁ e₁ h₁ s₂ m₂ e₂ h₂
  apply canon_rwa spec _ (Nat.mul_pos h₁ h₂)
  have hp := one_le_mantissaBits spec
  have hz := minExponent_le_zero spec
  rw [tE_def]
  have n₁ := ha.norm
  have n₂ := hb.norm
  have l₁ := ha.emin_le
  have l₂ := hb.emin_le
  rcases n₁ with n₁ | n₁ | n₁
  · omega
  · have := log2_mul_ge n₁ h₂
    exact le_trans (by omega) (le_max_left _ _)
  · rcases n₂ with n₂ | n₂ | n₂
    · omega
    · have := log2_mul_ge n₂ h₁
      rw [Nat.mul_comm] at this
      exact le_trans (by omega) (le_max_left _ _)
    · exact le_trans (by omega) (le_max_right _ _)

/-! ### `add` -/

theorem sign_apply_cast (s : Sign) (n : ℤ) : ((s.apply n : ℤ) : ℚ) = sgn s * n := by
  cases s <;> simp [Sign.apply, sgn]

theorem R_val_of_canon (spec : Format) {f : UnpackedFloat} (hf : Canon spec f) : Rs spec (val f) = val f := by
  cases f <;> simp only [val, Rs_zero]
  rename_i s m e h
  have := R_fix (p := spec.mantissaBits) (emin := spec.minExponent) (n := (m : ℤ)) (t := e)
      (by rw [abs_of_nonneg (by positivity)]; exact_mod_cast hf.lt) hf.emin_le
  have h2 : sgn s * (m : ℚ) * 2^e = sgn s * ((m : ℚ) * 2^e) := by ring
  rw [h2, ← sgn_mul_R]
  push_cast at this; unfold Rs; rw [this]

theorem add_finite (spec : Format) (s₁ : Sign) (m₁ : ℕ) (e₁ : ℤ) (h₁ : 0 < m₁) (s₂ : Sign) (m₂ : ℕ) (e₂ : ℤ) (h₂ : 0 < m₂) :
    UnpackedFloat.add spec (.finite s₁ m₁ e₁ h₁) (.finite s₂ m₂ e₂ h₂) =
      normalize spec (s₁.apply ((m₁ * 2^(e₁ - min e₁ e₂).toNat : ℕ) : ℤ) + s₂.apply ((m₂ * 2^(e₂ - min e₁ e₂).toNat : ℕ) : ℤ))
        (min e₁ e₂) .positive := by
  simp only [UnpackedFloat.add, decreaseExponent, Nat.shiftLeft_eq]

theorem val_add (spec : Format) {a b : UnpackedFloat} (ha : a.isFinite = true) (hb : b.isFinite = true)
    (ca : Canon spec a) (cb : Canon spec b) :
    val (UnpackedFloat.add spec a b) = Rs spec (val a + val b) := by
  cases a <;> cases b <;> simp only [UnpackedFloat.isFinite, Bool.false_eq_true] at ha hb
  · rename_i s₁ s₂
    simp only [UnpackedFloat.add]; split <;> simp [val, Rs_zero]
  · simp only [UnpackedFloat.add]
    rw [show val (UnpackedFloat.zero _) = 0 from rfl, zero_add, R_val_of_canon spec cb]
  · simp only [UnpackedFloat.add]
    rw [show val (UnpackedFloat.zero _) = 0 from rfl, add_zero, R_val_of_canon spec ca]
  · rename_i s₁ m₁ e₁ h₁ s₂ m₂ e₂ h₂
    rw [add_finite, val_normalize]
    congr 1
    push_cast
    rw [sign_apply_cast, sign_apply_cast]
    simp only [val]
    push_cast
    have k₁ : ((e₁ - min e₁ e₂).toNat : ℤ) + min e₁ e₂ = e₁ := by omega
    have k₂ : ((e₂ - min e₁ e₂).toNat : ℤ) + min e₁ e₂ = e₂ := by omega
    have z₁ : (2 : ℚ)^(e₁ - min e₁ e₂).toNat * 2^(min e₁ e₂) = 2^e₁ := by
      rw [← zpow_natCast, ← zpow_add₀ (by norm_num), k₁]
    have z₂ : (2 : ℚ)^(e₂ - min e₁ e₂).toNat * 2^(min e₁ e₂) = 2^e₂ := by
      rw [← zpow_natCast, ← zpow_add₀ (by norm_num), k₂]
    rw [← z₁, ← z₂]; ring

theorem isFinite_add (spec : Format) {a b : UnpackedFloat} (ha : a.isFinite = true) (hb : b.isFinite = true) :
    (UnpackedFloat.add spec a b).isFinite = true := by
  cases a <;> cases b <;> simp only [UnpackedFloat.isFinite, Bool.false_eq_true] at ha hb
  · simp only [UnpackedFloat.add]; split <;> rfl
  · simp only [UnpackedFloat.add]; rfl
  · simp only [UnpackedFloat.add]; rfl
  · rw [add_finite]; exact isFinite_normalize ..

theorem canon_add (spec : Format) {a b : UnpackedFloat} (ca : Canon spec a) (cb : Canon spec b) :
    Canon spec (UnpackedFloat.add spec a b) := by
  cases a <;> cases b
  case finite.finite => rw [add_finite]; exact canon_normalize ..
  case zero.finite => simpa only [UnpackedFloat.add] using cb
  case finite.zero => simpa only [UnpackedFloat.add] using ca
  all_goals simp only [UnpackedFloat.add]
  all_goals first | trivial | (split <;> trivial)

end Ieee
