/-
  IEEE reasoning layer, part 3: the rounding function of a binary format as a function on exact values,
  `R p emin : ℚ → ℚ` (`p` = precision including the implicit bit, `emin` = exponent of the least subnormal,
  unbounded above: overflow is handled at the packing step), with

  * `R_mono`     — monotone on all of ℚ, across binades and through the subnormal range and zero,
  * `R_error`    — `|R x − x| ≤ ½·2^(texp x)` (half a unit in the last place of the binade of `x`),
  * `R_fix`      — representable values are fixed points,
  * `R_neg`      — symmetric.

  `PaletteProofs/Ieee/RoundModel.lean` proves that core's `roundWithAccuracy`/`round` compute exactly this function.
-/
import PaletteProofs.Ieee.Rne
import Mathlib.Data.Int.Log
import Mathlib.Tactic.Ring
import Mathlib.Tactic.Linarith
import Mathlib.Tactic.Positivity
import Mathlib.Tactic.FieldSimp

namespace Ieee

/-- exponent of the last place kept when rounding `x` -/
def texp (p : ℕ) (emin : ℤ) (x : ℚ) : ℤ := max (Int.log 2 |x| + 1 - p) emin

/-- round to nearest, ties to even, in the format `(p, emin)`; no overflow threshold -/
def R (p : ℕ) (emin : ℤ) (x : ℚ) : ℚ := rne (x / 2^(texp p emin x)) * 2^(texp p emin x)

variable {p : ℕ} {emin : ℤ}

theorem texp_neg (x : ℚ) : texp p emin (-x) = texp p emin x := by unfold texp; rw [abs_neg]

theorem emin_le_texp (x : ℚ) : emin ≤ texp p emin x := le_max_right _ _

theorem R_neg (x : ℚ) : R p emin (-x) = - R p emin x := by
  unfold R; rw [texp_neg, neg_div, rne_neg]; push_cast; ring

theorem R_zero : R p emin 0 = 0 := by
  unfold R; rw [zero_div, show (0 : ℚ) = ((0 : ℤ) : ℚ) by simp, rne_intCast]; simp

theorem two_zpow_pos (t : ℤ) : (0 : ℚ) < 2^t := zpow_pos (by norm_num) t

theorem R_nonneg {x : ℚ} (h : 0 ≤ x) : 0 ≤ R p emin x := by
  unfold R
  have : 0 ≤ x / 2^(texp p emin x) := div_nonneg h (two_zpow_pos _).le
  have := rne_nonneg this
  have h2 : (0 : ℚ) ≤ (rne (x / 2^(texp p emin x)) : ℚ) := by exact_mod_cast this
  exact mul_nonneg h2 (two_zpow_pos _).le

theorem R_error (x : ℚ) : |R p emin x - x| ≤ 2^(texp p emin x) / 2 := by
  unfold R
  set t := texp p emin x
  have ht := two_zpow_pos t
  have h := abs_rne_sub_le (x / 2^t)
  have e : (rne (x / 2^t) : ℚ) * 2^t - x = ((rne (x / 2^t) : ℚ) - x / 2^t) * 2^t := by
    field_simp
  rw [e, abs_mul, abs_of_pos ht]
  calc |(rne (x / 2^t) : ℚ) - x / 2^t| * 2^t ≤ (1 / 2) * 2^t := mul_le_mul_of_nonneg_right h ht.le
    _ = 2^t / 2 := by ring

theorem texp_mono {x y : ℚ} (hx : 0 < x) (h : x ≤ y) : texp p emin x ≤ texp p emin y := by
  unfold texp
  rw [abs_of_pos hx, abs_of_pos (lt_of_lt_of_le hx h)]
  have := Int.log_mono_right (b := 2) hx h
  exact max_le_max (by omega) le_rfl

theorem rne_le_of_le_natPow {z : ℚ} {k : ℕ} (h : z ≤ 2^k) : (rne z : ℚ) ≤ 2^k := by
  have := rne_mono h
  rw [show (2 : ℚ)^k = (((2^k : ℕ) : ℤ) : ℚ) by push_cast; rfl, rne_intCast] at this
  have h2 : ((rne z : ℤ) : ℚ) ≤ (((2^k : ℕ) : ℤ) : ℚ) := by exact_mod_cast this
  simpa using h2

theorem natPow_le_rne_of_le {z : ℚ} {k : ℕ} (h : 2^k ≤ z) : (2 : ℚ)^k ≤ (rne z : ℚ) := by
  have := rne_mono h
  rw [show (2 : ℚ)^k = (((2^k : ℕ) : ℤ) : ℚ) by push_cast; rfl, rne_intCast] at this
  have h2 : (((2^k : ℕ) : ℤ) : ℚ) ≤ ((rne z : ℤ) : ℚ) := by exact_mod_cast this
  simpa using h2

theorem R_mono_pos (hp : 1 ≤ p) {x y : ℚ} (hx : 0 < x) (h : x ≤ y) : R p emin x ≤ R p emin y := by
  have hy : 0 < y := lt_of_lt_of_le hx h
  have ht := texp_mono (p := p) (emin := emin) hx h
  rcases ht.lt_or_eq with hlt | heq
  · -- different binades: `2^(ty+p-1)` separates the two results
    set tx := texp p emin x with htx
    set ty := texp p emin y with hty
    have hty' : ty = Int.log 2 y + 1 - p := by
      have h1 : emin ≤ tx := emin_le_texp x
      have : ty = max (Int.log 2 |y| + 1 - p) emin := rfl
      rw [abs_of_pos hy] at this
      rcases le_total (Int.log 2 y + 1 - p) emin with hh | hh
      · rw [max_eq_right hh] at this; omega
      · rw [max_eq_left hh] at this; exact this
    have htx' : Int.log 2 x + 1 - p ≤ tx := by
      have : tx = max (Int.log 2 |x| + 1 - p) emin := rfl
      rw [abs_of_pos hx] at this; rw [this]; exact le_max_left _ _
    -- lower bound for R y
    have hylow : (2 : ℚ)^(ty + p - 1) ≤ y := by
      have := Int.zpow_log_le_self (b := 2) (r := y) (by norm_num) hy
      rw [show ty + (p : ℤ) - 1 = Int.log 2 y by omega]; exact_mod_cast this
    have hRy : (2 : ℚ)^(ty + p - 1) ≤ R p emin y := by
      unfold R; rw [← hty]
      have h1 : (2 : ℚ)^(p - 1) ≤ y / 2^ty := by
        rw [le_div_iff₀ (two_zpow_pos ty), ← zpow_natCast, ← zpow_add₀ (by norm_num)]
        rw [show ((p - 1 : ℕ) : ℤ) + ty = ty + p - 1 by omega]; exact hylow
      have h2 := natPow_le_rne_of_le h1
      calc (2 : ℚ)^(ty + p - 1) = 2^(p - 1) * 2^ty := by
            rw [← zpow_natCast, ← zpow_add₀ (by norm_num)]; congr 1; omega
        _ ≤ _ := mul_le_mul_of_nonneg_right h2 (two_zpow_pos ty).le
    -- upper bound for R x
    have hxup : x ≤ (2 : ℚ)^(ty + p - 1) := by
      have h1 := Int.lt_zpow_succ_log_self (b := 2) (by norm_num) x
      have h2 : ((2 : ℕ) : ℚ)^(Int.log 2 x + 1) ≤ (2 : ℚ)^(ty + p - 1) := by
        push_cast; exact zpow_le_zpow_right₀ (by norm_num) (by omega)
      exact le_of_lt (lt_of_lt_of_le h1 h2)
    have hRx : R p emin x ≤ (2 : ℚ)^(ty + p - 1) := by
      unfold R; rw [← htx]
      obtain ⟨k, hk⟩ : ∃ k : ℕ, (k : ℤ) = ty + p - 1 - tx := ⟨(ty + p - 1 - tx).toNat, by omega⟩
      have h1 : x / 2^tx ≤ (2 : ℚ)^k := by
        rw [div_le_iff₀ (two_zpow_pos tx), ← zpow_natCast, ← zpow_add₀ (by norm_num), hk]
        rw [show ty + p - 1 - tx + tx = ty + p - 1 by omega]; exact hxup
      have h2 := rne_le_of_le_natPow h1
      calc (rne (x / 2^tx) : ℚ) * 2^tx ≤ 2^k * 2^tx := mul_le_mul_of_nonneg_right h2 (two_zpow_pos tx).le
        _ = 2^(ty + p - 1) := by
            rw [← zpow_natCast, ← zpow_add₀ (by norm_num), hk]; congr 1; omega
    exact le_trans hRx hRy
  · unfold R; rw [← heq]
    have ht := two_zpow_pos (texp p emin x)
    have : x / 2^(texp p emin x) ≤ y / 2^(texp p emin x) := div_le_div_of_nonneg_right h ht.le
    have := rne_mono this
    have h2 : (rne (x / 2^(texp p emin x)) : ℚ) ≤ (rne (y / 2^(texp p emin x)) : ℚ) := by exact_mod_cast this
    exact mul_le_mul_of_nonneg_right h2 ht.le

/-- **rounding is monotone in the exact value** (all of ℚ: across binades, subnormals, zero, both signs) -/
theorem R_mono (hp : 1 ≤ p) {x y : ℚ} (h : x ≤ y) : R p emin x ≤ R p emin y := by
  rcases lt_trichotomy x 0 with hx | hx | hx
  · rcases lt_or_ge y 0 with hy | hy
    · have := R_mono_pos (emin := emin) hp (x := -y) (y := -x) (by linarith) (by linarith)
      rw [R_neg, R_neg] at this; linarith
    · have h1 := R_nonneg (p := p) (emin := emin) (x := -x) (by linarith)
      rw [R_neg] at h1
      have h2 := R_nonneg (p := p) (emin := emin) hy
      linarith
  · subst hx; rw [R_zero]; exact R_nonneg h
  · exact R_mono_pos hp hx h

/-- values `n · 2^t` with `|n| < 2^p`, `t ≥ emin` are fixed points of the rounding -/
theorem R_fix {n : ℤ} {t : ℤ} (hn : |n| < 2^p) (ht : emin ≤ t) : R p emin (n * 2^t) = n * 2^t := by
  rcases eq_or_ne n 0 with h0 | h0
  · subst h0; simp [R_zero]
  unfold R
  set x : ℚ := n * 2^t with hx
  set tx := texp p emin x with htx
  have hle : tx ≤ t := by
    have habs : |x| = (|n| : ℤ) * 2^t := by
      rw [hx, abs_mul, abs_of_pos (two_zpow_pos t)]; push_cast; rfl
    have hpos : 0 < |x| := by
      rw [habs]; exact mul_pos (by exact_mod_cast abs_pos.mpr h0) (two_zpow_pos t)
    have hlt : |x| < ((2 : ℕ) : ℚ)^(p + t : ℤ) := by
      rw [habs, zpow_add₀ (by norm_num), zpow_natCast]
      apply mul_lt_mul_of_pos_right _ (two_zpow_pos t)
      exact_mod_cast hn
    have := (Int.lt_zpow_iff_log_lt (b := 2) (by norm_num) hpos).mp hlt
    show max (Int.log 2 |x| + 1 - p) emin ≤ t
    exact max_le (by omega) ht
  obtain ⟨k, hk⟩ : ∃ k : ℕ, (k : ℤ) = t - tx := ⟨(t - tx).toNat, by omega⟩
  have hdiv : x / 2^tx = ((n * 2^k : ℤ) : ℚ) := by
    rw [hx, div_eq_iff (two_zpow_pos tx).ne']
    push_cast
    rw [mul_assoc, ← zpow_natCast, ← zpow_add₀ (by norm_num), hk]; congr 2; omega
  rw [hdiv, rne_intCast, ← hdiv]
  field_simp

/-- rounding error from a magnitude bound: `|x| < 2^k` gives half a unit of the binade below `2^k` -/
theorem R_error_le {x : ℚ} {k : ℤ} (h : |x| < 2^k) : |R p emin x - x| ≤ 2^(max (k - p) emin) / 2 := by
  rcases eq_or_ne x 0 with h0 | h0
  · subst h0; rw [R_zero, sub_zero, abs_zero]; exact div_nonneg (two_zpow_pos _).le (by norm_num)
  · have hpos : 0 < |x| := abs_pos.mpr h0
    have hl : Int.log 2 |x| < k := (Int.lt_zpow_iff_log_lt (b := 2) (by norm_num) hpos).mp (by exact_mod_cast h)
    have ht : texp p emin x ≤ max (k - p) emin := max_le_max (by omega) le_rfl
    exact le_trans (R_error x) (div_le_div_of_nonneg_right (zpow_le_zpow_right₀ (by norm_num) ht) (by norm_num))

theorem R_natCast_of_lt {n : ℕ} (hn : n < 2^p) (he : emin ≤ 0) : R p emin (n : ℚ) = n := by
  have := R_fix (p := p) (emin := emin) (n := (n : ℤ)) (t := 0) (by rw [abs_of_nonneg (by positivity)]; exact_mod_cast hn) he
  simpa using this

end Ieee
