/-
  C05 — "every RGB/luma encoding … equal to the standard's curve": which curve a *standard* uses is an association in the sources
  (`impl RgbStandard for S { type TransferFn = … }`, `impl LumaStandard for S { type TransferFn = … }`), regenerated into
  `Gen.Mat.rgbStandards` / `Gen.Mat.lumaStandards` on every run.  The published association (IEC 61966-2-1, ITU-R BT.709 / BT.2020,
  Adobe RGB (1998), SMPTE RP 431-2 (DCI-P3, gamma 2.6), Display P3 (sRGB curve), ROMM/ProPhoto) is the hand-written table below;
  the curves themselves are C05_Transfer's.
-/
import PaletteModel.Gen.Matrices

namespace C05Std

/-- standard ↦ Rust name of the transfer function its defining document prescribes (`F`: the type parameter of `DciP3Plus<F>`) -/
def publishedCurve : List (String × String) :=
  [("Srgb", "Srgb"), ("Rec709", "RecOetf"), ("Rec2020", "RecOetf"), ("AdobeRgb", "AdobeRgb"), ("DciP3", "P3Gamma"),
   ("DciP3Plus", "F"), ("DisplayP3", "Srgb"), ("ProPhotoRgb", "ProPhotoRgb")]

/-- standard ↦ its reference white -/
def publishedWhite : List (String × String) :=
  [("Srgb", "D65"), ("Rec709", "D65"), ("Rec2020", "D65"), ("AdobeRgb", "D65"), ("DciP3", "DciP3"), ("DciP3Plus", "DciP3"),
   ("DisplayP3", "D65"), ("ProPhotoRgb", "D50")]

def lookup (t : List (String × String)) (k : String) : Option String := (t.find? (·.1 == k)).map (·.2)

/-- **every RGB standard encodes with its published curve** -/
theorem rgb_standards_use_published_curve :
    Gen.Mat.rgbStandards.all (fun s => lookup publishedCurve s.1 == some s.2.2) = true ∧ Gen.Mat.rgbStandards.length = publishedCurve.length := by
  decide

/-- **every luma standard encodes with its published curve** and is relative to its published white -/
theorem luma_standards_use_published_curve :
    Gen.Mat.lumaStandards.all (fun s => lookup publishedCurve s.1 == some s.2.2 && lookup publishedWhite s.1 == some s.2.1) = true ∧
    Gen.Mat.lumaStandards.length = publishedCurve.length := by
  decide

/-- the luma form and the RGB form of one standard share the curve, and the luma white point is the white point of the RGB space -/
theorem luma_agrees_with_rgb :
    Gen.Mat.lumaStandards.all (fun l => Gen.Mat.rgbStandards.any (fun r => r.1 == l.1 && r.2.2 == l.2.2 &&
      (Gen.Mat.rgbSpaces.any (fun sp => (sp.1 == r.2.1 || sp.1 ++ "<F>" == r.2.1) && sp.2.1 == l.2.1)))) = true := by
  decide

end C05Std
