/-
  C17 — at `Mask = bool` the mask-generic reading of a function body is its scalar reading.

  `tools/rust2lean_simd.py` (called by `extract.py`) re-reads, on every run, the text of the generic function bodies that compile
  for the SIMD component types and lowers it to `Gen.BodyV.<name> [VScalar α μ]` (lean/PaletteModel/Gen/BodiesV.lean): comparisons
  produce masks, `lazy_select!`/`select` blend two computed values, the `TypeId::of::<T::Mask>() == bool` test is false, and every
  construct that is not lane-wise (an `if` on a mask, `.is_true()`, an early `return`, `<` on components, an unregistered `TypeId`
  test) is refused.  `tools/rust2lean.py` lowers the same text to `Gen.Body.<name> [Scalar α]` the way `f32`/`f64` execute it, and
  `Tie_Bodies.lean` proves that equal to the hand model the driver runs and the C01/C02/C05/C08 theorems talk about.

  Each `tieV_<name>` below closes the triangle: for **every** `[Scalar α]` (so at `Float32`, `Float`, `ℝ` alike), the mask-generic
  body instantiated at the scalar representation `Simd.ofScalar` (`μ = Bool`, `select` = `if`, comparison = `decide`) *is* the
  scalar body.  Law-free: unfolding, and `if decide p = true then x else y = if p then x else y`.  Together with `Tie.tie_<name>`:
  `Gen.BodyV.<name>` at `Bool` = the hand model function (`tieV_model_*` at the end for the edges used by `C17_Edges`).

  `extract.py` refuses to run when a translated mask-generic body has no `tieV_` theorem here.
-/
import PaletteModel.Gen.BodiesV
import PaletteModel.Gen.Bodies
import PaletteModel.Ops
import PaletteModel.Blend
import PaletteProofs.Tie_Bodies

namespace TieV
open Simd
variable {α : Type} [Scalar α]

/-! ### `select` on a `bool` mask that comes from a comparison is the `if` on that comparison -/

theorem sel (c : Prop) [Decidable c] (a b : α) : VScalar.select (decide c) a b = if c then a else b := by
  show (if decide c = true then a else b) = _
  by_cases h : c <;> simp [h]

theorem sel_lt (a b x y : α) : VScalar.select (VScalar.lt a b : Bool) x y = if a < b then x else y := sel _ _ _
theorem sel_le (a b x y : α) : VScalar.select (VScalar.le a b : Bool) x y = if a ≤ b then x else y := sel _ _ _
theorem sel_gt (a b x y : α) : VScalar.select (VScalar.gt a b : Bool) x y = if b < a then x else y := sel _ _ _
theorem sel_ge (a b x y : α) : VScalar.select (VScalar.ge a b : Bool) x y = if b ≤ a then x else y := sel _ _ _
theorem sel_eq (a b x y : α) : VScalar.select (VScalar.eq a b : Bool) x y = if Scalar.eqv a b then x else y := sel _ _ _
/-- `neq` is `!eq` on the `bool` side; the scalar translator writes a stored `a != b` as `decide (¬ a == b)` -/
theorem ne_bool (a b : α) : (VScalar.ne a b : Bool) = decide (¬ Scalar.eqv a b) := by
  show (!decide (Scalar.eqv a b)) = _
  by_cases h : Scalar.eqv a b <;> simp [h]

/-- unfold the select forms; what is left is definitional -/
macro "tie_v" : tactic =>
  `(tactic| (first | rfl | (simp -zeta only [lazySelect, sel_lt, sel_le, sel_gt, sel_ge, sel_eq, ne_bool]; rfl)))

/-! ### angle helpers: the `impl_angle_wide_float!` text (angle/wide.rs) against the `impl_angle_float!` text (angle.rs) -/
theorem tieV_angleNormalizeUnsigned : @Gen.BodyV.angleNormalizeUnsigned α Bool _ = Gen.Body.angleNormalizeUnsigned := rfl
/-- … and against the operator model's `SignedAngle::normalize_signed_angle` (Ops.lean, C10) -/
theorem tieV_angleNormalizeSigned : @Gen.BodyV.angleNormalizeSigned α Bool _ = Ops.normSigned := rfl

/-! ### hues.rs -/
section angle
variable [Angle α]
theorem tieV_hueFromRadians : @Gen.BodyV.hueFromRadians α Bool _ _ = Gen.Body.hueFromRadians := rfl
theorem tieV_hueIntoRawRadians : @Gen.BodyV.hueIntoRawRadians α Bool _ _ = Gen.Body.hueIntoRawRadians := rfl
theorem tieV_hueFromCartesian : @Gen.BodyV.hueFromCartesian α Bool _ _ = Gen.Body.hueFromCartesian := rfl
theorem tieV_hueIntoCartesian : @Gen.BodyV.hueIntoCartesian α Bool _ _ = Gen.Body.hueIntoCartesian := rfl
theorem tieV_labGetHue : @Gen.BodyV.labGetHue α Bool _ _ = Gen.Body.labGetHue := rfl
theorem tieV_luvGetHue : @Gen.BodyV.luvGetHue α Bool _ _ = Gen.Body.luvGetHue := rfl
end angle
theorem tieV_hueIntoPositiveDegrees : @Gen.BodyV.hueIntoPositiveDegrees α Bool _ = Gen.Body.hueIntoPositiveDegrees := rfl

/-! ### CIE family -/
theorem tieV_xyzToYxy : @Gen.BodyV.xyzToYxy α Bool _ = Gen.Body.xyzToYxy := rfl
theorem tieV_yxyToXyz : @Gen.BodyV.yxyToXyz α Bool _ = Gen.Body.yxyToXyz := rfl
theorem tieV_xyzToLab : @Gen.BodyV.xyzToLab α Bool _ = Gen.Body.xyzToLab := by
  funext wp c; unfold Gen.BodyV.xyzToLab Gen.Body.xyzToLab; tie_v
theorem tieV_labToXyz : @Gen.BodyV.labToXyz α Bool _ = Gen.Body.labToXyz := by
  funext wp c; unfold Gen.BodyV.labToXyz Gen.Body.labToXyz; tie_v
section angle
variable [Angle α]
theorem tieV_labToLch : @Gen.BodyV.labToLch α Bool _ _ = Gen.Body.labToLch := rfl
theorem tieV_lchToLab : @Gen.BodyV.lchToLab α Bool _ _ = Gen.Body.lchToLab := rfl
theorem tieV_luvToLchuv : @Gen.BodyV.luvToLchuv α Bool _ _ = Gen.Body.luvToLchuv := rfl
theorem tieV_lchuvToLuv : @Gen.BodyV.lchuvToLuv α Bool _ _ = Gen.Body.lchuvToLuv := rfl
end angle

/-! ### RGB family; `rgbToHsvMask`/`rgbToHslMask`: the `TypeId` test resolved to *false* in both translators -/
theorem tieV_rgbToHsvMask : @Gen.BodyV.rgbToHsvMask α Bool _ = Gen.Body.rgbToHsvMask := by
  funext c; unfold Gen.BodyV.rgbToHsvMask Gen.Body.rgbToHsvMask; tie_v
theorem tieV_rgbToHslMask : @Gen.BodyV.rgbToHslMask α Bool _ = Gen.Body.rgbToHslMask := by
  funext c; unfold Gen.BodyV.rgbToHslMask Gen.Body.rgbToHslMask; tie_v
theorem tieV_hsvToRgb : @Gen.BodyV.hsvToRgb α Bool _ = Gen.Body.hsvToRgb := rfl
theorem tieV_hslToRgb : @Gen.BodyV.hslToRgb α Bool _ = Gen.Body.hslToRgb := rfl
theorem tieV_hslToHsv : @Gen.BodyV.hslToHsv α Bool _ = Gen.Body.hslToHsv := by
  funext c; unfold Gen.BodyV.hslToHsv Gen.Body.hslToHsv; tie_v
theorem tieV_hsvToHsl : @Gen.BodyV.hsvToHsl α Bool _ = Gen.Body.hsvToHsl := by
  funext c; unfold Gen.BodyV.hsvToHsl Gen.Body.hsvToHsl; tie_v
theorem tieV_hsvToHwb : @Gen.BodyV.hsvToHwb α Bool _ = Gen.Body.hsvToHwb := rfl
theorem tieV_hwbToHsv : @Gen.BodyV.hwbToHsv α Bool _ = Gen.Body.hwbToHsv := rfl

/-! ### transfer functions.  `mul_add`/`mul_sub` are operations of the representation (`VFused`): at the scalar representation they
    are the type's own `Scalar.mulAdd` (fused for floats) and `Scalar.mulSub`, so no hypothesis about fusing is needed here -/
theorem tieV_srgbIntoLinear : @Gen.BodyV.srgbIntoLinear α Bool _ _ = Gen.Body.srgbIntoLinear := by
  funext x; unfold Gen.BodyV.srgbIntoLinear Gen.Body.srgbIntoLinear; tie_v
theorem tieV_srgbFromLinear : @Gen.BodyV.srgbFromLinear α Bool _ _ = Gen.Body.srgbFromLinear := by
  funext x; unfold Gen.BodyV.srgbFromLinear Gen.Body.srgbFromLinear; tie_v
theorem tieV_recIntoLinear : @Gen.BodyV.recIntoLinear α Bool _ _ = Gen.Body.recIntoLinear := by
  funext x; unfold Gen.BodyV.recIntoLinear Gen.Body.recIntoLinear; tie_v
theorem tieV_recFromLinear : @Gen.BodyV.recFromLinear α Bool _ _ = Gen.Body.recFromLinear := by
  funext x; unfold Gen.BodyV.recFromLinear Gen.Body.recFromLinear; tie_v
theorem tieV_adobeIntoLinear : @Gen.BodyV.adobeIntoLinear α Bool _ = Gen.Body.adobeIntoLinear := rfl
theorem tieV_adobeFromLinear : @Gen.BodyV.adobeFromLinear α Bool _ = Gen.Body.adobeFromLinear := rfl
theorem tieV_p3IntoLinear : @Gen.BodyV.p3IntoLinear α Bool _ = Gen.Body.p3IntoLinear := rfl
theorem tieV_p3FromLinear : @Gen.BodyV.p3FromLinear α Bool _ = Gen.Body.p3FromLinear := rfl
theorem tieV_prophotoIntoLinear : @Gen.BodyV.prophotoIntoLinear α Bool _ = Gen.Body.prophotoIntoLinear := by
  funext x; unfold Gen.BodyV.prophotoIntoLinear Gen.Body.prophotoIntoLinear; tie_v
theorem tieV_prophotoFromLinear : @Gen.BodyV.prophotoFromLinear α Bool _ = Gen.Body.prophotoFromLinear := by
  funext x; unfold Gen.BodyV.prophotoFromLinear Gen.Body.prophotoFromLinear; tie_v
theorem tieV_gammaIntoLinear : @Gen.BodyV.gammaIntoLinear α Bool _ = Gen.Body.gammaIntoLinear := rfl
theorem tieV_gammaFromLinear : @Gen.BodyV.gammaFromLinear α Bool _ = Gen.Body.gammaFromLinear := rfl

/-! ### matrices, Oklab, Oklch, Okhsv ↔ Okhwb -/
theorem tieV_matMulVec : @Gen.BodyV.matMulVec α Bool _ = Gen.Body.matMulVec := rfl
theorem tieV_oklabM1 : @Gen.BodyV.oklabM1 α Bool _ = Gen.Body.oklabM1 := rfl
theorem tieV_oklabM1Inv : @Gen.BodyV.oklabM1Inv α Bool _ = Gen.Body.oklabM1Inv := rfl
theorem tieV_oklabM2 : @Gen.BodyV.oklabM2 α Bool _ = Gen.Body.oklabM2 := rfl
theorem tieV_oklabM2Inv : @Gen.BodyV.oklabM2Inv α Bool _ = Gen.Body.oklabM2Inv := rfl
theorem tieV_xyzToOklab : @Gen.BodyV.xyzToOklab α Bool _ = Gen.Body.xyzToOklab := rfl
theorem tieV_oklabToXyz : @Gen.BodyV.oklabToXyz α Bool _ = Gen.Body.oklabToXyz := rfl
theorem tieV_linSrgbToOklab : @Gen.BodyV.linSrgbToOklab α Bool _ = Gen.Body.linSrgbToOklab := rfl
theorem tieV_oklabToLinSrgb : @Gen.BodyV.oklabToLinSrgb α Bool _ = Gen.Body.oklabToLinSrgb := rfl
section angle
variable [Angle α]
theorem tieV_oklabGetHue : @Gen.BodyV.oklabGetHue α Bool _ _ = Gen.Body.oklabGetHue := rfl
theorem tieV_oklabGetChroma : @Gen.BodyV.oklabGetChroma α Bool _ _ = Gen.Body.oklabGetChroma := rfl
theorem tieV_oklabToOklch : @Gen.BodyV.oklabToOklch α Bool _ _ = Gen.Body.oklabToOklch := rfl
theorem tieV_oklchToOklab : @Gen.BodyV.oklchToOklab α Bool _ _ = Gen.Body.oklchToOklab := rfl
end angle
theorem tieV_okhsvToOkhwb : @Gen.BodyV.okhsvToOkhwb α Bool _ = Gen.Body.okhsvToOkhwb := rfl
theorem tieV_okhwbToOkhsv : @Gen.BodyV.okhwbToOkhsv α Bool _ = Gen.Body.okhwbToOkhsv := rfl

/-! ### blend/blend.rs: the eleven per-mode functions against the hand model of C08 (PaletteModel/Blend.lean) -/
theorem tieV_multiplyBlend : @Gen.BodyV.multiplyBlend α Bool _ = Blend.multiplyBlend := rfl
theorem tieV_screenBlend : @Gen.BodyV.screenBlend α Bool _ = Blend.screenBlend := rfl
theorem tieV_hardLightBlend : @Gen.BodyV.hardLightBlend α Bool _ = Blend.hardLightBlend := by
  funext s d; unfold Gen.BodyV.hardLightBlend Blend.hardLightBlend; tie_v
theorem tieV_overlayBlend : @Gen.BodyV.overlayBlend α Bool _ = Blend.overlayBlend := by
  funext s d; unfold Gen.BodyV.overlayBlend Blend.overlayBlend; rw [tieV_hardLightBlend]
theorem tieV_darkenBlend : @Gen.BodyV.darkenBlend α Bool _ = Blend.darkenBlend := rfl
theorem tieV_lightenBlend : @Gen.BodyV.lightenBlend α Bool _ = Blend.lightenBlend := rfl
theorem tieV_dodgeBlend : @Gen.BodyV.dodgeBlend α Bool _ = Blend.dodgeBlend := by
  funext s d; unfold Gen.BodyV.dodgeBlend Blend.dodgeBlend; tie_v
theorem tieV_burnBlend : @Gen.BodyV.burnBlend α Bool _ = Blend.burnBlend := by
  funext s d; unfold Gen.BodyV.burnBlend Blend.burnBlend; tie_v
theorem tieV_softLightBlend : @Gen.BodyV.softLightBlend α Bool _ = Blend.softLightBlend := by
  funext s d; unfold Gen.BodyV.softLightBlend Blend.softLightBlend Blend.softLightD; tie_v
theorem tieV_differenceBlend : @Gen.BodyV.differenceBlend α Bool _ = Blend.differenceBlend := rfl
theorem tieV_exclusionBlend : @Gen.BodyV.exclusionBlend α Bool _ = Blend.exclusionBlend := rfl

end TieV
