/-
  Source-text tie of the struct-of-arrays collections (C18), part 4: `cam16Jch`.

  `Gen/BodiesSoa.lean` is regenerated on every run from the *current* text of `palette/src/macros/struct_of_arrays.rs` (the four
  macros, expanded at the actual invocations of one type per shape) and of `alpha::Iter` / `Extend` / `FromIterator` in
  `alpha/alpha.rs` (tools/rust2lean_soa.py).  Each theorem `tie_<name>` states that the translated body, *for every component type
  and every state*, is the model function the driver executes and the C18 theorems are about: one operation of `Soa.step`
  (PaletteModel/Soa.lean) resp. `Soa.nstep` (SoaNested.lean), or one step of the model iterators `Soa.Zip` / `Soa.NZip`.
  The translated term keeps the statement order of the Rust body (state passing), so the ties say in particular: the columns are
  walked in the order (hue, elements.., alpha); the same index / range goes to every column; `next()` of every column is taken
  before the all-`Some` test; a panic of `Vec::drain` in column `j` leaves the columns before `j` drained and the others untouched
  (`Soa.drainPanicState`), and in `Alpha` the colour's drain comes first.  Proofs: case split on the literal column vector,
  unfolding, `simp` with the literal-vector lemmas of `Lemmas/SoaTie.lean`.
-/
import PaletteModel.Gen.BodiesSoa
import PaletteProofs.Lemmas.SoaTie

namespace Tie
open Soa SoaPrim SoaTie

variable {α : Type}

set_option linter.unusedSimpArgs false

/-! ## `cam16Jch`: 3 columns -/

theorem tie_cam16JchIntoIterArr (c : Cols α 3) : toZip (Gen.BodySoa.cam16JchIntoIterArr c) = Soa.Zip.ofCols c := by
  obtain ⟨a, b, c, rfl⟩ := vec3_cases c
  simp [Gen.BodySoa.cam16JchIntoIterArr, toZip, Zip.ofCols, colIntoIter]

theorem tie_cam16JchIntoIterSlice (c : Cols α 3) : toZip (Gen.BodySoa.cam16JchIntoIterSlice c) = Soa.Zip.ofCols c := by
  obtain ⟨a, b, c, rfl⟩ := vec3_cases c
  simp [Gen.BodySoa.cam16JchIntoIterSlice, toZip, Zip.ofCols, colIntoIter]

theorem tie_cam16JchIntoIterSliceMut (c : Cols α 3) : toZip (Gen.BodySoa.cam16JchIntoIterSliceMut c) = Soa.Zip.ofCols c := by
  obtain ⟨a, b, c, rfl⟩ := vec3_cases c
  simp [Gen.BodySoa.cam16JchIntoIterSliceMut, toZip, Zip.ofCols, colIntoIter]

theorem tie_cam16JchIntoIterVec (c : Cols α 3) : toZip (Gen.BodySoa.cam16JchIntoIterVec c) = Soa.Zip.ofCols c := by
  obtain ⟨a, b, c, rfl⟩ := vec3_cases c
  simp [Gen.BodySoa.cam16JchIntoIterVec, toZip, Zip.ofCols, colIntoIter]

theorem tie_cam16JchIntoIterRefArr (c : Cols α 3) : toZip (Gen.BodySoa.cam16JchIntoIterRefArr c) = Soa.Zip.ofCols c := by
  obtain ⟨a, b, c, rfl⟩ := vec3_cases c
  simp [Gen.BodySoa.cam16JchIntoIterRefArr, toZip, Zip.ofCols, colIntoIter]

theorem tie_cam16JchIntoIterRefSlice (c : Cols α 3) : toZip (Gen.BodySoa.cam16JchIntoIterRefSlice c) = Soa.Zip.ofCols c := by
  obtain ⟨a, b, c, rfl⟩ := vec3_cases c
  simp [Gen.BodySoa.cam16JchIntoIterRefSlice, toZip, Zip.ofCols, colIntoIter]

theorem tie_cam16JchIntoIterRefSliceMut (c : Cols α 3) : toZip (Gen.BodySoa.cam16JchIntoIterRefSliceMut c) = Soa.Zip.ofCols c := by
  obtain ⟨a, b, c, rfl⟩ := vec3_cases c
  simp [Gen.BodySoa.cam16JchIntoIterRefSliceMut, toZip, Zip.ofCols, colIntoIter]

theorem tie_cam16JchIntoIterRefVec (c : Cols α 3) : toZip (Gen.BodySoa.cam16JchIntoIterRefVec c) = Soa.Zip.ofCols c := by
  obtain ⟨a, b, c, rfl⟩ := vec3_cases c
  simp [Gen.BodySoa.cam16JchIntoIterRefVec, toZip, Zip.ofCols, colIntoIter]

theorem tie_cam16JchIntoIterRefBox (c : Cols α 3) : toZip (Gen.BodySoa.cam16JchIntoIterRefBox c) = Soa.Zip.ofCols c := by
  obtain ⟨a, b, c, rfl⟩ := vec3_cases c
  simp [Gen.BodySoa.cam16JchIntoIterRefBox, toZip, Zip.ofCols, colIntoIter]

theorem tie_cam16JchIntoIterMutArr (c : Cols α 3) : toZip (Gen.BodySoa.cam16JchIntoIterMutArr c) = Soa.Zip.ofCols c := by
  obtain ⟨a, b, c, rfl⟩ := vec3_cases c
  simp [Gen.BodySoa.cam16JchIntoIterMutArr, toZip, Zip.ofCols, colIntoIter]

theorem tie_cam16JchIntoIterMutSliceMut (c : Cols α 3) : toZip (Gen.BodySoa.cam16JchIntoIterMutSliceMut c) = Soa.Zip.ofCols c := by
  obtain ⟨a, b, c, rfl⟩ := vec3_cases c
  simp [Gen.BodySoa.cam16JchIntoIterMutSliceMut, toZip, Zip.ofCols, colIntoIter]

theorem tie_cam16JchIntoIterMutVec (c : Cols α 3) : toZip (Gen.BodySoa.cam16JchIntoIterMutVec c) = Soa.Zip.ofCols c := by
  obtain ⟨a, b, c, rfl⟩ := vec3_cases c
  simp [Gen.BodySoa.cam16JchIntoIterMutVec, toZip, Zip.ofCols, colIntoIter]

theorem tie_cam16JchIntoIterMutBox (c : Cols α 3) : toZip (Gen.BodySoa.cam16JchIntoIterMutBox c) = Soa.Zip.ofCols c := by
  obtain ⟨a, b, c, rfl⟩ := vec3_cases c
  simp [Gen.BodySoa.cam16JchIntoIterMutBox, toZip, Zip.ofCols, colIntoIter]

theorem tie_cam16JchIter (c : Cols α 3) : toZip (Gen.BodySoa.cam16JchIter c) = Soa.Zip.ofCols c := tie_cam16JchIntoIterRefVec c

theorem tie_cam16JchIterMut (c : Cols α 3) : toZip (Gen.BodySoa.cam16JchIterMut c) = Soa.Zip.ofCols c := tie_cam16JchIntoIterMutVec c

theorem tie_cam16JchIterNext (it : Vector (ColIter α) 3) :
    (toZip (Gen.BodySoa.cam16JchIterNext it).1, (Gen.BodySoa.cam16JchIterNext it).2) = Soa.Zip.next (toZip it) none := by
  obtain ⟨a, b, c, rfl⟩ := vec3_cases it
  simp [Gen.BodySoa.cam16JchIterNext, Zip.next, toZip, ColIter.next, allSome3, ofFn3, map3, firstLen3, drainPanicState3, emptyCols3]
  repeat' constructor
  all_goals rfl

theorem tie_cam16JchIterNextBack (it : Vector (ColIter α) 3) :
    (toZip (Gen.BodySoa.cam16JchIterNextBack it).1, (Gen.BodySoa.cam16JchIterNextBack it).2) = Soa.Zip.nextBack (toZip it) none := by
  obtain ⟨a, b, c, rfl⟩ := vec3_cases it
  simp [Gen.BodySoa.cam16JchIterNextBack, Zip.nextBack, toZip, ColIter.nextBack, allSome3, ofFn3, map3, firstLen3, drainPanicState3, emptyCols3]
  repeat' constructor
  all_goals rfl

theorem tie_cam16JchIterLen (it : Vector (ColIter α) 3) : Gen.BodySoa.cam16JchIterLen it = Soa.Zip.len (toZip it) := by
  obtain ⟨a, b, c, rfl⟩ := vec3_cases it
  simp [Gen.BodySoa.cam16JchIterLen, Zip.len, toZip, ColIter.len, allSome3, ofFn3, map3, firstLen3, drainPanicState3, emptyCols3]

theorem tie_cam16JchIterSizeHint (it : Vector (ColIter α) 3) : Gen.BodySoa.cam16JchIterSizeHint it = Soa.Zip.sizeHint (toZip it) := by
  obtain ⟨a, b, c, rfl⟩ := vec3_cases it
  simp [Gen.BodySoa.cam16JchIterSizeHint, Zip.sizeHint, toZip, ColIter.sizeHint, allSome3, ofFn3, map3, firstLen3, drainPanicState3, emptyCols3]

theorem tie_cam16JchIterCount (it : Vector (ColIter α) 3) : Gen.BodySoa.cam16JchIterCount it = Soa.Zip.count (toZip it) := by
  obtain ⟨a, b, c, rfl⟩ := vec3_cases it
  simp [Gen.BodySoa.cam16JchIterCount, Zip.count, toZip, ColIter.count, allSome3, ofFn3, map3, firstLen3, drainPanicState3, emptyCols3]

/-- the same index / range goes to every column, in column order, and the result exists iff every column has one -/
theorem cam16JchGet_eq (s : Cols α 3) (i : Nat) : Gen.BodySoa.cam16JchGet s i = allSome (s.map (·[i]?)) := by
  obtain ⟨a, b, c, rfl⟩ := vec3_cases s
  simp [Gen.BodySoa.cam16JchGet, sliceGet, allSome3, ofFn3, map3, firstLen3, drainPanicState3, emptyCols3]
  all_goals (cases a[i]? <;> cases b[i]? <;> cases c[i]? <;> rfl)

/-- the same index / range goes to every column, in column order, and the result exists iff every column has one -/
theorem cam16JchGetMut_eq (s : Cols α 3) (i : Nat) : Gen.BodySoa.cam16JchGetMut s i = allSome (s.map (·[i]?)) := by
  obtain ⟨a, b, c, rfl⟩ := vec3_cases s
  simp [Gen.BodySoa.cam16JchGetMut, sliceGetMut, allSome3, ofFn3, map3, firstLen3, drainPanicState3, emptyCols3]
  all_goals (cases a[i]? <;> cases b[i]? <;> cases c[i]? <;> rfl)

/-- the same index / range goes to every column, in column order, and the result exists iff every column has one -/
theorem cam16JchGetRange_eq (s : Cols α 3) (i : Rng) : Gen.BodySoa.cam16JchGetRange s i = allSome (s.map (sliceCol i)) := by
  obtain ⟨a, b, c, rfl⟩ := vec3_cases s
  simp [Gen.BodySoa.cam16JchGetRange, sliceGetRange, allSome3, ofFn3, map3, firstLen3, drainPanicState3, emptyCols3]
  all_goals (cases sliceCol i a <;> cases sliceCol i b <;> cases sliceCol i c <;> rfl)

/-- the same index / range goes to every column, in column order, and the result exists iff every column has one -/
theorem cam16JchGetMutRange_eq (s : Cols α 3) (i : Rng) : Gen.BodySoa.cam16JchGetMutRange s i = allSome (s.map (splitCol i)) := by
  obtain ⟨a, b, c, rfl⟩ := vec3_cases s
  simp [Gen.BodySoa.cam16JchGetMutRange, sliceGetMutRange, allSome3, ofFn3, map3, firstLen3, drainPanicState3, emptyCols3]
  all_goals (cases splitCol i a <;> cases splitCol i b <;> cases splitCol i c <;> rfl)

theorem tie_cam16JchGet (s : Cols α 3) (i : Nat) : (s, Obs.item (Gen.BodySoa.cam16JchGet s i)) = Soa.step s (.get i) := by
  rw [cam16JchGet_eq]; rfl

theorem tie_cam16JchGetRange (s : Cols α 3) (r : Rng) (script : List (Step α 3)) :
    obsSlice s (Gen.BodySoa.cam16JchGetRange s r) script = Soa.step s (.getRange r script) := by
  rw [cam16JchGetRange_eq]
  simp only [Soa.step, obsSlice]
  cases allSome (s.map (sliceCol r)) <;> rfl

theorem tie_cam16JchGetMut (s : Cols α 3) (i : Nat) (w : Row α 3) :
    obsGetMut s (Gen.BodySoa.cam16JchGetMut s i) i w = Soa.step s (.getMut i w) := by
  rw [cam16JchGetMut_eq]
  simp only [Soa.step, obsGetMut]
  cases allSome (s.map (·[i]?)) <;> rfl

theorem tie_cam16JchGetMutRange (s : Cols α 3) (r : Rng) (script : List (Step α 3)) :
    obsSplit s (Gen.BodySoa.cam16JchGetMutRange s r) script = Soa.step s (.getMutRange r script) := by
  rw [cam16JchGetMutRange_eq]
  simp only [Soa.step, obsSplit]
  cases allSome (s.map (splitCol r)) <;> rfl

theorem tie_cam16JchWithCapacity (n : Nat) (s : Cols α 3) : Gen.BodySoa.cam16JchWithCapacity n = (Soa.step s .withCapacity).1 := by
  simp [Gen.BodySoa.cam16JchWithCapacity, Soa.step, emptyCols3, vecWithCapacity]

theorem tie_cam16JchPush (s : Cols α 3) (r : Row α 3) : Gen.BodySoa.cam16JchPush s r = (Soa.step s (.push r)).1 := by
  obtain ⟨a, b, c, rfl⟩ := vec3_cases s
  obtain ⟨ra, rb, rc, rfl⟩ := vec3_cases r
  simp [Gen.BodySoa.cam16JchPush, Soa.step, pushRow, vecPush]

theorem tie_cam16JchPop (s : Cols α 3) : obsItem (Gen.BodySoa.cam16JchPop s) = Soa.step s .pop := by
  obtain ⟨a, b, c, rfl⟩ := vec3_cases s
  simp [Gen.BodySoa.cam16JchPop, Soa.step, obsItem, vecPop, allSome3, ofFn3, map3, firstLen3, drainPanicState3, emptyCols3]
  all_goals (cases a.getLast? <;> cases b.getLast? <;> cases c.getLast? <;> first | rfl | simp)

theorem tie_cam16JchClear (s : Cols α 3) : Gen.BodySoa.cam16JchClear s = (Soa.step s .clear).1 := by
  obtain ⟨a, b, c, rfl⟩ := vec3_cases s
  simp [Gen.BodySoa.cam16JchClear, Soa.step, vecClear]

/-- the translated `drain`, as one case split: all columns resolve the range (every column loses it, the iterator holds what was removed), or the
    receiver is left as the model's `drainPanicState` (statement order: the columns before the first failing one are already drained) -/
theorem cam16JchDrain_eq (s : Cols α 3) (r : Rng) :
    Gen.BodySoa.cam16JchDrain s r = (match allSome (s.map (drainCol r)) with
      | some v => .ok (v.map (·.1)) (v.map fun p => colIntoIter p.2)
      | none => .panic (drainPanicState s (s.map (drainCol r)))) := by
  obtain ⟨a, b, c, rfl⟩ := vec3_cases s
  simp only [Gen.BodySoa.cam16JchDrain, vecDrain, allSome3, ofFn3, map3, firstLen3, drainPanicState3, emptyCols3]
  cases ha : drainCol r a <;> cases hb : drainCol r b <;> cases hc : drainCol r c <;> simp [ha, hb, hc]

theorem tie_cam16JchDrain (s : Cols α 3) (r : Rng) (script : List (Step α 3)) :
    obsDrain (Gen.BodySoa.cam16JchDrain s r) script = Soa.step s (.drain r script) := by
  rw [cam16JchDrain_eq]
  simp only [Soa.step]
  cases allSome (s.map (drainCol r)) with
  | none => rfl
  | some v =>
    obtain ⟨va, vb, vc, rfl⟩ := vec3_cases v
    simp [obsDrain, runRead, toZip, Zip.ofCols, colIntoIter]

theorem tie_cam16JchExtend (s : Cols α 3) (rs : List (Row α 3)) : Gen.BodySoa.cam16JchExtend s rs = (Soa.step s (.extend rs)).1 := by
  simp only [Gen.BodySoa.cam16JchExtend, Soa.step, extendRows, SoaPrim.forIn]
  congr 1
  funext s r
  obtain ⟨a, b, c, rfl⟩ := vec3_cases s
  obtain ⟨ra, rb, rc, rfl⟩ := vec3_cases r
  simp [pushRow, vecExtendOnce]

theorem tie_cam16JchFromIter (s : Cols α 3) (rs : List (Row α 3)) : Gen.BodySoa.cam16JchFromIter rs = (Soa.step s (.collect rs)).1 := by
  simp only [Gen.BodySoa.cam16JchFromIter, tie_cam16JchExtend, Soa.step]
  simp [emptyCols3, vecDefault]

/-! ### `Alpha<cam16Jch<..>, ..>` -/

theorem tie_cam16JchaIntoIterArr (n : Nest α 3) : toNZip (Gen.BodySoa.cam16JchaIntoIterArr n) = Soa.NZip.ofParts n.color n.alpha := by
  simp only [Gen.BodySoa.cam16JchaIntoIterArr, toNZip, nzipOf, NZip.ofParts, colIntoIter]
  congr 1
  first | exact tie_cam16JchIntoIterArr _ | exact tie_cam16JchIntoIterArr _ | exact tie_cam16JchIntoIterRefArr _ | exact tie_cam16JchIntoIterMutArr _

theorem tie_cam16JchaIntoIterSlice (n : Nest α 3) : toNZip (Gen.BodySoa.cam16JchaIntoIterSlice n) = Soa.NZip.ofParts n.color n.alpha := by
  simp only [Gen.BodySoa.cam16JchaIntoIterSlice, toNZip, nzipOf, NZip.ofParts, colIntoIter]
  congr 1
  first | exact tie_cam16JchIntoIterSlice _ | exact tie_cam16JchIntoIterSlice _ | exact tie_cam16JchIntoIterRefSlice _ | exact tie_cam16JchIntoIterMutSlice _

theorem tie_cam16JchaIntoIterSliceMut (n : Nest α 3) : toNZip (Gen.BodySoa.cam16JchaIntoIterSliceMut n) = Soa.NZip.ofParts n.color n.alpha := by
  simp only [Gen.BodySoa.cam16JchaIntoIterSliceMut, toNZip, nzipOf, NZip.ofParts, colIntoIter]
  congr 1
  first | exact tie_cam16JchIntoIterSliceMut _ | exact tie_cam16JchIntoIterSliceMut _ | exact tie_cam16JchIntoIterRefSliceMut _ | exact tie_cam16JchIntoIterMutSliceMut _

theorem tie_cam16JchaIntoIterVec (n : Nest α 3) : toNZip (Gen.BodySoa.cam16JchaIntoIterVec n) = Soa.NZip.ofParts n.color n.alpha := by
  simp only [Gen.BodySoa.cam16JchaIntoIterVec, toNZip, nzipOf, NZip.ofParts, colIntoIter]
  congr 1
  first | exact tie_cam16JchIntoIterVec _ | exact tie_cam16JchIntoIterVec _ | exact tie_cam16JchIntoIterRefVec _ | exact tie_cam16JchIntoIterMutVec _

theorem tie_cam16JchaIntoIterRefArr (n : Nest α 3) : toNZip (Gen.BodySoa.cam16JchaIntoIterRefArr n) = Soa.NZip.ofParts n.color n.alpha := by
  simp only [Gen.BodySoa.cam16JchaIntoIterRefArr, toNZip, nzipOf, NZip.ofParts, colIntoIter]
  congr 1
  first | exact tie_cam16JchIntoIterRefArr _ | exact tie_cam16JchIntoIterArr _ | exact tie_cam16JchIntoIterRefArr _ | exact tie_cam16JchIntoIterMutArr _

theorem tie_cam16JchaIntoIterRefSlice (n : Nest α 3) : toNZip (Gen.BodySoa.cam16JchaIntoIterRefSlice n) = Soa.NZip.ofParts n.color n.alpha := by
  simp only [Gen.BodySoa.cam16JchaIntoIterRefSlice, toNZip, nzipOf, NZip.ofParts, colIntoIter]
  congr 1
  first | exact tie_cam16JchIntoIterRefSlice _ | exact tie_cam16JchIntoIterSlice _ | exact tie_cam16JchIntoIterRefSlice _ | exact tie_cam16JchIntoIterMutSlice _

theorem tie_cam16JchaIntoIterRefSliceMut (n : Nest α 3) : toNZip (Gen.BodySoa.cam16JchaIntoIterRefSliceMut n) = Soa.NZip.ofParts n.color n.alpha := by
  simp only [Gen.BodySoa.cam16JchaIntoIterRefSliceMut, toNZip, nzipOf, NZip.ofParts, colIntoIter]
  congr 1
  first | exact tie_cam16JchIntoIterRefSliceMut _ | exact tie_cam16JchIntoIterSliceMut _ | exact tie_cam16JchIntoIterRefSliceMut _ | exact tie_cam16JchIntoIterMutSliceMut _

theorem tie_cam16JchaIntoIterRefVec (n : Nest α 3) : toNZip (Gen.BodySoa.cam16JchaIntoIterRefVec n) = Soa.NZip.ofParts n.color n.alpha := by
  simp only [Gen.BodySoa.cam16JchaIntoIterRefVec, toNZip, nzipOf, NZip.ofParts, colIntoIter]
  congr 1
  first | exact tie_cam16JchIntoIterRefVec _ | exact tie_cam16JchIntoIterVec _ | exact tie_cam16JchIntoIterRefVec _ | exact tie_cam16JchIntoIterMutVec _

theorem tie_cam16JchaIntoIterRefBox (n : Nest α 3) : toNZip (Gen.BodySoa.cam16JchaIntoIterRefBox n) = Soa.NZip.ofParts n.color n.alpha := by
  simp only [Gen.BodySoa.cam16JchaIntoIterRefBox, toNZip, nzipOf, NZip.ofParts, colIntoIter]
  congr 1
  first | exact tie_cam16JchIntoIterRefBox _ | exact tie_cam16JchIntoIterBox _ | exact tie_cam16JchIntoIterRefBox _ | exact tie_cam16JchIntoIterMutBox _

theorem tie_cam16JchaIntoIterMutArr (n : Nest α 3) : toNZip (Gen.BodySoa.cam16JchaIntoIterMutArr n) = Soa.NZip.ofParts n.color n.alpha := by
  simp only [Gen.BodySoa.cam16JchaIntoIterMutArr, toNZip, nzipOf, NZip.ofParts, colIntoIter]
  congr 1
  first | exact tie_cam16JchIntoIterMutArr _ | exact tie_cam16JchIntoIterArr _ | exact tie_cam16JchIntoIterRefArr _ | exact tie_cam16JchIntoIterMutArr _

theorem tie_cam16JchaIntoIterMutSliceMut (n : Nest α 3) : toNZip (Gen.BodySoa.cam16JchaIntoIterMutSliceMut n) = Soa.NZip.ofParts n.color n.alpha := by
  simp only [Gen.BodySoa.cam16JchaIntoIterMutSliceMut, toNZip, nzipOf, NZip.ofParts, colIntoIter]
  congr 1
  first | exact tie_cam16JchIntoIterMutSliceMut _ | exact tie_cam16JchIntoIterSliceMut _ | exact tie_cam16JchIntoIterRefSliceMut _ | exact tie_cam16JchIntoIterMutSliceMut _

theorem tie_cam16JchaIntoIterMutVec (n : Nest α 3) : toNZip (Gen.BodySoa.cam16JchaIntoIterMutVec n) = Soa.NZip.ofParts n.color n.alpha := by
  simp only [Gen.BodySoa.cam16JchaIntoIterMutVec, toNZip, nzipOf, NZip.ofParts, colIntoIter]
  congr 1
  first | exact tie_cam16JchIntoIterMutVec _ | exact tie_cam16JchIntoIterVec _ | exact tie_cam16JchIntoIterRefVec _ | exact tie_cam16JchIntoIterMutVec _

theorem tie_cam16JchaIntoIterMutBox (n : Nest α 3) : toNZip (Gen.BodySoa.cam16JchaIntoIterMutBox n) = Soa.NZip.ofParts n.color n.alpha := by
  simp only [Gen.BodySoa.cam16JchaIntoIterMutBox, toNZip, nzipOf, NZip.ofParts, colIntoIter]
  congr 1
  first | exact tie_cam16JchIntoIterMutBox _ | exact tie_cam16JchIntoIterBox _ | exact tie_cam16JchIntoIterRefBox _ | exact tie_cam16JchIntoIterMutBox _

theorem tie_cam16JchaWithCapacity (c : Nat) (n : Nest α 3) : Gen.BodySoa.cam16JchaWithCapacity c = (Soa.nstep n .withCapacity).1 := by
  simp only [Gen.BodySoa.cam16JchaWithCapacity, Soa.nstep, tie_cam16JchWithCapacity c n.color]
  rfl

theorem tie_cam16JchaPush (n : Nest α 3) (r : Row α (3 + 1)) : Gen.BodySoa.cam16JchaPush n r = (Soa.nstep n (.push r)).1 := by
  simp only [Gen.BodySoa.cam16JchaPush, Soa.nstep, tie_cam16JchPush]
  rfl

theorem tie_cam16JchaPop (n : Nest α 3) : obsItemN (Gen.BodySoa.cam16JchaPop n) = Soa.nstep n .pop := by
  have h := tie_cam16JchPop n.color
  simp only [obsItem] at h
  simp only [Gen.BodySoa.cam16JchaPop, Soa.nstep, obsItemN, vecPop, ← h, itemOf]
  cases (Gen.BodySoa.cam16JchPop n.color).2 <;> cases n.alpha.getLast? <;> rfl

theorem tie_cam16JchaClear (n : Nest α 3) : Gen.BodySoa.cam16JchaClear n = (Soa.nstep n .clear).1 := by
  simp only [Gen.BodySoa.cam16JchaClear, Soa.nstep, tie_cam16JchClear]
  rfl

theorem tie_cam16JchaDrain (n : Nest α 3) (r : Rng) (script : List (Step α (3 + 1))) :
    obsDrainN (Gen.BodySoa.cam16JchaDrain n r) script = Soa.nstep n (.drain r script) := by
  simp only [Gen.BodySoa.cam16JchaDrain, Soa.nstep, Soa.step, cam16JchDrain_eq, vecDrain]
  cases allSome (n.color.map (drainCol r)) with
  | none => rfl
  | some v =>
    cases drainCol r n.alpha with
    | none => rfl
    | some pa =>
      obtain ⟨va, vb, vc, rfl⟩ := vec3_cases v
      simp [obsDrainN, nrunRead, toNZip, nzipOf, NZip.ofParts, toZip, Zip.ofCols, colIntoIter]

theorem tie_cam16JchaGet (n : Nest α 3) (i : Nat) : (n, Obs.item (Gen.BodySoa.cam16JchaGet n i)) = Soa.nstep n (.get i) := by
  simp only [Gen.BodySoa.cam16JchaGet, Soa.nstep, Soa.step, sliceGet, cam16JchGet_eq, itemOf]
  cases allSome (n.color.map (·[i]?)) <;> cases n.alpha[i]? <;> rfl

theorem tie_cam16JchaGetRange (n : Nest α 3) (r : Rng) (script : List (Step α (3 + 1))) :
    obsSliceN n (Gen.BodySoa.cam16JchaGetRange n r) script = Soa.nstep n (.getRange r script) := by
  simp only [Gen.BodySoa.cam16JchaGetRange, Soa.nstep, sliceGetRange, cam16JchGetRange_eq]
  cases allSome (n.color.map (sliceCol r)) <;> cases sliceCol r n.alpha <;> rfl

theorem tie_cam16JchaGetMut (n : Nest α 3) (i : Nat) (w : Row α (3 + 1)) :
    obsGetMutN n (Gen.BodySoa.cam16JchaGetMut n i) i w = Soa.nstep n (.getMut i w) := by
  simp only [Gen.BodySoa.cam16JchaGetMut, Soa.nstep, Soa.step, sliceGetMut, cam16JchGetMut_eq, itemOf]
  cases h : allSome (n.color.map (·[i]?)) <;> cases n.alpha[i]? <;> first | rfl | simp [obsGetMutN, h]

theorem tie_cam16JchaGetMutRange (n : Nest α 3) (r : Rng) (script : List (Step α (3 + 1))) :
    obsSplitN n (Gen.BodySoa.cam16JchaGetMutRange n r) script = Soa.nstep n (.getMutRange r script) := by
  simp only [Gen.BodySoa.cam16JchaGetMutRange, Soa.nstep, sliceGetMutRange, cam16JchGetMutRange_eq]
  cases allSome (n.color.map (splitCol r)) <;> cases splitCol r n.alpha <;> rfl

end Tie
