/-
  Tie of the hand-written colour-difference model (`PaletteModel/Diff.lean`, C09) to the *text* of the Rust functions.

  `tools/extract.py` (`gen_bodies`, translator `tools/rust2lean.py`, family `diff`) re-translates on every run: `get_ciede2000_difference`,
  the two `From<..> for LabColorDiff` impls, `ImprovedCiede2000::improved_difference`, `EuclideanDistance::distance`,
  `Wcag21RelativeContrast::relative_contrast` and its five predicates (color_difference.rs); the bodies of `impl_euclidean_distance!` and
  `impl_hyab!` (macros/color_difference.rs, instantiated at the invocations for `Lab` and `Cam16UcsJab`); `Ciede2000`, `DeltaE`,
  `ImprovedDeltaE` for `Lab`, `Lch`, `Cam16UcsJab`, `Cam16UcsJmh` (lab.rs, lch.rs, cam16/ucs_jab.rs, cam16/ucs_jmh.rs) together with the
  polar → rectangular conversions and hue helpers they go through — into `Gen.Body.*` (lean/PaletteModel/Gen/BodiesDiff.lean).  Each
  theorem `tie_<name>` states for every `α` with `[Scalar α]` (hence at `Float`, `Float32` and `ℝ` alike) that the translated body is the
  model function the driver executes and the C09 theorems talk about; all proofs are `rfl` (definitional unfolding, no arithmetic law).
  A changed coefficient, operand, comparison or `lazy_select!` arm order in the Rust source therefore breaks the corresponding `tie_`
  theorem whatever the sampled correspondence run happens to hit.  The kernel-decided "constant / arm / macro table" theorems of
  `C09_Diff` stay as they are; they additionally pin the *other* invocations of the two macros (which components, which order).

  Shapes that differ between source and model (stated in the theorem):
    * the model functions take the components of a colour (`fromLab l a b`, `distSq3 x1 x2 x3 y1 y2 y3`), the source the colour
      (struct field order re-read from the struct definition);
    * the model keeps the degree/radian factors of the polar forms as a parameter (`…With d2r`), the source uses
      `f32/f64::to_radians`, read as multiplication by `Scalar.const Diff.D2R`: the ties are at that instance;
    * `get_ciede2000_difference` is one body; the model names its intermediates (`gOf`, `calcHPrime`, `deltaHPrime`, `hBarPrime`, `bigT`,
      `sL`, `sC`, `sH`, `rT`, `combine`, collected in `inter`) — same expressions, `rfl`;
    * generic default methods whose inner call is trait-dispatched (`self.relative_luminance().luma`, `self.relative_contrast(other)`,
      `self.difference(other)`) are translated with that value as a parameter; the tie composes it with the body that computes it.

  NOT translated: header of Gen/BodiesDiff.lean (the remaining macro invocations, `relative_luminance`, deprecated entry points, the
  per-type primitives `hypot`, `to_degrees`, `to_radians`, `min_max`, `powi(7)`).
-/
import PaletteModel.Gen.BodiesDiff

namespace Tie
variable {α : Type} [Scalar α]

/-- `Powi::powi(7)`: the prelude's reading and the model's are the same term -/
theorem powi7_eq : @Prim.powi7 α _ = Diff.powi7 := rfl

/-! ### polar → rectangular (`LabHue::into_cartesian`, `Lch → Lab`, `Cam16UcsJmh → Cam16UcsJab`) -/
theorem tie_diffHueIntoCartesian :
    @Gen.Body.diffHueIntoCartesian α _ = fun h => (Diff.hueCos (Scalar.const Diff.D2R) h, Diff.hueSin (Scalar.const Diff.D2R) h) := rfl
theorem tie_diffLchToLab : @Gen.Body.diffLchToLab α _ =
    fun c => ⟨(Diff.polarToRect c.c0 c.c1 c.c2).1, (Diff.polarToRect c.c0 c.c1 c.c2).2.1, (Diff.polarToRect c.c0 c.c1 c.c2).2.2⟩ := rfl
theorem tie_diffJmhToJab : @Gen.Body.diffJmhToJab α _ =
    fun c => ⟨(Diff.polarToRect c.c0 c.c1 c.c2).1, (Diff.polarToRect c.c0 c.c1 c.c2).2.1, (Diff.polarToRect c.c0 c.c1 c.c2).2.2⟩ := rfl

/-! ### CIEDE2000 -/
theorem tie_labColorDiffFromLab : @Gen.Body.labColorDiffFromLab α _ = fun c => Diff.fromLab c.c0 c.c1 c.c2 := rfl
theorem tie_labColorDiffFromLch : @Gen.Body.labColorDiffFromLch α _ = fun c => Diff.fromLch c.c0 c.c1 c.c2 := rfl
theorem tie_getCiede2000Difference : @Gen.Body.getCiede2000Difference α _ = Diff.ciede2000 := rfl
theorem tie_labCiede2000 : @Gen.Body.labCiede2000 α _ =
    fun a b => Diff.ciede2000 (Diff.fromLab a.c0 a.c1 a.c2) (Diff.fromLab b.c0 b.c1 b.c2) := rfl
theorem tie_lchCiede2000 : @Gen.Body.lchCiede2000 α _ =
    fun a b => Diff.ciede2000 (Diff.fromLch a.c0 a.c1 a.c2) (Diff.fromLch b.c0 b.c1 b.c2) := rfl
theorem tie_improvedCiede2000 : @Gen.Body.improvedCiede2000 α _ = Diff.improvedOfCiede := rfl

/-! ### Euclidean distance, ΔE, improved ΔE (rectangular: `Lab`, `Cam16UcsJab`) -/
theorem tie_labDistanceSquared : @Gen.Body.labDistanceSquared α _ = fun a b => Diff.distSq3 a.c0 a.c1 a.c2 b.c0 b.c1 b.c2 := rfl
theorem tie_jabDistanceSquared : @Gen.Body.jabDistanceSquared α _ = fun a b => Diff.distSq3 a.c0 a.c1 a.c2 b.c0 b.c1 b.c2 := rfl
theorem tie_labDistance : @Gen.Body.labDistance α _ = fun a b => Diff.dist3 a.c0 a.c1 a.c2 b.c0 b.c1 b.c2 := rfl
theorem tie_jabDistance : @Gen.Body.jabDistance α _ = fun a b => Diff.dist3 a.c0 a.c1 a.c2 b.c0 b.c1 b.c2 := rfl
theorem tie_labDeltaE : @Gen.Body.labDeltaE α _ = fun a b => Diff.dist3 a.c0 a.c1 a.c2 b.c0 b.c1 b.c2 := rfl
theorem tie_jabDeltaE : @Gen.Body.jabDeltaE α _ = fun a b => Diff.dist3 a.c0 a.c1 a.c2 b.c0 b.c1 b.c2 := rfl
theorem tie_labImprovedDeltaE : @Gen.Body.labImprovedDeltaE α _ = fun a b => Diff.improvedDeltaELab a.c0 a.c1 a.c2 b.c0 b.c1 b.c2 := rfl
theorem tie_jabImprovedDeltaE : @Gen.Body.jabImprovedDeltaE α _ = fun a b => Diff.improvedDeltaEJab a.c0 a.c1 a.c2 b.c0 b.c1 b.c2 := rfl

/-! ### the polar forms (`Lch`, `Cam16UcsJmh`): convert both, then the rectangular measure -/
theorem tie_lchDeltaE : @Gen.Body.lchDeltaE α _ =
    fun a b => Diff.deltaEPolarWith (Scalar.const Diff.D2R) a.c0 a.c1 a.c2 b.c0 b.c1 b.c2 := rfl
theorem tie_jmhDeltaE : @Gen.Body.jmhDeltaE α _ =
    fun a b => Diff.deltaEPolarWith (Scalar.const Diff.D2R) a.c0 a.c1 a.c2 b.c0 b.c1 b.c2 := rfl
theorem tie_lchImprovedDeltaE : @Gen.Body.lchImprovedDeltaE α _ =
    fun a b => Diff.improvedDeltaELchWith (Scalar.const Diff.D2R) a.c0 a.c1 a.c2 b.c0 b.c1 b.c2 := rfl
theorem tie_jmhImprovedDeltaE : @Gen.Body.jmhImprovedDeltaE α _ =
    fun a b => Diff.improvedDeltaEJmhWith (Scalar.const Diff.D2R) a.c0 a.c1 a.c2 b.c0 b.c1 b.c2 := rfl

/-! ### HyAB -/
theorem tie_labHyab : @Gen.Body.labHyab α _ = fun a b => Diff.hyab a.c0 a.c1 a.c2 b.c0 b.c1 b.c2 := rfl

/-! ### WCAG 2.1 relative contrast and its threshold predicates -/
theorem tie_relativeContrast : @Gen.Body.relativeContrast α _ = Diff.relativeContrast := rfl
theorem tie_hasMinContrastText (l1 l2 : α) :
    Diff.hasMinContrastText l1 l2 = Gen.Body.hasMinContrastText (Gen.Body.relativeContrast l1 l2) := rfl
theorem tie_hasMinContrastLargeText (l1 l2 : α) :
    Diff.hasMinContrastLargeText l1 l2 = Gen.Body.hasMinContrastLargeText (Gen.Body.relativeContrast l1 l2) := rfl
theorem tie_hasEnhancedContrastText (l1 l2 : α) :
    Diff.hasEnhancedContrastText l1 l2 = Gen.Body.hasEnhancedContrastText (Gen.Body.relativeContrast l1 l2) := rfl
theorem tie_hasEnhancedContrastLargeText (l1 l2 : α) :
    Diff.hasEnhancedContrastLargeText l1 l2 = Gen.Body.hasEnhancedContrastLargeText (Gen.Body.relativeContrast l1 l2) := rfl
theorem tie_hasMinContrastGraphics (l1 l2 : α) :
    Diff.hasMinContrastGraphics l1 l2 = Gen.Body.hasMinContrastGraphics (Gen.Body.relativeContrast l1 l2) := rfl

end Tie
