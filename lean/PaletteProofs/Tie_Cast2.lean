/-
  Tie of the *type side* of the zero-copy casts (C04) to the text of the sources: family `cast2`.

  `tools/extract.py` (plugin `tools/extract_plugins/cast2.py`, translator `tools/rust2lean_cast2.py`) re-reads on every run, into
  `Gen.BodyCast2.*` (lean/PaletteModel/Gen/BodiesCast2.lean):
    * `invocations`: every invocation of `impl_array_casts!`, `impl_uint_casts_self!`, `impl_uint_casts_other!` in palette/src (26 colour structs -
      the six partial CAM16 types through `make_partial_cam16!` -, `Alpha`, `PreAlpha`, `Packed<O, [T; N]>`, `Packed<O, P>`, `Packed<O, u8..u128>`),
      each *expanded* by the `macro_rules!` engine against the arms of macros/casting.rs as written now, every impl parsed and its body translated;
    * `unsafeImpls`: every `unsafe impl ArrayCast / UintCast` (cast/packed.rs, luma/luma.rs, alpha/alpha.rs, blend/pre_alpha.rs);
    * `derives`: every struct that `#[derive(ArrayCast)]`, with what the derive looks at.
  The theorems decide them equal to the model (`PaletteModel/CastTable.lean`) and to the channel counts the C04 theorems use
  (`Cast.channels`, `Cast.fieldsOf` over `Gen/Types.lean`, an independent extraction):
    * a changed callee (`into_array_ref` -> `from_array_ref`), a dropped / added / reordered impl, a changed where clause, `Self` type, array item or
      length in any arm of macros/casting.rs or in any invocation breaks `tie_arrayCastInvocations` / `tie_uintCast*Invocations`;
    * a changed `type Array = ..` / `type Uint = ..`, Self type or bound of an `unsafe impl`, a new or vanished one breaks `tie_unsafeImpls`;
    * a field added to / removed from a colour struct, a zero-sized mark or layout substitution added or dropped, a changed `repr`, or a changed `[T; N]`
      in its `impl_array_casts!` breaks `tie_derives` / `tie_arrayLens` (the derive's count, the named length and the model's channel count differ).
  All proofs are kernel evaluation on the finite tables (`decide +kernel`; axioms: none beyond `propext`).
-/
import PaletteModel.Gen.BodiesCast2

namespace Tie
open CastTable

/-- every invocation is of one of the three macros (nothing else is in the table) -/
theorem cast2_macros : ∀ i ∈ Gen.BodyCast2.invocations, i.mac ∈ ["impl_array_casts", "impl_uint_casts_self", "impl_uint_casts_other"] := by decide +kernel

/-- the expansion of every `impl_array_casts!` invocation is the model's impl list at the invocation's arguments: the 18 forms, each forwarding to the
    cast function of the same form and direction -/
theorem tie_arrayCastInvocations : ∀ i ∈ Gen.BodyCast2.invocations, i.mac = "impl_array_casts" →
    i.impls = arrayCastImpls i.gen i.selfTy i.item i.len i.whereC := by decide +kernel

theorem tie_uintCastSelfInvocations : ∀ i ∈ Gen.BodyCast2.invocations, i.mac = "impl_uint_casts_self" →
    i.impls = uintCastSelfImpls i.gen i.selfTy i.item i.whereC := by decide +kernel

theorem tie_uintCastOtherInvocations : ∀ i ∈ Gen.BodyCast2.invocations, i.mac = "impl_uint_casts_other" →
    i.impls = uintCastOtherImpls i.gen i.selfTy i.item i.whereC := by decide +kernel

/-- the cast functions the model's impl lists name, per macro (so that the statement above is readable without unfolding the lists) -/
theorem arrayCastImpls_fns (g s i l w : String) : castFnsUsed (arrayCastImpls g s i l w) =
    ["into_array_ref", "from_array_ref", "into_array_mut", "from_array_mut", "into_array", "from_array", "from_array_ref", "from_array_mut",
     "into_array_box", "from_array_box"] := rfl
theorem uintCastSelfImpls_fns (g s u w : String) : castFnsUsed (uintCastSelfImpls g s u w) = ["into_uint_ref", "into_uint_mut", "from_uint"] := rfl
theorem uintCastOtherImpls_fns (g s u w : String) : castFnsUsed (uintCastOtherImpls g s u w) = ["from_uint_ref", "from_uint_mut", "into_uint"] := rfl

/-- the hand-written `unsafe impl`s are exactly the model's: `Alpha` / `PreAlpha` name the colour's array one longer, `Packed<O, [T; N]>` the wrapped
    array, `Packed<O, uK>` / `Luma<S, uK>` the integer of the same width - and there is no other -/
theorem tie_unsafeImpls : Gen.BodyCast2.unsafeImpls = CastTable.unsafeImpls := by decide +kernel

/-- ... which is the `uintCasts` table of Gen/Types.lean (independent extraction) and the same-width statement of C04 -/
theorem unsafeImpls_uint_widths :
    (Gen.BodyCast2.unsafeImpls.filter (·.trait_ == "UintCast")).map (fun u => (u.assocTy, u.assocName)) =
      (Gen.Types.uintCasts.map fun x => ("u" ++ toString x.2.2, "Uint")) := by decide +kernel

/-- what `#[derive(ArrayCast)]` generates for every deriving struct is `[T; n]` with `n` the channel count the C04 theorems use, its memory fields
    are the model's field list in the same order, and the deriving structs are exactly the types of Gen/Types.lean -/
theorem tie_derives :
    (∀ d ∈ Gen.BodyCast2.derives, deriveArray d = (Cast.channels (.base d.name)).map (fun n => ("T", n)) ∧
        (Cast.channels (.base d.name)).isSome ∧ Cast.fieldsOf (.base d.name) = some (d.memFields.map (·.1))) ∧
    (Gen.BodyCast2.derives.map (·.name)).Nodup ∧ Gen.BodyCast2.derives.length = Gen.Types.types.length := by decide +kernel

/-- the `[Item; LEN]` named in every `impl_array_casts!` invocation: at a deriving struct it is the array the derive generates; at the three
    wrappers `LEN` is the generic `N` that the invocation's where clause (`Self: ArrayCast<Array = [Item; N]>`: `Alpha`, `PreAlpha`) or the Self type
    itself (`Packed<O, [T; N]>`) identifies with the `unsafe impl`'s `Array` -/
def ArrayLenOk (i : Invocation) : Prop :=
  match Gen.BodyCast2.derives.find? (·.name == i.selfName) with
  | some d => (deriveArray d).map (fun p => (p.1, toString p.2)) = some (i.item, i.len) ∧ i.whereC = ""
  | none => i.len = "N" ∧
      ((i.selfName ∈ ["Alpha", "PreAlpha"] ∧ i.whereC = j [i.selfTy, ":", "ArrayCast", "<", "Array", "=", arrT i.item i.len, ">"]) ∨
       (i.selfName = "Packed" ∧ i.selfTy = j ["Packed", "<", "O", ",", arrT i.item i.len, ">"] ∧ i.whereC = ""))
instance (i : Invocation) : Decidable (ArrayLenOk i) := by unfold ArrayLenOk; split <;> exact inferInstance

theorem tie_arrayLens : ∀ i ∈ Gen.BodyCast2.invocations, i.mac = "impl_array_casts" → ArrayLenOk i := by decide +kernel

/-- non-vacuity: the statement at `Lab` (a deriving struct: `[T; 3]`) and at `Alpha` (a wrapper: generic `N` tied by the where clause) -/
example : ArrayLenOk ⟨"", "impl_array_casts", "Lab", "Wp , T", "Lab < Wp , T >", "T", "3", "", []⟩ := by decide +kernel
example : ¬ ArrayLenOk ⟨"", "impl_array_casts", "Lab", "Wp , T", "Lab < Wp , T >", "T", "4", "", []⟩ := by decide +kernel

/-- every deriving struct has exactly one `impl_array_casts!` invocation, and the three wrappers one each -/
theorem arrayCast_invocations_complete :
    ((Gen.BodyCast2.invocations.filter (·.mac == "impl_array_casts")).map (·.selfName)).Nodup ∧
    (∀ d ∈ Gen.BodyCast2.derives, d.name ∈ (Gen.BodyCast2.invocations.filter (·.mac == "impl_array_casts")).map (·.selfName)) ∧
    (Gen.BodyCast2.invocations.filter (·.mac == "impl_array_casts")).length = Gen.BodyCast2.derives.length + 3 := by decide +kernel

end Tie
