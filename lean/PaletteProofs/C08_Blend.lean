/-
  C08 — blending and compositing follow the W3C formulas and Porter-Duff identities.

  The model (`PaletteModel/Blend.lean`, transcribed from `blend/blend.rs`, `blend/compose.rs`, `macros/blend.rs`, `blend.rs`)
  is read at `ℝ` and compared with the W3C recommendation written independently in `PaletteSpec/Blend.lean`.
  Everything here is exact real arithmetic: "up to rounding" in the property is the floating-point residual that the
  oracle of `harness/src/c08.rs` looks at (DESIGN §2.9-1).  Of `Real.sqrt` only `0 ≤ √x` and `√x·√x = x` (x ≥ 0) are used.
-/
import PaletteProofs.Lemmas.BlendReal
import PaletteSpec.Blend
import Mathlib.Tactic.Ring
import Mathlib.Tactic.Positivity
import Mathlib.Tactic.FieldSimp

namespace C08
open Blend BlendReal

/-! ## 1. each of the eleven per-mode functions is the W3C mixing function `B(Cb, Cs)`
  (model argument order is `(src, dst)`, W3C's is `(backdrop, source)`) -/

theorem multiply_eq_w3c (cs cb : ℝ) : multiplyBlend cs cb = W3C.multiply cb cs := by
  rw [multiply_eq, W3C.multiply]; ring
theorem screen_eq_w3c (cs cb : ℝ) : screenBlend cs cb = W3C.screen cb cs := by
  rw [screen_eq, W3C.screen]; ring
theorem darken_eq_w3c (cs cb : ℝ) : darkenBlend cs cb = W3C.darken cb cs := by
  rw [darken_eq, W3C.darken, min_comm]
theorem lighten_eq_w3c (cs cb : ℝ) : lightenBlend cs cb = W3C.lighten cb cs := by
  rw [lighten_eq, W3C.lighten, max_comm]
theorem difference_eq_w3c (cs cb : ℝ) : differenceBlend cs cb = W3C.difference cb cs := by
  rw [difference_eq, W3C.difference]
theorem exclusion_eq_w3c (cs cb : ℝ) : exclusionBlend cs cb = W3C.exclusion cb cs := by
  rw [exclusion_eq, W3C.exclusion]; ring

/-- hard-light, for all reals: the code's test `2·cs ≤ 1` is W3C's `Cs ≤ 0.5` -/
theorem hardLight_eq_w3c (cs cb : ℝ) : hardLightBlend cs cb = W3C.hardLight cb cs := by
  unfold W3C.hardLight W3C.multiply W3C.screen
  by_cases h : cs ≤ 1 / 2
  · rw [if_pos h, hardLight_lo cb (by linarith)]; ring
  · rw [if_neg h, hardLight_hi cb (by intro h'; exact h (by linarith))]; ring

/-- overlay is hard-light with the layers swapped, in the code as in the recommendation -/
theorem overlay_eq_w3c (cs cb : ℝ) : overlayBlend cs cb = W3C.overlay cb cs := by
  rw [overlay_eq, hardLight_eq_w3c, W3C.overlay]

theorem softLightD_eq_w3c (cb : ℝ) : softLightD cb = W3C.softLightD cb := by
  unfold W3C.softLightD
  by_cases h : cb ≤ 1 / 4
  · rw [if_pos h, softD_lo (by linarith)]; ring
  · rw [if_neg h, softD_hi (by intro h'; exact h (by linarith))]

/-- soft-light, for all reals (both tests `2·cs ≤ 1`, `4·cb ≤ 1` are the W3C ones) -/
theorem softLight_eq_w3c (cs cb : ℝ) : softLightBlend cs cb = W3C.softLight cb cs := by
  unfold W3C.softLight
  by_cases h : cs ≤ 1 / 2
  · rw [if_pos h, softLight_lo cb (by linarith)]; ring
  · rw [if_neg h, softLight_hi cb (by intro h'; exact h (by linarith)), softLightD_eq_w3c]; ring

/-- color-dodge on the property's domain.  (The code tests `cb ≤ 0`, `cs ≥ 1` where W3C tests `= 0`, `= 1`: the same on [0,1].) -/
theorem dodge_eq_w3c {cs cb : ℝ} (hb : 0 ≤ cb) (hs : cs ≤ 1) : dodgeBlend cs cb = W3C.colorDodge cb cs := by
  unfold W3C.colorDodge
  by_cases h0 : cb = 0
  · rw [if_pos h0, dodge_d0 cs (le_of_eq h0)]
  · have hpos : ¬ cb ≤ 0 := fun h => h0 (le_antisymm h hb)
    rw [if_neg h0]
    by_cases h1 : cs = 1
    · rw [if_pos h1, dodge_s1 hpos (le_of_eq h1.symm)]
    · rw [if_neg h1, dodge_q hpos (fun h => h1 (le_antisymm hs h))]

/-- color-burn on the property's domain -/
theorem burn_eq_w3c {cs cb : ℝ} (hb : cb ≤ 1) (hs : 0 ≤ cs) : burnBlend cs cb = W3C.colorBurn cb cs := by
  unfold W3C.colorBurn
  by_cases h1 : cb = 1
  · rw [if_pos h1, burn_d1 cs (le_of_eq h1.symm)]
  · have hlt : ¬ 1 ≤ cb := fun h => h1 (le_antisymm hb h)
    rw [if_neg h1]
    by_cases h0 : cs = 0
    · rw [if_pos h0, burn_s0 hlt (le_of_eq h0)]
    · rw [if_neg h0, burn_q hlt (fun h => h0 (le_antisymm h hs))]

/-- the W3C function of each mode -/
noncomputable def w3cB : Mode → ℝ → ℝ → ℝ
  | .multiply => W3C.multiply | .screen => W3C.screen | .overlay => W3C.overlay | .darken => W3C.darken
  | .lighten => W3C.lighten | .dodge => W3C.colorDodge | .burn => W3C.colorBurn | .hardLight => W3C.hardLight
  | .softLight => W3C.softLight | .difference => W3C.difference | .exclusion => W3C.exclusion

/-- **each mode = W3C `B(cb, cs)`** for colours in [0,1] -/
theorem mode_eq_w3c (m : Mode) {cs cb : ℝ} (hs0 : 0 ≤ cs) (hs1 : cs ≤ 1) (hb0 : 0 ≤ cb) (hb1 : cb ≤ 1) :
    m.fn cs cb = w3cB m cb cs := by
  cases m
  · exact multiply_eq_w3c cs cb
  · exact screen_eq_w3c cs cb
  · exact overlay_eq_w3c cs cb
  · exact darken_eq_w3c cs cb
  · exact lighten_eq_w3c cs cb
  · exact dodge_eq_w3c hb0 hs1
  · exact burn_eq_w3c hb1 hs0
  · exact hardLight_eq_w3c cs cb
  · exact softLight_eq_w3c cs cb
  · exact difference_eq_w3c cs cb
  · exact exclusion_eq_w3c cs cb

/-- non-vacuity: the hypotheses are satisfiable and both sides of the branchy modes are reached -/
example : (Mode.hardLight).fn (0.25 : ℝ) 0.5 = w3cB .hardLight 0.5 0.25 := mode_eq_w3c _ (by norm_num) (by norm_num) (by norm_num) (by norm_num)
example : hardLightBlend (0.75 : ℝ) 0.5 = 0.75 := by rw [hardLight_hi _ (by norm_num)]; norm_num
example : hardLightBlend (0.25 : ℝ) 0.5 = 0.25 := by rw [hardLight_lo _ (by norm_num)]; norm_num
example : dodgeBlend (0.5 : ℝ) 0.25 = 0.5 := by
  rw [dodge_q (by norm_num) (by norm_num), min_eq_right (by norm_num)]; norm_num
example : burnBlend (0.5 : ℝ) 0.75 = 0.5 := by
  rw [burn_q (by norm_num) (by norm_num), min_eq_right (by norm_num)]; norm_num
example : softLightBlend (0.75 : ℝ) 0.125 = 0.125 + 0.5 * (((16 * 0.125 - 12) * 0.125 + 4) * 0.125 - 0.125) := by
  rw [softLight_hi _ (by norm_num), softD_lo (by norm_num)]; norm_num

/-! ## 2. every mode maps [0,1]² into [0,1] -/

section range
variable {s d : ℝ}

theorem multiply_range (hs0 : 0 ≤ s) (hs1 : s ≤ 1) (hd0 : 0 ≤ d) (hd1 : d ≤ 1) :
    0 ≤ multiplyBlend s d ∧ multiplyBlend s d ≤ 1 := by
  rw [multiply_eq]; constructor <;> nlinarith
theorem screen_range (hs0 : 0 ≤ s) (hs1 : s ≤ 1) (hd0 : 0 ≤ d) (hd1 : d ≤ 1) :
    0 ≤ screenBlend s d ∧ screenBlend s d ≤ 1 := by
  rw [screen_eq]; constructor <;> nlinarith
theorem hardLight_range (hs0 : 0 ≤ s) (hs1 : s ≤ 1) (hd0 : 0 ≤ d) (hd1 : d ≤ 1) :
    0 ≤ hardLightBlend s d ∧ hardLightBlend s d ≤ 1 := by
  by_cases h : s + s ≤ 1
  · rw [hardLight_lo d h]; constructor <;> nlinarith
  · rw [hardLight_hi d h]; have : 1 < s + s := not_le.mp h; constructor <;> nlinarith
theorem overlay_range (hs0 : 0 ≤ s) (hs1 : s ≤ 1) (hd0 : 0 ≤ d) (hd1 : d ≤ 1) :
    0 ≤ overlayBlend s d ∧ overlayBlend s d ≤ 1 := by
  rw [overlay_eq]; exact hardLight_range hd0 hd1 hs0 hs1
theorem darken_range (hs0 : 0 ≤ s) (hs1 : s ≤ 1) (hd0 : 0 ≤ d) (_hd1 : d ≤ 1) :
    0 ≤ darkenBlend s d ∧ darkenBlend s d ≤ 1 := by
  rw [darken_eq]; exact ⟨le_min hs0 hd0, le_trans (min_le_left _ _) hs1⟩
theorem lighten_range (hs0 : 0 ≤ s) (hs1 : s ≤ 1) (_hd0 : 0 ≤ d) (hd1 : d ≤ 1) :
    0 ≤ lightenBlend s d ∧ lightenBlend s d ≤ 1 := by
  rw [lighten_eq]; exact ⟨le_trans hs0 (le_max_left _ _), max_le hs1 hd1⟩
theorem difference_range (hs0 : 0 ≤ s) (hs1 : s ≤ 1) (hd0 : 0 ≤ d) (hd1 : d ≤ 1) :
    0 ≤ differenceBlend s d ∧ differenceBlend s d ≤ 1 := by
  rw [difference_eq]; exact ⟨abs_nonneg _, abs_le.mpr ⟨by linarith, by linarith⟩⟩
theorem exclusion_range (hs0 : 0 ≤ s) (hs1 : s ≤ 1) (hd0 : 0 ≤ d) (hd1 : d ≤ 1) :
    0 ≤ exclusionBlend s d ∧ exclusionBlend s d ≤ 1 := by
  rw [exclusion_eq]; constructor <;> nlinarith
/-- dodge and burn are clamped by construction: in [0,1] for *every* non-negative backdrop / source ≤ 1 -/
theorem dodge_range (_hs0 : 0 ≤ s) (_hs1 : s ≤ 1) (hd0 : 0 ≤ d) (_hd1 : d ≤ 1) :
    0 ≤ dodgeBlend s d ∧ dodgeBlend s d ≤ 1 := by
  by_cases h0 : d ≤ 0
  · rw [dodge_d0 s h0]; norm_num
  · by_cases h1 : 1 ≤ s
    · rw [dodge_s1 h0 h1]; norm_num
    · rw [dodge_q h0 h1]
      have : 0 < 1 - s := by linarith [not_le.mp h1]
      exact ⟨le_min zero_le_one (div_nonneg hd0 this.le), min_le_left _ _⟩
theorem burn_range (_hs0 : 0 ≤ s) (_hs1 : s ≤ 1) (_hd0 : 0 ≤ d) (hd1 : d ≤ 1) :
    0 ≤ burnBlend s d ∧ burnBlend s d ≤ 1 := by
  by_cases h1 : 1 ≤ d
  · rw [burn_d1 s h1]; norm_num
  · by_cases h0 : s ≤ 0
    · rw [burn_s0 h1 h0]; norm_num
    · rw [burn_q h1 h0]
      have hs : 0 < s := not_le.mp h0
      have hq : 0 ≤ (1 - d) / s := div_nonneg (by linarith) hs.le
      have := min_le_left (1:ℝ) ((1 - d) / s)
      have := le_min zero_le_one hq
      constructor <;> linarith

/-- `D(cb)` of soft-light stays between `cb` and 1 on [0,1] (only `0 ≤ √x`, `√x·√x = x` are used of the square root) -/
theorem softLightD_bounds (hd0 : 0 ≤ d) (hd1 : d ≤ 1) : d ≤ softLightD d ∧ softLightD d ≤ 1 := by
  by_cases h : d * 4 ≤ 1
  · rw [softD_lo h]
    constructor
    · nlinarith [mul_nonneg hd0 hd0, mul_nonneg hd0 (mul_nonneg hd0 hd0)]
    · nlinarith [mul_nonneg hd0 hd0, mul_nonneg hd0 (mul_nonneg hd0 hd0)]
  · rw [softD_hi h]
    have h0 := Real.sqrt_nonneg d
    have hm := Real.mul_self_sqrt hd0
    constructor <;> nlinarith
theorem softLight_range (hs0 : 0 ≤ s) (hs1 : s ≤ 1) (hd0 : 0 ≤ d) (hd1 : d ≤ 1) :
    0 ≤ softLightBlend s d ∧ softLightBlend s d ≤ 1 := by
  by_cases h : s + s ≤ 1
  · rw [softLight_lo d h]
    have h1 : 0 ≤ (1 - (s + s)) := by linarith
    have h2 : 0 ≤ d * (1 - d) := mul_nonneg hd0 (by linarith)
    constructor <;> nlinarith [mul_nonneg h1 h2, mul_nonneg hd0 hd0]
  · rw [softLight_hi d h]
    obtain ⟨b1, b2⟩ := softLightD_bounds hd0 hd1
    have h1 : 0 < s + s - 1 := by linarith [not_le.mp h]
    have h2 : s + s - 1 ≤ 1 := by linarith
    constructor <;> nlinarith [mul_nonneg h1.le (sub_nonneg.mpr b1)]

/-- **all eleven modes stay in [0,1]** -/
theorem mode_range (m : Mode) (hs0 : 0 ≤ s) (hs1 : s ≤ 1) (hd0 : 0 ≤ d) (hd1 : d ≤ 1) : 0 ≤ m.fn s d ∧ m.fn s d ≤ 1 := by
  cases m
  · exact multiply_range hs0 hs1 hd0 hd1
  · exact screen_range hs0 hs1 hd0 hd1
  · exact overlay_range hs0 hs1 hd0 hd1
  · exact darken_range hs0 hs1 hd0 hd1
  · exact lighten_range hs0 hs1 hd0 hd1
  · exact dodge_range hs0 hs1 hd0 hd1
  · exact burn_range hs0 hs1 hd0 hd1
  · exact hardLight_range hs0 hs1 hd0 hd1
  · exact softLight_range hs0 hs1 hd0 hd1
  · exact difference_range hs0 hs1 hd0 hd1
  · exact exclusion_range hs0 hs1 hd0 hd1
end range

/-! ## 3. `blend_separable` is W3C blending followed by source-over compositing, on premultiplied colours -/

/-- result alpha: `blend_alpha` is `αs + αb − αs·αb = αo` for alphas in [0,1] (the clamp is inactive) -/
theorem blendAlpha_eq_w3c {αs αb : ℝ} (hs0 : 0 ≤ αs) (hs1 : αs ≤ 1) (hb0 : 0 ≤ αb) (hb1 : αb ≤ 1) :
    blendAlpha αs αb = αs + αb - αs * αb ∧ blendAlpha αs αb = W3C.overAlpha αs αb := by
  have h0 : 0 ≤ αs + αb - αs * αb := by nlinarith
  have h1 : αs + αb - αs * αb ≤ 1 := by nlinarith
  rw [blendAlpha_eq, clamp01_id h0 h1, W3C.overAlpha]
  exact ⟨rfl, by ring⟩

theorem blendAlpha_range {αs αb : ℝ} (hs0 : 0 ≤ αs) (hs1 : αs ≤ 1) (hb0 : 0 ≤ αb) (hb1 : αb ≤ 1) :
    0 ≤ blendAlpha αs αb ∧ blendAlpha αs αb ≤ 1 := by
  rw [(blendAlpha_eq_w3c hs0 hs1 hb0 hb1).1]; constructor <;> nlinarith

/-- one component of `blend_separable`, fed as `From<Alpha<C,T>> for BlendInput` feeds it (straight colour and its product
    with alpha): the brief's expanded form `cs·αs·(1−αb) + αs·αb·B + (1−αs)·αb·cb` … -/
theorem blendComp_expanded (f : ℝ → ℝ → ℝ) (cs αs cb αb : ℝ) :
    blendComp f αs αb cs (cs * αs) cb (cb * αb) = cs * αs * (1 - αb) + αs * αb * f cs cb + (1 - αs) * αb * cb := by
  rw [blendComp_eq]; ring

/-- … which is the W3C two-step definition: mix (`Cs' = (1−αb)·Cs + αb·B(Cb,Cs)`), then composite source-over -/
theorem blendComp_eq_w3c (f : ℝ → ℝ → ℝ) (cs αs cb αb : ℝ) :
    blendComp f αs αb cs (cs * αs) cb (cb * αb) = W3C.blendCo (fun b s => f s b) cs αs cb αb := by
  rw [blendComp_eq, W3C.blendCo, W3C.mixed]; ring

/-- with the mode's own function and colours in [0,1]: the W3C value with the W3C `B` -/
theorem blendComp_mode_eq_w3c (m : Mode) {cs cb : ℝ} (αs αb : ℝ) (hs0 : 0 ≤ cs) (hs1 : cs ≤ 1) (hb0 : 0 ≤ cb) (hb1 : cb ≤ 1) :
    blendComp m.fn αs αb cs (cs * αs) cb (cb * αb) = W3C.blendCo (w3cB m) cs αs cb αb := by
  rw [blendComp_eq_w3c, W3C.blendCo, W3C.blendCo, W3C.mixed, W3C.mixed, mode_eq_w3c m hs0 hs1 hb0 hb1]

/-- range of the premultiplied result: `0 ≤ co ≤ αo` (so `co ∈ [0,1]` and the straight colour `co/αo ∈ [0,1]`) -/
theorem blendComp_range {f : ℝ → ℝ → ℝ} {cs αs cb αb : ℝ} (hf : 0 ≤ f cs cb ∧ f cs cb ≤ 1)
    (hs0 : 0 ≤ cs) (hs1 : cs ≤ 1) (hb0 : 0 ≤ cb) (hb1 : cb ≤ 1)
    (ha0 : 0 ≤ αs) (ha1 : αs ≤ 1) (hc0 : 0 ≤ αb) (hc1 : αb ≤ 1) :
    0 ≤ blendComp f αs αb cs (cs * αs) cb (cb * αb) ∧
    blendComp f αs αb cs (cs * αs) cb (cb * αb) ≤ αs + αb - αs * αb := by
  rw [blendComp_expanded]
  obtain ⟨f0, f1⟩ := hf
  have e1 : 0 ≤ cs * αs * (1 - αb) := mul_nonneg (mul_nonneg hs0 ha0) (by linarith)
  have e2 : 0 ≤ αs * αb * f cs cb := mul_nonneg (mul_nonneg ha0 hc0) f0
  have e3 : 0 ≤ (1 - αs) * αb * cb := mul_nonneg (mul_nonneg (by linarith) hc0) hb0
  have u1 : cs * αs * (1 - αb) ≤ αs * (1 - αb) := by
    have : 0 ≤ (1 - cs) * (αs * (1 - αb)) := mul_nonneg (by linarith) (mul_nonneg ha0 (by linarith))
    nlinarith
  have u2 : αs * αb * f cs cb ≤ αs * αb := by
    have : 0 ≤ (1 - f cs cb) * (αs * αb) := mul_nonneg (by linarith) (mul_nonneg ha0 hc0)
    nlinarith
  have u3 : (1 - αs) * αb * cb ≤ (1 - αs) * αb := by
    have : 0 ≤ (1 - cb) * ((1 - αs) * αb) := mul_nonneg (by linarith) (mul_nonneg (by linarith) hc0)
    nlinarith
  constructor
  · linarith
  · nlinarith

/-- **range, per component, every mode**: premultiplied result in [0,1], and in [0, αo] -/
theorem blend_result_range (m : Mode) {cs αs cb αb : ℝ}
    (hs0 : 0 ≤ cs) (hs1 : cs ≤ 1) (hb0 : 0 ≤ cb) (hb1 : cb ≤ 1)
    (ha0 : 0 ≤ αs) (ha1 : αs ≤ 1) (hc0 : 0 ≤ αb) (hc1 : αb ≤ 1) :
    0 ≤ blendComp m.fn αs αb cs (cs * αs) cb (cb * αb) ∧
    blendComp m.fn αs αb cs (cs * αs) cb (cb * αb) ≤ blendAlpha αs αb ∧
    blendComp m.fn αs αb cs (cs * αs) cb (cb * αb) ≤ 1 := by
  obtain ⟨r0, r1⟩ := blendComp_range (mode_range m hs0 hs1 hb0 hb1) hs0 hs1 hb0 hb1 ha0 ha1 hc0 hc1
  rw [(blendAlpha_eq_w3c ha0 ha1 hc0 hc1).1]
  exact ⟨r0, r1, by nlinarith⟩

/-- the straight colour the `Alpha` form returns (`co / αo`) is in [0,1] whenever `αo ≠ 0` -/
theorem blend_straight_range (m : Mode) {cs αs cb αb : ℝ}
    (hs0 : 0 ≤ cs) (hs1 : cs ≤ 1) (hb0 : 0 ≤ cb) (hb1 : cb ≤ 1)
    (ha0 : 0 ≤ αs) (ha1 : αs ≤ 1) (hc0 : 0 ≤ αb) (hc1 : αb ≤ 1) (hne : blendAlpha αs αb ≠ 0) :
    0 ≤ blendComp m.fn αs αb cs (cs * αs) cb (cb * αb) / blendAlpha αs αb ∧
    blendComp m.fn αs αb cs (cs * αs) cb (cb * αb) / blendAlpha αs αb ≤ 1 := by
  obtain ⟨r0, r1, _⟩ := blend_result_range m hs0 hs1 hb0 hb1 ha0 ha1 hc0 hc1
  have hpos : 0 < blendAlpha αs αb := lt_of_le_of_ne (blendAlpha_range ha0 ha1 hc0 hc1).1 (Ne.symm hne)
  exact ⟨div_nonneg r0 hpos.le, (div_le_one hpos).mpr r1⟩

/-! ### the same on whole colours (lists of components in `ArrayCast` order) -/

theorem blendList_ofAlpha (f : ℝ → ℝ → ℝ) (αs αb : ℝ) : ∀ (s d : List ℝ),
    blendList f αs αb s (s.map (fun x => x * αs)) d (d.map (fun x => x * αb)) =
      List.zipWith (fun cs cb => blendComp f αs αb cs (cs * αs) cb (cb * αb)) s d
  | [], _ => by simp [blendList]
  | _ :: _, [] => by simp [blendList]
  | cs :: s, cb :: d => by
    simp only [List.map_cons, blendList, List.zipWith_cons_cons, blendList_ofAlpha f αs αb s d]

/-- **`blend_separable` on `Alpha` inputs = the W3C formula, component by component, with result alpha `αs + αb − αs·αb`** -/
theorem blendSeparable_eq_w3c (m : Mode) (s d : List ℝ) {αs αb : ℝ}
    (hs : ∀ x ∈ s, 0 ≤ x ∧ x ≤ 1) (hd : ∀ x ∈ d, 0 ≤ x ∧ x ≤ 1)
    (ha0 : 0 ≤ αs) (ha1 : αs ≤ 1) (hc0 : 0 ≤ αb) (hc1 : αb ≤ 1) :
    blendSeparable m.fn (BlendInput.ofAlpha (s, αs)) (BlendInput.ofAlpha (d, αb)) =
      (List.zipWith (fun cs cb => W3C.blendCo (w3cB m) cs αs cb αb) s d, αs + αb - αs * αb) := by
  unfold blendSeparable BlendInput.ofAlpha premultiply
  simp only []
  rw [blendList_ofAlpha, (blendAlpha_eq_w3c ha0 ha1 hc0 hc1).1]
  congr 1
  induction s generalizing d with
  | nil => simp
  | cons cs s ih =>
    cases d with
    | nil => simp
    | cons cb d =>
      have h1 := hs cs (List.mem_cons_self ..)
      have h2 := hd cb (List.mem_cons_self ..)
      simp only [List.zipWith_cons_cons]
      rw [blendComp_mode_eq_w3c m αs αb h1.1 h1.2 h2.1 h2.2,
        ih d (fun x hx => hs x (List.mem_cons_of_mem _ hx)) (fun x hx => hd x (List.mem_cons_of_mem _ hx))]

/-- every element of a `zipWith` inherits what the function guarantees on the elements of the two lists -/
theorem forall_zipWith {P Q : ℝ → Prop} {g : ℝ → ℝ → ℝ} (h : ∀ a b, Q a → Q b → P (g a b)) :
    ∀ (l₁ l₂ : List ℝ), (∀ a ∈ l₁, Q a) → (∀ b ∈ l₂, Q b) → ∀ x ∈ List.zipWith g l₁ l₂, P x
  | [], _, _, _, x, hx => by simp at hx
  | _ :: _, [], _, _, x, hx => by simp at hx
  | a :: l₁, b :: l₂, h₁, h₂, x, hx => by
    rw [List.zipWith_cons_cons, List.mem_cons] at hx
    rcases hx with rfl | hx
    · exact h a b (h₁ a (List.mem_cons_self ..)) (h₂ b (List.mem_cons_self ..))
    · exact forall_zipWith h l₁ l₂ (fun y hy => h₁ y (List.mem_cons_of_mem _ hy)) (fun y hy => h₂ y (List.mem_cons_of_mem _ hy)) x hx

/-- **all result components and the result alpha are in [0,1]** — whole colours, every mode, `Alpha` inputs (premultiplied
    result; by `blendPre_premultiply` also the `PreAlpha` form) -/
theorem blendSeparable_range (m : Mode) (s d : List ℝ) {αs αb : ℝ}
    (hs : ∀ x ∈ s, 0 ≤ x ∧ x ≤ 1) (hd : ∀ x ∈ d, 0 ≤ x ∧ x ≤ 1)
    (ha0 : 0 ≤ αs) (ha1 : αs ≤ 1) (hc0 : 0 ≤ αb) (hc1 : αb ≤ 1) :
    let r := blendSeparable m.fn (BlendInput.ofAlpha (s, αs)) (BlendInput.ofAlpha (d, αb))
    (∀ x ∈ r.1, 0 ≤ x ∧ x ≤ r.2) ∧ 0 ≤ r.2 ∧ r.2 ≤ 1 := by
  have e : blendSeparable m.fn (BlendInput.ofAlpha (s, αs)) (BlendInput.ofAlpha (d, αb)) =
      (List.zipWith (fun cs cb => blendComp m.fn αs αb cs (cs * αs) cb (cb * αb)) s d, blendAlpha αs αb) := by
    unfold blendSeparable BlendInput.ofAlpha premultiply
    simp only []
    rw [blendList_ofAlpha]
  simp only [e]
  refine ⟨?_, blendAlpha_range ha0 ha1 hc0 hc1⟩
  exact forall_zipWith (Q := fun x => 0 ≤ x ∧ x ≤ 1)
    (fun a b ha hb => ⟨(blend_result_range m ha.1 ha.2 hb.1 hb.2 ha0 ha1 hc0 hc1).1,
      (blend_result_range m ha.1 ha.2 hb.1 hb.2 ha0 ha1 hc0 hc1).2.1⟩) s d hs hd

/-- a fully transparent source leaves the (premultiplied) backdrop and its alpha unchanged under *every* blend mode, not only
    under `over` -/
theorem blend_transparent_source (f : ℝ → ℝ → ℝ) (cs cb dp : ℝ) {αb : ℝ} (hc0 : 0 ≤ αb) (hc1 : αb ≤ 1) :
    blendComp f 0 αb cs (cs * 0) cb dp = dp ∧ blendAlpha 0 αb = αb := by
  constructor
  · rw [blendComp_eq]; ring
  · rw [blendAlpha_eq]
    have : (0 : ℝ) + αb - 0 * αb = αb := by ring
    rw [this]; exact clamp01_id hc0 hc1

/-! ## 4. opaque inputs reduce to the plain per-component blend function -/

theorem blendComp_opaque (f : ℝ → ℝ → ℝ) (cs cb : ℝ) : blendComp f 1.0 1.0 cs cs cb cb = f cs cb := by
  rw [blendComp_eq, lit1]; ring

theorem blendAlpha_one_one : blendAlpha (1.0 : ℝ) 1.0 = 1 := by
  have e : (1.0 : ℝ) + 1.0 - 1.0 * 1.0 = 1 := by norm_num
  rw [blendAlpha_eq, e]; exact clamp01_id (by norm_num) (by norm_num)

theorem blendList_opaque (f : ℝ → ℝ → ℝ) : ∀ (s d : List ℝ), blendList f 1.0 1.0 s s d d = List.zipWith f s d
  | [], _ => by simp [blendList]
  | _ :: _, [] => by simp [blendList]
  | cs :: s, cb :: d => by simp only [blendList, List.zipWith_cons_cons, blendComp_opaque, blendList_opaque f s d]

theorem map_unpremulC_one (l : List ℝ) : l.map (unpremulC (Scalar.isValidDivisor (1 : ℝ)) 1) = l := by
  have : ∀ x : ℝ, unpremulC (Scalar.isValidDivisor (1 : ℝ)) 1 x = x := fun x => by
    rw [unpremulC_valid x one_ne_zero, div_one]
  induction l with
  | nil => rfl
  | cons x l ih => rw [List.map_cons, ih, this]

/-- **`impl Blend for C` (opaque colours): the result is `B` applied component by component** — for every `f`, all reals -/
theorem blendOpaque_eq (f : ℝ → ℝ → ℝ) (s d : List ℝ) : blendOpaque f s d = List.zipWith f s d := by
  unfold blendOpaque blendSeparable BlendInput.newOpaque unpremultiply
  simp only []
  rw [blendList_opaque, blendAlpha_one_one, map_unpremulC_one]

/-- … hence the W3C `B(cb, cs)` for colours in [0,1] -/
theorem blendOpaque_eq_w3c (m : Mode) : ∀ (s d : List ℝ), (∀ x ∈ s, 0 ≤ x ∧ x ≤ 1) → (∀ x ∈ d, 0 ≤ x ∧ x ≤ 1) →
    blendOpaque m.fn s d = List.zipWith (fun cs cb => w3cB m cb cs) s d := by
  intro s d hs hd
  rw [blendOpaque_eq]
  induction s generalizing d with
  | nil => simp
  | cons cs s ih =>
    cases d with
    | nil => simp
    | cons cb d =>
      have h1 := hs cs (List.mem_cons_self ..)
      have h2 := hd cb (List.mem_cons_self ..)
      simp only [List.zipWith_cons_cons]
      rw [mode_eq_w3c m h1.1 h1.2 h2.1 h2.2,
        ih d (fun x hx => hs x (List.mem_cons_of_mem _ hx)) (fun x hx => hd x (List.mem_cons_of_mem _ hx))]

/-- the `Alpha` form with both alphas 1 gives the same colour (and alpha 1) -/
theorem blendStraight_opaque (f : ℝ → ℝ → ℝ) (s d : List ℝ) :
    blendStraight f (s, 1.0) (d, 1.0) = (blendOpaque f s d, 1) := by
  have hm : ∀ l : List ℝ, l.map (fun x => x * (1.0 : ℝ)) = l := fun l => by simp [lit1]
  unfold blendStraight blendOpaque blendSeparable BlendInput.ofAlpha BlendInput.newOpaque premultiply unpremultiply
  simp only [hm, blendAlpha_one_one]

/-! ## 5. the six Porter-Duff operators -/

/-- palette's operator ↦ the W3C name -/
def pdOf : Op → W3C.PD
  | .over => .sourceOver | .inside => .sourceIn | .outside => .sourceOut | .atop => .sourceAtop | .xor => .xor | .plus => .lighter

theorem opComp_eq (op : Op) (sa da s d : ℝ) : op.comp sa da s d =
    match op with
    | .over => s + (1 - sa) * d | .inside => s * da | .outside => s * (1 - da)
    | .atop => s * da + (1 - sa) * d | .xor => s * (1 - da) + (1 - sa) * d | .plus => s + d := by
  cases op <;> simp only [Op.comp, lit1]

/-- **each operator, applied to premultiplied colours `cs·αs`, `cb·αb`, is its Porter-Duff formula
    `co = αs·Fa·Cs + αb·Fb·Cb`** (all reals) -/
theorem compose_eq_porterDuff (op : Op) (cs αs cb αb : ℝ) :
    op.comp αs αb (cs * αs) (cb * αb) = (pdOf op).co cs αs cb αb := by
  rw [opComp_eq]
  cases op <;> simp only [pdOf, W3C.PD.co, W3C.PD.Fa, W3C.PD.Fb] <;> ring

/-- directly on premultiplied colours: `co = Fa·cs_pre + Fb·cb_pre` -/
theorem compose_eq_fractions (op : Op) (s αs d αb : ℝ) :
    op.comp αs αb s d = (pdOf op).Fa αs αb * s + (pdOf op).Fb αs αb * d := by
  rw [opComp_eq]
  cases op <;> simp only [pdOf, W3C.PD.Fa, W3C.PD.Fb] <;> ring

theorem opAlpha_unclamped (op : Op) (sa da : ℝ) : op.alpha sa da = Scalar.clamp
    (match op with
     | .over => sa + da - sa * da | .inside => sa * da | .outside => sa * (1 - da)
     | .atop => da | .xor => sa * (1 - da) + (1 - sa) * da | .plus => sa + da) (0.0 : ℝ) 1.0 := by
  cases op <;> simp only [Op.alpha, blendAlpha_eq, lit1]

/-- **result alpha = Porter-Duff `αo = αs·Fa + αb·Fb`** for alphas in [0,1], for the five operators whose `αo` cannot leave
    [0,1] … -/
theorem compose_alpha_eq_porterDuff (op : Op) (hop : op ≠ .plus) {αs αb : ℝ}
    (ha0 : 0 ≤ αs) (ha1 : αs ≤ 1) (hc0 : 0 ≤ αb) (hc1 : αb ≤ 1) : op.alpha αs αb = (pdOf op).αo αs αb := by
  rw [opAlpha_unclamped]
  cases op
  · simp only [pdOf, W3C.PD.αo, W3C.PD.Fa, W3C.PD.Fb]
    rw [clamp01_id (by nlinarith) (by nlinarith)]; ring
  · simp only [pdOf, W3C.PD.αo, W3C.PD.Fa, W3C.PD.Fb]
    rw [clamp01_id (by nlinarith) (by nlinarith)]; ring
  · simp only [pdOf, W3C.PD.αo, W3C.PD.Fa, W3C.PD.Fb]
    rw [clamp01_id (mul_nonneg ha0 (by linarith)) (by nlinarith)]; ring
  · simp only [pdOf, W3C.PD.αo, W3C.PD.Fa, W3C.PD.Fb]
    rw [clamp01_id hc0 hc1]; ring
  · simp only [pdOf, W3C.PD.αo, W3C.PD.Fa, W3C.PD.Fb]
    have h0 : 0 ≤ αs * (1 - αb) + (1 - αs) * αb := by nlinarith [mul_nonneg ha0 (sub_nonneg.mpr hc1), mul_nonneg hc0 (sub_nonneg.mpr ha1)]
    have h1 : αs * (1 - αb) + (1 - αs) * αb ≤ 1 := by nlinarith [mul_nonneg ha0 hc0, mul_nonneg (sub_nonneg.mpr ha1) (sub_nonneg.mpr hc1)]
    rw [clamp01_id h0 h1]; ring
  · exact absurd rfl hop

/-- the xor alpha as palette computed it before the C08 repair, `αs + αb − 2·αs·αb`, is the *same real number* as the W3C
    form `αs·(1−αb) + (1−αs)·αb` the repaired code evaluates: the repair changes rounding only (the old form cancels
    catastrophically when both alphas are near 1 — f32: `Alpha(1,1).xor(Alpha(0, 1−3·2⁻²⁴))` gave colour 1.5 or 0.75) -/
theorem xor_alpha_old_form (αs αb : ℝ) : αs + αb - (1 + 1) * αs * αb = αs * (1 - αb) + (1 - αs) * αb := by ring

/-- … and for `plus` (W3C "lighter", `αo = αs + αb`, which can reach 2) palette saturates: `min 1 (αs + αb)` -/
theorem plus_alpha_eq {αs αb : ℝ} (ha0 : 0 ≤ αs) (hc0 : 0 ≤ αb) :
    Op.plus.alpha αs αb = min 1 ((pdOf .plus).αo αs αb) := by
  rw [opAlpha_unclamped, clamp01_eq]
  simp only [pdOf, W3C.PD.αo, W3C.PD.Fa, W3C.PD.Fb]
  have : αs * 1 + αb * 1 = αs + αb := by ring
  rw [this, max_eq_right (le_min zero_le_one (by linarith))]

/-- result alpha in [0,1]: for *all* reals, every operator (it is clamped) -/
theorem compose_alpha_range (op : Op) (αs αb : ℝ) : 0 ≤ op.alpha αs αb ∧ op.alpha αs αb ≤ 1 := by
  rw [opAlpha_unclamped, clamp01_eq]
  exact ⟨le_max_left _ _, max_le zero_le_one (min_le_left _ _)⟩

/-- **range of the colour components** for valid premultiplied inputs (`0 ≤ s ≤ αs ≤ 1`, `0 ≤ d ≤ αb ≤ 1`): the five
    operators other than `plus` return `0 ≤ co ≤ αo ≤ 1` -/
theorem compose_range (op : Op) (hop : op ≠ .plus) {s αs d αb : ℝ}
    (hs0 : 0 ≤ s) (hs1 : s ≤ αs) (ha1 : αs ≤ 1) (hd0 : 0 ≤ d) (hd1 : d ≤ αb) (hc1 : αb ≤ 1) :
    0 ≤ op.comp αs αb s d ∧ op.comp αs αb s d ≤ op.alpha αs αb ∧ op.comp αs αb s d ≤ 1 := by
  have ha0 : 0 ≤ αs := le_trans hs0 hs1
  have hc0 : 0 ≤ αb := le_trans hd0 hd1
  have key : 0 ≤ op.comp αs αb s d ∧ op.comp αs αb s d ≤ op.alpha αs αb := by
    rw [compose_alpha_eq_porterDuff op hop ha0 ha1 hc0 hc1, opComp_eq]
    have p1 : 0 ≤ (1 - αs) * d := mul_nonneg (by linarith) hd0
    have p2 : (1 - αs) * d ≤ (1 - αs) * αb := mul_le_mul_of_nonneg_left hd1 (by linarith)
    have p3 : 0 ≤ s * αb := mul_nonneg hs0 hc0
    have p4 : s * αb ≤ αs * αb := mul_le_mul_of_nonneg_right hs1 hc0
    have p5 : 0 ≤ s * (1 - αb) := mul_nonneg hs0 (by linarith)
    have p6 : s * (1 - αb) ≤ αs * (1 - αb) := mul_le_mul_of_nonneg_right hs1 (by linarith)
    cases op
    · simp only [pdOf, W3C.PD.αo, W3C.PD.Fa, W3C.PD.Fb]; constructor <;> nlinarith
    · simp only [pdOf, W3C.PD.αo, W3C.PD.Fa, W3C.PD.Fb]; constructor <;> nlinarith
    · simp only [pdOf, W3C.PD.αo, W3C.PD.Fa, W3C.PD.Fb]; constructor <;> nlinarith
    · simp only [pdOf, W3C.PD.αo, W3C.PD.Fa, W3C.PD.Fb]; constructor <;> nlinarith
    · simp only [pdOf, W3C.PD.αo, W3C.PD.Fa, W3C.PD.Fb]; constructor <;> nlinarith
    · exact absurd rfl hop
  exact ⟨key.1, key.2, le_trans key.2 (compose_alpha_range op αs αb).2⟩

/- `plus`: the full statement "every result component is in [0,1]" is FALSE for the code *and for the W3C formula it follows*
   (`co = αs·Cs + αb·Cb` reaches 2; palette clamps the alpha but not the colour, and its own test `blend::test::plus` pins
   `LinSrgb(0.5,0,0.3).plus(LinSrgb(1,0.2,0)) = LinSrgb(1.5,0.2,0.3)`).  Proved instead: the exact W3C value, non-negativity,
   the bound `αs + αb`, membership in [0,1] whenever `αs + αb ≤ 1`, and the witness. -/
theorem plus_range_partial {s αs d αb : ℝ} (hs0 : 0 ≤ s) (hs1 : s ≤ αs) (hd0 : 0 ≤ d) (hd1 : d ≤ αb) :
    0 ≤ Op.plus.comp αs αb s d ∧ Op.plus.comp αs αb s d ≤ αs + αb ∧ (αs + αb ≤ 1 → Op.plus.comp αs αb s d ≤ 1) := by
  rw [opComp_eq]; exact ⟨by linarith, by linarith, fun h => by linarith⟩
/-- witness: opaque white `plus` opaque white has colour component 2 (alpha 1) -/
theorem plus_exceeds_one_witness : Op.plus.comp (1:ℝ) 1 (1 * 1) (1 * 1) = 2 ∧ Op.plus.alpha (1:ℝ) 1 = 1 := by
  rw [opComp_eq, opAlpha_unclamped]
  exact ⟨by norm_num, by rw [clamp01_hi (by norm_num)]⟩

/-! ### whole colours -/

theorem composeList_premul (op : Op) (αs αb : ℝ) : ∀ (s d : List ℝ),
    composeList op αs αb (s.map (fun x => x * αs)) (d.map (fun x => x * αb)) =
      List.zipWith (fun cs cb => (pdOf op).co cs αs cb αb) s d
  | [], _ => by simp [composeList]
  | _ :: _, [] => by simp [composeList]
  | cs :: s, cb :: d => by
    simp only [List.map_cons, composeList, List.zipWith_cons_cons, compose_eq_porterDuff, composeList_premul op αs αb s d]

/-- **`impl Compose for PreAlpha<C>` on premultiplied inputs = Porter-Duff, component by component** -/
theorem composePre_eq_porterDuff (op : Op) (hop : op ≠ .plus) (s d : List ℝ) {αs αb : ℝ}
    (ha0 : 0 ≤ αs) (ha1 : αs ≤ 1) (hc0 : 0 ≤ αb) (hc1 : αb ≤ 1) :
    composePre op (premultiply s αs) (premultiply d αb) =
      (List.zipWith (fun cs cb => (pdOf op).co cs αs cb αb) s d, (pdOf op).αo αs αb) := by
  unfold composePre premultiply
  simp only []
  rw [composeList_premul, compose_alpha_eq_porterDuff op hop ha0 ha1 hc0 hc1]

/-! ## 6. the `over` identities, in premultiplied terms -/

theorem composeList_over_zero (αb : ℝ) : ∀ (s d : List ℝ), s.length = d.length →
    composeList .over (0 : ℝ) αb (s.map (fun x => x * 0)) d = d
  | [], [], _ => by simp [composeList]
  | [], _ :: _, h => by simp at h
  | _ :: _, [], h => by simp at h
  | x :: s, y :: d, h => by
    have e : Op.over.comp (0 : ℝ) αb (x * 0) y = y := by rw [opComp_eq]; ring
    simp only [List.map_cons, composeList, e, composeList_over_zero αb s d (by simpa using h)]

/-- **a fully transparent source (any colour, alpha 0) `over` a backdrop returns the backdrop** — colour and alpha -/
theorem transparent_source_over (c : List ℝ) (b : WithAlpha ℝ) (hl : c.length = b.1.length) (h0 : 0 ≤ b.2) (h1 : b.2 ≤ 1) :
    composePre .over (premultiply c 0) b = b := by
  unfold composePre premultiply
  simp only []
  rw [composeList_over_zero b.2 c b.1 hl]
  have e : Op.over.alpha (0 : ℝ) b.2 = b.2 := by
    rw [opAlpha_unclamped]
    have : (0 : ℝ) + b.2 - 0 * b.2 = b.2 := by ring
    simp only [this]; exact clamp01_id h0 h1
  rw [e]

theorem composeList_over_one (αb : ℝ) : ∀ (s d : List ℝ), s.length = d.length →
    composeList .over (1 : ℝ) αb s d = s
  | [], [], _ => by simp [composeList]
  | [], _ :: _, h => by simp at h
  | _ :: _, [], h => by simp at h
  | x :: s, y :: d, h => by
    have e : Op.over.comp (1 : ℝ) αb x y = x := by rw [opComp_eq]; ring
    simp only [composeList, e, composeList_over_one αb s d (by simpa using h)]

/-- **an opaque source `over` anything returns the source** — colour and alpha 1 -/
theorem opaque_source_over (s : List ℝ) (b : WithAlpha ℝ) (hl : s.length = b.1.length) :
    composePre .over (s, 1) b = (s, 1) := by
  unfold composePre
  simp only []
  rw [composeList_over_one b.2 s b.1 hl]
  have e : Op.over.alpha (1 : ℝ) b.2 = 1 := by
    rw [opAlpha_unclamped]
    have : (1 : ℝ) + b.2 - 1 * b.2 = 1 := by ring
    simp only [this]; exact clamp01_id (by norm_num) (by norm_num)
  rw [e]

/-! ## 7. the commutative modes and operators are symmetric -/

theorem multiply_symm (a b : ℝ) : multiplyBlend a b = multiplyBlend b a := by rw [multiply_eq, multiply_eq]; ring
theorem screen_symm (a b : ℝ) : screenBlend a b = screenBlend b a := by rw [screen_eq, screen_eq]; ring
theorem darken_symm (a b : ℝ) : darkenBlend a b = darkenBlend b a := by rw [darken_eq, darken_eq, min_comm]
theorem lighten_symm (a b : ℝ) : lightenBlend a b = lightenBlend b a := by rw [lighten_eq, lighten_eq, max_comm]
theorem difference_symm (a b : ℝ) : differenceBlend a b = differenceBlend b a := by
  rw [difference_eq, difference_eq, abs_sub_comm]
theorem exclusion_symm (a b : ℝ) : exclusionBlend a b = exclusionBlend b a := by rw [exclusion_eq, exclusion_eq]; ring

/-- the six commutative modes -/
def Mode.commutative : Mode → Bool
  | .multiply | .screen | .darken | .lighten | .difference | .exclusion => true
  | _ => false

theorem mode_symm (m : Mode) (hm : Mode.commutative m = true) (a b : ℝ) : m.fn a b = m.fn b a := by
  cases m <;> simp only [Mode.commutative, Bool.false_eq_true] at hm
  · exact multiply_symm a b
  · exact screen_symm a b
  · exact darken_symm a b
  · exact lighten_symm a b
  · exact difference_symm a b
  · exact exclusion_symm a b

/-- **a commutative mode blends symmetrically**: swapping source and backdrop (colour, premultiplied colour and alpha
    together) leaves every component and the result alpha unchanged -/
theorem blend_symm (m : Mode) (hm : Mode.commutative m = true) (cs αs cb αb : ℝ) :
    blendComp m.fn αs αb cs (cs * αs) cb (cb * αb) = blendComp m.fn αb αs cb (cb * αb) cs (cs * αs) ∧
    blendAlpha αs αb = blendAlpha αb αs := by
  constructor
  · rw [blendComp_eq, blendComp_eq, mode_symm m hm cs cb]; ring
  · rw [blendAlpha_eq, blendAlpha_eq]; congr 1; ring

theorem zipWith_swap (g : ℝ → ℝ → ℝ) : ∀ (l₁ l₂ : List ℝ), List.zipWith g l₁ l₂ = List.zipWith (fun a b => g b a) l₂ l₁
  | [], l₂ => by cases l₂ <;> simp
  | _ :: _, [] => by simp
  | a :: l₁, b :: l₂ => by simp only [List.zipWith_cons_cons, zipWith_swap g l₁ l₂]

/-- whole colours: a commutative mode gives the same `PreAlpha` whichever layer is called the source -/
theorem blendSeparable_symm (m : Mode) (hm : Mode.commutative m = true) (s d : List ℝ) (αs αb : ℝ) :
    blendSeparable m.fn (BlendInput.ofAlpha (s, αs)) (BlendInput.ofAlpha (d, αb)) =
      blendSeparable m.fn (BlendInput.ofAlpha (d, αb)) (BlendInput.ofAlpha (s, αs)) := by
  unfold blendSeparable BlendInput.ofAlpha premultiply
  simp only []
  rw [blendList_ofAlpha, blendList_ofAlpha, (blend_symm m hm 0 αs 0 αb).2, zipWith_swap]
  congr 1
  congr 1
  funext a b
  exact ((blend_symm m hm b αs a αb).1).symm ▸ rfl

/-- **`plus` and `xor` are symmetric** (any premultiplied colours, any alphas) -/
theorem plus_symm (s αs d αb : ℝ) :
    Op.plus.comp αs αb s d = Op.plus.comp αb αs d s ∧ Op.plus.alpha αs αb = Op.plus.alpha αb αs := by
  constructor
  · rw [opComp_eq, opComp_eq]; ring
  · rw [opAlpha_unclamped, opAlpha_unclamped]; congr 1; ring
theorem xor_symm (s αs d αb : ℝ) :
    Op.xor.comp αs αb s d = Op.xor.comp αb αs d s ∧ Op.xor.alpha αs αb = Op.xor.alpha αb αs := by
  constructor
  · rw [opComp_eq, opComp_eq]; ring
  · rw [opAlpha_unclamped, opAlpha_unclamped]; congr 1; ring

/-- the other modes / operators are *not* symmetric (so the list above is exact): witnesses -/
theorem over_not_symm : Op.over.comp (1:ℝ) 1 1 0 ≠ Op.over.comp (1:ℝ) 1 0 1 := by
  rw [opComp_eq, opComp_eq]; norm_num

/-! ## 8. premultiply, then unpremultiply -/

/-- **`unpremultiply (premultiply c α) = (c, α)` whenever `α ≠ 0`** -/
theorem unpremultiply_premultiply (c : List ℝ) {a : ℝ} (ha : a ≠ 0) : unpremultiply (premultiply c a) = (c, a) := by
  unfold unpremultiply premultiply
  simp only []
  congr 1
  induction c with
  | nil => rfl
  | cons x c ih =>
    rw [List.map_cons, List.map_cons, ih, unpremulC_valid _ ha, mul_div_assoc, div_self ha, mul_one]

/-- **… and the zero colour (with alpha 0) when `α = 0`** -/
theorem unpremultiply_premultiply_zero (c : List ℝ) : unpremultiply (premultiply c 0) = (c.map (fun _ => 0), 0) := by
  unfold unpremultiply premultiply
  simp only []
  congr 1
  induction c with
  | nil => rfl
  | cons x c ih => rw [List.map_cons, List.map_cons, ih, unpremulC_zero, List.map_cons]

/-- more generally `unpremultiply` of *any* `PreAlpha` with alpha 0 is the zero colour -/
theorem unpremultiply_zero_alpha (p : List ℝ) : unpremultiply (p, (0:ℝ)) = (p.map (fun _ => 0), 0) := by
  unfold unpremultiply
  simp only []
  congr 1
  induction p with
  | nil => rfl
  | cons x c ih => rw [List.map_cons, ih, unpremulC_zero, List.map_cons]

/-- the other direction, for completeness: `premultiply (unpremultiply p) = p` for `α ≠ 0` -/
theorem premultiply_unpremultiply (p : List ℝ) {a : ℝ} (ha : a ≠ 0) :
    premultiply (unpremultiply (p, a)).1 (unpremultiply (p, a)).2 = (p, a) := by
  unfold unpremultiply premultiply
  simp only []
  congr 1
  induction p with
  | nil => rfl
  | cons x c ih => rw [List.map_cons, List.map_cons, ih, unpremulC_valid _ ha, div_mul_cancel₀ _ ha]

/-- non-vacuity / concrete instance: LinSrgb (0.2, 0.5, 1) at alpha 1/4 -/
example : unpremultiply (premultiply [(0.2 : ℝ), 0.5, 1] (1 / 4)) = ([0.2, 0.5, 1], 1 / 4) :=
  unpremultiply_premultiply _ (by norm_num)

/-! ## 9. the three input forms -/

theorem map_unpremulC_valid (l : List ℝ) {a : ℝ} (ha : a ≠ 0) :
    l.map (unpremulC (Scalar.isValidDivisor a) a) = l.map (fun x => x / a) := by
  induction l with
  | nil => rfl
  | cons x l ih => rw [List.map_cons, List.map_cons, ih, unpremulC_valid _ ha]

/-- **`impl Blend for Alpha<C,T>`**: straight colours in, straight colour out = the W3C premultiplied value divided by
    `αo = αs + αb − αs·αb` (when `αo ≠ 0`; when `αo = 0` the zero colour, by `unpremultiply_zero_alpha`) -/
theorem blendStraight_eq_w3c (m : Mode) (s d : List ℝ) {αs αb : ℝ}
    (hs : ∀ x ∈ s, 0 ≤ x ∧ x ≤ 1) (hd : ∀ x ∈ d, 0 ≤ x ∧ x ≤ 1)
    (ha0 : 0 ≤ αs) (ha1 : αs ≤ 1) (hc0 : 0 ≤ αb) (hc1 : αb ≤ 1) (hne : αs + αb - αs * αb ≠ 0) :
    blendStraight m.fn (s, αs) (d, αb) =
      ((List.zipWith (fun cs cb => W3C.blendCo (w3cB m) cs αs cb αb) s d).map (fun x => x / (αs + αb - αs * αb)),
        αs + αb - αs * αb) := by
  unfold blendStraight
  rw [blendSeparable_eq_w3c m s d hs hd ha0 ha1 hc0 hc1]
  unfold unpremultiply
  simp only []
  rw [map_unpremulC_valid _ hne]

/-- **`impl Compose for Alpha<C,T>`** likewise: Porter-Duff `co / αo` -/
theorem composeStraight_eq_porterDuff (op : Op) (hop : op ≠ .plus) (s d : List ℝ) {αs αb : ℝ}
    (ha0 : 0 ≤ αs) (ha1 : αs ≤ 1) (hc0 : 0 ≤ αb) (hc1 : αb ≤ 1) (hne : (pdOf op).αo αs αb ≠ 0) :
    composeStraight op (s, αs) (d, αb) =
      ((List.zipWith (fun cs cb => (pdOf op).co cs αs cb αb) s d).map (fun x => x / (pdOf op).αo αs αb),
        (pdOf op).αo αs αb) := by
  unfold composeStraight viaStraight
  simp only []
  rw [composePre_eq_porterDuff op hop s d ha0 ha1 hc0 hc1]
  unfold unpremultiply
  simp only []
  rw [map_unpremulC_valid _ hne]

/-- straight result of the five bounded operators is in [0,1] (`0 ≤ co ≤ αo`, `αo > 0`) -/
theorem compose_straight_range (op : Op) (hop : op ≠ .plus) {s αs d αb : ℝ}
    (hs0 : 0 ≤ s) (hs1 : s ≤ αs) (ha1 : αs ≤ 1) (hd0 : 0 ≤ d) (hd1 : d ≤ αb) (hc1 : αb ≤ 1) (hne : op.alpha αs αb ≠ 0) :
    0 ≤ op.comp αs αb s d / op.alpha αs αb ∧ op.comp αs αb s d / op.alpha αs αb ≤ 1 := by
  obtain ⟨r0, r1, _⟩ := compose_range op hop hs0 hs1 ha1 hd0 hd1 hc1
  have hpos : 0 < op.alpha αs αb := lt_of_le_of_ne (compose_alpha_range op αs αb).1 (Ne.symm hne)
  exact ⟨div_nonneg r0 hpos.le, (div_le_one hpos).mpr r1⟩


/-- `From<PreAlpha<C>> for BlendInput` recovers what `From<Alpha<C,T>>` builds directly, when `α ≠ 0`: the `PreAlpha` form of
    every blend mode on premultiplied inputs is the `Alpha` form before its final `unpremultiply` -/
theorem ofPre_premultiply (c : List ℝ) {a : ℝ} (ha : a ≠ 0) :
    BlendInput.ofPre (premultiply c a) = BlendInput.ofAlpha (c, a) := by
  unfold BlendInput.ofPre BlendInput.ofAlpha
  simp only [unpremultiply_premultiply c ha]
  rfl

theorem blendPre_premultiply (f : ℝ → ℝ → ℝ) (s d : List ℝ) {αs αb : ℝ} (hs : αs ≠ 0) (hb : αb ≠ 0) :
    blendPre f (premultiply s αs) (premultiply d αb) =
      blendSeparable f (BlendInput.ofAlpha (s, αs)) (BlendInput.ofAlpha (d, αb)) := by
  unfold blendPre; rw [ofPre_premultiply s hs, ofPre_premultiply d hb]

end C08

/-! ## law-free: statements that hold for *every* interpretation of the scalar operations, hence bit for bit for `f32`/`f64` -/
namespace C08.LawFree
open Blend
variable {α : Type} [Scalar α]

/-- the `Alpha` entry point of every blend mode is `unpremultiply ∘ blend_separable ∘ (premultiplied inputs)` -/
theorem blendStraight_def (f : α → α → α) (s d : WithAlpha α) :
    blendStraight f s d = unpremultiply (blendSeparable f (BlendInput.ofAlpha s) (BlendInput.ofAlpha d)) := rfl
/-- the opaque entry point is the colour part of the same thing on `new_opaque` inputs -/
theorem blendOpaque_def (f : α → α → α) (s d : List α) :
    blendOpaque f s d = (unpremultiply (blendSeparable f (BlendInput.newOpaque s) (BlendInput.newOpaque d))).1 := rfl
/-- `Compose for Alpha<C,T>` = premultiply both, operate on `PreAlpha`, unpremultiply -/
theorem composeStraight_def (op : Op) (s d : WithAlpha α) :
    composeStraight op s d = unpremultiply (composePre op (premultiply s.1 s.2) (premultiply d.1 d.2)) := rfl
/-- `Compose for C` = `new_opaque` both, operate, unpremultiply, drop the alpha -/
theorem composeOpaque_def (op : Op) (s d : List α) :
    composeOpaque op s d = (unpremultiply (composePre op (newOpaque s) (newOpaque d))).1 := rfl
/-- `blend_with` is the same wrapper around an arbitrary blend function, so `blend_with(compose op)` *is* the operator -/
theorem blendWith_compose (op : Op) (s d : WithAlpha α) : viaStraight (composePre op) s d = composeStraight op s d := rfl
theorem blendWith_compose_opaque (op : Op) (s d : List α) : viaOpaque (composePre op) s d = composeOpaque op s d := rfl
/-- overlay is hard-light with swapped arguments, whatever the arithmetic -/
theorem overlay_swap (s d : α) : overlayBlend s d = hardLightBlend d s := rfl
/-- `unpremultiply` never changes the alpha; `premultiply` stores it unchanged -/
theorem unpremultiply_alpha (p : WithAlpha α) : (unpremultiply p).2 = p.2 := rfl
theorem premultiply_alpha (c : List α) (a : α) : (premultiply c a).2 = a := rfl

end C08.LawFree
