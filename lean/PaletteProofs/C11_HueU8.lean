/-
  C11 — **float hue → 8-bit hue, for every `Float32` with |x| ≤ 2^20** (`FromAngle<f32> for u8`; theorems about the bit-level
  transcription `Hue.Bits.f32ToU8` that the driver runs against the implementation).  With `U = normU32 x` (the computed unsigned
  normal form, `−ulp x − 360·2^-149 ≤ U ≤ 360` by `normU32_range_all`) and `q = R32 (U/360)`:

      f32ToU8 x = codeQ q,     codeQ q = let r := ⌊256·q + ½⌋; if 256 ≤ r then 0 else r       (`f32ToU8_closed_form`)

  — the product `q·256` is exact, `round` is half away from zero, the test `rounded > 255.5` is `r = 256`, the final `as u8` is
  exact on `0..=255`; for the (at most one-ulp) negative normal forms `q ≤ 0`, `rounded` is `q·256` itself and `as u8` gives `0`,
  which `codeQ` reproduces.  Consequences, all for every such `x`:
    * the code is at most 255 (`f32ToU8_le_255`);
    * **nearest code**: for `U ≥ 0`, `r` is within `½ + 2^-16` of `256·U/360`, `0 ≤ r ≤ 256`, and the code is `r mod 256`
      (`f32ToU8_nearest_all`; one binary32 rounding of the quotient, scaled by 256);
    * **wrap at 255.5**: the code is `0` exactly when `r = 256`, i.e. when `256·q ≥ 255.5` (`f32ToU8_wrap`);
    * **monotone**: `U_x ≤ U_y` and `y` not wrapped imply `code x ≤ code y` (`f32ToU8_monotone_all`); on angles: for
      `0 ≤ x ≤ y < 359.296875` (floats), `normU32` is the identity and the code is monotone (`f32ToU8_monotone_angles`).
  `u8 → f32 → u8 = id` on all 256 codes is `C11_Hue.lean` (kernel evaluation).
-/
import PaletteProofs.C11_HueAll
import PaletteProofs.Lemmas.RoundHalf
import PaletteProofs.Lemmas.HueScan

namespace C11
open Hue.Bits Float.Model Float.Model.UnpackedFloat Ieee Ieee.F32

/-- the 8-bit code as a function of the rounded quotient -/
def codeQ (q : ℚ) : ℕ := if 256 ≤ ⌊256 * q + 1 / 2⌋ then 0 else ⌊256 * q + 1 / 2⌋.toNat

theorem codeQ_le (q : ℚ) : codeQ q ≤ 255 := by
  unfold codeQ; split_ifs with h
  · exact Nat.zero_le _
  · omega

theorem codeQ_mono {q q' : ℚ} (h : q ≤ q') (hw : ⌊256 * q' + 1 / 2⌋ < 256) : codeQ q ≤ codeQ q' := by
  have hfl : ⌊256 * q + 1 / 2⌋ ≤ ⌊256 * q' + 1 / 2⌋ := Int.floor_mono (by linarith)
  unfold codeQ
  rw [if_neg (by omega), if_neg (by omega)]
  exact Int.toNat_le_toNat hfl

theorem fin_c256f : IsFin c256f := rfl
theorem v_c256f : v c256f = 2^8 := by
  unfold v; rw [show U c256f = .finite .positive 0x800000 (-15) (by decide) from rfl]; norm_num [val, sgn]
def c2555 : Float32 := Float32.ofBits 0x437f8000
theorem fin_c2555 : IsFin c2555 := rfl
theorem v_c2555 : v c2555 = 511 / 2 := by
  unfold v; rw [show U c2555 = .finite .positive 0xff8000 (-16) (by decide) from rfl]; norm_num [val, sgn]

theorem f32ToU8_eq (x : Float32) : f32ToU8 x =
    if c2555 < Stim.round32 ((normU32 x / c360f) * c256f) then 0
    else (Stim.round32 ((normU32 x / c360f) * c256f)).toUInt8.toNat := rfl

/-- `as u8` of a finite non-positive float is `0` -/
theorem toUInt8_nonpos {x : Float32} (hx : IsFin x) (h : v x ≤ 0) : x.toUInt8.toNat = 0 := by
  show (UnpackedFloat.toUInt8 (U x)).toNat = 0
  unfold UnpackedFloat.toUInt8
  have := toInt_of_nonpos hx h 0 (UInt8.size - 1)
  have h0 : ((U x).toInt 0 (UInt8.size - 1)).toNat = 0 := by omega
  rw [h0]; rfl

/-- the pipeline after the normal form, on variable floats -/
theorem u8_pipe {u c360 c256 c255 : Float32} (fu : IsFin u) (hu0 : -1 ≤ v u) (hu1 : v u ≤ 360)
    (f360 : IsFin c360) (v360 : v c360 = 360) (f256 : IsFin c256) (v256 : v c256 = 2^8)
    (f255 : IsFin c255) (v255 : v c255 = 511 / 2) :
    (if c255 < Stim.round32 ((u / c360) * c256) then 0 else (Stim.round32 ((u / c360) * c256)).toUInt8.toNat) =
      codeQ (R32 (v u / 360)) := by
  have habs : |v u / 360| ≤ 1 := by
    rw [abs_le]; constructor
    · rw [le_div_iff₀ (by norm_num)]; linarith
    · rw [div_le_iff₀ (by norm_num)]; linarith
  obtain ⟨fq, vq⟩ := div_of_le fu f360 (by rw [v360]; norm_num) (n := 1) (by norm_num) (by rw [v360]; simpa using habs)
  rw [v360] at vq
  set q := R32 (v u / 360) with hq
  have hq1 : |q| ≤ 1 := by
    have := R32_abs_le_nat (n := 1) (by norm_num) (by simpa using habs)
    simpa using this
  have hq1' := abs_le.mp hq1
  obtain ⟨fp, vp⟩ := mul_of_le fq f256 (n := 256) (by norm_num) (by
    rw [vq, v256, abs_mul]; norm_num; linarith)
  rw [v256, R32_scale_up fq 8, vq] at vp
  have vp' : v ((u / c360) * c256) = 256 * q := by rw [vp]; norm_num; ring
  unfold codeQ
  rcases lt_or_ge q 0 with hneg | hpos
  · -- a negative quotient: `round` returns its argument, `as u8` gives 0
    have hpneg : v ((u / c360) * c256) < 0 := by rw [vp']; linarith
    rw [StimSpec.round32_neg fp hpneg]
    have hnlt : ¬ c255 < (u / c360) * c256 := by
      intro h; have := (lt_iff f255 fp).mp h; rw [v255] at this; linarith
    rw [if_neg hnlt, toUInt8_nonpos fp hpneg.le]
    have hfl : ⌊256 * q + 1 / 2⌋ ≤ 0 := by
      rw [← Int.lt_add_one_iff, Int.floor_lt]; push_cast; linarith
    rw [if_neg (by omega)]; omega
  · obtain ⟨fr, vr⟩ := StimSpec.round32_spec fp (by rw [vp']; linarith)
    rw [vp'] at vr
    have hfl0 : 0 ≤ ⌊256 * q + 1 / 2⌋ := Int.floor_nonneg.mpr (by linarith)
    have hfl1 : ⌊256 * q + 1 / 2⌋ ≤ 256 := by
      have : ⌊256 * q + 1 / 2⌋ ≤ ⌊((256 : ℤ) : ℚ) + 1 / 2⌋ := Int.floor_mono (by push_cast; linarith)
      rwa [StimSpec.floor_add_half_int] at this
    by_cases hw : 256 ≤ ⌊256 * q + 1 / 2⌋
    · rw [if_pos hw, if_pos]
      rw [lt_iff f255 fr, v255, vr]
      have : ((256 : ℤ) : ℚ) ≤ (⌊256 * q + 1 / 2⌋ : ℚ) := by exact_mod_cast hw
      push_cast at this; linarith
    · rw [if_neg hw, if_neg]
      · apply StimSpec.toUInt8_nat fr _ (by omega)
        rw [vr]
        have : ((⌊256 * q + 1 / 2⌋.toNat : ℕ) : ℤ) = ⌊256 * q + 1 / 2⌋ := by omega
        exact_mod_cast this.symm
      · rw [lt_iff f255 fr, v255, vr, not_lt]
        have : (⌊256 * q + 1 / 2⌋ : ℚ) ≤ ((255 : ℤ) : ℚ) := by exact_mod_cast (by omega : ⌊256 * q + 1 / 2⌋ ≤ 255)
        push_cast at this; linarith

/-- the spacing of binary32 at an angle of magnitude at most `2^20` is at most `2^-3` -/
theorem ulp32_le_of_abs_le {X : ℚ} (h : |X| ≤ 2^20) : ulp32 X ≤ 2^(-3 : ℤ) := by
  unfold ulp32 ulp
  split_ifs with h0
  · exact zpow_le_zpow_right₀ (by norm_num) (by norm_num)
  · apply zpow_le_zpow_right₀ (by norm_num)
    have h1 : texp 24 (-149) X ≤ texp 24 (-149) ((2 : ℚ)^(20 : ℤ)) :=
      texp_mono_abs h0 (by rw [abs_of_pos (a := (2 : ℚ)^(20 : ℤ)) (by positivity)]; exact_mod_cast h)
    have h2 : texp 24 (-149) ((2 : ℚ)^(20 : ℤ)) = -3 := by
      unfold texp
      rw [abs_of_pos (by positivity), show ((2 : ℚ)^(20 : ℤ)) = (((2 : ℕ) : ℚ))^(20 : ℤ) by norm_num, Int.log_zpow (by norm_num)]
      norm_num
    omega

theorem normU32_ge_neg_one {x : Float32} (hx : IsFin x) (hb : |v x| ≤ 2^20) : -1 ≤ v (normU32 x) := by
  have h := (normU32_range_all x hx hb).1
  have h1 := ulp32_le_of_abs_le hb
  have h2 : (360 : ℚ) * 2^(-149 : ℤ) ≤ 1 / 2 := by
    have : (2 : ℚ)^(-149 : ℤ) ≤ 2^(-10 : ℤ) := zpow_le_zpow_right₀ (by norm_num) (by norm_num)
    have e : (2 : ℚ)^(-10 : ℤ) = 1 / 1024 := by norm_num
    rw [e] at this; linarith
  have h3 : ulp32 (v x) ≤ 1 / 8 := by
    have e : (2 : ℚ)^(-3 : ℤ) = 1 / 8 := by norm_num
    rw [← e]; exact h1
  generalize ulp32 (v x) = a at h h3
  generalize (360 : ℚ) * 2^(-149 : ℤ) = b at h h2
  linarith

/-- **closed form of the float → `u8` hue conversion** -/
theorem f32ToU8_closed_form : ∀ x : Float32, IsFin x → |v x| ≤ 2^20 → f32ToU8 x = codeQ (R32 (v (normU32 x) / 360)) := by
  intro x hx hb
  rw [f32ToU8_eq]
  exact u8_pipe (normU32_closed_form hx hb).1 (normU32_ge_neg_one hx hb) (normU32_range_all x hx hb).2
    fin_c360f v_c360f fin_c256f v_c256f fin_c2555 v_c2555

/-- the circle is mapped onto `0..=255` -/
theorem f32ToU8_le_255 : ∀ x : Float32, IsFin x → |v x| ≤ 2^20 → f32ToU8 x ≤ 255 := by
  intro x hx hb; rw [f32ToU8_closed_form x hx hb]; exact codeQ_le _

/-- **nearest code**: the code is `r mod 256` for an integer `r ∈ [0, 256]` within `½ + 2^-16` of `256·U/360` -/
theorem f32ToU8_nearest_all : ∀ x : Float32, IsFin x → |v x| ≤ 2^20 → 0 ≤ v (normU32 x) →
    ∃ r : ℤ, 0 ≤ r ∧ r ≤ 256 ∧ |(r : ℚ) - 256 * (v (normU32 x) / 360)| ≤ 1 / 2 + 2^(-16 : ℤ) ∧
      f32ToU8 x = (if 256 ≤ r then 0 else r.toNat) := by
  intro x hx hb h0
  have h1 := (normU32_range_all x hx hb).2
  set Uv := v (normU32 x) with hU
  have hz0 : 0 ≤ Uv / 360 := by positivity
  have hz1 : Uv / 360 ≤ 1 := by rw [div_le_iff₀ (by norm_num)]; linarith
  set q := R32 (Uv / 360) with hq
  have hq0 : 0 ≤ q := R_nonneg hz0
  have hq1 : q ≤ 1 := by
    have := R32_mono hz1
    rwa [show (1 : ℚ) = ((1 : ℕ) : ℚ) by norm_num, R32_natCast (by norm_num)] at this
  have herr : |q - Uv / 360| ≤ 2^(-24 : ℤ) := by
    have := R_error_le (p := 24) (emin := -149) (x := Uv / 360) (k := 1) (by rw [abs_of_nonneg hz0]; norm_num; linarith)
    have e : max ((1 : ℤ) - ((24 : ℕ) : ℤ)) (-149) = -23 := by norm_num
    rw [e] at this
    calc _ ≤ (2 : ℚ)^(-23 : ℤ) / 2 := this
      _ = 2^(-24 : ℤ) := by norm_num
  refine ⟨⌊256 * q + 1 / 2⌋, Int.floor_nonneg.mpr (by linarith), ?_, ?_, ?_⟩
  · have : ⌊256 * q + 1 / 2⌋ ≤ ⌊((256 : ℤ) : ℚ) + 1 / 2⌋ := Int.floor_mono (by push_cast; linarith)
    rwa [StimSpec.floor_add_half_int] at this
  · have hfl0 := Int.floor_le (256 * q + 1 / 2)
    have hfl1 := Int.lt_floor_add_one (256 * q + 1 / 2)
    have herr' := abs_le.mp herr
    have e16 : (2 : ℚ)^(-16 : ℤ) = 256 * 2^(-24 : ℤ) := by norm_num
    rw [e16, abs_le]; constructor <;> linarith [herr'.1, herr'.2]
  · rw [f32ToU8_closed_form x hx hb]; rfl

/-- **wrap at 255.5**: the code is the integer `⌊256 q + ½⌋` itself below the threshold, and `0` from `256·q ≥ 255.5` on -/
theorem f32ToU8_wrap : ∀ x : Float32, IsFin x → |v x| ≤ 2^20 →
    (511 / 2 ≤ 256 * R32 (v (normU32 x) / 360) → f32ToU8 x = 0) ∧
    (256 * R32 (v (normU32 x) / 360) < 511 / 2 → f32ToU8 x = ⌊256 * R32 (v (normU32 x) / 360) + 1 / 2⌋.toNat) := by
  intro x hx hb
  rw [f32ToU8_closed_form x hx hb]; unfold codeQ
  constructor
  · intro h
    rw [if_pos]; rw [Int.le_floor]; push_cast; linarith
  · intro h
    rw [if_neg]; rw [not_le, Int.floor_lt]; push_cast; linarith

/-- **monotone in the normal form, up to the wrap** -/
theorem f32ToU8_monotone_all : ∀ x y : Float32, IsFin x → |v x| ≤ 2^20 → IsFin y → |v y| ≤ 2^20 →
    v (normU32 x) ≤ v (normU32 y) → 256 * R32 (v (normU32 y) / 360) < 511 / 2 → f32ToU8 x ≤ f32ToU8 y := by
  intro x y hx hbx hy hby hle hw
  rw [f32ToU8_closed_form x hx hbx, f32ToU8_closed_form y hy hby]
  apply codeQ_mono
  · exact R32_mono (div_le_div_of_nonneg_right hle (by norm_num))
  · rw [Int.floor_lt]; push_cast; linarith

/-! ### on angles in `[0, 359.296875)` -/

/-- below the wrap angle the quotient does not reach one turn and the unsigned normal form is the angle itself -/
theorem normU32_id {x : Float32} (hx : IsFin x) (h0 : 0 ≤ v x) (h1 : v x ≤ 359.296875) : v (normU32 x) = v x := by
  have hb : |v x| ≤ 2^20 := by rw [abs_of_nonneg h0]; norm_num at h1 ⊢; linarith
  obtain ⟨_, hcf, _⟩ := normU32_closed_form hx hb
  have hc : R32 ((511 : ℚ) / 512) = 511 / 512 := by
    have := R_fix (p := spec.mantissaBits) (emin := spec.minExponent) (n := 511) (t := -9) (by decide) (by decide)
    norm_num at this ⊢; exact this
  have hq0 : 0 ≤ R32 (v x / 360) := R_nonneg (by positivity)
  have hq1 : R32 (v x / 360) ≤ 511 / 512 := by
    have := R32_mono (show v x / 360 ≤ 511 / 512 by rw [div_le_iff₀ (by norm_num)]; norm_num at h1 ⊢; linarith)
    rwa [hc] at this
  have hk : ⌊R32 (v x / 360)⌋ = 0 := by
    rw [Int.floor_eq_iff]; constructor
    · simpa using hq0
    · norm_num; linarith
  rw [hcf, hk]
  simp only [Int.cast_zero, mul_zero, sub_zero]
  exact R_val_of_canon spec (canon_U x)

/-- a float below `359.296875 = 11773·2^-5` (spacing `2^-15` there) is at most `359.296875 − 2^-15` -/
theorem le_pred_wrap {y : Float32} (hy : IsFin y) (h : v y < 359.296875) : v y ≤ 359.296875 - 2^(-15 : ℤ) := by
  rcases le_or_gt (v y) 256 with hs | hs
  · norm_num at hs ⊢; linarith
  have hc := canon_U y
  unfold IsFin v at *
  cases hu : U y <;> rw [hu] at hy hc h hs <;> simp only [UnpackedFloat.isFinite, Bool.false_eq_true] at hy
  · simp [val] at hs; norm_num at hs
  · rename_i s m e hm
    cases s
    · rw [val_neg_eq] at hs; have := mag_pos hm e; linarith
    · rw [val_pos_eq] at h hs ⊢
      have cm : CanonME spec m e := hc
      have c256 : CanonME spec (2^23) (-15) := ⟨by decide, by decide, Or.inr (Or.inl (by decide))⟩
      have cT : CanonME spec 11773440 (-15) := ⟨by decide, by decide, Or.inr (Or.inl (by decide))⟩
      have h256 : mag (2^23) (-15) = 256 := by unfold mag; norm_num
      have hT : mag 11773440 (-15) = 359.296875 := by unfold mag; norm_num
      obtain ⟨e1, _⟩ := grid c256 cm (by norm_num) (by rw [h256]; exact hs)
      obtain ⟨e2, hg⟩ := grid cm cT hm (by rw [hT]; exact h)
      have he : e = -15 := by omega
      subst he
      rw [hT] at hg; linarith

/-- **monotone on the angles below the wrap point**: `0 ≤ x ≤ y < 359.296875` ⟹ `code x ≤ code y` -/
theorem f32ToU8_monotone_angles : ∀ x y : Float32, IsFin x → IsFin y → 0 ≤ v x → v x ≤ v y → v y < 359.296875 →
    f32ToU8 x ≤ f32ToU8 y := by
  intro x y hx hy h0 hxy hyT
  have hy' := le_pred_wrap hy hyT
  have hbx : |v x| ≤ 2^20 := by rw [abs_of_nonneg h0]; norm_num at hyT ⊢; linarith
  have hby : |v y| ≤ 2^20 := by rw [abs_of_nonneg (le_trans h0 hxy)]; norm_num at hyT ⊢; linarith
  have hnx := normU32_id hx h0 (by linarith)
  have hny := normU32_id hy (le_trans h0 hxy) hyT.le
  apply f32ToU8_monotone_all x y hx hbx hy hby (by rw [hnx, hny]; exact hxy)
  rw [hny]
  -- y/360 ≤ 511/512 − 2^-24, a float
  have hc : R32 ((511 : ℚ) / 512 - 2^(-24 : ℤ)) = 511 / 512 - 2^(-24 : ℤ) := by
    have := R_fix (p := spec.mantissaBits) (emin := spec.minExponent) (n := 511 * 2^15 - 1) (t := -24) (by decide) (by decide)
    norm_num at this ⊢; exact this
  have hle : v y / 360 ≤ 511 / 512 - 2^(-24 : ℤ) := by
    rw [div_le_iff₀ (by norm_num)]; norm_num at hy' ⊢; linarith
  have := R32_mono hle
  rw [hc] at this
  norm_num at this ⊢; linarith

example : IsFin (Float32.ofBits 0x43b3a600) ∧ v (Float32.ofBits 0x43b3a600) = 359.296875 := by
  refine ⟨rfl, ?_⟩
  unfold v; rw [show U (Float32.ofBits 0x43b3a600) = .finite .positive 0xb3a600 (-15) (by decide) from rfl]; norm_num [val, sgn]

end C11
