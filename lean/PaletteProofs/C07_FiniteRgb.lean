/-
  C07, RGB family continued: `Rgb<S₂> → Rgb<S₁>` and the `Luma` edges **as whole functions**, for every standard of the generated
  tables at once.

  `C07_Finite.lean` proves the pieces (`intoLinear_ok`, `fromLinear_ok`, `mulVec_lift`, `rgbToXyz_finite`, `xyzToRgb_finite_partial`)
  and instantiates them for the sRGB tables only (hypothesis `hm`: "every matrix entry evaluates").  Here:

  * `eval_safe`: a constant expression none of whose divisions is by a zero constant (`KSafe`, a kernel-decidable check over ℚ) reads
    at `PReal` as `ok` of its real value; `tables_safe`, `whitePoints_safe`: **all** generated RGB tables and white points pass
    (the DCI-P3 white point is the only one written with divisions, `0.314/0.351`);  so `hm` holds for every table
    (`ofK_safe`, `std_tables`), and every white point is a real colour at `PReal` (`whitePoint_real`);
  * `intoLinear_nonneg`: every transfer function maps `x ≥ 0` to a linear value `≥ 0` (all seven curves);
  * `rgbToRgb_finite`: for any two standards with safe tables, the three arms of `Rgb → Rgb` (same standard: reinterpret; same
    primaries: curves only; else through XYZ) are finite when the *target* curve is piecewise (sRGB, Rec.709/2020, ProPhoto, linear) and
    the source is piecewise or the colour has components `≥ 0`;  `rgbToRgb_sameSpace_finite`: the same-primaries arm for *any* two
    curves on components `≥ 0` (e.g. `Srgb ↔ GammaSrgb`, `AdobeRgb ↔ LinAdobeRgb`).  The remaining case — a pure power law as target of
    the XYZ arm — is where the findings powlaw-nan / powlaw-nan-out-of-gamut live (`xyzToRgb_finite_partial`, `dciP3_roundtrip_poison`);
  * `rgbToRgb_std_finite`: the statement for standards looked up by name (`Std.of?`), no table hypothesis left;
  * the `Luma` edges: `lumaToLuma`, `xyzToLuma`, `yxyToLuma`, `lumaToXyz`, `lumaToYxy`, `lumaToRgb`.
-/
import PaletteProofs.C07_Finite
import PaletteProofs.Lemmas.KRatCast

set_option linter.unusedSimpArgs false
set_option linter.unusedVariables false

namespace C07
open PReal

/-! ## constants at `PReal` -/

/-- no division by a constant that is zero (decided over ℚ) -/
def KSafe : K → Bool
  | .lit _ _ _ => true
  | .add a b => KSafe a && KSafe b
  | .sub a b => KSafe a && KSafe b
  | .mul a b => KSafe a && KSafe b
  | .neg a => KSafe a
  | .div a b => KSafe a && KSafe b && decide (KRat.toRat b ≠ 0)

/-- a safe constant expression is `ok` of its real value -/
theorem eval_safe (k : K) (h : KSafe k = true) : (K.eval k : PReal) = ok (K.eval k : ℝ) := by
  induction k with
  | lit m s e => rfl
  | add a b iha ihb =>
    simp only [KSafe, Bool.and_eq_true] at h
    show (K.eval a : PReal) + K.eval b = ok ((K.eval a : ℝ) + K.eval b)
    rw [iha h.1, ihb h.2]; rfl
  | sub a b iha ihb =>
    simp only [KSafe, Bool.and_eq_true] at h
    show (K.eval a : PReal) - K.eval b = ok ((K.eval a : ℝ) - K.eval b)
    rw [iha h.1, ihb h.2]; rfl
  | mul a b iha ihb =>
    simp only [KSafe, Bool.and_eq_true] at h
    show (K.eval a : PReal) * K.eval b = ok ((K.eval a : ℝ) * K.eval b)
    rw [iha h.1, ihb h.2]; rfl
  | neg a iha =>
    simp only [KSafe] at h
    show -(K.eval a : PReal) = ok (-(K.eval a : ℝ))
    rw [iha h]; rfl
  | div a b iha ihb =>
    simp only [KSafe, Bool.and_eq_true, decide_eq_true_eq] at h
    show (K.eval a : PReal) / K.eval b = ok ((K.eval a : ℝ) / K.eval b)
    have hb : (K.eval b : ℝ) ≠ 0 := by
      rw [← KRatCast.toRat_cast]; exact_mod_cast h.2
    rw [iha h.1.1, ihb h.1.2, div_some_of_ne _ _ hb]

theorem const_safe (k : K) (h : KSafe k = true) : (Scalar.const k : PReal) = ok (Scalar.const k : ℝ) := eval_safe k h

/-- a real matrix read at `PReal` -/
def liftM (m : M3 ℝ) : M3 PReal := ⟨ok m.m0, ok m.m1, ok m.m2, ok m.m3, ok m.m4, ok m.m5, ok m.m6, ok m.m7, ok m.m8⟩

/-- `matrix_map(m, T::from_f64)` of a safe table is a real matrix -/
theorem ofK_safe (km : List K) (h : km.all KSafe = true) : (M3.ofK km : M3 PReal) = liftM (M3.ofK km : M3 ℝ) := by
  unfold M3.ofK
  split
  · rename_i a b c d e f g h' i
    simp only [List.all_cons, List.all_nil, Bool.and_true, Bool.and_eq_true] at h
    obtain ⟨ha, hb, hc, hd, he, hf, hg, hh, hi⟩ := h
    simp only [liftM, const_safe _ ha, const_safe _ hb, const_safe _ hc, const_safe _ hd, const_safe _ he, const_safe _ hf, const_safe _ hg,
      const_safe _ hh, const_safe _ hi]
  · rfl

theorem v3OfK_safe (ks : List K) (h : ks.all KSafe = true) : (Color.v3OfK ks : V3 PReal) = (Color.v3OfK ks : V3 ℝ).lift := by
  unfold Color.v3OfK
  split
  · rename_i a b c
    simp only [List.all_cons, List.all_nil, Bool.and_true, Bool.and_eq_true] at h
    obtain ⟨ha, hb, hc⟩ := h
    simp only [V3.lift, const_safe _ ha, const_safe _ hb, const_safe _ hc]
  · rfl

/-- **every generated RGB table is safe** (kernel evaluation over `Gen.Mat.rgbSpaces`, regenerated from `encoding/*.rs` on every run) -/
theorem tables_safe : Gen.Mat.rgbSpaces.all (fun d => d.2.2.1.all KSafe && d.2.2.2.1.all KSafe) = true := by decide +kernel

/-- **every generated white point is safe** (16 white points; DCI-P3's is written as `0.314/0.351`, `1`, `0.335/0.351`) -/
theorem whitePoints_safe : Gen.Mat.whitePoints.all (fun w => w.2.all KSafe) = true := by decide +kernel

/-- every white point is a real colour at `PReal` -/
theorem whitePoint_real (name : String) : (Color.whitePoint name : V3 PReal) = (Color.whitePoint name : V3 ℝ).lift := by
  unfold Color.whitePoint
  cases hf : Gen.Mat.whitePoints.find? (·.1 == name) with
  | none => rfl
  | some w =>
    have hm := List.mem_of_find?_eq_some hf
    have := List.all_eq_true.mp whitePoints_safe w hm
    exact v3OfK_safe w.2 this

/-- the two tables of a standard resolved by name are safe -/
theorem std_tables (name : String) (s : RgbFam.Std) (h : RgbFam.Std.of? name = some s) :
    s.toXyz.all KSafe = true ∧ s.fromXyz.all KSafe = true := by
  unfold RgbFam.Std.of? at h
  cases hs : Color.standard? name with
  | none => rw [hs] at h; cases h
  | some st =>
    obtain ⟨sp, tf⟩ := st
    rw [hs] at h
    simp only at h
    unfold Color.rgbSpace? at h
    cases hf : Gen.Mat.rgbSpaces.find? (·.1 == sp) with
    | none => rw [hf] at h; cases h
    | some d =>
      rw [hf] at h
      obtain ⟨n, w, a, b, p⟩ := d
      simp only [Option.map_some] at h
      have hm := List.mem_of_find?_eq_some hf
      have := List.all_eq_true.mp tables_safe _ hm
      simp only [Bool.and_eq_true] at this
      cases h
      exact this

/-! ## transfer functions keep `x ≥ 0` non-negative -/

theorem powf_pos_ex (a b : ℝ) (ha : 0 < a) : ∃ r, 0 ≤ r ∧ Scalar.powf (ok a) (ok b) = ok r :=
  ⟨_, Real.rpow_nonneg ha.le _, powf_some_of_pos _ _ ha⟩

theorem intoLinear_nonneg (tf : Transfer.Fn) (x : ℝ) (h : 0 ≤ x) : ∃ r, 0 ≤ r ∧ Transfer.intoLinear tf (ok x) = ok r := by
  cases tf <;> simp only [Transfer.intoLinear]
  · unfold Transfer.srgbIntoLinear
    norm_num
    split_ifs with hx
    · exact ⟨_, by positivity, rfl⟩
    · exact powf_pos_ex _ _ (by positivity)
  · unfold Transfer.recIntoLinear Transfer.ALPHA Transfer.BETA
    norm_num
    split_ifs with hx
    · exact ⟨_, by positivity, rfl⟩
    · exact powf_pos_ex _ _ (by positivity)
  · unfold Transfer.adobeIntoLinear; norm_num
    rw [powf_some_of_nonneg_pos _ _ h (by norm_num)]; exact ⟨_, Real.rpow_nonneg h _, rfl⟩
  · unfold Transfer.p3IntoLinear; norm_num
    rw [powf_some_of_nonneg_pos _ _ h (by norm_num)]; exact ⟨_, Real.rpow_nonneg h _, rfl⟩
  · unfold Transfer.prophotoIntoLinear
    norm_num
    split_ifs with hx
    · exact ⟨_, by positivity, rfl⟩
    · rw [powf_some_of_nonneg_pos _ _ h (by norm_num)]; exact ⟨_, Real.rpow_nonneg h _, rfl⟩
  · unfold Transfer.gammaIntoLinear; norm_num
    rw [powf_some_of_nonneg_pos _ _ h (by norm_num)]; exact ⟨_, Real.rpow_nonneg h _, rfl⟩
  · exact ⟨x, h, rfl⟩

/-! ## `Rgb → Xyz`, `Xyz → Rgb` for any safe table -/

theorem rgbToXyz_finite_safe (km : List K) (tf : Transfer.Fn) (c : V3 ℝ) (hk : km.all KSafe = true)
    (h : totalCurve tf = true ∨ (0 ≤ c.c0 ∧ 0 ≤ c.c1 ∧ 0 ≤ c.c2)) : (RgbFam.rgbToXyz km tf c.lift).Finite :=
  rgbToXyz_finite km (M3.ofK km) tf c (ofK_safe km hk) h

theorem xyzToRgb_finite_safe (km : List K) (tf : Transfer.Fn) (c : V3 ℝ) (hk : km.all KSafe = true) (h : totalCurve tf = true) :
    (RgbFam.xyzToRgb km tf c.lift).Finite :=
  xyzToRgb_finite_partial km (M3.ofK km) tf c (ofK_safe km hk) (Or.inl h)

/-! ## `Rgb<S₂> → Rgb<S₁>` as a whole function -/

/-- the same-primaries arm, any two curves, components `≥ 0`: decode gives `≥ 0`, every curve encodes `≥ 0` -/
theorem curves_only_finite (tfs tfd : Transfer.Fn) (c : V3 ℝ) (h : (totalCurve tfs = true ∧ totalCurve tfd = true) ∨ (0 ≤ c.c0 ∧ 0 ≤ c.c1 ∧ 0 ≤ c.c2)) :
    (RgbFam.fromLinear tfd (RgbFam.intoLinear tfs c.lift)).Finite := by
  unfold RgbFam.fromLinear RgbFam.intoLinear V3.map V3.lift
  rcases h with ⟨hs, hd⟩ | ⟨h0, h1, h2⟩
  · obtain ⟨r, hr⟩ := intoLinear_ok tfs c.c0 (Or.inl hs)
    obtain ⟨g, hg⟩ := intoLinear_ok tfs c.c1 (Or.inl hs)
    obtain ⟨b, hb⟩ := intoLinear_ok tfs c.c2 (Or.inl hs)
    obtain ⟨r', hr'⟩ := fromLinear_ok tfd r (Or.inl hd)
    obtain ⟨g', hg'⟩ := fromLinear_ok tfd g (Or.inl hd)
    obtain ⟨b', hb'⟩ := fromLinear_ok tfd b (Or.inl hd)
    simp only [hr, hg, hb, hr', hg', hb']
    exact V3.finite_mk _ _ _
  · obtain ⟨r, hr0, hr⟩ := intoLinear_nonneg tfs c.c0 h0
    obtain ⟨g, hg0, hg⟩ := intoLinear_nonneg tfs c.c1 h1
    obtain ⟨b, hb0, hb⟩ := intoLinear_nonneg tfs c.c2 h2
    obtain ⟨r', hr'⟩ := fromLinear_ok tfd r (Or.inr hr0)
    obtain ⟨g', hg'⟩ := fromLinear_ok tfd g (Or.inr hg0)
    obtain ⟨b', hb'⟩ := fromLinear_ok tfd b (Or.inr hb0)
    simp only [hr, hg, hb, hr', hg', hb']
    exact V3.finite_mk _ _ _

/-- **`Rgb → Rgb`, all three arms**, for two standards with safe tables: finite when the target curve is piecewise (sRGB, Rec.709/2020,
    ProPhoto, linear) and the source curve is piecewise or the components are `≥ 0` -/
theorem rgbToRgb_finite (src dst : RgbFam.Std) (c : V3 ℝ) (hks : src.toXyz.all KSafe = true) (hkd : dst.fromXyz.all KSafe = true)
    (hdst : totalCurve dst.tf = true) (hsrc : totalCurve src.tf = true ∨ (0 ≤ c.c0 ∧ 0 ≤ c.c1 ∧ 0 ≤ c.c2)) :
    (RgbFam.rgbToRgb src dst c.lift).Finite := by
  unfold RgbFam.rgbToRgb
  split_ifs with h1 h2
  · exact ⟨c, rfl⟩
  · exact curves_only_finite src.tf dst.tf c (hsrc.imp (fun h => ⟨h, hdst⟩) id)
  · obtain ⟨r, hr⟩ := rgbToXyz_finite_safe src.toXyz src.tf c hks hsrc
    rw [hr]
    exact xyzToRgb_finite_safe dst.fromXyz dst.tf r hkd hdst

/-- the same-primaries arm for **any** two curves on the documented range (components `≥ 0`): `Srgb ↔ GammaSrgb`, `AdobeRgb ↔
    LinAdobeRgb`, `DciP3 ↔ LinDciP3`, … -/
theorem rgbToRgb_sameSpace_finite (src dst : RgbFam.Std) (c : V3 ℝ) (hsp : (src.space == dst.space) = true)
    (h0 : 0 ≤ c.c0) (h1 : 0 ≤ c.c1) (h2 : 0 ≤ c.c2) : (RgbFam.rgbToRgb src dst c.lift).Finite := by
  unfold RgbFam.rgbToRgb
  split_ifs with h
  · exact ⟨c, rfl⟩
  · exact curves_only_finite src.tf dst.tf c (Or.inr ⟨h0, h1, h2⟩)

/-- FULL STATEMENT (false, findings powlaw-nan-C07 / powlaw-nan-out-of-gamut-C07): for every pair of standards and every in-range colour
    `(rgbToRgb src dst c.lift).Finite`.  Proved: the XYZ arm towards a pure power law under the hypothesis that the recovered linear
    components are `≥ 0` — exactly what the 7-digit matrices do not guarantee (`dciP3_roundtrip_poison`, `srgb_blue_to_adobe_poison`). -/
theorem rgbToRgb_finite_partial (src dst : RgbFam.Std) (c : V3 ℝ) (hks : src.toXyz.all KSafe = true) (hkd : dst.fromXyz.all KSafe = true)
    (hsrc : totalCurve src.tf = true ∨ (0 ≤ c.c0 ∧ 0 ≤ c.c1 ∧ 0 ≤ c.c2))
    (hlin : ∀ r : V3 ℝ, RgbFam.rgbToXyz src.toXyz src.tf c.lift = r.lift →
      0 ≤ ((M3.ofK dst.fromXyz : M3 ℝ).mulVec r).c0 ∧ 0 ≤ ((M3.ofK dst.fromXyz : M3 ℝ).mulVec r).c1 ∧ 0 ≤ ((M3.ofK dst.fromXyz : M3 ℝ).mulVec r).c2)
    (hne : (src.name == dst.name) = false) (hsp : (src.space == dst.space) = false) :
    (RgbFam.rgbToRgb src dst c.lift).Finite := by
  unfold RgbFam.rgbToRgb
  rw [if_neg (by rw [hne]; exact Bool.false_ne_true), if_neg (by rw [hsp]; exact Bool.false_ne_true)]
  obtain ⟨r, hr⟩ := rgbToXyz_finite_safe src.toXyz src.tf c hks hsrc
  rw [hr]
  exact xyzToRgb_finite_partial dst.fromXyz (M3.ofK dst.fromXyz) dst.tf r (ofK_safe _ hkd) (Or.inr (hlin r hr))

theorem V3.lift_inj {a b : V3 ℝ} (h : a.lift = b.lift) : a = b := by
  cases a; cases b
  simp only [V3.lift, V3.mk.injEq, some_inj'] at h
  obtain ⟨h0, h1, h2⟩ := h
  subst h0 h1 h2; rfl

/-- non-vacuity of `rgbToRgb_finite_partial`: mid grey from linear sRGB to Adobe RGB (a power-law target through XYZ): the recovered
    linear Adobe components are `≈ 0.5 > 0` -/
example : ∃ src dst, RgbFam.Std.of? "LinSrgb" = some src ∧ RgbFam.Std.of? "AdobeRgb" = some dst ∧
    (RgbFam.rgbToRgb src dst (⟨0.5, 0.5, 0.5⟩ : V3 ℝ).lift).Finite := by
  refine ⟨_, _, rfl, rfl, ?_⟩
  apply rgbToRgb_finite_partial _ _ _ (std_tables "LinSrgb" _ rfl).1 (std_tables "AdobeRgb" _ rfl).2 (Or.inl rfl) _ rfl rfl
  intro r hr
  have e : RgbFam.rgbToXyz srgbToXyz .linear (⟨0.5, 0.5, 0.5⟩ : V3 ℝ).lift
      = ((M3.ofK srgbToXyz : M3 ℝ).mulVec ⟨0.5, 0.5, 0.5⟩).lift := by
    unfold RgbFam.rgbToXyz RgbFam.intoLinear V3.map
    rw [srgbToXyz_lit]
    simp only [V3.lift, Transfer.intoLinear, M3.mulVec, M3.ofK, srgbToXyz, id, mul_some, add_some, RealScalar.const_eq, RealScalar.eval_ofSci]
  have hr' : RgbFam.rgbToXyz srgbToXyz .linear (⟨0.5, 0.5, 0.5⟩ : V3 ℝ).lift = r.lift := hr
  rw [e] at hr'
  have := V3.lift_inj hr'
  subst this
  show 0 ≤ ((M3.ofK adobeFromXyz : M3 ℝ).mulVec _).c0 ∧ 0 ≤ ((M3.ofK adobeFromXyz : M3 ℝ).mulVec _).c1 ∧ 0 ≤ ((M3.ofK adobeFromXyz : M3 ℝ).mulVec _).c2
  simp only [M3.mulVec, M3.ofK, srgbToXyz, adobeFromXyz, RealScalar.const_eq, RealScalar.eval_ofSci, RealScalar.eval_neg]
  norm_num

/-- **for standards looked up by name** (`Std.of?`: the 15 names of `Color.standard?` × the generated tables), no table hypothesis left -/
theorem rgbToRgb_std_finite (n1 n2 : String) (src dst : RgbFam.Std) (h1 : RgbFam.Std.of? n1 = some src) (h2 : RgbFam.Std.of? n2 = some dst)
    (c : V3 ℝ) (hdst : totalCurve dst.tf = true) (hsrc : totalCurve src.tf = true ∨ (0 ≤ c.c0 ∧ 0 ≤ c.c1 ∧ 0 ≤ c.c2)) :
    (RgbFam.rgbToRgb src dst c.lift).Finite :=
  rgbToRgb_finite src dst c (std_tables n1 src h1).1 (std_tables n2 dst h2).2 hdst hsrc

/-- non-vacuity: `Rgb<AdobeRgb> → Rgb<Rec2020>` on the unit cube, and `Rgb<Srgb> → Rgb<ProPhotoRgb>` on every real colour -/
example (c : V3 ℝ) (h0 : 0 ≤ c.c0) (h1 : 0 ≤ c.c1) (h2 : 0 ≤ c.c2) :
    ∃ src dst, RgbFam.Std.of? "AdobeRgb" = some src ∧ RgbFam.Std.of? "Rec2020" = some dst ∧ (RgbFam.rgbToRgb src dst c.lift).Finite := by
  refine ⟨_, _, rfl, rfl, ?_⟩
  exact rgbToRgb_std_finite "AdobeRgb" "Rec2020" _ _ rfl rfl c rfl (Or.inr ⟨h0, h1, h2⟩)
example (c : V3 ℝ) :
    ∃ src dst, RgbFam.Std.of? "Srgb" = some src ∧ RgbFam.Std.of? "ProPhotoRgb" = some dst ∧ (RgbFam.rgbToRgb src dst c.lift).Finite := by
  refine ⟨_, _, rfl, rfl, ?_⟩
  exact rgbToRgb_std_finite "Srgb" "ProPhotoRgb" _ _ rfl rfl c rfl (Or.inl rfl)

/-! ## the `Luma` edges -/

theorem ofLuma_finite (l : ℝ) : (RgbFam.ofLuma (ok l)).Finite := by
  unfold RgbFam.ofLuma; simp only [ofSci]; exact V3.finite_mk _ _ _

/-- `Luma<S₂> → Luma<S₁>` -/
theorem lumaToLuma_finite (src dst : RgbFam.Std) (c : V3 ℝ) (h : (totalCurve src.tf = true ∧ totalCurve dst.tf = true) ∨ 0 ≤ c.c0) :
    (RgbFam.lumaToLuma src dst c.lift).Finite := by
  unfold RgbFam.lumaToLuma
  split_ifs
  · exact ofLuma_finite c.c0
  · simp only [V3.lift]
    rcases h with ⟨hs, hd⟩ | h0
    · obtain ⟨l, hl⟩ := intoLinear_ok src.tf c.c0 (Or.inl hs)
      obtain ⟨e, he⟩ := fromLinear_ok dst.tf l (Or.inl hd)
      rw [hl, he]; exact ofLuma_finite e
    · obtain ⟨l, hl0, hl⟩ := intoLinear_nonneg src.tf c.c0 h0
      obtain ⟨e, he⟩ := fromLinear_ok dst.tf l (Or.inr hl0)
      rw [hl, he]; exact ofLuma_finite e

/-- `Luma ← Xyz`, `Luma ← Yxy`: the transfer function of the luminance (`Y ≥ 0` for the power laws) -/
theorem xyzToLuma_finite (dst : RgbFam.Std) (c : V3 ℝ) (h : totalCurve dst.tf = true ∨ 0 ≤ c.c1) : (RgbFam.xyzToLuma dst c.lift).Finite := by
  unfold RgbFam.xyzToLuma
  simp only [V3.lift]
  obtain ⟨e, he⟩ := fromLinear_ok dst.tf c.c1 h
  rw [he]; exact ofLuma_finite e
theorem yxyToLuma_finite (dst : RgbFam.Std) (c : V3 ℝ) (h : totalCurve dst.tf = true ∨ 0 ≤ c.c2) : (RgbFam.yxyToLuma dst c.lift).Finite := by
  unfold RgbFam.yxyToLuma
  simp only [V3.lift]
  obtain ⟨e, he⟩ := fromLinear_ok dst.tf c.c2 h
  rw [he]; exact ofLuma_finite e

/-- `Xyz ← Luma`: the (real) white point times the decoded luma -/
theorem lumaToXyz_finite (src : RgbFam.Std) (c : V3 ℝ) (h : totalCurve src.tf = true ∨ 0 ≤ c.c0) : (RgbFam.lumaToXyz src c.lift).Finite := by
  unfold RgbFam.lumaToXyz
  obtain ⟨l, hl⟩ := intoLinear_ok src.tf c.c0 h
  simp only [whitePoint_real, V3.lift, hl, mul_some]
  exact V3.finite_mk _ _ _

/-- `Yxy ← Luma`: the white point through `Yxy ← Xyz` (guarded division) -/
theorem lumaToYxy_finite (src : RgbFam.Std) (c : V3 ℝ) (h : totalCurve src.tf = true ∨ 0 ≤ c.c0) : (RgbFam.lumaToYxy src c.lift).Finite := by
  unfold RgbFam.lumaToYxy
  obtain ⟨l, hl⟩ := intoLinear_ok src.tf c.c0 h
  obtain ⟨d, hd⟩ := xyzToYxy_finite (Color.whitePoint src.wp : V3 ℝ)
  rw [whitePoint_real, hd]
  simp only [V3.lift, hl]
  exact V3.finite_mk _ _ _

/-- `Rgb ← Luma` -/
theorem lumaToRgb_finite (src dst : RgbFam.Std) (c : V3 ℝ) (h : (totalCurve src.tf = true ∧ totalCurve dst.tf = true) ∨ 0 ≤ c.c0) :
    (RgbFam.lumaToRgb src dst c.lift).Finite := by
  unfold RgbFam.lumaToRgb
  split_ifs
  · simp only [V3.lift]; exact V3.finite_mk _ _ _
  · simp only [V3.lift]
    have := curves_only_finite src.tf dst.tf ⟨c.c0, c.c0, c.c0⟩ (h.imp id (fun h0 => ⟨h0, h0, h0⟩))
    unfold RgbFam.fromLinear RgbFam.intoLinear V3.map V3.lift at this
    unfold RgbFam.fromLinear V3.map
    exact this

end C07
