/-
  C17 — the lifting lemma as a reusable, syntactic statement with the operations as parameters.

  `PaletteModel/SimdTerm.lean`: `Op` (the primitive operations of the component interface), `Ops α μ` (an interpretation of all
  of them), `Tm`/`Mk` (value / mask terms), `Tm.eval`, `Tm.usesOnly P`.

  (1) `Tm.eval_hom` / `Mk.eval_hom` — proved **once**, by mutual induction: let `A` interpret the operations on `(α', μ')` and `B`
      on `(α, μ)`, and let `φ : α' → α`, `ψ : μ' → μ` commute with every operation **that the term uses** (`Hom φ ψ A B o` for
      `o ∈ P`, `t.usesOnly P`).  Then `φ` commutes with the evaluation of the term.  Nothing else is assumed of `A`, `B`.
  (2) lane projection is such a pair: `LaneWise W V P` says that the SIMD implementation `W` (any functions on `Fin n → α`) acts
      lane by lane as `V` *on the operations in `P`*; then lane `i` of the SIMD evaluation is the `V`-evaluation of lane `i`'s
      inputs (`Tm.eval_lane`), and does not depend on the other lanes (`Tm.eval_lane_indep`).  `Ops.lanes n V` (every operation
      lifted pointwise) is lane-wise on everything, and is what the instances `Simd.lanes`, `VFused.lanes`, `angleLanes` give.
  (3) the identity is another: two interpretations that agree on the operations a term uses evaluate it alike (`Tm.eval_agree`).
      With `V` = "what one lane of `wide` computes" and `S` = "the scalar type's own operations", agreeing on `exactOps`:
      a body built from exact operations only has *bit-identical* lanes, whatever `wide` does for `powf`, `sin`, …, `neg`
      (`Tm.eval_lane_exact`); a body that uses some approximated operations equals the scalar formula *with those operations
      replaced* — the only gap left is the accuracy of the replaced operations themselves.
  (4) reification: a mask-generic body is polymorphic in the interface, `Tm` implements the interface, so the body at `Tm` is its
      own syntax tree; `Reifies` states that evaluating that tree is running the body (checked per body by `rfl` in `C17_Edges`).

  No Mathlib needed.
-/
import PaletteModel.SimdTerm

namespace C17
open Simd

section hom
variable {α' μ' α μ : Type}

/-- `φ` (on components) and `ψ` (on masks) commute with operation `o` of the interpretations `A` (source) and `B` (target) -/
def Hom (φ : α' → α) (ψ : μ' → μ) (A : Ops α' μ') (B : Ops α μ) : Op → Prop
  | .add => ∀ a b, φ (A.add a b) = B.add (φ a) (φ b)
  | .sub => ∀ a b, φ (A.sub a b) = B.sub (φ a) (φ b)
  | .mul => ∀ a b, φ (A.mul a b) = B.mul (φ a) (φ b)
  | .div => ∀ a b, φ (A.div a b) = B.div (φ a) (φ b)
  | .neg => ∀ a, φ (A.neg a) = B.neg (φ a)
  | .abs => ∀ a, φ (A.abs a) = B.abs (φ a)
  | .sqrt => ∀ a, φ (A.sqrt a) = B.sqrt (φ a)
  | .cbrt => ∀ a, φ (A.cbrt a) = B.cbrt (φ a)
  | .exp => ∀ a, φ (A.exp a) = B.exp (φ a)
  | .ln => ∀ a, φ (A.ln a) = B.ln (φ a)
  | .floor => ∀ a, φ (A.floor a) = B.floor (φ a)
  | .ceil => ∀ a, φ (A.ceil a) = B.ceil (φ a)
  | .round => ∀ a, φ (A.round a) = B.round (φ a)
  | .sin => ∀ a, φ (A.sin a) = B.sin (φ a)
  | .cos => ∀ a, φ (A.cos a) = B.cos (φ a)
  | .radToDeg => ∀ a, φ (A.radToDeg a) = B.radToDeg (φ a)
  | .degToRad => ∀ a, φ (A.degToRad a) = B.degToRad (φ a)
  | .powf => ∀ a b, φ (A.powf a b) = B.powf (φ a) (φ b)
  | .atan2 => ∀ a b, φ (A.atan2 a b) = B.atan2 (φ a) (φ b)
  | .min => ∀ a b, φ (A.min a b) = B.min (φ a) (φ b)
  | .max => ∀ a b, φ (A.max a b) = B.max (φ a) (φ b)
  | .hypot => ∀ a b, φ (A.hypot a b) = B.hypot (φ a) (φ b)
  | .mulAdd => ∀ a b c, φ (A.mulAdd a b c) = B.mulAdd (φ a) (φ b) (φ c)
  | .mulSub => ∀ a b c, φ (A.mulSub a b c) = B.mulSub (φ a) (φ b) (φ c)
  | .pi => φ A.pi = B.pi
  | .lit => ∀ m s e, φ (A.lit m s e) = B.lit m s e
  | .const => ∀ k, φ (A.const k) = B.const k
  | .lt => ∀ a b, ψ (A.lt a b) = B.lt (φ a) (φ b)
  | .le => ∀ a b, ψ (A.le a b) = B.le (φ a) (φ b)
  | .eq => ∀ a b, ψ (A.eq a b) = B.eq (φ a) (φ b)
  | .ne => ∀ a b, ψ (A.ne a b) = B.ne (φ a) (φ b)
  | .ge => ∀ a b, ψ (A.ge a b) = B.ge (φ a) (φ b)
  | .gt => ∀ a b, ψ (A.gt a b) = B.gt (φ a) (φ b)
  | .valid => ∀ a, ψ (A.valid a) = B.valid (φ a)
  | .select => ∀ m a b, φ (A.select m a b) = B.select (ψ m) (φ a) (φ b)
  | .mand => ∀ p q, ψ (A.mand p q) = B.mand (ψ p) (ψ q)
  | .mor => ∀ p q, ψ (A.mor p q) = B.mor (ψ p) (ψ q)
  | .mxor => ∀ p q, ψ (A.mxor p q) = B.mxor (ψ p) (ψ q)
  | .mnot => ∀ p, ψ (A.mnot p) = B.mnot (ψ p)
  | .fromBool => ∀ b, ψ (A.fromBool b) = B.fromBool b

variable {φ : α' → α} {ψ : μ' → μ} {A : Ops α' μ'} {B : Ops α μ}

theorem U1.eval_hom (o : U1) (h : Hom φ ψ A B o.op) (x : α') : φ (o.eval A x) = o.eval B (φ x) := by
  cases o <;> exact h x
theorem B2.eval_hom (o : B2) (h : Hom φ ψ A B o.op) (x y : α') : φ (o.eval A x y) = o.eval B (φ x) (φ y) := by
  cases o <;> exact h x y
theorem T3.eval_hom (o : T3) (h : Hom φ ψ A B o.op) (x y z : α') : φ (o.eval A x y z) = o.eval B (φ x) (φ y) (φ z) := by
  cases o <;> exact h x y z
theorem Cmp.eval_hom (o : Cmp) (h : Hom φ ψ A B o.op) (x y : α') : ψ (o.evalO A x y) = o.evalO B (φ x) (φ y) := by
  cases o <;> exact h x y

mutual
/-- **the lifting lemma, syntactic form**: a pair of maps that commutes with the operations a term uses commutes with its evaluation -/
theorem Tm.eval_hom {P : Op → Bool} (h : ∀ o, P o = true → Hom φ ψ A B o) (env : Nat → α') :
    ∀ t : Tm, t.usesOnly P = true → φ (t.eval A env) = t.eval B (fun k => φ (env k))
  | .var _, _ => rfl
  | .lit m s e, hu => h .lit hu m s e
  | .const k, hu => h .const hu k
  | .pi, hu => h .pi hu
  | .un o a, hu => by
    simp only [Tm.usesOnly, Bool.and_eq_true] at hu
    show φ (o.eval A (a.eval A env)) = o.eval B (a.eval B fun k => φ (env k))
    rw [U1.eval_hom o (h _ hu.1), Tm.eval_hom h env a hu.2]
  | .bin o a b, hu => by
    simp only [Tm.usesOnly, Bool.and_eq_true] at hu
    show φ (o.eval A (a.eval A env) (b.eval A env)) = o.eval B (a.eval B fun k => φ (env k)) (b.eval B fun k => φ (env k))
    rw [B2.eval_hom o (h _ hu.1.1), Tm.eval_hom h env a hu.1.2, Tm.eval_hom h env b hu.2]
  | .tri o a b c, hu => by
    simp only [Tm.usesOnly, Bool.and_eq_true] at hu
    show φ (o.eval A (a.eval A env) (b.eval A env) (c.eval A env)) =
      o.eval B (a.eval B fun k => φ (env k)) (b.eval B fun k => φ (env k)) (c.eval B fun k => φ (env k))
    rw [T3.eval_hom o (h _ hu.1.1.1), Tm.eval_hom h env a hu.1.1.2, Tm.eval_hom h env b hu.1.2, Tm.eval_hom h env c hu.2]
  | .select c a b, hu => by
    simp only [Tm.usesOnly, Bool.and_eq_true] at hu
    show φ (A.select (c.eval A env) (a.eval A env) (b.eval A env)) =
      B.select (c.eval B fun k => φ (env k)) (a.eval B fun k => φ (env k)) (b.eval B fun k => φ (env k))
    rw [h .select hu.1.1.1, Mk.eval_hom h env c hu.1.1.2, Tm.eval_hom h env a hu.1.2, Tm.eval_hom h env b hu.2]
/-- … and with the evaluation of a mask term -/
theorem Mk.eval_hom {P : Op → Bool} (h : ∀ o, P o = true → Hom φ ψ A B o) (env : Nat → α') :
    ∀ t : Mk, t.usesOnly P = true → ψ (t.eval A env) = t.eval B (fun k => φ (env k))
  | .cmp o a b, hu => by
    simp only [Mk.usesOnly, Bool.and_eq_true] at hu
    show ψ (o.evalO A (a.eval A env) (b.eval A env)) = o.evalO B (a.eval B fun k => φ (env k)) (b.eval B fun k => φ (env k))
    rw [Cmp.eval_hom o (h _ hu.1.1), Tm.eval_hom h env a hu.1.2, Tm.eval_hom h env b hu.2]
  | .valid a, hu => by
    simp only [Mk.usesOnly, Bool.and_eq_true] at hu
    show ψ (A.valid (a.eval A env)) = B.valid (a.eval B fun k => φ (env k))
    rw [h .valid hu.1, Tm.eval_hom h env a hu.2]
  | .and p q, hu => by
    simp only [Mk.usesOnly, Bool.and_eq_true] at hu
    show ψ (A.mand (p.eval A env) (q.eval A env)) = B.mand (p.eval B fun k => φ (env k)) (q.eval B fun k => φ (env k))
    rw [h .mand hu.1.1, Mk.eval_hom h env p hu.1.2, Mk.eval_hom h env q hu.2]
  | .or p q, hu => by
    simp only [Mk.usesOnly, Bool.and_eq_true] at hu
    show ψ (A.mor (p.eval A env) (q.eval A env)) = B.mor (p.eval B fun k => φ (env k)) (q.eval B fun k => φ (env k))
    rw [h .mor hu.1.1, Mk.eval_hom h env p hu.1.2, Mk.eval_hom h env q hu.2]
  | .xor p q, hu => by
    simp only [Mk.usesOnly, Bool.and_eq_true] at hu
    show ψ (A.mxor (p.eval A env) (q.eval A env)) = B.mxor (p.eval B fun k => φ (env k)) (q.eval B fun k => φ (env k))
    rw [h .mxor hu.1.1, Mk.eval_hom h env p hu.1.2, Mk.eval_hom h env q hu.2]
  | .not p, hu => by
    simp only [Mk.usesOnly, Bool.and_eq_true] at hu
    show ψ (A.mnot (p.eval A env)) = B.mnot (p.eval B fun k => φ (env k))
    rw [h .mnot hu.1, Mk.eval_hom h env p hu.2]
  | .fromBool b, hu => h .fromBool hu b
end

end hom

/-! ## (2) lane projection -/

section lanes
variable {α μ : Type} {n : Nat}

/-- the SIMD implementation `W` acts lane by lane as `V` on the operations in `P` — the *only* thing assumed of `W` -/
def LaneWise (W : Ops (Lanes n α) (Lanes n μ)) (V : Ops α μ) (P : Op → Bool) : Prop :=
  ∀ (i : Fin n) (o : Op), P o = true → Hom (fun a : Lanes n α => a i) (fun m : Lanes n μ => m i) W V o

/-- **each lane = the per-lane semantics**, for every term, every SIMD implementation that is lane-wise on the operations the
    term uses, every lane count -/
theorem Tm.eval_lane {W : Ops (Lanes n α) (Lanes n μ)} {V : Ops α μ} {P : Op → Bool} (h : LaneWise W V P)
    (t : Tm) (hu : t.usesOnly P = true) (env : Nat → Lanes n α) (i : Fin n) :
    (t.eval W env) i = t.eval V (fun k => env k i) :=
  Tm.eval_hom (φ := fun a : Lanes n α => a i) (ψ := fun m : Lanes n μ => m i) (h i) env t hu

theorem Mk.eval_lane {W : Ops (Lanes n α) (Lanes n μ)} {V : Ops α μ} {P : Op → Bool} (h : LaneWise W V P)
    (t : Mk) (hu : t.usesOnly P = true) (env : Nat → Lanes n α) (i : Fin n) :
    (t.eval W env) i = t.eval V (fun k => env k i) :=
  Mk.eval_hom (φ := fun a : Lanes n α => a i) (ψ := fun m : Lanes n μ => m i) (h i) env t hu

/-- the vector of results is the map over the lanes -/
theorem Tm.eval_lanes {W : Ops (Lanes n α) (Lanes n μ)} {V : Ops α μ} {P : Op → Bool} (h : LaneWise W V P)
    (t : Tm) (hu : t.usesOnly P = true) (env : Nat → Lanes n α) :
    t.eval W env = fun i => t.eval V (fun k => env k i) :=
  funext fun i => Tm.eval_lane h t hu env i

/-- lanes do not interact: lane `i` of the result only depends on lane `i` of the inputs -/
theorem Tm.eval_lane_indep {W : Ops (Lanes n α) (Lanes n μ)} {V : Ops α μ} {P : Op → Bool} (h : LaneWise W V P)
    (t : Tm) (hu : t.usesOnly P = true) (env env' : Nat → Lanes n α) (i : Fin n) (he : ∀ k, env k i = env' k i) :
    (t.eval W env) i = (t.eval W env') i := by
  rw [Tm.eval_lane h t hu, Tm.eval_lane h t hu]; congr 1; funext k; exact he k

/-- the pointwise lift of `V` is lane-wise on every operation (each clause by `rfl`) -/
theorem laneWise_lanes (V : Ops α μ) (P : Op → Bool) : LaneWise (Ops.lanes n V) V P := by
  intro i o _; cases o <;> (dsimp only [Hom]; intros; rfl)

/-- lane-wise on `P` implies lane-wise on every subset -/
theorem LaneWise.mono {W : Ops (Lanes n α) (Lanes n μ)} {V : Ops α μ} {P Q : Op → Bool} (h : LaneWise W V P)
    (hq : ∀ o, Q o = true → P o = true) : LaneWise W V Q := fun i o ho => h i o (hq o ho)

/-- the instances of `Simd.lean` / `SimdPrim.lean` *are* the pointwise lift -/
theorem ofInst_lanes [VScalar α μ] [VFused α] [Angle α] : Ops.ofInst (Lanes n α) = Ops.lanes n (Ops.ofInst α) := rfl

end lanes

/-! ## (3) agreement on the operations used -/

section agree
variable {α μ : Type}

/-- `V` and `S` are the same function on every operation in `P` -/
def AgreeOn (V S : Ops α μ) (P : Op → Bool) : Prop := ∀ o, P o = true → Hom (fun a : α => a) (fun m : μ => m) V S o

/-- two interpretations that agree on the operations a term uses evaluate it alike -/
theorem Tm.eval_agree {V S : Ops α μ} {P : Op → Bool} (h : AgreeOn V S P) (t : Tm) (hu : t.usesOnly P = true) (env : Nat → α) :
    t.eval V env = t.eval S env :=
  Tm.eval_hom (φ := fun a : α => a) (ψ := fun m : μ => m) h env t hu

theorem agreeOn_refl (V : Ops α μ) (P : Op → Bool) : AgreeOn V V P := by
  intro o _; cases o <;> dsimp only [Hom] <;> intros <;> rfl

theorem AgreeOn.mono {V S : Ops α μ} {P Q : Op → Bool} (h : AgreeOn V S P) (hq : ∀ o, Q o = true → P o = true) : AgreeOn V S Q :=
  fun o ho => h o (hq o ho)

/-- **lanes of an exact-class body are bit-identical to the scalar result.**  `W`: the SIMD type's operations; `V`: what one lane
    computes; `S`: the scalar type's operations.  If `W` is lane-wise `V` and `V` agrees with `S` *on the operations the term uses*,
    lane `i` of the SIMD evaluation is the scalar evaluation of lane `i`'s inputs — nothing is assumed about any other operation
    (`wide`'s `powf`, `sin`, `neg`, … may be anything). -/
theorem Tm.eval_lane_exact {n : Nat} {W : Ops (Lanes n α) (Lanes n μ)} {V S : Ops α μ} {P : Op → Bool}
    (hW : LaneWise W V P) (hV : AgreeOn V S P) (t : Tm) (hu : t.usesOnly P = true) (env : Nat → Lanes n α) (i : Fin n) :
    (t.eval W env) i = t.eval S (fun k => env k i) := by
  rw [Tm.eval_lane hW t hu, Tm.eval_agree hV t hu]

end agree

/-! ## (4) environments and colours -/

section env
variable {α μ : Type} {n : Nat}

/-- lane `i` of an argument list -/
theorem envL_lane (l : List (Lanes n α)) (d : Lanes n α) (i : Fin n) : (fun k => envL l d k i) = envL (laneL l i) (d i) := by
  funext k
  show (l.getD k d) i = (l.map (· i)).getD k (d i)
  induction l generalizing k with
  | nil => rfl
  | cons x xs ih => cases k with
    | zero => rfl
    | succ k => exact ih k

theorem v3Eval_lane {W : Ops (Lanes n α) (Lanes n μ)} {V : Ops α μ} {P : Op → Bool} (h : LaneWise W V P)
    (t : V3 Tm) (hu : v3UsesOnly P t = true) (env : Nat → Lanes n α) (i : Fin n) :
    unpack (v3Eval W env t) i = v3Eval V (fun k => env k i) t := by
  simp only [v3UsesOnly, Bool.and_eq_true] at hu
  show (⟨(t.c0.eval W env) i, (t.c1.eval W env) i, (t.c2.eval W env) i⟩ : V3 α) = ⟨_, _, _⟩
  rw [Tm.eval_lane h t.c0 hu.1.1, Tm.eval_lane h t.c1 hu.1.2, Tm.eval_lane h t.c2 hu.2]

theorem v3Eval_agree {V S : Ops α μ} {P : Op → Bool} (h : AgreeOn V S P) (t : V3 Tm) (hu : v3UsesOnly P t = true) (env : Nat → α) :
    v3Eval V env t = v3Eval S env t := by
  simp only [v3UsesOnly, Bool.and_eq_true] at hu
  show (⟨t.c0.eval V env, t.c1.eval V env, t.c2.eval V env⟩ : V3 α) = ⟨_, _, _⟩
  rw [Tm.eval_agree h t.c0 hu.1.1, Tm.eval_agree h t.c1 hu.1.2, Tm.eval_agree h t.c2 hu.2]

end env

/-! ## non-vacuity: a SIMD implementation that is lane-wise on `exactOps` and *not* on `powf`, a term on each side -/

section example_
/-- `Float` lanes whose `powf` mixes the lanes (every lane gets lane 0's base) — lane-wise on everything but `powf` -/
def mixedPow (n : Nat) [NeZero n] : Ops (Lanes n Float) (Lanes n Bool) :=
  { Ops.lanes n (Ops.ofInst Float) with powf := fun a _ => fun _ => a 0 }

theorem mixedPow_laneWise (n : Nat) [NeZero n] : LaneWise (mixedPow n) (Ops.ofInst Float) exactOps := by
  intro i o ho; cases o <;> first | (exact absurd ho (by decide)) | (dsimp only [Hom]; intros; rfl)

/-- … and its `powf` is lane-wise for **no** per-lane semantics `V`: lane 1 of the result changes with lane 0 of the input -/
theorem mixedPow_not_laneWise (V : Ops Float Bool) :
    ¬ Hom (fun a : Lanes 2 Float => a 1) (fun m : Lanes 2 Bool => m 1) (mixedPow 2) V .powf := by
  intro h
  have h1 : (2.0 : Float) = V.powf 3.0 2.0 := h (fun i => if i = 0 then 2.0 else 3.0) (fun _ => 2.0)
  have h2 : (5.0 : Float) = V.powf 3.0 2.0 := h (fun i => if i = 0 then 5.0 else 3.0) (fun _ => 2.0)
  have e : (2.0 : Float) = 5.0 := h1.trans h2.symm
  exact absurd (congrArg Float.toBits e) (by decide +kernel)

example : (Tm.bin .add (.var 0) (.lit 5 true 1)).usesOnly exactOps = true := by decide
example : (Tm.bin .powf (.var 0) (.lit 5 true 1)).usesOnly exactOps = false := by decide
end example_

end C17
