/-
  Tie of the hand-written lookup-table model (`PaletteModel/Lut.lean`, C05) to the *text* of `palette/src/encoding/lut.rs` and of the integer
  `FromLinear` / `IntoLinear` impls in `palette/src/encoding/{srgb,rec_standards,adobe,p3,prophoto}.rs`.

  `tools/extract.py` (plugin `tools/extract_plugins/lut.py`, translator `tools/rust2lean_lut.py`, macro engine `tools/rust_macros.py`) re-reads on every run
  `linear_f32_to_encoded_u8`, `linear_f32_to_encoded_u16_with_linear_scale` - each with the body of `unsafe_linear_float_to_encoded_uint!` expanded at the
  invocation found in it, so `(u8, u32, .., 8, 3)` / `(u16, u64, .., 16, 7)` flow from the call site into the term - and the 20 impls, and lowers them with a
  typed monomorphic lowering onto Lean core's kernel-transparent `Float32` / `Float` / `UIntN` (`Gen/BodiesLut.lean`).  What the language defines
  (`partial_cmp`, `get_unchecked`, indexing, the `as` casts) is read as in `PaletteModel/BodyPrimLut.lean`.

  Each `tie_<name>` states, **for every input**, that the translated body computes what the model function computes:
    * `tie_linearF32ToEncodedU8` / `tie_linearF32ToEncodedU16WithLinearScale`: for every `x : Float32`, every table, every `min_float_bits ≤ MAX_FLOAT_BITS`
      (the one hypothesis: without it the clamp could hand the macro a pattern below `min_float_bits`; the callers discharge it by `decide` on Gen/Lut.lean):
      `(body x ..).toNat = Lut.encU8 table min x.toBits.toNat`.  The model is `Nat` arithmetic on patterns, the body wrapping `u32` / `u64` arithmetic and
      IEEE comparisons on the float: the proof shows (i) the float clamp `partial_cmp != Some(Greater)` / `>` *is* the pattern clamp `Lut.clampBits`
      (`clampG_bits`: NaN, sign bit, ±∞, finite - via the IEEE layer `PaletteProofs/Ieee`), (ii) no word operation wraps (`res32`, `res64`, `finish8_eq`,
      `finish16_eq`), (iii) in the float branch of the u16 encoder the clamped float is `Float32.ofBits` of its pattern (`ofBits_toBits`).
    * `tie_<std>FromLinearF32U8`: every `x : Float32`; `tie_<std>FromLinearF64U8`, `tie_prophotoFromLinearF64U16`: every f64 bit pattern `B : UInt64`
      (`linear as f32` = `Stim.f64ToF32`); `tie_<std>IntoLinearF32U8` / `F64U8`, `tie_prophotoIntoLinear*`: every code.
  `Float32` has one NaN in Lean's model (`Float32.ofBits` canonicalises); the bodies only *compare* their float input before replacing it, so the payload of
  a NaN cannot be observed - and the `*_bits` forms state the f32 ties at `Float32.ofBits b` for **every u32 pattern `b`** (`clampBits_ofBits`).  So the theorems `C05_*` (in bounds, monotone, saturating, round trip, 0.6 bound), which are about `Lut.*`, are about these bodies.

  A changed operand, shift, mask, comparison (`!= Some(Greater)` → `== Some(Less)`, `>` → `>=`), order of the two clamp arms, table, `min_float`, dropped
  `as f32`, swapped macro argument is a broken obligation naming the body; NOT translated: header of Gen/BodiesLut.lean.
-/
import PaletteModel.Gen.BodiesLut
import PaletteProofs.C05_Err16MidBound
import PaletteProofs.Ieee.Order
import PaletteProofs.Ieee.OfBits32
import PaletteProofs.Lemmas.F32Round

namespace Tie
open Lut Ieee Float.Model Float.Model.UnpackedFloat

/-! ## `Float32.ofBits` / `toBits` on finite sign-clear patterns -/
theorem code_pattern (b : Nat) (h0 : 0 < b) (h1 : b < 0x7f800000) : F32Round.code (C05E.mant b) ((C05E.expo b : Int) - 150) = b := by
  unfold F32Round.code C05E.mant C05E.expo
  have p23 : (2:Nat)^23 = 8388608 := by decide
  rw [p23]
  by_cases hb : b < 8388608
  · rw [if_pos hb, if_pos hb, if_neg (by omega)]; omega
  · rw [if_neg hb, if_neg hb, if_neg (by omega)]
    have : ((b / 8388608 : Nat) : Int) - 150 + 149 = ((b / 8388608 - 1 : Nat) : Int) := by omega
    rw [this, Int.toNat_natCast]; omega

/-- `Float32.ofBits` keeps a positive finite pattern (the NaN canonicalisation `pack ∘ unpack` is the identity there) -/
theorem toBits_ofBits_pos (b : Nat) (h0 : 0 < b) (h1 : b < 0x7f800000) :
    (Float32.ofBits (UInt32.ofNat b)).toBits = UInt32.ofNat b := by
  show UInt32.ofBitVec (UnpackedFloat.pack .binary32 (UnpackedFloat.unpack .binary32 (UInt32.ofNat b).toBitVec)) = _
  rw [show (UInt32.ofNat b).toBitVec = BitVec.ofNat Format.binary32.numBits b from rfl, C05E.unpack_pos b h0 h1,
    ← F32Round.mkF_pos, F32Round.pack_mkF_eq _ _ (F32Round.isCanon_pattern b h1), code_pattern b h0 h1]
  rfl

theorem toBits_ofBits (mb : UInt32) (h1 : mb.toNat < 0x7f800000) : (Float32.ofBits mb).toBits = mb := by
  by_cases h0 : mb.toNat = 0
  · have : mb = 0 := UInt32.toNat_inj.mp h0
    subst this; decide +kernel
  · have := toBits_ofBits_pos mb.toNat (by omega) h1
    rwa [UInt32.ofNat_toNat] at this

theorem ext_bits {x y : Float32} (h : x.toBits = y.toBits) : x = y := by
  cases x with | ofModel m => cases y with | ofModel n =>
  cases m with | mk a va => cases n with | mk b vb =>
  have : a = b := h
  subst this; rfl

/-- a finite float with the sign bit clear is `Float32.ofBits` of its pattern -/
theorem ofBits_toBits {x : Float32} (hx : F32.IsFin x) (hs : F32.fS x.toBits.toNat = 0) : Float32.ofBits x.toBits = x :=
  ext_bits (toBits_ofBits x.toBits (C05F.bits_lt_inf hx hs))

theorem fin_ofBits (mb : UInt32) (h1 : mb.toNat < 0x7f800000) :
    F32.IsFin (Float32.ofBits mb) ∧ F32.fS (Float32.ofBits mb).toBits.toNat = 0 := by
  have p : (2:Nat)^23 = 8388608 ∧ (2:Nat)^8 = 256 := by decide
  refine ⟨(F32.ofBits_fin (a := mb) ?_).1, ?_⟩
  · unfold F32.fE; rw [p.1, p.2]; omega
  · rw [toBits_ofBits mb h1, C05F.fS_zero_iff]; omega

/-! ## `partial_cmp`, the clamp on bit patterns -/
def clampG (x lo hi : Float32) : Float32 :=
  if Prim.Lut.partialCmp32 x lo ≠ some Ordering.gt then lo else if hi < x then hi else x

theorem cmp_ne_gt (a b : Float32) : Prim.Lut.partialCmp32 a b ≠ some Ordering.gt ↔ (a ≤ b ∨ ¬ b ≤ a) := by
  unfold Prim.Lut.partialCmp32
  by_cases h1 : a ≤ b <;> by_cases h2 : b ≤ a <;> simp [h1, h2]

theorem le_iff_bits {a b : Float32} (ha : F32.IsFin a) (hb : F32.IsFin b) (sa : F32.fS a.toBits.toNat = 0) (sb : F32.fS b.toBits.toNat = 0) :
    a ≤ b ↔ a.toBits.toNat ≤ b.toBits.toNat := by
  rw [F32.le_iff ha hb, ← F32.toBits_le_iff ha hb sa sb, UInt32.le_iff_toNat_le]

theorem lt_iff_bits {a b : Float32} (ha : F32.IsFin a) (hb : F32.IsFin b) (sa : F32.fS a.toBits.toNat = 0) (sb : F32.fS b.toBits.toNat = 0) :
    a < b ↔ a.toBits.toNat < b.toBits.toNat := by
  rw [F32.lt_iff ha hb, ← F32.toBits_lt_iff ha hb sa sb, UInt32.lt_iff_toNat_lt]

/-- every `Float32` by the class of its bit pattern -/
theorem classify (x : Float32) :
    (x.isNaN = true ∧ (x.toBits.toNat ≥ 0x80000000 ∨ x.toBits.toNat > 0x7f800000)) ∨
    (F32.U x = .infinity .negative ∧ x.toBits.toNat ≥ 0x80000000) ∨
    (F32.U x = .infinity .positive ∧ x.toBits.toNat = 0x7f800000) ∨
    (F32.IsFin x ∧ x.toBits.toNat ≥ 0x80000000 ∧ F32.v x ≤ 0) ∨
    (F32.IsFin x ∧ F32.fS x.toBits.toNat = 0 ∧ x.toBits.toNat < 0x7f800000) := by
  by_cases hn : x.isNaN = true
  · exact Or.inl ⟨hn, C05F.bits_of_nan (F32.U_nan_of_isNaN hn)⟩
  · have hn' : x.isNaN = false := by simpa using hn
    rcases F32.cases_of_not_nan hn' with h | h | h
    · exact Or.inr (Or.inl ⟨h, (C05F.bits_of_inf h).2 rfl⟩)
    · by_cases hs : F32.fS x.toBits.toNat = 0
      · exact Or.inr (Or.inr (Or.inr (Or.inr ⟨h, hs, C05F.bits_lt_inf h hs⟩)))
      · refine Or.inr (Or.inr (Or.inr (Or.inl ⟨h, ?_, C05F.v_nonpos_of_sign x hs⟩)))
        have := (C05F.fS_zero_iff x.toBits.toNat).not.mp hs
        omega
    · exact Or.inr (Or.inr (Or.inl ⟨h, (C05F.bits_of_inf h).1 rfl⟩))

/-- **the clamp in front of the table read, on bit patterns**: for finite sign-clear bounds `lo ≤ hi` the Rust clamp
    `if x.partial_cmp(&lo) != Some(Greater) { lo } else if x > hi { hi } else { x }` is the model's `clampBits`, and its result is finite with the sign bit clear -/
theorem clampG_bits (x lo hi : Float32) (hlo : F32.IsFin lo) (slo : F32.fS lo.toBits.toNat = 0) (hhi : F32.IsFin hi) (shi : F32.fS hi.toBits.toNat = 0)
    (hle : lo.toBits.toNat ≤ hi.toBits.toNat) :
    (clampG x lo hi).toBits.toNat = clampBits lo.toBits.toNat hi.toBits.toNat x.toBits.toNat ∧
    F32.IsFin (clampG x lo hi) ∧ F32.fS (clampG x lo hi).toBits.toNat = 0 := by
  have hL := C05F.bits_lt_inf hlo slo
  have hH := C05F.bits_lt_inf hhi shi
  have hLn : lo.isNaN = false := hlo.not_nan
  have hv0 : 0 ≤ F32.v lo := by rw [F32.v_bits_nonneg hlo slo]; positivity
  unfold clampG
  rcases classify x with ⟨hn, hb⟩ | ⟨hU, hb⟩ | ⟨hU, hb⟩ | ⟨hx, hb, hv⟩ | ⟨hx, hs, hb⟩
  · have h2 : ¬ lo ≤ x := fun h => by have := (F32.not_nan_of_le h).2; rw [hn] at this; cases this
    have hr : clampBits lo.toBits.toNat hi.toBits.toNat x.toBits.toNat = lo.toBits.toNat := by
      unfold clampBits; (repeat' split) <;> omega
    rw [if_pos ((cmp_ne_gt _ _).mpr (Or.inr h2)), hr]
    exact ⟨rfl, hlo, slo⟩
  · have hr : clampBits lo.toBits.toNat hi.toBits.toNat x.toBits.toNat = lo.toBits.toNat := by
      unfold clampBits; (repeat' split) <;> omega
    rw [if_pos ((cmp_ne_gt _ _).mpr (Or.inl (F32.negInf_le hU hLn))), hr]
    exact ⟨rfl, hlo, slo⟩
  · have h1 : ¬ x ≤ lo := F32.not_posInf_le hlo hU
    have h2 : lo ≤ x := F32.le_posInf hU hLn
    have hr : clampBits lo.toBits.toNat hi.toBits.toNat x.toBits.toNat = hi.toBits.toNat := by
      unfold clampBits; (repeat' split) <;> omega
    rw [if_neg (fun h => by rcases (cmp_ne_gt _ _).mp h with h | h; exact h1 h; exact h h2), if_pos (F32.lt_posInf hhi hU), hr]
    exact ⟨rfl, hhi, shi⟩
  · have h1 : x ≤ lo := (F32.le_iff hx hlo).mpr (le_trans hv hv0)
    have hr : clampBits lo.toBits.toNat hi.toBits.toNat x.toBits.toNat = lo.toBits.toNat := by
      unfold clampBits; (repeat' split) <;> omega
    rw [if_pos ((cmp_ne_gt _ _).mpr (Or.inl h1)), hr]
    exact ⟨rfl, hlo, slo⟩
  · have h31 := (C05F.fS_zero_iff x.toBits.toNat).mp hs
    have e1 := le_iff_bits hx hlo hs slo
    have e2 := le_iff_bits hlo hx slo hs
    have e3 := lt_iff_bits hhi hx shi hs
    by_cases c1 : x.toBits.toNat ≤ lo.toBits.toNat
    · have hr : clampBits lo.toBits.toNat hi.toBits.toNat x.toBits.toNat = lo.toBits.toNat := by
        unfold clampBits; (repeat' split) <;> omega
      rw [if_pos ((cmp_ne_gt _ _).mpr (Or.inl (e1.mpr c1))), hr]; exact ⟨rfl, hlo, slo⟩
    · have h1 : ¬ x ≤ lo := fun h => c1 (e1.mp h)
      have h2 : lo ≤ x := e2.mpr (by omega)
      rw [if_neg (fun h => by rcases (cmp_ne_gt _ _).mp h with h | h; exact h1 h; exact h h2)]
      by_cases c2 : x.toBits.toNat > hi.toBits.toNat
      · have hr : clampBits lo.toBits.toNat hi.toBits.toNat x.toBits.toNat = hi.toBits.toNat := by
          unfold clampBits; (repeat' split) <;> omega
        rw [if_pos (e3.mpr c2), hr]; exact ⟨rfl, hhi, shi⟩
      · have hr : clampBits lo.toBits.toNat hi.toBits.toNat x.toBits.toNat = x.toBits.toNat := by
          unfold clampBits; (repeat' split) <;> omega
        rw [if_neg (fun h => c2 (e3.mp h)), hr]; exact ⟨rfl, hx, hs⟩

/-! ## restatements of the translated bodies, word arithmetic -/
/-! ### the shape of the translated bodies: clamp, then the table arithmetic (identified with the bodies by `show` inside the two ties) -/
def clamp8 (x : Float32) (mb : UInt32) : Float32 :=
  if Prim.Lut.partialCmp32 x (Float32.ofBits mb) ≠ some Ordering.gt then Float32.ofBits mb
  else if Float32.ofBits (0x3f7fffff : UInt32) < x then Float32.ofBits (0x3f7fffff : UInt32) else x

def finish8 (c mb : UInt32) (table : List UInt32) : UInt8 :=
  let entry : UInt32 := Prim.Lut.getUnchecked table ((c - mb) >>> (20 : UInt32)).toNat
  ((((entry >>> (16 : UInt32)) <<< (9 : UInt32)) + ((entry &&& (((1 : UInt32) <<< (16 : UInt32)) - (1 : UInt32))) *
      ((c >>> (12 : UInt32)) &&& (((1 : UInt32) <<< (8 : UInt32)) - (1 : UInt32))))) >>> (16 : UInt32)).toUInt8

def clamp16f (x : Float32) : Float32 :=
  if Prim.Lut.partialCmp32 x (Float32.ofBits 0x00000000) ≠ some Ordering.gt then Float32.ofBits 0x00000000
  else if Float32.ofBits (0x3f7fffff : UInt32) < x then Float32.ofBits (0x3f7fffff : UInt32) else x

def finish16 (c mb : UInt32) (table : List UInt64) : UInt16 :=
  let entry : UInt64 := Prim.Lut.getUnchecked table ((c - mb) >>> (16 : UInt32)).toNat
  ((((entry >>> (32 : UInt64)) <<< (17 : UInt64)) + ((entry &&& (((1 : UInt64) <<< (32 : UInt64)) - (1 : UInt64))) *
      ((c.toUInt64 >>> (0 : UInt64)) &&& (((1 : UInt64) <<< (16 : UInt64)) - (1 : UInt64))))) >>> (32 : UInt64)).toUInt16

/-! ### the table arithmetic on words never wraps: it is the model's `Nat` arithmetic -/
theorem res32 (entry t : UInt32) (ht : t.toNat < 256) :
    ((((entry >>> (16 : UInt32)) <<< (9 : UInt32)) + ((entry &&& (((1 : UInt32) <<< (16 : UInt32)) - (1 : UInt32))) * t)) >>> (16 : UInt32)).toNat
      = cellRes 8 entry.toNat t.toNat := by
  have hm : (((1 : UInt32) <<< (16 : UInt32)) - (1 : UInt32)) = 65535 := by decide
  rw [hm]
  unfold cellRes
  have he := entry.toNat_lt
  have hs : entry.toNat &&& 65535 = entry.toNat % 65536 := Nat.and_two_pow_sub_one_eq_mod entry.toNat 16
  have hmul : (entry.toNat % 65536) * t.toNat < 65536 * 256 := Nat.mul_lt_mul'' (Nat.mod_lt _ (by decide)) ht
  simp only [UInt32.toNat_shiftRight, UInt32.toNat_add, UInt32.toNat_shiftLeft, UInt32.toNat_mul, UInt32.toNat_and, UInt32.toNat_ofNat]
  simp only [Nat.shiftRight_eq_div_pow, Nat.shiftLeft_eq]
  show _ = (entry.toNat / 2 ^ (2 * 8) * 2 ^ (8 + 1) + (entry.toNat &&& 2 ^ (2 * 8) - 1) * t.toNat) / 2 ^ (2 * 8)
  rw [show (2:Nat) ^ (2 * 8) - 1 = 65535 from rfl, hs]
  generalize hq : entry.toNat % 65536 * t.toNat = q at hmul ⊢
  have e1 : (2:Nat) ^ (16 % 2 ^ 32 % 32) = 65536 := by decide
  have e2 : (2:Nat) ^ (9 % 2 ^ 32 % 32) = 512 := by decide
  rw [e1, e2]
  omega

theorem res64 (entry t : UInt64) (ht : t.toNat < 65536) :
    ((((entry >>> (32 : UInt64)) <<< (17 : UInt64)) + ((entry &&& (((1 : UInt64) <<< (32 : UInt64)) - (1 : UInt64))) * t)) >>> (32 : UInt64)).toNat
      = cellRes 16 entry.toNat t.toNat := by
  have hm : (((1 : UInt64) <<< (32 : UInt64)) - (1 : UInt64)) = 4294967295 := by decide
  rw [hm]
  unfold cellRes
  have he := entry.toNat_lt
  have hs : entry.toNat &&& 4294967295 = entry.toNat % 4294967296 := Nat.and_two_pow_sub_one_eq_mod entry.toNat 32
  have hmul : (entry.toNat % 4294967296) * t.toNat < 4294967296 * 65536 := Nat.mul_lt_mul'' (Nat.mod_lt _ (by decide)) ht
  simp only [UInt64.toNat_shiftRight, UInt64.toNat_add, UInt64.toNat_shiftLeft, UInt64.toNat_mul, UInt64.toNat_and, UInt64.toNat_ofNat]
  simp only [Nat.shiftRight_eq_div_pow, Nat.shiftLeft_eq]
  show _ = (entry.toNat / 2 ^ (2 * 16) * 2 ^ (16 + 1) + (entry.toNat &&& 2 ^ (2 * 16) - 1) * t.toNat) / 2 ^ (2 * 16)
  rw [show (2:Nat) ^ (2 * 16) - 1 = 4294967295 from rfl, hs]
  generalize hq : entry.toNat % 4294967296 * t.toNat = q at hmul ⊢
  have e1 : (2:Nat) ^ (32 % 2 ^ 64 % 64) = 4294967296 := by decide
  have e2 : (2:Nat) ^ (17 % 2 ^ 64 % 64) = 131072 := by decide
  rw [e1, e2]
  omega

theorem getD_map32 (t : List UInt32) (i : Nat) : (t.map UInt32.toNat).getD i 0 = (t.getD i 0).toNat := by
  induction t generalizing i with
  | nil => rfl
  | cons a r ih => cases i with
    | zero => rfl
    | succ k => simpa using ih k

theorem getD_map64 (t : List UInt64) (i : Nat) : (t.map UInt64.toNat).getD i 0 = (t.getD i 0).toNat := by
  induction t generalizing i with
  | nil => rfl
  | cons a r ih => cases i with
    | zero => rfl
    | succ k => simpa using ih k

/-- the macro body at `(u8, u32, .., 8, 3)` on a clamped pattern `c ≥ min_float_bits`: the model's `encodeClamped` (no subtraction wraps) -/
theorem finish8_eq (c mb : UInt32) (table : List UInt32) (h : mb.toNat ≤ c.toNat) :
    (finish8 c mb table).toNat = encodeClamped (table.map UInt32.toNat) mb.toNat 8 3 c.toNat % 256 := by
  unfold finish8 encodeClamped cellIndex cellT Prim.Lut.getUnchecked
  have hle : mb ≤ c := UInt32.le_iff_toNat_le.mpr h
  have hi : ((c - mb) >>> (20 : UInt32)).toNat = (c.toNat - mb.toNat) >>> (23 - 3) := by
    rw [UInt32.toNat_shiftRight, UInt32.toNat_sub_of_le _ _ hle]; rfl
  have ht : ((c >>> (12 : UInt32)) &&& (((1 : UInt32) <<< (8 : UInt32)) - (1 : UInt32))).toNat = (c.toNat >>> (23 - 3 - 8)) &&& (2 ^ 8 - 1) := by
    rw [show (((1 : UInt32) <<< (8 : UInt32)) - (1 : UInt32)) = 255 from by decide, UInt32.toNat_and, UInt32.toNat_shiftRight]; rfl
  have ht2 : (c.toNat >>> (23 - 3 - 8)) &&& (2 ^ 8 - 1) < 256 := by
    rw [Nat.and_two_pow_sub_one_eq_mod]; exact Nat.mod_lt _ (by decide)
  simp only []
  rw [UInt32.toNat_toUInt8, res32 _ _ (by rw [ht]; exact ht2), ht, hi, getD_map32]

theorem finish16_eq (c mb : UInt32) (table : List UInt64) (h : mb.toNat ≤ c.toNat) :
    (finish16 c mb table).toNat = encodeClamped (table.map UInt64.toNat) mb.toNat 16 7 c.toNat % 65536 := by
  unfold finish16 encodeClamped cellIndex cellT Prim.Lut.getUnchecked
  have hle : mb ≤ c := UInt32.le_iff_toNat_le.mpr h
  have hi : ((c - mb) >>> (16 : UInt32)).toNat = (c.toNat - mb.toNat) >>> (23 - 7) := by
    rw [UInt32.toNat_shiftRight, UInt32.toNat_sub_of_le _ _ hle]; rfl
  have ht : ((c.toUInt64 >>> (0 : UInt64)) &&& (((1 : UInt64) <<< (16 : UInt64)) - (1 : UInt64))).toNat = (c.toNat >>> (23 - 7 - 16)) &&& (2 ^ 16 - 1) := by
    rw [show (((1 : UInt64) <<< (16 : UInt64)) - (1 : UInt64)) = 65535 from by decide, UInt64.toNat_and, UInt64.toNat_shiftRight, UInt32.toNat_toUInt64]; rfl
  have ht2 : (c.toNat >>> (23 - 7 - 16)) &&& (2 ^ 16 - 1) < 65536 := by
    rw [Nat.and_two_pow_sub_one_eq_mod]; exact Nat.mod_lt _ (by decide)
  simp only []
  rw [UInt64.toNat_toUInt16, res64 _ _ (by rw [ht]; exact ht2), ht, hi, getD_map64]

/-! ## the two encoders of lut.rs -/
theorem clamp8_eq (x : Float32) (mb : UInt32) : clamp8 x mb = clampG x (Float32.ofBits mb) (Float32.ofBits (0x3f7fffff : UInt32)) := rfl
theorem clamp16f_eq (x : Float32) : clamp16f x = clampG x (Float32.ofBits 0x00000000) (Float32.ofBits (0x3f7fffff : UInt32)) := rfl

/-- `MAX_FLOAT_BITS` as the translated bodies carry it (from the `const` of lut.rs) is the number `gen_lut` extracted -/
theorem max_bits : (0x3f7fffff : UInt32).toNat = Gen.Lut.maxFloatBits := by decide

theorem clamp16_eq (b : Nat) : C05.clamp16 b = clampBits 0 Gen.Lut.maxFloatBits b := by
  unfold C05.clamp16 clampBits
  simp only [beq_iff_eq]
  (repeat' split) <;> omega

/-- **`linear_f32_to_encoded_u8` (macro expanded at `(u8, u32, input, min_float_bits, table, 8, 3)`) is `Lut.encU8`**, every float, every table -/
theorem tie_linearF32ToEncodedU8 (x : Float32) (mb : UInt32) (table : List UInt32) (hm : mb.toNat ≤ Gen.Lut.maxFloatBits) :
    (Gen.BodyLut.linearF32ToEncodedU8 x mb table).toNat = Lut.encU8 (table.map UInt32.toNat) mb.toNat x.toBits.toNat := by
  have hM : (0x3f7fffff : UInt32).toNat < 0x7f800000 := by decide
  have hmb : mb.toNat < 0x7f800000 := by rw [← max_bits] at hm; omega
  obtain ⟨flo, slo⟩ := fin_ofBits mb hmb
  obtain ⟨fhi, shi⟩ := fin_ofBits 0x3f7fffff hM
  have blo := toBits_ofBits mb hmb
  have bhi := toBits_ofBits 0x3f7fffff hM
  obtain ⟨hc, _, _⟩ := clampG_bits x (Float32.ofBits mb) (Float32.ofBits 0x3f7fffff) flo slo fhi shi (by rw [blo, bhi, max_bits]; exact hm)
  rw [blo, bhi, max_bits] at hc
  have hr := C05.clampBits_range mb.toNat Gen.Lut.maxFloatBits x.toBits.toNat hm
  -- the translated body *is* `finish8 (clamp8 x mb).toBits mb table` (definitional unfolding of the `let`s)
  show (finish8 (clamp8 x mb).toBits mb table).toNat = _
  rw [clamp8_eq, finish8_eq _ _ _ (by rw [hc]; exact hr.1), hc]
  rfl

example : (0x39000000 : UInt32).toNat ≤ Gen.Lut.maxFloatBits := by decide   -- the hypothesis at sRGB's `min_float_bits`

/-- **`linear_f32_to_encoded_u16_with_linear_scale` (macro expanded at `(u16, u64, .., 16, 7)`) is `Lut.encU16`**, every float, scale pattern and table -/
theorem tie_linearF32ToEncodedU16WithLinearScale (x : Float32) (lsb mb : UInt32) (table : List UInt64) (hm : mb.toNat ≤ Gen.Lut.maxFloatBits) :
    (Gen.BodyLut.linearF32ToEncodedU16WithLinearScale x (Float32.ofBits lsb) mb table).toNat =
      Lut.encU16 (table.map UInt64.toNat) lsb.toNat mb.toNat x.toBits.toNat := by
  have hM : (0x3f7fffff : UInt32).toNat < 0x7f800000 := by decide
  have hmb : mb.toNat < 0x7f800000 := by rw [← max_bits] at hm; omega
  obtain ⟨fm, sm⟩ := fin_ofBits mb hmb
  obtain ⟨flo, slo⟩ := fin_ofBits 0 (by decide)
  obtain ⟨fhi, shi⟩ := fin_ofBits 0x3f7fffff hM
  have bm := toBits_ofBits mb hmb
  have blo := toBits_ofBits 0 (by decide)
  have bhi := toBits_ofBits 0x3f7fffff hM
  obtain ⟨hc, fc, sc⟩ := clampG_bits x (Float32.ofBits 0) (Float32.ofBits 0x3f7fffff) flo slo fhi shi (by rw [blo, bhi]; decide)
  rw [blo, bhi, max_bits, show (0 : UInt32).toNat = 0 from rfl, ← clamp16_eq, ← clamp16f_eq] at hc
  rw [← clamp16f_eq] at fc sc
  have hlt := lt_iff_bits fc fm sc sm
  rw [bm, hc] at hlt
  -- the translated body *is* clamp, then one of the two branches (definitional unfolding of the `let`s)
  show (if clamp16f x < Float32.ofBits mb then (((Float32.ofBits lsb * clamp16f x + Float32.ofBits 0x4b000000).toBits &&& (65535 : UInt32))).toUInt16
        else finish16 (clamp16f x).toBits mb table).toNat = _
  rw [C05.encU16_eq]
  by_cases c : C05.clamp16 x.toBits.toNat < mb.toNat
  · rw [if_pos (hlt.mpr c), if_pos c]
    unfold C05.lin16
    rw [← hc, UInt32.ofNat_toNat, UInt32.ofNat_toNat, ofBits_toBits fc sc, UInt32.toNat_toUInt16, UInt32.toNat_and]
    rw [show (65535 : UInt32).toNat = 2 ^ 16 - 1 from rfl, Nat.and_two_pow_sub_one_eq_mod, Nat.mod_mod]
  · rw [if_neg (fun h => c (hlt.mp h)), if_neg c, finish16_eq _ _ _ (by rw [hc]; omega), hc]

/-! ## the impls: which table, which `min_float`, the narrowing, the decode tables -/
theorem enc_facts : ∀ e ∈ Enc.all, (e.table.map UInt32.ofNat).map UInt32.toNat = e.table ∧ (UInt32.ofNat e.minFloat).toNat = e.minFloat ∧
    e.minFloat ≤ Gen.Lut.maxFloatBits := by decide +kernel

theorem fromLinearU8_tie (e : Enc) (he : e ∈ Enc.all) (x : Float32) :
    (Gen.BodyLut.linearF32ToEncodedU8 x (UInt32.ofNat e.minFloat) (e.table.map UInt32.ofNat)).toNat = Lut.fromLinearU8 e x.toBits.toNat := by
  obtain ⟨h1, h2, h3⟩ := enc_facts e he
  rw [tie_linearF32ToEncodedU8 _ _ _ (by rw [h2]; exact h3), h1, h2]; rfl

theorem fromLinearU8_f64_tie (e : Enc) (f : Float32 → UInt8) (hf : ∀ y, (f y).toNat = Lut.fromLinearU8 e y.toBits.toNat) (B : UInt64) :
    (f (Stim.f64ToF32 (Float.ofBits B))).toNat = Lut.fromLinearU8_f64 e B.toNat := by
  rw [hf]; unfold Lut.fromLinearU8_f64; rw [UInt64.ofNat_toNat]

theorem prophoto_facts : (Gen.Lut.prophotoEnc.map UInt64.ofNat).map UInt64.toNat = Gen.Lut.prophotoEnc ∧
    (UInt32.ofNat Gen.Lut.prophotoMinFloat).toNat = Gen.Lut.prophotoMinFloat ∧ Gen.Lut.prophotoMinFloat ≤ Gen.Lut.maxFloatBits ∧
    (UInt32.ofNat Gen.Lut.prophotoLinearScaleBits).toNat = Gen.Lut.prophotoLinearScaleBits := by decide +kernel

theorem tie_srgbFromLinearF32U8 (x : Float32) : (Gen.BodyLut.srgbFromLinearF32U8 x).toNat = Lut.fromLinearU8 .srgb x.toBits.toNat :=
  fromLinearU8_tie .srgb (by decide) x
theorem tie_recOetfFromLinearF32U8 (x : Float32) : (Gen.BodyLut.recOetfFromLinearF32U8 x).toNat = Lut.fromLinearU8 .recOetf x.toBits.toNat :=
  fromLinearU8_tie .recOetf (by decide) x
theorem tie_adobeRgbFromLinearF32U8 (x : Float32) : (Gen.BodyLut.adobeRgbFromLinearF32U8 x).toNat = Lut.fromLinearU8 .adobeRgb x.toBits.toNat :=
  fromLinearU8_tie .adobeRgb (by decide) x
theorem tie_p3GammaFromLinearF32U8 (x : Float32) : (Gen.BodyLut.p3GammaFromLinearF32U8 x).toNat = Lut.fromLinearU8 .p3Gamma x.toBits.toNat :=
  fromLinearU8_tie .p3Gamma (by decide) x

theorem tie_srgbFromLinearF64U8 (B : UInt64) : (Gen.BodyLut.srgbFromLinearF64U8 (Float.ofBits B)).toNat = Lut.fromLinearU8_f64 .srgb B.toNat :=
  fromLinearU8_f64_tie .srgb _ tie_srgbFromLinearF32U8 B
theorem tie_recOetfFromLinearF64U8 (B : UInt64) : (Gen.BodyLut.recOetfFromLinearF64U8 (Float.ofBits B)).toNat = Lut.fromLinearU8_f64 .recOetf B.toNat :=
  fromLinearU8_f64_tie .recOetf _ tie_recOetfFromLinearF32U8 B
theorem tie_adobeRgbFromLinearF64U8 (B : UInt64) : (Gen.BodyLut.adobeRgbFromLinearF64U8 (Float.ofBits B)).toNat = Lut.fromLinearU8_f64 .adobeRgb B.toNat :=
  fromLinearU8_f64_tie .adobeRgb _ tie_adobeRgbFromLinearF32U8 B
theorem tie_p3GammaFromLinearF64U8 (B : UInt64) : (Gen.BodyLut.p3GammaFromLinearF64U8 (Float.ofBits B)).toNat = Lut.fromLinearU8_f64 .p3Gamma B.toNat :=
  fromLinearU8_f64_tie .p3Gamma _ tie_p3GammaFromLinearF32U8 B

/-- `FromLinear<f32, u16> for ProPhotoRgb`: linear scale, `min_float`, table as extracted -/
theorem tie_prophotoFromLinearF32U16 (x : Float32) : (Gen.BodyLut.prophotoFromLinearF32U16 x).toNat = Lut.prophotoFromLinearU16 x.toBits.toNat := by
  obtain ⟨h1, h2, h3, h4⟩ := prophoto_facts
  unfold Gen.BodyLut.prophotoFromLinearF32U16
  rw [tie_linearF32ToEncodedU16WithLinearScale _ _ _ _ (by rw [h2]; exact h3), h1, h2, h4]; rfl

theorem tie_prophotoFromLinearF64U16 (B : UInt64) :
    (Gen.BodyLut.prophotoFromLinearF64U16 (Float.ofBits B)).toNat = Lut.prophotoFromLinearU16_f64 B.toNat := by
  unfold Gen.BodyLut.prophotoFromLinearF64U16 Lut.prophotoFromLinearU16_f64
  rw [tie_prophotoFromLinearF32U16, UInt64.ofNat_toNat]

/-- the model function added for the f64 → u16 path is the expression the theorems `C05E16.fromLinearU16_f64_*` and `C05F16.*` are about -/
theorem prophotoFromLinearU16_f64_eq (B : Nat) : Lut.prophotoFromLinearU16_f64 B = C05E16.fromLinearU16_f64 B := rfl

/-! ## every f32 bit pattern (not only every `Float32` value: Lean's `Float32.ofBits` canonicalises NaNs, the model does not care) -/
/-- the pattern clamp does not see the NaN canonicalisation (nor anything else) of `Float32.ofBits`: **every** u32 pattern -/
theorem clampBits_ofBits (L H : Nat) (b : UInt32) :
    clampBits L H (Float32.ofBits b).toBits.toNat = clampBits L H b.toNat := by
  have p := C05F.p_lits
  have hb32 := b.toNat_lt
  by_cases h1 : b.toNat < 0x7f800000
  · rw [toBits_ofBits b h1]
  · have low : ∀ n : Nat, (n ≥ 0x80000000 ∨ n > 0x7f800000 ∨ n = 0) → clampBits L H n = L := by
      intro n hn; unfold clampBits; (repeat' split) <;> omega
    by_cases hE : F32.fE b.toNat = 255
    · by_cases hM : F32.fM b.toNat = 0
      · -- ±∞
        have hU := F32.U_ofBits_inf hE hM
        have hbits := C05F.bits_of_inf hU
        unfold F32.fE at hE; unfold F32.fM at hM; rw [p.1] at hE hM; rw [p.2.1] at hE
        by_cases hs : F32.fS b.toNat = 0
        · have hsg : F32.signOf b.toNat = .positive := by unfold F32.signOf; rw [if_pos hs]
          rw [hbits.1 hsg]
          have : b.toNat = 0x7f800000 := by
            have := (C05F.fS_zero_iff b.toNat).mp hs
            omega
          rw [this]
        · have hsg : F32.signOf b.toNat = .negative := by unfold F32.signOf; rw [if_neg hs]
          have h31 := (C05F.fS_zero_iff b.toNat).not.mp hs
          rw [low _ (Or.inl (hbits.2 hsg)), low _ (Or.inl (by omega))]
      · -- NaN
        have hU := F32.U_ofBits_nan hE hM
        have hbits := C05F.bits_of_nan hU
        unfold F32.fE at hE; unfold F32.fM at hM; rw [p.1] at hE hM; rw [p.2.1] at hE
        rw [low _ (by omega), low _ (by omega)]
    · -- finite with the sign bit set
      obtain ⟨hf, hv⟩ := F32.ofBits_fin (a := b) hE
      have h31 : b.toNat ≥ 0x80000000 := by
        unfold F32.fE at hE; rw [p.1, p.2.1] at hE; omega
      have hs : F32.fS b.toNat ≠ 0 := fun h => by have := (C05F.fS_zero_iff b.toNat).mp h; omega
      have hsg : F32.signOf b.toNat = .negative := by unfold F32.signOf; rw [if_neg hs]
      have hv0 : F32.v (Float32.ofBits b) ≤ 0 := by
        rw [hv, hsg]
        have : (0:ℚ) ≤ (F32.wOf b.toNat : ℚ) * 2 ^ (-149 : ℤ) := by positivity
        simp only [sgn]; linarith
      rcases C05F.bits_of_nonpos hf hv0 with h | h
      · rw [low _ (Or.inl h), low _ (Or.inl h31)]
      · rw [low _ (Or.inr (Or.inr h)), low _ (Or.inl h31)]

theorem encU8_ofBits (t : List Nat) (m : Nat) (b : UInt32) : encU8 t m (Float32.ofBits b).toBits.toNat = encU8 t m b.toNat := by
  unfold encU8; rw [clampBits_ofBits]

theorem encU16_ofBits (t : List Nat) (s m : Nat) (b : UInt32) : encU16 t s m (Float32.ofBits b).toBits.toNat = encU16 t s m b.toNat := by
  rw [C05.encU16_eq, C05.encU16_eq, clamp16_eq, clamp16_eq, clampBits_ofBits]


theorem tie_linearF32ToEncodedU8_bits (b mb : UInt32) (table : List UInt32) (hm : mb.toNat ≤ Gen.Lut.maxFloatBits) :
    (Gen.BodyLut.linearF32ToEncodedU8 (Float32.ofBits b) mb table).toNat = Lut.encU8 (table.map UInt32.toNat) mb.toNat b.toNat := by
  rw [tie_linearF32ToEncodedU8 _ _ _ hm, encU8_ofBits]

theorem tie_linearF32ToEncodedU16WithLinearScale_bits (b lsb mb : UInt32) (table : List UInt64) (hm : mb.toNat ≤ Gen.Lut.maxFloatBits) :
    (Gen.BodyLut.linearF32ToEncodedU16WithLinearScale (Float32.ofBits b) (Float32.ofBits lsb) mb table).toNat =
      Lut.encU16 (table.map UInt64.toNat) lsb.toNat mb.toNat b.toNat := by
  rw [tie_linearF32ToEncodedU16WithLinearScale _ _ _ _ hm, encU16_ofBits]

theorem fromLinearU8_ofBits (e : Enc) (b : UInt32) : Lut.fromLinearU8 e (Float32.ofBits b).toBits.toNat = Lut.fromLinearU8 e b.toNat :=
  encU8_ofBits _ _ b

/-- `FromLinear<f32, u8>` of the four standards and `FromLinear<f32, u16> for ProPhotoRgb` at **every u32 pattern** read as an f32 -/
theorem tie_srgbFromLinearF32U8_bits (b : UInt32) : (Gen.BodyLut.srgbFromLinearF32U8 (Float32.ofBits b)).toNat = Lut.fromLinearU8 .srgb b.toNat := by
  rw [tie_srgbFromLinearF32U8, fromLinearU8_ofBits]
theorem tie_recOetfFromLinearF32U8_bits (b : UInt32) : (Gen.BodyLut.recOetfFromLinearF32U8 (Float32.ofBits b)).toNat = Lut.fromLinearU8 .recOetf b.toNat := by
  rw [tie_recOetfFromLinearF32U8, fromLinearU8_ofBits]
theorem tie_adobeRgbFromLinearF32U8_bits (b : UInt32) : (Gen.BodyLut.adobeRgbFromLinearF32U8 (Float32.ofBits b)).toNat = Lut.fromLinearU8 .adobeRgb b.toNat := by
  rw [tie_adobeRgbFromLinearF32U8, fromLinearU8_ofBits]
theorem tie_p3GammaFromLinearF32U8_bits (b : UInt32) : (Gen.BodyLut.p3GammaFromLinearF32U8 (Float32.ofBits b)).toNat = Lut.fromLinearU8 .p3Gamma b.toNat := by
  rw [tie_p3GammaFromLinearF32U8, fromLinearU8_ofBits]
theorem tie_prophotoFromLinearF32U16_bits (b : UInt32) : (Gen.BodyLut.prophotoFromLinearF32U16 (Float32.ofBits b)).toNat = Lut.prophotoFromLinearU16 b.toNat := by
  rw [tie_prophotoFromLinearF32U16]; exact encU16_ofBits _ _ _ b

example : (0x7fc00001 : UInt32).toNat ≤ 0xffffffff ∧ (Gen.BodyLut.srgbFromLinearF32U8 (Float32.ofBits 0x7fc00001)).toNat = 0 ∧
    (Gen.BodyLut.srgbFromLinearF32U8 (Float32.ofBits 0x3f000000)).toNat = 188 := by decide +kernel   -- a NaN with payload ↦ 0, 0.5 ↦ 188

/-! decoders: one table read; the float returned is the one with the extracted bit pattern -/
theorem tie_srgbIntoLinearF32U8 (c : UInt8) : Gen.BodyLut.srgbIntoLinearF32U8 c = Float32.ofBits (UInt32.ofNat (Lut.intoLinear32 .srgb c.toNat)) := rfl
theorem tie_recOetfIntoLinearF32U8 (c : UInt8) : Gen.BodyLut.recOetfIntoLinearF32U8 c = Float32.ofBits (UInt32.ofNat (Lut.intoLinear32 .recOetf c.toNat)) := rfl
theorem tie_adobeRgbIntoLinearF32U8 (c : UInt8) : Gen.BodyLut.adobeRgbIntoLinearF32U8 c = Float32.ofBits (UInt32.ofNat (Lut.intoLinear32 .adobeRgb c.toNat)) := rfl
theorem tie_p3GammaIntoLinearF32U8 (c : UInt8) : Gen.BodyLut.p3GammaIntoLinearF32U8 c = Float32.ofBits (UInt32.ofNat (Lut.intoLinear32 .p3Gamma c.toNat)) := rfl
theorem tie_srgbIntoLinearF64U8 (c : UInt8) : Gen.BodyLut.srgbIntoLinearF64U8 c = Float.ofBits (UInt64.ofNat (Lut.intoLinear64 .srgb c.toNat)) := rfl
theorem tie_recOetfIntoLinearF64U8 (c : UInt8) : Gen.BodyLut.recOetfIntoLinearF64U8 c = Float.ofBits (UInt64.ofNat (Lut.intoLinear64 .recOetf c.toNat)) := rfl
theorem tie_adobeRgbIntoLinearF64U8 (c : UInt8) : Gen.BodyLut.adobeRgbIntoLinearF64U8 c = Float.ofBits (UInt64.ofNat (Lut.intoLinear64 .adobeRgb c.toNat)) := rfl
theorem tie_p3GammaIntoLinearF64U8 (c : UInt8) : Gen.BodyLut.p3GammaIntoLinearF64U8 c = Float.ofBits (UInt64.ofNat (Lut.intoLinear64 .p3Gamma c.toNat)) := rfl
/-- `PROPHOTO_RGB_U16_TO_F64` (65536 entries: PaletteThorough/Gen/ProphotoDec.lean) is a parameter `T` of the translated body -/
theorem tie_prophotoIntoLinearF64U16 (T : List Nat) (c : UInt16) :
    Gen.BodyLut.prophotoIntoLinearF64U16 T c = Float.ofBits (UInt64.ofNat (Lut.tableRead64 T c.toNat)) := rfl
theorem tie_prophotoIntoLinearF32U16 (T : List Nat) (c : UInt16) :
    Gen.BodyLut.prophotoIntoLinearF32U16 T c = Stim.f64ToF32 (Float.ofBits (UInt64.ofNat (Lut.tableRead64 T c.toNat))) := rfl

/-- the float decode tables have one entry per code, so the index `encoded as usize` is always in range (Rust's bounds check never fires) -/
theorem dec_lengths : ∀ e ∈ Enc.all, e.dec32.length = 256 ∧ e.dec64.length = 256 := by decide +kernel

end Tie
