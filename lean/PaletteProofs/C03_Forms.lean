/-
  C03 — the bounds contract for the *forms* of clamp / checked / clamping conversion: as functions of the unclamped conversion
  (`FromColor`, `TryFromColor`), on collections (`Vec<T>`, `Box<[T]>`, `[T]`) and on `Alpha<C, T>`.

  `PaletteModel/ClampForms.lean` makes these forms explicit model functions (they were implicit in the statements `C03.fromColor_eq`,
  `C03.alpha_clamp`, "slices = map"); this file proves that the theorems of `C03_Clamp.lean` are statements about them, i.e. that every
  clause of the property holds for every form.  `PaletteProofs/Tie_Convert.lean` and `Tie_Alpha.lean` prove the translated Rust glue
  equal to exactly these functions.  Order-only (`LinearOrder`): exact for integer components and for non-NaN floats.
-/
import PaletteModel.ClampForms
import PaletteProofs.C03_Clamp
import Mathlib.Order.Basic

namespace C03
open Clamp

section order
variable {α σ : Type} [LinearOrder α]

/-! ## `FromColor` / `TryFromColor` as functions of the unclamped conversion `u` -/

/-- **the clamping conversion equals the unclamped conversion followed by clamping** -/
theorem fromColorOf_eq (u : σ → List α) (bs : List (Bound α)) (t : σ) : fromColorOf u bs t = clampAll (u t) bs := rfl
/-- its result reports itself as within bounds, for every source colour and every unclamped conversion -/
theorem fromColorOf_within (u : σ → List α) (bs : List (Bound α)) (h : ∀ b ∈ bs, Bound.WF b) (t : σ) :
    withinAll (fromColorOf u bs t) bs = true := fromColor_within (u t) bs h
/-- and it is the unclamped result itself when that is within bounds -/
theorem fromColorOf_of_within (u : σ → List α) (bs : List (Bound α)) (t : σ) (h : withinAll (u t) bs = true) :
    fromColorOf u bs t = u t := clampAll_of_within _ _ h

/-- **the checked conversion succeeds exactly when the unclamped result is within bounds, returning that same value** -/
theorem tryFromOf_ok_iff (u : σ → List α) (bs : List (Bound α)) (t : σ) : tryFromOf u bs t = .ok (u t) ↔ withinAll (u t) bs = true :=
  tryFrom_ok_iff (u t) bs
/-- **or handing it back inside the error** -/
theorem tryFromOf_err_iff (u : σ → List α) (bs : List (Bound α)) (t : σ) : tryFromOf u bs t = .error (u t) ↔ withinAll (u t) bs = false :=
  tryFrom_err_iff (u t) bs
theorem tryFromOf_total (u : σ → List α) (bs : List (Bound α)) (t : σ) : tryFromOf u bs t = .ok (u t) ∨ tryFromOf u bs t = .error (u t) :=
  tryFrom_total (u t) bs
/-- the three conversions agree where the checked one succeeds -/
theorem tryFromOf_ok_fromColorOf (u : σ → List α) (bs : List (Bound α)) (t : σ) (h : tryFromOf u bs t = .ok (u t)) :
    fromColorOf u bs t = u t := fromColorOf_of_within u bs t ((tryFromOf_ok_iff u bs t).mp h)

/-! ## collections -/

/-- `Vec` / `Box<[T]>::from_color` = `clamp_assign` on the slice of the unclamped collection conversion -/
theorem fromColorList_eq (u : σ → List α) (bs : List (Bound α)) (ts : List σ) :
    fromColorList u bs ts = sliceClamp bs (unclampedList u ts) := by
  simp [fromColorList, sliceClamp, unclampedList, fromColorOf, fromColor, List.map_map, Function.comp_def]
theorem fromColorList_length (u : σ → List α) (bs : List (Bound α)) (ts : List σ) : (fromColorList u bs ts).length = ts.length := by
  simp [fromColorList]

theorem sliceWithin_iff (bs : List (Bound α)) (cs : List (List α)) : sliceWithin bs cs = true ↔ ∀ c ∈ cs, withinAll c bs = true := by
  simp [sliceWithin, List.all_eq_true]

/-- **clamping a slice returns a slice that reports itself as within bounds** -/
theorem sliceWithin_sliceClamp (bs : List (Bound α)) (h : ∀ b ∈ bs, Bound.WF b) (cs : List (List α)) :
    sliceWithin bs (sliceClamp bs cs) = true := by
  rw [sliceWithin_iff]
  intro c hc
  obtain ⟨c0, _, rfl⟩ := List.mem_map.mp hc
  exact within_clampAll c0 bs h
/-- **leaves an in-bounds slice unchanged** -/
theorem sliceClamp_of_within (bs : List (Bound α)) (cs : List (List α)) (h : sliceWithin bs cs = true) : sliceClamp bs cs = cs := by
  rw [sliceWithin_iff] at h
  unfold sliceClamp
  conv => rhs; rw [← List.map_id cs]
  exact List.map_congr_left (fun c hc => clampAll_of_within c bs (h c hc))
/-- **and is idempotent** -/
theorem sliceClamp_idem (bs : List (Bound α)) (h : ∀ b ∈ bs, Bound.WF b) (cs : List (List α)) :
    sliceClamp bs (sliceClamp bs cs) = sliceClamp bs cs := sliceClamp_of_within bs _ (sliceWithin_sliceClamp bs h cs)
theorem sliceClamp_length (bs : List (Bound α)) (cs : List (List α)) : (sliceClamp bs cs).length = cs.length := by simp [sliceClamp]

/-- every element of `Vec<U>::from_color(..)` reports itself within bounds -/
theorem fromColorList_within (u : σ → List α) (bs : List (Bound α)) (h : ∀ b ∈ bs, Bound.WF b) (ts : List σ) :
    sliceWithin bs (fromColorList u bs ts) = true := by
  rw [fromColorList_eq]; exact sliceWithin_sliceClamp bs h _

/-! ## `Alpha<C, T>` -/

/-- the `Alpha` forms are the plain forms at the bounds table extended by one `both min_alpha max_alpha` entry (so everything proved
    for tables applies); this is `C03.alpha_clamp` stated for the explicit model function -/
theorem alphaClamp_eq_clampAll (bs : List (Bound α)) (lo hi : α) (c : List α) (a : α) (hl : c.length = bs.length) :
    (alphaClamp bs lo hi c a).1 ++ [(alphaClamp bs lo hi c a).2] = clampAll (c ++ [a]) (bs ++ [.both lo hi]) :=
  (alpha_clamp c a bs lo hi hl).symm

theorem withinAll_append (c : List α) (a : α) (bs : List (Bound α)) (b : Bound α) (hl : c.length = bs.length) :
    withinAll (c ++ [a]) (bs ++ [b]) = (withinAll c bs && withinC a b) := by
  induction c generalizing bs with
  | nil => cases bs with
    | nil => simp [withinAll]
    | cons b' bs => simp at hl
  | cons v vs ih => cases bs with
    | nil => simp at hl
    | cons b' bs => simp only [List.cons_append, withinAll, ih bs (by simpa using hl), Bool.and_assoc]

theorem alphaWithin_eq_withinAll (bs : List (Bound α)) (lo hi : α) (c : List α) (a : α) (hl : c.length = bs.length) :
    alphaWithin bs lo hi c a = withinAll (c ++ [a]) (bs ++ [.both lo hi]) := by
  rw [withinAll_append c a bs _ hl]; simp only [alphaWithin, withinC, Bool.and_assoc]

theorem alphaWithin_iff (bs : List (Bound α)) (lo hi : α) (c : List α) (a : α) :
    alphaWithin bs lo hi c a = true ↔ withinAll c bs = true ∧ lo ≤ a ∧ a ≤ hi := by
  simp only [alphaWithin, Bool.and_eq_true, decide_eq_true_eq, and_assoc]

/-- **a clamped `Alpha` colour reports itself as within bounds** (colour by its table, alpha in `[min_alpha, max_alpha]`) -/
theorem alphaWithin_alphaClamp (bs : List (Bound α)) (lo hi : α) (h : ∀ b ∈ bs, Bound.WF b) (hlh : lo ≤ hi) (c : List α) (a : α) :
    alphaWithin bs lo hi (alphaClamp bs lo hi c a).1 (alphaClamp bs lo hi c a).2 = true := by
  rw [alphaWithin_iff]
  exact ⟨within_clampAll c bs h, clampC_mem a lo hi hlh⟩
/-- **an in-bounds `Alpha` colour is unchanged** -/
theorem alphaClamp_of_within (bs : List (Bound α)) (lo hi : α) (c : List α) (a : α) (h : alphaWithin bs lo hi c a = true) :
    alphaClamp bs lo hi c a = (c, a) := by
  rw [alphaWithin_iff] at h
  have ha : clampV a lo hi = a := clampC_of_within a (.both lo hi) (by simp [withinC, h.2.1, h.2.2])
  simp only [alphaClamp, clampAll_of_within c bs h.1, ha]
/-- **idempotent** -/
theorem alphaClamp_idem (bs : List (Bound α)) (lo hi : α) (h : ∀ b ∈ bs, Bound.WF b) (hlh : lo ≤ hi) (c : List α) (a : α) :
    alphaClamp bs lo hi (alphaClamp bs lo hi c a).1 (alphaClamp bs lo hi c a).2 = alphaClamp bs lo hi c a :=
  alphaClamp_of_within bs lo hi _ _ (alphaWithin_alphaClamp bs lo hi h hlh c a)

/-- non-vacuity: hypotheses met by concrete out-of-range values (an `Alpha<_, u8>`-like colour with table `[0,255], ≥10, untouched`) -/
example : alphaClamp [Bound.both (0:Int) 255, .minOnly 10, .untouched] 0 255 [300, 7, 0] 999 = ([255, 10, 0], 255) := by decide
example : alphaWithin [Bound.both (0:Int) 255, .minOnly 10, .untouched] 0 255 [255, 10, 0] 255 = true := by decide
example : sliceClamp [Bound.both (0:Int) 255] [[300], [-4], [17]] = [[255], [0], [17]] := by decide
example : tryFromOf (fun t : Int => [t * 2]) [Bound.both (0:Int) 255] 200 = .error [400] := by decide
example : fromColorOf (fun t : Int => [t * 2]) [Bound.both (0:Int) 255] 200 = [255] := by decide
example : ∀ b ∈ [Bound.both (0:Int) 255, .minOnly 10, .untouched], Bound.WF b := by
  intro b hb; simp only [List.mem_cons, List.not_mem_nil, or_false] at hb
  rcases hb with rfl | rfl | rfl <;> simp [Bound.WF]
end order

end C03
