/-
  Tie of the zero-copy casts (C04) to the *text* of `palette/src/cast/array.rs` and `cast/uint.rs`.

  `tools/extract.py` (plugin `tools/extract_plugins/cast.py`, translator `tools/rust2lean_cast.py`) re-reads on every run EVERY `pub fn` of the two
  files and translates the arithmetic and control flow around the unsafe pointer operations into `Gen.BodyCast.<name>`
  (lean/PaletteModel/Gen/BodiesCast.lean): the layout asserts (as comparisons of the parameters `sizeOf`, `alignOf : CPrim.Ty → Nat`), `len * n`,
  `len / n`, `len % n != 0`, the capacity test, their ORDER, which error variant is built from which buffer.  The pointer operations have the
  readings of `PaletteModel/BodyPrimCast.lean` (same address; `from_raw_parts(ptr, len)` = view of the same address with `len` elements;
  `Vec::from_raw_parts(ptr, len, cap)` = the model's buffer constructor).

  One theorem per Rust function (one per *form*: `&[T]`, `&mut [T]`, `Box<[T]>`, `Vec<T>`, `&T`, `&mut T`, `Box<T>`, `[T; N]`, by value), for EVERY
  layout, channel count `n`, length, capacity and memory content:

      out* (Gen.BodyCast.<fn> sizeOf alignOf n x)  =  CastForms.<form> (<the function's asserts>) n (<x as a model buffer>)

  where `CastForms.<form> ok ..` (PaletteModel/CastForms.lean) is `guard ok (Cast.<model function> ..)` - the function of `PaletteModel/Cast.lean`
  that the driver executes and `C04_Cast.lean` is about, behind the crate's run-time asserts - and `out*` maps the typed result
  (`CPrim.Res (Except (CPrim.VecCastError α) (Cast.Buf α))`, ..) into the model's `Outcome` injectively.  `*_of_layout` then give the `Cast.*`
  function itself for every layout that passes the asserts (all castable types: `c04layout` lines of the harness), and `C04'.*` restate the
  property's clauses for the translated functions.

  A changed operand (`len * n` -> `len + n`), `%` -> `/`, `!=` -> `==`, swapped `len` / `capacity`, `LengthMismatch` <-> `CapacityMismatch`, the
  capacity test before the length test, a dropped test or assert, `Err` built from another buffer, `size_of` compared with `align_of`: each is a
  broken obligation naming the function, also where no sampled input can see it (a dropped `align_of` assert: no castable type violates it).
  NOT translated: header of Gen/BodiesCast.lean.
-/
import PaletteModel.Gen.BodiesCast
import PaletteModel.CastForms
import PaletteProofs.C04_Cast

set_option linter.unusedSimpArgs false   -- one simp set for every combination of decided asserts

namespace Tie
open Cast CPrim CastForms

variable {α : Type}

/- split on the two layout equalities and rewrite every `if` / conjunction they decide -/
macro "layout2" s:term "," a:term : tactic =>
  `(tactic| (by_cases h1 : $s <;> by_cases h2 : $a <;>
      simp only [h1, h2, if_true, if_false, and_self, and_true, and_false, true_and, false_and, not_true_eq_false, not_false_eq_true]))

/-! ## the asserts, satisfied -/


theorem guard_pos (ok : Prop) [Decidable ok] (h : ok) (o : Outcome α) : CastForms.guard ok o = o := if_pos h
theorem guard_neg (ok : Prop) [Decidable ok] (h : ¬ ok) (o : Outcome α) : CastForms.guard ok o = .panic := if_neg h


/-! ## with the asserts satisfied, each form *is* the function of `Cast.lean` the property theorems are about -/

theorem sameUnit_of_layout (ok : Prop) [Decidable ok] (h : ok) (b : Buf α) : CastForms.sameUnit ok b = .ok b := if_pos h
theorem intoComponents_of_layout (ok : Prop) [Decidable ok] (h : ok) (n : Nat) (b : Buf α) :
    CastForms.intoComponents ok n b = .ok (Cast.intoComponents n b) := if_pos h
theorem tryFromComponentSlice_of_layout (ok : Prop) [Decidable ok] (h : ok) (n : Nat) (b : Buf α) :
    CastForms.tryFromComponentSlice ok n b = Cast.tryFromComponentSlice n b := if_pos h
theorem fromComponentSlice_of_layout (ok : Prop) [Decidable ok] (h : ok) (n : Nat) (b : Buf α) :
    CastForms.fromComponentSlice ok n b = Cast.unwrap (Cast.tryFromComponentSlice n b) := by
  unfold CastForms.fromComponentSlice; rw [tryFromComponentSlice_of_layout ok h]
theorem tryFromComponentSliceBox_of_layout (ok : Prop) [Decidable ok] (h : ok) (n : Nat) (b : Buf α) :
    CastForms.tryFromComponentSliceBox ok n b = Cast.tryFromComponentSliceBox n b := by
  unfold CastForms.tryFromComponentSliceBox; rw [guard_pos ok h]; exact ite_self _
theorem fromComponentSliceBox_of_layout (ok : Prop) [Decidable ok] (h : ok) (n : Nat) (b : Buf α) :
    CastForms.fromComponentSliceBox ok n b = Cast.unwrap (Cast.tryFromComponentSliceBox n b) := by
  unfold CastForms.fromComponentSliceBox; rw [tryFromComponentSliceBox_of_layout ok h]
theorem tryFromComponentVec_of_layout (ok : Prop) [Decidable ok] (h : ok) (n : Nat) (b : Buf α) :
    CastForms.tryFromComponentVec ok n b = Cast.tryFromComponentVec n b := if_pos h
theorem fromComponentVec_of_layout (ok : Prop) [Decidable ok] (h : ok) (n : Nat) (b : Buf α) :
    CastForms.fromComponentVec ok n b = Cast.unwrap (Cast.tryFromComponentVec n b) := by
  unfold CastForms.fromComponentVec; rw [tryFromComponentVec_of_layout ok h]
theorem intoComponentArray_of_layout (ok : Prop) [Decidable ok] (h : ok) (n N M : Nat) (b : Buf α) :
    CastForms.intoComponentArray ok n N M b = Cast.intoComponentArray n N M b := if_pos h
theorem fromComponentArray_of_layout (ok : Prop) [Decidable ok] (h : ok) (n N M : Nat) (b : Buf α) :
    CastForms.fromComponentArray ok n N M b = Cast.fromComponentArray n N M b := if_pos h

/-- a rejected box comes back unchanged *whatever the layout*: the length test precedes the asserts -/
theorem tryFromComponentSliceBox_reject_any_layout (ok : Prop) [Decidable ok] (n : Nat) (b : Buf α) (h : b.len % n ≠ 0) :
    CastForms.tryFromComponentSliceBox ok n b = .err .boxedSlice (some b) := by
  unfold CastForms.tryFromComponentSliceBox Cast.tryFromComponentSliceBox
  rw [if_pos h, if_pos h]


/-! ## plumbing of the panic monad -/

theorem bind_val {β : Type} (r : Res β) : (r.bind fun t => .val t) = r := by cases r <;> rfl

theorem outSlice_unwrap (r : Res (Except SliceCastError (Slice α))) :
    outSlice (r.bind fun t => CPrim.unwrap t) = Cast.unwrap (outTrySlice r) := by
  cases r with
  | panic => rfl
  | val v => cases v <;> rfl

theorem outSlice_unwrap_box (r : Res (Except (BoxedSliceCastError α) (Slice α))) :
    outSlice (r.bind fun t => CPrim.unwrap t) = Cast.unwrap (outTryBox r) := by
  cases r with
  | panic => rfl
  | val v => cases v <;> rfl

theorem outVec_unwrap (r : Res (Except (VecCastError α) (Buf α))) :
    outVec (r.bind fun t => CPrim.unwrap t) = Cast.unwrap (outTryVec r) := by
  cases r with
  | panic => rfl
  | val v => cases v <;> rfl

theorem outTryBox_ok (r : Res (Slice α)) : outTryBox (r.bind fun t => .val (Except.ok t)) = outSlice r := by cases r <;> rfl

theorem outTryArray_ok (r : Res (Buf α)) : outTryArray (r.bind fun t => .val (Except.ok t)) = outVec r := by cases r <;> rfl

/-! ## cast/array.rs: colour ↔ array, nothing changes -/


/- `into_array` (by value, `transmute_copy`): only the size is asserted; the value keeps its bits whatever its type -/
theorem intoArray_shape {β : Type} (sizeOf alignOf : Ty → Nat) (n : Nat) (v : β) :
    Gen.BodyCast.intoArray sizeOf alignOf n v = if arraySize sizeOf then .val v else .panic := by
  unfold Gen.BodyCast.intoArray assertEq arraySize; rfl
theorem tie_intoArray (sizeOf alignOf : Ty → Nat) (n : Nat) (b : Buf α) :
    outVec (Gen.BodyCast.intoArray sizeOf alignOf n b) = CastForms.sameUnit (arraySize sizeOf) b := by
  rw [intoArray_shape]; unfold CastForms.sameUnit CastForms.guard
  by_cases h : arraySize sizeOf <;> simp only [h, if_true, if_false] <;> rfl

/- `from_array` (by value, `transmute_copy`): only the size is asserted; the value keeps its bits whatever its type -/
theorem fromArray_shape {β : Type} (sizeOf alignOf : Ty → Nat) (n : Nat) (v : β) :
    Gen.BodyCast.fromArray sizeOf alignOf n v = if arraySize sizeOf then .val v else .panic := by
  unfold Gen.BodyCast.fromArray assertEq arraySize; rfl
theorem tie_fromArray (sizeOf alignOf : Ty → Nat) (n : Nat) (b : Buf α) :
    outVec (Gen.BodyCast.fromArray sizeOf alignOf n b) = CastForms.sameUnit (arraySize sizeOf) b := by
  rw [fromArray_shape]; unfold CastForms.sameUnit CastForms.guard
  by_cases h : arraySize sizeOf <;> simp only [h, if_true, if_false] <;> rfl

/- `into_array_ref (`const fn`: `assert!(a == b)`)`: one value behind a pointer (`len = cap = 1`) -/
theorem tie_intoArrayRef (sizeOf alignOf : Ty → Nat) (n : Nat) (p : Ptr α) :
    outPtr (Gen.BodyCast.intoArrayRef sizeOf alignOf n p) = CastForms.sameUnit (arrayLayout sizeOf alignOf) (ptrBuf p) := by
  unfold Gen.BodyCast.intoArrayRef CastForms.sameUnit CastForms.guard arrayLayout CPrim.assert
  layout2 sizeOf (.array (.var 0)) = sizeOf (.var 0), alignOf (.array (.var 0)) = alignOf (.var 0) <;> rfl

/- `from_array_ref`: one value behind a pointer (`len = cap = 1`) -/
theorem tie_fromArrayRef (sizeOf alignOf : Ty → Nat) (n : Nat) (p : Ptr α) :
    outPtr (Gen.BodyCast.fromArrayRef sizeOf alignOf n p) = CastForms.sameUnit (arrayLayout sizeOf alignOf) (ptrBuf p) := by
  unfold Gen.BodyCast.fromArrayRef CastForms.sameUnit CastForms.guard arrayLayout CPrim.assert
  layout2 sizeOf (.array (.var 0)) = sizeOf (.var 0), alignOf (.array (.var 0)) = alignOf (.var 0) <;> rfl

/- `into_array_mut`: one value behind a pointer (`len = cap = 1`) -/
theorem tie_intoArrayMut (sizeOf alignOf : Ty → Nat) (n : Nat) (p : Ptr α) :
    outPtr (Gen.BodyCast.intoArrayMut sizeOf alignOf n p) = CastForms.sameUnit (arrayLayout sizeOf alignOf) (ptrBuf p) := by
  unfold Gen.BodyCast.intoArrayMut CastForms.sameUnit CastForms.guard arrayLayout assertEq
  layout2 sizeOf (.array (.var 0)) = sizeOf (.var 0), alignOf (.array (.var 0)) = alignOf (.var 0) <;> rfl

/- `from_array_mut`: one value behind a pointer (`len = cap = 1`) -/
theorem tie_fromArrayMut (sizeOf alignOf : Ty → Nat) (n : Nat) (p : Ptr α) :
    outPtr (Gen.BodyCast.fromArrayMut sizeOf alignOf n p) = CastForms.sameUnit (arrayLayout sizeOf alignOf) (ptrBuf p) := by
  unfold Gen.BodyCast.fromArrayMut CastForms.sameUnit CastForms.guard arrayLayout assertEq
  layout2 sizeOf (.array (.var 0)) = sizeOf (.var 0), alignOf (.array (.var 0)) = alignOf (.var 0) <;> rfl

/- `into_array_box`: one value behind a pointer (`len = cap = 1`) -/
theorem tie_intoArrayBox (sizeOf alignOf : Ty → Nat) (n : Nat) (p : Ptr α) :
    outPtr (Gen.BodyCast.intoArrayBox sizeOf alignOf n p) = CastForms.sameUnit (arrayLayout sizeOf alignOf) (ptrBuf p) := by
  unfold Gen.BodyCast.intoArrayBox CastForms.sameUnit CastForms.guard arrayLayout assertEq
  layout2 sizeOf (.array (.var 0)) = sizeOf (.var 0), alignOf (.array (.var 0)) = alignOf (.var 0) <;> rfl

/- `from_array_box`: one value behind a pointer (`len = cap = 1`) -/
theorem tie_fromArrayBox (sizeOf alignOf : Ty → Nat) (n : Nat) (p : Ptr α) :
    outPtr (Gen.BodyCast.fromArrayBox sizeOf alignOf n p) = CastForms.sameUnit (arrayLayout sizeOf alignOf) (ptrBuf p) := by
  unfold Gen.BodyCast.fromArrayBox CastForms.sameUnit CastForms.guard arrayLayout assertEq
  layout2 sizeOf (.array (.var 0)) = sizeOf (.var 0), alignOf (.array (.var 0)) = alignOf (.var 0) <;> rfl

/- `into_array_array`: `[_; N]` by value in, `[_; N]` out (the parameter type says the input has `N` elements) -/
theorem tie_intoArrayArray (sizeOf alignOf : Ty → Nat) (n N : Nat) (b : Buf α) (hl : b.len = N) (hc : b.cap = N) :
    outVec (Gen.BodyCast.intoArrayArray sizeOf alignOf n N b) = CastForms.sameUnit (arrayLayout sizeOf alignOf) b := by
  cases b; simp only at hl hc; subst hl; subst hc
  unfold Gen.BodyCast.intoArrayArray CastForms.sameUnit CastForms.guard arrayLayout assertEq
  layout2 sizeOf (.array (.var 0)) = sizeOf (.var 0), alignOf (.array (.var 0)) = alignOf (.var 0) <;> rfl

/- `from_array_array`: `[_; N]` by value in, `[_; N]` out (the parameter type says the input has `N` elements) -/
theorem tie_fromArrayArray (sizeOf alignOf : Ty → Nat) (n N : Nat) (b : Buf α) (hl : b.len = N) (hc : b.cap = N) :
    outVec (Gen.BodyCast.fromArrayArray sizeOf alignOf n N b) = CastForms.sameUnit (arrayLayout sizeOf alignOf) b := by
  cases b; simp only at hl hc; subst hl; subst hc
  unfold Gen.BodyCast.fromArrayArray CastForms.sameUnit CastForms.guard arrayLayout assertEq
  layout2 sizeOf (.array (.var 0)) = sizeOf (.var 0), alignOf (.array (.var 0)) = alignOf (.var 0) <;> rfl

/- `into_array_slice` -/
theorem tie_intoArraySlice (sizeOf alignOf : Ty → Nat) (n : Nat) (s : Slice α) :
    outSlice (Gen.BodyCast.intoArraySlice sizeOf alignOf n s) = CastForms.sameUnit (arrayLayout sizeOf alignOf) (sliceBuf s) := by
  unfold Gen.BodyCast.intoArraySlice CastForms.sameUnit CastForms.guard arrayLayout assertEq
  layout2 sizeOf (.array (.var 0)) = sizeOf (.var 0), alignOf (.array (.var 0)) = alignOf (.var 0) <;> rfl

/- `from_array_slice` -/
theorem tie_fromArraySlice (sizeOf alignOf : Ty → Nat) (n : Nat) (s : Slice α) :
    outSlice (Gen.BodyCast.fromArraySlice sizeOf alignOf n s) = CastForms.sameUnit (arrayLayout sizeOf alignOf) (sliceBuf s) := by
  unfold Gen.BodyCast.fromArraySlice CastForms.sameUnit CastForms.guard arrayLayout assertEq
  layout2 sizeOf (.array (.var 0)) = sizeOf (.var 0), alignOf (.array (.var 0)) = alignOf (.var 0) <;> rfl

/- `into_array_slice_mut` -/
theorem tie_intoArraySliceMut (sizeOf alignOf : Ty → Nat) (n : Nat) (s : Slice α) :
    outSlice (Gen.BodyCast.intoArraySliceMut sizeOf alignOf n s) = CastForms.sameUnit (arrayLayout sizeOf alignOf) (sliceBuf s) := by
  unfold Gen.BodyCast.intoArraySliceMut CastForms.sameUnit CastForms.guard arrayLayout assertEq
  layout2 sizeOf (.array (.var 0)) = sizeOf (.var 0), alignOf (.array (.var 0)) = alignOf (.var 0) <;> rfl

/- `from_array_slice_mut` -/
theorem tie_fromArraySliceMut (sizeOf alignOf : Ty → Nat) (n : Nat) (s : Slice α) :
    outSlice (Gen.BodyCast.fromArraySliceMut sizeOf alignOf n s) = CastForms.sameUnit (arrayLayout sizeOf alignOf) (sliceBuf s) := by
  unfold Gen.BodyCast.fromArraySliceMut CastForms.sameUnit CastForms.guard arrayLayout assertEq
  layout2 sizeOf (.array (.var 0)) = sizeOf (.var 0), alignOf (.array (.var 0)) = alignOf (.var 0) <;> rfl

/- `into_array_slice_box`: `intoArraySliceMut` on the leaked box, `Box::from_raw` of the result -/
theorem tie_intoArraySliceBox (sizeOf alignOf : Ty → Nat) (n : Nat) (s : Slice α) :
    outSlice (Gen.BodyCast.intoArraySliceBox sizeOf alignOf n s) = CastForms.sameUnit (arrayLayout sizeOf alignOf) (sliceBuf s) := by
  unfold Gen.BodyCast.intoArraySliceBox boxLeak boxFromRaw
  simp only [bind_val]
  exact tie_intoArraySliceMut sizeOf alignOf n s

/- `from_array_slice_box`: `fromArraySliceMut` on the leaked box, `Box::from_raw` of the result -/
theorem tie_fromArraySliceBox (sizeOf alignOf : Ty → Nat) (n : Nat) (s : Slice α) :
    outSlice (Gen.BodyCast.fromArraySliceBox sizeOf alignOf n s) = CastForms.sameUnit (arrayLayout sizeOf alignOf) (sliceBuf s) := by
  unfold Gen.BodyCast.fromArraySliceBox boxLeak boxFromRaw
  simp only [bind_val]
  exact tie_fromArraySliceMut sizeOf alignOf n s

/- `into_array_vec`: `Vec::from_raw_parts(raw.cast(), values.len(), values.capacity())` -/
theorem tie_intoArrayVec (sizeOf alignOf : Ty → Nat) (n : Nat) (b : Buf α) :
    outVec (Gen.BodyCast.intoArrayVec sizeOf alignOf n b) = CastForms.sameUnit (arrayLayout sizeOf alignOf) b := by
  unfold Gen.BodyCast.intoArrayVec CastForms.sameUnit CastForms.guard arrayLayout assertEq
  layout2 sizeOf (.array (.var 0)) = sizeOf (.var 0), alignOf (.array (.var 0)) = alignOf (.var 0) <;> rfl

/- `from_array_vec`: `Vec::from_raw_parts(raw.cast(), values.len(), values.capacity())` -/
theorem tie_fromArrayVec (sizeOf alignOf : Ty → Nat) (n : Nat) (b : Buf α) :
    outVec (Gen.BodyCast.fromArrayVec sizeOf alignOf n b) = CastForms.sameUnit (arrayLayout sizeOf alignOf) b := by
  unfold Gen.BodyCast.fromArrayVec CastForms.sameUnit CastForms.guard arrayLayout assertEq
  layout2 sizeOf (.array (.var 0)) = sizeOf (.var 0), alignOf (.array (.var 0)) = alignOf (.var 0) <;> rfl

/-! ## cast/array.rs: colours → components (`len * n`, `cap * n`) -/

/- `into_component_slice`: `length = values.len() * LENGTH`, `from_raw_parts(values.as_ptr().cast(), length)` -/
theorem tie_intoComponentSlice (sizeOf alignOf : Ty → Nat) (n : Nat) (s : Slice α) :
    outSlice (Gen.BodyCast.intoComponentSlice sizeOf alignOf n s) = CastForms.intoComponents (arrayLayout sizeOf alignOf) n (sliceBuf s) := by
  unfold Gen.BodyCast.intoComponentSlice CastForms.intoComponents CastForms.guard arrayLayout assertEq
  layout2 sizeOf (.array (.var 0)) = sizeOf (.var 0), alignOf (.array (.var 0)) = alignOf (.var 0) <;> rfl

/- `into_component_slice_mut`: `length = values.len() * LENGTH`, `from_raw_parts(values.as_ptr().cast(), length)` -/
theorem tie_intoComponentSliceMut (sizeOf alignOf : Ty → Nat) (n : Nat) (s : Slice α) :
    outSlice (Gen.BodyCast.intoComponentSliceMut sizeOf alignOf n s) = CastForms.intoComponents (arrayLayout sizeOf alignOf) n (sliceBuf s) := by
  unfold Gen.BodyCast.intoComponentSliceMut CastForms.intoComponents CastForms.guard arrayLayout assertEq
  layout2 sizeOf (.array (.var 0)) = sizeOf (.var 0), alignOf (.array (.var 0)) = alignOf (.var 0) <;> rfl

/- `into_component_slice_box`: `into_component_slice_mut` on the leaked box -/
theorem tie_intoComponentSliceBox (sizeOf alignOf : Ty → Nat) (n : Nat) (s : Slice α) :
    outSlice (Gen.BodyCast.intoComponentSliceBox sizeOf alignOf n s) = CastForms.intoComponents (arrayLayout sizeOf alignOf) n (sliceBuf s) := by
  unfold Gen.BodyCast.intoComponentSliceBox boxLeak boxFromRaw
  simp only [bind_val]
  exact tie_intoComponentSliceMut sizeOf alignOf n s

/- `into_component_vec`: `length = len * LENGTH`, `capacity = capacity * LENGTH`, `Vec::from_raw_parts(raw.cast(), length, capacity)` -/
theorem tie_intoComponentVec (sizeOf alignOf : Ty → Nat) (n : Nat) (b : Buf α) :
    outVec (Gen.BodyCast.intoComponentVec sizeOf alignOf n b) = CastForms.intoComponents (arrayLayout sizeOf alignOf) n b := by
  unfold Gen.BodyCast.intoComponentVec CastForms.intoComponents CastForms.guard arrayLayout assertEq
  layout2 sizeOf (.array (.var 0)) = sizeOf (.var 0), alignOf (.array (.var 0)) = alignOf (.var 0) <;> rfl

/-! ## cast/array.rs: components → colours (`len % n != 0` first, then `cap % n != 0`; `len / n`, `cap / n`) -/

/- `try_from_component_slice`: asserts, `if values.len() % LENGTH != 0 { return Err(SliceCastError) }`, `length = len / LENGTH` -/
theorem tie_tryFromComponentSlice (sizeOf alignOf : Ty → Nat) (n : Nat) (s : Slice α) :
    outTrySlice (Gen.BodyCast.tryFromComponentSlice sizeOf alignOf n s) = CastForms.tryFromComponentSlice (arrayLayout sizeOf alignOf) n (sliceBuf s) := by
  unfold Gen.BodyCast.tryFromComponentSlice CastForms.tryFromComponentSlice CastForms.guard arrayLayout assertEq Cast.tryFromComponentSlice
  layout2 sizeOf (.array (.var 0)) = sizeOf (.var 0), alignOf (.array (.var 0)) = alignOf (.var 0)
  · by_cases h3 : s.len % n = 0 <;> simp only [sliceBuf, h3, ne_eq, not_true_eq_false, not_false_eq_true, if_true, if_false] <;> rfl
  all_goals rfl

/- `try_from_component_slice_mut`: asserts, `if values.len() % LENGTH != 0 { return Err(SliceCastError) }`, `length = len / LENGTH` -/
theorem tie_tryFromComponentSliceMut (sizeOf alignOf : Ty → Nat) (n : Nat) (s : Slice α) :
    outTrySlice (Gen.BodyCast.tryFromComponentSliceMut sizeOf alignOf n s) = CastForms.tryFromComponentSlice (arrayLayout sizeOf alignOf) n (sliceBuf s) := by
  unfold Gen.BodyCast.tryFromComponentSliceMut CastForms.tryFromComponentSlice CastForms.guard arrayLayout assertEq Cast.tryFromComponentSlice
  layout2 sizeOf (.array (.var 0)) = sizeOf (.var 0), alignOf (.array (.var 0)) = alignOf (.var 0)
  · by_cases h3 : s.len % n = 0 <;> simp only [sliceBuf, h3, ne_eq, not_true_eq_false, not_false_eq_true, if_true, if_false] <;> rfl
  all_goals rfl

/- `from_component_slice` = `tryFromComponentSlice(values).unwrap()` -/
theorem tie_fromComponentSlice (sizeOf alignOf : Ty → Nat) (n : Nat) (s : Slice α) :
    outSlice (Gen.BodyCast.fromComponentSlice sizeOf alignOf n s) = CastForms.fromComponentSlice (arrayLayout sizeOf alignOf) n (sliceBuf s) := by
  unfold Gen.BodyCast.fromComponentSlice CastForms.fromComponentSlice
  rw [outSlice_unwrap, tie_tryFromComponentSlice]

/- `from_component_slice_mut` = `tryFromComponentSliceMut(values).unwrap()` -/
theorem tie_fromComponentSliceMut (sizeOf alignOf : Ty → Nat) (n : Nat) (s : Slice α) :
    outSlice (Gen.BodyCast.fromComponentSliceMut sizeOf alignOf n s) = CastForms.fromComponentSlice (arrayLayout sizeOf alignOf) n (sliceBuf s) := by
  unfold Gen.BodyCast.fromComponentSliceMut CastForms.fromComponentSlice
  rw [outSlice_unwrap, tie_tryFromComponentSliceMut]

/- `try_from_component_slice_box`: NO assert of its own; `if values.len() % LENGTH != 0 { return Err(BoxedSliceCastError { values }) }` first, then
   `from_component_slice_mut(Box::leak(values))` (asserts + `unwrap`), `Ok(Box::from_raw(raw))` -/
theorem tie_tryFromComponentSliceBox (sizeOf alignOf : Ty → Nat) (n : Nat) (s : Slice α) :
    outTryBox (Gen.BodyCast.tryFromComponentSliceBox sizeOf alignOf n s) = CastForms.tryFromComponentSliceBox (arrayLayout sizeOf alignOf) n (sliceBuf s) := by
  unfold Gen.BodyCast.tryFromComponentSliceBox CastForms.tryFromComponentSliceBox boxLeak boxFromRaw
  by_cases h3 : s.len % n = 0
  · have e : (sliceBuf s).len % n = 0 := h3
    simp only [h3, e, ne_eq, not_true_eq_false, if_false]
    rw [outTryBox_ok, tie_fromComponentSliceMut]
    unfold CastForms.fromComponentSlice CastForms.tryFromComponentSlice CastForms.guard Cast.tryFromComponentSliceBox
    by_cases h : arrayLayout sizeOf alignOf <;> simp only [h, e, if_true, if_false, ne_eq, not_true_eq_false]
    · cases Cast.tryFromComponentSlice n (sliceBuf s) <;> rfl
    · rfl
  · have e : (sliceBuf s).len % n ≠ 0 := h3
    unfold Cast.tryFromComponentSliceBox
    simp only [h3, e, ne_eq, not_false_eq_true, if_true]
    rfl

/- `from_component_slice_box` = `try_from_component_slice_box(values).unwrap()` -/
theorem tie_fromComponentSliceBox (sizeOf alignOf : Ty → Nat) (n : Nat) (s : Slice α) :
    outSlice (Gen.BodyCast.fromComponentSliceBox sizeOf alignOf n s) = CastForms.fromComponentSliceBox (arrayLayout sizeOf alignOf) n (sliceBuf s) := by
  unfold Gen.BodyCast.fromComponentSliceBox CastForms.fromComponentSliceBox
  rw [outSlice_unwrap_box, tie_tryFromComponentSliceBox]

/- `try_from_component_vec`: asserts; the LENGTH test, handing the vector back with `LengthMismatch`; then the CAPACITY test, handing it back with
   `CapacityMismatch`; `Vec::from_raw_parts(raw.cast(), len / LENGTH, capacity / LENGTH)` -/
theorem tie_tryFromComponentVec (sizeOf alignOf : Ty → Nat) (n : Nat) (b : Buf α) :
    outTryVec (Gen.BodyCast.tryFromComponentVec sizeOf alignOf n b) = CastForms.tryFromComponentVec (arrayLayout sizeOf alignOf) n b := by
  unfold Gen.BodyCast.tryFromComponentVec CastForms.tryFromComponentVec CastForms.guard arrayLayout assertEq Cast.tryFromComponentVec
  layout2 sizeOf (.array (.var 0)) = sizeOf (.var 0), alignOf (.array (.var 0)) = alignOf (.var 0)
  · by_cases h3 : b.len % n = 0 <;> by_cases h4 : b.cap % n = 0 <;>
      simp only [h3, h4, ne_eq, not_true_eq_false, not_false_eq_true, if_true, if_false] <;> rfl
  all_goals rfl

/- `from_component_vec` = `try_from_component_vec(values).unwrap()` -/
theorem tie_fromComponentVec (sizeOf alignOf : Ty → Nat) (n : Nat) (b : Buf α) :
    outVec (Gen.BodyCast.fromComponentVec sizeOf alignOf n b) = CastForms.fromComponentVec (arrayLayout sizeOf alignOf) n b := by
  unfold Gen.BodyCast.fromComponentVec CastForms.fromComponentVec
  rw [outVec_unwrap, tie_tryFromComponentVec]

/-! ## cast/array.rs: fixed-size arrays by value (`assert_eq!(N * LENGTH, M)`; `assert_eq!(N % LENGTH, 0)`, `assert_eq!(N / LENGTH, M)`) -/

/- `into_component_array::<T, N, M>` -/
theorem tie_intoComponentArray (sizeOf alignOf : Ty → Nat) (n N M : Nat) (b : Buf α) :
    outVec (Gen.BodyCast.intoComponentArray sizeOf alignOf n N M b) =
      CastForms.intoComponentArray (intoComponentArrayLayout sizeOf alignOf N M) n N M b := by
  unfold Gen.BodyCast.intoComponentArray CastForms.intoComponentArray CastForms.guard intoComponentArrayLayout arrayLayout assertEq Cast.intoComponentArray
  by_cases h1 : sizeOf (.array (.var 0)) = sizeOf (.var 0) <;> by_cases h2 : alignOf (.array (.var 0)) = alignOf (.var 0) <;>
    by_cases h3 : N * n = M <;> by_cases h4 : sizeOf (.arr (.var 0) N) = sizeOf (.arr (.item (.var 0)) M) <;>
    by_cases h5 : alignOf (.arr (.var 0) N) = alignOf (.arr (.item (.var 0)) M) <;>
    simp only [h1, h2, h3, h4, h5, if_true, if_false, and_self, and_true, and_false, true_and, false_and, ne_eq, not_true_eq_false, not_false_eq_true, ite_self] <;> rfl

/- `from_component_array::<T, N, M>` -/
theorem tie_fromComponentArray (sizeOf alignOf : Ty → Nat) (n N M : Nat) (b : Buf α) :
    outVec (Gen.BodyCast.fromComponentArray sizeOf alignOf n N M b) =
      CastForms.fromComponentArray (fromComponentArrayLayout sizeOf alignOf N M) n N M b := by
  unfold Gen.BodyCast.fromComponentArray CastForms.fromComponentArray CastForms.guard fromComponentArrayLayout arrayLayout assertEq Cast.fromComponentArray
  by_cases h1 : sizeOf (.array (.var 0)) = sizeOf (.var 0) <;> by_cases h2 : alignOf (.array (.var 0)) = alignOf (.var 0) <;>
    by_cases h3 : N % n = 0 <;> by_cases h3' : N / n = M <;> by_cases h4 : sizeOf (.arr (.item (.var 0)) N) = sizeOf (.arr (.var 0) M) <;>
    by_cases h5 : alignOf (.arr (.item (.var 0)) N) = alignOf (.arr (.var 0) M) <;>
    simp only [h1, h2, h3, h3', h4, h5, if_true, if_false, and_self, and_true, and_false, true_and, false_and, ne_eq, not_true_eq_false, not_false_eq_true, ite_self] <;> rfl

/-! ## cast/uint.rs: colour ↔ unsigned integer, nothing changes -/


/- `into_uint` (by value, `transmute_copy`): only the size is asserted; the value keeps its bits whatever its type -/
theorem intoUint_shape {β : Type} (sizeOf alignOf : Ty → Nat) (n : Nat) (v : β) :
    Gen.BodyCast.intoUint sizeOf alignOf n v = if uintSize sizeOf then .val v else .panic := by
  unfold Gen.BodyCast.intoUint assertEq uintSize; rfl
theorem tie_intoUint (sizeOf alignOf : Ty → Nat) (n : Nat) (b : Buf α) :
    outVec (Gen.BodyCast.intoUint sizeOf alignOf n b) = CastForms.sameUnit (uintSize sizeOf) b := by
  rw [intoUint_shape]; unfold CastForms.sameUnit CastForms.guard
  by_cases h : uintSize sizeOf <;> simp only [h, if_true, if_false] <;> rfl

/- `from_uint` (by value, `transmute_copy`): only the size is asserted; the value keeps its bits whatever its type -/
theorem fromUint_shape {β : Type} (sizeOf alignOf : Ty → Nat) (n : Nat) (v : β) :
    Gen.BodyCast.fromUint sizeOf alignOf n v = if uintSize sizeOf then .val v else .panic := by
  unfold Gen.BodyCast.fromUint assertEq uintSize; rfl
theorem tie_fromUint (sizeOf alignOf : Ty → Nat) (n : Nat) (b : Buf α) :
    outVec (Gen.BodyCast.fromUint sizeOf alignOf n b) = CastForms.sameUnit (uintSize sizeOf) b := by
  rw [fromUint_shape]; unfold CastForms.sameUnit CastForms.guard
  by_cases h : uintSize sizeOf <;> simp only [h, if_true, if_false] <;> rfl

/- `into_uint_ref (`const fn`: `assert!(a == b)`)`: one value behind a pointer (`len = cap = 1`) -/
theorem tie_intoUintRef (sizeOf alignOf : Ty → Nat) (n : Nat) (p : Ptr α) :
    outPtr (Gen.BodyCast.intoUintRef sizeOf alignOf n p) = CastForms.sameUnit (uintLayout sizeOf alignOf) (ptrBuf p) := by
  unfold Gen.BodyCast.intoUintRef CastForms.sameUnit CastForms.guard uintLayout CPrim.assert
  layout2 sizeOf (.uint (.var 0)) = sizeOf (.var 0), alignOf (.uint (.var 0)) = alignOf (.var 0) <;> rfl

/- `from_uint_ref`: one value behind a pointer (`len = cap = 1`) -/
theorem tie_fromUintRef (sizeOf alignOf : Ty → Nat) (n : Nat) (p : Ptr α) :
    outPtr (Gen.BodyCast.fromUintRef sizeOf alignOf n p) = CastForms.sameUnit (uintLayout sizeOf alignOf) (ptrBuf p) := by
  unfold Gen.BodyCast.fromUintRef CastForms.sameUnit CastForms.guard uintLayout CPrim.assert
  layout2 sizeOf (.uint (.var 0)) = sizeOf (.var 0), alignOf (.uint (.var 0)) = alignOf (.var 0) <;> rfl

/- `into_uint_mut`: one value behind a pointer (`len = cap = 1`) -/
theorem tie_intoUintMut (sizeOf alignOf : Ty → Nat) (n : Nat) (p : Ptr α) :
    outPtr (Gen.BodyCast.intoUintMut sizeOf alignOf n p) = CastForms.sameUnit (uintLayout sizeOf alignOf) (ptrBuf p) := by
  unfold Gen.BodyCast.intoUintMut CastForms.sameUnit CastForms.guard uintLayout assertEq
  layout2 sizeOf (.uint (.var 0)) = sizeOf (.var 0), alignOf (.uint (.var 0)) = alignOf (.var 0) <;> rfl

/- `from_uint_mut`: one value behind a pointer (`len = cap = 1`) -/
theorem tie_fromUintMut (sizeOf alignOf : Ty → Nat) (n : Nat) (p : Ptr α) :
    outPtr (Gen.BodyCast.fromUintMut sizeOf alignOf n p) = CastForms.sameUnit (uintLayout sizeOf alignOf) (ptrBuf p) := by
  unfold Gen.BodyCast.fromUintMut CastForms.sameUnit CastForms.guard uintLayout assertEq
  layout2 sizeOf (.uint (.var 0)) = sizeOf (.var 0), alignOf (.uint (.var 0)) = alignOf (.var 0) <;> rfl

/- `into_uint_array`: `[_; N]` by value in, `[_; N]` out (the parameter type says the input has `N` elements) -/
theorem tie_intoUintArray (sizeOf alignOf : Ty → Nat) (n N : Nat) (b : Buf α) (hl : b.len = N) (hc : b.cap = N) :
    outVec (Gen.BodyCast.intoUintArray sizeOf alignOf n N b) = CastForms.sameUnit (uintLayout sizeOf alignOf) b := by
  cases b; simp only at hl hc; subst hl; subst hc
  unfold Gen.BodyCast.intoUintArray CastForms.sameUnit CastForms.guard uintLayout assertEq
  layout2 sizeOf (.uint (.var 0)) = sizeOf (.var 0), alignOf (.uint (.var 0)) = alignOf (.var 0) <;> rfl

/- `from_uint_array`: `[_; N]` by value in, `[_; N]` out (the parameter type says the input has `N` elements) -/
theorem tie_fromUintArray (sizeOf alignOf : Ty → Nat) (n N : Nat) (b : Buf α) (hl : b.len = N) (hc : b.cap = N) :
    outVec (Gen.BodyCast.fromUintArray sizeOf alignOf n N b) = CastForms.sameUnit (uintLayout sizeOf alignOf) b := by
  cases b; simp only at hl hc; subst hl; subst hc
  unfold Gen.BodyCast.fromUintArray CastForms.sameUnit CastForms.guard uintLayout assertEq
  layout2 sizeOf (.uint (.var 0)) = sizeOf (.var 0), alignOf (.uint (.var 0)) = alignOf (.var 0) <;> rfl

/- `into_uint_slice` -/
theorem tie_intoUintSlice (sizeOf alignOf : Ty → Nat) (n : Nat) (s : Slice α) :
    outSlice (Gen.BodyCast.intoUintSlice sizeOf alignOf n s) = CastForms.sameUnit (uintLayout sizeOf alignOf) (sliceBuf s) := by
  unfold Gen.BodyCast.intoUintSlice CastForms.sameUnit CastForms.guard uintLayout assertEq
  layout2 sizeOf (.uint (.var 0)) = sizeOf (.var 0), alignOf (.uint (.var 0)) = alignOf (.var 0) <;> rfl

/- `from_uint_slice` -/
theorem tie_fromUintSlice (sizeOf alignOf : Ty → Nat) (n : Nat) (s : Slice α) :
    outSlice (Gen.BodyCast.fromUintSlice sizeOf alignOf n s) = CastForms.sameUnit (uintLayout sizeOf alignOf) (sliceBuf s) := by
  unfold Gen.BodyCast.fromUintSlice CastForms.sameUnit CastForms.guard uintLayout assertEq
  layout2 sizeOf (.uint (.var 0)) = sizeOf (.var 0), alignOf (.uint (.var 0)) = alignOf (.var 0) <;> rfl

/- `into_uint_slice_mut` -/
theorem tie_intoUintSliceMut (sizeOf alignOf : Ty → Nat) (n : Nat) (s : Slice α) :
    outSlice (Gen.BodyCast.intoUintSliceMut sizeOf alignOf n s) = CastForms.sameUnit (uintLayout sizeOf alignOf) (sliceBuf s) := by
  unfold Gen.BodyCast.intoUintSliceMut CastForms.sameUnit CastForms.guard uintLayout assertEq
  layout2 sizeOf (.uint (.var 0)) = sizeOf (.var 0), alignOf (.uint (.var 0)) = alignOf (.var 0) <;> rfl

/- `from_uint_slice_mut` -/
theorem tie_fromUintSliceMut (sizeOf alignOf : Ty → Nat) (n : Nat) (s : Slice α) :
    outSlice (Gen.BodyCast.fromUintSliceMut sizeOf alignOf n s) = CastForms.sameUnit (uintLayout sizeOf alignOf) (sliceBuf s) := by
  unfold Gen.BodyCast.fromUintSliceMut CastForms.sameUnit CastForms.guard uintLayout assertEq
  layout2 sizeOf (.uint (.var 0)) = sizeOf (.var 0), alignOf (.uint (.var 0)) = alignOf (.var 0) <;> rfl

/- `into_uint_slice_box`: its own asserts, then `intoUintSliceMut` (which asserts again) on the leaked box, `Box::from_raw` of the result -/
theorem tie_intoUintSliceBox (sizeOf alignOf : Ty → Nat) (n : Nat) (s : Slice α) :
    outSlice (Gen.BodyCast.intoUintSliceBox sizeOf alignOf n s) = CastForms.sameUnit (uintLayout sizeOf alignOf) (sliceBuf s) := by
  have h := tie_intoUintSliceMut sizeOf alignOf n s
  unfold Gen.BodyCast.intoUintSliceBox boxLeak boxFromRaw assertEq
  simp only [bind_val]
  by_cases h1 : sizeOf (.uint (.var 0)) = sizeOf (.var 0)
  · by_cases h2 : alignOf (.uint (.var 0)) = alignOf (.var 0)
    · rw [if_pos h1, if_pos h2]; exact h
    · rw [if_pos h1, if_neg h2, CastForms.sameUnit, CastForms.guard, if_neg (fun c : uintLayout sizeOf alignOf => h2 (And.right c))]; rfl
  · rw [if_neg h1, CastForms.sameUnit, CastForms.guard, if_neg (fun c : uintLayout sizeOf alignOf => h1 (And.left c))]; rfl

/- `from_uint_slice_box`: its own asserts, then `fromUintSliceMut` (which asserts again) on the leaked box, `Box::from_raw` of the result -/
theorem tie_fromUintSliceBox (sizeOf alignOf : Ty → Nat) (n : Nat) (s : Slice α) :
    outSlice (Gen.BodyCast.fromUintSliceBox sizeOf alignOf n s) = CastForms.sameUnit (uintLayout sizeOf alignOf) (sliceBuf s) := by
  have h := tie_fromUintSliceMut sizeOf alignOf n s
  unfold Gen.BodyCast.fromUintSliceBox boxLeak boxFromRaw assertEq
  simp only [bind_val]
  by_cases h1 : sizeOf (.uint (.var 0)) = sizeOf (.var 0)
  · by_cases h2 : alignOf (.uint (.var 0)) = alignOf (.var 0)
    · rw [if_pos h1, if_pos h2]; exact h
    · rw [if_pos h1, if_neg h2, CastForms.sameUnit, CastForms.guard, if_neg (fun c : uintLayout sizeOf alignOf => h2 (And.right c))]; rfl
  · rw [if_neg h1, CastForms.sameUnit, CastForms.guard, if_neg (fun c : uintLayout sizeOf alignOf => h1 (And.left c))]; rfl

/- `into_uint_vec`: `Vec::from_raw_parts(raw.cast(), values.len(), values.capacity())` -/
theorem tie_intoUintVec (sizeOf alignOf : Ty → Nat) (n : Nat) (b : Buf α) :
    outVec (Gen.BodyCast.intoUintVec sizeOf alignOf n b) = CastForms.sameUnit (uintLayout sizeOf alignOf) b := by
  unfold Gen.BodyCast.intoUintVec CastForms.sameUnit CastForms.guard uintLayout assertEq
  layout2 sizeOf (.uint (.var 0)) = sizeOf (.var 0), alignOf (.uint (.var 0)) = alignOf (.var 0) <;> rfl

/- `from_uint_vec`: `Vec::from_raw_parts(raw.cast(), values.len(), values.capacity())` -/
theorem tie_fromUintVec (sizeOf alignOf : Ty → Nat) (n : Nat) (b : Buf α) :
    outVec (Gen.BodyCast.fromUintVec sizeOf alignOf n b) = CastForms.sameUnit (uintLayout sizeOf alignOf) b := by
  unfold Gen.BodyCast.fromUintVec CastForms.sameUnit CastForms.guard uintLayout assertEq
  layout2 sizeOf (.uint (.var 0)) = sizeOf (.var 0), alignOf (.uint (.var 0)) = alignOf (.var 0) <;> rfl

/-! ## the property's clauses, for the translated functions (ties composed with the theorems of `C04_Cast.lean`)

Hypothesis `arrayLayout sizeOf alignOf`: the crate's own asserts hold (they do for every castable type; otherwise every function panics, `guard_neg`). -/

/- a component vector is accepted by the translated `try_from_component_vec` exactly when `n ∣ len ∧ n ∣ cap` -/
theorem gen_tryFromComponentVec_ok_iff (sizeOf alignOf : Ty → Nat) (h : arrayLayout sizeOf alignOf) (n : Nat) (b : Buf α) :
    (∃ r, outTryVec (Gen.BodyCast.tryFromComponentVec sizeOf alignOf n b) = .ok r) ↔ n ∣ b.len ∧ n ∣ b.cap := by
  rw [tie_tryFromComponentVec, tryFromComponentVec_of_layout _ h]; exact C04.tryFromComponentVec_ok_iff n b

/- a rejected vector is handed back unchanged, `LengthMismatch` before `CapacityMismatch` -/
theorem gen_tryFromComponentVec_reject (sizeOf alignOf : Ty → Nat) (h : arrayLayout sizeOf alignOf) (n : Nat) (b : Buf α) (hr : ¬ (n ∣ b.len ∧ n ∣ b.cap)) :
    (¬ n ∣ b.len → outTryVec (Gen.BodyCast.tryFromComponentVec sizeOf alignOf n b) = .err .lengthMismatch (some b)) ∧
    (n ∣ b.len → outTryVec (Gen.BodyCast.tryFromComponentVec sizeOf alignOf n b) = .err .capacityMismatch (some b)) := by
  rw [tie_tryFromComponentVec, tryFromComponentVec_of_layout _ h]; exact C04.tryFromComponentVec_reject n b hr

/- a rejected box is handed back unchanged - for EVERY layout (the length test precedes the asserts) -/
theorem gen_tryFromComponentSliceBox_reject (sizeOf alignOf : Ty → Nat) (n : Nat) (s : Slice α) (hr : s.len % n ≠ 0) :
    outTryBox (Gen.BodyCast.tryFromComponentSliceBox sizeOf alignOf n s) = .err .boxedSlice (some (sliceBuf s)) := by
  rw [tie_tryFromComponentSliceBox]; exact tryFromComponentSliceBox_reject_any_layout _ n (sliceBuf s) hr

/- colours → components → colours through the two translated functions reproduces the vector: same address, length, capacity, memory -/
theorem gen_vec_roundtrip (sizeOf alignOf : Ty → Nat) (h : arrayLayout sizeOf alignOf) (n : Nat) (hn : 0 < n) (b : Buf α) :
    outTryVec ((Gen.BodyCast.intoComponentVec sizeOf alignOf n b).bind (Gen.BodyCast.tryFromComponentVec sizeOf alignOf n)) = .ok b := by
  have e : Gen.BodyCast.intoComponentVec sizeOf alignOf n b = .val (Cast.intoComponents n b) := by
    unfold Gen.BodyCast.intoComponentVec assertEq; rw [if_pos h.1, if_pos h.2]; rfl
  rw [e]; show outTryVec (Gen.BodyCast.tryFromComponentVec sizeOf alignOf n (Cast.intoComponents n b)) = .ok b
  rw [tie_tryFromComponentVec, tryFromComponentVec_of_layout _ h]; exact C04.vec_roundtrip n hn b

/- the same for boxed slices -/
theorem gen_box_roundtrip (sizeOf alignOf : Ty → Nat) (h : arrayLayout sizeOf alignOf) (n : Nat) (hn : 0 < n) (s : Slice α) :
    outTryBox ((Gen.BodyCast.intoComponentSliceBox sizeOf alignOf n s).bind (Gen.BodyCast.tryFromComponentSliceBox sizeOf alignOf n)) = .ok (sliceBuf s) := by
  have e : Gen.BodyCast.intoComponentSliceBox sizeOf alignOf n s = .val { id := s.id, len := s.len * n, mem := s.mem } := by
    unfold Gen.BodyCast.intoComponentSliceBox Gen.BodyCast.intoComponentSliceMut assertEq; rw [if_pos h.1, if_pos h.2]; rfl
  rw [e]; show outTryBox (Gen.BodyCast.tryFromComponentSliceBox sizeOf alignOf n _) = .ok (sliceBuf s)
  rw [tie_tryFromComponentSliceBox, tryFromComponentSliceBox_of_layout _ h]
  exact C04.box_roundtrip n hn (sliceBuf s) rfl

/- the hypotheses of the `[T; N]`-by-value ties (`tie_intoArrayArray`, `tie_fromArrayArray`, `tie_intoUintArray`, `tie_fromUintArray`) are satisfiable:
   two 3-channel colours as `[Rgb<u8>; 2]` -/
example : let b : Buf Nat := ⟨1, 2, 2, [10, 11, 12, 20, 21, 22]⟩
    b.len = 2 ∧ b.cap = 2 ∧ outVec (Gen.BodyCast.intoArrayArray (fun _ => 3) (fun _ => 1) 3 2 b) = .ok b := by decide

/- the hypotheses are satisfiable: `Rgb<f32>` - 12 bytes, alignment 4, as its array `[f32; 3]` -/
example : arrayLayout (fun _ => 12) (fun _ => 4) ∧ (0 < 3) ∧ ¬ (3 ∣ 4 ∧ 3 ∣ 5) ∧ (4 % 3 ≠ 0) := by decide

end Tie
