/-
  Tie of the `Alpha<C, T>` forwarding impls (`palette/src/alpha/alpha.rs`) and of the `[T]` impls of `lib.rs` to the model:
  the bounds forms of C03 (`PaletteModel/ClampForms.lean`: `Clamp.alphaClamp`, `alphaWithin`, `sliceClamp`, `sliceWithin`) and the operator
  forms of C10 (`PaletteModel/Ops.lean`: `Ops.Alpha.mix`, `mixAssign`, `map1`, `assign1`, `binC`, `binS`, `binAssignC`, `binAssignS`,
  `Ops.sliceAssign`).

  `tools/extract.py` (`gen_bodies_glue`, translator `tools/rust2lean_glue.py`, family `alpha`) re-reads on every run the bodies of
  `impl Clamp / ClampAssign / IsWithinBounds / Mix / MixAssign / Lighten / LightenAssign / Saturate / SaturateAssign / GetHue / WithHue / SetHue /
  ShiftHue / ShiftHueAssign / Add / Sub / Mul / Div (Self and scalar operands, by-value and assigning) / SaturatingAdd / SaturatingSub for
  Alpha<C, T>`, `Alpha::min_alpha` / `max_alpha`, and `impl ClampAssign / IsWithinBounds / LightenAssign / SaturateAssign / SetHue / ShiftHueAssign
  for [T]`, and translates each into `Gen.Body.<name>` (lean/PaletteModel/Gen/BodiesAlpha.lean).  The code is generic over the colour `C`; every
  call on the colour (`self.color.clamp()`, `self.color.mix(..)`, `self.color + other.color`, `color.lighten_assign(..)`) is trait-dispatched
  and therefore a **parameter** of the translated definition.  Each theorem holds for every value of those parameters - i.e. for every
  colour type that implements the trait - which is what C03's `alpha-clamp` / `slice-equals-map` and C10's `alpha=value` / `slice=value`
  oracle clauses sample type by type:

    * bounds (generic colour type `γ`, generic alpha type `τ` with any order - integer alphas included): `alphaClamp_shape`,
      `alphaWithin_shape`: colour forwarded, alpha clamped to / compared with `[min_alpha(), max_alpha()] = [T::zero(), T::max_intensity()]`;
      `tie_alphaClamp`, `tie_alphaClampAssign`, `tie_alphaWithin`: at the model's `clampAll · bs` / `withinAll · bs` they are the model
      functions, about which `C03_Forms.lean` proves the contract; `tie_sliceClampAssign`, `tie_sliceWithin` (`for_each` = `map`; the loop with
      `&=` and early `break` = `List.all`, an induction);
    * operators (the model's `Ops.Alpha α`): all `rfl` - `tie_alphaMix` (factor clamped to `[0, 1]` first, colour mixed with the *clamped*
      factor, alpha `a + f·(b − a)`), `tie_alphaLighten` … (colour forwarded, alpha untouched), arithmetic (same operator on the alphas), the
      assigning forms, and the slice forms `tie_slice*Assign` (`Ops.sliceAssign`, an induction).

  So `T::one()` instead of `Self::max_alpha()`, a missing `self.color.clamp()`, `factor` used unclamped for the colour, `other.alpha` dropped
  from an arithmetic impl, a `break` on the wrong polarity - each is a broken obligation naming the impl.

  NOT translated: header of Gen/BodiesAlpha.lean (`PreAlpha`, `FromColorUnclamped for Alpha`, the non-operator impls).
-/
import PaletteModel.Gen.BodiesAlpha
import PaletteProofs.Tie_Clamp

set_option linter.unusedSectionVars false   -- one `variable` line with the order instances of `Clamp.lean`; not every statement needs both relations

namespace Tie

/-! ### the readings of the loops -/

/- `self.iter_mut().for_each(f)` / `for x in self { x = f x }` is `List.map` -/
theorem forEachMut_eq_map {σ : Type} (f : σ → σ) (l : List σ) : Prim.forEachMut f l = l.map f := by
  induction l with
  | nil => rfl
  | cons a l ih => simp [Prim.forEachMut, ih]

/- `for item in xs { r &= w item; if r.is_false() { break; } }` is `r && xs.all w`: stopping at the first `false` does not change the result -/
theorem forBreak_and {σ : Type} (w : σ → Bool) (xs : List σ) (r : Bool) :
    Prim.forBreak (fun r x => r && w x) (fun r => !r) r xs = (r && xs.all w) := by
  induction xs generalizing r with
  | nil => simp [Prim.forBreak]
  | cons x xs ih =>
    simp only [Prim.forBreak, List.all_cons]
    cases h : (r && w x)
    · simp [← Bool.and_assoc, h]
    · simp only [Bool.not_true, Bool.false_eq_true, if_false]
      rw [ih, ← Bool.and_assoc, h]

/- the `for color in self { color.op_assign(x.clone()); }` loops are the model's `Ops.sliceAssign` -/
theorem forEachMut_eq_sliceAssign {α : Type} [Scalar α] (op : List α → α → List α) (cs : List (List α)) (x : α) :
    Prim.forEachMut (fun c => op c x) cs = Ops.sliceAssign op cs x := by
  induction cs with
  | nil => rfl
  | cons c cs ih => simp [Prim.forEachMut, Ops.sliceAssign, ih]

/-! ## bounds (C03) -/

section bounds
variable {γ τ : Type} [LT τ] [LE τ] [DecidableRel (α := τ) (· < ·)] [DecidableRel (α := τ) (· ≤ ·)]

/- `Alpha::min_alpha() = T::zero()`, `Alpha::max_alpha() = T::max_intensity()` -/
theorem alpha_accessors (zero maxIntensity : τ) :
    Gen.Body.alphaMinAlpha zero = zero ∧ Gen.Body.alphaMaxAlpha maxIntensity = maxIntensity := ⟨rfl, rfl⟩

/- **`Clamp for Alpha<C, T>`: the colour's own `clamp`, the alpha clamped to `[min_alpha(), max_alpha()]`** - every colour type, every alpha type; the
    upper bound is `T::max_intensity()` (255 for `u8`), not `T::one()` (`one`, registered as a possible callee, does not occur) -/
theorem alphaClamp_shape (zero maxIntensity one : τ) (clampC : γ → γ) (a : Prim.AlphaOf γ τ) :
    Gen.Body.alphaClamp zero maxIntensity one clampC a = ⟨clampC a.color, Clamp.clampV a.alpha zero maxIntensity⟩ := rfl
/- `ClampAssign for Alpha<C, T>` is the by-value form with the colour's `clamp_assign` -/
theorem alphaClampAssign_shape (zero maxIntensity one : τ) (clampAssignC : γ → γ) (a : Prim.AlphaOf γ τ) :
    Gen.Body.alphaClampAssign zero maxIntensity one clampAssignC a = Gen.Body.alphaClamp zero maxIntensity one clampAssignC a := rfl
/- `IsWithinBounds for Alpha<C, T>` -/
theorem alphaWithin_shape (zero maxIntensity one : τ) (withinC : γ → Bool) (a : Prim.AlphaOf γ τ) :
    Gen.Body.alphaWithin zero maxIntensity one withinC a = (withinC a.color && decide (zero ≤ a.alpha) && decide (a.alpha ≤ maxIntensity)) := rfl

/- `ClampAssign for [T]` is `map` of the element's `clamp_assign`, `IsWithinBounds for [T]` the conjunction over the elements -/
theorem sliceClampAssign_shape {σ : Type} (f : σ → σ) (cs : List σ) : Gen.Body.sliceClampAssign f cs = cs.map f := forEachMut_eq_map f cs
theorem sliceWithin_shape {σ : Type} (w : σ → Bool) (cs : List σ) : Gen.Body.sliceWithin w cs = cs.all w := by
  simp only [Gen.Body.sliceWithin, forBreak_and, Bool.true_and]
end bounds

section boundsModel
variable {α : Type} [LT α] [LE α] [DecidableRel (α := α) (· < ·)] [DecidableRel (α := α) (· ≤ ·)]

theorem tie_alphaClamp (bs : List (Clamp.Bound α)) (zero maxIntensity one : α) (c : List α) (a : α) :
    Gen.Body.alphaClamp zero maxIntensity one (Clamp.clampAll · bs) ⟨c, a⟩
      = ⟨(Clamp.alphaClamp bs zero maxIntensity c a).1, (Clamp.alphaClamp bs zero maxIntensity c a).2⟩ := rfl
theorem tie_alphaClampAssign (bs : List (Clamp.Bound α)) (zero maxIntensity one : α) (c : List α) (a : α) :
    Gen.Body.alphaClampAssign zero maxIntensity one (Clamp.clampAll · bs) ⟨c, a⟩
      = ⟨(Clamp.alphaClamp bs zero maxIntensity c a).1, (Clamp.alphaClamp bs zero maxIntensity c a).2⟩ := rfl
theorem tie_alphaWithin (bs : List (Clamp.Bound α)) (zero maxIntensity one : α) (c : List α) (a : α) :
    Gen.Body.alphaWithin zero maxIntensity one (Clamp.withinAll · bs) ⟨c, a⟩ = Clamp.alphaWithin bs zero maxIntensity c a := rfl
theorem tie_sliceClampAssign (bs : List (Clamp.Bound α)) (cs : List (List α)) :
    Gen.Body.sliceClampAssign (Clamp.clampAll · bs) cs = Clamp.sliceClamp bs cs := forEachMut_eq_map _ cs
theorem tie_sliceWithin (bs : List (Clamp.Bound α)) (cs : List (List α)) :
    Gen.Body.sliceWithin (Clamp.withinAll · bs) cs = Clamp.sliceWithin bs cs := sliceWithin_shape _ cs
end boundsModel

section boundsConcrete
variable {α : Type} [Scalar α]
/- composed with `Tie_Clamp.lean`: `Alpha<Rgb<S, T>, T>::clamp()` (`Rgba`), translated forwarding impl applied to the translated
    `impl_clamp!` expansion of `Rgb`, at `T::zero() = 0.0`, `T::max_intensity() = 1.0` -/
theorem alphaClamp_at_Rgb (c : V3 α) (a : α) :
    ((Gen.Body.alphaClamp 0.0 1.0 1.0 Gen.Body.clampRgb ⟨c, a⟩).color.toList, (Gen.Body.alphaClamp 0.0 1.0 1.0 Gen.Body.clampRgb ⟨c, a⟩).alpha)
      = Clamp.alphaClamp [.both Gen.Body.boundRgbMinRed Gen.Body.boundRgbMaxRed, .both Gen.Body.boundRgbMinGreen Gen.Body.boundRgbMaxGreen, .both Gen.Body.boundRgbMinBlue Gen.Body.boundRgbMaxBlue] 0.0 1.0 c.toList a := rfl
end boundsConcrete

/-! ## operators (C10) -/

section ops
variable {α : Type} [Scalar α]

/- **`Mix for Alpha`**: the factor is clamped to `[0, 1]` first, the colour is mixed by its own `mix` with the clamped factor, the alpha is
    `a + f·(b − a)` -/
theorem tie_alphaMix (mixC : List α → List α → α → List α) (a b : Ops.Alpha α) (f : α) :
    Gen.Body.alphaMix mixC a b f = Ops.Alpha.mix mixC a b f := rfl
theorem tie_alphaMixAssign (mixAssignC : List α → List α → α → List α) (a b : Ops.Alpha α) (f : α) :
    Gen.Body.alphaMixAssign mixAssignC a b f = Ops.Alpha.mixAssign mixAssignC a b f := rfl
/- `GetHue for Alpha`: the colour's hue -/
theorem tie_alphaGetHue (h : Nat) (a : Ops.Alpha α) : Gen.Body.alphaGetHue (Ops.getHue h) a = Ops.getHue h a.color := rfl
/- `lighten` on `Alpha`: the colour's own `lighten`, alpha untouched -/
theorem tie_alphaLighten (op : List α → α → List α) (a : Ops.Alpha α) (x : α) :
    Gen.Body.alphaLighten op a x = Ops.Alpha.map1 op a x := rfl
/- `lighten_fixed` on `Alpha`: the colour's own `lighten_fixed`, alpha untouched -/
theorem tie_alphaLightenFixed (op : List α → α → List α) (a : Ops.Alpha α) (x : α) :
    Gen.Body.alphaLightenFixed op a x = Ops.Alpha.map1 op a x := rfl
/- `saturate` on `Alpha`: the colour's own `saturate`, alpha untouched -/
theorem tie_alphaSaturate (op : List α → α → List α) (a : Ops.Alpha α) (x : α) :
    Gen.Body.alphaSaturate op a x = Ops.Alpha.map1 op a x := rfl
/- `saturate_fixed` on `Alpha`: the colour's own `saturate_fixed`, alpha untouched -/
theorem tie_alphaSaturateFixed (op : List α → α → List α) (a : Ops.Alpha α) (x : α) :
    Gen.Body.alphaSaturateFixed op a x = Ops.Alpha.map1 op a x := rfl
/- `with_hue` on `Alpha`: the colour's own `with_hue`, alpha untouched -/
theorem tie_alphaWithHue (op : List α → α → List α) (a : Ops.Alpha α) (x : α) :
    Gen.Body.alphaWithHue op a x = Ops.Alpha.map1 op a x := rfl
/- `shift_hue` on `Alpha`: the colour's own `shift_hue`, alpha untouched -/
theorem tie_alphaShiftHue (op : List α → α → List α) (a : Ops.Alpha α) (x : α) :
    Gen.Body.alphaShiftHue op a x = Ops.Alpha.map1 op a x := rfl
theorem tie_alphaLightenAssign (opAssign : List α → α → List α) (a : Ops.Alpha α) (x : α) :
    Gen.Body.alphaLightenAssign opAssign a x = Ops.Alpha.assign1 opAssign a x := rfl
theorem tie_alphaLightenFixedAssign (opAssign : List α → α → List α) (a : Ops.Alpha α) (x : α) :
    Gen.Body.alphaLightenFixedAssign opAssign a x = Ops.Alpha.assign1 opAssign a x := rfl
theorem tie_alphaSaturateAssign (opAssign : List α → α → List α) (a : Ops.Alpha α) (x : α) :
    Gen.Body.alphaSaturateAssign opAssign a x = Ops.Alpha.assign1 opAssign a x := rfl
theorem tie_alphaSaturateFixedAssign (opAssign : List α → α → List α) (a : Ops.Alpha α) (x : α) :
    Gen.Body.alphaSaturateFixedAssign opAssign a x = Ops.Alpha.assign1 opAssign a x := rfl
theorem tie_alphaSetHue (opAssign : List α → α → List α) (a : Ops.Alpha α) (x : α) :
    Gen.Body.alphaSetHue opAssign a x = Ops.Alpha.assign1 opAssign a x := rfl
theorem tie_alphaShiftHueAssign (opAssign : List α → α → List α) (a : Ops.Alpha α) (x : α) :
    Gen.Body.alphaShiftHueAssign opAssign a x = Ops.Alpha.assign1 opAssign a x := rfl

/-! ### arithmetic: the colour's operator on the colours, the same operator on the alphas -/
theorem tie_alphaAdd (opC : List α → List α → List α) (a b : Ops.Alpha α) :
    Gen.Body.alphaAdd opC a b = Ops.Alpha.binC opC (· + ·) a b := rfl
theorem tie_alphaAddS (opS : List α → α → List α) (a : Ops.Alpha α) (c : α) :
    Gen.Body.alphaAddS opS a c = Ops.Alpha.binS opS (· + ·) a c := rfl
theorem tie_alphaAddAssign (opAssignC : List α → List α → List α) (a b : Ops.Alpha α) :
    Gen.Body.alphaAddAssign opAssignC a b = Ops.Alpha.binAssignC opAssignC (· + ·) a b := rfl
theorem tie_alphaAddAssignS (opAssignS : List α → α → List α) (a : Ops.Alpha α) (c : α) :
    Gen.Body.alphaAddAssignS opAssignS a c = Ops.Alpha.binAssignS opAssignS (· + ·) a c := rfl
theorem tie_alphaSub (opC : List α → List α → List α) (a b : Ops.Alpha α) :
    Gen.Body.alphaSub opC a b = Ops.Alpha.binC opC (· - ·) a b := rfl
theorem tie_alphaSubS (opS : List α → α → List α) (a : Ops.Alpha α) (c : α) :
    Gen.Body.alphaSubS opS a c = Ops.Alpha.binS opS (· - ·) a c := rfl
theorem tie_alphaSubAssign (opAssignC : List α → List α → List α) (a b : Ops.Alpha α) :
    Gen.Body.alphaSubAssign opAssignC a b = Ops.Alpha.binAssignC opAssignC (· - ·) a b := rfl
theorem tie_alphaSubAssignS (opAssignS : List α → α → List α) (a : Ops.Alpha α) (c : α) :
    Gen.Body.alphaSubAssignS opAssignS a c = Ops.Alpha.binAssignS opAssignS (· - ·) a c := rfl
theorem tie_alphaMul (opC : List α → List α → List α) (a b : Ops.Alpha α) :
    Gen.Body.alphaMul opC a b = Ops.Alpha.binC opC (· * ·) a b := rfl
theorem tie_alphaMulS (opS : List α → α → List α) (a : Ops.Alpha α) (c : α) :
    Gen.Body.alphaMulS opS a c = Ops.Alpha.binS opS (· * ·) a c := rfl
theorem tie_alphaMulAssign (opAssignC : List α → List α → List α) (a b : Ops.Alpha α) :
    Gen.Body.alphaMulAssign opAssignC a b = Ops.Alpha.binAssignC opAssignC (· * ·) a b := rfl
theorem tie_alphaMulAssignS (opAssignS : List α → α → List α) (a : Ops.Alpha α) (c : α) :
    Gen.Body.alphaMulAssignS opAssignS a c = Ops.Alpha.binAssignS opAssignS (· * ·) a c := rfl
theorem tie_alphaDiv (opC : List α → List α → List α) (a b : Ops.Alpha α) :
    Gen.Body.alphaDiv opC a b = Ops.Alpha.binC opC (· / ·) a b := rfl
theorem tie_alphaDivS (opS : List α → α → List α) (a : Ops.Alpha α) (c : α) :
    Gen.Body.alphaDivS opS a c = Ops.Alpha.binS opS (· / ·) a c := rfl
theorem tie_alphaDivAssign (opAssignC : List α → List α → List α) (a b : Ops.Alpha α) :
    Gen.Body.alphaDivAssign opAssignC a b = Ops.Alpha.binAssignC opAssignC (· / ·) a b := rfl
theorem tie_alphaDivAssignS (opAssignS : List α → α → List α) (a : Ops.Alpha α) (c : α) :
    Gen.Body.alphaDivAssignS opAssignS a c = Ops.Alpha.binAssignS opAssignS (· / ·) a c := rfl
/- `SaturatingAdd` / `SaturatingSub` (integer components): the colour's and the alpha type's own saturating operator, whatever they are -/
theorem tie_alphaSaturatingAdd (opC : List α → List α → List α) (opT : α → α → α) (a b : Ops.Alpha α) :
    Gen.Body.alphaSaturatingAdd opC opT a b = Ops.Alpha.binC opC opT a b := rfl
theorem tie_alphaSaturatingAddS (opS : List α → α → List α) (opT : α → α → α) (a : Ops.Alpha α) (c : α) :
    Gen.Body.alphaSaturatingAddS opS opT a c = Ops.Alpha.binS opS opT a c := rfl
theorem tie_alphaSaturatingSub (opC : List α → List α → List α) (opT : α → α → α) (a b : Ops.Alpha α) :
    Gen.Body.alphaSaturatingSub opC opT a b = Ops.Alpha.binC opC opT a b := rfl
theorem tie_alphaSaturatingSubS (opS : List α → α → List α) (opT : α → α → α) (a : Ops.Alpha α) (c : α) :
    Gen.Body.alphaSaturatingSubS opS opT a c = Ops.Alpha.binS opS opT a c := rfl

/-! ### `[T]`: `for color in self { color.op_assign(x.clone()); }` -/
theorem tie_sliceLightenAssign (opAssign : List α → α → List α) (cs : List (List α)) (x : α) :
    Gen.Body.sliceLightenAssign opAssign cs x = Ops.sliceAssign opAssign cs x := forEachMut_eq_sliceAssign opAssign cs x
theorem tie_sliceLightenFixedAssign (opAssign : List α → α → List α) (cs : List (List α)) (x : α) :
    Gen.Body.sliceLightenFixedAssign opAssign cs x = Ops.sliceAssign opAssign cs x := forEachMut_eq_sliceAssign opAssign cs x
theorem tie_sliceSaturateAssign (opAssign : List α → α → List α) (cs : List (List α)) (x : α) :
    Gen.Body.sliceSaturateAssign opAssign cs x = Ops.sliceAssign opAssign cs x := forEachMut_eq_sliceAssign opAssign cs x
theorem tie_sliceSaturateFixedAssign (opAssign : List α → α → List α) (cs : List (List α)) (x : α) :
    Gen.Body.sliceSaturateFixedAssign opAssign cs x = Ops.sliceAssign opAssign cs x := forEachMut_eq_sliceAssign opAssign cs x
theorem tie_sliceSetHue (opAssign : List α → α → List α) (cs : List (List α)) (x : α) :
    Gen.Body.sliceSetHue opAssign cs x = Ops.sliceAssign opAssign cs x := forEachMut_eq_sliceAssign opAssign cs x
theorem tie_sliceShiftHueAssign (opAssign : List α → α → List α) (cs : List (List α)) (x : α) :
    Gen.Body.sliceShiftHueAssign opAssign cs x = Ops.sliceAssign opAssign cs x := forEachMut_eq_sliceAssign opAssign cs x

/- composed with `Tie_Ops.lean`-style instantiation: the slice form of any operator is `map` of its assigning form (C10_LawFree.sliceAssign_eq_map is
    about `Ops.sliceAssign`; this is the same statement for the translated loop) -/
theorem sliceLightenAssign_eq_map (opAssign : List α → α → List α) (cs : List (List α)) (x : α) :
    Gen.Body.sliceLightenAssign opAssign cs x = cs.map (opAssign · x) := forEachMut_eq_map _ cs
end ops

end Tie
