/-
  C06 — integer → float → the same integer type is the identity, **for every source value**, as theorems:
    u16 → f32 → u16   (all 65536 values),   u16 → f64 → u16   (all 65536 values),   u32 → f64 → u32   (all 2^32 values).
  (`u8` through `f32`/`f64`: kernel evaluation in `C06_Stimulus.lean`.)  These replace the thorough-tier kernel evaluation
  over the u16 sources for the two float round trips and give the u32 case, which no scan in Lean could reach.

  Argument (with `N = MAX`): `a = R (n/N)` is within `2^-p` of `n/N` and lies in `[0, 1]`; the conversion back returns
  `rne (R (a·N))` (`C06_StimulusAll*.lean`); `|R (a·N) − n| ≤ N·2^-p + ½ ulp(N) < ½`, so the nearest integer is `n`.
-/
import PaletteProofs.C06_StimulusAll
import PaletteProofs.C06_StimulusAll64
import PaletteProofs.Ieee.F32Ops
import PaletteProofs.Ieee.F64Ops

namespace C06
open Stim Float.Model Float.Model.UnpackedFloat Ieee

theorem rne_eq_of_near {z : ℚ} {n : ℤ} (h : |z - n| < 1 / 2) : rne z = n := by
  obtain ⟨h1, h2⟩ := abs_lt.mp h
  have hlo : ((n - 1 : ℤ) : ℚ) ≤ z := by push_cast; linarith
  by_cases hzn : (n : ℚ) ≤ z
  · rw [rne_of_floor (f := n) hzn (by linarith)]
    rw [if_pos (by linarith)]
  · rw [not_le] at hzn
    rw [rne_of_floor (f := n - 1) hlo (by push_cast; linarith)]
    push_cast
    rw [if_neg (by linarith), if_pos (by linarith)]; ring

/-! ## u16 → f32 → u16 -/

section f32
open Ieee.F32

theorem U_u16_toFloat32 (n : UInt16) : U n.toFloat32 = repack spec (UnpackedFloat.ofNat spec n.toNat) := rfl

theorem u16_toFloat32 (n : UInt16) : IsFin n.toFloat32 ∧ v n.toFloat32 = n.toNat := by
  have hlt : n.toNat < 2^24 := lt_trans n.toNat_lt (by norm_num)
  have hv : val (UnpackedFloat.ofNat spec n.toNat) = (n.toNat : ℚ) := by
    rw [val_ofNat]; exact R32_natCast hlt
  have hf := isFinite_ofNat spec n.toNat
  have hc := canon_ofNat spec n.toNat
  have hΩ : |val (UnpackedFloat.ofNat spec n.toNat)| < Ω spec := by
    rw [hv]; exact lt_Ω_of_le_nat hlt (by rw [abs_of_nonneg (by positivity)])
  unfold IsFin v
  rw [U_u16_toFloat32, repack_of_expOK spec hc (expOK_of_val_lt hc hΩ heb)]
  exact ⟨hf, hv⟩

theorem uintToF32_16_eq (n : ℕ) : uintToF32 16 n = (UInt16.ofNat n).toFloat32 / max16f := rfl

theorem u16_f32_u16_all : ∀ n : ℕ, n < 65536 → f32ToUint 16 (uintToF32 16 n) = n := by
  intro n hn
  have hnat : (UInt16.ofNat n).toNat = n := UInt16.toNat_ofNat_of_lt' hn
  obtain ⟨hfn, hvn⟩ := u16_toFloat32 (UInt16.ofNat n)
  rw [hnat] at hvn
  have hnq : (n : ℚ) ≤ 65535 := by exact_mod_cast (by omega : n ≤ 65535)
  have hn0 : (0 : ℚ) ≤ n := by positivity
  have hmx : v max16f = 65535 := by rw [v_max16f]; norm_num
  have hq0 : (0 : ℚ) ≤ (n : ℚ) / 65535 := by positivity
  have hq1 : (n : ℚ) / 65535 ≤ 1 := by rw [div_le_one (by norm_num)]; exact hnq
  obtain ⟨hfa, hva⟩ := div_of_le hfn fin_max16f (by rw [hmx]; norm_num) (n := 1) (by norm_num)
    (by rw [hvn, hmx, abs_of_nonneg hq0]; simpa using hq1)
  rw [hvn, hmx] at hva
  set x := uintToF32 16 n with hx
  have hxe : x = (UInt16.ofNat n).toFloat32 / max16f := uintToF32_16_eq n
  rw [← hxe] at hfa hva
  -- a = R32 (n/65535) ∈ [0, 1], within 2^-24 of n/65535
  have ha0 : 0 ≤ v x := by rw [hva]; exact R_nonneg hq0
  have ha1 : v x ≤ 1 := by
    rw [hva]; have := R32_mono hq1
    rwa [show (1 : ℚ) = ((1 : ℕ) : ℚ) by norm_num, R32_natCast (by norm_num)] at this
  have herr : |v x - (n : ℚ) / 65535| ≤ 2^(-24 : ℤ) := by
    rw [hva]
    have := R_error_le (p := 24) (emin := -149) (x := (n : ℚ) / 65535) (k := 1)
      (by rw [abs_of_nonneg hq0]; norm_num; linarith)
    have e : max ((1 : ℤ) - ((24 : ℕ) : ℤ)) (-149) = -23 := by norm_num
    rw [e] at this
    calc _ ≤ (2 : ℚ)^(-23 : ℤ) / 2 := this
      _ = 2^(-24 : ℤ) := by norm_num
  have h0 : zero32 ≤ x := (le_iff fin_zero32 hfa).mpr (by rw [v_zero32]; exact ha0)
  have h1 : x ≤ one32 := (le_iff hfa fin_one32).mpr (by rw [v_one32]; exact ha1)
  obtain ⟨hres, _⟩ := f32_to_u16_nearest_all x h0 h1
  rw [hres]
  -- |R32 (a·65535) − n| < 1/2
  have hz : |v x * 65535 - n| ≤ 65535 * 2^(-24 : ℤ) := by
    have : v x * 65535 - n = (v x - (n : ℚ) / 65535) * 65535 := by field_simp
    rw [this, abs_mul]; norm_num at herr ⊢; linarith
  have hzabs : |v x * 65535| < 2^(16 : ℤ) := by
    rw [abs_of_nonneg (by positivity)]; norm_num; nlinarith
  have hR := R_error_le (p := 24) (emin := -149) hzabs
  have e : max ((16 : ℤ) - ((24 : ℕ) : ℤ)) (-149) = -8 := by norm_num
  rw [e] at hR
  have hclose : |R32 (v x * 65535) - ((n : ℤ) : ℚ)| < 1 / 2 := by
    have : R32 (v x * 65535) - ((n : ℤ) : ℚ) = (R32 (v x * 65535) - v x * 65535) + (v x * 65535 - n) := by push_cast; ring
    rw [this]
    calc _ ≤ |R32 (v x * 65535) - v x * 65535| + |v x * 65535 - n| := abs_add_le _ _
      _ ≤ 2^(-8 : ℤ) / 2 + 65535 * 2^(-24 : ℤ) := add_le_add hR hz
      _ < 1 / 2 := by norm_num
  rw [rne_eq_of_near hclose]; simp

/-- value of `u16 → f32`: the correctly rounded quotient -/
theorem u16_to_f32_value (n : ℕ) (hn : n < 65536) :
    IsFin (uintToF32 16 n) ∧ v (uintToF32 16 n) = R32 ((n : ℚ) / 65535) := by
  have hnat : (UInt16.ofNat n).toNat = n := UInt16.toNat_ofNat_of_lt' hn
  obtain ⟨hfn, hvn⟩ := u16_toFloat32 (UInt16.ofNat n)
  rw [hnat] at hvn
  have hnq : (n : ℚ) ≤ 65535 := by exact_mod_cast (by omega : n ≤ 65535)
  have hmx : v max16f = 65535 := by rw [v_max16f]; norm_num
  have hq0 : (0 : ℚ) ≤ (n : ℚ) / 65535 := by positivity
  have hq1 : (n : ℚ) / 65535 ≤ 1 := by rw [div_le_one (by norm_num)]; exact hnq
  obtain ⟨hfa, hva⟩ := div_of_le hfn fin_max16f (by rw [hmx]; norm_num) (n := 1) (by norm_num)
    (by rw [hvn, hmx, abs_of_nonneg hq0]; simpa using hq1)
  rw [hvn, hmx] at hva
  exact ⟨hfa, hva⟩

/-- **u16 → f32 is monotone** (IEEE `≤` on the results) -/
theorem u16_to_f32_monotone_all : ∀ n n' : ℕ, n ≤ n' → n' < 65536 → uintToF32 16 n ≤ uintToF32 16 n' := by
  intro n n' h hn'
  obtain ⟨f1, v1⟩ := u16_to_f32_value n (by omega)
  obtain ⟨f2, v2⟩ := u16_to_f32_value n' hn'
  rw [le_iff f1 f2, v1, v2]
  apply R32_mono
  exact div_le_div_of_nonneg_right (by exact_mod_cast h) (by norm_num)

end f32

/-! ## u16 → f64 → u16,  u32 → f64 → u32 -/

section f64
open Ieee.F64

theorem U_u16_toFloat (n : UInt16) : U n.toFloat = repack spec (UnpackedFloat.ofNat spec n.toNat) := rfl

theorem u16_toFloat (n : UInt16) : IsFin n.toFloat ∧ v n.toFloat = n.toNat := by
  have hlt : n.toNat < 2^53 := lt_trans n.toNat_lt (by norm_num)
  have hv : val (UnpackedFloat.ofNat spec n.toNat) = (n.toNat : ℚ) := by
    rw [val_ofNat]; exact R64_natCast hlt
  have hf := isFinite_ofNat spec n.toNat
  have hc := canon_ofNat spec n.toNat
  have hΩ : |val (UnpackedFloat.ofNat spec n.toNat)| < Ω spec := by
    rw [hv]; exact lt_Ω_of_le_nat hlt (by rw [abs_of_nonneg (by positivity)])
  unfold IsFin v
  rw [U_u16_toFloat, repack_of_expOK spec hc (expOK_of_val_lt hc hΩ heb)]
  exact ⟨hf, hv⟩

/-- the common argument: a finite `x` with value `R64 (n/N)` converts back to `n` -/
theorem back64 {w : ℕ} {N : ℕ} (hm : IsFin (maxF64 w)) (hN : v (maxF64 w) = N) (hNpos : 0 < N) (hNle : N ≤ 2^32 - 1)
    (heq : ∀ x, f64ToUint w x = (f64Direct (maxF64 w) x).toNat % 2^w) (hw : N < 2^w)
    {x : Float} (hfx : IsFin x) {n : ℕ} (hn : n ≤ N) (hvx : v x = R64 ((n : ℚ) / N)) : f64ToUint w x = n := by
  have hNq : (0 : ℚ) < N := by exact_mod_cast hNpos
  have hnq : (n : ℚ) ≤ N := by exact_mod_cast hn
  have hN32 : (N : ℚ) < 2^32 := by
    have : N < 2^32 := by omega
    exact_mod_cast this
  have hq0 : (0 : ℚ) ≤ (n : ℚ) / N := by positivity
  have hq1 : (n : ℚ) / N ≤ 1 := by rw [div_le_one hNq]; exact hnq
  have ha0 : 0 ≤ v x := by rw [hvx]; exact R_nonneg hq0
  have ha1 : v x ≤ 1 := by
    rw [hvx]; have := R64_mono hq1
    rwa [show (1 : ℚ) = ((1 : ℕ) : ℚ) by norm_num, R64_natCast (by norm_num)] at this
  have herr : |v x - (n : ℚ) / N| ≤ 2^(-53 : ℤ) := by
    rw [hvx]
    have := R_error_le (p := 53) (emin := -1074) (x := (n : ℚ) / N) (k := 1)
      (by rw [abs_of_nonneg hq0]; norm_num; linarith)
    have e : max ((1 : ℤ) - ((53 : ℕ) : ℤ)) (-1074) = -52 := by norm_num
    rw [e] at this
    calc _ ≤ (2 : ℚ)^(-52 : ℤ) / 2 := this
      _ = 2^(-53 : ℤ) := by
          rw [show (-52 : ℤ) = -53 + 1 by norm_num, zpow_add₀ (by norm_num)]; ring
  have hNle' : N ≤ 2^52 - 1 := le_trans hNle (by norm_num)
  have hle := direct64_le hm hN hNpos hNle' x
  have h0 : zero64 ≤ x := (le_iff fin_zero64 hfx).mpr (by rw [v_zero64]; exact ha0)
  have h1 : x ≤ one64 := (le_iff hfx fin_one64).mpr (by rw [v_one64]; exact ha1)
  obtain ⟨hres, _⟩ := direct64_nearest hm hN hNpos hNle' x h0 h1 (k := 32) (by exact_mod_cast hN32) (by norm_num)
  rw [heq, Nat.mod_eq_of_lt (lt_of_le_of_lt hle hw), hres]
  have hz : |v x * N - n| ≤ N * 2^(-53 : ℤ) := by
    have : v x * N - n = (v x - (n : ℚ) / N) * N := by field_simp
    rw [this, abs_mul, abs_of_pos hNq, mul_comm]
    exact mul_le_mul_of_nonneg_left herr hNq.le
  have hzabs : |v x * N| < 2^(32 : ℤ) := by
    rw [abs_of_nonneg (by positivity)]
    calc v x * N ≤ 1 * N := mul_le_mul_of_nonneg_right ha1 hNq.le
      _ < 2^(32 : ℤ) := by rw [one_mul]; exact_mod_cast hN32
  have hR := R_error_le (p := 53) (emin := -1074) hzabs
  have e : max ((32 : ℤ) - ((53 : ℕ) : ℤ)) (-1074) = -21 := by norm_num
  rw [e] at hR
  have h53 : (N : ℚ) * 2^(-53 : ℤ) ≤ 2^32 * 2^(-53 : ℤ) :=
    mul_le_mul_of_nonneg_right hN32.le (by positivity)
  have hclose : |R64 (v x * N) - ((n : ℤ) : ℚ)| < 1 / 2 := by
    have : R64 (v x * N) - ((n : ℤ) : ℚ) = (R64 (v x * N) - v x * N) + (v x * N - n) := by push_cast; ring
    rw [this]
    calc _ ≤ |R64 (v x * N) - v x * N| + |v x * N - n| := abs_add_le _ _
      _ ≤ 2^(-21 : ℤ) / 2 + 2^32 * 2^(-53 : ℤ) := add_le_add hR (le_trans hz h53)
      _ < 1 / 2 := by norm_num
  rw [rne_eq_of_near hclose]; simp

theorem uintToF64_16_eq (n : ℕ) : uintToF64 16 n = (UInt16.ofNat n).toFloat / maxF64 16 := rfl
theorem uintToF64_32_eq (n : ℕ) (h : n < 2^64) : uintToF64 32 n = (UInt64.ofNat n).toFloat / maxF64 32 := by
  show natToF64 n / maxF64 32 = _
  unfold natToF64; rw [if_pos h]

theorem u16_f64_u16_all : ∀ n : ℕ, n < 65536 → f64ToUint 16 (uintToF64 16 n) = n := by
  intro n hn
  have hnat : (UInt16.ofNat n).toNat = n := UInt16.toNat_ofNat_of_lt' hn
  obtain ⟨hfn, hvn⟩ := u16_toFloat (UInt16.ofNat n)
  rw [hnat] at hvn
  have hmx : v (maxF64 16) = 65535 := by rw [v_maxF64_16]; norm_num
  have hnq : (n : ℚ) ≤ 65535 := by exact_mod_cast (by omega : n ≤ 65535)
  have hq0 : (0 : ℚ) ≤ (n : ℚ) / 65535 := by positivity
  have hq1 : (n : ℚ) / 65535 ≤ 1 := by rw [div_le_one (by norm_num)]; exact hnq
  obtain ⟨hfa, hva⟩ := div_of_le hfn fin_maxF64_16 (by rw [hmx]; norm_num) (n := 1) (by norm_num)
    (by rw [hvn, hmx, abs_of_nonneg hq0]; simpa using hq1)
  rw [hvn, hmx] at hva
  rw [uintToF64_16_eq]
  exact back64 (w := 16) (N := 65535) fin_maxF64_16 v_maxF64_16 (by norm_num) (by norm_num) f64ToUint16_eq (by norm_num)
    hfa (by omega) (by rw [hva]; norm_num)

theorem u32_f64_u32_all : ∀ n : ℕ, n < 2^32 → f64ToUint 32 (uintToF64 32 n) = n := by
  intro n hn
  have hn64 : n < 2^64 := lt_trans hn (by norm_num)
  have hnat : (UInt64.ofNat n).toNat = n := UInt64.toNat_ofNat_of_lt' hn64
  obtain ⟨hfn, hvn⟩ := toFloat_small (UInt64.ofNat n) (by rw [hnat]; exact lt_trans hn (by norm_num))
  rw [hnat] at hvn
  have hmx : v (maxF64 32) = 4294967295 := by rw [v_maxF64_32]; norm_num
  have hnq : (n : ℚ) ≤ 4294967295 := by exact_mod_cast (by omega : n ≤ 4294967295)
  have hq0 : (0 : ℚ) ≤ (n : ℚ) / 4294967295 := by positivity
  have hq1 : (n : ℚ) / 4294967295 ≤ 1 := by rw [div_le_one (by norm_num)]; exact hnq
  obtain ⟨hfa, hva⟩ := div_of_le hfn fin_maxF64_32 (by rw [hmx]; norm_num) (n := 1) (by norm_num)
    (by rw [hvn, hmx, abs_of_nonneg hq0]; simpa using hq1)
  rw [hvn, hmx] at hva
  rw [uintToF64_32_eq n hn64]
  exact back64 (w := 32) (N := 4294967295) fin_maxF64_32 v_maxF64_32 (by norm_num) (by norm_num) f64ToUint32_eq (by norm_num)
    hfa (by omega) (by rw [hva]; norm_num)

theorem u16_to_f64_value (n : ℕ) (hn : n < 65536) :
    IsFin (uintToF64 16 n) ∧ v (uintToF64 16 n) = R64 ((n : ℚ) / 65535) := by
  have hnat : (UInt16.ofNat n).toNat = n := UInt16.toNat_ofNat_of_lt' hn
  obtain ⟨hfn, hvn⟩ := u16_toFloat (UInt16.ofNat n)
  rw [hnat] at hvn
  have hmx : v (maxF64 16) = 65535 := by rw [v_maxF64_16]; norm_num
  have hnq : (n : ℚ) ≤ 65535 := by exact_mod_cast (by omega : n ≤ 65535)
  have hq0 : (0 : ℚ) ≤ (n : ℚ) / 65535 := by positivity
  have hq1 : (n : ℚ) / 65535 ≤ 1 := by rw [div_le_one (by norm_num)]; exact hnq
  obtain ⟨hfa, hva⟩ := div_of_le hfn fin_maxF64_16 (by rw [hmx]; norm_num) (n := 1) (by norm_num)
    (by rw [hvn, hmx, abs_of_nonneg hq0]; simpa using hq1)
  rw [hvn, hmx] at hva
  exact ⟨hfa, hva⟩

theorem u32_to_f64_value (n : ℕ) (hn : n < 2^32) :
    IsFin (uintToF64 32 n) ∧ v (uintToF64 32 n) = R64 ((n : ℚ) / 4294967295) := by
  have hn64 : n < 2^64 := lt_trans hn (by norm_num)
  have hnat : (UInt64.ofNat n).toNat = n := UInt64.toNat_ofNat_of_lt' hn64
  obtain ⟨hfn, hvn⟩ := toFloat_small (UInt64.ofNat n) (by rw [hnat]; exact lt_trans hn (by norm_num))
  rw [hnat] at hvn
  have hmx : v (maxF64 32) = 4294967295 := by rw [v_maxF64_32]; norm_num
  have hnq : (n : ℚ) ≤ 4294967295 := by exact_mod_cast (by omega : n ≤ 4294967295)
  have hq0 : (0 : ℚ) ≤ (n : ℚ) / 4294967295 := by positivity
  have hq1 : (n : ℚ) / 4294967295 ≤ 1 := by rw [div_le_one (by norm_num)]; exact hnq
  obtain ⟨hfa, hva⟩ := div_of_le hfn fin_maxF64_32 (by rw [hmx]; norm_num) (n := 1) (by norm_num)
    (by rw [hvn, hmx, abs_of_nonneg hq0]; simpa using hq1)
  rw [hvn, hmx] at hva
  rw [uintToF64_32_eq n hn64]
  exact ⟨hfa, hva⟩

/-- **u16 → f64 and u32 → f64 are monotone** -/
theorem u16_to_f64_monotone_all : ∀ n n' : ℕ, n ≤ n' → n' < 65536 → uintToF64 16 n ≤ uintToF64 16 n' := by
  intro n n' h hn'
  obtain ⟨f1, v1⟩ := u16_to_f64_value n (by omega)
  obtain ⟨f2, v2⟩ := u16_to_f64_value n' hn'
  rw [le_iff f1 f2, v1, v2]
  apply R64_mono
  exact div_le_div_of_nonneg_right (by exact_mod_cast h) (by norm_num)

theorem u32_to_f64_monotone_all : ∀ n n' : ℕ, n ≤ n' → n' < 2^32 → uintToF64 32 n ≤ uintToF64 32 n' := by
  intro n n' h hn'
  obtain ⟨f1, v1⟩ := u32_to_f64_value n (by omega)
  obtain ⟨f2, v2⟩ := u32_to_f64_value n' hn'
  rw [le_iff f1 f2, v1, v2]
  apply R64_mono
  exact div_le_div_of_nonneg_right (by exact_mod_cast h) (by norm_num)

end f64

end C06
