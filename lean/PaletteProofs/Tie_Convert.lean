/-
  Tie of the conversion-trait glue (C03: "the clamping conversion equals the unclamped conversion followed by clamping, and the
  checked conversion succeeds exactly when the unclamped result is within bounds, returning that same value or handing it back
  inside the error") to the *text* of `palette/src/convert/from_into_color.rs`, `try_from_into_color.rs`, `from_into_color_unclamped.rs`.

  `tools/extract.py` (`gen_bodies_glue`, translator `tools/rust2lean_glue.py`, family `convert`) re-reads on every run the blanket impls
  `impl<T, U> FromColor<T> for U`, `impl<T, U> TryFromColor<T> for U`, `IntoColor`, `TryIntoColor`, `IntoColorUnclamped`, the `Vec<T>` and
  `Box<[T]>` impls of `FromColor` / `FromColorUnclamped`, and `OutOfBounds::new` / `::color`, and translates each body into
  `Gen.Body.<name>` (lean/PaletteModel/Gen/BodiesConvert.lean).  This code is generic over *types* and does nothing but dispatch through
  trait bounds, so the translation is generic over Lean types and every trait-dispatched callee (`Self::from_color_unclamped`, `.clamp()`,
  `.is_within_bounds()`, `U::from_color`) is a **parameter**.  Each theorem is therefore a statement about **every** unclamped conversion and
  **every** `clamp` / `is_within_bounds` implementation in the crate at once - all colour types, `Alpha` wrappers, HWB, integer components -
  which is what the level_note of C03 listed as "oracle on 21 representative pairs":

    * `*_shape`: the translated body, for every value of its parameters, is the composition the property names
      (`fromColor u clamp = fun t => clamp (u t)`; `tryFromColor u within t = if within (u t) then Ok (u t) else Err (OutOfBounds (u t))`;
      the collection forms are `List.map` of the element function);
    * `tie_<name>`: instantiated at the model's `Clamp.clampAll · bs` / `Clamp.withinAll · bs` it *is* the model function of
      `PaletteModel/ClampForms.lean` (`Clamp.fromColorOf`, `tryFromOf`, `fromColorList`, `unclampedList`), about which
      `PaletteProofs/C03_Forms.lean` proves the contract from the theorems of `C03_Clamp.lean`;
    * `fromColor_at_Lab`, `fromColor_at_Hwb`, `tryFromColor_at_Lab`: composed with the per-type ties of `Tie_Clamp.lean` - the translated
      blanket impl applied to the translated `clamp` / `is_within_bounds` of a concrete type is the model at that type's bounds table.

  So `from_color_unclamped(t)` without `.clamp()`, `Ok(this.clamp())`, `Err` and `Ok` swapped, a `Box<[T]>` form that maps another function
  than `U::from_color` - each is a broken obligation naming the impl, for every type pair, where the oracle samples 21.

  Read, not translated: `cast::map_vec_in_place` / `map_slice_box_in_place` (unsafe; `Prim.mapInPlace`, text pinned by digest).
  NOT translated: header of Gen/BodiesConvert.lean.
-/
import PaletteModel.Gen.BodiesConvert
import PaletteProofs.Tie_Clamp

set_option linter.unusedSectionVars false   -- one `variable` line with the order instances of `Clamp.lean`; not every statement needs both relations

namespace Tie

/- the reading of `cast::map_vec_in_place` / `map_slice_box_in_place` (read, map, write back, item by item) is `List.map` -/
theorem mapInPlace_eq_map {σ τ : Type} (f : σ → τ) (l : List σ) : Prim.mapInPlace f l = l.map f := by
  induction l with
  | nil => rfl
  | cons a l ih => simp [Prim.mapInPlace, ih]

section shape
variable {σ τ : Type}

/-! ### the bodies, for every unclamped conversion `u` and every `clamp` / `is_within_bounds` -/

/- **`FromColor`: the clamping conversion is the unclamped conversion followed by clamping** - for every pair of types, every
    `FromColorUnclamped` impl and every `Clamp` impl -/
theorem fromColor_shape (u : σ → τ) (clamp : τ → τ) : Gen.Body.fromColor u clamp = fun t => clamp (u t) := rfl

/- `Vec<U>::from_color(Vec<T>)` and `Box<[U]>::from_color(Box<[T]>)` are `map` of the element's *clamping* conversion `U::from_color` (`f`), not of
    the unclamped one (`u`), which is also in scope for `U` -/
theorem fromColorVec_shape (f u : σ → τ) (ts : List σ) : Gen.Body.fromColorVec f u ts = ts.map f := mapInPlace_eq_map f ts
theorem fromColorBox_shape (f u : σ → τ) (ts : List σ) : Gen.Body.fromColorBox f u ts = ts.map f := mapInPlace_eq_map f ts
theorem intoColor_shape (f : σ → τ) (t : σ) : Gen.Body.intoColor f t = f t := rfl

/- **`TryFromColor`: `Ok` of the unclamped result exactly when it reports itself within bounds, otherwise the same value inside the error**; the value
    is never clamped (`clamp`, the type's `Clamp::clamp`, is registered as a possible callee and does not occur) -/
theorem tryFromColor_shape (u : σ → τ) (within : τ → Bool) (clamp : τ → τ) (t : σ) :
    Gen.Body.tryFromColor u within clamp t = if within (u t) = true then Except.ok (u t) else Except.error (Prim.OutOfBounds.mk (u t)) := rfl
theorem tryFromColor_ok_iff (u : σ → τ) (within : τ → Bool) (clamp : τ → τ) (t : σ) :
    Gen.Body.tryFromColor u within clamp t = Except.ok (u t) ↔ within (u t) = true := by
  rw [tryFromColor_shape]; split <;> simp_all
theorem tryFromColor_err_iff (u : σ → τ) (within : τ → Bool) (clamp : τ → τ) (t : σ) :
    Gen.Body.tryFromColor u within clamp t = Except.error (Gen.Body.outOfBoundsNew (u t)) ↔ within (u t) = false := by
  rw [tryFromColor_shape]; split <;> simp_all [Gen.Body.outOfBoundsNew]
/- `OutOfBounds::color` hands back the colour `OutOfBounds::new` was given -/
theorem outOfBounds_color_new (c : τ) : Gen.Body.outOfBoundsColor (Gen.Body.outOfBoundsNew c) = c := rfl
theorem tryIntoColor_shape (f : σ → Except (Prim.OutOfBounds τ) τ) (t : σ) : Gen.Body.tryIntoColor f t = f t := rfl
end shape

section model
variable {σ τ α : Type} [LT α] [LE α] [DecidableRel (α := α) (· < ·)] [DecidableRel (α := α) (· ≤ ·)]

/-! ### the same bodies at the model's `clampAll` / `withinAll` = the model functions of `PaletteModel/ClampForms.lean` -/

theorem tie_fromColor (u : σ → List α) (bs : List (Clamp.Bound α)) :
    Gen.Body.fromColor u (Clamp.clampAll · bs) = Clamp.fromColorOf u bs := rfl

theorem tie_fromColorVec (u : σ → List α) (bs : List (Clamp.Bound α)) (ts : List σ) :
    Gen.Body.fromColorVec (Gen.Body.fromColor u (Clamp.clampAll · bs)) u ts = Clamp.fromColorList u bs ts :=
  mapInPlace_eq_map _ ts
theorem tie_fromColorBox (u : σ → List α) (bs : List (Clamp.Bound α)) (ts : List σ) :
    Gen.Body.fromColorBox (Gen.Body.fromColor u (Clamp.clampAll · bs)) u ts = Clamp.fromColorList u bs ts :=
  mapInPlace_eq_map _ ts
theorem tie_intoColor (u : σ → List α) (bs : List (Clamp.Bound α)) (t : σ) :
    Gen.Body.intoColor (Gen.Body.fromColor u (Clamp.clampAll · bs)) t = Clamp.fromColorOf u bs t := rfl

theorem tie_fromColorUnclampedVec (u : σ → τ) (ts : List σ) : Gen.Body.fromColorUnclampedVec u ts = Clamp.unclampedList u ts :=
  mapInPlace_eq_map u ts
theorem tie_fromColorUnclampedBox (u : σ → τ) (ts : List σ) : Gen.Body.fromColorUnclampedBox u ts = Clamp.unclampedList u ts :=
  mapInPlace_eq_map u ts
theorem tie_intoColorUnclamped (u : σ → τ) (t : σ) : Gen.Body.intoColorUnclamped u t = Clamp.intoUnclampedOf u t := rfl

/- the model's `Except (List α) (List α)` carries the colour itself in the error; the source wraps it in `OutOfBounds`, whose only
    accessor `color()` returns it -/
theorem tie_tryFromColor (u : σ → List α) (bs : List (Clamp.Bound α)) (t : σ) :
    (Gen.Body.tryFromColor u (Clamp.withinAll · bs) (Clamp.clampAll · bs) t).mapError Gen.Body.outOfBoundsColor = Clamp.tryFromOf u bs t := by
  simp only [Gen.Body.tryFromColor, Clamp.tryFromOf, Clamp.tryFrom]
  split <;> rfl
theorem tie_tryIntoColor (u : σ → List α) (bs : List (Clamp.Bound α)) (t : σ) :
    (Gen.Body.tryIntoColor (Gen.Body.tryFromColor u (Clamp.withinAll · bs) (Clamp.clampAll · bs)) t).mapError Gen.Body.outOfBoundsColor = Clamp.tryFromOf u bs t :=
  tie_tryFromColor u bs t
end model

section concrete
variable {σ α : Type} [Scalar α]

/-! ### composed with the per-type ties of `Tie_Clamp.lean`: blanket impl ∘ translated `clamp` of a concrete type -/

/- `Lab::from_color(t)` for any source type and any unclamped conversion into `Lab`: translated blanket impl applied to the translated
    `impl_clamp!` expansion = the model at Lab's bounds table -/
theorem fromColor_at_Lab (u : σ → V3 α) (t : σ) :
    (Gen.Body.fromColor u Gen.Body.clampLab t).toList
      = Clamp.fromColorOf (fun t => (u t).toList) [.both Gen.Body.boundLabMinL Gen.Body.boundLabMaxL, .both Gen.Body.boundLabMinA Gen.Body.boundLabMaxA, .both Gen.Body.boundLabMinB Gen.Body.boundLabMaxB] t :=
  tie_clampLab (u t)

/- the same for a type whose `clamp` is not a bounds table: `Hwb::from_color(t)` -/
theorem fromColor_at_Hwb (u : σ → V3 α) (t : σ) :
    Gen.Body.fromColor u Gen.Body.clampHwb t
      = ⟨(u t).c0, (Clamp.hwbClamp 0.0 1.0 (u t).c1 (u t).c2).1, (Clamp.hwbClamp 0.0 1.0 (u t).c1 (u t).c2).2⟩ :=
  tie_clampHwb (u t)

/- `Lab::try_from_color(t)`: translated blanket impl applied to the translated `impl_is_within_bounds!` expansion -/
theorem tryFromColor_at_Lab (u : σ → V3 α) (t : σ) :
    (((Gen.Body.tryFromColor u Gen.Body.withinLab Gen.Body.clampLab t).mapError Gen.Body.outOfBoundsColor).map V3.toList).mapError V3.toList
      = Clamp.tryFromOf (fun t => (u t).toList) [.both Gen.Body.boundLabMinL Gen.Body.boundLabMaxL, .both Gen.Body.boundLabMinA Gen.Body.boundLabMaxA, .both Gen.Body.boundLabMinB Gen.Body.boundLabMaxB] t := by
  simp only [Gen.Body.tryFromColor, Clamp.tryFromOf, Clamp.tryFrom, tie_withinLab]
  split <;> rfl
end concrete

end Tie
