/-
  C05 — **the float → u8 lookup-table encoders are within 0.6 of one code of the exact transfer curve at every REAL number of [0, 1]
  that rounds to the f32 handed to them** (hence for the `f64 → u8` path, which narrows first: `C05_F64Bound.lean`).

    theorem fromLinearU8_faithful_near (e : Enc) (b : Nat) (hb : b ≤ 0x3f800000) (x : ℝ) (hx0 : 0 ≤ x) (hx1 : x ≤ 1)
        (hn : Near x b) :   -- |x − f32val b| ≤ 2^expo b / 2^151, half a unit in the last place of `b`
        |(fromLinearU8 e b : ℝ) − 255 · fromLinear (curveOf e) x| < 0.6

  The curve is evaluated at `x` itself (the toe/power branch is chosen by `x`, not by the rounded value), the code is the one of the
  pattern `b`.  With `x = f32val b` this is `C05E.fromLinearU8_faithful` again; the constant stays 0.6 because the kernel evaluation
  (modules `C05_Mid{Srgb,Rec,Adobe,P3}`, 141 312 blocks + 2 ends per encoder) checks the two-sided bound half an ulp beyond the first
  and the last f32 of every block, and at the real knee of the standard where a block contains it.
-/
import PaletteProofs.C05_ErrBound
import PaletteProofs.Lemmas.C05_MidReal
import PaletteProofs.C05_MidSrgb
import PaletteProofs.C05_MidRec
import PaletteProofs.C05_MidAdobe
import PaletteProofs.C05_MidP3

namespace C05M
open Lut Transfer C05 C05T C05E

theorem td_pos (e : Enc) : 0 < Enc.td e := by cases e <;> decide

theorem mant_zero : mant 0 = 0 := by decide
theorem expo_zero : expo 0 = 1 := by decide

/-- the block of patterns around `b`, its code, and the real interval it covers -/
theorem block_of (e : Enc)
    (hcells : ∀ j, j < e.table.length →
      cellMidOK (Enc.toe e) (Enc.pow e) (Enc.tn e) (Enc.td e) (e.table.getD j 0) (e.minFloat + j * 2^20) 256 = true)
    (hends : endsOK e = true)
    (b : Nat) (hb : b ≤ 0x3f800000) (x : ℝ) (hx0 : 0 ≤ x) (hn : Near x b) :
    ∃ lo hi, blockMidOK (Enc.toe e) (Enc.pow e) (Enc.tn e) (Enc.td e) (fromLinearU8 e b) lo hi = true ∧
      pt (loM lo) (expo lo) D ≤ x ∧ x ≤ pt (hiM hi) (expo hi) D := by
  have he := Enc.mem_all e
  have hF := facts e he
  simp only [factsOK, Bool.and_eq_true, Bool.or_eq_true, decide_eq_true_eq] at hF
  obtain ⟨⟨⟨⟨⟨⟨⟨⟨⟨_, _⟩, _⟩, _⟩, _⟩, hcode0⟩, _⟩, _⟩, hmin0⟩, hminmax⟩ := hF
  have hmax : Gen.Lut.maxFloatBits = 0x3f7fffff := geometry.2.2.2.2.2.2.1
  have hal : e.minFloat % 2^20 = 0 := (geometry.2.2.2.2.2.2.2.1 e he).2.2
  simp only [endsOK, Bool.and_eq_true] at hends
  by_cases hlow : b ≤ e.minFloat
  · -- code 0
    have hcode : fromLinearU8 e b = 0 := by
      unfold fromLinearU8 encU8
      rw [clampBits_low _ _ _ hlow (by omega)]; exact hcode0
    refine ⟨0, e.minFloat, by rw [hcode]; exact hends.1, ?_, le_trans (hi_of_near hn) (hi_mono hlow)⟩
    have : pt (loM 0) (expo 0) D = 0 := by unfold pt loM; rw [mant_zero]; simp
    rw [this]; exact hx0
  by_cases hb1 : b = 0x3f800000
  · subst hb1
    have hcode : fromLinearU8 e 0x3f800000 = 255 := high_saturates e 0x3f800000 (by omega) (by omega)
    refine ⟨0x3f800000, 0x3f800000, by rw [hcode]; exact hends.2, lo_of_near (by decide) hn, hi_of_near hn⟩
  · obtain ⟨j, t, hj, ht, hcode, hlo, hhi⟩ := code_block e b (by omega) (by omega)
    have hblk := cellMidOK_get _ _ _ _ _ _ 256 (hcells j hj) t ht
    have p20 : (2:Nat)^20 = 1048576 := by decide
    rw [p20] at hal hlo hhi hblk
    obtain ⟨l, u⟩ := near_in_block (lo := e.minFloat + j * 1048576 + t * 4096) (by omega) (by omega) hlo hhi hn
    exact ⟨_, _, by rw [hcode]; exact hblk, l, u⟩

/-- **generic form**: any real function that is, piece by piece (toe below the real knee `θ = tn/td`, power segment above, either
    at `θ`), the integer-form curve of `e` is tracked within 0.6 at every real that rounds to the pattern -/
theorem faithful_near_of_link (e : Enc) (f : ℝ → ℝ)
    (hcells : ∀ j, j < e.table.length →
      cellMidOK (Enc.toe e) (Enc.pow e) (Enc.tn e) (Enc.td e) (e.table.getD j 0) (e.minFloat + j * 2^20) 256 = true)
    (hends : endsOK e = true)
    (htoe : ∀ x, 0 ≤ x → x < (Enc.tn e : ℝ) / Enc.td e → 255 * f x = (Enc.toe e).scaled x)
    (hpow : ∀ x, (Enc.tn e : ℝ) / Enc.td e < x → x ≤ 1 → 255 * f x = (Enc.pow e).scaled x)
    (hat : 255 * f ((Enc.tn e : ℝ) / Enc.td e) = (Enc.toe e).scaled ((Enc.tn e : ℝ) / Enc.td e) ∨
           255 * f ((Enc.tn e : ℝ) / Enc.td e) = (Enc.pow e).scaled ((Enc.tn e : ℝ) / Enc.td e))
    (b : Nat) (hb : b ≤ 0x3f800000) (x : ℝ) (hx0 : 0 ≤ x) (hx1 : x ≤ 1) (hn : Near x b) :
    |(fromLinearU8 e b : ℝ) - 255 * f x| < 0.6 := by
  have hF := facts e (Enc.mem_all e)
  simp only [factsOK, Bool.and_eq_true, Bool.or_eq_true, decide_eq_true_eq] at hF
  obtain ⟨⟨⟨⟨⟨⟨⟨⟨⟨hwt, hwp⟩, _⟩, _⟩, _⟩, _⟩, _⟩, _⟩, _⟩, _⟩ := hF
  obtain ⟨lo, hi, hblk, hl, hu⟩ := block_of e hcells hends b hb x hx0 hn
  obtain ⟨A, B⟩ := blockMid_real _ _ (Piece.wf_iff _ hwt) (Piece.wf_iff _ hwp) _ _ _ lo hi (td_pos e) hblk x hl hu
  rcases lt_trichotomy x ((Enc.tn e : ℝ) / Enc.td e) with h | h | h
  · rw [htoe x hx0 h]
    obtain ⟨l, u⟩ := A (le_of_lt h)
    rw [abs_lt]; constructor <;> linarith
  · rcases hat with ha | ha
    · rw [h, ha]
      obtain ⟨l, u⟩ := A (le_of_eq h)
      rw [h] at l u
      rw [abs_lt]; constructor <;> linarith
    · rw [h, ha]
      obtain ⟨l, u⟩ := B (le_of_eq h.symm)
      rw [h] at l u
      rw [abs_lt]; constructor <;> linarith
  · rw [hpow x h hx1]
    obtain ⟨l, u⟩ := B (le_of_lt h)
    rw [abs_lt]; constructor <;> linarith

/-! ## the four curves are their integer forms, at every real -/

theorem srgb_theta : ((Enc.tn .srgb : ℕ) : ℝ) / ((Enc.td .srgb : ℕ) : ℝ) = 0.0031308 := by
  simp only [Enc.tn, Enc.td]; norm_num
theorem rec_theta : ((Enc.tn .recOetf : ℕ) : ℝ) / ((Enc.td .recOetf : ℕ) : ℝ) = 0.018053968510807 := by
  simp only [Enc.tn, Enc.td]; norm_num
theorem adobe_theta : ((Enc.tn .adobeRgb : ℕ) : ℝ) / ((Enc.td .adobeRgb : ℕ) : ℝ) = 0 := by
  simp only [Enc.tn, Enc.td]; norm_num
theorem p3_theta : ((Enc.tn .p3Gamma : ℕ) : ℝ) / ((Enc.td .p3Gamma : ℕ) : ℝ) = 0 := by
  simp only [Enc.tn, Enc.td]; norm_num

theorem srgb_toe_real {x : ℝ} (hx : x ≤ 0.0031308) : 255 * srgbFromLinear x = srgbToe.scaled x := by
  rw [srgbFrom_lo hx]
  simp only [Piece.scaled, srgbToe, exp_one_one, Real.rpow_one]
  norm_num; ring

theorem srgb_pow_real {x : ℝ} (hx : (0.0031308:ℝ) < x) : 255 * srgbFromLinear x = srgbPow.scaled x := by
  rw [srgbFrom_hi (not_le.mpr hx)]
  have he : ((1.0:ℝ) / 2.4) = ((5:ℕ):ℝ) / ((12:ℕ):ℝ) := by norm_num
  simp only [Piece.scaled, srgbPow]
  rw [he]
  generalize x ^ (((5:ℕ):ℝ) / ((12:ℕ):ℝ)) = y
  norm_num; ring

theorem rec_toe_real {x : ℝ} (hx : x < 0.018053968510807) : 255 * recFromLinear x = recToe.scaled x := by
  rw [recFrom_lo hx]
  simp only [Piece.scaled, recToe, exp_one_one, Real.rpow_one]
  norm_num; ring

theorem rec_pow_real {x : ℝ} (hx : (0.018053968510807:ℝ) ≤ x) : 255 * recFromLinear x = recPow.scaled x := by
  rw [recFrom_hi (not_lt.mpr hx)]
  have he : (0.45:ℝ) = ((9:ℕ):ℝ) / ((20:ℕ):ℝ) := by norm_num
  simp only [Piece.scaled, recPow]
  rw [he]
  generalize x ^ (((9:ℕ):ℝ) / ((20:ℕ):ℝ)) = y
  norm_num; ring

theorem adobe_real (x : ℝ) : 255 * adobeFromLinear x = adobePow.scaled x := by
  have he : ((256.0:ℝ) / 563.0) = ((256:ℕ):ℝ) / ((563:ℕ):ℝ) := by norm_num
  simp only [adobeFromLinear, RealScalar.powf_eq, RealScalar.const_eq, RealScalar.eval_div, RealScalar.eval_ofSci, Piece.scaled, adobePow]
  rw [he]
  generalize x ^ (((256:ℕ):ℝ) / ((563:ℕ):ℝ)) = y
  norm_num; ring

theorem p3_real (x : ℝ) : 255 * p3FromLinear x = p3Pow.scaled x := by
  have he : ((1.0:ℝ) / 2.6) = ((5:ℕ):ℝ) / ((13:ℕ):ℝ) := by norm_num
  simp only [p3FromLinear, RealScalar.powf_eq, RealScalar.const_eq, RealScalar.eval_div, RealScalar.eval_ofSci, Piece.scaled, p3Pow]
  rw [he]
  generalize x ^ (((5:ℕ):ℝ) / ((13:ℕ):ℝ)) = y
  norm_num; ring

/-! ## the theorem -/

/-- **0.6-code error bound at every real of [0, 1] that rounds to the pattern, all four 8-bit encoders.** -/
theorem fromLinearU8_faithful_near (e : Enc) (b : Nat) (hb : b ≤ 0x3f800000) (x : ℝ) (hx0 : 0 ≤ x) (hx1 : x ≤ 1)
    (hn : Near x b) :
    |(fromLinearU8 e b : ℝ) - 255 * fromLinear (curveOf e) x| < 0.6 := by
  cases e
  · refine faithful_near_of_link .srgb srgbFromLinear srgb_mid_cells srgb_mid_ends ?_ ?_ ?_ b hb x hx0 hx1 hn
    · intro x _ h; rw [srgb_theta] at h; exact srgb_toe_real (le_of_lt h)
    · intro x h _; rw [srgb_theta] at h; exact srgb_pow_real h
    · left; rw [srgb_theta]; exact srgb_toe_real (le_refl _)
  · refine faithful_near_of_link .recOetf recFromLinear rec_mid_cells rec_mid_ends ?_ ?_ ?_ b hb x hx0 hx1 hn
    · intro x _ h; rw [rec_theta] at h; exact rec_toe_real h
    · intro x h _; rw [rec_theta] at h; exact rec_pow_real (le_of_lt h)
    · right; rw [rec_theta]; exact rec_pow_real (le_refl _)
  · refine faithful_near_of_link .adobeRgb adobeFromLinear adobe_mid_cells adobe_mid_ends ?_ ?_ ?_ b hb x hx0 hx1 hn
    · intro x _ _; exact adobe_real x
    · intro x _ _; exact adobe_real x
    · left; exact adobe_real _
  · refine faithful_near_of_link .p3Gamma p3FromLinear p3_mid_cells p3_mid_ends ?_ ?_ ?_ b hb x hx0 hx1 hn
    · intro x _ _; exact p3_real x
    · intro x _ _; exact p3_real x
    · left; exact p3_real _

/-- the f32 theorem of `C05_ErrBound.lean` is the special case `x = f32val b` (re-derived from the new block checks) -/
theorem fromLinearU8_faithful' (e : Enc) (b : Nat) (hb : b ≤ 0x3f800000) :
    |(fromLinearU8 e b : ℝ) - 255 * fromLinear (curveOf e) (f32val b)| < 0.6 := by
  have h1 : f32val b ≤ 1 := by rw [← f32val_one]; exact f32val_mono hb
  exact fromLinearU8_faithful_near e b hb _ (f32val_nonneg b) h1 (near_self b)

/-- non-vacuity: the real `½ + 2⁻²⁶` (not an f32) is within half an ulp of the pattern of 0.5 -/
example : Near (1 / 2 + 1 / 2 ^ 26) 0x3f000000 := by
  have hm : mant 0x3f000000 = 2^23 := by decide
  have he : expo 0x3f000000 = 126 := by decide
  unfold Near f32val; rw [hm, he]
  rw [abs_le]; constructor <;> norm_num

end C05M
