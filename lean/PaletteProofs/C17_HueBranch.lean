/-
  C17 — the one place where SIMD and scalar run different algorithms.

  `Rgb → Hsv` and `Rgb → Hsl` test `TypeId::of::<T::Mask>() == TypeId::of::<bool>()` and run either a scalar algorithm with
  nested `if`s (`rgbToHsvScalar`, `rgbToHslScalar`) or a branch-free mask-generic one (`rgbToHsvMask`, `rgbToHslMask`).
  Here, in exact arithmetic (ℝ): for **every** rgb they return the same saturation and value/lightness, and the same hue up to
  the unsigned normal form: the branch-free hue lies in `[0°, 360°)` and equals the scalar hue (which lies in `[-60°, 300°]`)
  or the scalar hue + 360°.
-/
import PaletteProofs.Real
import PaletteProofs.Lemmas.HslGuard
import PaletteModel.Simd
import Mathlib.Tactic.Linarith
import Mathlib.Tactic.FieldSimp
import Mathlib.Tactic.Positivity

namespace C17
open Simd

/-! ### reading the mask-generic operations at ℝ (`Mask = Bool`) -/

theorem eqv_iff (a b : ℝ) : Scalar.eqv a b ↔ a = b := by
  unfold Scalar.eqv; exact le_antisymm_iff.symm

theorem vsel (m : Bool) (x y : ℝ) : VScalar.select m x y = if m = true then x else y := rfl
theorem veq (a b : ℝ) : (VScalar.eq a b : Bool) = decide (a = b) := by
  show decide (Scalar.eqv a b) = decide (a = b)
  exact decide_eq_decide.2 (eqv_iff a b)
theorem vne (a b : ℝ) : (VScalar.ne a b : Bool) = !decide (a = b) := by
  show (!decide (Scalar.eqv a b)) = !decide (a = b)
  rw [decide_eq_decide.2 (eqv_iff a b)]
theorem vge (a b : ℝ) : (VScalar.ge a b : Bool) = decide (b ≤ a) := rfl
theorem vgt (a b : ℝ) : (VScalar.gt a b : Bool) = decide (b < a) := rfl
theorem vmax (a b : ℝ) : VScalar.max a b = max a b := rfl
theorem vmin (a b : ℝ) : VScalar.min a b = min a b := rfl
theorem mor (p q : Bool) : Mask.or p q = (p || q) := rfl

/-- the sextant value the branch-free algorithm computes before the final `- 6` and `* 60` -/
noncomputable def h6 (R G B V C : ℝ) : ℝ :=
  if C = 0 then 0 else if V = R then 6 + (G - B) / C else if V = G then 2 + (B - R) / C else 10 + (R - G) / C

/-- the branch-free hue, unfolded: which of the masks `x y z` are set depends only on which component is the maximum -/
theorem maskHue_real (R G B V C : ℝ) : maskHue R G B V C = (h6 R G B V C - if 6 ≤ h6 R G B V C then 6 else 0) * 60 := by
  have e4 : (VScalar.const (-4.0) : ℝ) = -4 := by
    show (K.eval (-4.0) : ℝ) = -4
    simp only [RealScalar.eval_neg, RealScalar.eval_ofSci]; norm_num
  have l0 : (0.0 : ℝ) = 0 := by norm_num
  have l4 : (4.0 : ℝ) = 4 := by norm_num
  have l6 : (6.0 : ℝ) = 6 := by norm_num
  have l60 : (60.0 : ℝ) = 60 := by norm_num
  unfold maskHue lazySelect h6
  simp only [vsel, veq, vne, vge, mor, e4, Bool.or_eq_true, decide_eq_true_eq, Bool.not_eq_true', decide_eq_false_iff_not]
  simp only [l0, l4, l6, l60]
  by_cases hC : C = 0
  · simp [hC]
  · by_cases hR : V = R
    · simp only [hC, hR, if_true, if_false, not_true_eq_false, true_or]
      norm_num [sub_eq_add_neg]
    · by_cases hG : V = G
      · subst hG
        simp only [hC, hR, if_true, if_false, not_false_eq_true, not_true_eq_false, or_false, or_true]
        have e : (-4 : ℝ) + 6 + (-R + 0 + B) / C = 2 + (B - R) / C := by ring
        rw [e]
      · simp only [hC, hR, hG, if_true, if_false, not_false_eq_true, or_false, or_true]
        have e : (4 : ℝ) + 6 + (R + -G + 0) / C = 10 + (R - G) / C := by ring
        rw [e]

/-- … and with the `≥ 6` test resolved, given only that `V` is an upper and `m` a lower bound of the three components -/
theorem maskHue_closed (R G B V m : ℝ) (hR : m ≤ R ∧ R ≤ V) (hG : m ≤ G ∧ G ≤ V) (hB : m ≤ B ∧ B ≤ V) :
    maskHue R G B V (V - m) =
      if V - m = 0 then 0
      else if V = R then (if B ≤ G then (G - B) / (V - m) * 60 else ((G - B) / (V - m) + 6) * 60)
      else if V = G then ((B - R) / (V - m) + 2) * 60
      else ((R - G) / (V - m) + 4) * 60 := by
  rw [maskHue_real]
  unfold h6
  have hC0 : 0 ≤ V - m := by linarith [hR.1, hR.2]
  by_cases hC : V - m = 0
  · simp only [hC, if_true]; norm_num
  · have hCp : 0 < V - m := lt_of_le_of_ne hC0 (Ne.symm hC)
    simp only [hC, if_false]
    by_cases hVR : V = R
    · simp only [hVR, if_true]
      by_cases hBG : B ≤ G
      · have : 0 ≤ (G - B) / (R - m) := div_nonneg (by linarith) (by rw [← hVR]; exact hC0)
        rw [if_pos (by linarith), if_pos hBG]; ring
      · have hlt : (G - B) / (R - m) < 0 := div_neg_of_neg_of_pos (by linarith [not_le.mp hBG]) (by rw [← hVR]; exact hCp)
        rw [if_neg (by linarith), if_neg hBG]; ring
    · simp only [hVR, if_false]
      by_cases hVG : V = G
      · simp only [hVG, if_true]
        have : (B - R) / (G - m) ≤ 1 := by
          rw [div_le_one (by rw [← hVG]; exact hCp)]; linarith [hB.2, hR.1]
        rw [if_neg (by linarith)]; ring
      · simp only [hVG, if_false]
        have : -1 ≤ (R - G) / (V - m) := by
          rw [le_div_iff₀ hCp]; linarith [hG.2, hR.1]
        rw [if_pos (by linarith)]; ring

/-! ### the scalar algorithm at ℝ -/

theorem hsvOfParts_ne (mx mn sep coeff : ℝ) (h : mx ≠ mn) :
    hsvOfParts mx mn sep coeff = ⟨(sep / (mx - mn) + coeff) * 60.0, (mx - mn) / mx, mx⟩ := by
  unfold hsvOfParts; rw [if_pos (by rw [eqv_iff]; exact h)]
theorem hsvOfParts_eq (mx mn sep coeff : ℝ) (h : mx = mn) : hsvOfParts mx mn sep coeff = ⟨0.0, 0.0, mx⟩ := by
  unfold hsvOfParts; rw [if_neg (by rw [eqv_iff]; exact not_not.mpr h)]

/-- unsigned normal form of a hue in `[-360°, 360°)` -/
noncomputable def normU (h : ℝ) : ℝ := if h < 0 then h + 360 else h

/-- what the two algorithms have to agree on -/
def HsxAgree (s m : V3 ℝ) : Prop := m.c1 = s.c1 ∧ m.c2 = s.c2 ∧ m.c0 = normU s.c0 ∧ 0 ≤ m.c0 ∧ m.c0 < 360

/-- the algorithms after the common `max(·, 0)` of the three channels -/
noncomputable def hsvScalarCore (R G B : ℝ) : V3 ℝ :=
  if G < R then
    if R < B then hsvOfParts B G (R - G) 4.0
    else hsvOfParts R (if B < G then B else G) (G - B) 0.0
  else
    if G < B then hsvOfParts B R (R - G) 4.0
    else hsvOfParts G (if B < R then B else R) (B - R) 2.0

noncomputable def hsvMaskCore (R G B : ℝ) : V3 ℝ :=
  ⟨maskHue R G B (max (max R G) B) (max (max R G) B - min (min R G) B),
   if max (max R G) B - min (min R G) B = 0 then 0 else (max (max R G) B - min (min R G) B) / max (max R G) B,
   max (max R G) B⟩

theorem rgbToHsvScalar_core (c : V3 ℝ) : rgbToHsvScalar c = hsvScalarCore (max c.c0 0.0) (max c.c1 0.0) (max c.c2 0.0) := rfl

theorem rgbToHsvMask_core (c : V3 ℝ) : rgbToHsvMask c = hsvMaskCore (max c.c0 0.0) (max c.c1 0.0) (max c.c2 0.0) := by
  unfold rgbToHsvMask hsvMaskCore lazySelect
  simp only [vsel, veq, vmax, vmin, decide_eq_true_eq]
  norm_num

/-- per-leaf closing step: both sides computed, hue relation by arithmetic -/
theorem agree_of (s m : V3 ℝ) (h1 : m.c1 = s.c1) (h2 : m.c2 = s.c2) (h0 : m.c0 = normU s.c0) (hr : 0 ≤ m.c0 ∧ m.c0 < 360) : HsxAgree s m :=
  ⟨h1, h2, h0, hr.1, hr.2⟩

/-- **Rgb → Hsv: the branch-free algorithm agrees with the scalar one for every rgb**, up to the unsigned normal form of the hue -/
theorem hsv_core_agree (R G B : ℝ) : HsxAgree (hsvScalarCore R G B) (hsvMaskCore R G B) := by
  unfold hsvScalarCore hsvMaskCore
  by_cases h1 : G < R
  · rw [if_pos h1]
    by_cases h2 : R < B
    · -- blue is the strict maximum, green the minimum
      rw [if_pos h2]
      have hV : max (max R G) B = B := by rw [max_eq_left h1.le, max_eq_right h2.le]
      have hm : min (min R G) B = G := by rw [min_eq_right h1.le, min_eq_left (by linarith)]
      have hC : 0 < B - G := by linarith
      rw [hsvOfParts_ne B G _ _ (by linarith), hV, hm,
        maskHue_closed R G B B G ⟨h1.le, h2.le⟩ ⟨le_refl _, by linarith⟩ ⟨by linarith, le_refl _⟩]
      have t0 : 0 < (R - G) / (B - G) := div_pos (by linarith) hC
      have t1 : (R - G) / (B - G) < 1 := by rw [div_lt_one hC]; linarith
      refine agree_of _ _ ?_ rfl ?_ ?_
      · simp only [if_neg hC.ne']
      · simp only [if_neg hC.ne', if_neg (by linarith : ¬ B = R), if_neg (by linarith : ¬ B = G)]
        unfold normU; rw [if_neg (by norm_num; nlinarith)]; norm_num
      · simp only [if_neg hC.ne', if_neg (by linarith : ¬ B = R), if_neg (by linarith : ¬ B = G)]
        constructor <;> nlinarith
    · rw [if_neg h2]
      have h2' : B ≤ R := not_lt.mp h2
      have hV : max (max R G) B = R := by rw [max_eq_left h1.le, max_eq_left h2']
      by_cases h3 : B < G
      · -- red maximum, blue minimum
        rw [if_pos h3]
        have hm : min (min R G) B = B := by rw [min_eq_right h1.le, min_eq_right h3.le]
        have hC : 0 < R - B := by linarith
        rw [hsvOfParts_ne R B _ _ (by linarith), hV, hm,
          maskHue_closed R G B R B ⟨h2', le_refl _⟩ ⟨h3.le, h1.le⟩ ⟨le_refl _, h2'⟩]
        have t0 : 0 < (G - B) / (R - B) := div_pos (by linarith) hC
        have t1 : (G - B) / (R - B) < 1 := by rw [div_lt_one hC]; linarith
        refine agree_of _ _ ?_ rfl ?_ ?_
        · simp only [if_neg hC.ne']
        · simp only [if_neg hC.ne', if_true, if_pos h3.le]
          unfold normU; rw [if_neg (by norm_num; nlinarith)]; norm_num
        · simp only [if_neg hC.ne', if_true, if_pos h3.le]
          constructor <;> nlinarith
      · -- red maximum, green minimum (G ≤ B ≤ R): the scalar hue is ≤ 0
        rw [if_neg h3]
        have h3' : G ≤ B := not_lt.mp h3
        have hm : min (min R G) B = G := by rw [min_eq_right h1.le, min_eq_left h3']
        have hC : 0 < R - G := by linarith
        rw [hsvOfParts_ne R G _ _ (by linarith), hV, hm,
          maskHue_closed R G B R G ⟨h1.le, le_refl _⟩ ⟨le_refl _, h1.le⟩ ⟨h3', h2'⟩]
        have t1 : -1 ≤ (G - B) / (R - G) := by rw [le_div_iff₀ hC]; linarith
        refine agree_of _ _ ?_ rfl ?_ ?_
        · simp only [if_neg hC.ne']
        · simp only [if_neg hC.ne', if_true]
          by_cases hGB : B ≤ G
          · have : G = B := le_antisymm h3' hGB
            subst this
            rw [if_pos (le_refl _)]; unfold normU; norm_num
          · have t0 : (G - B) / (R - G) < 0 := div_neg_of_neg_of_pos (by linarith [not_le.mp hGB]) hC
            rw [if_neg hGB]; unfold normU; rw [if_pos (by norm_num; nlinarith)]; norm_num; ring
        · simp only [if_neg hC.ne', if_true]
          by_cases hGB : B ≤ G
          · have : G = B := le_antisymm h3' hGB
            subst this
            rw [if_pos (le_refl _)]; norm_num
          · have t0 : (G - B) / (R - G) < 0 := div_neg_of_neg_of_pos (by linarith [not_le.mp hGB]) hC
            rw [if_neg hGB]; constructor <;> nlinarith
  · rw [if_neg h1]
    have h1' : R ≤ G := not_lt.mp h1
    by_cases h2 : G < B
    · -- blue strict maximum, red minimum
      rw [if_pos h2]
      have hV : max (max R G) B = B := by rw [max_eq_right h1', max_eq_right h2.le]
      have hm : min (min R G) B = R := by rw [min_eq_left h1', min_eq_left (by linarith)]
      have hC : 0 < B - R := by linarith
      rw [hsvOfParts_ne B R _ _ (by linarith), hV, hm,
        maskHue_closed R G B B R ⟨le_refl _, by linarith⟩ ⟨h1', h2.le⟩ ⟨by linarith, le_refl _⟩]
      have t0 : (R - G) / (B - R) ≤ 0 := div_nonpos_of_nonpos_of_nonneg (by linarith) hC.le
      have t1 : -1 < (R - G) / (B - R) := by rw [lt_div_iff₀ hC]; linarith
      refine agree_of _ _ ?_ rfl ?_ ?_
      · simp only [if_neg hC.ne']
      · simp only [if_neg hC.ne', if_neg (by linarith : ¬ B = R), if_neg (by linarith : ¬ B = G)]
        unfold normU; rw [if_neg (by norm_num; nlinarith)]; norm_num
      · simp only [if_neg hC.ne', if_neg (by linarith : ¬ B = R), if_neg (by linarith : ¬ B = G)]
        constructor <;> nlinarith
    · rw [if_neg h2]
      have h2' : B ≤ G := not_lt.mp h2
      have hV : max (max R G) B = G := by rw [max_eq_right h1', max_eq_left h2']
      by_cases h3 : B < R
      · -- green maximum (possibly tied with red), blue minimum
        rw [if_pos h3]
        have hm : min (min R G) B = B := by rw [min_eq_left h1', min_eq_right h3.le]
        have hC : 0 < G - B := by linarith
        rw [hsvOfParts_ne G B _ _ (by linarith), hV, hm,
          maskHue_closed R G B G B ⟨h3.le, h1'⟩ ⟨h2', le_refl _⟩ ⟨le_refl _, h2'⟩]
        have t0 : (B - R) / (G - B) < 0 := div_neg_of_neg_of_pos (by linarith) hC
        have t1 : -1 ≤ (B - R) / (G - B) := by rw [le_div_iff₀ hC]; linarith
        refine agree_of _ _ ?_ rfl ?_ ?_
        · simp only [if_neg hC.ne']
        · simp only [if_neg hC.ne']
          by_cases hGR : G = R
          · -- tie red = green: the branch-free code takes the red formula, the scalar code the green one
            subst hGR
            have e1 : (B - G) / (G - B) = -1 := by rw [show B - G = -(G - B) by ring, neg_div, div_self hC.ne']
            have e2 : (G - B) / (G - B) = 1 := div_self hC.ne'
            simp only [if_true, if_pos h2', e1, e2]
            unfold normU; norm_num
          · simp only [if_neg hGR, if_true]
            unfold normU; rw [if_neg (by norm_num; nlinarith)]; norm_num
        · simp only [if_neg hC.ne']
          by_cases hGR : G = R
          · subst hGR
            have e2 : (G - B) / (G - B) = 1 := div_self hC.ne'
            simp only [if_true, if_pos h2', e2]; norm_num
          · simp only [if_neg hGR, if_true]
            constructor <;> nlinarith
      · -- green maximum, red minimum (R ≤ B ≤ G); all equal is the gray case
        rw [if_neg h3]
        have h3' : R ≤ B := not_lt.mp h3
        have hm : min (min R G) B = R := by rw [min_eq_left h1', min_eq_left h3']
        rw [hV, hm, maskHue_closed R G B G R ⟨le_refl _, h1'⟩ ⟨h1', le_refl _⟩ ⟨h3', h2'⟩]
        by_cases hgray : G = R
        · subst hgray
          rw [hsvOfParts_eq G G _ _ rfl]
          refine agree_of _ _ ?_ rfl ?_ ?_
          · simp only [sub_self, if_true]; norm_num
          · simp only [sub_self, if_true]; unfold normU; norm_num
          · simp only [sub_self, if_true]; norm_num
        · have hC : 0 < G - R := lt_of_le_of_ne (by linarith) (by intro h; apply hgray; linarith)
          rw [hsvOfParts_ne G R _ _ hgray]
          have t0 : 0 ≤ (B - R) / (G - R) := div_nonneg (by linarith) hC.le
          have t1 : (B - R) / (G - R) ≤ 1 := by rw [div_le_one hC]; linarith
          refine agree_of _ _ ?_ rfl ?_ ?_
          · simp only [if_neg hC.ne']
          · simp only [if_neg hC.ne', if_neg hgray, if_true]
            unfold normU; rw [if_neg (by norm_num; nlinarith)]; norm_num
          · simp only [if_neg hC.ne', if_neg hgray, if_true]
            constructor <;> nlinarith

/-- **Rgb → Hsv, full conversions** (including the clamping of negative channels, which both algorithms do first) -/
theorem hsv_mask_eq_scalar (c : V3 ℝ) : HsxAgree (rgbToHsvScalar c) (rgbToHsvMask c) := by
  rw [rgbToHsvScalar_core, rgbToHsvMask_core]; exact hsv_core_agree _ _ _

/-! ### Rgb → Hsl: same hue code, other saturation/lightness -/

/-- the nested `if`s that find `(max, min, sep, coeff)`, with the continuation `k` applied in the leaves -/
noncomputable def scalarLeaves (k : ℝ → ℝ → ℝ → ℝ → V3 ℝ) (R G B : ℝ) : V3 ℝ :=
  if G < R then
    if R < B then k B G (R - G) 4.0
    else k R (if B < G then B else G) (G - B) 0.0
  else
    if G < B then k B R (R - G) 4.0
    else k G (if B < R then B else R) (B - R) 2.0

theorem hsvScalarCore_leaves (R G B : ℝ) : hsvScalarCore R G B = scalarLeaves hsvOfParts R G B := rfl
theorem rgbToHslScalar_core (c : V3 ℝ) : rgbToHslScalar c = scalarLeaves hslOfParts (max c.c0 0.0) (max c.c1 0.0) (max c.c2 0.0) := rfl

/-- `(sep, coeff)` chosen by the nested `if`s -/
noncomputable def sepCoeff (R G B : ℝ) : V3 ℝ := scalarLeaves (fun _ _ s c => ⟨s, c, 0⟩) R G B

/-- **the nested `if`s of the scalar algorithm find the maximum and the minimum** of the three channels, whatever is done with
    them afterwards -/
theorem scalarLeaves_max_min (k : ℝ → ℝ → ℝ → ℝ → V3 ℝ) (R G B : ℝ) :
    scalarLeaves k R G B = k (max (max R G) B) (min (min R G) B) (sepCoeff R G B).c0 (sepCoeff R G B).c1 := by
  unfold sepCoeff scalarLeaves
  by_cases h1 : G < R
  · by_cases h2 : R < B
    · rw [if_pos h1, if_pos h2, if_pos h1, if_pos h2, max_eq_left h1.le, max_eq_right h2.le, min_eq_right h1.le, min_eq_left (by linarith)]
    · have h2' : B ≤ R := not_lt.mp h2
      rw [if_pos h1, if_neg h2, if_pos h1, if_neg h2, max_eq_left h1.le, max_eq_left h2', min_eq_right h1.le]
      by_cases h3 : B < G
      · rw [if_pos h3, min_eq_right h3.le]
      · rw [if_neg h3, min_eq_left (not_lt.mp h3)]
  · have h1' : R ≤ G := not_lt.mp h1
    by_cases h2 : G < B
    · rw [if_neg h1, if_pos h2, if_neg h1, if_pos h2, max_eq_right h1', max_eq_right h2.le, min_eq_left h1', min_eq_left (by linarith)]
    · have h2' : B ≤ G := not_lt.mp h2
      rw [if_neg h1, if_neg h2, if_neg h1, if_neg h2, max_eq_right h1', max_eq_left h2', min_eq_left h1']
      by_cases h3 : B < R
      · rw [if_pos h3, min_eq_right h3.le]
      · rw [if_neg h3, min_eq_left (not_lt.mp h3)]

theorem hslOfParts_real (mx mn sep coeff : ℝ) :
    hslOfParts mx mn sep coeff =
      ⟨(hsvOfParts mx mn sep coeff).c0,
       if mx = mn then 0 else (mx - mn) / (if 1 < mx + mn then 2 - (mx + mn) else mx + mn),
       (mx + mn) / 2⟩ := by
  unfold hslOfParts hsvOfParts
  -- the guard `divisor == 0` (c404fc5): at ℝ the guarded quotient is the quotient (`d / 0 = 0`);
  -- the code's denominator `(1 − max) + (1 − min)` is `2 − (max + min)` at ℝ
  simp only [RealScalar.hslSat_eq]
  simp only [eqv_iff, RealScalar.invertedSum_eq]
  by_cases h : mx = mn
  · simp only [h, not_true_eq_false, if_false, if_true]; norm_num
  · simp only [h, not_false_eq_true, if_true, if_false]; norm_num
    split_ifs <;> rfl

noncomputable def hslMaskCore (R G B : ℝ) : V3 ℝ :=
  ⟨maskHue R G B (max (max R G) B) (max (max R G) B - min (min R G) B),
   if min (min R G) B = max (max R G) B then 0
   else (max (max R G) B - min (min R G) B) /
     (if 1 < max (max R G) B + min (min R G) B then 2 - (max (max R G) B + min (min R G) B) else max (max R G) B + min (min R G) B),
   0.5 * (max (max R G) B + min (min R G) B)⟩

/-- the mask `min.eq(&max) | divisor.eq(&T::zero())` of the repaired mask-generic branch (c404fc5), read at ℝ: the second
    disjunct only ever replaces `d / 0`, which is `0` at ℝ -/
theorem hslSatMaskV_eq (a b d x : ℝ) :
    VScalar.select (Mask.or (VScalar.eq a b : Bool) (VScalar.eq x 0.0)) (0.0 : ℝ) (d / x) = if a = b then 0.0 else d / x := by
  rw [vsel, mor, veq, veq]
  have e0 : (0.0 : ℝ) = 0 := by norm_num
  by_cases h : a = b
  · simp only [h, decide_true, Bool.true_or, if_true]
  · simp only [h, decide_false, Bool.false_or, decide_eq_true_eq, if_false]
    split
    · next hx => rw [hx, e0, div_zero]
    · rfl

theorem rgbToHslMask_core (c : V3 ℝ) : rgbToHslMask c = hslMaskCore (max c.c0 0.0) (max c.c1 0.0) (max c.c2 0.0) := by
  unfold rgbToHslMask hslMaskCore lazySelect
  simp only [hslSatMaskV_eq]
  simp only [vsel, vgt, vmax, vmin, decide_eq_true_eq, RealScalar.invertedSum_eq]
  norm_num

/-- **Rgb → Hsl: the branch-free algorithm agrees with the scalar one for every rgb**, up to the unsigned normal form of the hue -/
theorem hsl_core_agree (R G B : ℝ) : HsxAgree (scalarLeaves hslOfParts R G B) (hslMaskCore R G B) := by
  obtain ⟨_, _, h0, hr0, hr1⟩ := hsv_core_agree R G B
  rw [hsvScalarCore_leaves, scalarLeaves_max_min hsvOfParts] at h0
  rw [scalarLeaves_max_min hslOfParts, hslOfParts_real]
  refine ⟨?_, ?_, h0, hr0, hr1⟩
  · show (if min (min R G) B = max (max R G) B then (0:ℝ) else _) = if max (max R G) B = min (min R G) B then 0 else _
    by_cases h : max (max R G) B = min (min R G) B
    · rw [if_pos h, if_pos h.symm]
    · rw [if_neg h, if_neg (fun h' => h h'.symm)]
  · show (0.5 : ℝ) * (max (max R G) B + min (min R G) B) = (max (max R G) B + min (min R G) B) / 2
    norm_num; ring

theorem hsl_mask_eq_scalar (c : V3 ℝ) : HsxAgree (rgbToHslScalar c) (rgbToHslMask c) := by
  rw [rgbToHslScalar_core, rgbToHslMask_core]; exact hsl_core_agree _ _ _

/-! ### consequences and non-vacuity -/

/-- the scalar hue is one of the two representatives of the branch-free hue: equal, or 360° less -/
theorem hsv_hue_mod_360 (c : V3 ℝ) : (rgbToHsvMask c).c0 = (rgbToHsvScalar c).c0 ∨ (rgbToHsvMask c).c0 = (rgbToHsvScalar c).c0 + 360 := by
  obtain ⟨_, _, h0, _, _⟩ := hsv_mask_eq_scalar c
  rw [h0]; unfold normU; split_ifs <;> simp
theorem hsl_hue_mod_360 (c : V3 ℝ) : (rgbToHslMask c).c0 = (rgbToHslScalar c).c0 ∨ (rgbToHslMask c).c0 = (rgbToHslScalar c).c0 + 360 := by
  obtain ⟨_, _, h0, _, _⟩ := hsl_mask_eq_scalar c
  rw [h0]; unfold normU; split_ifs <;> simp

/-- the two representations really differ: magenta has scalar hue −60° and branch-free hue 300° -/
theorem magenta_hues : (hsvScalarCore 1 0 1).c0 = -60 ∧ (hsvMaskCore 1 0 1).c0 = 300 := by
  have hs : (hsvScalarCore 1 0 1).c0 = -60 := by
    unfold hsvScalarCore
    rw [if_pos (by norm_num), if_neg (by norm_num), if_neg (by norm_num), hsvOfParts_ne _ _ _ _ (by norm_num)]
    norm_num
  refine ⟨hs, ?_⟩
  obtain ⟨_, _, h0, _, _⟩ := hsv_core_agree 1 0 1
  rw [h0, hs]; unfold normU; norm_num

/-- **all lanes at once**: a SIMD `Rgb → Hsv` (branch-free algorithm lifted to `n` lanes) agrees in every lane with the scalar
    algorithm applied to that lane's colour -/
theorem hsv_lanes_eq_scalar {n : Nat} (cs : Fin n → V3 ℝ) (i : Fin n) :
    HsxAgree (rgbToHsvScalar (cs i)) (unpack (rgbToHsvMask (pack cs)) i) :=
  hsv_mask_eq_scalar (cs i)
theorem hsl_lanes_eq_scalar {n : Nat} (cs : Fin n → V3 ℝ) (i : Fin n) :
    HsxAgree (rgbToHslScalar (cs i)) (unpack (rgbToHslMask (pack cs)) i) :=
  hsl_mask_eq_scalar (cs i)

/-! ### the wide `clamp` (`min` then `max`) is the scalar `clamp` whenever `lo ≤ hi` -/

theorem clampMinMax_eq_clamp (v lo hi : ℝ) (h : lo ≤ hi) : clampMinMax v lo hi = Scalar.clamp v lo hi := by
  show max (min v hi) lo = _
  unfold Scalar.clamp
  by_cases h1 : v < lo
  · rw [if_pos h1, min_eq_left (by linarith), max_eq_right h1.le]
  · rw [if_neg h1]
    by_cases h2 : hi < v
    · rw [if_pos h2, min_eq_right h2.le, max_eq_left h]
    · rw [if_neg h2, min_eq_left (not_lt.mp h2), max_eq_left (not_lt.mp h1)]

theorem rgbClamp_lanes_eq_scalar {n : Nat} (cs : Fin n → V3 ℝ) (i : Fin n) :
    unpack (rgbClampMinMax (pack cs)) i = rgbClampScalar (cs i) := by
  show rgbClampMinMax (cs i) = rgbClampScalar (cs i)
  unfold rgbClampMinMax rgbClampScalar
  rw [clampMinMax_eq_clamp _ _ _ (by norm_num), clampMinMax_eq_clamp _ _ _ (by norm_num), clampMinMax_eq_clamp _ _ _ (by norm_num)]

/-- non-vacuity of `lo ≤ hi` -/
example : (0.0 : ℝ) ≤ 1.0 := by norm_num

end C17
