/-
  C07, colour differences continued: the **full CIEDE2000 value** at `PReal`.

  `C07_FiniteOps.lean` proves every *term* of `get_ciede2000_difference` and the last expression only under two hypotheses
  (`combine_finite_partial`: weights non-zero, radicand non-negative).  Here the chain is closed on the unchanged model function
  `Diff.ciede2000With` / `Diff.ciede2000` read at `PReal`:

  * *transfer lemmas* `…_T`: each intermediate evaluated on `ok` inputs is `ok` of the same intermediate evaluated at ℝ (not merely
    "some real": the value is kept, so the real-number facts of `C09_Ciede2000.lean` apply to it);
  * the weights: `T ≥ 0.07` (`bigT_ge`), hence `S_H ≥ 1`, and `S_C ≥ 1`, `S_L ≥ 1` — no division by zero in the last expression;
  * the radicand is a positive semidefinite quadratic form in `(ΔL′/S_L, ΔC′/S_C, ΔH′/S_H)` because `|R_T| ≤ 2`
    (`C09.rT_bounds`, `C09.quad_nonneg`) — and for the exact degree→radian factor it is positive *definite*: `|R_T| ≤ √3 < 2`
    since `0 ≤ 2Δθ ≤ 60°` (`rT_abs_le_sqrt3`, `radicand_pos_def`);
  * **`ciede2000With_defined`**: for all real `LabColorDiff`s whose reused chromas have a non-negative sum (always true of
    `From<Lab>`: `chroma = hypot a b`; true of `From<Lch>` for `chroma ≥ 0`, the documented range) the value at `PReal` is `ok` of the
    value at ℝ, which is `≥ 0`.  Corollaries for `Lab`, `Lch`, and `ImprovedCiede2000` (`1.43·d^0.7`, `d ≥ 0`).
  * the hypothesis is needed: `From<Lch>` reuses the stored chroma unclamped, and `Lch(·, −25, ·)` against itself makes
    `c̄⁷ + 25⁷ = 0` (`ciede2000_negative_chroma_poison`; outside the documented range `chroma ≥ 0`).
-/
import PaletteProofs.PReal
import PaletteProofs.C07_FiniteOps
import PaletteProofs.C09_Ciede2000
import Mathlib.Analysis.SpecialFunctions.Trigonometric.Bounds

set_option linter.unusedSimpArgs false
set_option linter.unusedVariables false

namespace C07
open PReal Diff

/-- a real `LabColorDiff` read at `PReal` -/
def liftLcd (x : LabColorDiff ℝ) : LabColorDiff PReal := ⟨ok x.l, ok x.a, ok x.b, ok x.chroma⟩

/-- a real `Inter` read at `PReal` -/
def liftInter (i : Diff.Inter ℝ) : Diff.Inter PReal :=
  { c1p := ok i.c1p, c2p := ok i.c2p, h1p := ok i.h1p, h2p := ok i.h2p, dh := ok i.dh, dH := ok i.dH, hBar := ok i.hBar,
    lBar := ok i.lBar, cBarP := ok i.cBarP, dL := ok i.dL, dC := ok i.dC }

theorem ite_ok (c : Prop) [Decidable c] (a b : ℝ) : (if c then ok a else ok b) = ok (if c then a else b) := by
  split_ifs <;> rfl

/-! ## transfer lemmas: the PReal value is `ok` of the ℝ value -/

theorem powi7_T (x : ℝ) : powi7 (ok x) = ok (powi7 x) := rfl

theorem powi7_real_nonneg {x : ℝ} (h : 0 ≤ x) : 0 ≤ powi7 x := by
  rw [C09.powi7_eq]; exact pow_nonneg h 7

/-- `G` for a non-negative mean chroma -/
theorem gOf_T (c1 c2 : ℝ) (h : 0 ≤ c1 + c2) : gOf (ok c1) (ok c2) = ok (gOf c1 c2) := by
  have h2 : (2.0:ℝ) ≠ 0 := by norm_num
  have hc : 0 ≤ (c1 + c2) / 2.0 := div_nonneg h (by norm_num)
  have hp := powi7_real_nonneg hc
  have ht : (0:ℝ) < (tf7 : ℝ) := by unfold tf7; norm_num
  have hd : powi7 ((c1 + c2) / 2.0) + (tf7 : ℝ) ≠ 0 := by positivity
  have hr : 0 ≤ powi7 ((c1 + c2) / 2.0) / (powi7 ((c1 + c2) / 2.0) + (tf7 : ℝ)) := by positivity
  have htf : (tf7 : PReal) = ok (tf7 : ℝ) := rfl
  simp only [gOf, add_some, ofSci, div_some_of_ne _ _ h2, powi7_T, htf, div_some_of_ne _ _ hd, sqrt_some_of_nonneg _ hr,
    sub_some, mul_some, RealScalar.sqrt_eq]

theorem aPrime_T (g a : ℝ) : aPrime (ok g) (ok a) = ok (aPrime g a) := rfl

theorem cPrime_T (ap b : ℝ) : cPrime (ok ap) (ok b) = ok (cPrime ap b) := by
  have hr : 0 ≤ ap * ap + b * b := by nlinarith [mul_self_nonneg ap, mul_self_nonneg b]
  simp only [cPrime, mul_some, add_some, sqrt_some_of_nonneg _ hr, RealScalar.sqrt_eq]

theorem cPrime_real_nonneg (ap b : ℝ) : 0 ≤ cPrime ap b := by
  simp only [cPrime, RealScalar.sqrt_eq]; exact Real.sqrt_nonneg _

theorem calcHPrime_T (r2d b ap : ℝ) : calcHPrime (ok r2d) (ok b) (ok ap) = ok (calcHPrime r2d b ap) := by
  simp only [calcHPrime, eqv_some, ofSci, atan2_some, mul_some, lt_some, add_some, C09.eqv_iff, RealScalar.atan2_eq]
  split_ifs <;> rfl

theorem deltaHPrime_T (c1 c2 h1 h2 : ℝ) : deltaHPrime (ok c1) (ok c2) (ok h1) (ok h2) = ok (deltaHPrime c1 c2 h1 h2) := by
  simp only [deltaHPrime, eqv_some, ofSci, sub_some, abs_some, le_some, add_some, C09.eqv_iff, RealScalar.abs_eq]
  split_ifs <;> rfl

theorem hBarPrime_T (c1 c2 h1 h2 : ℝ) : hBarPrime (ok c1) (ok c2) (ok h1) (ok h2) = ok (hBarPrime c1 c2 h1 h2) := by
  have h2' : (2.0:ℝ) ≠ 0 := by norm_num
  simp only [hBarPrime, eqv_some, ofSci, sub_some, abs_some, le_some, lt_some, add_some, div_some_of_ne _ _ h2', C09.eqv_iff,
    RealScalar.abs_eq]
  split_ifs <;> rfl

theorem bigDeltaH_T (d2r c1 c2 dh : ℝ) (h : 0 ≤ c1 * c2) :
    bigDeltaH (ok d2r) (ok c1) (ok c2) (ok dh) = ok (bigDeltaH d2r c1 c2 dh) := by
  have h2' : (2.0:ℝ) ≠ 0 := by norm_num
  simp only [bigDeltaH, ofSci, mul_some, sqrt_some_of_nonneg _ h, div_some_of_ne _ _ h2', sin_some, RealScalar.sqrt_eq,
    RealScalar.sin_eq]

theorem bigT_T (d2r h : ℝ) : bigT (ok d2r) (ok h) = ok (bigT d2r h) := by
  simp only [bigT, ofSci, sub_some, mul_some, add_some, cos_some, RealScalar.cos_eq]

theorem sL_T (l : ℝ) : sL (ok l) = ok (sL l) := by
  have hpos : 0 < (l - 50.0) * (l - 50.0) + 20.0 := by nlinarith [mul_self_nonneg (l - 50.0)]
  have hs : Real.sqrt ((l - 50.0) * (l - 50.0) + 20.0) ≠ 0 := (Real.sqrt_pos.mpr hpos).ne'
  simp only [sL, ofSci, sub_some, mul_some, add_some, sqrt_some_of_nonneg _ hpos.le, div_some_of_ne _ _ hs, RealScalar.sqrt_eq]

theorem sC_T (c : ℝ) : sC (ok c) = ok (sC c) := rfl
theorem sH_T (c t : ℝ) : sH (ok c) (ok t) = ok (sH c t) := rfl

theorem deltaTheta_T (h : ℝ) : deltaTheta (ok h) = ok (deltaTheta h) := by
  have h25 : (25.0:ℝ) ≠ 0 := by norm_num
  simp only [deltaTheta, ofSci, sub_some, div_some_of_ne _ _ h25, mul_some, neg_some, exp_some, RealScalar.exp_eq]

theorem rC_T (c : ℝ) (h : 0 ≤ c) : rC (ok c) = ok (rC c) := by
  have hp := powi7_real_nonneg h
  have ht : (0:ℝ) < (tf7 : ℝ) := by unfold tf7; norm_num
  have hd : powi7 c + (tf7 : ℝ) ≠ 0 := by positivity
  have hr : 0 ≤ powi7 c / (powi7 c + (tf7 : ℝ)) := by positivity
  have htf : (tf7 : PReal) = ok (tf7 : ℝ) := rfl
  simp only [rC, powi7_T, htf, add_some, div_some_of_ne _ _ hd, sqrt_some_of_nonneg _ hr, ofSci, mul_some, RealScalar.sqrt_eq]

theorem rT_T (d2r c hb : ℝ) (h : 0 ≤ c) : rT (ok d2r) (ok c) (ok hb) = ok (rT d2r c hb) := by
  simp only [rT, rC_T c h, deltaTheta_T, ofSci, neg_some, mul_some, sin_some, RealScalar.sin_eq]

/-! ## the weights are at least 1 -/

/-- **`T ≥ 0.07`** for every mean hue and every degree→radian factor: `1 − 0.17 − 0.24 − 0.32 − 0.20` -/
theorem bigT_ge (d2r h : ℝ) : 0.07 ≤ bigT d2r h := by
  simp only [bigT, RealScalar.cos_eq]
  have h1 := Real.cos_le_one ((h - 30.0) * d2r)
  have h2 := Real.neg_one_le_cos ((h * 2.0) * d2r)
  have h3 := Real.neg_one_le_cos ((h * 3.0 + 6.0) * d2r)
  have h4 := Real.cos_le_one ((h * 4.0 - 63.0) * d2r)
  norm_num at *
  linarith

/-- `T ≤ 1.93` -/
theorem bigT_le (d2r h : ℝ) : bigT d2r h ≤ 1.93 := by
  simp only [bigT, RealScalar.cos_eq]
  have h1 := Real.neg_one_le_cos ((h - 30.0) * d2r)
  have h2 := Real.cos_le_one ((h * 2.0) * d2r)
  have h3 := Real.cos_le_one ((h * 3.0 + 6.0) * d2r)
  have h4 := Real.neg_one_le_cos ((h * 4.0 - 63.0) * d2r)
  norm_num at *
  linarith

theorem sL_ge_one (l : ℝ) : 1 ≤ sL l := by
  simp only [sL, RealScalar.sqrt_eq]
  have : 0 ≤ 0.015 * (l - 50.0) * (l - 50.0) / Real.sqrt ((l - 50.0) * (l - 50.0) + 20.0) :=
    div_nonneg (by nlinarith [mul_self_nonneg (l - 50.0)]) (Real.sqrt_nonneg _)
  norm_num at this ⊢
  linarith

theorem sC_ge_one {c : ℝ} (h : 0 ≤ c) : 1 ≤ sC c := by
  simp only [sC]; norm_num; positivity

/-- **`S_H ≥ 1`** for a non-negative mean chroma (`T > 0`) -/
theorem sH_ge_one {c : ℝ} (h : 0 ≤ c) (d2r hb : ℝ) : 1 ≤ sH c (bigT d2r hb) := by
  have ht : 0 ≤ bigT d2r hb := le_trans (by norm_num) (bigT_ge d2r hb)
  simp only [sH]; norm_num; positivity

/-! ## the last expression -/

/-- the radicand of the last expression, as the model associates it (real reading) -/
noncomputable def radicand (dL dC dH sl sc sh rt : ℝ) : ℝ :=
  dL / (1.0 * sl) * (dL / (1.0 * sl)) + dC / (1.0 * sc) * (dC / (1.0 * sc)) + dH / (1.0 * sh) * (dH / (1.0 * sh))
    + rt * dC * dH / (1.0 * sc * 1.0 * sh)

/-- the restatement is the model's: `combine = sqrt radicand` at ℝ, by unfolding -/
theorem combine_eq_sqrt_radicand (dL dC dH sl sc sh rt : ℝ) :
    combine dL dC dH sl sc sh rt = Real.sqrt (radicand dL dC dH sl sc sh rt) := rfl

theorem radicand_eq_quad (dL dC dH sl sc sh rt : ℝ) :
    radicand dL dC dH sl sc sh rt = (dL / sl) ^ 2 + (dC / sc) ^ 2 + (dH / sh) ^ 2 + rt * (dC / sc) * (dH / sh) := by
  simp only [radicand, C09.lit1]; ring

/-- **the radicand is a positive semidefinite quadratic form** in `(ΔL′/S_L, ΔC′/S_C, ΔH′/S_H)` whenever `|R_T| ≤ 2`:
    `x² + y² + z² + r·y·z = x² + (2+r)/4·(y+z)² + (2−r)/4·(y−z)²` -/
theorem radicand_nonneg (dL dC dH sl sc sh rt : ℝ) (h1 : -2 ≤ rt) (h2 : rt ≤ 2) : 0 ≤ radicand dL dC dH sl sc sh rt := by
  rw [radicand_eq_quad]; exact C09.quad_nonneg _ _ _ _ h1 h2

/-- the decomposition itself -/
theorem quad_decomposition (x y z r : ℝ) :
    x ^ 2 + y ^ 2 + z ^ 2 + r * y * z = x ^ 2 + (2 + r) / 4 * (y + z) ^ 2 + (2 - r) / 4 * (y - z) ^ 2 := by ring

/-- the last expression at `PReal`: defined as soon as the weights are non-zero and `|R_T| ≤ 2` -/
theorem combine_T (dL dC dH sl sc sh rt : ℝ) (hl : sl ≠ 0) (hc : sc ≠ 0) (hh : sh ≠ 0) (h1 : -2 ≤ rt) (h2 : rt ≤ 2) :
    combine (ok dL) (ok dC) (ok dH) (ok sl) (ok sc) (ok sh) (ok rt) = ok (combine dL dC dH sl sc sh rt) := by
  have e1 : (1.0:ℝ) * sl ≠ 0 := by norm_num; exact hl
  have e2 : (1.0:ℝ) * sc ≠ 0 := by norm_num; exact hc
  have e3 : (1.0:ℝ) * sh ≠ 0 := by norm_num; exact hh
  have e4 : (1.0:ℝ) * sc * 1.0 * sh ≠ 0 := by norm_num; exact ⟨hc, hh⟩
  have hr := radicand_nonneg dL dC dH sl sc sh rt h1 h2
  unfold radicand at hr
  simp only [combine, ofSci, mul_some, div_some_of_ne _ _ e1, div_some_of_ne _ _ e2, div_some_of_ne _ _ e3, div_some_of_ne _ _ e4,
    add_some, sqrt_some_of_nonneg _ hr, RealScalar.sqrt_eq]

/-! ## everything before the last expression -/

theorem inter_cBarP_nonneg (d2r r2d : ℝ) (x y : LabColorDiff ℝ) : 0 ≤ (inter d2r r2d x y).cBarP := by
  have h1 := cPrime_real_nonneg (aPrime (gOf x.chroma y.chroma) x.a) x.b
  have h2 := cPrime_real_nonneg (aPrime (gOf x.chroma y.chroma) y.a) y.b
  simp only [inter]
  exact div_nonneg (add_nonneg h1 h2) (by norm_num)

/-- **all eleven intermediates of `get_ciede2000_difference` are defined** (equal to `ok` of their real values) -/
theorem inter_T (d2r r2d : ℝ) (x y : LabColorDiff ℝ) (h : 0 ≤ x.chroma + y.chroma) :
    inter (ok d2r) (ok r2d) (liftLcd x) (liftLcd y) = liftInter (inter d2r r2d x y) := by
  have h2' : (2.0:ℝ) ≠ 0 := by norm_num
  have hc := mul_nonneg (cPrime_real_nonneg (aPrime (gOf x.chroma y.chroma) x.a) x.b)
    (cPrime_real_nonneg (aPrime (gOf x.chroma y.chroma) y.a) y.b)
  simp only [inter, liftLcd, liftInter, gOf_T _ _ h, aPrime_T, cPrime_T, calcHPrime_T, deltaHPrime_T, hBarPrime_T,
    bigDeltaH_T _ _ _ _ hc, add_some, sub_some, ofSci, div_some_of_ne _ _ h2']

/-! ## the full value -/

/-- **CIEDE2000 is defined for every pair**: `get_ciede2000_difference` read at `PReal` returns `ok` of its real value — no division
    by zero, no square root of a negative number anywhere in the function — for all real `l, a, b` and all reused chromas with a
    non-negative sum, and for any degree/radian factors (in particular the `f64` constants the code uses and the exact `π/180`). -/
theorem ciede2000With_defined (d2r r2d : ℝ) (x y : LabColorDiff ℝ) (h : 0 ≤ x.chroma + y.chroma) :
    ciede2000With (ok d2r) (ok r2d) (liftLcd x) (liftLcd y) = ok (ciede2000With d2r r2d x y) := by
  have hcb := inter_cBarP_nonneg d2r r2d x y
  obtain ⟨r1, r2⟩ := C09.rT_bounds d2r _ (inter d2r r2d x y).hBar hcb
  have hsl : sL (inter d2r r2d x y).lBar ≠ 0 := by have := sL_ge_one (inter d2r r2d x y).lBar; intro h0; linarith
  have hsc : sC (inter d2r r2d x y).cBarP ≠ 0 := by have := sC_ge_one hcb; intro h0; linarith
  have hsh : sH (inter d2r r2d x y).cBarP (bigT d2r (inter d2r r2d x y).hBar) ≠ 0 := by
    have := sH_ge_one hcb d2r (inter d2r r2d x y).hBar; intro h0; linarith
  have e : ciede2000With (ok d2r) (ok r2d) (liftLcd x) (liftLcd y)
      = combine (inter (ok d2r) (ok r2d) (liftLcd x) (liftLcd y)).dL (inter (ok d2r) (ok r2d) (liftLcd x) (liftLcd y)).dC
          (inter (ok d2r) (ok r2d) (liftLcd x) (liftLcd y)).dH (sL (inter (ok d2r) (ok r2d) (liftLcd x) (liftLcd y)).lBar)
          (sC (inter (ok d2r) (ok r2d) (liftLcd x) (liftLcd y)).cBarP)
          (sH (inter (ok d2r) (ok r2d) (liftLcd x) (liftLcd y)).cBarP (bigT (ok d2r) (inter (ok d2r) (ok r2d) (liftLcd x) (liftLcd y)).hBar))
          (rT (ok d2r) (inter (ok d2r) (ok r2d) (liftLcd x) (liftLcd y)).cBarP (inter (ok d2r) (ok r2d) (liftLcd x) (liftLcd y)).hBar) := rfl
  rw [e, inter_T d2r r2d x y h, C09.ciede2000With_unfold]
  simp only [liftInter, sL_T, sC_T, bigT_T, sH_T, rT_T _ _ _ hcb]
  exact combine_T _ _ _ _ _ _ _ hsl hsc hsh r1 r2

/-- finite **and non-negative** -/
theorem ciede2000With_finite_nonneg (d2r r2d : ℝ) (x y : LabColorDiff ℝ) (h : 0 ≤ x.chroma + y.chroma) :
    ∃ r : ℝ, 0 ≤ r ∧ ciede2000With (ok d2r) (ok r2d) (liftLcd x) (liftLcd y) = ok r :=
  ⟨_, C09.ciede2000With_nonneg d2r r2d x y, ciede2000With_defined d2r r2d x y h⟩

/-! ### with the constants the code uses, from `Lab` and from `Lch` -/

theorem constD2R_T : (Scalar.const D2R : PReal) = ok (Scalar.const D2R : ℝ) := by
  have h : (180.0:ℝ) ≠ 0 := by norm_num
  simp only [D2R, PI, const_eq, eval_div, eval_ofSci, div_some_of_ne _ _ h, RealScalar.const_eq, RealScalar.eval_div,
    RealScalar.eval_ofSci]

theorem constR2D_T : (Scalar.const R2D : PReal) = ok (Scalar.const R2D : ℝ) := by
  have h : (3.141592653589793:ℝ) ≠ 0 := by norm_num
  simp only [R2D, PI, const_eq, eval_div, eval_ofSci, div_some_of_ne _ _ h, RealScalar.const_eq, RealScalar.eval_div,
    RealScalar.eval_ofSci]

theorem hypot_T (a b : ℝ) : hypot (ok a) (ok b) = ok (hypot a b) := by
  have hr : 0 ≤ a * a + b * b := by nlinarith [mul_self_nonneg a, mul_self_nonneg b]
  simp only [hypot, mul_some, add_some, sqrt_some_of_nonneg _ hr, RealScalar.sqrt_eq]

theorem hypot_real_nonneg (a b : ℝ) : 0 ≤ hypot a b := by
  simp only [hypot, RealScalar.sqrt_eq]; exact Real.sqrt_nonneg _

/-- `LabColorDiff::from(Lab)` at `PReal` -/
theorem fromLab_T (l a b : ℝ) : fromLab (ok l) (ok a) (ok b) = liftLcd (fromLab l a b) := by
  simp only [fromLab, liftLcd, hypot_T]

/-- `LabColorDiff::from(Lch)` at `PReal`: no partial operation at all -/
theorem fromLchWith_T (d2r l c h : ℝ) : fromLchWith (ok d2r) (ok l) (ok c) (ok h) = liftLcd (fromLchWith d2r l c h) := by
  simp only [fromLchWith, polarToRectWith, hueCos, hueSin, liftLcd, ofSci, max_some, mul_some, cos_some, sin_some,
    RealScalar.max_eq, RealScalar.cos_eq, RealScalar.sin_eq]

/-- **`Ciede2000::difference` for `Lab` is finite and non-negative for ALL finite Lab inputs** (no range hypothesis at all) -/
theorem ciede2000_lab_finite (l1 a1 b1 l2 a2 b2 : ℝ) :
    ∃ r : ℝ, 0 ≤ r ∧ ciede2000 (fromLab (ok l1) (ok a1) (ok b1)) (fromLab (ok l2) (ok a2) (ok b2)) = ok r := by
  refine ⟨ciede2000 (fromLab l1 a1 b1) (fromLab l2 a2 b2), C09.ciede2000_nonneg _ _, ?_⟩
  unfold ciede2000
  rw [constD2R_T, constR2D_T, fromLab_T, fromLab_T]
  exact ciede2000With_defined _ _ _ _ (add_nonneg (hypot_real_nonneg a1 b1) (hypot_real_nonneg a2 b2))

/-- **`Ciede2000::difference` for `Lch`**: finite and non-negative for every lightness and hue and every chroma `≥ 0`
    (the documented range of `Lch::chroma`) -/
theorem ciede2000_lch_finite (l1 c1 h1 l2 c2 h2 : ℝ) (hc1 : 0 ≤ c1) (hc2 : 0 ≤ c2) :
    ∃ r : ℝ, 0 ≤ r ∧ ciede2000 (fromLch (ok l1) (ok c1) (ok h1)) (fromLch (ok l2) (ok c2) (ok h2)) = ok r := by
  refine ⟨ciede2000 (fromLch l1 c1 h1) (fromLch l2 c2 h2), C09.ciede2000_nonneg _ _, ?_⟩
  unfold ciede2000 fromLch
  rw [constD2R_T, constR2D_T, fromLchWith_T, fromLchWith_T]
  exact ciede2000With_defined _ _ _ _ (add_nonneg hc1 hc2)

example : ∃ r : ℝ, 0 ≤ r ∧ ciede2000 (fromLch (ok 50) (ok 30) (ok 10)) (fromLch (ok 60) (ok 0) (ok 355)) = ok r :=
  ciede2000_lch_finite 50 30 10 60 0 355 (by norm_num) (by norm_num)

/-- the chroma hypothesis is needed: `From<Lch>` reuses the stored chroma without clamping it, and a pair with mean chroma `−25`
    (outside the documented range) has `c̄⁷ + 25⁷ = 0` in `G` -/
theorem ciede2000_negative_chroma_poison (l h : ℝ) :
    ciede2000 (fromLch (ok l) (ok (-25)) (ok h)) (fromLch (ok l) (ok (-25)) (ok h)) = poison := by
  have hg : gOf (ok (-25)) (ok (-25)) = poison := by
    unfold gOf tf7 powi7
    norm_num
  have e : ciede2000 (fromLch (ok l) (ok (-25)) (ok h)) (fromLch (ok l) (ok (-25)) (ok h))
      = ciede2000With (Scalar.const D2R) (Scalar.const R2D) (fromLchWith (Scalar.const D2R) (ok l) (ok (-25)) (ok h))
          (fromLchWith (Scalar.const D2R) (ok l) (ok (-25)) (ok h)) := rfl
  rw [e, constD2R_T, constR2D_T, fromLchWith_T]
  simp only [ciede2000With, inter, liftLcd, fromLchWith, hg, aPrime, cPrime, calcHPrime, deltaHPrime, hBarPrime, bigDeltaH, combine,
    mul_none, none_mul, add_none, none_add, sub_none, none_sub, div_none, none_div, sqrt_none, ofSci]

/-- **`ImprovedCiede2000`** (`1.43·d^0.7`): finite for all finite Lab inputs (`d ≥ 0`, the exponent is positive) -/
theorem improvedCiede2000_lab_finite (l1 a1 b1 l2 a2 b2 : ℝ) :
    ∃ r : ℝ, 0 ≤ r ∧ improvedOfCiede (ciede2000 (fromLab (ok l1) (ok a1) (ok b1)) (fromLab (ok l2) (ok a2) (ok b2))) = ok r := by
  obtain ⟨d, hd, e⟩ := ciede2000_lab_finite l1 a1 b1 l2 a2 b2
  rw [e]
  unfold improvedOfCiede
  simp only [ofSci, powf_some_of_nonneg_pos _ _ hd (by norm_num : (0:ℝ) < 0.7), mul_some]
  exact ⟨_, mul_nonneg (by norm_num) (Real.rpow_nonneg hd _), rfl⟩

theorem improvedCiede2000_lch_finite (l1 c1 h1 l2 c2 h2 : ℝ) (hc1 : 0 ≤ c1) (hc2 : 0 ≤ c2) :
    ∃ r : ℝ, 0 ≤ r ∧ improvedOfCiede (ciede2000 (fromLch (ok l1) (ok c1) (ok h1)) (fromLch (ok l2) (ok c2) (ok h2))) = ok r := by
  obtain ⟨d, hd, e⟩ := ciede2000_lch_finite l1 c1 h1 l2 c2 h2 hc1 hc2
  rw [e]
  unfold improvedOfCiede
  simp only [ofSci, powf_some_of_nonneg_pos _ _ hd (by norm_num : (0:ℝ) < 0.7), mul_some]
  exact ⟨_, mul_nonneg (by norm_num) (Real.rpow_nonneg hd _), rfl⟩

/-! ## sharper: with the exact degree→radian factor the form is positive *definite* (`|R_T| ≤ √3 < 2`) -/

theorem deltaTheta_range (hb : ℝ) : 0 < deltaTheta hb ∧ deltaTheta hb ≤ 30 := by
  simp only [deltaTheta, RealScalar.exp_eq]
  have h0 : 0 < Real.exp (-((hb - 275.0) / 25.0 * ((hb - 275.0) / 25.0))) := Real.exp_pos _
  have h1 : Real.exp (-((hb - 275.0) / 25.0 * ((hb - 275.0) / 25.0))) ≤ 1 := by
    rw [Real.exp_le_one_iff]
    have := mul_self_nonneg ((hb - 275.0) / 25.0)
    linarith
  norm_num at *
  constructor <;> linarith

/-- `0 ≤ sin(2Δθ) ≤ sin 60° = √3/2`: the rotation angle `2Δθ` lies in `(0°, 60°]` -/
theorem sin_two_deltaTheta_range (hb : ℝ) :
    0 ≤ Real.sin (2.0 * deltaTheta hb * (Real.pi / 180)) ∧ Real.sin (2.0 * deltaTheta hb * (Real.pi / 180)) ≤ Real.sqrt 3 / 2 := by
  obtain ⟨h0, h30⟩ := deltaTheta_range hb
  have hpi := Real.pi_pos
  have ha0 : 0 ≤ 2.0 * deltaTheta hb * (Real.pi / 180) := by positivity
  have ha1 : 2.0 * deltaTheta hb * (Real.pi / 180) ≤ Real.pi / 3 := by
    have : 2.0 * deltaTheta hb * (Real.pi / 180) = deltaTheta hb * (Real.pi / 90) := by sring
    rw [this]
    have : deltaTheta hb * (Real.pi / 90) ≤ 30 * (Real.pi / 90) := mul_le_mul_of_nonneg_right h30 (by positivity)
    linarith
  constructor
  · exact Real.sin_nonneg_of_nonneg_of_le_pi ha0 (by linarith)
  · rw [← Real.sin_pi_div_three]
    exact Real.sin_le_sin_of_le_of_le_pi_div_two (by linarith) (by linarith) ha1

/-- **`|R_T| ≤ √3`** for the exact factor `π/180` (and `R_T ≤ 0`: the rotation term never adds) -/
theorem rT_abs_le_sqrt3 (cb hb : ℝ) (h : 0 ≤ cb) : -Real.sqrt 3 ≤ rT (Real.pi / 180) cb hb ∧ rT (Real.pi / 180) cb hb ≤ 0 := by
  obtain ⟨c0, c2⟩ := C09.rC_bounds cb h
  obtain ⟨s0, s1⟩ := sin_two_deltaTheta_range hb
  simp only [rT, RealScalar.sin_eq]
  have h3 : 0 ≤ Real.sqrt 3 := Real.sqrt_nonneg _
  constructor
  · nlinarith
  · nlinarith

theorem sqrt3_lt_two : Real.sqrt 3 < 2 := by
  rw [show (2:ℝ) = Real.sqrt 4 by rw [show (4:ℝ) = 2 * 2 by norm_num, Real.sqrt_mul_self (by norm_num)]]
  exact Real.sqrt_lt_sqrt (by norm_num) (by norm_num)

/-- hence the radicand vanishes only for `ΔL′ = ΔC′ = ΔH′ = 0` (non-zero weights): the form is positive definite,
    `radicand ≥ x² + (1 − √3/2)(y² + z²)` -/
theorem radicand_pos_def (dL dC dH sl sc sh rt : ℝ) (h1 : -Real.sqrt 3 ≤ rt) (h2 : rt ≤ 0) :
    (dL / sl) ^ 2 + (1 - Real.sqrt 3 / 2) * ((dC / sc) ^ 2 + (dH / sh) ^ 2) ≤ radicand dL dC dH sl sc sh rt := by
  rw [radicand_eq_quad]
  have h3 : 0 ≤ Real.sqrt 3 := Real.sqrt_nonneg _
  nlinarith [sq_nonneg (dC / sc + dH / sh), sq_nonneg (dC / sc - dH / sh), mul_nonneg (by linarith : (0:ℝ) ≤ rt + Real.sqrt 3) (sq_nonneg (dC / sc - dH / sh)),
    mul_nonneg (by linarith : (0:ℝ) ≤ -rt) (sq_nonneg (dC / sc + dH / sh))]

end C07
