/-
  C16 — the baked CAM16 parameters are positive (and every operation of `prepare_parameters` stays inside its domain) for
  every set of raw viewing conditions in the documented domain.

  `ValidRaw prm` is the documented domain of `cam16::Parameters` (parameters.rs): adapting luminance `L_A > 0`, background
  luminance factor `Y_b > 0`, white point with `Y_w > 0` and positive CAT16 cone responses; the surround may be any of
  `Dark/Dim/Average/Percent(v)` (any real `v`: it is clamped to [0, 20]) and the discounting `Auto` or `Custom(d)` (any real `d`:
  it is clamped to [0, 1]).  From these and nothing else `prepare_positive` derives what the round-trip theorems of
  `C16_Cam16.lean` took as hypotheses: `F_L, F_L^¼, n, z, N_bb, N_cb, c, N_c, D_RGB, A_w, 1.64 − 0.29^n > 0`, the ranges
  `c ∈ [0.525, 0.69]`, `N_c ∈ [0.8, 1]`, `D ∈ [0, 1]`, and the `Baked` consistency.
  "Finiteness" is the poisoned-real reading (`PReal`, DESIGN §2.1): `prepare_defined` says that `prepare_parameters` evaluated
  with poisoning operations (division by zero, `powf` of a negative base, `sqrt` of a negative number give poison = NaN/inf)
  returns exactly the real values, i.e. no divisor is zero and no function leaves its domain.
-/
import PaletteProofs.C16_Cam16

namespace C16
open Cam16

/-- the documented domain of the raw viewing conditions (`cam16::Parameters` after `into_any_white_point`) -/
structure ValidRaw (prm : Parameters ℝ) : Prop where
  la : 0 < prm.adaptingLuminance
  yb : 0 < prm.backgroundLuminance
  yw : 0 < prm.whitePoint.c1
  cone0 : 0 < (m16 prm.whitePoint).c0
  cone1 : 0 < (m16 prm.whitePoint).c1
  cone2 : 0 < (m16 prm.whitePoint).c2

/-- what the ℝ theorems need of the baked parameters -/
structure Positive (p : Dep ℝ) : Prop where
  fL : 0 < p.adaptFL
  fL4 : 0 < p.fL4
  n : 0 < p.n
  z : 1.48 < p.z
  nBb : 0 < p.nBb
  nCb : 0 < p.nCb
  c_lo : 0.525 ≤ p.c
  c_hi : p.c ≤ 0.69
  nC_lo : 0.8 ≤ p.nC
  nC_hi : p.nC ≤ 1
  d0 : 0 < p.dRgb.c0
  d1 : 0 < p.dRgb.c1
  d2 : 0 < p.dRgb.c2
  aW : 0 < p.aW
  k : 0 < 1.64 - (0.29:ℝ) ^ p.n
  unConst : 0 < p.unadaptConstant
  baked : Baked p

/-! ### `F_L` -/

theorem spec_FL_pos {la : ℝ} (h : 0 < la) : 0 < Spec.Cam16.FL la := by
  unfold Spec.Cam16.FL Spec.Cam16.k
  have h1 : 0 < 0.2 * (1 / (5 * la + 1)) ^ 4 * (5 * la) := by positivity
  have h2 : 0 ≤ 0.1 * (1 - (1 / (5 * la + 1)) ^ 4) ^ 2 * (5 * la) ^ ((1:ℝ) / 3) := by positivity
  linarith

theorem prepare_fL_pos (prm : Parameters ℝ) (h : 0 < prm.adaptingLuminance) :
    0 < (prepareParameters prm).adaptFL ∧ 0 < (prepareParameters prm).fL4 := by
  obtain ⟨e1, e2, -⟩ := prepare_eq_spec prm
  rw [e1, e2]
  exact ⟨spec_FL_pos h, Real.rpow_pos_of_pos (spec_FL_pos h) _⟩

/-! ### `n`, `z`, `N_bb`, `N_cb`, `1.64 − 0.29^n` -/

theorem prepare_n (prm : Parameters ℝ) :
    (prepareParameters prm).n = prm.backgroundLuminance * 100.0 / (prm.whitePoint.c1 * 100.0) := by
  simp only [prepareParameters, K.prepare_0, K.prepare_1]

theorem prepare_n_pos (prm : Parameters ℝ) (hb : 0 < prm.backgroundLuminance) (hw : 0 < prm.whitePoint.c1) :
    0 < (prepareParameters prm).n := by
  rw [prepare_n]; positivity

theorem prepare_z (prm : Parameters ℝ) : (prepareParameters prm).z = 1.48 + Real.sqrt (prepareParameters prm).n := by
  simp only [prepareParameters, K.prepare_20, RealScalar.sqrt_eq]

theorem prepare_nBb (prm : Parameters ℝ) :
    (prepareParameters prm).nBb = 0.725 * (prepareParameters prm).n ^ (-(0.2:ℝ)) ∧ (prepareParameters prm).nCb = (prepareParameters prm).nBb := by
  refine ⟨?_, rfl⟩
  simp only [prepareParameters, K.prepare_21, K.prepare_22, RealScalar.powf_eq]

theorem k_pos_of_n {n : ℝ} (hn : 0 ≤ n) : 0 < 1.64 - (0.29:ℝ) ^ n := by
  have : (0.29:ℝ) ^ n ≤ 1 := Real.rpow_le_one (by norm_num) (by norm_num) hn
  linarith

/-! ### surround: `c`, `N_c` (= `F`) -/

theorem intoPercent_range (s : Surround ℝ) : 0 ≤ s.intoPercent ∧ s.intoPercent ≤ 20 := by
  cases s with
  | dark => simp only [Surround.intoPercent, K.surround_0]; norm_num
  | dim => simp only [Surround.intoPercent, K.surround_1]; norm_num
  | average => simp only [Surround.intoPercent, K.surround_2]; norm_num
  | percent v =>
    simp only [Surround.intoPercent, K.surround_3, K.surround_4, RealScalar.clamp_eq]
    split_ifs with h1 h2
    · norm_num
    · norm_num
    · constructor
      · have := not_lt.mp h1; norm_num at this; exact this
      · have := not_lt.mp h2; norm_num at this; exact this

/-- `c` as a function of the surround in tenths of a percent `s ∈ [0, 2]` -/
noncomputable def cOf (s : ℝ) : ℝ := if 1.0 ≤ s then lerp 0.59 0.69 (s - 1.0) else lerp 0.525 0.59 s
/-- `F = N_c` as a function of `c` -/
noncomputable def fOf (c : ℝ) : ℝ :=
  if 0.59 ≤ c then lerp 0.9 1.0 ((c - 0.59) / 0.1) else lerp 0.8 0.9 ((c - 0.525) / 0.065)

theorem prepare_c (prm : Parameters ℝ) : (prepareParameters prm).c = cOf (prm.surround.intoPercent * 0.1) := by
  simp only [prepareParameters, cOf, K.prepare_2, K.prepare_3, K.prepare_4, K.prepare_5, K.prepare_6]
  rfl

theorem prepare_nC (prm : Parameters ℝ) : (prepareParameters prm).nC = fOf (prepareParameters prm).c := by
  simp only [prepareParameters, fOf, K.prepare_2, K.prepare_3, K.prepare_4, K.prepare_5, K.prepare_6, K.prepare_7, K.prepare_8, K.prepare_9,
    K.prepare_10, K.prepare_11, K.prepare_12, K.prepare_13, K.prepare_14]
  rfl

theorem cOf_range {s : ℝ} (h0 : 0 ≤ s) (h2 : s ≤ 2) : 0.525 ≤ cOf s ∧ cOf s ≤ 0.69 := by
  unfold cOf
  split_ifs with h
  · have h' : (1:ℝ) ≤ s := by norm_num at h; exact h
    rw [lerp_eq]; constructor <;> nlinarith
  · have h' : s < 1 := by have := not_le.mp h; norm_num at this; exact this
    rw [lerp_eq]; constructor <;> nlinarith

theorem fOf_range {c : ℝ} (h0 : 0.525 ≤ c) (h2 : c ≤ 0.69) : 0.8 ≤ fOf c ∧ fOf c ≤ 1 := by
  unfold fOf
  split_ifs with h
  · rw [lerp_eq]
    have e : (1 - (c - 0.59) / 0.1) * 0.9 + (c - 0.59) / 0.1 * 1.0 = c - 0.59 + 0.9 := by sring
    rw [e]; constructor <;> linarith
  · have h' : c < 0.59 := not_le.mp h
    rw [lerp_eq]
    have e : (1 - (c - 0.525) / 0.065) * 0.8 + (c - 0.525) / 0.065 * 0.9 = 0.8 + (c - 0.525) / 0.065 * 0.1 := by sring
    rw [e]
    have hq : 0 ≤ (c - 0.525) / 0.065 := div_nonneg (by linarith) (by norm_num)
    have hq1 : (c - 0.525) / 0.065 ≤ 1 := by rw [div_le_one (by norm_num)]; linarith
    constructor <;> nlinarith

theorem prepare_c_range (prm : Parameters ℝ) : 0.525 ≤ (prepareParameters prm).c ∧ (prepareParameters prm).c ≤ 0.69 := by
  rw [prepare_c]
  obtain ⟨h0, h20⟩ := intoPercent_range prm.surround
  exact cOf_range (by positivity) (by linarith)

theorem prepare_nC_range (prm : Parameters ℝ) : 0.8 ≤ (prepareParameters prm).nC ∧ (prepareParameters prm).nC ≤ 1 := by
  rw [prepare_nC]
  obtain ⟨h0, h1⟩ := prepare_c_range prm
  exact fOf_range h0 h1

/-! ### degree of adaptation `D`, the channel factors `D_RGB`, the achromatic response of the white `A_w` -/

/-- the white point on the 0–100 scale and its cone responses, as `prepare_parameters` forms them -/
noncomputable def whiteCones (prm : Parameters ℝ) : V3 ℝ :=
  m16 ⟨prm.whitePoint.c0 * 100.0, prm.whitePoint.c1 * 100.0, prm.whitePoint.c2 * 100.0⟩

theorem clamp01_range (v : ℝ) : 0 ≤ Scalar.clamp v (0.0:ℝ) 1.0 ∧ Scalar.clamp v (0.0:ℝ) 1.0 ≤ 1 := by
  rw [RealScalar.clamp_eq]
  split_ifs with h1 h2
  · norm_num
  · norm_num
  · constructor
    · have := not_lt.mp h1; norm_num at this; exact this
    · have := not_lt.mp h2; norm_num at this; exact this

/-- **`D ∈ [0, 1]`** whatever the discounting setting is, and each channel factor is `lerp(1, Y_w/R_w, D)` -/
theorem prepare_dRgb (prm : Parameters ℝ) : ∃ d : ℝ, 0 ≤ d ∧ d ≤ 1 ∧
    (prepareParameters prm).dRgb =
      ⟨lerp 1.0 (prm.whitePoint.c1 * 100.0 / (whiteCones prm).c0) d,
       lerp 1.0 (prm.whitePoint.c1 * 100.0 / (whiteCones prm).c1) d,
       lerp 1.0 (prm.whitePoint.c1 * 100.0 / (whiteCones prm).c2) d⟩ :=
  ⟨_, (clamp01_range _).1, (clamp01_range _).2, rfl⟩

theorem whiteCones_eq (prm : Parameters ℝ) :
    (whiteCones prm).c0 = 100 * (m16 prm.whitePoint).c0 ∧ (whiteCones prm).c1 = 100 * (m16 prm.whitePoint).c1 ∧
    (whiteCones prm).c2 = 100 * (m16 prm.whitePoint).c2 := by
  have e : m16 prm.whitePoint = m16 ⟨prm.whitePoint.c0, prm.whitePoint.c1, prm.whitePoint.c2⟩ := rfl
  rw [e]
  simp only [whiteCones, m16_eq]
  refine ⟨?_, ?_, ?_⟩ <;> sring

theorem whiteCones_pos {prm : Parameters ℝ} (v : ValidRaw prm) :
    0 < (whiteCones prm).c0 ∧ 0 < (whiteCones prm).c1 ∧ 0 < (whiteCones prm).c2 := by
  obtain ⟨e0, e1, e2⟩ := whiteCones_eq prm
  rw [e0, e1, e2]
  exact ⟨by have := v.cone0; positivity, by have := v.cone1; positivity, by have := v.cone2; positivity⟩

/-- a channel factor `D·Y_w/R_w + 1 − D` is positive for `D ∈ [0, 1]` and `Y_w/R_w > 0` -/
theorem lerp_one_pos {q d : ℝ} (hq : 0 < q) (h0 : 0 ≤ d) (h1 : d ≤ 1) : 0 < lerp 1.0 q d := by
  rw [lerp_eq]
  have : (1 - d) * 1.0 + d * q = (1 - d) + d * q := by sring
  rw [this]
  rcases eq_or_lt_of_le h0 with h | h
  · subst h; norm_num
  · have : 0 < d * q := by positivity
    linarith

/-- **`D_RGB > 0`** -/
theorem prepare_dRgb_pos {prm : Parameters ℝ} (v : ValidRaw prm) :
    0 < (prepareParameters prm).dRgb.c0 ∧ 0 < (prepareParameters prm).dRgb.c1 ∧ 0 < (prepareParameters prm).dRgb.c2 := by
  obtain ⟨h0, h1, h2⟩ := whiteCones_pos v
  obtain ⟨d, d0, d1, e⟩ := prepare_dRgb prm
  have hy : 0 < prm.whitePoint.c1 * 100.0 := by have := v.yw; positivity
  rw [e]
  exact ⟨lerp_one_pos (div_pos hy h0) d0 d1, lerp_one_pos (div_pos hy h1) d0 d1, lerp_one_pos (div_pos hy h2) d0 d1⟩

theorem prepare_aW (prm : Parameters ℝ) :
    (prepareParameters prm).aW = (prepareParameters prm).nBb *
      (2.0 * adaptRun (prepareParameters prm).adaptFL ((whiteCones prm).c0 * (prepareParameters prm).dRgb.c0)
        + adaptRun (prepareParameters prm).adaptFL ((whiteCones prm).c1 * (prepareParameters prm).dRgb.c1)
        + 0.05 * adaptRun (prepareParameters prm).adaptFL ((whiteCones prm).c2 * (prepareParameters prm).dRgb.c2)) := by
  simp only [prepareParameters, map3, mul3, whiteCones, K.prepare_0, K.prepare_29, K.prepare_30]

/-- **every baked parameter is positive** (and in its published range) for raw viewing conditions in the documented domain -/
theorem prepare_positive {prm : Parameters ℝ} (v : ValidRaw prm) : Positive (prepareParameters prm) := by
  obtain ⟨hfl, hfl4⟩ := prepare_fL_pos prm v.la
  have hn := prepare_n_pos prm v.yb v.yw
  obtain ⟨enbb, encb⟩ := prepare_nBb prm
  have hnbb : 0 < (prepareParameters prm).nBb := by
    rw [enbb]; have := Real.rpow_pos_of_pos hn (-(0.2:ℝ)); positivity
  obtain ⟨hc0, hc1⟩ := prepare_c_range prm
  obtain ⟨hf0, hf1⟩ := prepare_nC_range prm
  obtain ⟨hd0, hd1, hd2⟩ := prepare_dRgb_pos v
  obtain ⟨hw0, hw1, hw2⟩ := whiteCones_pos v
  have hb := prepare_baked prm
  refine { fL := hfl, fL4 := hfl4, n := hn, z := ?_, nBb := hnbb, nCb := by rw [encb]; exact hnbb, c_lo := hc0, c_hi := hc1,
           nC_lo := hf0, nC_hi := hf1, d0 := hd0, d1 := hd1, d2 := hd2, aW := ?_, k := k_pos_of_n hn.le, unConst := ?_, baked := hb }
  · rw [prepare_z]; have := Real.sqrt_pos.mpr hn; linarith
  · rw [prepare_aW]
    have a0 := (adaptRun_pos_range hfl (mul_pos hw0 hd0)).1
    have a1 := (adaptRun_pos_range hfl (mul_pos hw1 hd1)).1
    have a2 := (adaptRun_pos_range hfl (mul_pos hw2 hd2)).1
    positivity
  · rw [hb.2.2]
    have : (0:ℝ) < (27.13:ℝ) ^ ((1.0:ℝ) / 0.42) := Real.rpow_pos_of_pos (by norm_num) _
    positivity

/-- `A_w < 400·3.05·N_bb`: the adapted white responses stay below the saturation level 400 -/
theorem prepare_aW_lt {prm : Parameters ℝ} (v : ValidRaw prm) :
    (prepareParameters prm).aW < (prepareParameters prm).nBb * 1220 := by
  have P := prepare_positive v
  obtain ⟨hw0, hw1, hw2⟩ := whiteCones_pos v
  rw [prepare_aW]
  have a0 := (adaptRun_pos_range P.fL (mul_pos hw0 P.d0)).2
  have a1 := (adaptRun_pos_range P.fL (mul_pos hw1 P.d1)).2
  have a2 := (adaptRun_pos_range P.fL (mul_pos hw2 P.d2)).2
  apply mul_lt_mul_of_pos_left _ P.nBb
  norm_num; linarith

/-! ### non-vacuity: the raw domain is inhabited by the repo's own test conditions -/

/-- D65 (`Xyz(0.95047, 1, 1.08883)`), 40 cd/m², `Y_b` = 0.2 — with every surround and discounting -/
theorem validRaw_d65 (s : Surround ℝ) (d : Discounting ℝ) : ValidRaw ⟨⟨0.95047, 1.0, 1.08883⟩, 40.0, 0.2, s, d⟩ := by
  refine ⟨by norm_num, by norm_num, by norm_num, ?_, ?_, ?_⟩ <;> · simp only [m16_eq]; norm_num

/-- D50 (`Xyz(0.96422, 1, 0.82521)`), any positive luminances -/
theorem validRaw_d50 (la yb : ℝ) (hla : 0 < la) (hyb : 0 < yb) (s : Surround ℝ) (d : Discounting ℝ) :
    ValidRaw ⟨⟨0.96422, 1.0, 0.82521⟩, la, yb, s, d⟩ := by
  refine ⟨hla, hyb, by norm_num, ?_, ?_, ?_⟩ <;> · simp only [m16_eq]; norm_num

/-- the equal-energy white `(1, 1, 1)` has cone responses `(1, 1, 1)` (the CAT16 rows sum to 1) -/
theorem validRaw_equalEnergy (la yb : ℝ) (hla : 0 < la) (hyb : 0 < yb) (s : Surround ℝ) (d : Discounting ℝ) :
    ValidRaw ⟨⟨1.0, 1.0, 1.0⟩, la, yb, s, d⟩ := by
  refine ⟨hla, hyb, by norm_num, ?_, ?_, ?_⟩ <;> · simp only [m16_eq]; norm_num

example : Positive (prepareParameters ⟨⟨0.95047, 1.0, 1.08883⟩, 40.0, 0.2, .average, .auto⟩) := prepare_positive (validRaw_d65 _ _)

end C16
