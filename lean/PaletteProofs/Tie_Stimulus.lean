/-
  Tie of the hand-written number-format model (`PaletteModel/Stimulus.lean`, C06) to the *text* of `palette/src/stimulus.rs`.

  `tools/extract.py` (`gen_bodies`, translator `tools/rust2lean.py`, family `stim`, macro engine `tools/rust_macros.py`) finds on every run all 42
  `impl IntoStimulus<target> for source` (the ordered pairs of f32, f64, u8, u16, u32, u64, u128) — 38 of them inside the expansions of
  `convert_float_to_uint!(f32; direct (u8, u16); via f64 (u32, u64, u128);)`, `convert_double_to_uint!`, `convert_uint_to_float!`,
  `convert_uint_to_uint!`, `convert_uint_to_larger_uint!` at their current invocations, 4 written by hand — and translates each body with a
  *typed, monomorphic* lowering (`MonoLower`) onto Lean core's kernel-transparent `Float32` / `Float` / `UIntN` (`u128`: `Nat`):
  `to_bits`, `from_bits`, `saturating_sub`, `<<`, `|`, wrapping `+`, the constants `C23` / `C52` and `uN::MAX` re-read from the source, float
  literals as bit patterns.  What the *language* defines — `min`, `max`, `clamp`, `round`, `recip` and the `as` casts — is read as the
  definition of Stimulus.lean that transcribes it (`Stim.min32`, `Stim.f32ToF64`, `Stim.f64ToF32`, `Stim.natToF64`, `Stim.f64CastNat`, …;
  list in the header of Gen/BodiesStim.lean); those readings are compared with the hardware by the correspondence run.

  Each theorem `tie_stim<Src>To<Dst>` states, **for every input** (every bit pattern / every integer of the source type), that the translated
  arm computes what the model function for that pair computes: `Stim.f32ToUint w`, `Stim.f64ToUint w`, `Stim.uintToF32 w`, `Stim.uintToF64 w`,
  `Stim.uintToUint w w'` (results as `Nat` in the model, as `UIntN` in the source: `UIntN.ofNat`; integer sources enter the model through
  `toNat`).  So the theorems of C06 (`C06_Stimulus*.lean`: monotone, nearest, saturating, round trips), which are about the model, are
  about these arms.  A changed constant (`C23`), comparison (`scaled < 2^52` → `<=`), operand order (`min(max)` / `max(0.0)`), `round` →
  truncation, the intermediate float type of an arm (`via f32` → `via f64`), a shift width or a different chaining of the widenings is a broken
  obligation naming the pair.

  Proof ingredients beyond unfolding: the kernel evaluates the closed constants (`u16::MAX as f32 = 65535.0`, `u128::MAX as f64 = 2^128`, …;
  `max_consts`); `(x << BITS) | x = x·2^BITS + x` on words (`widen_or`, no carry into the copied half); `u as uN = UIntN.ofNat (u.toNat % 2^N)`;
  in the "already an integer" branch (`¬ scaled < 2^52`) the saturating cast `Stim.f64CastNat` is the model's `Stim.bigCast`
  (`castNat_of_not_lt`).

  NOT translated: header of Gen/BodiesStim.lean.
-/
import PaletteModel.Gen.BodiesStim

namespace Tie
open Stim

/-! ### constants: `uN::max_intensity() as <float>` evaluated by the kernel = the bit patterns the model uses -/
theorem max_consts :
    (Gen.Body.stimMaxU8).toFloat32 = Float32.ofBits 0x437f0000 ∧ (Gen.Body.stimMaxU16).toFloat32 = Float32.ofBits 0x477fff00 ∧
    (Gen.Body.stimMaxU8).toFloat = maxF64 8 ∧ (Gen.Body.stimMaxU16).toFloat = maxF64 16 ∧
    natToF64 (Gen.Body.stimMaxU32).toNat = maxF64 32 ∧ natToF64 (Gen.Body.stimMaxU64).toNat = maxF64 64 ∧
    natToF64 Gen.Body.stimMaxU128 = maxF64 128 := ⟨rfl, rfl, rfl, rfl, rfl, rfl, rfl⟩

/-! ### word lemmas -/
theorem widen_or (w n : Nat) (h : n < 2 ^ w) : (n <<< w) ||| n = n * 2 ^ w + n := by
  rw [← Nat.shiftLeft_add_eq_or_of_lt h, Nat.shiftLeft_eq]

example : (200 : Nat) < 2 ^ 8 := by decide   -- the hypothesis of `widen_or` at a non-trivial value

theorem u32_toUInt8 (u : UInt32) : u.toUInt8 = UInt8.ofNat (u.toNat % 2 ^ 8) := by apply UInt8.toNat_inj.mp; simp
theorem u32_toUInt16 (u : UInt32) : u.toUInt16 = UInt16.ofNat (u.toNat % 2 ^ 16) := by apply UInt16.toNat_inj.mp; simp
theorem u64_toUInt8 (u : UInt64) : u.toUInt8 = UInt8.ofNat (u.toNat % 2 ^ 8) := by apply UInt8.toNat_inj.mp; simp
theorem u64_toUInt16 (u : UInt64) : u.toUInt16 = UInt16.ofNat (u.toNat % 2 ^ 16) := by apply UInt16.toNat_inj.mp; simp
theorem u64_toUInt32 (u : UInt64) : u.toUInt32 = UInt32.ofNat (u.toNat % 2 ^ 32) := by apply UInt32.toNat_inj.mp; simp
theorem u64_self (u : UInt64) : u = UInt64.ofNat (u.toNat % 2 ^ 64) := by
  apply UInt64.toNat_inj.mp; simp [Nat.mod_eq_of_lt u.toNat_lt]
theorem u64_toNat128 (u : UInt64) : u.toNat = u.toNat % 2 ^ 128 :=
  (Nat.mod_eq_of_lt (Nat.lt_trans u.toNat_lt (by decide))).symm

-- in the branch "already an integer, too large for the addition trick" the saturating cast is the model's `bigCast`
theorem castNat_of_not_lt (w : Nat) (s : Float) (h : ¬ s < Float.ofBits C52) : f64CastNat w s = bigCast w s := by
  have h' : ¬ s < Float.ofBits 0x4330000000000000 := h
  unfold f64CastNat
  by_cases hn : s.isNaN = true
  · rw [if_pos hn]; unfold bigCast; rw [if_pos hn]
  · rw [if_neg hn, if_neg h']

example : ¬ Float.ofBits 0x4340000000000000 < Float.ofBits C52 := by decide   -- 2^53: a value in the "already an integer" branch

-- `convert_float_to_uint!` via-f64 arm and `convert_double_to_uint!`: the body with its two final casts abstracted, against `Stim.f64Magic`
theorem f64_arm {β : Type} (w : Nat) (ofN : Nat → β) (castBits : UInt64 → β) (castF : Float → β)
    (h1 : ∀ u, castBits u = ofN (u.toNat % 2 ^ w)) (h2 : ∀ s, castF s = ofN (f64CastNat w s)) (m x : Float) :
    (let scaled : Float := max64 (min64 (x * m) m) (Float.ofBits 0x0000000000000000)
     if scaled < Float.ofBits (0x4330000000000000 : UInt64) then
       (let f : Float := scaled + Float.ofBits (0x4330000000000000 : UInt64); castBits (satSub64 f.toBits (0x4330000000000000 : UInt64)))
     else castF scaled)
    = ofN (match f64Magic m x with | .inl u => u.toNat % 2 ^ w | .inr s => bigCast w s) := by
  unfold f64Magic
  by_cases h : max64 (min64 (x * m) m) (Float.ofBits 0) < Float.ofBits C52
  · simp only [if_pos h, show (Float.ofBits (0x4330000000000000 : UInt64)) = Float.ofBits C52 from rfl]; exact h1 _
  · simp only [if_neg h, show (Float.ofBits (0x4330000000000000 : UInt64)) = Float.ofBits C52 from rfl]
    rw [h2, castNat_of_not_lt w _ h]

/-! ### float ↔ float -/
theorem tie_stimF32ToF64 : Gen.Body.stimF32ToF64 = Stim.f32ToF64 := rfl
theorem tie_stimF64ToF32 : Gen.Body.stimF64ToF32 = Stim.f64ToF32 := rfl

/-! ### f32 → u8, u16: the direct arm of `convert_float_to_uint!` (`(x·MAX).min(MAX).max(0) + 2^23`, bits minus `C23`, truncating cast) -/
theorem tie_stimF32ToU8 (x : Float32) : Gen.Body.stimF32ToU8 x = UInt8.ofNat (Stim.f32ToUint 8 x) := by
  rw [show Stim.f32ToUint 8 x = (Stim.f32Direct (Float32.ofBits 0x437f0000) x).toNat % 2 ^ 8 from rfl, ← u32_toUInt8]; rfl
theorem tie_stimF32ToU16 (x : Float32) : Gen.Body.stimF32ToU16 x = UInt16.ofNat (Stim.f32ToUint 16 x) := by
  rw [show Stim.f32ToUint 16 x = (Stim.f32Direct (Float32.ofBits 0x477fff00) x).toNat % 2 ^ 16 from rfl, ← u32_toUInt16]; rfl

/-! ### f32 → u32, u64, u128: the via-f64 arm (`self as f64` first) -/
theorem tie_stimF32ToU32 (x : Float32) : Gen.Body.stimF32ToU32 x = UInt32.ofNat (Stim.f32ToUint 32 x) :=
  f64_arm 32 UInt32.ofNat (·.toUInt32) (fun s => UInt32.ofNat (f64CastNat 32 s)) u64_toUInt32 (fun _ => rfl) (maxF64 32) (f32ToF64 x)
theorem tie_stimF32ToU64 (x : Float32) : Gen.Body.stimF32ToU64 x = UInt64.ofNat (Stim.f32ToUint 64 x) :=
  f64_arm 64 UInt64.ofNat (fun u => u) (fun s => UInt64.ofNat (f64CastNat 64 s)) u64_self (fun _ => rfl) (maxF64 64) (f32ToF64 x)
theorem tie_stimF32ToU128 (x : Float32) : Gen.Body.stimF32ToU128 x = Stim.f32ToUint 128 x :=
  f64_arm 128 (fun n => n) (·.toNat) (fun s => f64CastNat 128 s) u64_toNat128 (fun _ => rfl) (maxF64 128) (f32ToF64 x)

/-! ### f64 → u8 … u128: `convert_double_to_uint!` -/
theorem tie_stimF64ToU8 (x : Float) : Gen.Body.stimF64ToU8 x = UInt8.ofNat (Stim.f64ToUint 8 x) :=
  f64_arm 8 UInt8.ofNat (·.toUInt8) (fun s => UInt8.ofNat (f64CastNat 8 s)) u64_toUInt8 (fun _ => rfl) (maxF64 8) x
theorem tie_stimF64ToU16 (x : Float) : Gen.Body.stimF64ToU16 x = UInt16.ofNat (Stim.f64ToUint 16 x) :=
  f64_arm 16 UInt16.ofNat (·.toUInt16) (fun s => UInt16.ofNat (f64CastNat 16 s)) u64_toUInt16 (fun _ => rfl) (maxF64 16) x
theorem tie_stimF64ToU32 (x : Float) : Gen.Body.stimF64ToU32 x = UInt32.ofNat (Stim.f64ToUint 32 x) :=
  f64_arm 32 UInt32.ofNat (·.toUInt32) (fun s => UInt32.ofNat (f64CastNat 32 s)) u64_toUInt32 (fun _ => rfl) (maxF64 32) x
theorem tie_stimF64ToU64 (x : Float) : Gen.Body.stimF64ToU64 x = UInt64.ofNat (Stim.f64ToUint 64 x) :=
  f64_arm 64 UInt64.ofNat (fun u => u) (fun s => UInt64.ofNat (f64CastNat 64 s)) u64_self (fun _ => rfl) (maxF64 64) x
theorem tie_stimF64ToU128 (x : Float) : Gen.Body.stimF64ToU128 x = Stim.f64ToUint 128 x :=
  f64_arm 128 (fun n => n) (·.toNat) (fun s => f64CastNat 128 s) u64_toNat128 (fun _ => rfl) (maxF64 128) x

/-! ### u8 → f32, f64: the hand-written magic-number impls -/
theorem tie_stimU8ToF32 (n : UInt8) : Gen.Body.stimU8ToF32 n = Stim.uintToF32 8 n.toNat := by
  rw [show Stim.uintToF32 8 n.toNat = Stim.u8ToF32 (UInt8.ofNat n.toNat) from rfl, UInt8.ofNat_toNat]; rfl
theorem tie_stimU8ToF64 (n : UInt8) : Gen.Body.stimU8ToF64 n = Stim.uintToF64 8 n.toNat := by
  rw [show Stim.uintToF64 8 n.toNat = Stim.u8ToF64 (UInt8.ofNat n.toNat) from rfl, UInt8.ofNat_toNat]; rfl

/-! ### u16, u32, u64, u128 → f32, f64: `convert_uint_to_float!` (`self as tmp / MAX as tmp`, then `as target`) -/
theorem tie_stimU16ToF32 (n : UInt16) : Gen.Body.stimU16ToF32 n = Stim.uintToF32 16 n.toNat := by
  rw [show Stim.uintToF32 16 n.toNat = (UInt16.ofNat n.toNat).toFloat32 / Float32.ofBits 0x477fff00 from rfl, UInt16.ofNat_toNat]; rfl
theorem tie_stimU16ToF64 (n : UInt16) : Gen.Body.stimU16ToF64 n = Stim.uintToF64 16 n.toNat := by
  rw [show Stim.uintToF64 16 n.toNat = (UInt16.ofNat n.toNat).toFloat / maxF64 16 from rfl, UInt16.ofNat_toNat]; rfl
theorem tie_stimU32ToF32 (n : UInt32) : Gen.Body.stimU32ToF32 n = Stim.uintToF32 32 n.toNat := rfl
theorem tie_stimU32ToF64 (n : UInt32) : Gen.Body.stimU32ToF64 n = Stim.uintToF64 32 n.toNat := rfl
theorem tie_stimU64ToF32 (n : UInt64) : Gen.Body.stimU64ToF32 n = Stim.uintToF32 64 n.toNat := rfl
theorem tie_stimU64ToF64 (n : UInt64) : Gen.Body.stimU64ToF64 n = Stim.uintToF64 64 n.toNat := rfl
theorem tie_stimU128ToF32 (n : Nat) : Gen.Body.stimU128ToF32 n = Stim.uintToF32 128 n := rfl
theorem tie_stimU128ToF64 (n : Nat) : Gen.Body.stimU128ToF64 n = Stim.uintToF64 128 n := rfl

/-! ### narrowing: `convert_uint_to_uint!` (`u16 → u8` through f32, everything else through f64: scale, `round`, `clamp`, saturating cast) -/
theorem tie_stimU16ToU8 (n : UInt16) : Gen.Body.stimU16ToU8 n = UInt8.ofNat (Stim.uintToUint 16 8 n.toNat) := by
  rw [show Stim.uintToUint 16 8 n.toNat = (Stim.clamp32 (Stim.round32 (((UInt16.ofNat n.toNat).toFloat32 / Float32.ofBits 0x477fff00) *
      Float32.ofBits 0x437f0000)) (Float32.ofBits 0) (Float32.ofBits 0x437f0000)).toUInt8.toNat from rfl, UInt16.ofNat_toNat, UInt8.ofNat_toNat]; rfl
theorem tie_stimU32ToU8 (n : UInt32) : Gen.Body.stimU32ToU8 n = UInt8.ofNat (Stim.uintToUint 32 8 n.toNat) := rfl
theorem tie_stimU32ToU16 (n : UInt32) : Gen.Body.stimU32ToU16 n = UInt16.ofNat (Stim.uintToUint 32 16 n.toNat) := rfl
theorem tie_stimU64ToU8 (n : UInt64) : Gen.Body.stimU64ToU8 n = UInt8.ofNat (Stim.uintToUint 64 8 n.toNat) := rfl
theorem tie_stimU64ToU16 (n : UInt64) : Gen.Body.stimU64ToU16 n = UInt16.ofNat (Stim.uintToUint 64 16 n.toNat) := rfl
theorem tie_stimU64ToU32 (n : UInt64) : Gen.Body.stimU64ToU32 n = UInt32.ofNat (Stim.uintToUint 64 32 n.toNat) := rfl
theorem tie_stimU128ToU8 (n : Nat) : Gen.Body.stimU128ToU8 n = UInt8.ofNat (Stim.uintToUint 128 8 n) := rfl
theorem tie_stimU128ToU16 (n : Nat) : Gen.Body.stimU128ToU16 n = UInt16.ofNat (Stim.uintToUint 128 16 n) := rfl
theorem tie_stimU128ToU32 (n : Nat) : Gen.Body.stimU128ToU32 n = UInt32.ofNat (Stim.uintToUint 128 32 n) := rfl
theorem tie_stimU128ToU64 (n : Nat) : Gen.Body.stimU128ToU64 n = UInt64.ofNat (Stim.uintToUint 128 64 n) := rfl

/-! ### widening: `convert_uint_to_larger_uint!` — the `next` width is `(x << BITS) | x`, the others chain through it -/
theorem tie_stimU8ToU16 (n : UInt8) : Gen.Body.stimU8ToU16 n = UInt16.ofNat (Stim.uintToUint 8 16 n.toNat) := by
  have h : n.toNat < 2 ^ 8 := n.toNat_lt
  apply UInt16.toNat_inj.mp
  simp only [Gen.Body.stimU8ToU16, UInt16.toNat_or, UInt16.toNat_shiftLeft, UInt8.toNat_toUInt16, UInt16.toNat_ofNat']
  rw [show Stim.uintToUint 8 16 n.toNat = n.toNat * 2 ^ 8 + n.toNat from rfl, show UInt16.toNat 8 % 16 = 8 from rfl,
    Nat.mod_eq_of_lt (by rw [Nat.shiftLeft_eq]; omega), Nat.mod_eq_of_lt (by omega), widen_or 8 _ h]
theorem tie_stimU16ToU32 (n : UInt16) : Gen.Body.stimU16ToU32 n = UInt32.ofNat (Stim.uintToUint 16 32 n.toNat) := by
  have h : n.toNat < 2 ^ 16 := n.toNat_lt
  apply UInt32.toNat_inj.mp
  simp only [Gen.Body.stimU16ToU32, UInt32.toNat_or, UInt32.toNat_shiftLeft, UInt16.toNat_toUInt32, UInt32.toNat_ofNat']
  rw [show Stim.uintToUint 16 32 n.toNat = n.toNat * 2 ^ 16 + n.toNat from rfl, show UInt32.toNat 16 % 32 = 16 from rfl,
    Nat.mod_eq_of_lt (by rw [Nat.shiftLeft_eq]; omega), Nat.mod_eq_of_lt (by omega), widen_or 16 _ h]
theorem tie_stimU32ToU64 (n : UInt32) : Gen.Body.stimU32ToU64 n = UInt64.ofNat (Stim.uintToUint 32 64 n.toNat) := by
  have h : n.toNat < 2 ^ 32 := n.toNat_lt
  apply UInt64.toNat_inj.mp
  simp only [Gen.Body.stimU32ToU64, UInt64.toNat_or, UInt64.toNat_shiftLeft, UInt32.toNat_toUInt64, UInt64.toNat_ofNat']
  rw [show Stim.uintToUint 32 64 n.toNat = n.toNat * 2 ^ 32 + n.toNat from rfl, show UInt64.toNat 32 % 64 = 32 from rfl,
    Nat.mod_eq_of_lt (by rw [Nat.shiftLeft_eq]; omega), Nat.mod_eq_of_lt (by omega), widen_or 32 _ h]
theorem tie_stimU64ToU128 (n : UInt64) : Gen.Body.stimU64ToU128 n = Stim.uintToUint 64 128 n.toNat := by
  rw [show Stim.uintToUint 64 128 n.toNat = n.toNat * 2 ^ 64 + n.toNat from rfl, ← widen_or 64 n.toNat n.toNat_lt]; rfl

-- the intermediate word of a chained widening holds the model's intermediate value (it does not wrap)
theorem step16 (n : UInt8) : (UInt16.ofNat (Stim.uintToUint 8 16 n.toNat)).toNat = Stim.uintToUint 8 16 n.toNat := by
  have h : n.toNat < 2 ^ 8 := n.toNat_lt
  rw [UInt16.toNat_ofNat', show Stim.uintToUint 8 16 n.toNat = n.toNat * 2 ^ 8 + n.toNat from rfl]; exact Nat.mod_eq_of_lt (by omega)
theorem step32 (n : UInt16) : (UInt32.ofNat (Stim.uintToUint 16 32 n.toNat)).toNat = Stim.uintToUint 16 32 n.toNat := by
  have h : n.toNat < 2 ^ 16 := n.toNat_lt
  rw [UInt32.toNat_ofNat', show Stim.uintToUint 16 32 n.toNat = n.toNat * 2 ^ 16 + n.toNat from rfl]; exact Nat.mod_eq_of_lt (by omega)
theorem step64 (n : UInt32) : (UInt64.ofNat (Stim.uintToUint 32 64 n.toNat)).toNat = Stim.uintToUint 32 64 n.toNat := by
  have h : n.toNat < 2 ^ 32 := n.toNat_lt
  rw [UInt64.toNat_ofNat', show Stim.uintToUint 32 64 n.toNat = n.toNat * 2 ^ 32 + n.toNat from rfl]; exact Nat.mod_eq_of_lt (by omega)

-- the model's chained widenings are the compositions of its steps (normalised by `simp`: a kernel `rfl` would try to compare `k·2^32 + k` with `k`
--     by unfolding `Nat.mul` on the literal)
theorem chain (k : Nat) :
    Stim.uintToUint 16 32 (Stim.uintToUint 8 16 k) = Stim.uintToUint 8 32 k ∧ Stim.uintToUint 16 64 (Stim.uintToUint 8 16 k) = Stim.uintToUint 8 64 k ∧
    Stim.uintToUint 16 128 (Stim.uintToUint 8 16 k) = Stim.uintToUint 8 128 k ∧ Stim.uintToUint 32 64 (Stim.uintToUint 16 32 k) = Stim.uintToUint 16 64 k ∧
    Stim.uintToUint 32 128 (Stim.uintToUint 16 32 k) = Stim.uintToUint 16 128 k ∧ Stim.uintToUint 64 128 (Stim.uintToUint 32 64 k) = Stim.uintToUint 32 128 k := by
  simp only [Stim.uintToUint, Stim.widen, Nat.reduceBEq, Nat.reduceLT, Bool.false_eq_true, ↓reduceIte, and_self]

theorem tie_stimU32ToU128 (n : UInt32) : Gen.Body.stimU32ToU128 n = Stim.uintToUint 32 128 n.toNat := by
  show Gen.Body.stimU64ToU128 (Gen.Body.stimU32ToU64 n) = _
  rw [tie_stimU64ToU128, tie_stimU32ToU64, step64]; exact (chain n.toNat).2.2.2.2.2
theorem tie_stimU16ToU64 (n : UInt16) : Gen.Body.stimU16ToU64 n = UInt64.ofNat (Stim.uintToUint 16 64 n.toNat) := by
  show Gen.Body.stimU32ToU64 (Gen.Body.stimU16ToU32 n) = _
  rw [tie_stimU32ToU64, tie_stimU16ToU32, step32]; exact congrArg _ (chain n.toNat).2.2.2.1
theorem tie_stimU16ToU128 (n : UInt16) : Gen.Body.stimU16ToU128 n = Stim.uintToUint 16 128 n.toNat := by
  show Gen.Body.stimU32ToU128 (Gen.Body.stimU16ToU32 n) = _
  rw [tie_stimU32ToU128, tie_stimU16ToU32, step32]; exact (chain n.toNat).2.2.2.2.1
theorem tie_stimU8ToU32 (n : UInt8) : Gen.Body.stimU8ToU32 n = UInt32.ofNat (Stim.uintToUint 8 32 n.toNat) := by
  show Gen.Body.stimU16ToU32 (Gen.Body.stimU8ToU16 n) = _
  rw [tie_stimU16ToU32, tie_stimU8ToU16, step16]; exact congrArg _ (chain n.toNat).1
theorem tie_stimU8ToU64 (n : UInt8) : Gen.Body.stimU8ToU64 n = UInt64.ofNat (Stim.uintToUint 8 64 n.toNat) := by
  show Gen.Body.stimU16ToU64 (Gen.Body.stimU8ToU16 n) = _
  rw [tie_stimU16ToU64, tie_stimU8ToU16, step16]; exact congrArg _ (chain n.toNat).2.1
theorem tie_stimU8ToU128 (n : UInt8) : Gen.Body.stimU8ToU128 n = Stim.uintToUint 8 128 n.toNat := by
  show Gen.Body.stimU16ToU128 (Gen.Body.stimU8ToU16 n) = _
  rw [tie_stimU16ToU128, tie_stimU8ToU16, step16]; exact (chain n.toNat).2.2.1

end Tie
