/-
  The exact reading of the model: `Scalar ℝ`.  Noncomputable; used only in proofs.
  `powf` is `Real.rpow`, `atan2 y x` is `Complex.arg (x + y i)`, `cbrt` is the real (odd) cube root,
  `round` is half-away-from-zero, decidability is classical, `isValidDivisor x ↔ x ≠ 0`.
-/
import Mathlib.Analysis.SpecialFunctions.Pow.Real
import Mathlib.Analysis.SpecialFunctions.Complex.Arg
import Mathlib.Tactic.NormNum
import Mathlib.Tactic.Ring
import PaletteModel.Scalar

open Classical in
noncomputable instance instScalarReal : Scalar ℝ where
  toOfScientific := inferInstance
  const := K.eval
  abs := fun x => |x|
  sqrt := Real.sqrt
  cbrt := fun x => if 0 ≤ x then x ^ ((1:ℝ)/3) else -((-x) ^ ((1:ℝ)/3))
  exp := Real.exp
  ln := Real.log
  floor := fun x => (⌊x⌋ : ℝ)
  ceil := fun x => (⌈x⌉ : ℝ)
  round := fun x => if 0 ≤ x then (⌊x + 1/2⌋ : ℝ) else -(⌊-x + 1/2⌋ : ℝ)
  sin := Real.sin
  cos := Real.cos
  powf := fun x y => x ^ y
  atan2 := fun y x => Complex.arg ⟨x, y⟩
  min := fun a b => min a b
  max := fun a b => max a b
  isValidDivisor := fun x => decide (x ≠ 0)
  decLt := fun _ _ => Classical.propDecidable _
  decLe := fun _ _ => Classical.propDecidable _

/-- `ring` after normalising scientific literals.  (In this Mathlib, `ring` on an integer-valued scientific
    literal such as `16.0` builds a term the kernel rejects; `norm_num` first turns it into `16`.) -/
macro "sring" : tactic => `(tactic| first | (norm_num; done) | (norm_num; ring1) | ring1)

namespace RealScalar

@[simp] theorem powf_eq (x y : ℝ) : Scalar.powf x y = x ^ y := rfl
@[simp] theorem sqrt_eq (x : ℝ) : Scalar.sqrt x = Real.sqrt x := rfl
@[simp] theorem abs_eq (x : ℝ) : Scalar.abs x = |x| := rfl
@[simp] theorem min_eq (x y : ℝ) : Scalar.min x y = min x y := rfl
@[simp] theorem max_eq (x y : ℝ) : Scalar.max x y = max x y := rfl
@[simp] theorem exp_eq (x : ℝ) : Scalar.exp x = Real.exp x := rfl
@[simp] theorem ln_eq (x : ℝ) : Scalar.ln x = Real.log x := rfl
@[simp] theorem sin_eq (x : ℝ) : Scalar.sin x = Real.sin x := rfl
@[simp] theorem cos_eq (x : ℝ) : Scalar.cos x = Real.cos x := rfl
@[simp] theorem atan2_eq (y x : ℝ) : Scalar.atan2 y x = Complex.arg ⟨x, y⟩ := rfl
@[simp] theorem valid_eq (x : ℝ) : Scalar.isValidDivisor x = decide (x ≠ 0) := rfl
@[simp] theorem const_eq (k : K) : (Scalar.const k : ℝ) = K.eval k := rfl
@[simp] theorem mulAdd_eq (x m a : ℝ) : Scalar.mulAdd x m a = x * m + a := rfl
@[simp] theorem mulSub_eq (x m a : ℝ) : Scalar.mulSub x m a = x * m - a := rfl

@[simp] theorem eval_lit (m : Nat) (s : Bool) (e : Nat) : (K.eval (K.lit m s e) : ℝ) = OfScientific.ofScientific m s e := rfl
@[simp] theorem eval_add (a b : K) : (K.eval (a + b) : ℝ) = K.eval a + K.eval b := rfl
@[simp] theorem eval_sub (a b : K) : (K.eval (a - b) : ℝ) = K.eval a - K.eval b := rfl
@[simp] theorem eval_mul (a b : K) : (K.eval (a * b) : ℝ) = K.eval a * K.eval b := rfl
@[simp] theorem eval_div (a b : K) : (K.eval (a / b) : ℝ) = K.eval a / K.eval b := rfl
@[simp] theorem eval_neg (a : K) : (K.eval (-a) : ℝ) = - K.eval a := rfl
@[simp] theorem eval_ofSci (m : Nat) (s : Bool) (e : Nat) : (K.eval (OfScientific.ofScientific m s e : K) : ℝ) = OfScientific.ofScientific m s e := rfl

/-- bridge for the repaired `Rgb → Hsl` saturation (palette 4f36dd5): the denominator written in the code,
    `inverted_sum = (1 − max) + (1 − min)`, is the textbook `2 − (max + min)` at ℝ (they differ only in rounding).
    Not `simp`: rewrite with it explicitly after unfolding `rgbToHsl` / `rgbToHslMask` / `hslOfParts`. -/
theorem invertedSum_eq (a b : ℝ) : (1.0 - a) + (1.0 - b) = 2.0 - (a + b) := by sring

theorem clamp_eq (v lo hi : ℝ) : Scalar.clamp v lo hi = if v < lo then lo else if hi < v then hi else v := rfl

end RealScalar
