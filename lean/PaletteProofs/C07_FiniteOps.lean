/-
  C07, second file: blend modes, compose operators, (un)premultiplication, colour operators, colour differences, clamp — the same
  statement shape as `C07_Finite.lean` (`f (ok inputs) = ok _`, i.e. no poison), on the unchanged model functions of
  `Blend.lean`, `Ops.lean`, `Diff.lean`, `Clamp.lean` read at `PReal`.
-/
import PaletteProofs.PReal
import PaletteModel.Blend
import PaletteModel.Ops
import PaletteModel.Diff
import PaletteModel.Clamp
import Mathlib.Tactic.Linarith
import Mathlib.Tactic.Positivity

set_option linter.unusedSimpArgs false

namespace C07
open PReal

/-! ## blend modes (`blend/blend.rs`): total on **every** pair of reals, in particular on `[0,1]²` -/

/-- `dodge`: `dst ≤ 0 ⇒ 0`, `src ≥ 1 ⇒ 1`, else `min(1, dst / (1 − src))` — the second arm is the guard of the division -/
theorem dodge_ok (s d : ℝ) : ∃ r, Blend.dodgeBlend (ok s) (ok d) = ok r := by
  unfold Blend.dodgeBlend
  norm_num
  split_ifs with h1 h2
  · exact ⟨_, rfl⟩
  · exact ⟨_, rfl⟩
  · have : (1:ℝ) - s ≠ 0 := by intro h; apply h2; linarith
    simp [this]
/-- the guard is needed: the unguarded expression at `src = 1` is a division by zero -/
theorem dodge_unguarded_poison (d : ℝ) : Scalar.min (1.0 : PReal) (ok d / (1.0 - ok 1)) = poison := by norm_num

/-- `burn`: `dst ≥ 1 ⇒ 1`, `src ≤ 0 ⇒ 0`, else `1 − min(1, (1 − dst) / src)` -/
theorem burn_ok (s d : ℝ) : ∃ r, Blend.burnBlend (ok s) (ok d) = ok r := by
  unfold Blend.burnBlend
  norm_num
  split_ifs with h1 h2
  · exact ⟨_, rfl⟩
  · exact ⟨_, rfl⟩
  · have : s ≠ 0 := by intro h; apply h2; linarith
    simp [this]
theorem burn_unguarded_poison (d : ℝ) : (1.0 : PReal) - Scalar.min 1.0 ((1.0 - ok d) / ok 0) = poison := by norm_num

/-- `soft_light`: the square root is only taken on the arm `4·dst > 1` -/
theorem softLightD_ok (d : ℝ) : ∃ r, Blend.softLightD (ok d) = ok r := by
  unfold Blend.softLightD
  norm_num
  split_ifs with h
  · exact ⟨_, rfl⟩
  · rw [sqrt_some_of_nonneg _ (by simp only [not_le] at h; linarith)]; exact ⟨_, rfl⟩
theorem softLight_ok (s d : ℝ) : ∃ r, Blend.softLightBlend (ok s) (ok d) = ok r := by
  unfold Blend.softLightBlend
  obtain ⟨q, hq⟩ := softLightD_ok d
  simp only [hq]
  norm_num
  split_ifs <;> exact ⟨_, rfl⟩

theorem hardLight_ok (s d : ℝ) : ∃ r, Blend.hardLightBlend (ok s) (ok d) = ok r := by
  unfold Blend.hardLightBlend Blend.multiplyBlend Blend.screenBlend
  norm_num
  split_ifs <;> exact ⟨_, rfl⟩

/-- all eleven modes -/
theorem mode_ok (m : Blend.Mode) (s d : ℝ) : ∃ r, m.fn (ok s) (ok d) = ok r := by
  cases m <;> simp only [Blend.Mode.fn]
  · exact ⟨_, rfl⟩
  · exact ⟨s + d - s * d, rfl⟩
  · exact hardLight_ok d s
  · exact ⟨min s d, rfl⟩
  · exact ⟨max s d, rfl⟩
  · exact dodge_ok s d
  · exact burn_ok s d
  · exact hardLight_ok s d
  · exact softLight_ok s d
  · exact ⟨|d - s|, rfl⟩
  · exact ⟨d + s - (d + d) * s, rfl⟩

/-- the loop body of `blend_separable` -/
theorem blendComp_ok (m : Blend.Mode) (sa da s sp d dp : ℝ) :
    ∃ r, Blend.blendComp m.fn (ok sa) (ok da) (ok s) (ok sp) (ok d) (ok dp) = ok r := by
  unfold Blend.blendComp
  obtain ⟨q, hq⟩ := mode_ok m s d
  simp only [hq]
  norm_num

theorem blendAlpha_ok (s d : ℝ) : ∃ r, Blend.blendAlpha (ok s) (ok d) = ok r := by
  unfold Blend.blendAlpha
  norm_num
  exact ⟨_, clamp_some _ _ _⟩

/-! ## (un)premultiplication (`macros/blend.rs`) -/

/-- `unpremultiply`: `is_valid_divisor(alpha)` selects between `c / alpha` and `0` — every real colour and alpha, `alpha = 0` included -/
theorem unpremulC_ok (a x : ℝ) : ∃ r, Blend.unpremulC (Scalar.isValidDivisor (ok a)) (ok a) (ok x) = ok r := by
  unfold Blend.unpremulC
  by_cases h : a = 0
  · simp [h]
  · simp [h]
/-- transparent black stays black; the unguarded division is `0 / 0` -/
theorem unpremulC_zero_alpha (x : ℝ) : Blend.unpremulC (Scalar.isValidDivisor (ok 0)) (ok 0) (ok x) = ok 0 := by
  unfold Blend.unpremulC; norm_num
theorem unpremul_unguarded_poison (x : ℝ) : (ok x : PReal) / ok 0 = poison := by simp

theorem unpremultiply_ok (cs : List ℝ) (a : ℝ) : ∃ rs : List ℝ, Blend.unpremultiply (cs.map ok, ok a) = (rs.map ok, ok a) := by
  unfold Blend.unpremultiply
  simp only
  induction cs with
  | nil => exact ⟨[], rfl⟩
  | cons x xs ih =>
    obtain ⟨rs, hrs⟩ := ih
    obtain ⟨r, hr⟩ := unpremulC_ok a x
    refine ⟨r :: rs, ?_⟩
    simp only [List.map_cons, hr]
    have := congrArg Prod.fst hrs
    simp only at this
    rw [this]

theorem premultiply_ok (cs : List ℝ) (a : ℝ) : Blend.premultiply (cs.map ok) (ok a) = ((cs.map (· * a)).map ok, ok a) := by
  unfold Blend.premultiply
  simp [List.map_map, Function.comp_def]

/-! ## Porter-Duff operators (`blend/compose.rs`): no division at all -/
theorem compose_comp_ok (op : Blend.Op) (sa da s d : ℝ) : ∃ r, op.comp (ok sa) (ok da) (ok s) (ok d) = ok r := by
  cases op <;> simp only [Blend.Op.comp] <;> norm_num
theorem compose_alpha_ok (op : Blend.Op) (s d : ℝ) : ∃ r, op.alpha (ok s) (ok d) = ok r := by
  cases op <;> simp only [Blend.Op.alpha, Blend.blendAlpha] <;> norm_num <;> exact ⟨_, clamp_some _ _ _⟩

/-! ## colour operators (`macros/{mix,lighten_saturate,hue,arithmetics}.rs`): no division except by the literal 360 and by the caller's scalar -/

theorem addC_ok (a b : List ℝ) : ∃ r : List ℝ, Ops.addC (a.map ok) (b.map ok) = r.map ok := by
  induction a generalizing b with
  | nil => exact ⟨[], by simp [Ops.addC]⟩
  | cons x xs ih =>
    cases b with
    | nil => exact ⟨[], by simp [Ops.addC]⟩
    | cons y ys => obtain ⟨r, hr⟩ := ih ys; exact ⟨(x + y) :: r, by simp [Ops.addC, hr]⟩
theorem subC_ok (a b : List ℝ) : ∃ r : List ℝ, Ops.subC (a.map ok) (b.map ok) = r.map ok := by
  induction a generalizing b with
  | nil => exact ⟨[], by simp [Ops.subC]⟩
  | cons x xs ih =>
    cases b with
    | nil => exact ⟨[], by simp [Ops.subC]⟩
    | cons y ys => obtain ⟨r, hr⟩ := ih ys; exact ⟨(x - y) :: r, by simp [Ops.subC, hr]⟩
theorem mulC_ok (a b : List ℝ) : ∃ r : List ℝ, Ops.mulC (a.map ok) (b.map ok) = r.map ok := by
  induction a generalizing b with
  | nil => exact ⟨[], by simp [Ops.mulC]⟩
  | cons x xs ih =>
    cases b with
    | nil => exact ⟨[], by simp [Ops.mulC]⟩
    | cons y ys => obtain ⟨r, hr⟩ := ih ys; exact ⟨(x * y) :: r, by simp [Ops.mulC, hr]⟩
/-- component-wise division by a colour without zero components -/
theorem divC_ok (a b : List ℝ) (hb : ∀ y ∈ b, y ≠ 0) : ∃ r : List ℝ, Ops.divC (a.map ok) (b.map ok) = r.map ok := by
  induction a generalizing b with
  | nil => exact ⟨[], by simp [Ops.divC]⟩
  | cons x xs ih =>
    cases b with
    | nil => exact ⟨[], by simp [Ops.divC]⟩
    | cons y ys =>
      obtain ⟨r, hr⟩ := ih ys (fun z hz => hb z (List.mem_cons_of_mem _ hz))
      have hy : y ≠ 0 := hb y List.mem_cons_self
      exact ⟨(x / y) :: r, by simp [Ops.divC, hr, hy]⟩
theorem addS_ok (a : List ℝ) (c : ℝ) : Ops.addS (a.map ok) (ok c) = (a.map (· + c)).map ok := by
  unfold Ops.addS; simp [List.map_map, Function.comp_def]
theorem subS_ok (a : List ℝ) (c : ℝ) : Ops.subS (a.map ok) (ok c) = (a.map (· - c)).map ok := by
  unfold Ops.subS; simp [List.map_map, Function.comp_def]
theorem mulS_ok (a : List ℝ) (c : ℝ) : Ops.mulS (a.map ok) (ok c) = (a.map (· * c)).map ok := by
  unfold Ops.mulS; simp [List.map_map, Function.comp_def]
/-- division by an in-range **non-zero** scalar … -/
theorem divS_ok (a : List ℝ) (c : ℝ) (hc : c ≠ 0) : Ops.divS (a.map ok) (ok c) = (a.map (· / c)).map ok := by
  unfold Ops.divS; simp [List.map_map, Function.comp_def, hc]
/-- … and by zero every component is poison (the property only speaks about non-zero scalars) -/
theorem divS_zero_poison (x : ℝ) : Ops.divS [ok x] (ok 0) = [poison] := by
  unfold Ops.divS; simp

/-- `Mix::mix` (linear types): `self + (other − self) · clamp(factor, 0, 1)` — every real input and factor -/
theorem mixLin_ok (a b : List ℝ) (f : ℝ) : ∃ r : List ℝ, Ops.mixLin (a.map ok) (b.map ok) (ok f) = r.map ok := by
  unfold Ops.mixLin Ops.zero Ops.one
  norm_num
  rw [clamp_some]
  obtain ⟨d, hd⟩ := subC_ok b a
  rw [hd, mulS_ok]
  exact addC_ok _ _

/-- `SignedAngle::normalize_signed_angle`, the only division of the hue code: by the literal `360` -/
theorem normSigned_ok (x : ℝ) : ∃ r, Ops.normSigned (ok x) = ok r := by
  unfold Ops.normSigned; norm_num
theorem diffC_ok (ro : Ops.Role) (a b : ℝ) : ∃ r, Ops.diffC ro (ok a) (ok b) = ok r := by
  cases ro <;> simp only [Ops.diffC]
  · exact ⟨_, rfl⟩
  · exact normSigned_ok _

/-- the relative `Lighten`/`Saturate` step and its clamp -/
theorem incDelta_ok (hi c f : ℝ) : ∃ r, Ops.incDelta (ok hi) (ok c) (ok f) = ok r := by
  unfold Ops.incDelta Ops.zero
  norm_num
  split_ifs <;> exact ⟨_, rfl⟩
theorem lighten_component_ok (lo hi c f : ℝ) : ∃ r, Scalar.clamp (ok c + Ops.incDelta (ok hi) (ok c) (ok f)) (ok lo) (ok hi) = ok r := by
  obtain ⟨d, hd⟩ := incDelta_ok hi c f
  rw [hd]; exact ⟨_, clamp_some _ _ _⟩
theorem lighten_fixed_component_ok (lo hi c a : ℝ) : ∃ r, Scalar.clamp (ok c + ok hi * ok a) (ok lo) (ok hi) = ok r :=
  ⟨_, clamp_some _ _ _⟩
theorem hwbLighten_ok (l : Ops.HwbLim ℝ) (w b f : ℝ) :
    ∃ r s, Ops.hwbLighten (⟨ok l.minW, ok l.maxW, ok l.minB, ok l.maxB⟩ : Ops.HwbLim PReal) (ok w) (ok b) (ok f) = (ok r, ok s) := by
  unfold Ops.hwbLighten Ops.zero
  split_ifs <;> norm_num
theorem hwbLightenFixed_ok (l : Ops.HwbLim ℝ) (w b a : ℝ) :
    ∃ r s, Ops.hwbLightenFixed (⟨ok l.minW, ok l.maxW, ok l.minB, ok l.maxB⟩ : Ops.HwbLim PReal) (ok w) (ok b) (ok a) = (ok r, ok s) := by
  unfold Ops.hwbLightenFixed
  norm_num

/-- `clamp` (`Clamp.lean`): comparisons and selections only -/
theorem clampV_ok (v lo hi : ℝ) : ∃ r, Clamp.clampV (ok v) (ok lo) (ok hi) = ok r := by
  unfold Clamp.clampV
  simp only [lt_some]
  split_ifs <;> exact ⟨_, rfl⟩

/-! ## colour differences (`color_difference.rs`) -/

theorem distSq3_ok (x1 x2 x3 y1 y2 y3 : ℝ) :
    Diff.distSq3 (ok x1) (ok x2) (ok x3) (ok y1) (ok y2) (ok y3) = ok ((x1 - y1) * (x1 - y1) + (x2 - y2) * (x2 - y2) + (x3 - y3) * (x3 - y3)) := by
  unfold Diff.distSq3; simp
theorem distSq3_nonneg (x1 x2 x3 y1 y2 y3 : ℝ) : 0 ≤ (x1 - y1) * (x1 - y1) + (x2 - y2) * (x2 - y2) + (x3 - y3) * (x3 - y3) := by
  nlinarith [mul_self_nonneg (x1 - y1), mul_self_nonneg (x2 - y2), mul_self_nonneg (x3 - y3)]

/-- Euclidean distance / ΔE: the radicand is a sum of squares — every real input -/
theorem dist3_ok (x1 x2 x3 y1 y2 y3 : ℝ) : ∃ r, Diff.dist3 (ok x1) (ok x2) (ok x3) (ok y1) (ok y2) (ok y3) = ok r := by
  unfold Diff.dist3
  rw [distSq3_ok, sqrt_some_of_nonneg _ (distSq3_nonneg ..)]
  exact ⟨_, rfl⟩
theorem dist1_ok (x y : ℝ) : ∃ r, Diff.dist1 (ok x) (ok y) = ok r := by
  unfold Diff.dist1 Diff.distSq1
  simp only [sub_some, mul_some]
  rw [sqrt_some_of_nonneg _ (mul_self_nonneg _)]
  exact ⟨_, rfl⟩

/-- improved ΔE: `powf` of the squared distance with a positive exponent — every real input, identical colours (`0^0.275`) included -/
theorem improvedDeltaELab_ok (x1 x2 x3 y1 y2 y3 : ℝ) : ∃ r, Diff.improvedDeltaELab (ok x1) (ok x2) (ok x3) (ok y1) (ok y2) (ok y3) = ok r := by
  unfold Diff.improvedDeltaELab
  rw [distSq3_ok]
  norm_num
  rw [powf_some_of_nonneg_pos _ _ (distSq3_nonneg ..) (by norm_num)]
  exact ⟨_, rfl⟩
theorem improvedDeltaEJab_ok (x1 x2 x3 y1 y2 y3 : ℝ) : ∃ r, Diff.improvedDeltaEJab (ok x1) (ok x2) (ok x3) (ok y1) (ok y2) (ok y3) = ok r := by
  unfold Diff.improvedDeltaEJab
  rw [distSq3_ok]
  norm_num
  rw [powf_some_of_nonneg_pos _ _ (distSq3_nonneg ..) (by norm_num)]
  exact ⟨_, rfl⟩
/-- improved CIEDE2000 = `1.43 · d^0.7` on a non-negative `d` -/
theorem improvedOfCiede_ok (d : ℝ) (h : 0 ≤ d) : ∃ r, Diff.improvedOfCiede (ok d) = ok r := by
  unfold Diff.improvedOfCiede
  norm_num
  rw [powf_some_of_nonneg_pos _ _ h (by norm_num)]
  exact ⟨_, rfl⟩

/-- HyAB -/
theorem hyab_ok (l1 a1 b1 l2 a2 b2 : ℝ) : ∃ r, Diff.hyab (ok l1) (ok a1) (ok b1) (ok l2) (ok a2) (ok b2) = ok r := by
  unfold Diff.hyab
  simp only [sub_some, mul_some, add_some, abs_some]
  rw [sqrt_some_of_nonneg _ (by nlinarith [mul_self_nonneg (a1 - a2), mul_self_nonneg (b1 - b2)])]
  exact ⟨_, rfl⟩

/-- polar → rectangular (Lch, Jmh): no division -/
theorem polarToRect_ok (d2r l c h : ℝ) : ∃ x y z, Diff.polarToRectWith (ok d2r) (ok l) (ok c) (ok h) = (ok x, ok y, ok z) := by
  unfold Diff.polarToRectWith Diff.hueCos Diff.hueSin
  norm_num

/-- WCAG 2.1 relative contrast `(0.05 + max) / (0.05 + min)`: for relative luminances `≥ 0` the divisor is at least `0.05` -/
theorem relativeContrast_ok (l1 l2 : ℝ) (h1 : 0 ≤ l1) (h2 : 0 ≤ l2) : ∃ r, Diff.relativeContrast (ok l1) (ok l2) = ok r := by
  unfold Diff.relativeContrast Diff.minMax
  simp only [lt_some]
  split_ifs with h
  · have : (1 / 20 : ℝ) + l2 ≠ 0 := by positivity
    norm_num
    rw [div_some_of_ne _ _ this]; exact ⟨_, rfl⟩
  · have : (1 / 20 : ℝ) + l1 ≠ 0 := by positivity
    norm_num
    rw [div_some_of_ne _ _ this]; exact ⟨_, rfl⟩
/-- outside `[0, ∞)` the divisor can vanish (`l = −0.05`): the hypothesis is needed -/
theorem relativeContrast_poison : Diff.relativeContrast (ok (-0.05)) (ok 0) = poison := by
  unfold Diff.relativeContrast Diff.minMax
  norm_num

/-! ### CIEDE2000, term by term -/

theorem powi7_ok (x : ℝ) : Diff.powi7 (ok x) = ok (x * (x * x) * (x * x * (x * x))) := by
  unfold Diff.powi7; simp
theorem powi7_nonneg (x : ℝ) (h : 0 ≤ x) : 0 ≤ x * (x * x) * (x * x * (x * x)) := by positivity

/-- `G`: `c̄⁷ / (c̄⁷ + 25⁷)` under a square root — for chromas `≥ 0` the divisor is at least `25⁷` and the radicand non-negative -/
theorem gOf_ok (c1 c2 : ℝ) (h1 : 0 ≤ c1) (h2 : 0 ≤ c2) : ∃ r, Diff.gOf (ok c1) (ok c2) = ok r := by
  unfold Diff.gOf Diff.tf7
  norm_num
  rw [powi7_ok]
  have hp := powi7_nonneg ((c1 + c2) / 2) (by positivity)
  set p := (c1 + c2) / 2 * ((c1 + c2) / 2 * ((c1 + c2) / 2)) * ((c1 + c2) / 2 * ((c1 + c2) / 2) * ((c1 + c2) / 2 * ((c1 + c2) / 2))) with hpdef
  have hd : p + 6103515625 ≠ 0 := by positivity
  simp only [add_some, div_some_of_ne _ _ hd]
  rw [sqrt_some_of_nonneg _ (by positivity)]
  exact ⟨_, rfl⟩
theorem cPrime_ok (a b : ℝ) : ∃ r, Diff.cPrime (ok a) (ok b) = ok r ∧ 0 ≤ r := by
  unfold Diff.cPrime
  simp only [mul_some, add_some]
  rw [sqrt_some_of_nonneg _ (by nlinarith [mul_self_nonneg a, mul_self_nonneg b])]
  exact ⟨_, rfl, Real.sqrt_nonneg _⟩
/-- `h′`: the `b = 0 ∧ a′ = 0` select in front of `atan2` (total anyway at ℝ; kept because IEEE `atan2(0, -0) = π`) -/
theorem calcHPrime_ok (r2d b a : ℝ) : ∃ r, Diff.calcHPrime (ok r2d) (ok b) (ok a) = ok r := by
  unfold Diff.calcHPrime
  simp only [eqv_some, ofSci, atan2_some, mul_some, lt_some, add_some]
  split_ifs <;> exact ⟨_, rfl⟩
theorem deltaHPrime_ok (c1 c2 h1 h2 : ℝ) : ∃ r, Diff.deltaHPrime (ok c1) (ok c2) (ok h1) (ok h2) = ok r := by
  unfold Diff.deltaHPrime
  simp only [eqv_some, ofSci, sub_some, abs_some, le_some, add_some]
  split_ifs <;> exact ⟨_, rfl⟩
theorem hBarPrime_ok (c1 c2 h1 h2 : ℝ) : ∃ r, Diff.hBarPrime (ok c1) (ok c2) (ok h1) (ok h2) = ok r := by
  unfold Diff.hBarPrime
  norm_num
  split_ifs <;> exact ⟨_, rfl⟩
/-- `ΔH′ = 2 √(C₁′ C₂′) sin(Δh′/2)`: the radicand is a product of two square roots -/
theorem bigDeltaH_ok (d2r c1 c2 dh : ℝ) (h1 : 0 ≤ c1) (h2 : 0 ≤ c2) : ∃ r, Diff.bigDeltaH (ok d2r) (ok c1) (ok c2) (ok dh) = ok r := by
  unfold Diff.bigDeltaH
  norm_num
  rw [sqrt_some_of_nonneg _ (mul_nonneg h1 h2)]
  exact ⟨_, rfl⟩
theorem bigT_ok (d2r h : ℝ) : ∃ r, Diff.bigT (ok d2r) (ok h) = ok r := by
  unfold Diff.bigT; norm_num
/-- `S_L = 1 + 0.015 (L̄−50)² / √(20 + (L̄−50)²)`: the divisor is at least `√20` -/
theorem sL_ok (l : ℝ) : ∃ r, Diff.sL (ok l) = ok r ∧ 1 ≤ r := by
  unfold Diff.sL
  norm_num
  have hpos : 0 < (l - 50) * (l - 50) + 20 := by nlinarith [mul_self_nonneg (l - 50)]
  rw [sqrt_some_of_nonneg _ hpos.le]
  have hs : Real.sqrt ((l - 50) * (l - 50) + 20) ≠ 0 := (Real.sqrt_pos.mpr hpos).ne'
  simp only [div_some_of_ne _ _ hs, add_some]
  refine ⟨_, rfl, ?_⟩
  have : 0 ≤ 3 / 200 * (l - 50) * (l - 50) / Real.sqrt ((l - 50) * (l - 50) + 20) :=
    div_nonneg (by nlinarith [mul_self_nonneg (l - 50)]) (Real.sqrt_nonneg _)
  linarith
theorem sC_ok (c : ℝ) : Diff.sC (ok c) = ok (1 + 0.045 * c) := by
  unfold Diff.sC; norm_num
theorem sH_ok (c t : ℝ) : Diff.sH (ok c) (ok t) = ok (1 + 0.015 * c * t) := by
  unfold Diff.sH; norm_num
theorem deltaTheta_ok (h : ℝ) : ∃ r, Diff.deltaTheta (ok h) = ok r := by
  unfold Diff.deltaTheta; norm_num
theorem rC_ok (c : ℝ) (h : 0 ≤ c) : ∃ r, Diff.rC (ok c) = ok r := by
  unfold Diff.rC Diff.tf7
  rw [powi7_ok]
  have hp := powi7_nonneg c h
  set p := c * (c * c) * (c * c * (c * c)) with hpdef
  have hd : p + 6103515625 ≠ 0 := by positivity
  norm_num
  simp only [div_some_of_ne _ _ hd]
  rw [sqrt_some_of_nonneg _ (by positivity)]
  exact ⟨_, rfl⟩

/-- FULL STATEMENT: for Lab colours in range `ciede2000 x y ≠ poison`.  Proved here: every term above, and the last expression under
    the two facts it needs — the weights are non-zero and the radicand is non-negative (at ℝ both hold: `S_L ≥ 1`, `S_C ≥ 1`,
    `S_H ≥ 1 − 0.015·C̄′·0.93…`, `|R_T| < 2`; the positivity of `S_H` and the sign of the radicand are not carried over to `PReal`
    in this file) -/
theorem combine_finite_partial (dL dC dH sl sc sh rt : ℝ) (hl : sl ≠ 0) (hc : sc ≠ 0) (hh : sh ≠ 0)
    (hrad : 0 ≤ dL / (1 * sl) * (dL / (1 * sl)) + dC / (1 * sc) * (dC / (1 * sc)) + dH / (1 * sh) * (dH / (1 * sh)) + rt * dC * dH / (1 * sc * 1 * sh)) :
    ∃ r, Diff.combine (ok dL) (ok dC) (ok dH) (ok sl) (ok sc) (ok sh) (ok rt) = ok r := by
  unfold Diff.combine
  have h1 : (1:ℝ) * sl ≠ 0 := by simpa using hl
  have h2 : (1:ℝ) * sc ≠ 0 := by simpa using hc
  have h3 : (1:ℝ) * sh ≠ 0 := by simpa using hh
  have h4 : (1:ℝ) * sc * 1 * sh ≠ 0 := by simpa using ⟨hc, hh⟩
  simp only [ofSci]
  have e1 : (OfScientific.ofScientific 10 true 1 : ℝ) = 1 := by norm_num
  simp only [e1, mul_some, div_some_of_ne _ _ h1, div_some_of_ne _ _ h2, div_some_of_ne _ _ h3, div_some_of_ne _ _ h4, add_some]
  rw [sqrt_some_of_nonneg _ hrad]
  exact ⟨_, rfl⟩

end C07
