/-
  C16 — XYZ → CAM16 → XYZ through each of the six partial types, hypotheses on the raw viewing conditions and the colour only.

  * `kinds_recover_core`: for every kind (J|Q) × (C|M|s) the inverse's first two steps return the very `J_root` and `α` of the
    forward model (the table partial → core, completing `jch_recovers_core`);
  * `roundtrip_kinds`: the model's `cam16_to_xyz` applied to the attributes `xyz_to_cam16` computes and ANY stored hue `h` whose
    `into_radians` has the `sin`/`cos` of the forward hue angle returns `M16⁻¹(M16(100·xyz))/100` — on the exact domain
    (`InDomain`, achromatic signal > 0), for cone responses of any sign;
  * `roundtrip_model`: the model exactly as it stands (`into_xyz ∘ from_xyz`, hue through the model's own degree/radian constants)
    equals the inverse core at the hue angle `h_rad·(degK·radK)`, `degK·radK = 1 − 1.9e-36` — the only gap to the identity is this
    factor (a rounding matter, see `C16_Cam16Hue.lean`);
  * `roundtrip_exact_pi`: in the family with the conversion factors as parameters (the model is its member `degK`, `radK`, by `rfl`)
    the round trip through all six partial types is exact for the exact factors `180/π`, `π/180`, and does not see whole turns of
    the stored hue (hue modulo 360);
  * the boundary of the domain: black ↦ black, and a colour with zero achromatic signal is *sent to black* (`roundtrip_zero_achromatic`)
    — so the round trip holds exactly on `InDomain ∧ achromatic signal > 0` plus XYZ = 0.
  * `intoFull_fromXyz_raw`: partial ↔ full table under raw hypotheses.
-/
import PaletteProofs.C16_Cam16Hue

namespace C16
open Cam16

/-! ### `J_root` and `α` of the forward model -/

theorem forward_jRoot_eq (xyz : V3 ℝ) (p : Dep ℝ) :
    (forward xyz p).jRoot = (p.nBb * achromaticSignal (forward xyz p) / p.aW) ^ (0.5 * p.c * p.z) := by
  simp only [forward, achromaticSignal, K.xyzToCam16_8, K.xyzToCam16_9, K.xyzToCam16_10, RealScalar.powf_eq]

/-- `t` of the forward model -/
noncomputable def tOf (w : Fwd ℝ) (p : Dep ℝ) : ℝ :=
  5e4 / 13.0 * p.nC * p.nCb * (0.25 * (Real.cos (w.hRad + 2.0) + 3.8)) * Real.sqrt (w.a * w.a + w.b * w.b) / tDenominator w

theorem forward_alpha_eq (xyz : V3 ℝ) (p : Dep ℝ) :
    (forward xyz p).alpha = (tOf (forward xyz p) p) ^ (0.9:ℝ) * (1.64 - (0.29:ℝ) ^ p.n) ^ (0.73:ℝ) := by
  simp only [forward, tOf, tDenominator, K.xyzToCam16_0, K.xyzToCam16_1, K.xyzToCam16_2, K.xyzToCam16_3, K.xyzToCam16_4, K.xyzToCam16_5, K.xyzToCam16_6,
    K.xyzToCam16_7, K.xyzToCam16_11, K.xyzToCam16_12, K.xyzToCam16_13, K.xyzToCam16_14, K.xyzToCam16_15, K.xyzToCam16_16, K.xyzToCam16_17, K.xyzToCam16_18,
    RealScalar.powf_eq, RealScalar.sqrt_eq, RealScalar.cos_eq, RealScalar.atan2_eq]

theorem tOf_nonneg (xyz : V3 ℝ) (p : Dep ℝ) (P : Positive p) (D : InDomain xyz p) : 0 ≤ tOf (forward xyz p) p := by
  have hnc : 0 < p.nC := by have := P.nC_lo; linarith
  have hncb := P.nCb
  have hd := D.denom
  have het : 0 < 0.25 * (Real.cos ((forward xyz p).hRad + 2.0) + 3.8) := by
    have := Real.neg_one_le_cos ((forward xyz p).hRad + 2.0)
    have : (0:ℝ) < Real.cos ((forward xyz p).hRad + 2.0) + 3.8 := by norm_num; linarith
    positivity
  have := Real.sqrt_nonneg ((forward xyz p).a * (forward xyz p).a + (forward xyz p).b * (forward xyz p).b)
  unfold tOf
  positivity

/-- **`α ≥ 0`** on the domain -/
theorem forward_alpha_nonneg (xyz : V3 ℝ) (p : Dep ℝ) (P : Positive p) (D : InDomain xyz p) : 0 ≤ (forward xyz p).alpha := by
  rw [forward_alpha_eq]
  have h1 := Real.rpow_nonneg (tOf_nonneg xyz p P D) (0.9:ℝ)
  have h2 := Real.rpow_nonneg P.k.le (0.73:ℝ)
  positivity

/-- **`J_root > 0`** iff the achromatic signal is positive; `J_root = 0` when it is zero -/
theorem forward_jRoot_pos (xyz : V3 ℝ) (p : Dep ℝ) (P : Positive p) (hA : 0 < achromaticSignal (forward xyz p)) :
    0 < (forward xyz p).jRoot := by
  rw [forward_jRoot_eq]
  apply Real.rpow_pos_of_pos
  have := P.nBb; have := P.aW
  positivity

theorem forward_jRoot_zero (xyz : V3 ℝ) (p : Dep ℝ) (P : Positive p) (hA : achromaticSignal (forward xyz p) = 0) :
    (forward xyz p).jRoot = 0 := by
  rw [forward_jRoot_eq, hA, mul_zero, zero_div]
  apply Real.zero_rpow
  have := P.c_lo; have := P.z
  have : 0 < 0.5 * p.c * p.z := by
    have h1 : 0 < p.c := by linarith
    have h2 : 0 < p.z := by linarith
    positivity
  exact this.ne'

/-! ### every partial kind returns the core -/

/-- **partial → core, all six kinds**: from the luminance-like attribute (J or Q) and the chroma-like attribute (C, M or s) of the
    full colour with `J_root = j > 0`, `α ≥ 0`, the inverse model's first two steps return `j` and `α` -/
theorem kinds_recover_core (k : PKind) {j alpha : ℝ} (hue : ℝ) (p : Dep ℝ) (P : Positive p) (hj : 0 < j) (ha : 0 ≤ alpha) :
    (k.lum (k.lumOf (attrs j alpha hue p))).jRoot p = j ∧
    (k.chr (k.chrOf (attrs j alpha hue p))).alpha p j = alpha := by
  have hc : 0 < p.c := by have := P.c_lo; linarith
  have haw : 0 < 4 + p.aW := by have := P.aW; linarith
  have hfl := P.fL4
  have eJ : lightnessToJRoot (calculateLightness j) = j := jroot_calculateLightness hj.le
  have eQ : brightnessToJRoot (calculateBrightness j p.c p.aW p.fL4) p.c p.aW p.fL4 = j := brightness_jroot hc.ne' haw.ne' hfl.ne'
  have eC : calculateChroma j alpha / j = alpha := by simp only [calculateChroma]; field_simp
  have eM : colorfulnessToChroma (calculateColorfulness p.fL4 (calculateChroma j alpha)) p.fL4 / j = alpha := by
    simp only [colorfulnessToChroma, calculateColorfulness, calculateChroma]; field_simp
  have eS : saturationToAlpha (calculateSaturation p.c p.aW alpha) p.c p.aW = alpha := saturationToAlpha_calculateSaturation ha hc haw
  cases k <;>
    simp only [PKind.lum, PKind.chr, PKind.lumOf, PKind.chrOf, attrs, Lum.jRoot, Chr.alpha, eJ, eQ, eC, eM, eS, and_self]

/-- the luminance-like attribute of a non-black colour is positive (so `cam16_to_xyz` does not take the black branch) -/
theorem kinds_lum_pos (k : PKind) {j alpha : ℝ} (hue : ℝ) (p : Dep ℝ) (P : Positive p) (hj : 0 < j) :
    0 < (k.lum (k.lumOf (attrs j alpha hue p))).value := by
  have hJ := calculateLightness_pos hj
  have hQ : 0 < calculateBrightness j p.c p.aW p.fL4 := by
    simp only [calculateBrightness, K.calcBrightness_0, K.calcBrightness_1]
    have hc : 0 < p.c := by have := P.c_lo; linarith
    have : (0:ℝ) < 4.0 + p.aW := by have := P.aW; norm_num; linarith
    have := P.fL4
    positivity
  cases k <;> simp only [PKind.lum, PKind.lumOf, attrs, Lum.value] <;> assumption

/-! ### the round trip through each kind -/

/-- `cam16_to_xyz` on a non-black colour is the inverse core at `J_root`, `α`, `into_radians(hue)` -/
theorem cam16ToXyz_nonblack (lum : Lum ℝ) (chr : Chr ℝ) (hue : ℝ) (p : Dep ℝ) (h : 0 < lum.value) :
    cam16ToXyz lum chr hue p = inverseCore (lum.jRoot p) (chr.alpha p (lum.jRoot p)) (hueIntoRadians hue) p := by
  simp only [cam16ToXyz, nonBlackCam16ToXyz, if_neg (not_eqv_zero_of_pos h)]

/-- **XYZ → partial CAM16 → XYZ, all six kinds, cone responses of any sign, the model's own `cam16_to_xyz`**, for every stored
    hue value `h` that `into_radians` maps to an angle with the `sin`/`cos` of the forward hue angle.  Result:
    `M16⁻¹(M16(100·xyz))/100` (tables inverse within 1e-15, `m16Inv_m16_close`). -/
theorem roundtrip_kinds (k : PKind) (xyz : V3 ℝ) (p : Dep ℝ) (P : Positive p) (D : InDomain xyz p)
    (hA : 0 < achromaticSignal (forward xyz p)) (h : ℝ)
    (hcos : Real.cos (hueIntoRadians h) = Real.cos (forward xyz p).hRad)
    (hsin : Real.sin (hueIntoRadians h) = Real.sin (forward xyz p).hRad) :
    k.intoXyz ⟨k.lumOf (xyzToCam16 xyz p), k.chrOf (xyzToCam16 xyz p), h⟩ p = throughTables xyz := by
  have hj := forward_jRoot_pos xyz p P hA
  have ha := forward_alpha_nonneg xyz p P D
  rw [xyzToCam16_eq_attrs]
  obtain ⟨e1, e2⟩ := kinds_recover_core k (hueFromRadians (forward xyz p).hRad) p P hj ha
  unfold PKind.intoXyz
  rw [cam16ToXyz_nonblack _ _ _ _ (kinds_lum_pos k _ p P hj)]
  simp only []
  rw [e1, e2, inverseCore_congr_angle _ _ _ _ p hcos hsin]
  exact roundtrip_core xyz p P D

/-- the hue hypothesis of `roundtrip_kinds` is met by the degree value `h_rad / radK` (the exact preimage under the model's own
    `into_radians`): **the model's `cam16_to_xyz` itself inverts the forward model exactly**, for every kind — what separates
    `into_xyz ∘ from_xyz` from the identity is only that `from_radians` stores `h_rad·degK` instead of `h_rad/radK` -/
theorem roundtrip_kinds_preimage (k : PKind) (xyz : V3 ℝ) (p : Dep ℝ) (P : Positive p) (D : InDomain xyz p)
    (hA : 0 < achromaticSignal (forward xyz p)) (hh : |(forward xyz p).hRad| ≤ 3.14) :
    k.intoXyz ⟨k.lumOf (xyzToCam16 xyz p), k.chrOf (xyzToCam16 xyz p), (forward xyz p).hRad / radK⟩ p = throughTables xyz := by
  apply roundtrip_kinds k xyz p P D hA <;> rw [hueIntoRadians_preimage hh]

/-- **the model exactly as it stands**: `into_xyz ∘ from_xyz` for each kind is the inverse core at the hue angle multiplied by
    `degK·radK = 1 − 1.9e-36` (`degK_mul_radK`); nothing else separates it from `M16⁻¹M16 xyz`.  (`|h_rad| ≤ 3.14159`: the degree
    value needs no normalisation; the remaining sliver up to π would need π to 36 digits.) -/
theorem roundtrip_model (k : PKind) (xyz : V3 ℝ) (p : Dep ℝ) (P : Positive p) (D : InDomain xyz p)
    (hA : 0 < achromaticSignal (forward xyz p)) (hh : |(forward xyz p).hRad| ≤ 3.14159) :
    k.intoXyz (k.fromXyz xyz p) p
      = inverseCore (forward xyz p).jRoot (forward xyz p).alpha ((forward xyz p).hRad * (degK * radK)) p := by
  have hj := forward_jRoot_pos xyz p P hA
  have ha := forward_alpha_nonneg xyz p P D
  rw [partial_fromXyz_eq_projection, xyzToCam16_eq_attrs]
  obtain ⟨e1, e2⟩ := kinds_recover_core k (hueFromRadians (forward xyz p).hRad) p P hj ha
  unfold PKind.intoXyz PKind.fromFull
  rw [cam16ToXyz_nonblack _ _ _ _ (kinds_lum_pos k _ p P hj)]
  simp only []
  rw [e1, e2]
  have : (attrs (forward xyz p).jRoot (forward xyz p).alpha (hueFromRadians (forward xyz p).hRad) p).hue = hueFromRadians (forward xyz p).hRad := rfl
  rw [this, hue_model_roundtrip_of_abs_le hh]

/-! ### the family with the conversion factors as parameters; exact π -/

/-- `$name::from_xyz` with `kd` in place of std's `180/π` -/
noncomputable def fromXyzWith (kd : ℝ) (k : PKind) (xyz : V3 ℝ) (p : Dep ℝ) : V3 ℝ :=
  ⟨k.lumOf (xyzToCam16 xyz p), k.chrOf (xyzToCam16 xyz p), hueFromRadiansWith kd (forward xyz p).hRad⟩

/-- `$name::into_xyz` with `kr` in place of std's `π/180` -/
noncomputable def intoXyzWith (kr : ℝ) (k : PKind) (c : V3 ℝ) (p : Dep ℝ) : V3 ℝ :=
  let lum := k.lum c.c0
  let isBlack := Scalar.eqv lum.value 0.0
  let jRoot := lum.jRoot p
  let xyz := inverseCore jRoot ((k.chr c.c1).alpha p jRoot) (hueIntoRadiansWith kr c.c2) p
  ⟨if isBlack then 0.0 else xyz.c0, if isBlack then 0.0 else xyz.c1, if isBlack then 0.0 else xyz.c2⟩

/-- the model's functions are the members `degK`, `radK` of the family (definitional) -/
theorem fromXyz_eq_with (k : PKind) (xyz : V3 ℝ) (p : Dep ℝ) : k.fromXyz xyz p = fromXyzWith degK k xyz p := rfl
theorem intoXyz_eq_with (k : PKind) (c : V3 ℝ) (p : Dep ℝ) : k.intoXyz c p = intoXyzWith radK k c p := rfl

theorem intoXyzWith_nonblack (kr : ℝ) (k : PKind) (c : V3 ℝ) (p : Dep ℝ) (h : 0 < (k.lum c.c0).value) :
    intoXyzWith kr k c p
      = inverseCore ((k.lum c.c0).jRoot p) ((k.chr c.c1).alpha p ((k.lum c.c0).jRoot p)) (hueIntoRadiansWith kr c.c2) p := by
  simp only [intoXyzWith, if_neg (not_eqv_zero_of_pos h)]

/-- the exact-π round trip for positive baked parameters -/
theorem roundtrip_exact_pi_baked (k : PKind) (xyz : V3 ℝ) (p : Dep ℝ) (P : Positive p)
    (D : InDomain xyz p) (hA : 0 < achromaticSignal (forward xyz p)) (m : ℤ) :
    intoXyzWith (Real.pi / 180) k
      ⟨(fromXyzWith (180 / Real.pi) k xyz p).c0, (fromXyzWith (180 / Real.pi) k xyz p).c1,
       (fromXyzWith (180 / Real.pi) k xyz p).c2 + 360 * m⟩ p = throughTables xyz := by
  have hj := forward_jRoot_pos xyz p P hA
  have ha := forward_alpha_nonneg xyz p P D
  obtain ⟨e1, e2⟩ := kinds_recover_core k (hueFromRadians (forward xyz p).hRad) p P hj ha
  have hpos := kinds_lum_pos k (alpha := (forward xyz p).alpha) (hueFromRadians (forward xyz p).hRad) p P hj
  rw [← xyzToCam16_eq_attrs] at e1 e2 hpos
  obtain ⟨r0, r1⟩ := forward_hRad_range xyz p
  have hang : hueIntoRadiansWith (Real.pi / 180) (hueFromRadiansWith (180 / Real.pi) (forward xyz p).hRad + 360 * m) = (forward xyz p).hRad := by
    have : hueIntoRadiansWith (Real.pi / 180) (hueFromRadiansWith (180 / Real.pi) (forward xyz p).hRad + 360 * m)
        = hueIntoRadiansWith (Real.pi / 180) (hueFromRadiansWith (180 / Real.pi) (forward xyz p).hRad) := by
      unfold hueIntoRadiansWith; rw [normalizeSigned_add_turns]
    rw [this]
    exact hue_roundtrip_exact r0 r1
  rw [intoXyzWith_nonblack _ _ _ _ (by simpa only [fromXyzWith] using hpos)]
  simp only [fromXyzWith]
  rw [e1, e2, hang]
  exact roundtrip_core xyz p P D

/-- **XYZ → partial CAM16 → XYZ with the exact π, all six kinds, hue modulo 360** (the stored hue may be off by any whole number
    `m` of turns), hypotheses on the RAW viewing conditions and the colour only. -/
theorem roundtrip_exact_pi (k : PKind) (xyz : V3 ℝ) (prm : Parameters ℝ) (v : ValidRaw prm)
    (D : InDomain xyz (prepareParameters prm)) (hA : 0 < achromaticSignal (forward xyz (prepareParameters prm))) (m : ℤ) :
    intoXyzWith (Real.pi / 180) k
      ⟨(fromXyzWith (180 / Real.pi) k xyz (prepareParameters prm)).c0, (fromXyzWith (180 / Real.pi) k xyz (prepareParameters prm)).c1,
       (fromXyzWith (180 / Real.pi) k xyz (prepareParameters prm)).c2 + 360 * m⟩ (prepareParameters prm) = throughTables xyz :=
  roundtrip_exact_pi_baked k xyz _ (prepare_positive v) D hA m

/-- and the model as it stands under raw hypotheses -/
theorem roundtrip_model_raw (k : PKind) (xyz : V3 ℝ) (prm : Parameters ℝ) (v : ValidRaw prm)
    (D : InDomain xyz (prepareParameters prm)) (hA : 0 < achromaticSignal (forward xyz (prepareParameters prm)))
    (hh : |(forward xyz (prepareParameters prm)).hRad| ≤ 3.14159) :
    k.intoXyz (k.fromXyz xyz (prepareParameters prm)) (prepareParameters prm)
      = inverseCore (forward xyz (prepareParameters prm)).jRoot (forward xyz (prepareParameters prm)).alpha
          ((forward xyz (prepareParameters prm)).hRad * (degK * radK)) (prepareParameters prm) :=
  roundtrip_model k xyz _ (prepare_positive v) D hA hh

/-! ### the boundary of the domain -/

/-- **black ↦ black ↦ black** through every kind, raw hypotheses -/
theorem roundtrip_black (k : PKind) (prm : Parameters ℝ) (v : ValidRaw prm) :
    k.intoXyz (k.fromXyz ⟨0, 0, 0⟩ (prepareParameters prm)) (prepareParameters prm) = ⟨0.0, 0.0, 0.0⟩ := by
  have P := prepare_positive v
  have he : 0.5 * (prepareParameters prm).c * (prepareParameters prm).z ≠ 0 := by
    have h1 : 0 < (prepareParameters prm).c := by have := P.c_lo; linarith
    have h2 : 0 < (prepareParameters prm).z := by have := P.z; linarith
    positivity
  obtain ⟨hJ, -, -, hQ, -, -⟩ := xyzToCam16_black (prepareParameters prm) he
  apply partial_intoXyz_black
  have : (k.fromXyz ⟨0, 0, 0⟩ (prepareParameters prm)).c0 = 0 := by
    cases k <;> simp only [PKind.fromXyz, PKind.fromFull, PKind.lumOf] <;> assumption
  rw [this]
  unfold Scalar.eqv
  constructor <;> norm_num

/-- **a colour with zero achromatic signal is sent to black**: `J = Q = 0`, and `cam16_to_xyz` answers (0, 0, 0) — so on the
    boundary `2R_a + G_a + 0.05B_a = 0` of the domain the round trip returns the input only if the input is black.
    (`xyz = 0` satisfies the hypothesis; that non-black colours do is seen by continuity between a colour with positive signal
    and the witness with negative signal of `C16_Cam16Defined.lean` — not formalised.) -/
theorem roundtrip_zero_achromatic (k : PKind) (xyz : V3 ℝ) (p : Dep ℝ) (P : Positive p)
    (hA : achromaticSignal (forward xyz p) = 0) :
    k.intoXyz (k.fromXyz xyz p) p = ⟨0.0, 0.0, 0.0⟩ := by
  have hj := forward_jRoot_zero xyz p P hA
  apply partial_intoXyz_black
  have : (k.fromXyz xyz p).c0 = 0 := by
    cases k <;>
      simp only [PKind.fromXyz, PKind.fromFull, PKind.lumOf, xyzToCam16, hj, calculateLightness, calculateBrightness, mul_zero, zero_mul]
  rw [this]
  unfold Scalar.eqv
  constructor <;> norm_num

/-! ### partial ↔ full under raw hypotheses -/

/-- **every partial colour expands back to the full colour it was taken from**, all six kinds (J↔Q, C↔M↔s), hypotheses on the raw
    viewing conditions and the colour only -/
theorem intoFull_fromXyz_raw (k : PKind) (xyz : V3 ℝ) (prm : Parameters ℝ) (v : ValidRaw prm)
    (D : InDomain xyz (prepareParameters prm)) (hA : 0 < achromaticSignal (forward xyz (prepareParameters prm))) :
    k.intoFull (k.fromXyz xyz (prepareParameters prm)) (prepareParameters prm) = xyzToCam16 xyz (prepareParameters prm) := by
  have P := prepare_positive v
  exact intoFull_fromXyz k xyz _ (forward_jRoot_pos xyz _ P hA) (forward_alpha_nonneg xyz _ P D)
    (by have := P.c_lo; linarith) (by have := P.aW; linarith) P.fL4

/-- non-vacuity of the domain hypotheses: a mid grey under the D65 test conditions has positive cone responses, hence is in the
    domain with positive achromatic signal -/
theorem grey_inDomain :
    let prm : Parameters ℝ := ⟨⟨0.95047, 1.0, 1.08883⟩, 40.0, 0.2, .average, .auto⟩
    InDomain ⟨0.2, 0.2, 0.2⟩ (prepareParameters prm) ∧ 0 < achromaticSignal (forward ⟨0.2, 0.2, 0.2⟩ (prepareParameters prm)) := by
  intro prm
  have P := prepare_positive (validRaw_d65 .average .auto)
  have c0 : 0 < (coneAdapted ⟨0.2, 0.2, 0.2⟩ (prepareParameters prm)).c0 := by
    simp only [coneAdapted, mul3, m16_eq]; apply mul_pos _ P.d0; norm_num
  have c1 : 0 < (coneAdapted ⟨0.2, 0.2, 0.2⟩ (prepareParameters prm)).c1 := by
    simp only [coneAdapted, mul3, m16_eq]; apply mul_pos _ P.d1; norm_num
  have c2 : 0 < (coneAdapted ⟨0.2, 0.2, 0.2⟩ (prepareParameters prm)).c2 := by
    simp only [coneAdapted, mul3, m16_eq]; apply mul_pos _ P.d2; norm_num
  refine ⟨inDomain_of_pos P.fL c0 c1 c2, ?_⟩
  obtain ⟨e0, e1, e2⟩ := forward_adapted ⟨0.2, 0.2, 0.2⟩ (prepareParameters prm)
  have hR := (adaptRun_pos_range P.fL c0).1
  have hG := (adaptRun_pos_range P.fL c1).1
  have hB := (adaptRun_pos_range P.fL c2).1
  simp only [achromaticSignal, e0, e1, e2]; positivity

end C16
