/-
  C17 — the edges that are glue around the translated bodies: Rgb ↔ Xyz (hard-coded matrix and transfer function per channel),
  Rgb → Rgb between standards, Xyz ↔ Lms, Rgb ↔ Oklab, and `multiply_3x3_and_vec3` itself.  These are the edges the level note of
  C17 listed as "not modelled in Lean".

  * `*_lanesV`: for every interpretation of the interface (`[VScalar α μ] [VFused α]`), every matrix table `m`, transfer function
    `tf`, lane count `n`: lane `i` of the edge at `Lanes n α` is the edge at lane `i` — the constants (`T::from_f64` → `splat`)
    included.
  * `*_lanes`: at `[Scalar α]`, lane `i` = the **hand model's** function (`RgbFam.rgbToXyz`, `RgbFam.xyzToRgb`, `RgbFam.rgbToRgb`,
    `Cie.xyzToLms`, `Cie.lmsToXyz`, `Ok.rgbToOklab`, `Ok.oklabToRgb`, `M3.mulVec`) at lane `i`'s colour.
  * `*_reified` / `*_wide`: the parameterised form (any SIMD implementation `W` that is lane-wise on the operations used): exact
    class for the matrix edges (`Linear` RGB ↔ Xyz, Lms, `multiply_3x3_and_vec3`), "formula with `powf`/`mul_add`/`mul_sub` replaced"
    for the encoded standards.
-/
import PaletteProofs.C17_Edges

namespace C17
open Simd

/-- the cases of a nine-entry table (`M3.ofK` reads anything else as zeros) -/
macro "cases9 " m:ident : tactic =>
  `(tactic| rcases $m:ident with _ | ⟨_, _ | ⟨_, _ | ⟨_, _ | ⟨_, _ | ⟨_, _ | ⟨_, _ | ⟨_, _ | ⟨_, _ | ⟨_, _ | ⟨_, _⟩⟩⟩⟩⟩⟩⟩⟩⟩⟩)

/-! ## every interpretation -/
section anyV
variable {α μ : Type} [VScalar α μ] {n : Nat}

/-- the constants of a matrix are the same in every lane -/
theorem m3OfK_lane (m : List K) (i : Fin n) : m3Lane (m3OfK m : M3 (Lanes n α)) i = m3OfK m := by
  cases9 m <;> rfl

/-- `multiply_3x3_and_vec3` with a SIMD matrix and a SIMD vector -/
theorem matMulVec_lanesV (m : M3 (Lanes n α)) (v : V3 (Lanes n α)) (i : Fin n) :
    unpack (Gen.BodyV.matMulVec m v) i = Gen.BodyV.matMulVec (m3Lane m i) (unpack v i) := rfl

theorem xyzToLms_lanesV (l : List K) (c : V3 (Lanes n α)) (i : Fin n) :
    unpack (SimdOps.xyzToLms l c) i = SimdOps.xyzToLms l (unpack c i) := by
  unfold SimdOps.xyzToLms; rw [matMulVec_lanesV, m3OfK_lane]
theorem lmsToXyz_lanesV (l : List K) (c : V3 (Lanes n α)) (i : Fin n) :
    unpack (SimdOps.lmsToXyz l c) i = SimdOps.lmsToXyz l (unpack c i) := by
  unfold SimdOps.lmsToXyz; rw [matMulVec_lanesV, m3OfK_lane]

omit [VScalar α μ] in
theorem v3map_lanesV (f : Lanes n α → Lanes n α) (g : α → α) (h : ∀ x i, f x i = g (x i)) (c : V3 (Lanes n α)) (i : Fin n) :
    unpack (c.map f) i = (unpack c i).map g := by
  show (⟨f c.c0 i, f c.c1 i, f c.c2 i⟩ : V3 α) = ⟨g (c.c0 i), g (c.c1 i), g (c.c2 i)⟩
  rw [h, h, h]

variable [VFused α]

theorem intoLinear_lanesV (tf : Transfer.Fn) (x : Lanes n α) (i : Fin n) : (SimdOps.intoLinear tf x) i = SimdOps.intoLinear tf (x i) := by
  cases tf <;> rfl
theorem fromLinear_lanesV (tf : Transfer.Fn) (x : Lanes n α) (i : Fin n) : (SimdOps.fromLinear tf x) i = SimdOps.fromLinear tf (x i) := by
  cases tf <;> rfl
/-- `Rgb::into_linear` / `from_linear`: the transfer function on each channel of each lane -/
theorem rgbIntoLinear_lanesV (tf : Transfer.Fn) (c : V3 (Lanes n α)) (i : Fin n) :
    unpack (SimdOps.rgbIntoLinear tf c) i = SimdOps.rgbIntoLinear tf (unpack c i) := by
  cases tf <;> rfl
theorem rgbFromLinear_lanesV (tf : Transfer.Fn) (c : V3 (Lanes n α)) (i : Fin n) :
    unpack (SimdOps.rgbFromLinear tf c) i = SimdOps.rgbFromLinear tf (unpack c i) := by
  cases tf <;> rfl

theorem rgbToXyz_lanesV (m : List K) (tf : Transfer.Fn) (c : V3 (Lanes n α)) (i : Fin n) :
    unpack (SimdOps.rgbToXyz m tf c) i = SimdOps.rgbToXyz m tf (unpack c i) := by
  unfold SimdOps.rgbToXyz; rw [matMulVec_lanesV, m3OfK_lane, rgbIntoLinear_lanesV]
theorem xyzToRgb_lanesV (m : List K) (tf : Transfer.Fn) (c : V3 (Lanes n α)) (i : Fin n) :
    unpack (SimdOps.xyzToRgb m tf c) i = SimdOps.xyzToRgb m tf (unpack c i) := by
  unfold SimdOps.xyzToRgb; rw [rgbFromLinear_lanesV, matMulVec_lanesV, m3OfK_lane]

/-- `Rgb<S1> ← Rgb<S2>`: whichever of the three routes the standards select (the selection does not depend on the component type) -/
theorem rgbToRgb_lanesV (s d : RgbFam.Std) (c : V3 (Lanes n α)) (i : Fin n) :
    unpack (SimdOps.rgbToRgb s d c) i = SimdOps.rgbToRgb s d (unpack c i) := by
  unfold SimdOps.rgbToRgb
  cases s.name == d.name
  · cases s.space == d.space
    · simp only [Bool.false_eq_true, if_false]; rw [xyzToRgb_lanesV, rgbToXyz_lanesV]
    · simp only [Bool.false_eq_true, if_false, if_true]; rw [rgbFromLinear_lanesV, rgbIntoLinear_lanesV]
  · rfl

theorem rgbToOklab_lanesV (sp : Color.RgbSpaceData) (tf : Transfer.Fn) (c : V3 (Lanes n α)) (i : Fin n) :
    unpack (SimdOps.rgbToOklab sp tf c) i = SimdOps.rgbToOklab sp tf (unpack c i) := by
  unfold SimdOps.rgbToOklab
  have hm := v3map_lanesV (SimdOps.intoLinear tf) (SimdOps.intoLinear tf) (intoLinear_lanesV tf) c i
  cases sp.name == "Srgb"
  · simp only [Bool.false_eq_true, if_false]
    show Gen.BodyV.xyzToOklab (unpack (Gen.BodyV.matMulVec _ _) i) = _
    rw [matMulVec_lanesV, m3OfK_lane, hm]
  · simp only [if_true]
    show Gen.BodyV.linSrgbToOklab (unpack (c.map (SimdOps.intoLinear tf)) i) = _
    rw [hm]
theorem oklabToRgb_lanesV (sp : Color.RgbSpaceData) (tf : Transfer.Fn) (c : V3 (Lanes n α)) (i : Fin n) :
    unpack (SimdOps.oklabToRgb sp tf c) i = SimdOps.oklabToRgb sp tf (unpack c i) := by
  unfold SimdOps.oklabToRgb
  cases sp.name == "Srgb"
  · simp only [Bool.false_eq_true, if_false]
    rw [v3map_lanesV (SimdOps.fromLinear tf) (SimdOps.fromLinear tf) (fromLinear_lanesV tf), matMulVec_lanesV, m3OfK_lane]; rfl
  · simp only [if_true]
    rw [v3map_lanesV (SimdOps.fromLinear tf) (SimdOps.fromLinear tf) (fromLinear_lanesV tf)]; rfl

/-! Luma edges -/
omit [VFused α] in
theorem v3OfK_lane (l : List K) (i : Fin n) : unpack (v3OfK l : V3 (Lanes n α)) i = v3OfK l := by
  rcases l with _ | ⟨_, _ | ⟨_, _ | ⟨_, _ | ⟨_, _⟩⟩⟩⟩ <;> rfl
omit [VFused α] in
/-- the white point is the same in every lane -/
theorem whitePoint_lane (name : String) (i : Fin n) : unpack (SimdOps.whitePoint name : V3 (Lanes n α)) i = SimdOps.whitePoint name := by
  unfold SimdOps.whitePoint
  cases Gen.Mat.whitePoints.find? (·.1 == name) with
  | none => rfl
  | some p => exact v3OfK_lane p.2 i
theorem lumaToLuma_lanesV (s d : RgbFam.Std) (c : V3 (Lanes n α)) (i : Fin n) :
    unpack (SimdOps.lumaToLuma s d c) i = SimdOps.lumaToLuma s d (unpack c i) := by
  unfold SimdOps.lumaToLuma
  cases s.name == d.name
  · simp only [Bool.false_eq_true, if_false]
    show (⟨(SimdOps.fromLinear d.tf (SimdOps.intoLinear s.tf c.c0)) i, _, _⟩ : V3 α) = _
    rw [fromLinear_lanesV, intoLinear_lanesV]; rfl
  · rfl
theorem xyzToLuma_lanesV (d : RgbFam.Std) (c : V3 (Lanes n α)) (i : Fin n) :
    unpack (SimdOps.xyzToLuma d c) i = SimdOps.xyzToLuma d (unpack c i) := by
  show (⟨(SimdOps.fromLinear d.tf c.c1) i, _, _⟩ : V3 α) = _
  rw [fromLinear_lanesV]; rfl
theorem yxyToLuma_lanesV (d : RgbFam.Std) (c : V3 (Lanes n α)) (i : Fin n) :
    unpack (SimdOps.yxyToLuma d c) i = SimdOps.yxyToLuma d (unpack c i) := by
  show (⟨(SimdOps.fromLinear d.tf c.c2) i, _, _⟩ : V3 α) = _
  rw [fromLinear_lanesV]; rfl
theorem lumaToXyz_lanesV (s : RgbFam.Std) (c : V3 (Lanes n α)) (i : Fin n) :
    unpack (SimdOps.lumaToXyz s c) i = SimdOps.lumaToXyz s (unpack c i) := by
  have hw := whitePoint_lane (α := α) (n := n) s.wp i
  have hl := intoLinear_lanesV s.tf c.c0 i
  have h0 : (SimdOps.whitePoint s.wp : V3 (Lanes n α)).c0 i = (SimdOps.whitePoint s.wp : V3 α).c0 := congrArg V3.c0 hw
  have h1 : (SimdOps.whitePoint s.wp : V3 (Lanes n α)).c1 i = (SimdOps.whitePoint s.wp : V3 α).c1 := congrArg V3.c1 hw
  have h2 : (SimdOps.whitePoint s.wp : V3 (Lanes n α)).c2 i = (SimdOps.whitePoint s.wp : V3 α).c2 := congrArg V3.c2 hw
  show (⟨(SimdOps.whitePoint s.wp : V3 (Lanes n α)).c0 i * (SimdOps.intoLinear s.tf c.c0) i,
         (SimdOps.whitePoint s.wp : V3 (Lanes n α)).c1 i * (SimdOps.intoLinear s.tf c.c0) i,
         (SimdOps.whitePoint s.wp : V3 (Lanes n α)).c2 i * (SimdOps.intoLinear s.tf c.c0) i⟩ : V3 α) = _
  rw [hl, h0, h1, h2]; rfl
theorem lumaToYxy_lanesV (s : RgbFam.Std) (c : V3 (Lanes n α)) (i : Fin n) :
    unpack (SimdOps.lumaToYxy s c) i = SimdOps.lumaToYxy s (unpack c i) := by
  have hw := whitePoint_lane (α := α) (n := n) s.wp i
  have hl := intoLinear_lanesV s.tf c.c0 i
  have hy : unpack (Gen.BodyV.xyzToYxy (SimdOps.whitePoint s.wp : V3 (Lanes n α))) i = Gen.BodyV.xyzToYxy (SimdOps.whitePoint s.wp : V3 α) := by
    rw [← hw]; rfl
  show (⟨(Gen.BodyV.xyzToYxy (SimdOps.whitePoint s.wp : V3 (Lanes n α))).c0 i,
         (Gen.BodyV.xyzToYxy (SimdOps.whitePoint s.wp : V3 (Lanes n α))).c1 i, (SimdOps.intoLinear s.tf c.c0) i⟩ : V3 α) = _
  rw [hl]
  have h0 := congrArg V3.c0 hy
  have h1 := congrArg V3.c1 hy
  show (⟨(unpack (Gen.BodyV.xyzToYxy (SimdOps.whitePoint s.wp : V3 (Lanes n α))) i).c0,
         (unpack (Gen.BodyV.xyzToYxy (SimdOps.whitePoint s.wp : V3 (Lanes n α))) i).c1, _⟩ : V3 α) = _
  rw [h0, h1]; rfl
theorem lumaToRgb_lanesV (s d : RgbFam.Std) (c : V3 (Lanes n α)) (i : Fin n) :
    unpack (SimdOps.lumaToRgb s d c) i = SimdOps.lumaToRgb s d (unpack c i) := by
  unfold SimdOps.lumaToRgb
  by_cases h : s.tf = d.tf
  · rw [if_pos h, if_pos h]; rfl
  · rw [if_neg h, if_neg h, rgbFromLinear_lanesV]
    show SimdOps.rgbFromLinear d.tf ⟨(SimdOps.intoLinear s.tf c.c0) i, (SimdOps.intoLinear s.tf c.c0) i, (SimdOps.intoLinear s.tf c.c0) i⟩ = _
    rw [intoLinear_lanesV]; rfl

end anyV

/-! ## each lane = the hand model -/
section model
variable {α : Type} [Scalar α] {n : Nat}

theorem matMulVec_lanes (m : M3 (Lanes n α)) (v : V3 (Lanes n α)) (i : Fin n) :
    unpack (Gen.BodyV.matMulVec m v) i = M3.mulVec (m3Lane m i) (unpack v i) := by
  rw [matMulVec_lanesV, TieV.model_matMulVec]
/-- `Xyz ← Rgb<S>`, every standard: matrix table `m`, transfer function `tf` -/
theorem rgbToXyz_lanes (m : List K) (tf : Transfer.Fn) (c : V3 (Lanes n α)) (i : Fin n) :
    unpack (SimdOps.rgbToXyz m tf c) i = RgbFam.rgbToXyz m tf (unpack c i) := by
  rw [rgbToXyz_lanesV, TieV.model_rgbToXyz]
/-- `Rgb<S> ← Xyz` -/
theorem xyzToRgb_lanes (m : List K) (tf : Transfer.Fn) (c : V3 (Lanes n α)) (i : Fin n) :
    unpack (SimdOps.xyzToRgb m tf c) i = RgbFam.xyzToRgb m tf (unpack c i) := by
  rw [xyzToRgb_lanesV, TieV.model_xyzToRgb]
theorem rgbIntoLinear_lanes (tf : Transfer.Fn) (c : V3 (Lanes n α)) (i : Fin n) :
    unpack (SimdOps.rgbIntoLinear tf c) i = RgbFam.intoLinear tf (unpack c i) := by
  rw [rgbIntoLinear_lanesV, TieV.model_rgbIntoLinear]
theorem rgbFromLinear_lanes (tf : Transfer.Fn) (c : V3 (Lanes n α)) (i : Fin n) :
    unpack (SimdOps.rgbFromLinear tf c) i = RgbFam.fromLinear tf (unpack c i) := by
  rw [rgbFromLinear_lanesV, TieV.model_rgbFromLinear]
/-- `Rgb<S1> ← Rgb<S2>` -/
theorem rgbToRgb_lanes (s d : RgbFam.Std) (c : V3 (Lanes n α)) (i : Fin n) :
    unpack (SimdOps.rgbToRgb s d c) i = RgbFam.rgbToRgb s d (unpack c i) := by
  rw [rgbToRgb_lanesV, TieV.model_rgbToRgb]
/-- `Lms ← Xyz`, `Xyz ← Lms`, every cone matrix -/
theorem xyzToLms_lanes (l : List K) (c : V3 (Lanes n α)) (i : Fin n) :
    unpack (SimdOps.xyzToLms l c) i = Cie.xyzToLms l (unpack c i) := by
  rw [xyzToLms_lanesV, TieV.model_xyzToLms]
theorem lmsToXyz_lanes (l : List K) (c : V3 (Lanes n α)) (i : Fin n) :
    unpack (SimdOps.lmsToXyz l c) i = Cie.lmsToXyz l (unpack c i) := by
  rw [lmsToXyz_lanesV, TieV.model_lmsToXyz]
/-- `Oklab ← Rgb<S>`, `Rgb<S> ← Oklab` (direct for sRGB primaries, through Xyz otherwise) -/
theorem rgbToOklab_lanes (sp : Color.RgbSpaceData) (tf : Transfer.Fn) (c : V3 (Lanes n α)) (i : Fin n) :
    unpack (SimdOps.rgbToOklab sp tf c) i = Ok.rgbToOklab sp tf (unpack c i) := by
  rw [rgbToOklab_lanesV, TieV.model_rgbToOklab]
theorem oklabToRgb_lanes (sp : Color.RgbSpaceData) (tf : Transfer.Fn) (c : V3 (Lanes n α)) (i : Fin n) :
    unpack (SimdOps.oklabToRgb sp tf c) i = Ok.oklabToRgb sp tf (unpack c i) := by
  rw [oklabToRgb_lanesV, TieV.model_oklabToRgb]

/-- the Luma edges (they compile for the wide types; the oracle does not exercise them): each lane = `RgbFam.luma*` -/
theorem lumaToLuma_lanes (s d : RgbFam.Std) (c : V3 (Lanes n α)) (i : Fin n) :
    unpack (SimdOps.lumaToLuma s d c) i = RgbFam.lumaToLuma s d (unpack c i) := by
  rw [lumaToLuma_lanesV, TieV.model_lumaToLuma]
theorem xyzToLuma_lanes (d : RgbFam.Std) (c : V3 (Lanes n α)) (i : Fin n) :
    unpack (SimdOps.xyzToLuma d c) i = RgbFam.xyzToLuma d (unpack c i) := by
  rw [xyzToLuma_lanesV, TieV.model_xyzToLuma]
theorem yxyToLuma_lanes (d : RgbFam.Std) (c : V3 (Lanes n α)) (i : Fin n) :
    unpack (SimdOps.yxyToLuma d c) i = RgbFam.yxyToLuma d (unpack c i) := by
  rw [yxyToLuma_lanesV, TieV.model_yxyToLuma]
theorem lumaToXyz_lanes (s : RgbFam.Std) (c : V3 (Lanes n α)) (i : Fin n) :
    unpack (SimdOps.lumaToXyz s c) i = RgbFam.lumaToXyz s (unpack c i) := by
  rw [lumaToXyz_lanesV, TieV.model_lumaToXyz]
theorem lumaToYxy_lanes (s : RgbFam.Std) (c : V3 (Lanes n α)) (i : Fin n) :
    unpack (SimdOps.lumaToYxy s c) i = RgbFam.lumaToYxy s (unpack c i) := by
  rw [lumaToYxy_lanesV, TieV.model_lumaToYxy]
theorem lumaToRgb_lanes (s d : RgbFam.Std) (c : V3 (Lanes n α)) (i : Fin n) :
    unpack (SimdOps.lumaToRgb s d c) i = RgbFam.lumaToRgb s d (unpack c i) := by
  rw [lumaToRgb_lanesV, TieV.model_lumaToRgb]

end model

/-! ## the parameterised form -/

/-- `Linear` RGB → Xyz (`tf = linear`): exact class, every matrix table -/
theorem rgbToXyz_linear_reified (m : List K) :
    Reified3 exactOps (fun c => SimdOps.rgbToXyz m .linear c) (SimdOps.rgbToXyz m .linear (vars3 0)) :=
  ⟨fun _ => by cases9 m <;> rfl, by cases9 m <;> rfl⟩
theorem xyzToRgb_linear_reified (m : List K) :
    Reified3 exactOps (fun c => SimdOps.xyzToRgb m .linear c) (SimdOps.xyzToRgb m .linear (vars3 0)) :=
  ⟨fun _ => by cases9 m <;> rfl, by cases9 m <;> rfl⟩
theorem xyzToLms_reified (l : List K) : Reified3 exactOps (fun c => SimdOps.xyzToLms l c) (SimdOps.xyzToLms l (vars3 0)) :=
  ⟨fun _ => by cases9 l <;> rfl, by cases9 l <;> rfl⟩
theorem lmsToXyz_reified (l : List K) : Reified3 exactOps (fun c => SimdOps.lmsToXyz l c) (SimdOps.lmsToXyz l (vars3 0)) :=
  ⟨fun _ => by cases9 l <;> rfl, by cases9 l <;> rfl⟩
/-- every standard: at most `powf`, `mul_add` (decoding) / `powf`, `mul_sub` (encoding) beyond the exact operations -/
theorem rgbToXyz_reified (m : List K) (tf : Transfer.Fn) :
    Reified3 (exactPlus [.powf, .mulAdd]) (fun c => SimdOps.rgbToXyz m tf c) (SimdOps.rgbToXyz m tf (vars3 0)) :=
  ⟨fun _ => by cases9 m <;> cases tf <;> rfl, by cases9 m <;> cases tf <;> rfl⟩
theorem xyzToRgb_reified (m : List K) (tf : Transfer.Fn) :
    Reified3 (exactPlus [.powf, .mulSub]) (fun c => SimdOps.xyzToRgb m tf c) (SimdOps.xyzToRgb m tf (vars3 0)) :=
  ⟨fun _ => by cases9 m <;> cases tf <;> rfl, by cases9 m <;> cases tf <;> rfl⟩

section lane
variable {α : Type} [Scalar α] [Angle α] {n : Nat}

/-- **`Linear` RGB → Xyz, any SIMD implementation**: lanes bit-identical to `RgbFam.rgbToXyz m .linear` -/
theorem rgbToXyz_linear_wide (m : List K) (W : Ops (Lanes n α) (Lanes n Bool)) (V : Ops α Bool)
    (hW : LaneWise W V exactOps) (hV : AgreeOn V (scalarOps α) exactOps) (c : V3 (Lanes n α)) (i : Fin n) :
    unpack (@SimdOps.rgbToXyz _ _ W.vscalar W.vfused m .linear c) i = RgbFam.rgbToXyz m .linear (unpack c i) := by
  rw [(rgbToXyz_linear_reified m).exact W V hW hV, TieV.model_rgbToXyz]
theorem xyzToRgb_linear_wide (m : List K) (W : Ops (Lanes n α) (Lanes n Bool)) (V : Ops α Bool)
    (hW : LaneWise W V exactOps) (hV : AgreeOn V (scalarOps α) exactOps) (c : V3 (Lanes n α)) (i : Fin n) :
    unpack (@SimdOps.xyzToRgb _ _ W.vscalar W.vfused m .linear c) i = RgbFam.xyzToRgb m .linear (unpack c i) := by
  rw [(xyzToRgb_linear_reified m).exact W V hW hV, TieV.model_xyzToRgb]
theorem xyzToLms_wide (l : List K) (W : Ops (Lanes n α) (Lanes n Bool)) (V : Ops α Bool)
    (hW : LaneWise W V exactOps) (hV : AgreeOn V (scalarOps α) exactOps) (c : V3 (Lanes n α)) (i : Fin n) :
    unpack (@SimdOps.xyzToLms _ _ W.vscalar l c) i = Cie.xyzToLms l (unpack c i) := by
  rw [(xyzToLms_reified l).exact W V hW hV, TieV.model_xyzToLms]
theorem lmsToXyz_wide (l : List K) (W : Ops (Lanes n α) (Lanes n Bool)) (V : Ops α Bool)
    (hW : LaneWise W V exactOps) (hV : AgreeOn V (scalarOps α) exactOps) (c : V3 (Lanes n α)) (i : Fin n) :
    unpack (@SimdOps.lmsToXyz _ _ W.vscalar l c) i = Cie.lmsToXyz l (unpack c i) := by
  rw [(lmsToXyz_reified l).exact W V hW hV, TieV.model_lmsToXyz]
end lane

section lane_approx
variable {α : Type} [S : Scalar α] [Angle α] {n : Nat}
/-- **Rgb<S> → Xyz, any standard, any SIMD implementation**: the hand model's formula with `V`'s `powf` / `mul_add` -/
theorem rgbToXyz_wide (m : List K) (tf : Transfer.Fn) (W : Ops (Lanes n α) (Lanes n Bool)) (V : Ops α Bool)
    (hW : LaneWise W V (exactPlus [.powf, .mulAdd])) (hV : AgreeOn V (scalarOps α) exactOps) (c : V3 (Lanes n α)) (i : Fin n) :
    unpack (@SimdOps.rgbToXyz _ _ W.vscalar W.vfused m tf c) i = @RgbFam.rgbToXyz α (withApprox S V) m tf (unpack c i) := by
  rw [(rgbToXyz_reified m tf).approx W V hW ((agreeOn_withApprox V hV).mono (by intro o; cases o <;> decide))]
  exact congrFun (congrFun (congrFun (@TieV.model_rgbToXyz α (withApprox S V)) m) tf) _
/-- **Xyz → Rgb<S>**: the hand model's formula with `V`'s `powf`, for a `V` whose `mul_sub` is the unfused `(x·m) − s` -/
theorem xyzToRgb_wide (m : List K) (tf : Transfer.Fn) (W : Ops (Lanes n α) (Lanes n Bool)) (V : Ops α Bool)
    (hW : LaneWise W V (exactPlus [.powf, .mulSub])) (hV : AgreeOn V (scalarOps α) exactOps)
    (hms : ∀ x m s, V.mulSub x m s = V.sub (V.mul x m) s) (c : V3 (Lanes n α)) (i : Fin n) :
    unpack (@SimdOps.xyzToRgb _ _ W.vscalar W.vfused m tf c) i = @RgbFam.xyzToRgb α (withApprox S V) m tf (unpack c i) := by
  rw [(xyzToRgb_reified m tf).approx W V hW ((agreeOn_withApprox_all V hV hms).mono (sub_all _))]
  exact congrFun (congrFun (congrFun (@TieV.model_xyzToRgb α (withApprox S V)) m) tf) _
end lane_approx

/-! ## non-vacuity of the hypotheses of the `*_wide` theorems -/

/-- an exact-class edge on a SIMD implementation whose `powf` is **not** lane-wise (`mixedPow`, `mixedPow_not_laneWise`): the lanes of
    `Xyz → Lab` are still `Cie.xyzToLab` of each lane, bit for bit — nothing was assumed about `powf` -/
example (w c : V3 (Lanes 4 Float)) (i : Fin 4) :
    unpack (@Gen.BodyV.xyzToLab _ _ (mixedPow 4).vscalar w c) i = Cie.xyzToLab (unpack w i) (unpack c i) :=
  xyzToLab_wide (mixedPow 4) (scalarOps Float) (mixedPow_laneWise 4) (agreeOn_refl _ _) w c i

/-- "what one lane of `wide` computes", with a `powf` that is not libm's (here `exp(y · ln x)`) and the unfused `mul_add`/`mul_sub` -/
def sampleLane : Ops Float Bool :=
  { wideFormulaOpsF with powf := fun x y => Float.exp (y * Float.log x) }
where wideFormulaOpsF : Ops Float Bool :=
  { scalarOps Float with mulAdd := fun x m a => x * m + a, mulSub := fun x m s => x * m - s }

theorem sampleLane_agree : AgreeOn sampleLane (scalarOps Float) exactOps := by
  intro o ho; cases o <;> first | (exact absurd ho (by decide)) | (dsimp only [Hom]; intros; rfl)

/-- an approx-class edge: every lane of the SIMD sRGB decoding on the pointwise lift of `sampleLane` is the hand model's
    `Transfer.srgbIntoLinear` *read with `sampleLane`'s `powf` and `mul_add`* -/
example (x : Lanes 8 Float) (i : Fin 8) :
    (@Gen.BodyV.srgbIntoLinear _ _ (Ops.lanes 8 sampleLane).vscalar (Ops.lanes 8 sampleLane).vfused x) i =
      @Transfer.srgbIntoLinear Float (withApprox inferInstance sampleLane) (x i) :=
  srgbIntoLinear_wide (Ops.lanes 8 sampleLane) sampleLane (laneWise_lanes _ _) sampleLane_agree x i

/-- the `mul_sub` hypothesis (`V`'s is the unfused one) is met by `sampleLane` -/
example (x : Lanes 8 Float) (i : Fin 8) :
    (@Gen.BodyV.srgbFromLinear _ _ (Ops.lanes 8 sampleLane).vscalar (Ops.lanes 8 sampleLane).vfused x) i =
      @Transfer.srgbFromLinear Float (withApprox inferInstance sampleLane) (x i) :=
  srgbFromLinear_wide (Ops.lanes 8 sampleLane) sampleLane (laneWise_lanes _ _) sampleLane_agree (fun _ _ _ => rfl) x i

end C17
