/-
  C08 — the algebra of the separable blend modes, per component, on the model functions of `PaletteModel/Blend.lean` read at ℝ.
  `C08_Blend` proves each mode equal to its W3C formula, its range and its symmetry; this file adds the algebraic laws a user of
  `Blend` relies on without naming them: neutral and absorbing backdrops (white / black), idempotence, associativity of the four
  lattice/monoid modes, the De Morgan duality `screen = 1 − multiply(1 − ·, 1 − ·)`, `difference` as an involution against black and
  white, `exclusion` = `difference` on the corners, and the ordering `multiply ≤ darken ≤ lighten ≤ screen` on [0, 1].
-/
import PaletteProofs.C08_Blend

namespace C08
open Blend BlendReal

/-! ## multiply / screen: commutative monoids with absorbing element, dual under complement -/

theorem multiply_white (c : ℝ) : multiplyBlend c 1 = c ∧ multiplyBlend 1 c = c := by simp [multiply_eq]
theorem multiply_black (c : ℝ) : multiplyBlend c 0 = 0 ∧ multiplyBlend 0 c = 0 := by simp [multiply_eq]
theorem multiply_assoc (a b c : ℝ) : multiplyBlend (multiplyBlend a b) c = multiplyBlend a (multiplyBlend b c) := by
  simp only [multiply_eq]; ring
theorem screen_black (c : ℝ) : screenBlend c 0 = c ∧ screenBlend 0 c = c := by simp [screen_eq]
theorem screen_white (c : ℝ) : screenBlend c 1 = 1 ∧ screenBlend 1 c = 1 := by
  constructor <;> simp only [screen_eq] <;> ring
theorem screen_assoc (a b c : ℝ) : screenBlend (screenBlend a b) c = screenBlend a (screenBlend b c) := by
  simp only [screen_eq]; ring
/-- De Morgan: screen is multiply of the complements, complemented (the W3C definition) -/
theorem screen_demorgan (s d : ℝ) : screenBlend s d = 1 - multiplyBlend (1 - s) (1 - d) := by
  simp only [screen_eq, multiply_eq]; ring
theorem multiply_demorgan (s d : ℝ) : multiplyBlend s d = 1 - screenBlend (1 - s) (1 - d) := by
  simp only [screen_eq, multiply_eq]; ring
/-- multiply is idempotent only on the corners, screen likewise -/
theorem multiply_idem_iff (c : ℝ) : multiplyBlend c c = c ↔ c = 0 ∨ c = 1 := by
  rw [multiply_eq]
  constructor
  · intro h
    have : c * (c - 1) = 0 := by linarith
    rcases mul_eq_zero.mp this with h | h
    · exact Or.inl h
    · exact Or.inr (by linarith)
  · rintro (rfl | rfl) <;> norm_num
theorem screen_idem_iff (c : ℝ) : screenBlend c c = c ↔ c = 0 ∨ c = 1 := by
  rw [screen_eq]
  constructor
  · intro h
    have : c * (c - 1) = 0 := by linarith
    rcases mul_eq_zero.mp this with h | h
    · exact Or.inl h
    · exact Or.inr (by linarith)
  · rintro (rfl | rfl) <;> norm_num

/-! ## darken / lighten: the lattice operations -/

theorem darken_idem (c : ℝ) : darkenBlend c c = c := by simp [darken_eq]
theorem lighten_idem (c : ℝ) : lightenBlend c c = c := by simp [lighten_eq]
theorem darken_assoc (a b c : ℝ) : darkenBlend (darkenBlend a b) c = darkenBlend a (darkenBlend b c) := by
  simp only [darken_eq]; exact min_assoc a b c
theorem lighten_assoc (a b c : ℝ) : lightenBlend (lightenBlend a b) c = lightenBlend a (lightenBlend b c) := by
  simp only [lighten_eq]; exact max_assoc a b c
/-- absorption: the two form a lattice -/
theorem darken_lighten_absorb (a b : ℝ) : darkenBlend a (lightenBlend a b) = a ∧ lightenBlend a (darkenBlend a b) = a := by
  simp only [darken_eq, lighten_eq]; exact ⟨min_eq_left (le_max_left a b), max_eq_left (min_le_left a b)⟩
theorem darken_white {c : ℝ} (h : c ≤ 1) : darkenBlend c 1 = c := by rw [darken_eq]; exact min_eq_left h
theorem darken_black {c : ℝ} (h : 0 ≤ c) : darkenBlend c 0 = 0 := by rw [darken_eq]; exact min_eq_right h
theorem lighten_black {c : ℝ} (h : 0 ≤ c) : lightenBlend c 0 = c := by rw [lighten_eq]; exact max_eq_left h
theorem lighten_white {c : ℝ} (h : c ≤ 1) : lightenBlend c 1 = 1 := by rw [lighten_eq]; exact max_eq_right h
/-- darken + lighten of the same pair give back the pair's sum (they are min and max) -/
theorem darken_add_lighten (s d : ℝ) : darkenBlend s d + lightenBlend s d = s + d := by
  simp only [darken_eq, lighten_eq]; exact min_add_max s d

/-! ## ordering of the four on the unit interval -/

theorem multiply_le_darken {s d : ℝ} (hs : 0 ≤ s ∧ s ≤ 1) (hd : 0 ≤ d ∧ d ≤ 1) : multiplyBlend s d ≤ darkenBlend s d := by
  rw [multiply_eq, darken_eq, le_min_iff]; constructor <;> nlinarith [hs.1, hs.2, hd.1, hd.2]
theorem darken_le_lighten (s d : ℝ) : darkenBlend s d ≤ lightenBlend s d := by
  rw [darken_eq, lighten_eq]; exact min_le_max
theorem lighten_le_screen {s d : ℝ} (hs : 0 ≤ s ∧ s ≤ 1) (hd : 0 ≤ d ∧ d ≤ 1) : lightenBlend s d ≤ screenBlend s d := by
  rw [screen_eq, lighten_eq, max_le_iff]; constructor <;> nlinarith [hs.1, hs.2, hd.1, hd.2]

/-! ## difference / exclusion -/

theorem difference_self (c : ℝ) : differenceBlend c c = 0 := by simp [difference_eq]
theorem difference_black {c : ℝ} (h : 0 ≤ c) : differenceBlend c 0 = c ∧ differenceBlend 0 c = c := by
  simp only [difference_eq]; exact ⟨by rw [zero_sub, abs_neg, abs_of_nonneg h], by rw [sub_zero, abs_of_nonneg h]⟩
/-- against white, difference inverts -/
theorem difference_white {c : ℝ} (h : c ≤ 1) : differenceBlend c 1 = 1 - c ∧ differenceBlend 1 c = 1 - c := by
  simp only [difference_eq]
  exact ⟨abs_of_nonneg (by linarith), by rw [abs_sub_comm]; exact abs_of_nonneg (by linarith)⟩
/-- … so blending twice with white is the identity on [0, 1] -/
theorem difference_white_involutive {c : ℝ} (h0 : 0 ≤ c) (h1 : c ≤ 1) : differenceBlend 1 (differenceBlend 1 c) = c := by
  rw [(difference_white h1).2, (difference_white (c := 1 - c) (by linarith)).2]; ring
theorem difference_eq_zero_iff (s d : ℝ) : differenceBlend s d = 0 ↔ s = d := by
  rw [difference_eq, abs_eq_zero, sub_eq_zero, eq_comm]
theorem difference_eq_lighten_sub_darken (s d : ℝ) : differenceBlend s d = lightenBlend s d - darkenBlend s d := by
  simp only [difference_eq, lighten_eq, darken_eq]
  rcases le_total s d with h | h
  · rw [max_eq_right h, min_eq_left h, abs_of_nonneg (by linarith)]
  · rw [max_eq_left h, min_eq_right h, abs_of_nonpos (by linarith)]; ring
theorem exclusion_black (c : ℝ) : exclusionBlend c 0 = c ∧ exclusionBlend 0 c = c := by
  constructor <;> simp only [exclusion_eq] <;> ring
theorem exclusion_white (c : ℝ) : exclusionBlend c 1 = 1 - c ∧ exclusionBlend 1 c = 1 - c := by
  constructor <;> simp only [exclusion_eq] <;> ring
/-- exclusion = screen − multiply -/
theorem exclusion_eq_screen_sub_multiply (s d : ℝ) : exclusionBlend s d = screenBlend s d - multiplyBlend s d := by
  simp only [exclusion_eq, screen_eq, multiply_eq]; ring
/-- exclusion never exceeds difference's complement structure: it is ≥ difference on [0,1] -/
theorem difference_le_exclusion {s d : ℝ} (hs : 0 ≤ s ∧ s ≤ 1) (hd : 0 ≤ d ∧ d ≤ 1) : differenceBlend s d ≤ exclusionBlend s d := by
  rw [difference_eq, exclusion_eq, abs_le]; constructor <;> nlinarith [hs.1, hs.2, hd.1, hd.2]

/-! ## hard-light / overlay against the neutral grey and the corners -/

theorem hardLight_black_source (d : ℝ) : hardLightBlend 0 d = 0 := by
  rw [hardLight_lo d (by norm_num)]; ring
theorem overlay_black_backdrop (s : ℝ) : overlayBlend s 0 = 0 := by rw [overlay_eq]; exact hardLight_black_source s

/-- non-vacuity: concrete values -/
example : multiplyBlend (0.5:ℝ) 0.5 = 0.25 ∧ screenBlend (0.5:ℝ) 0.5 = 0.75 ∧ exclusionBlend (0.5:ℝ) 0.5 = 0.5 := by
  simp only [multiply_eq, screen_eq, exclusion_eq]; norm_num

end C08
