/-
  C08 (support) — `Equations` (`blend/equations.rs`), the OpenGL-style blend functions that `blend_with` accepts: with the
  Porter-Duff fractions `(Fa, Fb)` as source / destination parameters and the `Add` equation they compute the same
  premultiplied colour as the `Compose` operator, and the *unclamped* Porter-Duff alpha.
-/
import PaletteProofs.C08_Blend

namespace C08
open Blend BlendReal

/-- the `Equations` value that spells the operator: `Equations::from_parameters(Fa, Fb)` -/
def eqOf : Op → Equations
  | .over => ⟨.add, .add, .one, .oneMinusSourceAlpha, .one, .oneMinusSourceAlpha⟩
  | .inside => ⟨.add, .add, .destinationAlpha, .zero, .destinationAlpha, .zero⟩
  | .outside => ⟨.add, .add, .oneMinusDestinationAlpha, .zero, .oneMinusDestinationAlpha, .zero⟩
  | .atop => ⟨.add, .add, .destinationAlpha, .oneMinusSourceAlpha, .destinationAlpha, .oneMinusSourceAlpha⟩
  | .xor => ⟨.add, .add, .oneMinusDestinationAlpha, .oneMinusSourceAlpha, .oneMinusDestinationAlpha, .oneMinusSourceAlpha⟩
  | .plus => ⟨.add, .add, .one, .one, .one, .one⟩

theorem composeList_eq_zipWith (op : Op) (αs αb : ℝ) : ∀ s d : List ℝ,
    composeList op αs αb s d = List.zipWith (fun x y => op.comp αs αb x y) s d
  | [], _ => by simp [composeList]
  | _ :: _, [] => by simp [composeList]
  | x :: s, y :: d => by simp only [composeList, List.zipWith_cons_cons, composeList_eq_zipWith op αs αb s d]

theorem zipOp_add_scaled (a b : ℝ) : ∀ s d : List ℝ,
    zipOp (Equation.op .add) (s.map (fun x => x * a)) (d.map (fun x => x * b)) = List.zipWith (fun x y => x * a + y * b) s d
  | [], _ => by simp [zipOp]
  | _ :: _, [] => by simp [zipOp]
  | x :: s, y :: d => by
    have e : Equation.op .add (x * a) (y * b) = x * a + y * b := rfl
    simp only [List.map_cons, zipOp, List.zipWith_cons_cons, e, zipOp_add_scaled a b s d]

/-- **`blend_with(Equations::from_parameters(Fa, Fb))` computes the operator's colour**, and the Porter-Duff alpha without the
    final clamp (so for `plus` the alpha differs from `Compose::plus` when `αs + αb > 1`) -/
theorem equations_eq_compose (op : Op) (s d : List ℝ) (αs αb : ℝ) :
    (eqOf op).applyTo (s, αs) (d, αb) = (composeList op αs αb s d, (pdOf op).αo αs αb) := by
  rw [composeList_eq_zipWith]
  cases op <;>
    simp only [eqOf, Equations.applyTo, Equation.isMinMax, Bool.false_eq_true, if_false, Parameter.applyTo,
      ParamOut.mulColor, ParamOut.mulConstant, zipOp_add_scaled, pdOf, W3C.PD.αo, W3C.PD.Fa, W3C.PD.Fb] <;>
    (congr 1
     · congr 1; funext x y; rw [opComp_eq]; simp only [lit1, lit0]; ring
     · have e : ∀ p q : ℝ, Equation.op .add p q = p + q := fun _ _ => rfl
       rw [e]; simp only [lit1, lit0]; ring)

end C08
