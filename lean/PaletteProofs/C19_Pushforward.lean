/-
  C19 — the uniformity clause as a statement about measures (part 1: the uniform samplers BETWEEN two colours).

  Form proved: the FULL 3-D push-forward.  For every shape sampled by palette, if the three primitive draws are uniformly distributed
  on the box of intervals that `new` hands to rand (`volume[|drawBox (uniformEnds ty low high)]`, normalised Lebesgue measure — this is
  the assumption about `rand::distributions::Uniform`), then the push-forward of that distribution under the MODEL's sampler map
  `uniformSample ty` followed by the Cartesian coordinates of the solid (x = radius·cos hue, y = radius·sin hue, z = height) is the
  normalised Lebesgue measure of ℝ³ restricted to the sub-solid between the two ends (`volume[|cart '' between …]`):

    hsv_uniform_volume        Hsv, Okhsv                 cone,     radius s·v at height v
    hwb_uniform_volume        Hwb, Okhwb                 the same cone through the equivalent HSV colour (ends converted and ordered)
    hsl_uniform_volume        Hsl, Okhsl                 bicone,   radius s·(1-|2l-1|) at height l
    hsluv_uniform_volume      Hsluv                      the same bicone on components / 100
    cylinder_uniform_volume   Lch, Lchuv, Oklch, Cam16UcsJmh   cylinder, radius = chroma
    cartesian_uniform_volume  the 8 three-component cartesian types (and `luma_uniform`)   box
    cond_drawBoxIncl          `new_inclusive`: the closed box of draws carries the same distribution

  The analytic core is `Revolution.sampler_uniform` (PaletteProofs/Lemmas/RevolutionMeasure.lean, RevolutionSolid.lean): constant
  Jacobian of the sampler of a solid of revolution, by Mathlib's change-of-variables formula (2-D, per height slice), a 1-D change of
  variables along the height (CDF `F`, `F' = c·R²`, sampler `G = F⁻¹`) and Tonelli.  Here the model's `cbrt`, `sample_bicone_height`,
  `invert_bicone_height_sample` are shown to satisfy its hypotheses (the bicone CDF is differentiable at the waist too), and the
  sub-solid is identified with the image of the colours between the ends (`OnArc` hue arcs, as in the containment theorems).

  Hypotheses: non-degenerate valid ends (low < high in every component, radius-like and height-like low ends ≥ 0, bicone lightness ≤ 1
  resp. 100): for equal ends the "solid" is a surface and has no volume measure.
  Part 2 (`Standard`, whole solids in closed form) is `C19_PushforwardStd.lean`.
-/
import PaletteProofs.C19_Sampling
import PaletteProofs.Lemmas.RevolutionSolid

open MeasureTheory Set Real ProbabilityTheory
open scoped ENNReal
open Sampling Gen.Sampling

noncomputable section
namespace C19

/-! ## the model's height samplers: measurability, derivatives of the CDFs, images of intervals -/

theorem cbrt_monotone : Monotone (Scalar.cbrt : ℝ → ℝ) := fun a b hab => by
  rw [cbrt_le_iff, cbrt_cube]; exact hab

theorem measurable_cbrt : Measurable (Scalar.cbrt : ℝ → ℝ) := cbrt_monotone.measurable

theorem biconeHeight_monotone : Monotone (biconeHeight : ℝ → ℝ) := fun a b hab =>
  (bicone_height_contained (lLo := biconeHeight a) (lHi := biconeHeight b) (d := b)
    (by rw [invert_biconeHeight]; exact hab) (by rw [invert_biconeHeight])).1

theorem measurable_biconeHeight : Measurable (biconeHeight : ℝ → ℝ) := biconeHeight_monotone.measurable

/-- image of an open interval under a strictly increasing map with a right inverse -/
theorem image_Ioo_of_strictMono {F G : ℝ → ℝ} (hF : StrictMono F) (hFG : ∀ d, F (G d) = d) (a b : ℝ) :
    F '' Ioo a b = Ioo (F a) (F b) := by
  ext d
  constructor
  · rintro ⟨z, ⟨h1, h2⟩, rfl⟩; exact ⟨hF h1, hF h2⟩
  · rintro ⟨h1, h2⟩
    refine ⟨G d, ⟨?_, ?_⟩, hFG d⟩
    · rw [← hF.lt_iff_lt, hFG]; exact h1
    · rw [← hF.lt_iff_lt, hFG]; exact h2

theorem cube_image (a b : ℝ) : (fun z : ℝ => z ^ 3) '' Ioo a b = Ioo (a ^ 3) (b ^ 3) :=
  image_Ioo_of_strictMono cube_strictMono cbrt_cube a b

theorem bicone_image (a b : ℝ) : (invertBiconeHeight : ℝ → ℝ) '' Ioo a b = Ioo (invertBiconeHeight a) (invertBiconeHeight b) :=
  image_Ioo_of_strictMono invertBicone_strictMono invert_biconeHeight a b

/-- radius profile of the bicone: `1 - |2l - 1|` (`2l` below the waist, `2(1-l)` above) -/
def biconeR (l : ℝ) : ℝ := 1 - |2 * l - 1|

theorem biconeR_lo {l : ℝ} (h : l ≤ 1/2) : biconeR l = 2 * l := by
  unfold biconeR; rw [abs_of_nonpos (by linarith)]; ring
theorem biconeR_hi {l : ℝ} (h : 1/2 ≤ l) : biconeR l = 2 * (1 - l) := by
  unfold biconeR; rw [abs_of_nonneg (by linarith)]; ring

theorem invertBicone_eq_lo {h : ℝ} (hh : h ≤ 1/2) : invertBiconeHeight h = h ^ 3 * 4 := by
  rw [invertBicone_lo (by norm_num; linarith), powi3_eq]; norm_num
theorem invertBicone_eq_hi {h : ℝ} (hh : 1/2 ≤ h) : invertBiconeHeight h = (h - 1) ^ 3 * 4 + 1 := by
  rcases hh.eq_or_lt with e | hlt
  · rw [← e, invertBicone_eq_lo (le_refl _)]; norm_num
  · rw [invertBicone_hi (by norm_num; linarith), powi3_eq]; norm_num

/-- **the bicone CDF is differentiable everywhere (also at the waist) with derivative `3·R(l)²`**: the cross-section area -/
theorem hasDerivAt_invertBicone (z : ℝ) : HasDerivAt (invertBiconeHeight : ℝ → ℝ) (3 * biconeR z ^ 2) z := by
  have d1 : ∀ z : ℝ, HasDerivAt (fun h : ℝ => h ^ 3 * 4) (3 * (2 * z) ^ 2) z := fun z => by
    exact ((hasDerivAt_pow 3 z).mul_const 4).congr_deriv (by push_cast; ring)
  have d2 : ∀ z : ℝ, HasDerivAt (fun h : ℝ => (h - 1) ^ 3 * 4 + 1) (3 * (2 * (1 - z)) ^ 2) z := fun z => by
    have h0 : HasDerivAt (fun h : ℝ => h - 1) 1 z := (hasDerivAt_id z).sub_const 1
    have t := ((h0.pow 3).mul_const 4).add_const 1
    have e : ((3:ℕ):ℝ) * (z - 1) ^ (3 - 1) * 1 * 4 = 3 * (2 * (1 - z)) ^ 2 := by push_cast; ring
    exact t.congr_deriv e
  rcases lt_trichotomy z (1/2) with h | h | h
  · rw [biconeR_lo h.le]
    refine (d1 z).congr_of_eventuallyEq ?_
    filter_upwards [Iio_mem_nhds h] with y hy
    exact invertBicone_eq_lo (le_of_lt hy)
  · subst h
    rw [biconeR_lo (le_refl _)]
    have e : (3 * (2 * (1/2:ℝ)) ^ 2) = 3 * (2 * (1 - 1/2)) ^ 2 := by norm_num
    have l : HasDerivWithinAt (invertBiconeHeight : ℝ → ℝ) (3 * (2 * (1/2:ℝ)) ^ 2) (Iic (1/2)) (1/2) :=
      (d1 (1/2)).hasDerivWithinAt.congr (fun y hy => invertBicone_eq_lo hy) (invertBicone_eq_lo (le_refl _))
    have r : HasDerivWithinAt (invertBiconeHeight : ℝ → ℝ) (3 * (2 * (1/2:ℝ)) ^ 2) (Ici (1/2)) (1/2) := by
      rw [e]
      exact (d2 (1/2)).hasDerivWithinAt.congr (fun y hy => invertBicone_eq_hi hy) (invertBicone_eq_hi (le_refl _))
    have := l.union r
    rwa [Iic_union_Ici, hasDerivWithinAt_univ] at this
  · rw [biconeR_hi h.le]
    refine (d2 z).congr_of_eventuallyEq ?_
    filter_upwards [Ioi_mem_nhds h] with y hy
    exact invertBicone_eq_hi (le_of_lt hy)


/-! ## Cartesian coordinates of the solids, boxes of draws -/

/-- radians per degree -/
def kdeg : ℝ := π / 180
theorem kdeg_pos : 0 < kdeg := div_pos pi_pos (by norm_num)

/-- HSV cone (Hsv, Okhsv): the colour `[hue, s, v]` is the point of height `v` at distance `s·v` from the axis in direction `hue` -/
def cartCone : List ℝ → ℝ × ℝ × ℝ
  | [hue, s, v] => (s * v * cos (hue * kdeg), s * v * sin (hue * kdeg), v)
  | _ => (0, 0, 0)

/-- the three primitive draws, in the order in which `sample` consumes them -/
def draws3 (d : ℝ × ℝ × ℝ) : List ℝ := [d.1, d.2.1, d.2.2]

/-- the box of draws: the product of the three intervals handed to rand (half-open: `Uniform::new`) -/
def drawBox : List (Iv ℝ) → Set (ℝ × ℝ × ℝ)
  | [i1, i2, i3] => Ico i1.lo i1.hi ×ˢ (Ico i2.lo i2.hi ×ˢ Ico i3.lo i3.hi)
  | _ => ∅
/-- the same for `Uniform::new_inclusive` -/
def drawBoxIncl : List (Iv ℝ) → Set (ℝ × ℝ × ℝ)
  | [i1, i2, i3] => Icc i1.lo i1.hi ×ˢ (Icc i2.lo i2.hi ×ˢ Icc i3.lo i3.hi)
  | _ => ∅

/-- the colours `[hue, r, z]` between two ends: radius-like and height-like components between those of the ends, hue on the arc from
    the low hue to the high hue (`OnArc`, as in the containment theorems) -/
def between (hueLo rLo zLo hueHi rHi zHi : ℝ) : Set (List ℝ) :=
  {c | ∃ hue r z, c = [hue, r, z] ∧ rLo ≤ r ∧ r ≤ rHi ∧ zLo ≤ z ∧ z ≤ zHi ∧
    OnArc hueLo ((hueEnds hueLo hueHi).hi - (hueEnds hueLo hueHi).lo) hue}

theorem cos_deg_periodic (h : ℝ) (n : ℤ) : cos ((h + 360 * n) * kdeg) = cos (h * kdeg) := by
  have : (h + 360 * n) * kdeg = h * kdeg + n * (2 * π) := by unfold kdeg; ring
  rw [this, Real.cos_add_int_mul_two_pi]
theorem sin_deg_periodic (h : ℝ) (n : ℤ) : sin ((h + 360 * n) * kdeg) = sin (h * kdeg) := by
  have : (h + 360 * n) * kdeg = h * kdeg + n * (2 * π) := by unfold kdeg; ring
  rw [this, Real.sin_add_int_mul_two_pi]

/-- the Cartesian image of the colours between two ends is the part of the solid of revolution cut out by the height range, the relative
    radius range and the arc `[normalised low hue, + span]` -/
theorem image_between (R : ℝ → ℝ) (cart : List ℝ → ℝ × ℝ × ℝ)
    (hcart : ∀ hue r z, cart [hue, r, z] = (r * R z * cos (hue * kdeg), r * R z * sin (hue * kdeg), z))
    (hueLo rLo zLo hueHi rHi zHi : ℝ) :
    cart '' between hueLo rLo zLo hueHi rHi zHi =
      Revolution.solid kdeg R zLo zHi rLo rHi (hueEnds hueLo hueHi).lo (hueEnds hueLo hueHi).hi := by
  obtain ⟨a, ea, _, _⟩ := normalize_spec hueLo
  ext p
  constructor
  · rintro ⟨_, ⟨hue, r, z, rfl, hr1, hr2, hz1, hz2, t, k, ht0, ht1, e⟩, rfl⟩
    refine ⟨z, r, (hueEnds hueLo hueHi).lo + t, ⟨hz1, hz2⟩, ⟨hr1, hr2⟩, ⟨by linarith, by linarith⟩, ?_⟩
    have eh : hue = ((hueEnds hueLo hueHi).lo + t) + 360 * ((k + a : ℤ) : ℝ) := by
      rw [e, hueEnds_lo, ea]; push_cast; ring
    rw [hcart, eh, cos_deg_periodic, sin_deg_periodic]
  · rintro ⟨z, r, h, ⟨hz1, hz2⟩, ⟨hr1, hr2⟩, ⟨hh1, hh2⟩, rfl⟩
    exact ⟨[h, r, z], ⟨h, r, z, rfl, hr1, hr2, hz1, hz2, hue_on_arc hueLo hueHi h hh1 hh2⟩, hcart h r z⟩

theorem hue_box {hueLo hueHi : ℝ} (hh : hueLo < hueHi) :
    (hueEnds hueLo hueHi).lo < (hueEnds hueLo hueHi).hi ∧
      ((hueEnds hueLo hueHi).hi - (hueEnds hueLo hueHi).lo) * kdeg ≤ 2 * π := by
  obtain ⟨_, h2, _, h4, _⟩ := hue_span hueLo hueHi hh.le
  refine ⟨by linarith [h4 hh], ?_⟩
  have : (360:ℝ) * kdeg = 2 * π := by unfold kdeg; ring
  rw [← this]; exact mul_le_mul_of_nonneg_right h2 kdeg_pos.le

/-! ## [C] uniform in volume: the HSV cone (Hsv, Okhsv) -/

/-- **Hsv, Okhsv — the uniform sampler between two colours is uniform in volume.**  If the three primitive draws are uniformly
    distributed on the box of intervals that `new` hands to rand (the assumption about `rand::Uniform`), then the Cartesian point of
    the sampled colour is distributed as the normalised Lebesgue measure of ℝ³ on the sub-solid of the cone between the two ends
    (all colours with saturation and value between the ends' and hue on the arc).  Full 3-D statement (push-forward measure). -/
theorem hsv_uniform_volume (ty : Ty) (hf : family ty = .hsv_cone) (hueLo sLo vLo hueHi sHi vHi : ℝ)
    (hh : hueLo < hueHi) (hs0 : 0 ≤ sLo) (hs : sLo < sHi) (hv0 : 0 ≤ vLo) (hv : vLo < vHi) :
    Measure.map (fun d => cartCone (uniformSample ty (draws3 d)))
        (volume[|drawBox (uniformEnds ty [hueLo, sLo, vLo] [hueHi, sHi, vHi])]) =
      volume[|cartCone '' between hueLo sLo vLo hueHi sHi vHi] := by
  have e1 : uniformEnds ty [hueLo, sLo, vLo] [hueHi, sHi, vHi] = [hueEnds hueLo hueHi, ⟨powi3 vLo, powi3 vHi⟩, ⟨powi2 sLo, powi2 sHi⟩] := by
    unfold uniformEnds; rw [hf]; rfl
  have e2 : (fun d : ℝ × ℝ × ℝ => cartCone (uniformSample ty (draws3 d))) = Revolution.sampler kdeg Scalar.cbrt id := by
    funext d
    have : uniformSample ty (draws3 d) = [hueSample d.1, Scalar.sqrt d.2.2, Scalar.cbrt d.2.1] := by
      unfold uniformSample draws3; rw [hf]; rfl
    rw [this]; rfl
  rw [e1, e2, image_between id cartCone (fun _ _ _ => rfl)]
  simp only [drawBox, powi3_eq, powi2_eq]
  obtain ⟨hb1, hb2⟩ := hue_box hh
  exact Revolution.sampler_uniform (F := fun z => z ^ 3) (c := 3) kdeg_pos measurable_cbrt measurable_id (by norm_num)
    (fun z _ => by simpa using hasDerivAt_pow 3 z) (fun z hz => lt_of_le_of_lt hv0 hz.1) (fun z hz => hv0.trans hz.1)
    (fun z _ => by rw [← powi3_eq, cbrt_powi3]) (cube_image vLo vHi) hv hs0 hs hb1 hb2


/-- the sub-solid has positive finite volume: `volume[|…]` above is a probability measure, not the zero measure -/
theorem hsv_between_volume_ne (hueLo sLo vLo hueHi sHi vHi : ℝ)
    (hh : hueLo < hueHi) (hs0 : 0 ≤ sLo) (hs : sLo < sHi) (hv0 : 0 ≤ vLo) (hv : vLo < vHi) :
    volume (cartCone '' between hueLo sLo vLo hueHi sHi vHi) ≠ 0 ∧ volume (cartCone '' between hueLo sLo vLo hueHi sHi vHi) ≠ ∞ := by
  rw [image_between id cartCone (fun _ _ _ => rfl)]
  obtain ⟨hb1, hb2⟩ := hue_box hh
  exact Revolution.solid_volume_ne (F := fun z => z ^ 3) (G := Scalar.cbrt) (c := 3) kdeg_pos measurable_cbrt measurable_id (by norm_num)
    (fun z _ => by simpa using hasDerivAt_pow 3 z) (fun z hz => lt_of_le_of_lt hv0 hz.1) (fun z hz => hv0.trans hz.1)
    (fun z _ => by rw [← powi3_eq, cbrt_powi3]) (cube_image vLo vHi) hv hs0 hs hb1 hb2

/-- non-vacuity: a proper sub-range of the cone whose hue arc runs through 0° (350° → 370°) -/
example : Measure.map (fun d => cartCone (uniformSample .Hsv (draws3 d)))
      (volume[|drawBox (uniformEnds .Hsv [350, 0.25, 0.5] [370, 0.75, 1])]) =
    volume[|cartCone '' between 350 0.25 0.5 370 0.75 1] :=
  hsv_uniform_volume .Hsv rfl 350 0.25 0.5 370 0.75 1 (by norm_num) (by norm_num) (by norm_num) (by norm_num) (by norm_num)

/-! ## [C] uniform in volume: the HWB forms (Hwb, Okhwb), through their equivalent HSV colour -/

/-- Cartesian point of an HWB colour `[hue, w, b]`: that of its equivalent HSV colour -/
def cartHwb : List ℝ → ℝ × ℝ × ℝ
  | [hue, w, b] => cartCone [hue, (hwbToHsv w b).1, (hwbToHsv w b).2]
  | _ => (0, 0, 0)

/-- the point of the HWB colour returned by the sampler is the point of the HSV colour drawn by the inner sampler (also at value 0,
    where the conversion back forgets the saturation but the point is the apex either way) -/
theorem cartHwb_hsvToHwb (hue s v : ℝ) : cartHwb [hue, (hsvToHwb s v).1, (hsvToHwb s v).2] = cartCone [hue, s, v] := by
  by_cases hv : v = 0
  · subst hv
    have : hwbToHsv (hsvToHwb s (0:ℝ)).1 (hsvToHwb s (0:ℝ)).2 = (0, 0) := by
      unfold hwbToHsv hsvToHwb
      have e : (1.0:ℝ) - (1.0 - 0) = 0 := by norm_num
      simp only [e, RealScalar.valid_eq]; norm_num
    simp only [cartHwb, this, cartCone]; simp
  · simp only [cartHwb, hwbToHsv_hsvToHwb hv]

/-- **Hwb, Okhwb.**  The sampler draws an HSV colour between the two ends' equivalent HSV colours (ordered componentwise) and converts it:
    under uniform primitive draws, the point of the sampled HWB colour is uniformly distributed (normalised Lebesgue measure of ℝ³) on the
    sub-solid of the cone of all colours whose equivalent HSV saturation and value lie between those of the two ends, hue on the arc. -/
theorem hwb_uniform_volume (ty : Ty) (hf : family ty = .hwb_cone) (hueLo wLo bLo hueHi wHi bHi : ℝ)
    (hh : hueLo < hueHi)
    (hs0 : 0 ≤ min (hwbToHsv wLo bLo).1 (hwbToHsv wHi bHi).1) (hs : (hwbToHsv wLo bLo).1 ≠ (hwbToHsv wHi bHi).1)
    (hv0 : 0 ≤ min (hwbToHsv wLo bLo).2 (hwbToHsv wHi bHi).2) (hv : (hwbToHsv wLo bLo).2 ≠ (hwbToHsv wHi bHi).2) :
    Measure.map (fun d => cartHwb (uniformSample ty (draws3 d)))
        (volume[|drawBox (uniformEnds ty [hueLo, wLo, bLo] [hueHi, wHi, bHi])]) =
      volume[|cartCone '' between hueLo (min (hwbToHsv wLo bLo).1 (hwbToHsv wHi bHi).1) (min (hwbToHsv wLo bLo).2 (hwbToHsv wHi bHi).2)
        hueHi (max (hwbToHsv wLo bLo).1 (hwbToHsv wHi bHi).1) (max (hwbToHsv wLo bLo).2 (hwbToHsv wHi bHi).2)] := by
  have e1 : uniformEnds ty [hueLo, wLo, bLo] [hueHi, wHi, bHi] =
      [hueEnds hueLo hueHi,
       ⟨powi3 (min (hwbToHsv wLo bLo).2 (hwbToHsv wHi bHi).2), powi3 (max (hwbToHsv wLo bLo).2 (hwbToHsv wHi bHi).2)⟩,
       ⟨powi2 (min (hwbToHsv wLo bLo).1 (hwbToHsv wHi bHi).1), powi2 (max (hwbToHsv wLo bLo).1 (hwbToHsv wHi bHi).1)⟩] := by
    unfold uniformEnds; rw [hf]; rfl
  have e2 : (fun d : ℝ × ℝ × ℝ => cartHwb (uniformSample ty (draws3 d))) = Revolution.sampler kdeg Scalar.cbrt id := by
    funext d
    have : uniformSample ty (draws3 d) =
        [hueSample d.1, (hsvToHwb (Scalar.sqrt d.2.2) (Scalar.cbrt d.2.1)).1, (hsvToHwb (Scalar.sqrt d.2.2) (Scalar.cbrt d.2.1)).2] := by
      unfold uniformSample draws3; rw [hf]; rfl
    rw [this, cartHwb_hsvToHwb]; rfl
  rw [e1, e2, image_between id cartCone (fun _ _ _ => rfl)]
  simp only [drawBox, powi3_eq, powi2_eq]
  obtain ⟨hb1, hb2⟩ := hue_box hh
  have hs' := min_lt_max.mpr hs
  have hv' := min_lt_max.mpr hv
  exact Revolution.sampler_uniform (F := fun z => z ^ 3) (c := 3) kdeg_pos measurable_cbrt measurable_id (by norm_num)
    (fun z _ => by simpa using hasDerivAt_pow 3 z) (fun z hz => lt_of_le_of_lt hv0 hz.1) (fun z hz => hv0.trans hz.1)
    (fun z _ => by rw [← powi3_eq, cbrt_powi3]) (cube_image _ _) hv' hs0 hs' hb1 hb2

theorem hwbToHsv_of_ne {w b : ℝ} (h : 1 - b ≠ 0) : hwbToHsv w b = (1 - w / (1 - b), 1 - b) := by
  unfold hwbToHsv
  have e : (1.0:ℝ) - b = 1 - b := by norm_num
  simp only [e, RealScalar.valid_eq, decide_eq_true_eq, if_pos h]; norm_num

/-- non-vacuity: the HWB ends (w, b) = (0.1, 0.2) and (0.3, 0.5) are the HSV colours (s, v) = (0.875, 0.8) and (0.4, 0.5): the hypotheses
    hold with the LOW end having the larger saturation and value (the constructor orders them) -/
example : (hwbToHsv (0.1:ℝ) 0.2 = (0.875, 0.8) ∧ hwbToHsv (0.3:ℝ) 0.5 = (0.4, 0.5)) ∧
    0 ≤ min (hwbToHsv (0.1:ℝ) 0.2).1 (hwbToHsv (0.3:ℝ) 0.5).1 ∧ (hwbToHsv (0.1:ℝ) 0.2).1 ≠ (hwbToHsv (0.3:ℝ) 0.5).1 ∧
    0 ≤ min (hwbToHsv (0.1:ℝ) 0.2).2 (hwbToHsv (0.3:ℝ) 0.5).2 ∧ (hwbToHsv (0.1:ℝ) 0.2).2 ≠ (hwbToHsv (0.3:ℝ) 0.5).2 := by
  have e1 : hwbToHsv (0.1:ℝ) 0.2 = (0.875, 0.8) := by rw [hwbToHsv_of_ne (by norm_num)]; norm_num
  have e2 : hwbToHsv (0.3:ℝ) 0.5 = (0.4, 0.5) := by rw [hwbToHsv_of_ne (by norm_num)]; norm_num
  rw [e1, e2]
  refine ⟨⟨rfl, rfl⟩, ?_, ?_, ?_, ?_⟩ <;> norm_num

/-! ## [C] uniform in volume: the HSL bicone (Hsl, Okhsl; Hsluv on components scaled by 100) -/

/-- HSL bicone: the colour `[hue, s, l]` is the point of height `l` at distance `s·(1 - |2l - 1|)` from the axis in direction `hue` -/
def cartBicone : List ℝ → ℝ × ℝ × ℝ
  | [hue, s, l] => (s * biconeR l * cos (hue * kdeg), s * biconeR l * sin (hue * kdeg), l)
  | _ => (0, 0, 0)

theorem biconeR_pos {l : ℝ} (h0 : 0 < l) (h1 : l < 1) : 0 < biconeR l := by
  rcases le_total l (1/2) with h | h
  · rw [biconeR_lo h]; linarith
  · rw [biconeR_hi h]; linarith
theorem biconeR_nonneg {l : ℝ} (h0 : 0 ≤ l) (h1 : l ≤ 1) : 0 ≤ biconeR l := by
  rcases le_total l (1/2) with h | h
  · rw [biconeR_lo h]; linarith
  · rw [biconeR_hi h]; linarith
theorem measurable_biconeR : Measurable biconeR := by unfold biconeR; fun_prop

/-- the core of the three bicone statements: the sampler `(cbrt-based height, √, hue)` on the box `[hue arc) × [CDF(lLo), CDF(lHi)) × [sLo², sHi²)` -/
theorem bicone_core (hueLo sLo lLo hueHi sHi lHi : ℝ)
    (hh : hueLo < hueHi) (hs0 : 0 ≤ sLo) (hs : sLo < sHi) (hl0 : 0 ≤ lLo) (hl : lLo < lHi) (hl1 : lHi ≤ 1) :
    Measure.map (Revolution.sampler kdeg biconeHeight biconeR)
        (volume[|Ico (hueEnds hueLo hueHi).lo (hueEnds hueLo hueHi).hi ×ˢ
          (Ico (invertBiconeHeight lLo) (invertBiconeHeight lHi) ×ˢ Ico (sLo ^ 2) (sHi ^ 2))]) =
      volume[|cartBicone '' between hueLo sLo lLo hueHi sHi lHi] := by
  rw [image_between biconeR cartBicone (fun _ _ _ => rfl)]
  obtain ⟨hb1, hb2⟩ := hue_box hh
  exact Revolution.sampler_uniform (F := invertBiconeHeight) (c := 3) kdeg_pos measurable_biconeHeight measurable_biconeR (by norm_num)
    (fun z _ => hasDerivAt_invertBicone z) (fun z hz => biconeR_pos (lt_of_le_of_lt hl0 hz.1) (lt_of_lt_of_le hz.2 hl1))
    (fun z hz => biconeR_nonneg (hl0.trans hz.1) (hz.2.trans hl1))
    (fun z _ => biconeHeight_invert z) (bicone_image lLo lHi) hl hs0 hs hb1 hb2

/-- **Hsl, Okhsl — the uniform sampler between two colours is uniform in volume** (normalised Lebesgue measure of ℝ³ on the sub-solid of
    the bicone between the ends), for valid ends `0 ≤ sLo < sHi`, `0 ≤ lLo < lHi ≤ 1`, `hueLo < hueHi`. -/
theorem hsl_uniform_volume (ty : Ty) (hty : ty = .Hsl ∨ ty = .Okhsl) (hueLo sLo lLo hueHi sHi lHi : ℝ)
    (hh : hueLo < hueHi) (hs0 : 0 ≤ sLo) (hs : sLo < sHi) (hl0 : 0 ≤ lLo) (hl : lLo < lHi) (hl1 : lHi ≤ 1) :
    Measure.map (fun d => cartBicone (uniformSample ty (draws3 d)))
        (volume[|drawBox (uniformEnds ty [hueLo, sLo, lLo] [hueHi, sHi, lHi])]) =
      volume[|cartBicone '' between hueLo sLo lLo hueHi sHi lHi] := by
  have e1 : uniformEnds ty [hueLo, sLo, lLo] [hueHi, sHi, lHi] =
      [hueEnds hueLo hueHi, ⟨invertBiconeHeight lLo, invertBiconeHeight lHi⟩, ⟨powi2 sLo, powi2 sHi⟩] := by
    rcases hty with rfl | rfl <;> rfl
  have e2 : (fun d : ℝ × ℝ × ℝ => cartBicone (uniformSample ty (draws3 d))) = Revolution.sampler kdeg biconeHeight biconeR := by
    funext d
    have : uniformSample ty (draws3 d) = [hueSample d.1, Scalar.sqrt d.2.2, biconeHeight d.2.1] := by
      rcases hty with rfl | rfl <;> rfl
    rw [this]; rfl
  rw [e1, e2]
  simp only [drawBox, powi2_eq]
  exact bicone_core hueLo sLo lLo hueHi sHi lHi hh hs0 hs hl0 hl hl1

/-- non-vacuity: a range across the waist of the bicone -/
example : Measure.map (fun d => cartBicone (uniformSample .Okhsl (draws3 d)))
      (volume[|drawBox (uniformEnds .Okhsl [10, 0, 0.25] [20, 1, 0.75])]) =
    volume[|cartBicone '' between 10 0 0.25 20 1 0.75] :=
  hsl_uniform_volume .Okhsl (Or.inr rfl) 10 0 0.25 20 1 0.75 (by norm_num) (by norm_num) (by norm_num) (by norm_num) (by norm_num) (by norm_num)

/-- Cartesian point of an Hsluv colour `[hue, s, l]` (components in `[0, 100]`): the bicone point of `[hue, s/100, l/100]` -/
def cartHsluv : List ℝ → ℝ × ℝ × ℝ
  | [hue, s, l] => cartBicone [hue, s / 100, l / 100]
  | _ => (0, 0, 0)

theorem image_between_hsluv (hueLo sLo lLo hueHi sHi lHi : ℝ) :
    cartHsluv '' between hueLo sLo lLo hueHi sHi lHi = cartBicone '' between hueLo (sLo / 100) (lLo / 100) hueHi (sHi / 100) (lHi / 100) := by
  ext p
  constructor
  · rintro ⟨_, ⟨hue, s, l, rfl, h1, h2, h3, h4, h5⟩, rfl⟩
    exact ⟨[hue, s / 100, l / 100], ⟨hue, s / 100, l / 100, rfl, by linarith, by linarith, by linarith, by linarith, h5⟩, rfl⟩
  · rintro ⟨_, ⟨hue, s, l, rfl, h1, h2, h3, h4, h5⟩, rfl⟩
    refine ⟨[hue, s * 100, l * 100], ⟨hue, s * 100, l * 100, rfl, by linarith, by linarith, by linarith, by linarith, h5⟩, ?_⟩
    simp [cartHsluv]

/-- **Hsluv** (saturation and lightness in `[0, 100]`; the macro divides the ends by 100 and multiplies the sample by 100) -/
theorem hsluv_uniform_volume (hueLo sLo lLo hueHi sHi lHi : ℝ)
    (hh : hueLo < hueHi) (hs0 : 0 ≤ sLo) (hs : sLo < sHi) (hl0 : 0 ≤ lLo) (hl : lLo < lHi) (hl1 : lHi ≤ 100) :
    Measure.map (fun d => cartHsluv (uniformSample .Hsluv (draws3 d)))
        (volume[|drawBox (uniformEnds .Hsluv [hueLo, sLo, lLo] [hueHi, sHi, lHi])]) =
      volume[|cartHsluv '' between hueLo sLo lLo hueHi sHi lHi] := by
  have e1 : uniformEnds .Hsluv [hueLo, sLo, lLo] [hueHi, sHi, lHi] =
      [hueEnds hueLo hueHi, ⟨invertBiconeHeight (lLo / 100.0), invertBiconeHeight (lHi / 100.0)⟩, ⟨powi2 (sLo / 100.0), powi2 (sHi / 100.0)⟩] := rfl
  have e2 : (fun d : ℝ × ℝ × ℝ => cartHsluv (uniformSample .Hsluv (draws3 d))) = Revolution.sampler kdeg biconeHeight biconeR := by
    funext d
    have : uniformSample .Hsluv (draws3 d) = [hueSample d.1, Scalar.sqrt d.2.2 * 100.0, biconeHeight d.2.1 * 100.0] := rfl
    rw [this]
    have c : (100.0:ℝ) = 100 := by norm_num
    simp only [cartHsluv, cartBicone, Revolution.sampler, c, hueSample, RealScalar.sqrt_eq]
    rw [mul_div_cancel_right₀ _ (by norm_num : (100:ℝ) ≠ 0), mul_div_cancel_right₀ _ (by norm_num : (100:ℝ) ≠ 0)]
  have c : (100.0:ℝ) = 100 := by norm_num
  rw [e1, e2, image_between_hsluv]
  simp only [drawBox, powi2_eq, c]
  exact bicone_core hueLo (sLo / 100) (lLo / 100) hueHi (sHi / 100) (lHi / 100) hh (by positivity) (by linarith) (by positivity)
    (by linarith) (by linarith)


/-- non-vacuity: an Hsluv range near the top of the bicone -/
example : Measure.map (fun d => cartHsluv (uniformSample .Hsluv (draws3 d)))
      (volume[|drawBox (uniformEnds .Hsluv [0, 10, 30] [90, 80, 99])]) =
    volume[|cartHsluv '' between 0 10 30 90 80 99] :=
  hsluv_uniform_volume 0 10 30 90 80 99 (by norm_num) (by norm_num) (by norm_num) (by norm_num) (by norm_num) (by norm_num)

/-! ## [C] uniform in volume: cylinders (Lch, Lchuv, Oklch, Cam16UcsJmh) and boxes (the nine cartesian types) -/

/-- cylinder: the colour `[height, radius, hue]` is the point of that height at that distance from the axis in direction `hue` -/
def cartCyl : List ℝ → ℝ × ℝ × ℝ
  | [h, r, hue] => (r * cos (hue * kdeg), r * sin (hue * kdeg), h)
  | _ => (0, 0, 0)

/-- the cylinder colours `[height, radius, hue]` between two ends -/
def betweenCyl (hLo rLo hueLo hHi rHi hueHi : ℝ) : Set (List ℝ) :=
  {c | ∃ h r hue, c = [h, r, hue] ∧ hLo ≤ h ∧ h ≤ hHi ∧ rLo ≤ r ∧ r ≤ rHi ∧
    OnArc hueLo ((hueEnds hueLo hueHi).hi - (hueEnds hueLo hueHi).lo) hue}

theorem image_betweenCyl (hLo rLo hueLo hHi rHi hueHi : ℝ) :
    cartCyl '' betweenCyl hLo rLo hueLo hHi rHi hueHi =
      Revolution.solid kdeg (fun _ => 1) hLo hHi rLo rHi (hueEnds hueLo hueHi).lo (hueEnds hueLo hueHi).hi := by
  rw [← image_between (fun _ => 1) (fun c => match c with | [hue, r, z] => cartCyl [z, r, hue] | _ => (0, 0, 0))
    (fun hue r z => by simp [cartCyl])]
  ext p
  constructor
  · rintro ⟨_, ⟨h, r, hue, rfl, h1, h2, h3, h4, h5⟩, rfl⟩
    exact ⟨[hue, r, h], ⟨hue, r, h, rfl, h3, h4, h1, h2, h5⟩, rfl⟩
  · rintro ⟨_, ⟨hue, r, h, rfl, h3, h4, h1, h2, h5⟩, rfl⟩
    exact ⟨[h, r, hue], ⟨h, r, hue, rfl, h1, h2, h3, h4, h5⟩, rfl⟩

/-- **Lch, Lchuv, Oklch, Cam16UcsJmh — uniform in the volume of the cylinder sector between the ends** (the radius is drawn through the
    squared ends and `sqrt`, the height and the hue directly) -/
theorem cylinder_uniform_volume (ty : Ty) (hf : family ty = .cylinder) (hLo rLo hueLo hHi rHi hueHi : ℝ)
    (hh : hueLo < hueHi) (hr0 : 0 ≤ rLo) (hr : rLo < rHi) (hz : hLo < hHi) :
    Measure.map (fun d => cartCyl (uniformSample ty (draws3 d)))
        (volume[|drawBox (uniformEnds ty [hLo, rLo, hueLo] [hHi, rHi, hueHi])]) =
      volume[|cartCyl '' betweenCyl hLo rLo hueLo hHi rHi hueHi] := by
  have e1 : uniformEnds ty [hLo, rLo, hueLo] [hHi, rHi, hueHi] = [⟨hLo, hHi⟩, ⟨rLo * rLo, rHi * rHi⟩, hueEnds hueLo hueHi] := by
    unfold uniformEnds; rw [hf]
  have e2 : (fun d : ℝ × ℝ × ℝ => cartCyl (uniformSample ty (draws3 d))) =
      Revolution.sampler kdeg id (fun _ => 1) ∘ Revolution.rot.symm := by
    funext d
    have : uniformSample ty (draws3 d) = [d.1, Scalar.sqrt d.2.1, hueSample d.2.2] := by
      unfold uniformSample draws3; rw [hf]
    rw [this]
    simp [cartCyl, Revolution.sampler, Revolution.rot_symm_apply, hueSample]
  rw [e1, e2, image_betweenCyl]
  simp only [drawBox, ← pow_two]
  obtain ⟨hb1, hb2⟩ := hue_box hh
  exact Revolution.sampler_uniform_hrh (F := id) (c := 1) kdeg_pos measurable_id measurable_const (by norm_num)
    (fun z _ => by simpa using hasDerivAt_id z) (fun z _ => one_pos) (fun z _ => zero_le_one)
    (fun z _ => rfl) (image_id _) hz hr0 hr hb1 hb2

/-- non-vacuity: an Lch range whose hue arc is a whole turn (0° → 360°) -/
example : Measure.map (fun d => cartCyl (uniformSample .Lch (draws3 d)))
      (volume[|drawBox (uniformEnds .Lch [20, 0, 0] [80, 100, 360])]) =
    volume[|cartCyl '' betweenCyl 20 0 0 80 100 360] :=
  cylinder_uniform_volume .Lch rfl 20 0 0 80 100 360 (by norm_num) (by norm_num) (by norm_num) (by norm_num)

/-- a three-component colour as a point -/
def cartBox : List ℝ → ℝ × ℝ × ℝ
  | [a, b, c] => (a, b, c)
  | _ => (0, 0, 0)

theorem box_ae_eq (l1 l2 l3 h1 h2 h3 : ℝ) :
    (Ico l1 h1 ×ˢ (Ico l2 h2 ×ˢ Ico l3 h3) : Set (ℝ × ℝ × ℝ)) =ᵐ[volume] Icc l1 h1 ×ˢ (Icc l2 h2 ×ˢ Icc l3 h3) :=
  Measure.set_prod_ae_eq (μ := (volume : Measure ℝ)) (ν := (volume : Measure (ℝ × ℝ))) Ico_ae_eq_Icc
    (Measure.set_prod_ae_eq (μ := (volume : Measure ℝ)) (ν := (volume : Measure ℝ)) Ico_ae_eq_Icc Ico_ae_eq_Icc)

/-- **`new_inclusive`**: the closed box of draws carries the same uniform distribution as the half-open one (they differ by a null set),
    so every statement of this file holds for the inclusive samplers as well -/
theorem cond_drawBoxIncl (i1 i2 i3 : Iv ℝ) : volume[|drawBoxIncl [i1, i2, i3]] = volume[|drawBox [i1, i2, i3]] :=
  (Revolution.cond_congr_ae (box_ae_eq _ _ _ _ _ _)).symm

/-- **the cartesian types with three components (Rgb, Lab, Luv, Xyz, Yxy, Lms, Oklab, Cam16UcsJab): the sample is the triple of draws**, so it is
    uniformly distributed on the box of all colours with every component between the ends -/
theorem cartesian_uniform_volume (ty : Ty) (hf : family ty = .cartesian) (l1 l2 l3 h1 h2 h3 : ℝ) :
    Measure.map (fun d => cartBox (uniformSample ty (draws3 d)))
        (volume[|drawBox (uniformEnds ty [l1, l2, l3] [h1, h2, h3])]) =
      volume[|Icc l1 h1 ×ˢ (Icc l2 h2 ×ˢ Icc l3 h3)] := by
  have e1 : uniformEnds ty [l1, l2, l3] [h1, h2, h3] = [⟨l1, h1⟩, ⟨l2, h2⟩, ⟨l3, h3⟩] := by unfold uniformEnds; rw [hf]; rfl
  have e2 : (fun d : ℝ × ℝ × ℝ => cartBox (uniformSample ty (draws3 d))) = id := by
    funext d
    have : uniformSample ty (draws3 d) = draws3 d := by unfold uniformSample; rw [hf]
    rw [this]; rfl
  rw [e1, e2, Measure.map_id]
  exact Revolution.cond_congr_ae (box_ae_eq _ _ _ _ _ _)

/-- Luma (one component): the sample is the draw; uniform on the interval between the ends -/
theorem luma_uniform (l h : ℝ) :
    uniformEnds .Luma [l] [h] = [⟨l, h⟩] ∧ (∀ d : ℝ, uniformSample .Luma [d] = [d]) ∧
      (volume : Measure ℝ)[|Ico l h] = volume[|Icc l h] :=
  ⟨rfl, fun _ => rfl, Revolution.cond_congr_ae Ico_ae_eq_Icc⟩

end C19
