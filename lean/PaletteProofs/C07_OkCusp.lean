/-
  C07 / C01 / C15 — **the cusp computation of `ok_utils.rs` on the whole hue circle** (`LC::max_saturation` with its one Halley step,
  `LC::find_cusp`, `ST::mid`), at ℝ, about the model functions the driver executes.

  For EVERY unit hue vector `(a, b)`:
  * the Halley denominator `f₁² − ½·f·f₂` of `max_saturation` (for the coefficient set its branch conditions select) is positive;
  * `1/8 < max_saturation(a, b) < 1`;
  * the largest linear-sRGB component of `Oklab(1, S·a, S·b)` is in `(1, 20)`, hence the cusp has `0.368 < L_cusp < 1`, `0 < C_cusp`,
    and `ST::from(cusp) = (S, T)` with `S = max_saturation`, `T > 0`;
  * both denominators of `ST::mid` are positive and `0.9·S_mid < max_saturation` (which makes `C_mid < C_max` below the cusp).

  Technique: the circle is covered by four quarter-turn sectors, each parametrised rationally by `t ∈ [−5/12, 5/12)`
  (`unit_param`); on 765 boxes of `t` the kernel evaluates the generic model code at the outward-rounded interval type `Fx.V`
  (`C07_OkCuspScan0..3`, `Lemmas/OkCuspEnclosure`, `Lemmas/IntervalFx`).  No hypothesis is left.

  NOT covered (precisely): `find_gamut_intersection` above the cusp (`L > L_cusp`): its three Halley denominators
  `r₁² − ½·r·r₂` (one per sRGB channel, functions of hue AND lightness) are not sign-definite — the channels that do not bound the
  gamut at a given hue have a derivative that changes sign — so they can vanish on curves in the (hue, L) plane; nothing is proved about
  them here (see `C07_FiniteOkArms` for the conditional statements).
-/
import PaletteProofs.C07_OkCuspScan0
import PaletteProofs.C07_OkCuspScan1
import PaletteProofs.C07_OkCuspScan2
import PaletteProofs.C07_OkCuspScan3
import PaletteProofs.Lemmas.CbrtReal
import PaletteProofs.RealAngle
import Mathlib.Tactic.FieldSimp

namespace OkCusp
open Ok Fx

/-! ### covering the circle -/

theorem circC_real (t : ℝ) : circC t = (1 - t * t) / (1 + t * t) := by unfold circC; norm_num
theorem circS_real (t : ℝ) : circS t = (2 * t) / (1 + t * t) := by unfold circS; norm_num

/-- a unit vector within 45° of the positive `a` axis is `(circC t, circS t)` for `t = b/(1 + a) ∈ [−5/12, 5/12)` -/
theorem param_core (a b : ℝ) (hu : a * a + b * b = 1) (hab : |b| ≤ a) :
    ∃ t : ℝ, -(5 / 12 : ℝ) ≤ t ∧ t < 5 / 12 ∧ circC t = a ∧ circS t = b := by
  have ha0 : 0 ≤ a := le_trans (abs_nonneg b) hab
  have hb2 : b * b ≤ a * a := by
    have := abs_mul_abs_self b
    nlinarith [abs_nonneg b]
  have ha : 119 / 169 < a := by
    by_contra hneg
    have : a ≤ 119 / 169 := not_lt.mp hneg
    nlinarith
  have h1a : 0 < 1 + a := by linarith
  refine ⟨b / (1 + a), ?_, ?_, ?_, ?_⟩
  · rw [le_div_iff₀ h1a]
    nlinarith
  · rw [div_lt_iff₀ h1a]
    nlinarith
  · rw [circC_real]
    have e1 : 1 + b / (1 + a) * (b / (1 + a)) = 2 / (1 + a) := by
      field_simp; nlinarith
    have e2 : 1 - b / (1 + a) * (b / (1 + a)) = 2 * a / (1 + a) := by
      field_simp; nlinarith
    rw [e1, e2]; field_simp
  · rw [circS_real]
    have e1 : 1 + b / (1 + a) * (b / (1 + a)) = 2 / (1 + a) := by
      field_simp; nlinarith
    rw [e1]; field_simp

/-- **every unit vector lies in one of the four sectors** -/
theorem unit_param (a b : ℝ) (hu : a * a + b * b = 1) :
    ∃ r : Nat, r < 4 ∧ ∃ t : ℝ, -(5 / 12 : ℝ) ≤ t ∧ t < 5 / 12 ∧ a = rotA r (circC t) (circS t) ∧ b = rotB r (circC t) (circS t) := by
  rcases le_total |b| |a| with h | h
  · rcases le_total 0 a with ha | ha
    · rw [abs_of_nonneg ha] at h
      obtain ⟨t, t0, t1, ec, es⟩ := param_core a b hu h
      exact ⟨0, by norm_num, t, t0, t1, by simp [rotA, ec], by simp [rotB, es]⟩
    · rw [abs_of_nonpos ha] at h
      obtain ⟨t, t0, t1, ec, es⟩ := param_core (-a) (-b) (by nlinarith) (by rw [abs_neg]; exact h)
      exact ⟨2, by norm_num, t, t0, t1, by simp [rotA, ec], by simp [rotB, es]⟩
  · rcases le_total 0 b with hb | hb
    · rw [abs_of_nonneg hb] at h
      obtain ⟨t, t0, t1, ec, es⟩ := param_core b (-a) (by nlinarith) (by rw [abs_neg]; exact h)
      exact ⟨1, by norm_num, t, t0, t1, by simp [rotA, es], by simp [rotB, ec]⟩
    · rw [abs_of_nonpos hb] at h
      obtain ⟨t, t0, t1, ec, es⟩ := param_core (-b) a (by nlinarith) h
      exact ⟨3, by norm_num, t, t0, t1, by simp [rotA, es], by simp [rotB, ec]⟩

/-- **the scanned facts hold for every unit hue vector** -/
theorem facts_of_unit (a b : ℝ) (hu : a * a + b * b = 1) : Facts a b := by
  obtain ⟨r, hr, t, t0, t1, ea, eb⟩ := unit_param a b hu
  rw [ea, eb]
  match r, hr with
  | 0, _ => exact OkCuspScan0.sector t t0 t1
  | 1, _ => exact OkCuspScan1.sector t t0 t1
  | 2, _ => exact OkCuspScan2.sector t t0 t1
  | 3, _ => exact OkCuspScan3.sector t t0 t1
  | n + 4, h => exact absurd h (by omega)

/-! ### what the facts say about the model functions -/

section consequences
variable (a b : ℝ) (hu : a * a + b * b = 1)

/-- the Halley denominator of the one step `max_saturation` performs, for the coefficient set its branch conditions select -/
noncomputable def halleyDen (a b : ℝ) : ℝ := (halleyFor (offsetOf (maxSaturationCase a b)) a b).den

/-- `max_saturation` is its quadratic guess corrected by `f·f₁ / halleyDen` -/
theorem maxSaturation_halley :
    maxSaturation a b = (halleyFor (offsetOf (maxSaturationCase a b)) a b).sat0
      - (halleyFor (offsetOf (maxSaturationCase a b)) a b).f * (halleyFor (offsetOf (maxSaturationCase a b)) a b).f1 / halleyDen a b := by
  rw [maxSaturation_eq]; rfl

theorem findCusp_eq : findCusp a b =
    ⟨Scalar.cbrt (1 / cuspMaxOf (maxSaturation a b) a b), Scalar.cbrt (1 / cuspMaxOf (maxSaturation a b) a b) * maxSaturation a b⟩ := by
  unfold findCusp cuspMaxOf
  simp only [RealScalar.max_eq]
  norm_num

include hu

/-- **the Halley denominator of `max_saturation` is positive for every hue** -/
theorem halleyDen_pos : 0 < halleyDen a b := (facts_of_unit a b hu).cs.den

/-- **`1/8 < max_saturation < 1` for every hue** -/
theorem maxSaturation_bounds : 1 / 8 < maxSaturation a b ∧ maxSaturation a b < 1 := by
  rw [maxSaturation_eq]
  exact ⟨(facts_of_unit a b hu).cs.sat_lo, (facts_of_unit a b hu).cs.sat_hi⟩

/-- the gamut maximum of `find_cusp` -/
theorem cuspMax_bounds : 1 < cuspMaxOf (maxSaturation a b) a b ∧ cuspMaxOf (maxSaturation a b) a b < 20 := by
  rw [maxSaturation_eq]
  exact ⟨(facts_of_unit a b hu).cs.mx, (facts_of_unit a b hu).cs.mx_hi⟩

/-- **the cusp of every hue has `0.368 < L_cusp < 1` and `0 < C_cusp`** -/
theorem findCusp_bounds : 368 / 1000 < (findCusp a b).lightness ∧ (findCusp a b).lightness < 1 ∧ 0 < (findCusp a b).chroma := by
  obtain ⟨m1, m2⟩ := cuspMax_bounds a b hu
  obtain ⟨s1, s2⟩ := maxSaturation_bounds a b hu
  rw [findCusp_eq a b]
  simp only
  set M := cuspMaxOf (maxSaturation a b) a b
  have hM0 : 0 < M := by linarith
  have h3 := CbrtReal.cbrt_cube (1 / M)
  have hlo : 368 / 1000 < Scalar.cbrt (1 / M) := by
    rw [← CbrtReal.cube_lt_cube, h3, lt_div_iff₀ hM0]
    nlinarith
  have hhi : Scalar.cbrt (1 / M) < 1 := by
    rw [← CbrtReal.cube_lt_cube, h3, div_lt_iff₀ hM0]
    nlinarith
  exact ⟨hlo, hhi, mul_pos (by linarith) (by linarith)⟩

/-- **`ST::from(cusp) = (S, T)` with `S = max_saturation ∈ (1/8, 1)` and `T > 0`** -/
theorem cuspST_bounds : (stOfLC (findCusp a b)).s = maxSaturation a b ∧ 1 / 8 < (stOfLC (findCusp a b)).s ∧ (stOfLC (findCusp a b)).s < 1 ∧
    0 < (stOfLC (findCusp a b)).t := by
  obtain ⟨l0, l1, c0⟩ := findCusp_bounds a b hu
  obtain ⟨s1, s2⟩ := maxSaturation_bounds a b hu
  have hS : (stOfLC (findCusp a b)).s = maxSaturation a b := by
    have hL : (findCusp a b).lightness ≠ 0 := by linarith
    have e := findCusp_eq a b
    show (findCusp a b).chroma / (findCusp a b).lightness = _
    rw [e] at hL ⊢
    simp only at hL ⊢
    rw [mul_comm, mul_div_assoc, div_self hL, mul_one]
  refine ⟨hS, by rw [hS]; exact s1, by rw [hS]; exact s2, ?_⟩
  show 0 < (findCusp a b).chroma / (1.0 - (findCusp a b).lightness)
  exact div_pos c0 (by norm_num; exact l1)

/-- **`ST::mid`: both denominators are positive**, so `S_mid > 0.115`, `T_mid > 0.112` -/
theorem stMid_bounds : 0 < stMidDenS a b ∧ 0 < stMidDenT a b ∧ 0 < (stMid a b).s ∧ 0 < (stMid a b).t := by
  have hs := (facts_of_unit a b hu).sden
  have ht := (facts_of_unit a b hu).tden
  refine ⟨hs, ht, ?_, ?_⟩
  · rw [stMid_eq]
    have e0 : (kAt Gen.Ok.stMid 0 : ℝ) = 0.11516993 := by
      simp only [kAt, Gen.Ok.stMid, List.getD_cons_zero, RealScalar.const_eq, RealScalar.eval_ofSci]
    simp only [e0]
    exact add_pos (by norm_num) (div_pos (by norm_num) hs)
  · rw [stMid_eq]
    have e0 : (kAt Gen.Ok.stMid 10 : ℝ) = 0.11239642 := by
      simp only [kAt, Gen.Ok.stMid, List.getD_cons_zero, List.getD_cons_succ, RealScalar.const_eq, RealScalar.eval_ofSci]
    simp only [e0]
    exact add_pos (by norm_num) (div_pos (by norm_num) ht)

/-- **`0.9·S_mid < S_cusp` for every hue** -/
theorem mid_lt_sat : 0.9 * (stMid a b).s < maxSaturation a b := by
  have h := (facts_of_unit a b hu).cs.mid
  rw [← maxSaturation_eq] at h
  have e : midBound a b = 0.9 * (stMid a b).s := by
    unfold midBound
    rw [stMid_eq]
    simp only [kAt, Gen.Ok.fromNormalized, List.getD_cons_zero, RealScalar.const_eq, RealScalar.eval_ofSci]
  rw [← e]; exact h

end consequences

end OkCusp
