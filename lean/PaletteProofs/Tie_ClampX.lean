/-
  Tie of the clamp / bounds model (`PaletteModel/Clamp.lean`, C03) to the text of `impl_clamp!` / `impl_is_within_bounds!` **at the six partial CAM16
  types** (`Cam16Jch`, `Cam16Jmh`, `Cam16Jsh`, `Cam16Qch`, `Cam16Qmh`, `Cam16Qsh`), which `Tie_Clamp.lean` listed as not translated because their
  invocations are written once, with `$name` / `$luminance` / `$chromaticity`, inside cam16/partial.rs `make_partial_cam16!`.

  `tools/extract.py` (`gen_bodies_more`, `tools/rust2lean_more.py`, family `clampx`) does the outer step on every run - it takes the `pub struct $name<T>`
  item and the inner invocations from the `macro_rules! make_partial_cam16` body as written now and substitutes the metavariables of every actual
  `make_partial_cam16!` invocation - and hands the result to the unchanged translator (`tools/rust_macros.py` expands `impl_clamp!` / `impl_is_within_bounds!`
  from macros/clamp.rs, `tools/rust2lean.py` lowers `fn clamp`, `fn clamp_assign`, `fn is_within_bounds`; lean/PaletteModel/Gen/BodiesClampX.lean).
  Each theorem states, for every `[Scalar α]`, that the translated body is `Clamp.clampAll` / `Clamp.withinAll` **at the bounds table written in the
  statement**: luminance-like and chromaticity-like component bounded from below by `T::zero()` only (`clamp_min`; `None` as upper bound), hue untouched.
  A seventh partial type, a changed bound (`[T::zero(), T::one()]`), `hue` moved out of `other`, or a changed macro arm is a broken obligation naming the type.

  NOT translated: header of Gen/BodiesClampX.lean (`Luma`: one component, `Cam16`: six - the lowering represents a colour as `V3 α`).
-/
import PaletteModel.Gen.BodiesClampX

set_option linter.unusedSimpArgs false

namespace Tie
variable {α : Type} [Scalar α]

/-! ### `Cam16Jch` (cam16/partial.rs `make_partial_cam16!`): fields ['lightness', 'chroma', 'hue'] -/
theorem tie_clampCam16Jch (c : V3 α) : (Gen.Body.clampCam16Jch c).toList = Clamp.clampAll c.toList [.minOnly 0.0, .minOnly 0.0, .untouched] := rfl
theorem tie_clampAssignCam16Jch (c : V3 α) : (Gen.Body.clampAssignCam16Jch c).toList = Clamp.clampAll c.toList [.minOnly 0.0, .minOnly 0.0, .untouched] := rfl
theorem tie_withinCam16Jch (c : V3 α) : Gen.Body.withinCam16Jch c = Clamp.withinAll c.toList [.minOnly 0.0, .minOnly 0.0, .untouched] := by
  simp only [Gen.Body.withinCam16Jch, V3.toList, Clamp.withinAll, Clamp.withinC, Bool.and_true, Bool.true_and, Bool.and_assoc]

/-! ### `Cam16Jmh` (cam16/partial.rs `make_partial_cam16!`): fields ['lightness', 'colorfulness', 'hue'] -/
theorem tie_clampCam16Jmh (c : V3 α) : (Gen.Body.clampCam16Jmh c).toList = Clamp.clampAll c.toList [.minOnly 0.0, .minOnly 0.0, .untouched] := rfl
theorem tie_clampAssignCam16Jmh (c : V3 α) : (Gen.Body.clampAssignCam16Jmh c).toList = Clamp.clampAll c.toList [.minOnly 0.0, .minOnly 0.0, .untouched] := rfl
theorem tie_withinCam16Jmh (c : V3 α) : Gen.Body.withinCam16Jmh c = Clamp.withinAll c.toList [.minOnly 0.0, .minOnly 0.0, .untouched] := by
  simp only [Gen.Body.withinCam16Jmh, V3.toList, Clamp.withinAll, Clamp.withinC, Bool.and_true, Bool.true_and, Bool.and_assoc]

/-! ### `Cam16Jsh` (cam16/partial.rs `make_partial_cam16!`): fields ['lightness', 'saturation', 'hue'] -/
theorem tie_clampCam16Jsh (c : V3 α) : (Gen.Body.clampCam16Jsh c).toList = Clamp.clampAll c.toList [.minOnly 0.0, .minOnly 0.0, .untouched] := rfl
theorem tie_clampAssignCam16Jsh (c : V3 α) : (Gen.Body.clampAssignCam16Jsh c).toList = Clamp.clampAll c.toList [.minOnly 0.0, .minOnly 0.0, .untouched] := rfl
theorem tie_withinCam16Jsh (c : V3 α) : Gen.Body.withinCam16Jsh c = Clamp.withinAll c.toList [.minOnly 0.0, .minOnly 0.0, .untouched] := by
  simp only [Gen.Body.withinCam16Jsh, V3.toList, Clamp.withinAll, Clamp.withinC, Bool.and_true, Bool.true_and, Bool.and_assoc]

/-! ### `Cam16Qch` (cam16/partial.rs `make_partial_cam16!`): fields ['brightness', 'chroma', 'hue'] -/
theorem tie_clampCam16Qch (c : V3 α) : (Gen.Body.clampCam16Qch c).toList = Clamp.clampAll c.toList [.minOnly 0.0, .minOnly 0.0, .untouched] := rfl
theorem tie_clampAssignCam16Qch (c : V3 α) : (Gen.Body.clampAssignCam16Qch c).toList = Clamp.clampAll c.toList [.minOnly 0.0, .minOnly 0.0, .untouched] := rfl
theorem tie_withinCam16Qch (c : V3 α) : Gen.Body.withinCam16Qch c = Clamp.withinAll c.toList [.minOnly 0.0, .minOnly 0.0, .untouched] := by
  simp only [Gen.Body.withinCam16Qch, V3.toList, Clamp.withinAll, Clamp.withinC, Bool.and_true, Bool.true_and, Bool.and_assoc]

/-! ### `Cam16Qmh` (cam16/partial.rs `make_partial_cam16!`): fields ['brightness', 'colorfulness', 'hue'] -/
theorem tie_clampCam16Qmh (c : V3 α) : (Gen.Body.clampCam16Qmh c).toList = Clamp.clampAll c.toList [.minOnly 0.0, .minOnly 0.0, .untouched] := rfl
theorem tie_clampAssignCam16Qmh (c : V3 α) : (Gen.Body.clampAssignCam16Qmh c).toList = Clamp.clampAll c.toList [.minOnly 0.0, .minOnly 0.0, .untouched] := rfl
theorem tie_withinCam16Qmh (c : V3 α) : Gen.Body.withinCam16Qmh c = Clamp.withinAll c.toList [.minOnly 0.0, .minOnly 0.0, .untouched] := by
  simp only [Gen.Body.withinCam16Qmh, V3.toList, Clamp.withinAll, Clamp.withinC, Bool.and_true, Bool.true_and, Bool.and_assoc]

/-! ### `Cam16Qsh` (cam16/partial.rs `make_partial_cam16!`): fields ['brightness', 'saturation', 'hue'] -/
theorem tie_clampCam16Qsh (c : V3 α) : (Gen.Body.clampCam16Qsh c).toList = Clamp.clampAll c.toList [.minOnly 0.0, .minOnly 0.0, .untouched] := rfl
theorem tie_clampAssignCam16Qsh (c : V3 α) : (Gen.Body.clampAssignCam16Qsh c).toList = Clamp.clampAll c.toList [.minOnly 0.0, .minOnly 0.0, .untouched] := rfl
theorem tie_withinCam16Qsh (c : V3 α) : Gen.Body.withinCam16Qsh c = Clamp.withinAll c.toList [.minOnly 0.0, .minOnly 0.0, .untouched] := by
  simp only [Gen.Body.withinCam16Qsh, V3.toList, Clamp.withinAll, Clamp.withinC, Bool.and_true, Bool.true_and, Bool.and_assoc]

end Tie
