/-
  C02 / C15 — HSLuv: the six boundary lines of `LuvBounds::from_lightness` ARE the loci "linear sRGB channel = 0 / = 1", and a colour
  with saturation `S ≤ 100` therefore lies inside the RGB gamut.  Everything is at ℝ, about the model functions the driver executes
  (`Cie.luvBounds`, `Cie.maxChroma`, `Cie.hsluvToLchuv`, `Cie.lchuvToLuv`, `Cie.luvToXyz`, `M3.mulVec` with `Gen.Mat.hsluvM`).

  Setting.  For a fixed lightness `L`, HSLuv's `Luv → XYZ → linear RGB` is projective-linear in `(u, v)`: with `U = u/(13L) + u′ₙ`,
  `V = v/(13L) + v′ₙ` and the row `(m0, m1, m2)` of `M`,

      channel = Y · ℓ(U, V) / (4V),        ℓ(U, V) = 9·m0·U + 4·m1·V + m2·(12 − 3U − 20V).

  The line the code builds for `(row, t)` is `v = slope·u + intercept` with `slope = top1/bottom`, `intercept = top2/bottom`; the
  division-free identity (`line_form`) is

      bottom · (slope·u + intercept − v) = 410969 · L · (Y·ℓ(U, V) − 4·t·V),          410969 = 13 · 31613,

  which is Boronine's derivation of `get_bounds` read backwards (`31613·(9, 3, 20, 4)`, `410969·u′ₙ = 81302`, `410969·v′ₙ = 192465`).
  `Y` is the code's `sub2` (HSLuv's own `Y(L)`, with HSLuv's 10-digit `κ`, `ε`); the model's `Luv → Xyz` uses CIE's exact `κ`, so
  its `Y` is `luvY L ≤ sub2 L` (equal above the toe, smaller by a factor `≥ 1 − 1.1e-10` inside it): the `= 0` loci coincide exactly,
  the `= 1` line is the locus `channel = luvY/sub2 ∈ [1 − 1.1e-10, 1]` of the model's own `Luv → Xyz` — containment is not affected.

  What is proved (details at each theorem):
  * `lines_are_channel_loci` (and `lines_are_model_channel_loci`, the same about `hM.mulVec (luvToXyz hsluvWhite ·)`): for every `L ∈ (0, 100)` (both branches of the `sub2` toe), every `(u, v)` of the `L`-plane with `v′ ≠ 0`
    and each of the six lines `k` of `luvBounds L`: `(u, v)` lies on line `k` ⇔ the linear sRGB channel `⌊k/2⌋` (HSLuv's `M`, HSLuv's
    white) equals `k mod 2`.  One exception, stated as a hypothesis and shown to be necessary: the `G = 1` line at the single lightness
    `L⋆ ≈ 81.807` where its `bottom` vanishes (the true locus is vertical there; in ℝ the model's `x/0 = 0` gives a junk line, in IEEE
    arithmetic `±inf`).
  * `hsluv_in_gamut`: `0 ≤ S ≤ 100`, `L ≤ 99.999`, every hue ⇒ all three channels of
    `M · luvToXyz(hsluvWhite, lchuvToLuv(hsluvToLchuv(H, S, L)))` are in `[0, 1]` — exactly, no tolerance, and no side condition on the
    code's extra `|denom| > 1e-6` filter (a skipped line is shown harmless through `maxChroma ≤ 16·L`, `|intercept| ≥ 1.6e-5·L`).
  * `hsluv_in_gamut_near_white`: the same for `99.999 ≤ L ≤ 99.9999999` (the reference's guard), also unconditionally: there the three
    `= 1` lines surround the neutral point at distance `∝ 1 − Y`, `maxChroma ≤ 4e-5·L·Q` and `|intercept| ≥ 1.2e-6·L·Q`,
    `Q = 769860·(1 − Y)`.  `hsluv_in_gamut_full` joins the two ranges.
  Not covered: `99.9999999 < L` (finding D5: the code lacks the reference's guard; at `L = 100` the hexagon degenerates to the neutral
  point and `row · white` exceeds 1 by `≤ 1e-14`), and the single lightness `L⋆`.
-/
import PaletteProofs.C15_Gamut
import Mathlib.Tactic.FieldSimp
import Mathlib.Tactic.Linarith
import Mathlib.Tactic.Positivity

namespace C02Hsluv
open Cie C15

/-! ## 1. `sub2`, the luminance `LuvBounds::from_lightness` works with -/

/-- the code's `sub2` (the `let` of `luvBounds`, verbatim) -/
noncomputable def sub2 (l : ℝ) : ℝ :=
  if (Scalar.const Gen.Mat.hsluvEpsilon : ℝ) < cube (l + 16.0) / 1560896.0 then cube (l + 16.0) / 1560896.0
  else l / Scalar.const Gen.Mat.hsluvKappa

/-- HSLuv's matrix as the model reads it -/
noncomputable def hM : M3 ℝ := M3.ofK Gen.Mat.hsluvM

/-- **the model's `luvBounds` is the list of the six `boundaryLine`s at `Y = sub2 L`** (definitional) -/
theorem luvBounds_eq (l : ℝ) :
    (luvBounds l : List (BoundaryLine ℝ)) =
      [boundaryLine hM.m0 hM.m1 hM.m2 l (sub2 l) 0.0, boundaryLine hM.m0 hM.m1 hM.m2 l (sub2 l) 1.0,
       boundaryLine hM.m3 hM.m4 hM.m5 l (sub2 l) 0.0, boundaryLine hM.m3 hM.m4 hM.m5 l (sub2 l) 1.0,
       boundaryLine hM.m6 hM.m7 hM.m8 l (sub2 l) 0.0, boundaryLine hM.m6 hM.m7 hM.m8 l (sub2 l) 1.0] := rfl

theorem sub2_eq (l : ℝ) :
    sub2 l = if (0.0088564516 : ℝ) < (l + 16) ^ 3 / 1560896 then (l + 16) ^ 3 / 1560896 else l / 903.2962962 := by
  unfold sub2
  simp only [C02Cie.cube_eq, Gen.Mat.hsluvEpsilon, Gen.Mat.hsluvKappa, RealScalar.const_eq, RealScalar.eval_ofSci]
  norm_num

theorem sub2_pos (l : ℝ) (hl : 0 < l) : 0 < sub2 l := by
  rw [sub2_eq]
  split_ifs
  · positivity
  · positivity

/-- `(l + 16)³` is increasing on `l ≥ 0` -/
theorem cube16_mono {a b : ℝ} (ha : 0 ≤ a) (hab : a ≤ b) : (a + 16) ^ 3 ≤ (b + 16) ^ 3 :=
  pow_le_pow_left₀ (by linarith) (by linarith) 3

/-- **the model's `Luv → Xyz` luminance never exceeds `sub2`**: equal above the toe; inside it CIE's exact `κ = (29/3)³` against
    HSLuv's `903.2962962`, and on the sliver `7.99999985 < L ≤ 8` the tangent line of the cube against the cube. -/
theorem luvY_le_sub2 (l : ℝ) (hl : 0 ≤ l) : C02Cie.luvY l ≤ sub2 l := by
  rw [C02Cie.luvY_eq, sub2_eq]
  by_cases h8 : l > 8
  · rw [if_pos h8]
    have : (0.0088564516 : ℝ) < (l + 16) ^ 3 / 1560896 := by
      have := cube16_mono (by norm_num : (0:ℝ) ≤ 8) h8.le
      rw [lt_div_iff₀ (by norm_num)]; norm_num at this ⊢; linarith
    rw [if_pos this]
    rw [div_pow]; norm_num
  · rw [if_neg h8]
    have h8' : l ≤ 8 := not_lt.mp h8
    split_ifs
    · -- tangent line: (l+16)³ − 1728·l − ... = (l − 8)²(l + 64) ≥ 0
      rw [le_div_iff₀ (by norm_num)]
      nlinarith [mul_nonneg (sq_nonneg (l - 8)) (by linarith : (0:ℝ) ≤ l + 64)]
    · rw [le_div_iff₀ (by norm_num)]
      nlinarith

theorem luvY_pos (l : ℝ) (hl : 0 < l) : 0 < C02Cie.luvY l := by
  rw [C02Cie.luvY_eq]; split_ifs <;> positivity

/-- … and is not smaller than `(1 − 1.1e-10)·sub2` (so the `= 1` line of `luvBounds` is the locus `channel ∈ [1 − 1.1e-10, 1]` of the
    model's own `Luv → Xyz`) -/
theorem sub2_le_luvY (l : ℝ) (hl : 0 ≤ l) : (1 - 1.1e-10) * sub2 l ≤ C02Cie.luvY l := by
  rw [C02Cie.luvY_eq, sub2_eq]
  by_cases h8 : l > 8
  · rw [if_pos h8]
    have : (0.0088564516 : ℝ) < (l + 16) ^ 3 / 1560896 := by
      have := cube16_mono (by norm_num : (0:ℝ) ≤ 8) h8.le
      rw [lt_div_iff₀ (by norm_num)]; norm_num at this ⊢; linarith
    rw [if_pos this]
    have hp : (0:ℝ) ≤ (l + 16) ^ 3 / 1560896 := by positivity
    have e : ((l + 16) / 116) ^ 3 = (l + 16) ^ 3 / 1560896 := by rw [div_pow]; norm_num
    rw [e]; nlinarith
  · rw [if_neg h8]
    have h8' : l ≤ 8 := not_lt.mp h8
    split_ifs with hs
    · -- the sliver: ε_h < (l+16)³/116³ with l ≤ 8 forces l > 7.9999998, where cube and tangent differ by < 3e-18
      have hl' : 7.9999998 < l := by
        by_contra hc
        have := cube16_mono hl (not_lt.mp hc)
        rw [lt_div_iff₀ (by norm_num)] at hs
        norm_num at this hs; linarith
      have h1 : (l + 16) ^ 3 / 1560896 = l * (3 / 29 : ℝ) ^ 3 + (l - 8) ^ 2 * (l + 64) / 1560896 := by ring
      rw [h1]
      have h2 : (l - 8) ^ 2 ≤ 4e-14 := by nlinarith
      have h3 : (l - 8) ^ 2 * (l + 64) / 1560896 ≤ 4e-14 * 72 / 1560896 := by
        apply div_le_div_of_nonneg_right _ (by norm_num)
        exact mul_le_mul h2 (by linarith) (by linarith) (by norm_num)
      nlinarith
    · have : l / 903.2962962 = l * (1 / 903.2962962) := by ring
      rw [this]; nlinarith

/-- upper bounds of `sub2` on the two lightness ranges of the containment theorems -/
theorem sub2_le_of_le (l c Ymax : ℝ) (hl : 0 < l) (hlc : l ≤ c) (h1 : (c + 16) ^ 3 / 1560896 ≤ Ymax) (h2 : c / 903.2962962 ≤ Ymax) :
    sub2 l ≤ Ymax := by
  rw [sub2_eq]
  split_ifs
  · refine le_trans ?_ h1
    exact div_le_div_of_nonneg_right (cube16_mono hl.le hlc) (by norm_num)
  · refine le_trans ?_ h2
    exact div_le_div_of_nonneg_right hlc (by norm_num)

theorem sub2_le_far (l : ℝ) (hl : 0 < l) (h : l ≤ 99.999) : sub2 l ≤ 0.99998 :=
  sub2_le_of_le l 99.999 _ hl h (by norm_num) (by norm_num)

theorem sub2_le_near (l : ℝ) (hl : 0 < l) (h : l ≤ 99.9999999) : sub2 l ≤ 1 - 2.5e-9 :=
  sub2_le_of_le l 99.9999999 _ hl h (by norm_num) (by norm_num)

theorem sub2_le_one (l : ℝ) (hl : 0 < l) (h : l ≤ 100) : sub2 l ≤ 1 :=
  sub2_le_of_le l 100 _ hl h (by norm_num) (by norm_num)

/-! ## 2. the division-free line identity and the loci -/

/-- the numerator of a channel: `channel = Y·ℓ(U, V)/(4V)` -/
def ell (m0 m1 m2 U V : ℝ) : ℝ := 9 * m0 * U + 4 * m1 * V + m2 * (12 - 3 * U - 20 * V)

theorem channel_eq_ell (m0 m1 m2 L Y u v : ℝ) (hv : v / (13 * L) + refV ≠ 0) :
    channel m0 m1 m2 L Y u v = Y * ell m0 m1 m2 (u / (13 * L) + refU) (v / (13 * L) + refV) / (4 * (v / (13 * L) + refV)) := by
  unfold channel ell
  generalize v / (13 * L) + refV = V at hv ⊢
  generalize u / (13 * L) + refU = U
  field_simp

/-- **the line identity, division-free** (slope and intercept of `boundaryLine` derived from `Luv → XYZ → linear RGB`):
    `bottom·(slope·u + intercept − v) = 410969·L·(Y·ℓ(U, V) − 4·t·V)`. -/
theorem line_form (m0 m1 m2 L Y t u v : ℝ) (hL : L ≠ 0) (hb : bottomOf m1 m2 Y t ≠ 0) :
    bottomOf m1 m2 Y t * ((boundaryLine m0 m1 m2 L Y t).slope * u + (boundaryLine m0 m1 m2 L Y t).intercept - v)
      = 410969 * L * (Y * ell m0 m1 m2 (u / (13 * L) + refU) (v / (13 * L) + refV) - 4 * t * (v / (13 * L) + refV)) := by
  have hs : (boundaryLine m0 m1 m2 L Y t).slope = (284517 * m0 - 94839 * m2) * Y / bottomOf m1 m2 Y t := by
    unfold boundaryLine bottomOf; norm_num
  have hi : (boundaryLine m0 m1 m2 L Y t).intercept
      = ((838422 * m2 + 769860 * m1 + 731718 * m0) * L * Y - 769860 * t * L) / bottomOf m1 m2 Y t := by
    unfold boundaryLine bottomOf; norm_num
  rw [hs, hi]
  unfold ell refU refV
  unfold bottomOf at hb ⊢
  field_simp
  ring

/-- non-vacuity: mid lightness, red row, the `= 1` line -/
example : (50 : ℝ) ≠ 0 ∧ bottomOf (-1.537383177570093 : ℝ) (-0.498610760293) 0.18 1 ≠ 0 := by
  unfold bottomOf; norm_num

/-- the numeric value of the model's matrix -/
theorem hM_val : hM = ⟨3.240969941904521, -1.537383177570093, -0.498610760293, -0.96924363628087, 1.87596750150772, 0.041555057407175,
    0.055630079696993, -0.20397695888897, 1.056971514242878⟩ := by
  simp only [hM, M3.ofK, Gen.Mat.hsluvM, RealScalar.const_eq, RealScalar.eval_neg, RealScalar.eval_ofSci]

theorem hM_eq : hM = M3.ofK Gen.Mat.hsluvM := rfl

-- from here on `hM` is opaque to the unifier (its entries are real literals; only `hM_val` looks inside)
attribute [irreducible] hM

theorem bottomOf_one (m1 m2 Y : ℝ) : bottomOf m1 m2 Y 1 = (632260 * m2 - 126452 * m1) * Y + 126452 := by unfold bottomOf; ring

/-- the `bottom`s of five of the six lines never vanish for `0 < Y ≤ 1`; the sixth (`G = 1`) vanishes at exactly one `Y` -/
theorem bottoms_ne_zero (Y : ℝ) (h0 : 0 < Y) (h1 : Y ≤ 1) :
    bottomOf hM.m1 hM.m2 Y 0 < 0 ∧ 0 < bottomOf hM.m1 hM.m2 Y 1 ∧ bottomOf hM.m4 hM.m5 Y 0 < 0 ∧
    0 < bottomOf hM.m7 hM.m8 Y 0 ∧ 0 < bottomOf hM.m7 hM.m8 Y 1 := by
  rw [hM_val]; unfold bottomOf; simp only
  refine ⟨?_, ?_, ?_, ?_, ?_⟩ <;> norm_num <;> nlinarith

/-- the `G = 1` line: `bottom = 0` exactly at `Y⋆ = 126452/(126452·m₁₁ − 632260·m₁₂) ≈ 0.59945`, i.e. at the single lightness
    `L⋆ ≈ 81.808`; outside `(81.80, 81.82)` it is non-zero -/
theorem greenOne_bottom_ne_zero (L : ℝ) (h0 : 0 < L) (h : L ≤ 81.80 ∨ 81.82 ≤ L) : bottomOf hM.m4 hM.m5 (sub2 L) 1 ≠ 0 := by
  have h8 : ∀ l : ℝ, 81 ≤ l → (0.0088564516 : ℝ) < (l + 16) ^ 3 / 1560896 := by
    intro l hl
    have := cube16_mono (by norm_num : (0:ℝ) ≤ 81) hl
    rw [lt_div_iff₀ (by norm_num)]; norm_num at this ⊢; linarith
  rw [hM_val]; unfold bottomOf; simp only
  rcases h with h | h
  · have : sub2 L ≤ 0.5993 := sub2_le_of_le L 81.80 _ h0 h (by norm_num) (by norm_num)
    have hp := sub2_pos L h0
    norm_num; nlinarith
  · have : 0.5996 ≤ sub2 L := by
      rw [sub2_eq, if_pos (h8 L (by linarith))]
      have := cube16_mono (by norm_num : (0:ℝ) ≤ 81.82) h
      rw [le_div_iff₀ (by norm_num)]; norm_num at this ⊢; linarith
    norm_num; nlinarith

/-- the exclusion is necessary: at `Y⋆` the `bottom` of the `G = 1` line is exactly 0 (the model's line is then `⟨0, 0⟩` by `x/0 = 0`) -/
theorem greenOne_bottom_zero : bottomOf hM.m4 hM.m5 (126452 / (126452 * hM.m4 - 632260 * hM.m5)) 1 = 0 := by
  rw [hM_val]; unfold bottomOf; norm_num

/-- **The six lines of `luvBounds L` are the loci "linear sRGB channel = 0 / = 1"**, `0 < L < 100` (both branches of the `sub2` toe):
    for every point `(u, v)` of the lightness plane with `v′ ≠ 0`, `(u, v)` is on line `2c + t` ⇔ channel `c` (row `c` of HSLuv's `M`
    applied to `Luv → XYZ` with HSLuv's white reference and `Y = sub2 L`) equals `t`.  `hG` excludes the single lightness `L⋆ ≈ 81.808`
    (`greenOne_bottom_ne_zero`, `greenOne_bottom_zero`) and only concerns the fourth line. -/
theorem lines_are_channel_loci (L u v : ℝ) (hL0 : 0 < L) (hL1 : L < 100) (hv : v / (13 * L) + refV ≠ 0) :
    ∃ r0 r1 g0 g1 b0 b1 : BoundaryLine ℝ, (luvBounds L : List (BoundaryLine ℝ)) = [r0, r1, g0, g1, b0, b1] ∧
      (v = r0.slope * u + r0.intercept ↔ channel hM.m0 hM.m1 hM.m2 L (sub2 L) u v = 0) ∧
      (v = r1.slope * u + r1.intercept ↔ channel hM.m0 hM.m1 hM.m2 L (sub2 L) u v = 1) ∧
      (v = g0.slope * u + g0.intercept ↔ channel hM.m3 hM.m4 hM.m5 L (sub2 L) u v = 0) ∧
      (bottomOf hM.m4 hM.m5 (sub2 L) 1 ≠ 0 → (v = g1.slope * u + g1.intercept ↔ channel hM.m3 hM.m4 hM.m5 L (sub2 L) u v = 1)) ∧
      (v = b0.slope * u + b0.intercept ↔ channel hM.m6 hM.m7 hM.m8 L (sub2 L) u v = 0) ∧
      (v = b1.slope * u + b1.intercept ↔ channel hM.m6 hM.m7 hM.m8 L (sub2 L) u v = 1) := by
  obtain ⟨hr0, hr1, hg0, hb0, hb1⟩ := bottoms_ne_zero (sub2 L) (sub2_pos L hL0) (sub2_le_one L hL0 hL1.le)
  have z : (0.0 : ℝ) = 0 := by norm_num
  have o : (1.0 : ℝ) = 1 := by norm_num
  refine ⟨_, _, _, _, _, _, luvBounds_eq L, ?_, ?_, ?_, ?_, ?_, ?_⟩
  · rw [z]; exact on_line_iff_channel_eq _ _ _ L _ 0 u v hL0.ne' hv hr0.ne
  · rw [o]; exact on_line_iff_channel_eq _ _ _ L _ 1 u v hL0.ne' hv hr1.ne'
  · rw [z]; exact on_line_iff_channel_eq _ _ _ L _ 0 u v hL0.ne' hv hg0.ne
  · intro hG; rw [o]; exact on_line_iff_channel_eq _ _ _ L _ 1 u v hL0.ne' hv hG
  · rw [z]; exact on_line_iff_channel_eq _ _ _ L _ 0 u v hL0.ne' hv hb0.ne'
  · rw [o]; exact on_line_iff_channel_eq _ _ _ L _ 1 u v hL0.ne' hv hb1.ne'

/-- non-vacuity: the neutral point of the mid-lightness plane -/
example : (0 : ℝ) < 50 ∧ (50 : ℝ) < 100 ∧ (0 : ℝ) / (13 * 50) + refV ≠ 0 := by unfold refV; norm_num

/-- the channel the loci speak about is the one the model's `Luv → Xyz` (HSLuv white) and `M` compute, up to the factor
    `luvY L / sub2 L ∈ [1 − 1.1e-10, 1]` (`= 1` for `L > 8`): `row · luvToXyz = (luvY/sub2) · channel(sub2)` -/
theorem model_channel_eq (m0 m1 m2 L u v : ℝ) (hL : 1e-5 ≤ L) (hv : v / (13 * L) + refV ≠ 0) :
    m0 * (luvToXyz hsluvWhite ⟨L, u, v⟩).c0 + m1 * (luvToXyz hsluvWhite ⟨L, u, v⟩).c1 + m2 * (luvToXyz hsluvWhite ⟨L, u, v⟩).c2
      = C02Cie.luvY L / sub2 L * channel m0 m1 m2 L (sub2 L) u v := by
  obtain ⟨w1, wu, wv, _, _⟩ := hsluvWhite_ref
  rw [channel_eq_row_luvToXyz m0 m1 m2 hsluvWhite w1 wu wv L u v hL hv, channel_eq_ell _ _ _ _ _ _ _ hv, channel_eq_ell _ _ _ _ _ _ _ hv]
  have hs := (sub2_pos L (by linarith)).ne'
  field_simp

/-- above the toe the two luminances coincide: `luvY L = sub2 L` for `L > 8` -/
theorem luvY_eq_sub2 (l : ℝ) (h : 8 < l) : C02Cie.luvY l = sub2 l := by
  rw [C02Cie.luvY_eq, sub2_eq, if_pos h]
  have : (0.0088564516 : ℝ) < (l + 16) ^ 3 / 1560896 := by
    have := cube16_mono (by norm_num : (0:ℝ) ≤ 8) h.le
    rw [lt_div_iff₀ (by norm_num)]; norm_num at this ⊢; linarith
  rw [if_pos this, div_pow]; norm_num

/-- **the loci in terms of the model's own `Luv → Xyz`** (`1e-5 ≤ L < 100`, HSLuv white, `v′ ≠ 0`): with `row c · luvToXyz` the linear
    sRGB channel `c` the model computes and `ρ = luvY L / sub2 L` (`= 1` for `L > 8` by `luvY_eq_sub2`, `∈ [1 − 1.1e-10, 1]` in the toe):
    on line `2c` ⇔ channel `c` `= 0`, on line `2c + 1` ⇔ channel `c` `= ρ`. -/
theorem lines_are_model_channel_loci (L u v : ℝ) (hL0 : 1e-5 ≤ L) (hL1 : L < 100) (hv : v / (13 * L) + refV ≠ 0) :
    ∃ r0 r1 g0 g1 b0 b1 : BoundaryLine ℝ, (luvBounds L : List (BoundaryLine ℝ)) = [r0, r1, g0, g1, b0, b1] ∧
      (v = r0.slope * u + r0.intercept ↔ (hM.mulVec (luvToXyz hsluvWhite ⟨L, u, v⟩)).c0 = 0) ∧
      (v = r1.slope * u + r1.intercept ↔ (hM.mulVec (luvToXyz hsluvWhite ⟨L, u, v⟩)).c0 = C02Cie.luvY L / sub2 L) ∧
      (v = g0.slope * u + g0.intercept ↔ (hM.mulVec (luvToXyz hsluvWhite ⟨L, u, v⟩)).c1 = 0) ∧
      (bottomOf hM.m4 hM.m5 (sub2 L) 1 ≠ 0 →
        (v = g1.slope * u + g1.intercept ↔ (hM.mulVec (luvToXyz hsluvWhite ⟨L, u, v⟩)).c1 = C02Cie.luvY L / sub2 L)) ∧
      (v = b0.slope * u + b0.intercept ↔ (hM.mulVec (luvToXyz hsluvWhite ⟨L, u, v⟩)).c2 = 0) ∧
      (v = b1.slope * u + b1.intercept ↔ (hM.mulVec (luvToXyz hsluvWhite ⟨L, u, v⟩)).c2 = C02Cie.luvY L / sub2 L) := by
  have hL : 0 < L := by linarith
  obtain ⟨r0, r1, g0, g1, b0, b1, hb, h0, h1, h2, h3, h4, h5⟩ := lines_are_channel_loci L u v hL hL1 hv
  have hρ : C02Cie.luvY L / sub2 L ≠ 0 := div_ne_zero (luvY_pos L hL).ne' (sub2_pos L hL).ne'
  have e0 : (hM.mulVec (luvToXyz hsluvWhite ⟨L, u, v⟩)).c0 = C02Cie.luvY L / sub2 L * channel hM.m0 hM.m1 hM.m2 L (sub2 L) u v :=
    model_channel_eq hM.m0 hM.m1 hM.m2 L u v hL0 hv
  have e1 : (hM.mulVec (luvToXyz hsluvWhite ⟨L, u, v⟩)).c1 = C02Cie.luvY L / sub2 L * channel hM.m3 hM.m4 hM.m5 L (sub2 L) u v :=
    model_channel_eq hM.m3 hM.m4 hM.m5 L u v hL0 hv
  have e2 : (hM.mulVec (luvToXyz hsluvWhite ⟨L, u, v⟩)).c2 = C02Cie.luvY L / sub2 L * channel hM.m6 hM.m7 hM.m8 L (sub2 L) u v :=
    model_channel_eq hM.m6 hM.m7 hM.m8 L u v hL0 hv
  have z : ∀ x : ℝ, C02Cie.luvY L / sub2 L * x = 0 ↔ x = 0 := fun x => by
    constructor
    · intro h; rcases mul_eq_zero.mp h with h | h; exact absurd h hρ; exact h
    · intro h; rw [h, mul_zero]
  have o : ∀ x : ℝ, C02Cie.luvY L / sub2 L * x = C02Cie.luvY L / sub2 L ↔ x = 1 := fun x => by
    constructor
    · intro h; exact mul_left_cancel₀ hρ (by rw [h, mul_one])
    · intro h; rw [h, mul_one]
  refine ⟨r0, r1, g0, g1, b0, b1, hb, ?_, ?_, ?_, ?_, ?_, ?_⟩
  · rw [e0, z]; exact h0
  · rw [e0, o]; exact h1
  · rw [e1, z]; exact h2
  · intro hG; rw [e1, o]; exact h3 hG
  · rw [e2, z]; exact h4
  · rw [e2, o]; exact h5

example : (1e-5 : ℝ) ≤ 50 ∧ (50 : ℝ) < 100 ∧ (0 : ℝ) / (13 * 50) + refV ≠ 0 := by unfold refV; norm_num

/-! ## 3. `C ≤ maxChroma` keeps the point of the hue ray on the neutral point's side of every line -/

/-- a point at distance `C ≥ 0` along the ray with `d = sin θ − slope·cos θ`, against the line with intercept `i`: it is on the
    origin's side (`(i − C·d)·i ≥ 0`) if the code's ray length `i/d`, where admissible (`|d| > 1e-6`, `i/d ≥ 0`), is at least `C`;
    a line the code *skips* (`|d| ≤ 1e-6`, nearly parallel to the ray) is harmless as long as `C·1e-6 ≤ |i|`. -/
theorem side_of_le (i d C : ℝ) (hC : 0 ≤ C)
    (h : (1e-6 < |d| ∧ (0 ≤ i / d → C ≤ i / d)) ∨ (|d| ≤ 1e-6 ∧ C * 1e-6 ≤ |i|)) : 0 ≤ (i - C * d) * i := by
  rcases h with ⟨hd, ht⟩ | ⟨hd, hi⟩
  · have hd0 : d ≠ 0 := by
      intro e; rw [e, abs_zero] at hd; norm_num at hd
    have hid : i * d = i / d * d ^ 2 := by field_simp
    by_cases h0 : 0 ≤ i / d
    · have e : (i - C * d) * i = (i / d - C) * (i * d) := by field_simp
      rw [e]
      exact mul_nonneg (by linarith [ht h0]) (by rw [hid]; positivity)
    · have hneg : i * d ≤ 0 := by
        rw [hid]; exact mul_nonpos_of_nonpos_of_nonneg (not_le.mp h0).le (by positivity)
      nlinarith [sq_nonneg i, mul_nonneg hC (neg_nonneg.mpr hneg)]
  · have h1 : C * d * i ≤ C * |d| * |i| := by
      calc C * d * i ≤ |C * d * i| := le_abs_self _
        _ = C * |d| * |i| := by rw [abs_mul, abs_mul, abs_of_nonneg hC]
    have h2 : C * |d| * |i| ≤ C * 1e-6 * |i| :=
      mul_le_mul_of_nonneg_right (mul_le_mul_of_nonneg_left hd hC) (abs_nonneg i)
    have h3 : C * 1e-6 * |i| ≤ |i| * |i| := mul_le_mul_of_nonneg_right hi (abs_nonneg i)
    have h4 : |i| * |i| = i * i := abs_mul_abs_self i
    have e : (i - C * d) * i = i * i - C * d * i := by ring
    rw [e]; linarith

theorem chromaStep_nonneg (θ acc : ℝ) (b : BoundaryLine ℝ) (h : 0 ≤ acc) : 0 ≤ chromaStep θ acc b := by
  unfold chromaStep
  simp only
  split_ifs with h1 h2
  · have := h2.1; norm_num at this; exact this
  · exact h
  · exact h

theorem foldl_chromaStep_nonneg (θ : ℝ) (bs : List (BoundaryLine ℝ)) (acc : ℝ) (h : 0 ≤ acc) : 0 ≤ bs.foldl (chromaStep θ) acc := by
  induction bs generalizing acc with
  | nil => exact h
  | cons b bs ih => exact ih _ (chromaStep_nonneg θ acc b h)

/-- **`max_chroma_at_hue ≥ 0`, every lightness and hue** (a minimum of non-negative ray lengths, starting from `f64::MAX`) -/
theorem maxChroma_nonneg (l h : ℝ) : 0 ≤ maxChroma l h := by
  unfold maxChroma maxChromaAtHue
  simp only [RealScalar.up_eq, RealScalar.down_eq]
  apply foldl_chromaStep_nonneg
  have e0 : (f64Max : ℝ) = 1.7976931348623157e308 := rfl
  rw [e0]; norm_num

/-- **every point of the hue ray up to `maxChroma` is on the neutral point's side of every boundary line** that the code does not skip;
    for a skipped line under the explicit condition `C·1e-6 ≤ |intercept|` -/
theorem inside_line (L H C : ℝ) (hC0 : 0 ≤ C) (hC : C ≤ maxChroma L H) (b : BoundaryLine ℝ) (hb : b ∈ luvBounds L)
    (hskip : |Real.sin (H * (Real.pi / 180)) - b.slope * Real.cos (H * (Real.pi / 180))| ≤ 1e-6 → C * 1e-6 ≤ |b.intercept|) :
    0 ≤ (b.slope * (C * Real.cos (H * (Real.pi / 180))) + b.intercept - C * Real.sin (H * (Real.pi / 180))) * b.intercept := by
  set θ := H * (Real.pi / 180) with hθ
  have e : b.slope * (C * Real.cos θ) + b.intercept - C * Real.sin θ = b.intercept - C * (Real.sin θ - b.slope * Real.cos θ) := by ring
  rw [e]
  apply side_of_le _ _ _ hC0
  by_cases hd : |Real.sin θ - b.slope * Real.cos θ| ≤ 1e-6
  · exact Or.inr ⟨hd, hskip hd⟩
  · refine Or.inl ⟨not_le.mp hd, fun ht => ?_⟩
    exact le_trans hC (C01Cie.maxChroma_le_ray L H b hb (not_le.mp hd) ht)

/-! ## 4. inside all six half-planes ⇒ `v′ > 0` and every channel in `[0, 1]` -/

/-- a sign statement about the line becomes one about the numerators: same side as the neutral point ⇒ `N(U, V)·N(u′ₙ, v′ₙ) ≥ 0`,
    `N = Y·ℓ − 4·t·V` -/
theorem side_to_numerators (m0 m1 m2 L Y t u v : ℝ) (hL : L ≠ 0) (hb : bottomOf m1 m2 Y t ≠ 0)
    (hside : 0 ≤ ((boundaryLine m0 m1 m2 L Y t).slope * u + (boundaryLine m0 m1 m2 L Y t).intercept - v) * (boundaryLine m0 m1 m2 L Y t).intercept) :
    0 ≤ (Y * ell m0 m1 m2 (u / (13 * L) + refU) (v / (13 * L) + refV) - 4 * t * (v / (13 * L) + refV))
        * (Y * ell m0 m1 m2 refU refV - 4 * t * refV) := by
  have e1 := line_form m0 m1 m2 L Y t u v hL hb
  have e0 := line_form m0 m1 m2 L Y t 0 0 hL hb
  simp only [zero_div, zero_add, mul_zero, sub_zero] at e0
  set B := bottomOf m1 m2 Y t
  set S := (boundaryLine m0 m1 m2 L Y t).slope
  set I := (boundaryLine m0 m1 m2 L Y t).intercept
  set N1 := Y * ell m0 m1 m2 (u / (13 * L) + refU) (v / (13 * L) + refV) - 4 * t * (v / (13 * L) + refV)
  set N0 := Y * ell m0 m1 m2 refU refV - 4 * t * refV
  have hpos : (0 : ℝ) < (410969 * L) ^ 2 := by positivity
  have h2 : (410969 * L) ^ 2 * (N1 * N0) = B ^ 2 * ((S * u + I - v) * I) := by
    have : (410969 * L) ^ 2 * (N1 * N0) = (410969 * L * N1) * (410969 * L * N0) := by ring
    rw [this, ← e1, ← e0]; ring
  have h3 : 0 ≤ (410969 * L) ^ 2 * (N1 * N0) := by rw [h2]; positivity
  exact (mul_nonneg_iff_of_pos_left hpos).mp h3

/-- cofactor identities: the luminance row and the `X/3 + 5Y + Z` combination of `M⁻¹`, written without inverting `M` -/
theorem cofactor_lum (m : M3 ℝ) (U V : ℝ) :
    (m.m5 * m.m6 - m.m3 * m.m8) * ell m.m0 m.m1 m.m2 U V + (m.m0 * m.m8 - m.m2 * m.m6) * ell m.m3 m.m4 m.m5 U V
      + (m.m2 * m.m3 - m.m0 * m.m5) * ell m.m6 m.m7 m.m8 U V
    = (m.m0 * (m.m4 * m.m8 - m.m5 * m.m7) - m.m1 * (m.m3 * m.m8 - m.m5 * m.m6) + m.m2 * (m.m3 * m.m7 - m.m4 * m.m6)) * (4 * V) := by
  unfold ell; ring

theorem cofactor_sum (m : M3 ℝ) (U V : ℝ) :
    ((m.m4 * m.m8 - m.m5 * m.m7) / 3 + 5 * (m.m5 * m.m6 - m.m3 * m.m8) + (m.m3 * m.m7 - m.m4 * m.m6)) * ell m.m0 m.m1 m.m2 U V
      + ((m.m2 * m.m7 - m.m1 * m.m8) / 3 + 5 * (m.m0 * m.m8 - m.m2 * m.m6) + (m.m1 * m.m6 - m.m0 * m.m7)) * ell m.m3 m.m4 m.m5 U V
      + ((m.m1 * m.m5 - m.m2 * m.m4) / 3 + 5 * (m.m2 * m.m3 - m.m0 * m.m5) + (m.m0 * m.m4 - m.m1 * m.m3)) * ell m.m6 m.m7 m.m8 U V
    = (m.m0 * (m.m4 * m.m8 - m.m5 * m.m7) - m.m1 * (m.m3 * m.m8 - m.m5 * m.m6) + m.m2 * (m.m3 * m.m7 - m.m4 * m.m6)) * 12 := by
  unfold ell; ring

/-- **all three channel numerators non-negative ⇒ `v′ > 0`** (the chromaticity lies in the triangle of the primaries, which is above
    the `u′` axis): `4·det(M)·V` is a positive combination of the `ℓ`s, and `12·det(M)` another one -/
theorem vprime_pos (U V : ℝ) (h0 : 0 ≤ ell hM.m0 hM.m1 hM.m2 U V) (h1 : 0 ≤ ell hM.m3 hM.m4 hM.m5 U V)
    (h2 : 0 ≤ ell hM.m6 hM.m7 hM.m8 U V) : 0 < V := by
  have a := cofactor_lum hM U V
  have b := cofactor_sum hM U V
  set l0 := ell hM.m0 hM.m1 hM.m2 U V
  set l1 := ell hM.m3 hM.m4 hM.m5 U V
  set l2 := ell hM.m6 hM.m7 hM.m8 U V
  rw [hM_val] at a b
  simp only at a b
  norm_num at a b
  by_contra hV
  have hV' : V ≤ 0 := not_lt.mp hV
  linarith

/-- the numerators at the neutral point: `ℓ(u′ₙ, v′ₙ) = 4·v′ₙ·(row · white)`, and `row · white ∈ [1, 1 + 1e-14]` for the three rows -/
theorem ell_white :
    4 * refV ≤ ell hM.m0 hM.m1 hM.m2 refU refV ∧ ell hM.m0 hM.m1 hM.m2 refU refV ≤ 4 * refV * (1 + 1e-14) ∧
    4 * refV ≤ ell hM.m3 hM.m4 hM.m5 refU refV ∧ ell hM.m3 hM.m4 hM.m5 refU refV ≤ 4 * refV * (1 + 1e-14) ∧
    4 * refV ≤ ell hM.m6 hM.m7 hM.m8 refU refV ∧ ell hM.m6 hM.m7 hM.m8 refU refV ≤ 4 * refV * (1 + 1e-14) := by
  rw [hM_val]; unfold ell refU refV; simp only
  refine ⟨?_, ?_, ?_, ?_, ?_, ?_⟩ <;> norm_num

/-- **one channel**: on the neutral point's side of its `= 0` and `= 1` lines, with `v′ > 0` ⇒ the channel computed with any luminance
    `0 < Ya ≤ Y` is in `[0, 1]` -/
theorem channel_in_unit (m0 m1 m2 L Y Ya u v : ℝ) (hL : 0 < L) (hY : 0 < Y) (hY1 : Y ≤ 1 - 2.5e-9) (hYa0 : 0 < Ya) (hYa : Ya ≤ Y)
    (hw0 : 4 * refV ≤ ell m0 m1 m2 refU refV) (hw1 : ell m0 m1 m2 refU refV ≤ 4 * refV * (1 + 1e-14))
    (hv : 0 < v / (13 * L) + refV)
    (hb0 : bottomOf m1 m2 Y 0 ≠ 0) (hb1 : bottomOf m1 m2 Y 1 ≠ 0)
    (hs0 : 0 ≤ ((boundaryLine m0 m1 m2 L Y 0).slope * u + (boundaryLine m0 m1 m2 L Y 0).intercept - v) * (boundaryLine m0 m1 m2 L Y 0).intercept)
    (hs1 : 0 ≤ ((boundaryLine m0 m1 m2 L Y 1).slope * u + (boundaryLine m0 m1 m2 L Y 1).intercept - v) * (boundaryLine m0 m1 m2 L Y 1).intercept) :
    0 ≤ channel m0 m1 m2 L Ya u v ∧ channel m0 m1 m2 L Ya u v ≤ 1 := by
  have n0 := side_to_numerators m0 m1 m2 L Y 0 u v hL.ne' hb0 hs0
  have n1 := side_to_numerators m0 m1 m2 L Y 1 u v hL.ne' hb1 hs1
  have hrv : (0 : ℝ) < refV := by unfold refV; norm_num
  set ℓ := ell m0 m1 m2 (u / (13 * L) + refU) (v / (13 * L) + refV)
  set V := v / (13 * L) + refV
  set w := ell m0 m1 m2 refU refV
  have hwpos : 0 < w := by linarith
  simp only [mul_zero, zero_mul, sub_zero] at n0
  -- ℓ ≥ 0
  have hl0 : 0 ≤ ℓ := by
    have h1 : 0 ≤ Y * ℓ := (mul_nonneg_iff_of_pos_right (mul_pos hY hwpos)).mp n0
    exact (mul_nonneg_iff_of_pos_left hY).mp h1
  -- Y·ℓ ≤ 4V
  have hneg : Y * w - 4 * 1 * refV < 0 := by nlinarith
  have hl1 : Y * ℓ - 4 * 1 * V ≤ 0 := by
    by_contra hc
    have := mul_neg_of_pos_of_neg (not_le.mp hc) hneg
    linarith
  rw [channel_eq_ell m0 m1 m2 L Ya u v hv.ne']
  have h4V : (0 : ℝ) < 4 * V := by positivity
  refine ⟨div_nonneg (mul_nonneg hYa0.le hl0) h4V.le, ?_⟩
  rw [div_le_one h4V]
  have : Ya * ℓ ≤ Y * ℓ := mul_le_mul_of_nonneg_right hYa hl0
  linarith

/-- the `= 0` half of `channel_in_unit`, needed first (it gives `v′ > 0`): on the neutral point's side of the `= 0` line ⇒ `ℓ ≥ 0` -/
theorem ell_nonneg_of_side (m0 m1 m2 L Y u v : ℝ) (hL : 0 < L) (hY : 0 < Y) (hw0 : 4 * refV ≤ ell m0 m1 m2 refU refV)
    (hb0 : bottomOf m1 m2 Y 0 ≠ 0)
    (hs0 : 0 ≤ ((boundaryLine m0 m1 m2 L Y 0).slope * u + (boundaryLine m0 m1 m2 L Y 0).intercept - v) * (boundaryLine m0 m1 m2 L Y 0).intercept) :
    0 ≤ ell m0 m1 m2 (u / (13 * L) + refU) (v / (13 * L) + refV) := by
  have n0 := side_to_numerators m0 m1 m2 L Y 0 u v hL.ne' hb0 hs0
  have hrv : (0 : ℝ) < refV := by unfold refV; norm_num
  have hwpos : 0 < ell m0 m1 m2 refU refV := by linarith
  simp only [mul_zero, zero_mul, sub_zero] at n0
  have h1 := (mul_nonneg_iff_of_pos_right (mul_pos hY hwpos)).mp n0
  exact (mul_nonneg_iff_of_pos_left hY).mp h1

/-! ## 5. `maxChroma ≤ 16·L`, so the code's `|denom| > 1e-6` filter never hides a line that matters (`L ≤ 99.999`) -/

/-- value of a `= 0` line: slope and `intercept/L` do not depend on the lightness -/
theorem line0_val (m0 m1 m2 L Y : ℝ) (hY : Y ≠ 0) (hc : 632260 * m2 - 126452 * m1 ≠ 0) :
    (boundaryLine m0 m1 m2 L Y 0).slope = (284517 * m0 - 94839 * m2) / (632260 * m2 - 126452 * m1) ∧
    (boundaryLine m0 m1 m2 L Y 0).intercept = L * ((838422 * m2 + 769860 * m1 + 731718 * m0) / (632260 * m2 - 126452 * m1)) := by
  unfold boundaryLine
  simp only
  constructor
  · norm_num; field_simp
  · norm_num; field_simp

/-- the three `= 0` lines (through pairs of primaries) surround the neutral point: every direction faces one of them squarely -/
theorem some_line_faces (σ0 σ1 σ2 c s : ℝ) (h0 : σ0 ≤ -8.02) (h1 : 1.325 ≤ σ1) (h2 : -0.1217 ≤ σ2 ∧ σ2 ≤ -0.1216)
    (hcs : c ^ 2 + s ^ 2 = 1) : s - σ0 * c ≤ -0.4 ∨ s - σ1 * c ≤ -0.4 ∨ 0.4 ≤ s - σ2 * c := by
  by_contra h
  push Not at h
  obtain ⟨a, b, d⟩ := h
  rcases le_or_gt 0 c with hc | hc
  · have p1 : 1.325 * c ≤ σ1 * c := mul_le_mul_of_nonneg_right h1 hc
    have p2 : σ2 * c ≤ -0.1216 * c := mul_le_mul_of_nonneg_right h2.2 hc
    have hc1 : c ≤ 0.56 := by linarith
    have hs1 : s ≤ 0.4 := by linarith
    have hs0 : -0.4 ≤ s := by linarith
    nlinarith [mul_nonneg hc (by linarith : (0:ℝ) ≤ 0.56 - c), mul_nonneg (by linarith : (0:ℝ) ≤ s + 0.4) (by linarith : (0:ℝ) ≤ 0.4 - s)]
  · have p0 : -8.02 * c ≤ σ0 * c := mul_le_mul_of_nonpos_right h0 hc.le
    have p2 : σ2 * c ≤ -0.1217 * c := mul_le_mul_of_nonpos_right h2.1 hc.le
    have hc1 : -0.102 ≤ c := by linarith
    have hs1 : s ≤ 0.413 := by linarith
    have hs0 : -0.4 ≤ s := by linarith
    nlinarith [mul_nonneg (by linarith : (0:ℝ) ≤ c + 0.102) (by linarith : (0:ℝ) ≤ -c),
      mul_nonneg (by linarith : (0:ℝ) ≤ s + 0.4) (by linarith : (0:ℝ) ≤ 0.413 - s)]

theorem ray_bound_neg (i d L : ℝ) (hi : -6.4 * L ≤ i) (hi0 : i ≤ 0) (hd : d ≤ -0.4) : 1e-6 < |d| ∧ 0 ≤ i / d ∧ i / d ≤ 16 * L := by
  have hd0 : d < 0 := by linarith
  refine ⟨?_, div_nonneg_of_nonpos hi0 hd0.le, ?_⟩
  · rw [abs_of_neg hd0]; linarith
  · rw [div_le_iff_of_neg hd0]; nlinarith

theorem ray_bound_pos (i d L : ℝ) (hi0 : 0 ≤ i) (hi : i ≤ 6.4 * L) (hd : 0.4 ≤ d) : 1e-6 < |d| ∧ 0 ≤ i / d ∧ i / d ≤ 16 * L := by
  have hd0 : 0 < d := by linarith
  refine ⟨?_, div_nonneg hi0 hd0.le, ?_⟩
  · rw [abs_of_pos hd0]; linarith
  · rw [div_le_iff₀ hd0]; nlinarith

/-- the constants of the three rows of HSLuv's `M` that the estimates use (all decided by `norm_num` on the extracted digits) -/
theorem row_consts :
    (632260 * hM.m2 - 126452 * hM.m1 < 0 ∧ -120847 ≤ 632260 * hM.m2 - 126452 * hM.m1 ∧
      (284517 * hM.m0 - 94839 * hM.m2) / (632260 * hM.m2 - 126452 * hM.m1) ≤ -8.02 ∧
      -6.38 ≤ (838422 * hM.m2 + 769860 * hM.m1 + 731718 * hM.m0) / (632260 * hM.m2 - 126452 * hM.m1) ∧
      (838422 * hM.m2 + 769860 * hM.m1 + 731718 * hM.m0) / (632260 * hM.m2 - 126452 * hM.m1) ≤ -6.37 ∧
      838422 * hM.m2 + 769860 * hM.m1 + 731718 * hM.m0 ≤ 769860.00000001) ∧
    (632260 * hM.m5 - 126452 * hM.m4 < 0 ∧ -210947 ≤ 632260 * hM.m5 - 126452 * hM.m4 ∧
      1.325 ≤ (284517 * hM.m3 - 94839 * hM.m5) / (632260 * hM.m5 - 126452 * hM.m4) ∧
      -3.66 ≤ (838422 * hM.m5 + 769860 * hM.m4 + 731718 * hM.m3) / (632260 * hM.m5 - 126452 * hM.m4) ∧
      (838422 * hM.m5 + 769860 * hM.m4 + 731718 * hM.m3) / (632260 * hM.m5 - 126452 * hM.m4) ≤ -3.64 ∧
      838422 * hM.m5 + 769860 * hM.m4 + 731718 * hM.m3 ≤ 769860.00000001) ∧
    (0 < 632260 * hM.m8 - 126452 * hM.m7 ∧ 632260 * hM.m8 - 126452 * hM.m7 ≤ 694075 ∧
      -0.1217 ≤ (284517 * hM.m6 - 94839 * hM.m8) / (632260 * hM.m8 - 126452 * hM.m7) ∧
      (284517 * hM.m6 - 94839 * hM.m8) / (632260 * hM.m8 - 126452 * hM.m7) ≤ -0.1216 ∧
      1.10 ≤ (838422 * hM.m8 + 769860 * hM.m7 + 731718 * hM.m6) / (632260 * hM.m8 - 126452 * hM.m7) ∧
      (838422 * hM.m8 + 769860 * hM.m7 + 731718 * hM.m6) / (632260 * hM.m8 - 126452 * hM.m7) ≤ 1.11 ∧
      838422 * hM.m8 + 769860 * hM.m7 + 731718 * hM.m6 ≤ 769860.00000001) := by
  rw [hM_val]; simp only
  refine ⟨⟨?_, ?_, ?_, ?_, ?_, ?_⟩, ⟨?_, ?_, ?_, ?_, ?_, ?_⟩, ⟨?_, ?_, ?_, ?_, ?_, ?_, ?_⟩⟩ <;> norm_num

theorem mem_luvBounds (l : ℝ) :
    boundaryLine hM.m0 hM.m1 hM.m2 l (sub2 l) 0.0 ∈ luvBounds l ∧ boundaryLine hM.m0 hM.m1 hM.m2 l (sub2 l) 1.0 ∈ luvBounds l ∧
    boundaryLine hM.m3 hM.m4 hM.m5 l (sub2 l) 0.0 ∈ luvBounds l ∧ boundaryLine hM.m3 hM.m4 hM.m5 l (sub2 l) 1.0 ∈ luvBounds l ∧
    boundaryLine hM.m6 hM.m7 hM.m8 l (sub2 l) 0.0 ∈ luvBounds l ∧ boundaryLine hM.m6 hM.m7 hM.m8 l (sub2 l) 1.0 ∈ luvBounds l := by
  rw [luvBounds_eq]; simp

theorem maxChroma_le_of_line (L H : ℝ) (b : BoundaryLine ℝ) (hb : b ∈ luvBounds L)
    (h : 1e-6 < |Real.sin (H * (Real.pi / 180)) - b.slope * Real.cos (H * (Real.pi / 180))| ∧
      0 ≤ b.intercept / (Real.sin (H * (Real.pi / 180)) - b.slope * Real.cos (H * (Real.pi / 180))) ∧
      b.intercept / (Real.sin (H * (Real.pi / 180)) - b.slope * Real.cos (H * (Real.pi / 180))) ≤ 16 * L) : maxChroma L H ≤ 16 * L := by
  have := C01Cie.maxChroma_le_ray L H b hb h.1 (by unfold C01Cie.rayLen; exact h.2.1)
  unfold C01Cie.rayLen at this
  exact le_trans this h.2.2

/-- **`max_chroma_at_hue(L, h) ≤ 16·L` for every hue** (`L > 0`): the hue ray meets one of the three `= 0` lines at an angle with
    `|denom| ≥ 0.4`, at a distance `≤ 6.4·L/0.4` -/
theorem maxChroma_le (L H : ℝ) (hL : 0 < L) : maxChroma L H ≤ 16 * L := by
  obtain ⟨⟨a1, _, a3, a4, a5, _⟩, ⟨b1, _, b3, b4, b5, _⟩, ⟨c1, _, c3, c4, c5, c6, _⟩⟩ := row_consts
  have hY := (sub2_pos L hL).ne'
  have z : (0.0 : ℝ) = 0 := by norm_num
  obtain ⟨m0, _, m2, _, m4, _⟩ := mem_luvBounds L
  rw [z] at m0 m2 m4
  obtain ⟨s0, i0⟩ := line0_val hM.m0 hM.m1 hM.m2 L (sub2 L) hY a1.ne
  obtain ⟨s1, i1⟩ := line0_val hM.m3 hM.m4 hM.m5 L (sub2 L) hY b1.ne
  obtain ⟨s2, i2⟩ := line0_val hM.m6 hM.m7 hM.m8 L (sub2 L) hY c1.ne'
  have hcs : Real.cos (H * (Real.pi / 180)) ^ 2 + Real.sin (H * (Real.pi / 180)) ^ 2 = 1 := Real.cos_sq_add_sin_sq _
  rcases some_line_faces _ _ _ (Real.cos (H * (Real.pi / 180))) (Real.sin (H * (Real.pi / 180))) a3 b3 ⟨c3, c4⟩ hcs with h | h | h
  · apply maxChroma_le_of_line L H _ m0
    rw [s0, i0]
    exact ray_bound_neg _ _ L (by nlinarith [mul_nonneg hL.le (by linarith : (0:ℝ) ≤ (838422 * hM.m2 + 769860 * hM.m1 + 731718 * hM.m0) / (632260 * hM.m2 - 126452 * hM.m1) + 6.38)])
      (mul_nonpos_of_nonneg_of_nonpos hL.le (by linarith)) h
  · apply maxChroma_le_of_line L H _ m2
    rw [s1, i1]
    exact ray_bound_neg _ _ L (by nlinarith [mul_nonneg hL.le (by linarith : (0:ℝ) ≤ (838422 * hM.m5 + 769860 * hM.m4 + 731718 * hM.m3) / (632260 * hM.m5 - 126452 * hM.m4) + 3.66)])
      (mul_nonpos_of_nonneg_of_nonpos hL.le (by linarith)) h
  · apply maxChroma_le_of_line L H _ m4
    rw [s2, i2]
    exact ray_bound_pos _ _ L (mul_nonneg hL.le (by linarith))
      (by nlinarith [mul_nonneg hL.le (by linarith : (0:ℝ) ≤ 1.11 - (838422 * hM.m8 + 769860 * hM.m7 + 731718 * hM.m6) / (632260 * hM.m8 - 126452 * hM.m7))]) h

/-- a `= 0` line is at distance `≥ 1.1·L/√(1+slope²)` from the neutral point: `|intercept| ≥ 1.1·L` -/
theorem intercept0_big (m0 m1 m2 L Y ι : ℝ) (hL : 0 < L) (hY : Y ≠ 0) (hc : 632260 * m2 - 126452 * m1 ≠ 0)
    (hι : (838422 * m2 + 769860 * m1 + 731718 * m0) / (632260 * m2 - 126452 * m1) = ι) (hbig : 1.1 ≤ |ι|) :
    1.1 * L ≤ |(boundaryLine m0 m1 m2 L Y 0).intercept| := by
  rw [(line0_val m0 m1 m2 L Y hY hc).2, hι, abs_mul, abs_of_pos hL]
  nlinarith

/-- a `= 1` line stays at `|intercept| ≥ 1.6e-5·L` as long as `Y ≤ 0.99998` (`L ≤ 99.999`); it reaches the neutral point at `Y = 1` -/
theorem intercept1_big (m0 m1 m2 L Y : ℝ) (hL : 0 < L) (hY0 : 0 < Y) (hY : Y ≤ 0.99998)
    (hc1 : 838422 * m2 + 769860 * m1 + 731718 * m0 ≤ 769860.00000001)
    (hB : |(632260 * m2 - 126452 * m1) * Y + 126452| ≤ 820527) (hb : (632260 * m2 - 126452 * m1) * Y + 126452 ≠ 0) :
    1.6e-5 * L ≤ |(boundaryLine m0 m1 m2 L Y 1).intercept| := by
  have e : (boundaryLine m0 m1 m2 L Y 1).intercept
      = L * ((838422 * m2 + 769860 * m1 + 731718 * m0) * Y - 769860) / ((632260 * m2 - 126452 * m1) * Y + 126452) := by
    unfold boundaryLine; norm_num; ring
  rw [e, abs_div, le_div_iff₀ (abs_pos.mpr hb)]
  have hneg : (838422 * m2 + 769860 * m1 + 731718 * m0) * Y - 769860 ≤ -15.39 := by nlinarith
  rw [abs_mul, abs_of_pos hL, abs_of_nonpos (show (838422 * m2 + 769860 * m1 + 731718 * m0) * Y - 769860 ≤ 0 by linarith)]
  have hBn : 0 ≤ |(632260 * m2 - 126452 * m1) * Y + 126452| := abs_nonneg _
  nlinarith [mul_nonneg hL.le hBn, mul_le_mul_of_nonneg_left hB hL.le, mul_le_mul_of_nonneg_left hneg hL.le]

theorem bottom1_abs (c2 Y : ℝ) (hY0 : 0 < Y) (hY1 : Y ≤ 1) (hlo : -210947 ≤ c2) (hhi : c2 ≤ 694075) : |c2 * Y + 126452| ≤ 820527 := by
  have h1 := mul_le_mul_of_nonneg_right hlo hY0.le
  have h2 := mul_le_mul_of_nonneg_right hhi hY0.le
  rw [abs_le]; constructor <;> nlinarith

theorem intercepts0_big (L : ℝ) (hL : 0 < L) :
    1.1 * L ≤ |(boundaryLine hM.m0 hM.m1 hM.m2 L (sub2 L) 0).intercept| ∧ 1.1 * L ≤ |(boundaryLine hM.m3 hM.m4 hM.m5 L (sub2 L) 0).intercept| ∧
    1.1 * L ≤ |(boundaryLine hM.m6 hM.m7 hM.m8 L (sub2 L) 0).intercept| := by
  have hY := (sub2_pos L hL).ne'
  obtain ⟨⟨a1, _, _, _, a5, _⟩, ⟨b1, _, _, _, b5, _⟩, ⟨c1, _, _, _, c5, _, _⟩⟩ := row_consts
  refine ⟨?_, ?_, ?_⟩
  · refine intercept0_big hM.m0 hM.m1 hM.m2 L (sub2 L) _ hL hY a1.ne rfl ?_
    rw [abs_of_nonpos (le_trans a5 (by norm_num))]; linarith
  · refine intercept0_big hM.m3 hM.m4 hM.m5 L (sub2 L) _ hL hY b1.ne rfl ?_
    rw [abs_of_nonpos (le_trans b5 (by norm_num))]; linarith
  · refine intercept0_big hM.m6 hM.m7 hM.m8 L (sub2 L) _ hL hY c1.ne' rfl ?_
    rw [abs_of_nonneg (le_trans (by norm_num) c5)]; linarith

/-- **every boundary line stays at `|intercept| ≥ 1.6e-5·L`** for `0 < L ≤ 99.999` -/
theorem intercepts_big (L : ℝ) (hL : 0 < L) (hL1 : L ≤ 99.999) (hG1 : bottomOf hM.m4 hM.m5 (sub2 L) 1 ≠ 0) :
    ∀ b ∈ luvBounds L, 1.6e-5 * L ≤ |b.intercept| := by
  have hY := sub2_pos L hL
  have hYf := sub2_le_far L hL hL1
  have hY1 : sub2 L ≤ 1 := by linarith
  obtain ⟨_, hr1, _, _, hb1⟩ := bottoms_ne_zero (sub2 L) hY hY1
  obtain ⟨⟨a1, a2, _, _, _, a6⟩, ⟨b1, b2, _, _, _, b6⟩, ⟨c1, c2, _, _, _, _, c7⟩⟩ := row_consts
  obtain ⟨i0, i1, i2⟩ := intercepts0_big L hL
  rw [bottomOf_one] at hr1 hb1 hG1
  have z : (0.0 : ℝ) = 0 := by norm_num
  have o : (1.0 : ℝ) = 1 := by norm_num
  have hsmall : 1.6e-5 * L ≤ 1.1 * L := by nlinarith
  intro b hb
  rw [luvBounds_eq, z, o] at hb
  simp only [List.mem_cons, List.mem_nil_iff, or_false] at hb
  rcases hb with rfl | rfl | rfl | rfl | rfl | rfl
  · exact le_trans hsmall i0
  · exact intercept1_big hM.m0 hM.m1 hM.m2 L (sub2 L) hL hY hYf a6
      (bottom1_abs _ _ hY hY1 (by linarith) (by linarith)) hr1.ne'
  · exact le_trans hsmall i1
  · exact intercept1_big hM.m3 hM.m4 hM.m5 L (sub2 L) hL hY hYf b6
      (bottom1_abs _ _ hY hY1 (by linarith) (by linarith)) hG1
  · exact le_trans hsmall i2
  · exact intercept1_big hM.m6 hM.m7 hM.m8 L (sub2 L) hL hY hYf c7
      (bottom1_abs _ _ hY hY1 (by linarith) (by linarith)) hb1.ne'

/-! ## 6. containment -/

theorem hsluvToLchuv_val (H S L : ℝ) : hsluvToLchuv (⟨H, S, L⟩ : V3 ℝ) = ⟨L, S * maxChroma L H * 0.01, H⟩ := rfl

theorem lchuvToLuv_val (L C H : ℝ) (hC : 0 ≤ C) :
    lchuvToLuv (⟨L, C, H⟩ : V3 ℝ) = ⟨L, C * Real.cos (H * (Real.pi / 180)), C * Real.sin (H * (Real.pi / 180))⟩ := by
  simp only [lchuvToLuv, RealScalar.degToRad_eq, RealScalar.max_eq, RealScalar.cos_eq, RealScalar.sin_eq]
  rw [max_eq_left (by norm_num; exact hC)]

theorem chroma_bounds (H S L : ℝ) (hS0 : 0 ≤ S) (hS : S ≤ 100) :
    0 ≤ S * maxChroma L H * 0.01 ∧ S * maxChroma L H * 0.01 ≤ maxChroma L H := by
  have hmc := maxChroma_nonneg L H
  refine ⟨mul_nonneg (mul_nonneg hS0 hmc) (by norm_num), ?_⟩
  have : S * maxChroma L H ≤ 100 * maxChroma L H := mul_le_mul_of_nonneg_right hS hmc
  norm_num; linarith

/-- **the geometric core**: a point of the lightness plane `1e-5 ≤ L ≤ 99.9999999` on the neutral point's side of all six lines of
    `luvBounds L` has all three linear sRGB channels (HSLuv's `M` on the model's `Luv → Xyz` with HSLuv's white) in `[0, 1]` -/
theorem inside_all_in_gamut (L u v : ℝ) (hL0 : 1e-5 ≤ L) (hL1 : L ≤ 99.9999999) (hG1 : bottomOf hM.m4 hM.m5 (sub2 L) 1 ≠ 0)
    (hside : ∀ b ∈ luvBounds L, 0 ≤ (b.slope * u + b.intercept - v) * b.intercept) :
    let rgb := hM.mulVec (luvToXyz hsluvWhite ⟨L, u, v⟩)
    0 ≤ rgb.c0 ∧ rgb.c0 ≤ 1 ∧ 0 ≤ rgb.c1 ∧ rgb.c1 ≤ 1 ∧ 0 ≤ rgb.c2 ∧ rgb.c2 ≤ 1 := by
  have hL : 0 < L := by linarith
  have hY := sub2_pos L hL
  have hY1 := sub2_le_near L hL hL1
  have hYle : sub2 L ≤ 1 := by linarith
  obtain ⟨hr0, hr1, hg0, hb0, hb1⟩ := bottoms_ne_zero (sub2 L) hY hYle
  obtain ⟨w0, w0', w1, w1', w2, w2'⟩ := ell_white
  obtain ⟨q0, q1, q2, q3, q4, q5⟩ := mem_luvBounds L
  have z : (0.0 : ℝ) = 0 := by norm_num
  have o : (1.0 : ℝ) = 1 := by norm_num
  rw [z] at q0 q2 q4
  rw [o] at q1 q3 q5
  have l0 := ell_nonneg_of_side hM.m0 hM.m1 hM.m2 L (sub2 L) u v hL hY w0 hr0.ne (hside _ q0)
  have l1 := ell_nonneg_of_side hM.m3 hM.m4 hM.m5 L (sub2 L) u v hL hY w1 hg0.ne (hside _ q2)
  have l2 := ell_nonneg_of_side hM.m6 hM.m7 hM.m8 L (sub2 L) u v hL hY w2 hb0.ne' (hside _ q4)
  have hv := vprime_pos _ _ l0 l1 l2
  have hYa0 := luvY_pos L hL
  have hYa := luvY_le_sub2 L hL.le
  have c0 := channel_in_unit hM.m0 hM.m1 hM.m2 L (sub2 L) (C02Cie.luvY L) u v hL hY hY1 hYa0 hYa w0 w0' hv hr0.ne hr1.ne' (hside _ q0) (hside _ q1)
  have c1 := channel_in_unit hM.m3 hM.m4 hM.m5 L (sub2 L) (C02Cie.luvY L) u v hL hY hY1 hYa0 hYa w1 w1' hv hg0.ne hG1 (hside _ q2) (hside _ q3)
  have c2 := channel_in_unit hM.m6 hM.m7 hM.m8 L (sub2 L) (C02Cie.luvY L) u v hL hY hY1 hYa0 hYa w2 w2' hv hb0.ne' hb1.ne' (hside _ q4) (hside _ q5)
  obtain ⟨e1, eu, ev, _, _⟩ := hsluvWhite_ref
  rw [← channel_eq_row_luvToXyz hM.m0 hM.m1 hM.m2 hsluvWhite e1 eu ev L u v hL0 hv.ne'] at c0
  rw [← channel_eq_row_luvToXyz hM.m3 hM.m4 hM.m5 hsluvWhite e1 eu ev L u v hL0 hv.ne'] at c1
  rw [← channel_eq_row_luvToXyz hM.m6 hM.m7 hM.m8 hsluvWhite e1 eu ev L u v hL0 hv.ne'] at c2
  exact ⟨c0.1, c0.2, c1.1, c1.2, c2.1, c2.2⟩

/-- **HSLuv containment with the code's filter made explicit** (`1e-5 ≤ L ≤ 99.9999999`, the reference's upper guard): `0 ≤ S ≤ 100`
    ⇒ all three channels in `[0, 1]`, provided every boundary line the code *skips* for this hue (`|sin θ − slope·cos θ| ≤ 1e-6`, nearly
    parallel to the hue ray) is far enough for that not to matter (`C·1e-6 ≤ |intercept|`).  `hsluv_in_gamut` below discharges the
    proviso for `L ≤ 99.999`. -/
theorem hsluv_in_gamut_of_skip (H S L : ℝ) (hS0 : 0 ≤ S) (hS : S ≤ 100) (hL0 : 1e-5 ≤ L) (hL1 : L ≤ 99.9999999)
    (hG1 : bottomOf hM.m4 hM.m5 (sub2 L) 1 ≠ 0)
    (hskip : ∀ b ∈ luvBounds L, |Real.sin (H * (Real.pi / 180)) - b.slope * Real.cos (H * (Real.pi / 180))| ≤ 1e-6 →
      (hsluvToLchuv ⟨H, S, L⟩).c1 * 1e-6 ≤ |b.intercept|) :
    let rgb := hM.mulVec (luvToXyz hsluvWhite (lchuvToLuv (hsluvToLchuv ⟨H, S, L⟩)))
    0 ≤ rgb.c0 ∧ rgb.c0 ≤ 1 ∧ 0 ≤ rgb.c1 ∧ rgb.c1 ≤ 1 ∧ 0 ≤ rgb.c2 ∧ rgb.c2 ≤ 1 := by
  obtain ⟨hC0, hC⟩ := chroma_bounds H S L hS0 hS
  rw [hsluvToLchuv_val] at hskip ⊢
  rw [lchuvToLuv_val L _ H hC0]
  exact inside_all_in_gamut L _ _ hL0 hL1 hG1 (fun b hb => inside_line L H _ hC0 hC b hb (hskip b hb))

/-- **HSLuv: bounded saturation ⇒ inside the sRGB gamut, exactly** (C15, HSLuv's own pipeline).  For every hue `H`, every
    `0 ≤ S ≤ 100` and every lightness `L ≤ 99.999` other than the single `L⋆ ≈ 81.808` excluded by `hG1`
    (`greenOne_bottom_ne_zero` shows `hG1` for `L ∉ (81.80, 81.82)`), the colour `Hsluv(H, S, L) → Lchuv → Luv → Xyz` (HSLuv's white)
    has all three linear sRGB channels (HSLuv's `M`) in `[0, 1]`.  No tolerance, and no assumption about the code's extra
    `|denom| > 1e-6` filter: `maxChroma ≤ 16·L` (`maxChroma_le`) and `|intercept| ≥ 1.6e-5·L` make a skipped line harmless.
    Below the cutoff `L < 1e-5` of `Luv → Xyz` the result is black. -/
theorem hsluv_in_gamut (H S L : ℝ) (hS0 : 0 ≤ S) (hS : S ≤ 100) (hL1 : L ≤ 99.999)
    (hG1 : 1e-5 ≤ L → bottomOf hM.m4 hM.m5 (sub2 L) 1 ≠ 0) :
    let rgb := hM.mulVec (luvToXyz hsluvWhite (lchuvToLuv (hsluvToLchuv ⟨H, S, L⟩)))
    0 ≤ rgb.c0 ∧ rgb.c0 ≤ 1 ∧ 0 ≤ rgb.c1 ∧ rgb.c1 ≤ 1 ∧ 0 ≤ rgb.c2 ∧ rgb.c2 ≤ 1 := by
  by_cases hL0 : L < 1e-5
  · have e : ∀ c : V3 ℝ, c.c0 = L → luvToXyz hsluvWhite c = ⟨0, 0, 0⟩ := fun c hc => C02Cie.luvToXyz_of_lt _ _ (by rw [hc]; exact hL0)
    obtain ⟨hC0, _⟩ := chroma_bounds H S L hS0 hS
    rw [hsluvToLchuv_val, lchuvToLuv_val L _ H hC0, e _ rfl]
    simp only [M3.mulVec, mul_zero, add_zero]
    norm_num
  · have hL0' : 1e-5 ≤ L := not_lt.mp hL0
    have hL : 0 < L := by linarith
    apply hsluv_in_gamut_of_skip H S L hS0 hS hL0' (by linarith) (hG1 hL0')
    intro b hb _
    obtain ⟨_, hC⟩ := chroma_bounds H S L hS0 hS
    rw [hsluvToLchuv_val]
    have hC16 : S * maxChroma L H * 0.01 * 1e-6 ≤ 1.6e-5 * L := by
      have := maxChroma_le L H hL
      nlinarith
    exact le_trans hC16 (intercepts_big L hL hL1 (hG1 hL0') b hb)

/-- non-vacuity of `hsluv_in_gamut`: mid lightness satisfies `hG1`, full saturation is admitted -/
example : (0 : ℝ) ≤ 100 ∧ (100 : ℝ) ≤ 100 ∧ (50 : ℝ) ≤ 99.999 ∧ ((1e-5 : ℝ) ≤ 50 → bottomOf hM.m4 hM.m5 (sub2 50) 1 ≠ 0) :=
  ⟨by norm_num, le_refl _, by norm_num, fun _ => greenOne_bottom_ne_zero 50 (by norm_num) (Or.inl (by norm_num))⟩

/-! ## 7. near white, unconditionally: the three `= 1` lines surround the neutral point and close in on it like `1 − Y`

  For `99.999 ≤ L ≤ 99.9999999` (`0.9999 ≤ Y ≤ 1 − 2.5e-9`) the cross-section of the gamut is the small triangle of the three `= 1` lines.
  With `Q = 769860·(1 − Y)`: every `= 1` intercept has `|intercept| ≥ L·(Q − 1e-8)/820527`, and every hue ray meets one of the three
  lines with `|denom| ≥ 0.3` within `4e-5·L·Q`; so `maxChroma·1e-6 ≤ 4e-11·L·Q` is far below every intercept and a skipped line is
  harmless here too. -/

theorem line1_val (m0 m1 m2 L Y : ℝ) :
    (boundaryLine m0 m1 m2 L Y 1).slope = (284517 * m0 - 94839 * m2) * Y / ((632260 * m2 - 126452 * m1) * Y + 126452) ∧
    (boundaryLine m0 m1 m2 L Y 1).intercept
      = L * ((838422 * m2 + 769860 * m1 + 731718 * m0) * Y - 769860) / ((632260 * m2 - 126452 * m1) * Y + 126452) := by
  unfold boundaryLine
  constructor
  · norm_num
  · norm_num; ring

theorem sub2_ge_near (l : ℝ) (h : 99.999 ≤ l) : 0.9999 ≤ sub2 l := by
  have hc := cube16_mono (by norm_num : (0:ℝ) ≤ 99.999) h
  have h1 : (0.9999 : ℝ) ≤ (l + 16) ^ 3 / 1560896 := by
    rw [le_div_iff₀ (by norm_num)]; norm_num at hc ⊢; linarith
  rw [sub2_eq, if_pos (by linarith)]
  exact h1

/-- every direction faces one of three lines with slopes `≥ 172`, `∈ [3.31, 3.32]`, `∈ [−0.103, 0]` and intercept signs `−, +, −` -/
theorem some_line_faces_near (σ0 σ1 σ2 c s : ℝ) (h0 : 172 ≤ σ0) (h1 : 3.31 ≤ σ1 ∧ σ1 ≤ 3.32) (h2 : -0.103 ≤ σ2 ∧ σ2 ≤ 0)
    (hcs : c ^ 2 + s ^ 2 = 1) : s - σ0 * c ≤ -20 ∨ 0.3 ≤ s - σ1 * c ∨ s - σ2 * c ≤ -0.3 := by
  by_contra h
  push Not at h
  obtain ⟨a, b, d⟩ := h
  rcases le_or_gt 0 c with hc | hc
  · have p0 : 172 * c ≤ σ0 * c := mul_le_mul_of_nonneg_right h0 hc
    have p1 : σ1 * c ≤ 3.32 * c := mul_le_mul_of_nonneg_right h1.2 hc
    have p2 : -0.103 * c ≤ σ2 * c := mul_le_mul_of_nonneg_right h2.1 hc
    have hc1 : c ≤ 0.1204 := by linarith
    have hs1 : s ≤ 0.7 := by linarith
    have hs0 : -0.313 ≤ s := by linarith
    nlinarith [mul_nonneg hc (by linarith : (0:ℝ) ≤ 0.1204 - c), mul_nonneg (by linarith : (0:ℝ) ≤ s + 0.313) (by linarith : (0:ℝ) ≤ 0.7 - s)]
  · have p1 : σ1 * c ≤ 3.31 * c := mul_le_mul_of_nonpos_right h1.1 hc.le
    have p2 : 0 ≤ σ2 * c := mul_nonneg_of_nonpos_of_nonpos h2.2 hc.le
    have hc1 : -0.182 ≤ c := by linarith
    have hs1 : s ≤ 0.3 := by linarith
    have hs0 : -0.3 ≤ s := by linarith
    nlinarith [mul_nonneg (by linarith : (0:ℝ) ≤ c + 0.182) (by linarith : (0:ℝ) ≤ -c),
      mul_nonneg (by linarith : (0:ℝ) ≤ s + 0.3) (by linarith : (0:ℝ) ≤ 0.3 - s)]

theorem ray_bound_neg_gen (i d δ Cb : ℝ) (hδ : 1e-6 < δ) (hCb : 0 ≤ Cb) (hi : -(Cb * δ) ≤ i) (hi0 : i ≤ 0) (hd : d ≤ -δ) :
    1e-6 < |d| ∧ 0 ≤ i / d ∧ i / d ≤ Cb := by
  have hd0 : d < 0 := by linarith
  refine ⟨?_, div_nonneg_of_nonpos hi0 hd0.le, ?_⟩
  · rw [abs_of_neg hd0]; linarith
  · rw [div_le_iff_of_neg hd0]; nlinarith

theorem ray_bound_pos_gen (i d δ Cb : ℝ) (hδ : 1e-6 < δ) (hCb : 0 ≤ Cb) (hi0 : 0 ≤ i) (hi : i ≤ Cb * δ) (hd : δ ≤ d) :
    1e-6 < |d| ∧ 0 ≤ i / d ∧ i / d ≤ Cb := by
  have hd0 : 0 < d := by linarith
  refine ⟨?_, div_nonneg hi0 hd0.le, ?_⟩
  · rw [abs_of_pos hd0]; linarith
  · rw [div_le_iff₀ hd0]; nlinarith

theorem maxChroma_le_of_line_gen (L H Cb : ℝ) (b : BoundaryLine ℝ) (hb : b ∈ luvBounds L)
    (h : 1e-6 < |Real.sin (H * (Real.pi / 180)) - b.slope * Real.cos (H * (Real.pi / 180))| ∧
      0 ≤ b.intercept / (Real.sin (H * (Real.pi / 180)) - b.slope * Real.cos (H * (Real.pi / 180))) ∧
      b.intercept / (Real.sin (H * (Real.pi / 180)) - b.slope * Real.cos (H * (Real.pi / 180))) ≤ Cb) : maxChroma L H ≤ Cb := by
  have := C01Cie.maxChroma_le_ray L H b hb h.1 (by unfold C01Cie.rayLen; exact h.2.1)
  unfold C01Cie.rayLen at this
  exact le_trans this h.2.2

/-- the three `= 1` lines for `0.9999 ≤ Y ≤ 1`: denominators, slopes, and the numerators `769860 − c₁·Y ∈ [Q − 1e-8, Q]` -/
theorem row_consts_near (Y : ℝ) (hY0 : 0.9999 ≤ Y) (hY1 : Y ≤ 1) :
    (5605 ≤ (632260 * hM.m2 - 126452 * hM.m1) * Y + 126452 ∧ (632260 * hM.m2 - 126452 * hM.m1) * Y + 126452 ≤ 5618 ∧
      172 ≤ (284517 * hM.m0 - 94839 * hM.m2) * Y / ((632260 * hM.m2 - 126452 * hM.m1) * Y + 126452) ∧
      (838422 * hM.m2 + 769860 * hM.m1 + 731718 * hM.m0) * Y - 769860 ≤ -(769860 * (1 - Y)) + 1e-8 ∧
      -(769860 * (1 - Y)) ≤ (838422 * hM.m2 + 769860 * hM.m1 + 731718 * hM.m0) * Y - 769860) ∧
    (-84495 ≤ (632260 * hM.m5 - 126452 * hM.m4) * Y + 126452 ∧ (632260 * hM.m5 - 126452 * hM.m4) * Y + 126452 ≤ -84473 ∧
      3.31 ≤ (284517 * hM.m3 - 94839 * hM.m5) * Y / ((632260 * hM.m5 - 126452 * hM.m4) * Y + 126452) ∧
      (284517 * hM.m3 - 94839 * hM.m5) * Y / ((632260 * hM.m5 - 126452 * hM.m4) * Y + 126452) ≤ 3.32 ∧
      (838422 * hM.m5 + 769860 * hM.m4 + 731718 * hM.m3) * Y - 769860 ≤ -(769860 * (1 - Y)) + 1e-8 ∧
      -(769860 * (1 - Y)) ≤ (838422 * hM.m5 + 769860 * hM.m4 + 731718 * hM.m3) * Y - 769860) ∧
    (820440 ≤ (632260 * hM.m8 - 126452 * hM.m7) * Y + 126452 ∧ (632260 * hM.m8 - 126452 * hM.m7) * Y + 126452 ≤ 820527 ∧
      -0.103 ≤ (284517 * hM.m6 - 94839 * hM.m8) * Y / ((632260 * hM.m8 - 126452 * hM.m7) * Y + 126452) ∧
      (284517 * hM.m6 - 94839 * hM.m8) * Y / ((632260 * hM.m8 - 126452 * hM.m7) * Y + 126452) ≤ 0 ∧
      (838422 * hM.m8 + 769860 * hM.m7 + 731718 * hM.m6) * Y - 769860 ≤ -(769860 * (1 - Y)) + 1e-8 ∧
      -(769860 * (1 - Y)) ≤ (838422 * hM.m8 + 769860 * hM.m7 + 731718 * hM.m6) * Y - 769860) := by
  rw [hM_val]; simp only
  have d0 : (5605 : ℝ) ≤ (632260 * -0.498610760293 - 126452 * -1.537383177570093) * Y + 126452 ∧
      (632260 * -0.498610760293 - 126452 * -1.537383177570093) * Y + 126452 ≤ (5618 : ℝ) := by constructor <;> nlinarith
  have d1 : (-84495 : ℝ) ≤ (632260 * 0.041555057407175 - 126452 * 1.87596750150772) * Y + 126452 ∧
      (632260 * 0.041555057407175 - 126452 * 1.87596750150772) * Y + 126452 ≤ (-84473 : ℝ) := by constructor <;> nlinarith
  have d2 : (820440 : ℝ) ≤ (632260 * 1.056971514242878 - 126452 * -0.20397695888897) * Y + 126452 ∧
      (632260 * 1.056971514242878 - 126452 * -0.20397695888897) * Y + 126452 ≤ (820527 : ℝ) := by constructor <;> nlinarith
  refine ⟨⟨d0.1, d0.2, ?_, ?_, ?_⟩, ⟨d1.1, d1.2, ?_, ?_, ?_, ?_⟩, ⟨d2.1, d2.2, ?_, ?_, ?_, ?_⟩⟩
  · rw [le_div_iff₀ (by linarith)]; nlinarith
  · nlinarith
  · nlinarith
  · rw [le_div_iff_of_neg (by linarith)]; nlinarith
  · rw [div_le_iff_of_neg (by linarith)]; nlinarith
  · nlinarith
  · nlinarith
  · rw [le_div_iff₀ (by linarith)]; nlinarith
  · rw [div_le_iff₀ (by linarith)]; nlinarith
  · nlinarith
  · nlinarith

/-- size of `L·N/den` for a numerator `N ∈ [−Q, −Q + 1e-8]` and a denominator `lo ≤ |den| ≤ hi` -/
theorem icpt_bounds (L N den Q lo hi : ℝ) (hL : 0 < L) (hQ : 1e-8 ≤ Q) (hN0 : -Q ≤ N) (hN1 : N ≤ -Q + 1e-8) (hlo : 0 < lo)
    (hden : lo ≤ |den|) (hhi : |den| ≤ hi) : |L * N / den| ≤ L * Q / lo ∧ L * (Q - 1e-8) / hi ≤ |L * N / den| := by
  have hN : N ≤ 0 := by linarith
  have hd : 0 < |den| := by linarith
  have e : |L * N / den| = L * (-N) / |den| := by rw [abs_div, abs_mul, abs_of_pos hL, abs_of_nonpos hN]
  rw [e]
  constructor
  · rw [div_le_div_iff₀ hd hlo]
    have h1 : L * -N ≤ L * Q := mul_le_mul_of_nonneg_left (by linarith) hL.le
    have h2 : 0 ≤ L * Q := mul_nonneg hL.le (by linarith)
    nlinarith
  · rw [div_le_div_iff₀ (by linarith) hd]
    have h1 : L * (Q - 1e-8) ≤ L * -N := mul_le_mul_of_nonneg_left (by linarith) hL.le
    have h2 : 0 ≤ L * (Q - 1e-8) := mul_nonneg hL.le (by linarith)
    nlinarith

/-- one `= 1` line near white, faced squarely by the hue ray (`|d| ≥ δ`, on the side its intercept is): ray length `≤ 4e-5·L·Q` -/
theorem near_ray (L N den Q lo δ d : ℝ) (hL : 0 < L) (hQ : 1e-8 ≤ Q) (hN0 : -Q ≤ N) (hN1 : N ≤ -Q + 1e-8) (hlo : 0 < lo)
    (hden : lo ≤ |den|) (hδ : 1e-6 < δ) (hk : 1 ≤ 4e-5 * δ * lo) (hsign : (0 < den ∧ d ≤ -δ) ∨ (den < 0 ∧ δ ≤ d)) :
    1e-6 < |d| ∧ 0 ≤ L * N / den / d ∧ L * N / den / d ≤ 4e-5 * L * Q := by
  have hN : N ≤ 0 := by linarith
  have hLQ : 0 ≤ L * Q := mul_nonneg hL.le (by linarith)
  have hCb : 0 ≤ 4e-5 * L * Q := by nlinarith
  obtain ⟨k1, _⟩ := icpt_bounds L N den Q lo (|den|) hL hQ hN0 hN1 hlo hden (le_refl _)
  have k2 : L * Q / lo ≤ 4e-5 * L * Q * δ := by
    rw [div_le_iff₀ hlo]
    have : L * Q * 1 ≤ L * Q * (4e-5 * δ * lo) := mul_le_mul_of_nonneg_left hk hLQ
    nlinarith
  rcases hsign with ⟨hd, hdd⟩ | ⟨hd, hdd⟩
  · have hneg : L * N / den ≤ 0 := div_nonpos_of_nonpos_of_nonneg (mul_nonpos_of_nonneg_of_nonpos hL.le hN) hd.le
    rw [abs_of_nonpos hneg] at k1
    exact ray_bound_neg_gen _ _ δ _ hδ hCb (by linarith) hneg hdd
  · have hpos : 0 ≤ L * N / den := div_nonneg_of_nonpos (mul_nonpos_of_nonneg_of_nonpos hL.le hN) hd.le
    rw [abs_of_nonneg hpos] at k1
    exact ray_bound_pos_gen _ _ δ _ hδ hCb hpos (by linarith) hdd

/-- **near white `maxChroma ≤ 4e-5·L·Q`**, `Q = 769860·(1 − sub2 L)`, every hue -/
theorem maxChroma_le_near (L H : ℝ) (hL0 : 99.999 ≤ L) (hL1 : L ≤ 99.9999999) :
    maxChroma L H ≤ 4e-5 * L * (769860 * (1 - sub2 L)) := by
  have hL : 0 < L := by linarith
  have hY0 := sub2_ge_near L hL0
  have hY1 := sub2_le_near L hL hL1
  obtain ⟨⟨a1, a2, a3, a4, a5⟩, ⟨b1, b2, b3, b4, b5, b6⟩, ⟨c1, c2, c3, c4, c5, c6⟩⟩ := row_consts_near (sub2 L) hY0 (by linarith)
  obtain ⟨_, q1, _, q3, _, q5⟩ := mem_luvBounds L
  have o : (1.0 : ℝ) = 1 := by norm_num
  rw [o] at q1 q3 q5
  obtain ⟨s0, i0⟩ := line1_val hM.m0 hM.m1 hM.m2 L (sub2 L)
  obtain ⟨s1, i1⟩ := line1_val hM.m3 hM.m4 hM.m5 L (sub2 L)
  obtain ⟨s2, i2⟩ := line1_val hM.m6 hM.m7 hM.m8 L (sub2 L)
  have hQ : (1e-8 : ℝ) ≤ 769860 * (1 - sub2 L) := by nlinarith
  have hcs : Real.cos (H * (Real.pi / 180)) ^ 2 + Real.sin (H * (Real.pi / 180)) ^ 2 = 1 := Real.cos_sq_add_sin_sq _
  rcases some_line_faces_near _ _ _ (Real.cos (H * (Real.pi / 180))) (Real.sin (H * (Real.pi / 180))) a3 ⟨b3, b4⟩ ⟨c3, c4⟩ hcs with h | h | h
  · have hd : 0 < (632260 * hM.m2 - 126452 * hM.m1) * sub2 L + 126452 := by linarith
    refine maxChroma_le_of_line_gen L H (4e-5 * L * (769860 * (1 - sub2 L))) _ q1 ?_
    rw [s0, i0]
    exact near_ray L _ _ _ 5605 20 _ hL hQ a5 a4 (by norm_num) (by rw [abs_of_pos hd]; exact a1) (by norm_num) (by norm_num) (Or.inl ⟨hd, h⟩)
  · have hd : (632260 * hM.m5 - 126452 * hM.m4) * sub2 L + 126452 < 0 := by linarith
    refine maxChroma_le_of_line_gen L H (4e-5 * L * (769860 * (1 - sub2 L))) _ q3 ?_
    rw [s1, i1]
    exact near_ray L _ _ _ 84473 0.3 _ hL hQ b6 b5 (by norm_num) (by rw [abs_of_neg hd]; linarith) (by norm_num) (by norm_num) (Or.inr ⟨hd, h⟩)
  · have hd : 0 < (632260 * hM.m8 - 126452 * hM.m7) * sub2 L + 126452 := by linarith
    refine maxChroma_le_of_line_gen L H (4e-5 * L * (769860 * (1 - sub2 L))) _ q5 ?_
    rw [s2, i2]
    exact near_ray L _ _ _ 820440 0.3 _ hL hQ c6 c5 (by norm_num) (by rw [abs_of_pos hd]; exact c1) (by norm_num) (by norm_num) (Or.inl ⟨hd, h⟩)

theorem near_key (L Q : ℝ) (hL : 0 < L) (hQ : 1e-7 ≤ Q) : 4e-11 * L * Q ≤ L * (Q - 1e-8) / 820527 := by
  rw [le_div_iff₀ (by norm_num)]
  have : 0 ≤ L * (Q - 1e-8 - 4e-11 * 820527 * Q) := mul_nonneg hL.le (by nlinarith)
  nlinarith

/-- near white every `= 1` intercept is at least `4e-11·L·Q` (in fact `≥ 1.2e-6·L·Q`) -/
theorem intercepts1_big_near (L : ℝ) (hL0 : 99.999 ≤ L) (hL1 : L ≤ 99.9999999) :
    4e-11 * L * (769860 * (1 - sub2 L)) ≤ |(boundaryLine hM.m0 hM.m1 hM.m2 L (sub2 L) 1).intercept| ∧
    4e-11 * L * (769860 * (1 - sub2 L)) ≤ |(boundaryLine hM.m3 hM.m4 hM.m5 L (sub2 L) 1).intercept| ∧
    4e-11 * L * (769860 * (1 - sub2 L)) ≤ |(boundaryLine hM.m6 hM.m7 hM.m8 L (sub2 L) 1).intercept| := by
  have hL : 0 < L := by linarith
  have hY0 := sub2_ge_near L hL0
  have hY1 := sub2_le_near L hL hL1
  obtain ⟨⟨a1, a2, _, a4, a5⟩, ⟨b1, b2, _, _, b5, b6⟩, ⟨c1, c2, _, _, c5, c6⟩⟩ := row_consts_near (sub2 L) hY0 (by linarith)
  rw [(line1_val hM.m0 hM.m1 hM.m2 L (sub2 L)).2, (line1_val hM.m3 hM.m4 hM.m5 L (sub2 L)).2, (line1_val hM.m6 hM.m7 hM.m8 L (sub2 L)).2]
  have hQ : (1e-7 : ℝ) ≤ 769860 * (1 - sub2 L) := by nlinarith
  have hQ' : (1e-8 : ℝ) ≤ 769860 * (1 - sub2 L) := by linarith
  have key := near_key L _ hL hQ
  refine ⟨?_, ?_, ?_⟩
  · have hd : 0 < (632260 * hM.m2 - 126452 * hM.m1) * sub2 L + 126452 := by linarith
    exact le_trans key (icpt_bounds L _ _ _ 5605 820527 hL hQ' a5 a4 (by norm_num) (by rw [abs_of_pos hd]; exact a1)
      (by rw [abs_of_pos hd]; linarith)).2
  · have hd : (632260 * hM.m5 - 126452 * hM.m4) * sub2 L + 126452 < 0 := by linarith
    exact le_trans key (icpt_bounds L _ _ _ 84473 820527 hL hQ' b6 b5 (by norm_num) (by rw [abs_of_neg hd]; linarith)
      (by rw [abs_of_neg hd]; linarith)).2
  · have hd : 0 < (632260 * hM.m8 - 126452 * hM.m7) * sub2 L + 126452 := by linarith
    exact le_trans key (icpt_bounds L _ _ _ 820440 820527 hL hQ' c6 c5 (by norm_num) (by rw [abs_of_pos hd]; exact c1)
      (by rw [abs_of_pos hd]; exact c2)).2

/-- **HSLuv containment near white, unconditionally**: `0 ≤ S ≤ 100`, `99.999 ≤ L ≤ 99.9999999` (up to the reference's guard), every hue
    ⇒ all three channels in `[0, 1]` -/
theorem hsluv_in_gamut_near_white (H S L : ℝ) (hS0 : 0 ≤ S) (hS : S ≤ 100) (hL0 : 99.999 ≤ L) (hL1 : L ≤ 99.9999999) :
    let rgb := hM.mulVec (luvToXyz hsluvWhite (lchuvToLuv (hsluvToLchuv ⟨H, S, L⟩)))
    0 ≤ rgb.c0 ∧ rgb.c0 ≤ 1 ∧ 0 ≤ rgb.c1 ∧ rgb.c1 ≤ 1 ∧ 0 ≤ rgb.c2 ∧ rgb.c2 ≤ 1 := by
  have hL : 0 < L := by linarith
  apply hsluv_in_gamut_of_skip H S L hS0 hS (by linarith) hL1 (greenOne_bottom_ne_zero L hL (Or.inr (by linarith)))
  intro b hb _
  obtain ⟨hC0, hC⟩ := chroma_bounds H S L hS0 hS
  rw [hsluvToLchuv_val]
  have hC16 : S * maxChroma L H * 0.01 * 1e-6 ≤ 1.1 * L := by
    have := maxChroma_le L H hL
    nlinarith
  have hCn : S * maxChroma L H * 0.01 * 1e-6 ≤ 4e-11 * L * (769860 * (1 - sub2 L)) := by
    have := maxChroma_le_near L H hL0 hL1
    nlinarith
  obtain ⟨i0, i1, i2⟩ := intercepts0_big L hL
  obtain ⟨j0, j1, j2⟩ := intercepts1_big_near L hL0 hL1
  have z : (0.0 : ℝ) = 0 := by norm_num
  have o : (1.0 : ℝ) = 1 := by norm_num
  rw [luvBounds_eq, z, o] at hb
  simp only [List.mem_cons, List.mem_nil_iff, or_false] at hb
  rcases hb with rfl | rfl | rfl | rfl | rfl | rfl
  · exact le_trans hC16 i0
  · exact le_trans hCn j0
  · exact le_trans hC16 i1
  · exact le_trans hCn j1
  · exact le_trans hC16 i2
  · exact le_trans hCn j2

/-- non-vacuity of `hsluv_in_gamut_near_white`: `L = 99.9999` -/
example : (0 : ℝ) ≤ 100 ∧ (100 : ℝ) ≤ 100 ∧ (99.999 : ℝ) ≤ 99.9999 ∧ (99.9999 : ℝ) ≤ 99.9999999 := by norm_num

/-- **HSLuv: bounded saturation ⇒ inside the sRGB gamut — the whole range the reference serves**: every hue, `0 ≤ S ≤ 100`, every
    `L ≤ 99.9999999` (the reference's guard; above it the reference returns `C = 0`, the code does not: finding D5) other than `L⋆`
    (`hG1`, needed only for `1e-5 ≤ L ≤ 99.999`). -/
theorem hsluv_in_gamut_full (H S L : ℝ) (hS0 : 0 ≤ S) (hS : S ≤ 100) (hL1 : L ≤ 99.9999999)
    (hG1 : 1e-5 ≤ L → L ≤ 99.999 → bottomOf hM.m4 hM.m5 (sub2 L) 1 ≠ 0) :
    let rgb := hM.mulVec (luvToXyz hsluvWhite (lchuvToLuv (hsluvToLchuv ⟨H, S, L⟩)))
    0 ≤ rgb.c0 ∧ rgb.c0 ≤ 1 ∧ 0 ≤ rgb.c1 ∧ rgb.c1 ≤ 1 ∧ 0 ≤ rgb.c2 ∧ rgb.c2 ≤ 1 := by
  by_cases h : L ≤ 99.999
  · exact hsluv_in_gamut H S L hS0 hS h (fun h5 => hG1 h5 h)
  · exact hsluv_in_gamut_near_white H S L hS0 hS (not_le.mp h).le hL1

end C02Hsluv
