/-
  C12 (hex part) — "Formatting an RGB(A) color as hexadecimal and parsing it back returns the same color for every
  8-, 16- and 32-bit color … Parsing is total and strict: any string other than an optional '#' followed by exactly
  the documented number of hexadecimal digits is rejected with an error, never accepted and never a panic."

  Theorems about `PaletteModel/Hex.lean`, the model of `rgb/hex.rs`, the ten `FromStr` impls and the `LowerHex`/
  `UpperHex` impls, *with* the D3 repair (`check_hex_digits`).  Strings are arbitrary byte lists (so also every
  UTF-8 string); all statements are unbounded (no length limit), proved by induction, not by enumeration.
-/
import PaletteProofs.Lemmas.HexLemmas

namespace C12
open Hex

/-- the property's "parsing is total and strict" for a parser `F` whose documented digit counts are `counts` -/
def StrictTotal (F : Bytes → Outcome (List α)) (counts : List Nat) : Prop :=
  ∀ s : Bytes,
    ((∃ c, F s = .ok c) ↔ Grammar counts s) ∧      -- accepted exactly on the grammar
    (¬ Grammar counts s → ∃ e, F s = .err e) ∧     -- everything else is an error value …
    F s ≠ .panic                                    -- … and nothing panics

theorem Spec.strictTotal {F : Bytes → Outcome (List α)} {counts V} (h : Spec F counts V) : StrictTotal F counts :=
  fun s => ⟨h.ok_iff s, h.rejects s, h.no_panic s⟩

/-! ## strict and total, every byte string, each of the ten parsable types
    (digit counts as documented at `Rgb::from_hex` / `Rgba::from_hex`) -/

theorem strict_rgb_u8 : StrictTotal fromStrRgbU8 [3, 6] := fromStrRgbU8_spec.strictTotal
theorem strict_rgba_u8 : StrictTotal fromStrRgbaU8 [4, 8] := fromStrRgbaU8_spec.strictTotal
theorem strict_rgb_u16 : StrictTotal fromStrRgbU16 [3, 6, 12] := fromStrRgbU16_spec.strictTotal
theorem strict_rgba_u16 : StrictTotal fromStrRgbaU16 [4, 8, 16] := fromStrRgbaU16_spec.strictTotal
theorem strict_rgb_u32 : StrictTotal fromStrRgbU32 [3, 6, 12, 24] := fromStrRgbU32_spec.strictTotal
theorem strict_rgba_u32 : StrictTotal fromStrRgbaU32 [4, 8, 16, 32] := fromStrRgbaU32_spec.strictTotal
/-- the float targets: for *every* interpretation `conv` of the integer → float `into_format` (law-free) -/
theorem strict_rgb_f32 (conv : Nat → Nat → φ) : StrictTotal (fromStrRgbF32 conv) [3, 6, 12] := (fromStrRgbF32_spec conv).strictTotal
theorem strict_rgba_f32 (conv : Nat → Nat → φ) : StrictTotal (fromStrRgbaF32 conv) [4, 8, 16] := (fromStrRgbaF32_spec conv).strictTotal
theorem strict_rgb_f64 (conv : Nat → Nat → φ) : StrictTotal (fromStrRgbF64 conv) [3, 6, 12, 24] := (fromStrRgbF64_spec conv).strictTotal
theorem strict_rgba_f64 (conv : Nat → Nat → φ) : StrictTotal (fromStrRgbaF64 conv) [4, 8, 16, 32] := (fromStrRgbaF64_spec conv).strictTotal

/-- what an accepted string means: the digit groups, most significant digit first, a single digit `d` standing
    for `dd` (`* 17`) — here for the two `u8` types, the others are in `Lemmas/HexLemmas` (`valRgbU16` …) -/
theorem value_rgb_u8 (s : Bytes) (h : Grammar [3, 6] s) : fromStrRgbU8 s = .ok (valRgbU8 (stripHash s)) :=
  fromStrRgbU8_spec.value s h
theorem value_rgba_u8 (s : Bytes) (h : Grammar [4, 8] s) : fromStrRgbaU8 s = .ok (valRgbaU8 (stripHash s)) :=
  fromStrRgbaU8_spec.value s h

-- non-vacuity: the grammar is inhabited and not everything
example : Grammar [3, 6] [35, 102, 48, 65] := ⟨[102, 48, 65], Or.inr rfl, by decide, by decide⟩
example : ¬ Grammar [3, 6] [43, 102, 43, 102, 43, 102] := by rw [grammar_iff]; decide
example : fromStrRgbU8 [35, 102, 48, 65] = .ok [255, 0, 170] := by decide                                   -- "#f0A"
example : fromStrRgbaU16 [102, 48, 65, 56] = .ok [65535, 0, 43690, 34952] := by decide                     -- "f0A8"
example : fromStrRgbU8 [35, 49, 50] = .err .hexFormat := by decide                                          -- "#12"
example : fromStrRgbaU8 [35, 102, 102, 102] = .err .rgbaHexFormat := by decide                              -- "#fff"
example : fromStrRgbU8 [35, 103, 103, 103, 103, 103, 103] = .err (.parseInt .invalidDigit) := by decide     -- "#gggggg"

/-! ## D3: the code *before* the repair violates both halves (kernel-checked witnesses on the transcription
    without `check_hex_digits`), the repaired code does not -/

example : Legacy.fromStrRgbU8 [43, 102, 43, 102, 43, 102] = .ok [15, 15, 15] := by decide       -- "+f+f+f" accepted
example : Legacy.fromStrRgbU8 [0xC3, 0xA9, 0x31] = .panic := by decide                          -- "é1" panics
example : Legacy.fromStrRgbU8 [97, 0xC3, 0xA9, 51, 52, 53] = .panic := by decide                -- "aé345" panics
example : fromStrRgbU8 [43, 102, 43, 102, 43, 102] = .err (.parseInt .invalidDigit) := by decide
example : fromStrRgbU8 [0xC3, 0xA9, 0x31] = .err (.parseInt .invalidDigit) := by decide
example : fromStrRgbU8 [97, 0xC3, 0xA9, 51, 52, 53] = .err (.parseInt .invalidDigit) := by decide

/-! ## format → parse is the identity, every colour, lower and upper case, with and without `#` -/

theorem roundtrip_rgb_u8 (up hash : Bool) (c : List Nat) (hl : c.length = 3) (hc : ∀ x ∈ c, x < 2 ^ 8) :
    fromStrRgbU8 (withHash hash (fmtRgb up none 1 c)) = .ok c := by
  rw [fmtRgb_default]
  refine roundtrip_core fromStrRgbU8_spec up hash (w := 2) (by decide) (by decide) c
    (fun x hx => Nat.lt_of_lt_of_eq (hc x hx) (by decide)) (by simp [hl]) ?_
  intro d hd; rw [hl] at hd; simp [valRgbU8, hd, hl]

theorem roundtrip_rgba_u8 (up hash : Bool) (c : List Nat) (hl : c.length = 4) (hc : ∀ x ∈ c, x < 2 ^ 8) :
    fromStrRgbaU8 (withHash hash (fmtRgba up none 1 c)) = .ok c := by
  rw [fmtRgba_default]
  refine roundtrip_core fromStrRgbaU8_spec up hash (w := 2) (by decide) (by decide) c
    (fun x hx => Nat.lt_of_lt_of_eq (hc x hx) (by decide)) (by simp [hl]) ?_
  intro d hd; rw [hl] at hd; simp [valRgbaU8, hd, hl]

theorem roundtrip_rgb_u16 (up hash : Bool) (c : List Nat) (hl : c.length = 3) (hc : ∀ x ∈ c, x < 2 ^ 16) :
    fromStrRgbU16 (withHash hash (fmtRgb up none 2 c)) = .ok c := by
  rw [fmtRgb_default]
  refine roundtrip_core fromStrRgbU16_spec up hash (w := 4) (by decide) (by decide) c
    (fun x hx => Nat.lt_of_lt_of_eq (hc x hx) (by decide)) (by simp [hl]) ?_
  intro d hd; rw [hl] at hd; simp [valRgbU16, hd, hl]

theorem roundtrip_rgba_u16 (up hash : Bool) (c : List Nat) (hl : c.length = 4) (hc : ∀ x ∈ c, x < 2 ^ 16) :
    fromStrRgbaU16 (withHash hash (fmtRgba up none 2 c)) = .ok c := by
  rw [fmtRgba_default]
  refine roundtrip_core fromStrRgbaU16_spec up hash (w := 4) (by decide) (by decide) c
    (fun x hx => Nat.lt_of_lt_of_eq (hc x hx) (by decide)) (by simp [hl]) ?_
  intro d hd; rw [hl] at hd; simp [valRgbaU16, hd, hl]

theorem roundtrip_rgb_u32 (up hash : Bool) (c : List Nat) (hl : c.length = 3) (hc : ∀ x ∈ c, x < 2 ^ 32) :
    fromStrRgbU32 (withHash hash (fmtRgb up none 4 c)) = .ok c := by
  rw [fmtRgb_default]
  refine roundtrip_core fromStrRgbU32_spec up hash (w := 8) (by decide) (by decide) c
    (fun x hx => Nat.lt_of_lt_of_eq (hc x hx) (by decide)) (by simp [hl]) ?_
  intro d hd; rw [hl] at hd; simp [valRgbU32, hd, hl]

theorem roundtrip_rgba_u32 (up hash : Bool) (c : List Nat) (hl : c.length = 4) (hc : ∀ x ∈ c, x < 2 ^ 32) :
    fromStrRgbaU32 (withHash hash (fmtRgba up none 4 c)) = .ok c := by
  rw [fmtRgba_default]
  refine roundtrip_core fromStrRgbaU32_spec up hash (w := 8) (by decide) (by decide) c
    (fun x hx => Nat.lt_of_lt_of_eq (hc x hx) (by decide)) (by simp [hl]) ?_
  intro d hd; rw [hl] at hd; simp [valRgbaU32, hd, hl]

-- non-vacuity: concrete colours, and what the formatter writes for them
example : fmtRgb false none 1 [255, 0, 18] = [102, 102, 48, 48, 49, 50] := by decide            -- "ff0012"
example : fmtRgba true none 2 [65535, 0, 18, 43981] = [70, 70, 70, 70, 48, 48, 48, 48, 48, 48, 49, 50, 65, 66, 67, 68] := by decide
example : fromStrRgbU8 (withHash true (fmtRgb true none 1 [255, 0, 18])) = .ok [255, 0, 18] :=
  roundtrip_rgb_u8 true true _ rfl (by decide)

/-- an explicit width shorter than the digits does not truncate (`{:1x}` of 255 is `ff`), one longer pads with `0` -/
theorem fmtComp_length_ge (up : Bool) (w n : Nat) : w ≤ (fmtComp up w n).length := by
  simp only [fmtComp, List.length_append, List.length_replicate]; omega

end C12
