/-
  C02 (Ottosson family) — the directly implemented conversions equal the published definitions at ℝ, and every constant of the
  family equals the published digits (decided on the generated tables, re-checked whenever `Gen/*.lean` changes).
-/
import PaletteProofs.Real
import PaletteProofs.RealAngle
import PaletteProofs.KRat
import PaletteModel.Color.Ok
import PaletteSpec.Ok
import Mathlib.Tactic.FieldSimp
import Mathlib.Tactic.Linarith
import Mathlib.Tactic.Positivity

namespace C02Ok
open Ok

/-! ### constants, decided over `Rat` on the generated tables -/

/-- Oklab `M1`, `M1⁻¹`, `M2`, `M2⁻¹` of `oklab.rs` are the published digits (CSS Color 4 / color.js recomputation for `M1`, its
    inverse and `M2⁻¹`; Ottosson's post for `M2`) -/
theorem oklab_matrices_published :
    KRat.ofK Gen.Mat.oklabM1 = Spec.Ok.M1 ∧ KRat.ofK Gen.Mat.oklabM1Inv = Spec.Ok.M1Inv ∧
    KRat.ofK Gen.Mat.oklabM2 = Spec.Ok.M2 ∧ KRat.ofK Gen.Mat.oklabM2Inv = Spec.Ok.M2Inv := by decide +kernel

def absQ (q : Rat) : Rat := if q < 0 then -q else q
def maxEntryDist (a b : List Rat) : Rat := (List.zipWith (fun x y => absQ (x - y)) a b).foldl max 0

/-- the recomputed `M1` differs from the `M1` of Ottosson's original post by at most 3.1e-4 per entry (and by more than 3e-4
    in one): the known, deliberate deviation — `Xyz<D65> → Oklab` follows CSS Color 4, not the 2020 post, to ~1.2e-4 in Lab -/
theorem m1_near_ottosson :
    maxEntryDist (KRat.ofK Gen.Mat.oklabM1) Spec.Ok.M1Ottosson ≤ 3.1e-4 ∧ 3e-4 < maxEntryDist (KRat.ofK Gen.Mat.oklabM1) Spec.Ok.M1Ottosson := by
  decide +kernel

/-- signed coefficient tables of the direct functions as they appear in the source (sign of the operator applied) -/
def signed (ks : List K) (signs : List Int) : List Rat := List.zipWith (fun k s => (s : Rat) * KRat.toRat k) ks signs

/-- `linear_srgb_to_oklab`: the 9 + 9 coefficients with the signs of the source expression are `ok_color.h`'s sRGB → LMS
    matrix and `M2` -/
theorem lin_srgb_to_oklab_coeffs_published :
    signed Gen.Mat.linSrgbToOklabCoeffs [1,1,1, 1,1,1, 1,1,1, 1,1,-1, 1,-1,1, 1,1,-1] = Spec.Ok.srgbToLms ++ Spec.Ok.M2 := by
  decide +kernel

/-- `oklab_to_linear_srgb`: the 6 + 9 coefficients with the signs of the source expression are `ok_color.h`'s -/
theorem oklab_to_lin_srgb_coeffs_published :
    [1] ++ (signed Gen.Mat.oklabToLinSrgbCoeffs [1,1, -1,-1, -1,-1, 1,-1,1, 1,1,-1, 1,-1,1]).take 2
      ++ [1] ++ ((signed Gen.Mat.oklabToLinSrgbCoeffs [1,1, -1,-1, -1,-1, 1,-1,1, 1,1,-1, 1,-1,1]).drop 2).take 2
      ++ [1] ++ ((signed Gen.Mat.oklabToLinSrgbCoeffs [1,1, -1,-1, -1,-1, 1,-1,1, 1,1,-1, 1,-1,1]).drop 4).take 2
      = Spec.Ok.labToLms' ∧
    (signed Gen.Mat.oklabToLinSrgbCoeffs [1,1, -1,-1, -1,-1, 1,-1,1, 1,1,-1, 1,-1,1]).drop 6 = Spec.Ok.lmsToSrgb := by
  decide +kernel

/-! #### `ok_utils.rs`: every coefficient equals `ok_color.h`'s (typed here from the publication, in order of appearance) -/

def refMaxSaturation : List Rat := [
  -1.88170328, 0.80936493,
  1.19086277, 1.76576728, 0.59662641, 0.75515197, 0.56771245, 4.0767416621, -3.3077115913, 0.2309699292,
  1.81444104, 1.19445276,
  0.73956515, -0.45954404, 0.08285427, 0.12541070, 0.14503204, -1.2684380046, 2.6097574011, -0.3413193965,
  1.35733652, -0.00915799, -1.15130210, -0.50559606, 0.00692167, -0.0041960863, -0.7034186147, 1.7076147010,
  0.3963377774, 0.2158037573, -0.1055613458, 0.0638541728, -0.0894841775, 1.2914855480,
  3, 3, 3, 6, 6, 6, 0.5]

theorem max_saturation_coeffs_published : KRat.ofK Gen.Ok.maxSaturation = refMaxSaturation ∧ Gen.Ok.maxSaturationIter = 1 := by
  decide +kernel

def refFindGamutIntersection : List Rat := [
  0.3963377774, 0.2158037573, 0.1055613458, 0.0638541728, 0.0894841775, 1.2914855480,
  3, 3, 3, 6, 6, 6,
  4.0767416621, 3.3077115913, 0.2309699292, 4.0767416621, 3.3077115913, 0.2309699292, 4.0767416621, 3.3077115913, 0.2309699292, 0.5,
  1.2684380046, 2.6097574011, 0.3413193965, 1.2684380046, 2.6097574011, 0.3413193965, 1.2684380046, 2.6097574011, 0.3413193965, 0.5,
  0.0041960863, 0.7034186147, 1.7076147010, 0.0041960863, 0.7034186147, 1.7076147010, 0.0041960863, 0.7034186147, 1.7076147010, 0.5]

/-- all but the last coefficient of `find_gamut_intersection` are the reference's; the last one is palette's stand-in `10e5` for
    the reference's `FLT_MAX` (a documented deviation: "no root on this side") -/
theorem find_gamut_intersection_coeffs_published :
    (KRat.ofK Gen.Ok.findGamutIntersection).take 42 = refFindGamutIntersection ∧ (KRat.ofK Gen.Ok.findGamutIntersection).drop 42 = [1000000] := by
  decide +kernel

def refStMid : List Rat := [
  0.11516993, 7.44778970, 4.15901240, -2.19557347, 1.75198401, -2.13704948, 10.02301043, -4.24894561, 5.38770819, 4.69891013,
  0.11239642, 1.61320320, 0.68124379, 0.40370612, 0.90148123, -0.27087943, 0.61223990, 0.00299215, 0.45399568, 0.14661872]

theorem st_mid_coeffs_published : KRat.ofK Gen.Ok.stMid = refStMid := by decide +kernel

/-- `get_Cs`: 0.9, 0.4, 0.8; toe: k₁ = 0.206, k₂ = 0.03 (and the ½, 4 of the quadratic formula) -/
theorem cs_toe_coeffs_published :
    KRat.ofK Gen.Ok.fromNormalized = [0.9, 0.4, 0.8] ∧ KRat.ofK Gen.Ok.toe = [Spec.Ok.k1, Spec.Ok.k2, 0.5, 4] ∧
    KRat.ofK Gen.Ok.toeInv = [Spec.Ok.k1, Spec.Ok.k2] := by decide +kernel

/-! ### Oklab = published definition, at ℝ, for every input -/

theorem cbrt_eq_spec (x : ℝ) : Scalar.cbrt x = Spec.Ok.cbrt x := rfl

theorem kAt_eq (l : List K) (i : Nat) : (kAt l i : ℝ) = K.eval (l.getD i (0.0 : K)) := rfl

/-- **`Xyz<D65> → Oklab` = `M2 · ∛(M1 · xyz)`** with the published matrices -/
theorem xyzToOklab_eq_spec (X Y Z : ℝ) :
    ((xyzToOklab ⟨X, Y, Z⟩).c0, (xyzToOklab ⟨X, Y, Z⟩).c1, (xyzToOklab ⟨X, Y, Z⟩).c2) = Spec.Ok.xyzToOklab X Y Z := by
  simp only [xyzToOklab, Spec.Ok.xyzToOklab, m1, m2, M3.ofK, M3.mulVec, Gen.Mat.oklabM1, Gen.Mat.oklabM2, Spec.Ok.app, Spec.Ok.M1,
    Spec.Ok.M2, cbrt_eq_spec, RealScalar.const_eq, RealScalar.eval_neg, RealScalar.eval_ofSci]
  norm_num

/-- **`Oklab → Xyz<D65>` = `M1⁻¹ · (M2⁻¹ · Lab)³`** with the published inverse tables -/
theorem oklabToXyz_eq_spec (L a b : ℝ) :
    ((oklabToXyz ⟨L, a, b⟩).c0, (oklabToXyz ⟨L, a, b⟩).c1, (oklabToXyz ⟨L, a, b⟩).c2) = Spec.Ok.oklabToXyz L a b := by
  simp only [oklabToXyz, Spec.Ok.oklabToXyz, m1Inv, m2Inv, M3.ofK, M3.mulVec, Gen.Mat.oklabM1Inv, Gen.Mat.oklabM2Inv, Spec.Ok.app,
    Spec.Ok.M1Inv, Spec.Ok.M2Inv, cube, RealScalar.const_eq, RealScalar.eval_neg, RealScalar.eval_ofSci]
  norm_num
  refine ⟨?_, ?_, ?_⟩ <;> ring

/-- **`linear_srgb_to_oklab` = `ok_color.h`** (`M2 · ∛(A · rgb)`) -/
theorem linSrgbToOklab_eq_spec (r g b : ℝ) :
    ((linSrgbToOklab ⟨r, g, b⟩).c0, (linSrgbToOklab ⟨r, g, b⟩).c1, (linSrgbToOklab ⟨r, g, b⟩).c2) = Spec.Ok.linSrgbToOklab r g b := by
  simp only [linSrgbToOklab, Spec.Ok.linSrgbToOklab, kAt_eq, Gen.Mat.linSrgbToOklabCoeffs, Spec.Ok.app, Spec.Ok.srgbToLms,
    Spec.Ok.M2, cbrt_eq_spec, List.getD_cons_zero, List.getD_cons_succ, RealScalar.eval_ofSci]
  norm_num
  refine ⟨?_, ?_, ?_⟩ <;> ring

/-- **`oklab_to_linear_srgb` = `ok_color.h`** -/
theorem oklabToLinSrgb_eq_spec (L a b : ℝ) :
    ((oklabToLinSrgb ⟨L, a, b⟩).c0, (oklabToLinSrgb ⟨L, a, b⟩).c1, (oklabToLinSrgb ⟨L, a, b⟩).c2) = Spec.Ok.oklabToLinSrgb L a b := by
  simp only [oklabToLinSrgb, Spec.Ok.oklabToLinSrgb, kAt_eq, Gen.Mat.oklabToLinSrgbCoeffs, Spec.Ok.app, Spec.Ok.labToLms',
    Spec.Ok.lmsToSrgb, List.getD_cons_zero, List.getD_cons_succ, RealScalar.eval_neg, RealScalar.eval_ofSci]
  norm_num
  refine ⟨?_, ?_, ?_⟩ <;> ring

/-! ### the toe function -/

/-- the toe with symbolic constants (`k₃ = (1 + k₁)/(1 + k₂)`) -/
noncomputable def toeG (k1 k2 x : ℝ) : ℝ :=
  (1 / 2) * ((1 + k1) / (1 + k2) * x - k1 + Real.sqrt (((1 + k1) / (1 + k2) * x - k1) * ((1 + k1) / (1 + k2) * x - k1) + 4 * k2 * ((1 + k1) / (1 + k2)) * x))
noncomputable def toeInvG (k1 k2 x : ℝ) : ℝ := (x * x + k1 * x) / ((1 + k1) / (1 + k2) * (x + k2))

theorem toe_real (x : ℝ) : toe x = toeG 0.206 0.03 x := by
  simp only [toe, toeG, kAt_eq, Gen.Ok.toe, List.getD_cons_zero, List.getD_cons_succ, RealScalar.eval_ofSci, RealScalar.sqrt_eq]
  norm_num

theorem toeInv_real (x : ℝ) : toeInv x = toeInvG 0.206 0.03 x := by
  simp only [toeInv, toeInvG, kAt_eq, Gen.Ok.toeInv, List.getD_cons_zero, List.getD_cons_succ, RealScalar.eval_ofSci]
  norm_num

/-- **`toe` = the published `L_r`** -/
theorem toe_eq_spec (x : ℝ) : toe x = Spec.Ok.toe x := by
  rw [toe_real]; simp only [toeG, Spec.Ok.toe, Spec.Ok.k3, Spec.Ok.k1, Spec.Ok.k2]; norm_num
  congr 1; ring

/-- **`toe_inv` = the published inverse** -/
theorem toeInv_eq_spec (x : ℝ) : toeInv x = Spec.Ok.toeInv x := by
  rw [toeInv_real]; simp only [toeInvG, Spec.Ok.toeInv, Spec.Ok.k3, Spec.Ok.k1, Spec.Ok.k2]; norm_num
  ring_nf

theorem toeG_inv (k1 k2 : ℝ) (h1 : 0 ≤ k1) (h2 : 0 < k2) (y : ℝ) (hy : 0 ≤ y) : toeG k1 k2 (toeInvG k1 k2 y) = y := by
  have hk : (0:ℝ) < 1 + k1 := by linarith
  have hk' : (0:ℝ) < 1 + k2 := by linarith
  have hyk : 0 < y + k2 := by linarith
  unfold toeG toeInvG
  have e1 : (1 + k1) / (1 + k2) * ((y * y + k1 * y) / ((1 + k1) / (1 + k2) * (y + k2))) = (y * y + k1 * y) / (y + k2) := by
    field_simp
  rw [e1]
  have e2 : ((y * y + k1 * y) / (y + k2) - k1) * ((y * y + k1 * y) / (y + k2) - k1)
      + 4 * k2 * ((1 + k1) / (1 + k2)) * ((y * y + k1 * y) / ((1 + k1) / (1 + k2) * (y + k2)))
      = ((y * y + 2 * k2 * y + k1 * k2) / (y + k2)) ^ 2 := by
    field_simp; ring
  have hnum : 0 ≤ y * y + 2 * k2 * y + k1 * k2 := by
    have := mul_nonneg h1 h2.le; have := mul_nonneg h2.le hy; nlinarith [mul_self_nonneg y]
  rw [e2, Real.sqrt_sq (div_nonneg hnum hyk.le)]
  field_simp; ring

theorem toeInvG_toe (k1 k2 : ℝ) (h1 : 0 ≤ k1) (h2 : 0 < k2) (x : ℝ) (hx : 0 ≤ x) : toeInvG k1 k2 (toeG k1 k2 x) = x := by
  have hk : (0:ℝ) < 1 + k1 := by linarith
  have hk' : (0:ℝ) < 1 + k2 := by linarith
  have hk3 : 0 < (1 + k1) / (1 + k2) := div_pos hk hk'
  set k3 := (1 + k1) / (1 + k2) with hk3def
  set B := k3 * x - k1 with hB
  have h4 : 0 ≤ 4 * k2 * k3 * x := mul_nonneg (mul_nonneg (mul_nonneg (by norm_num) h2.le) hk3.le) hx
  have hD : 0 ≤ B * B + 4 * k2 * k3 * x := by nlinarith [mul_self_nonneg B]
  set s := Real.sqrt (B * B + 4 * k2 * k3 * x) with hs
  have hss : s * s = B * B + 4 * k2 * k3 * x := Real.mul_self_sqrt hD
  have hs0 : 0 ≤ s := Real.sqrt_nonneg _
  have hsB : |B| ≤ s := by
    rw [hs]; apply Real.abs_le_sqrt; nlinarith
  have hy0 : 0 ≤ (1 / 2) * (B + s) := by
    have := neg_abs_le B; linarith
  have hty : toeG k1 k2 x = (1 / 2) * (B + s) := rfl
  rw [hty]
  unfold toeInvG
  rw [← hk3def]
  have hden : k3 * ((1 / 2) * (B + s) + k2) ≠ 0 := (mul_pos hk3 (by linarith)).ne'
  rw [div_eq_iff hden]
  have : ((1:ℝ) / 2 * (B + s)) * (1 / 2 * (B + s)) = B * (1 / 2 * (B + s)) + k2 * k3 * x := by linear_combination (1 / 4) * hss
  rw [this, hB]; ring

/-- **`toe ∘ toe_inv = id` on `y ≥ 0`** -/
theorem toe_toeInv (y : ℝ) (hy : 0 ≤ y) : toe (toeInv y) = y := by
  rw [toeInv_real, toe_real]; exact toeG_inv _ _ (by norm_num) (by norm_num) y hy

/-- **`toe_inv ∘ toe = id` on `x ≥ 0`** -/
theorem toeInv_toe (x : ℝ) (hx : 0 ≤ x) : toeInv (toe x) = x := by
  rw [toeInv_real, toe_real]; exact toeInvG_toe _ _ (by norm_num) (by norm_num) x hx

/-- the published end points: `toe 0 = 0`, `toe 1 = 1` (white keeps lightness 1) -/
theorem toeInv_zero_one : toeInv (0:ℝ) = 0 ∧ toeInv (1:ℝ) = 1 := by
  rw [toeInv_real, toeInv_real]; unfold toeInvG; constructor <;> norm_num

example : (0:ℝ) ≤ 0.5 := by norm_num

/-! ### Okhwb from Okhsv -/

/-- **`Okhsv → Okhwb` = `w = (1 − s)·v`, `b = 1 − v`** -/
theorem okhsvToOkhwb_eq_spec (h s v : ℝ) :
    ((okhsvToOkhwb ⟨h, s, v⟩).c0, (okhsvToOkhwb ⟨h, s, v⟩).c1, (okhsvToOkhwb ⟨h, s, v⟩).c2) = Spec.Ok.okhsvToOkhwb h s v := by
  simp only [okhsvToOkhwb, Spec.Ok.okhsvToOkhwb]; norm_num

theorem okhwbToOkhsv_of_ne (h w b : ℝ) (hb : b ≠ 1) : okhwbToOkhsv ⟨h, w, b⟩ = ⟨h, 1.0 - w / (1.0 - b), 1.0 - b⟩ := by
  have : (1.0 : ℝ) - b ≠ 0 := by norm_num; exact sub_ne_zero.mpr (Ne.symm hb)
  unfold okhwbToOkhsv; simp only [RealScalar.valid_eq, decide_eq_true_eq]; rw [if_pos this]

/-- **`Okhwb → Okhsv` = `v = 1 − b`, `s = 1 − w/v`** whenever `b ≠ 1` -/
theorem okhwbToOkhsv_eq_spec (h w b : ℝ) (hb : b ≠ 1) :
    ((okhwbToOkhsv ⟨h, w, b⟩).c0, (okhwbToOkhsv ⟨h, w, b⟩).c1, (okhwbToOkhsv ⟨h, w, b⟩).c2) = Spec.Ok.okhwbToOkhsv h w b := by
  rw [okhwbToOkhsv_of_ne h w b hb]; simp only [Spec.Ok.okhwbToOkhsv]; norm_num

/-- black (`b = 1`): the guarded branch, saturation 0 and no division -/
theorem okhwbToOkhsv_black (h w : ℝ) : okhwbToOkhsv ⟨h, w, 1⟩ = ⟨h, 0.0, 1.0 - 1⟩ := by
  unfold okhwbToOkhsv; simp only [RealScalar.valid_eq]; norm_num

example : (0.25 : ℝ) ≠ 1 := by norm_num

/-! ### Oklch = polar form of Oklab -/

theorem oklabToOklch_real (L a b : ℝ) :
    oklabToOklch ⟨L, a, b⟩ = ⟨L, Real.sqrt (a * a + b * b), (Real.pi + Complex.arg (-(⟨a, b⟩ : ℂ))) * (180 / Real.pi)⟩ := by
  simp only [oklabToOklch, hueFromCartesian, chromaOf, RealScalar.hypot_eq, RealScalar.radToDeg_eq, RealScalar.angle_pi, RealScalar.atan2_eq]
  congr 3

/-- **lightness unchanged, `C = √(a² + b²)`** -/
theorem oklabToOklch_chroma_eq_spec (L a b : ℝ) :
    (oklabToOklch ⟨L, a, b⟩).c0 = L ∧ (oklabToOklch ⟨L, a, b⟩).c1 = Spec.Ok.chroma a b := by
  rw [oklabToOklch_real]; simp only [Spec.Ok.chroma]; refine ⟨trivial, ?_⟩; congr 1; ring

/-- **the stored hue is the angle `atan2(b, a)`**, normalised into `[0°, 360°]`: same cosine and sine (for `(a, b) ≠ 0`) -/
theorem oklabToOklch_hue_eq_spec (L a b : ℝ) (h : (⟨a, b⟩ : ℂ) ≠ 0) :
    Real.cos ((oklabToOklch ⟨L, a, b⟩).c2 * (Real.pi / 180)) = Real.cos (Spec.Ok.hueRad a b) ∧
    Real.sin ((oklabToOklch ⟨L, a, b⟩).c2 * (Real.pi / 180)) = Real.sin (Spec.Ok.hueRad a b) ∧
    0 ≤ (oklabToOklch ⟨L, a, b⟩).c2 ∧ (oklabToOklch ⟨L, a, b⟩).c2 ≤ 360 := by
  rw [oklabToOklch_real]
  have hpi : Real.pi ≠ 0 := Real.pi_ne_zero
  have e : (Real.pi + Complex.arg (-(⟨a, b⟩ : ℂ))) * (180 / Real.pi) * (Real.pi / 180) = Real.pi + Complex.arg (-(⟨a, b⟩ : ℂ)) := by
    field_simp
  have hn : -(⟨a, b⟩ : ℂ) ≠ 0 := neg_ne_zero.mpr h
  simp only [e, Spec.Ok.hueRad]
  refine ⟨?_, ?_, ?_, ?_⟩
  · rw [add_comm, Real.cos_add_pi, Complex.cos_arg hn, Complex.cos_arg h]; simp [neg_div]
  · rw [add_comm, Real.sin_add_pi, Complex.sin_arg, Complex.sin_arg]; simp [neg_div]
  · have := Complex.neg_pi_lt_arg (-(⟨a, b⟩ : ℂ))
    have : 0 ≤ Real.pi + Complex.arg (-(⟨a, b⟩ : ℂ)) := by linarith
    positivity
  · have := Complex.arg_le_pi (-(⟨a, b⟩ : ℂ))
    have hpos := Real.pi_pos
    rw [mul_div_assoc', div_le_iff₀ hpos]; nlinarith

example : ((⟨1, 0⟩ : ℂ)) ≠ 0 := by intro h; have := congrArg Complex.re h; simp at this

end C02Ok
