/-
  C16 — CAM16-UCS: the rectangular form `J′a′b′` and the polar form `J′M′h′` convert into each other without loss.

  `C16_Cam16.lean` has: `Jmh ↔ UCS Jmh` mutually inverse on their domains, polar → rectangular → polar keeps `J′`, `M′`, and the
  direction lemma `polar_direction` for the exact π.  Completed here, for the family with the angle constants as parameters (the
  model is the member `radK`, `const PI`, `degK`, by `rfl`; for why the model's own constants cannot give an exact identity see
  `C16_Cam16Hue.lean`):
  * rectangular → polar → rectangular is the identity for **every** `(J′, a′, b′)`, including the neutral axis (`ucsJab_roundtrip_exact`);
  * polar → rectangular → polar returns `J′`, `M′` and a hue `h″ ∈ (0, 360]` with `h″ ≡ h′ (mod 360)`, for `M′ > 0`
    (`ucsJmh_roundtrip_exact`); for `M′ = 0` (neutral) the rectangular form is `(J′, 0, 0)` whatever the hue was
    (`ucsJmh_neutral`): the hue of a neutral colour is not recoverable, and is not information;
  * the chain CAM16 `(J, M, h)` → UCS polar → UCS rectangular → UCS polar → CAM16 `(J, M, h)` is the identity modulo 360 in the hue
    (`jmh_through_jab_exact`).
-/
import PaletteProofs.C16_Cam16Hue

namespace C16
open Cam16

/-- `Cam16UcsJab ← Cam16UcsJmh` with `kr` in place of std's `π/180` -/
noncomputable def ucsJmhToJabWith (kr : ℝ) (c : V3 ℝ) : V3 ℝ :=
  ⟨c.c0, Real.cos (c.c2 * kr) * max c.c1 0.0, Real.sin (c.c2 * kr) * max c.c1 0.0⟩
/-- `Cam16UcsJmh ← Cam16UcsJab` with `piK`, `kd` in place of std's `π`, `180/π` -/
noncomputable def ucsJabToJmhWith (piK kd : ℝ) (c : V3 ℝ) : V3 ℝ :=
  ⟨c.c0, Real.sqrt (c.c1 * c.c1 + c.c2 * c.c2), (piK + Complex.arg ⟨-c.c1, -c.c2⟩) * kd⟩

/-- the model's functions are members of the family (definitional) -/
theorem ucsJmhToJab_eq_with (c : V3 ℝ) : ucsJmhToJab c = ucsJmhToJabWith radK c := rfl
theorem ucsJabToJmh_eq_with (c : V3 ℝ) : ucsJabToJmh c = ucsJabToJmhWith (Scalar.const Cam16.PI) degK c := rfl

/-- **rectangular → polar → rectangular = id** (exact π), every `(J′, a′, b′)` -/
theorem ucsJab_roundtrip_exact (J a b : ℝ) :
    ucsJmhToJabWith (Real.pi / 180) (ucsJabToJmhWith Real.pi (180 / Real.pi) ⟨J, a, b⟩) = ⟨J, a, b⟩ := by
  have hp := Real.pi_pos
  simp only [ucsJmhToJabWith, ucsJabToJmhWith]
  have e : (Real.pi + Complex.arg ⟨-a, -b⟩) * (180 / Real.pi) * (Real.pi / 180) = Real.pi + Complex.arg ⟨-a, -b⟩ := by
    field_simp
  have hm : max (Real.sqrt (a * a + b * b)) (0.0:ℝ) = Real.sqrt (a * a + b * b) :=
    max_eq_left (le_trans (by norm_num) (Real.sqrt_nonneg _))
  rw [e, hm]
  by_cases h : (a, b) = (0, 0)
  · obtain ⟨rfl, rfl⟩ := Prod.mk.inj h
    simp
  · obtain ⟨h1, h2⟩ := polar_direction a b h
    rw [h1, h2]

/-- **polar → rectangular → polar** (exact π), chromatic colour: `J′`, `M′` come back, the hue comes back as its representative in
    (0, 360] modulo 360 -/
theorem ucsJmh_roundtrip_exact (J M h : ℝ) (hM : 0 < M) :
    ∃ h' : ℝ, ucsJabToJmhWith Real.pi (180 / Real.pi) (ucsJmhToJabWith (Real.pi / 180) ⟨J, M, h⟩) = ⟨J, M, h'⟩ ∧
      (∃ m : ℤ, h' = h + 360 * m) ∧ 0 < h' ∧ h' ≤ 360 := by
  have hp := Real.pi_pos
  simp only [ucsJmhToJabWith, ucsJabToJmhWith]
  have hm : max M (0.0:ℝ) = M := by apply max_eq_left; norm_num; exact hM.le
  rw [hm]
  set r := h * (Real.pi / 180) with hr
  have hrad : Real.sqrt (Real.cos r * M * (Real.cos r * M) + Real.sin r * M * (Real.sin r * M)) = M := by
    have e : Real.cos r * M * (Real.cos r * M) + Real.sin r * M * (Real.sin r * M) = M * M := by
      have := Real.cos_sq_add_sin_sq r
      calc _ = (Real.cos r ^ 2 + Real.sin r ^ 2) * (M * M) := by ring
        _ = M * M := by rw [this]; ring
    rw [e, Real.sqrt_mul_self hM.le]
  have hz : (⟨-(Real.cos r * M), -(Real.sin r * M)⟩ : ℂ)
      = (M:ℂ) * (Complex.cos ((r + Real.pi : ℝ) : ℂ) + Complex.sin ((r + Real.pi : ℝ) : ℂ) * Complex.I) := by
    apply Complex.ext
    · simp only [← Complex.ofReal_cos, ← Complex.ofReal_sin, Complex.mul_re, Complex.add_re, Complex.ofReal_re, Complex.ofReal_im,
        Complex.mul_im, Complex.I_re, Complex.I_im, Complex.add_im, Real.cos_add, Real.sin_add, Real.cos_pi, Real.sin_pi]
      ring
    · simp only [← Complex.ofReal_cos, ← Complex.ofReal_sin, Complex.mul_re, Complex.add_re, Complex.ofReal_re, Complex.ofReal_im,
        Complex.mul_im, Complex.I_re, Complex.I_im, Complex.add_im, Real.cos_add, Real.sin_add, Real.cos_pi, Real.sin_pi]
      ring
  have harg := Complex.arg_mul_cos_add_sin_mul_I_sub hM (r + Real.pi)
  rw [← hz] at harg
  refine ⟨(Real.pi + Complex.arg ⟨-(Real.cos r * M), -(Real.sin r * M)⟩) * (180 / Real.pi), ?_, ?_, ?_, ?_⟩
  · rw [hrad]
  · refine ⟨1 + ⌊(Real.pi - (r + Real.pi)) / (2 * Real.pi)⌋, ?_⟩
    have : Complex.arg ⟨-(Real.cos r * M), -(Real.sin r * M)⟩ = (r + Real.pi) + 2 * Real.pi * ⌊(Real.pi - (r + Real.pi)) / (2 * Real.pi)⌋ := by
      linarith
    rw [this, hr]
    push_cast
    field_simp
    ring
  · have := Complex.neg_pi_lt_arg ⟨-(Real.cos r * M), -(Real.sin r * M)⟩
    have : 0 < Real.pi + Complex.arg ⟨-(Real.cos r * M), -(Real.sin r * M)⟩ := by linarith
    positivity
  · have := Complex.arg_le_pi ⟨-(Real.cos r * M), -(Real.sin r * M)⟩
    rw [← le_div_iff₀ (by positivity)]
    have e : 360 / (180 / Real.pi) = 2 * Real.pi := by field_simp; ring
    rw [e]; linarith

/-- a neutral colour (`M′ = 0`) goes to the neutral axis `(J′, 0, 0)` whatever its hue: the hue of a neutral colour is not information -/
theorem ucsJmh_neutral (kr J h : ℝ) : ucsJmhToJabWith kr ⟨J, 0, h⟩ = ⟨J, 0, 0⟩ := by
  simp only [ucsJmhToJabWith]
  have : max (0:ℝ) (0.0:ℝ) = 0 := by norm_num
  rw [this, mul_zero, mul_zero]

/-- **CAM16 (J, M, h) → UCS polar → UCS rectangular → UCS polar → CAM16 (J, M, h)** returns `J`, `M` and the hue modulo 360
    (exact π), for `J ≥ 0`, `M > 0` -/
theorem jmh_through_jab_exact (J M h : ℝ) (hJ : 0 ≤ J) (hM : 0 < M) :
    ∃ h' : ℝ, ucsToJmh (ucsJabToJmhWith Real.pi (180 / Real.pi) (ucsJmhToJabWith (Real.pi / 180) (jmhToUcs ⟨J, M, h⟩))) = ⟨J, M, h'⟩ ∧
      (∃ m : ℤ, h' = h + 360 * m) ∧ 0 < h' ∧ h' ≤ 360 := by
  have hJ' : (1:ℝ) + 0.007 * J ≠ 0 := by positivity
  have hM' : (0:ℝ) < 1 + 0.0228 * M := by positivity
  have hback := ucsToJmh_jmhToUcs J M h hJ' hM'
  have hpos : 0 < (jmhToUcs ⟨J, M, h⟩).c1 := by
    rw [jmhToUcs_eq_spec]
    show 0 < Spec.Cam16.ucsM M
    unfold Spec.Cam16.ucsM
    apply div_pos _ (by norm_num)
    apply Real.log_pos
    nlinarith
  obtain ⟨h', e, hm, h0, h1⟩ := ucsJmh_roundtrip_exact (jmhToUcs ⟨J, M, h⟩).c0 (jmhToUcs ⟨J, M, h⟩).c1 h hpos
  refine ⟨h', ?_, hm, h0, h1⟩
  have e0 : (jmhToUcs ⟨J, M, h⟩) = ⟨(jmhToUcs ⟨J, M, h⟩).c0, (jmhToUcs ⟨J, M, h⟩).c1, h⟩ := rfl
  rw [e0, e]
  have : ucsToJmh ⟨(jmhToUcs ⟨J, M, h⟩).c0, (jmhToUcs ⟨J, M, h⟩).c1, h'⟩
      = ⟨(ucsToJmh (jmhToUcs ⟨J, M, h⟩)).c0, (ucsToJmh (jmhToUcs ⟨J, M, h⟩)).c1, h'⟩ := rfl
  rw [this, hback]

/-- non-vacuity -/
example : ∃ h' : ℝ, ucsJabToJmhWith Real.pi (180 / Real.pi) (ucsJmhToJabWith (Real.pi / 180) ⟨50, 30, 400⟩) = ⟨50, 30, h'⟩ ∧
    (∃ m : ℤ, h' = 400 + 360 * m) ∧ 0 < h' ∧ h' ≤ 360 := ucsJmh_roundtrip_exact 50 30 400 (by norm_num)

end C16
