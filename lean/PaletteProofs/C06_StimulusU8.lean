/-
  C06 — `u8 → f32` and `u8 → f64` (the magic-number path of `stimulus.rs`), for every source value, as value theorems:
      comp_f = from_bits(n + C) − from_bits(C)        = n            (exact: `2^(p−1) + n` is a float, the difference is `n`)
      max_f  = (from_bits(255 + C) − from_bits(C)).recip() = R (1/255)
      result = comp_f · max_f                            = R (n · R (1/255))
  — a DOUBLE rounding (of `1/255`, then of the product), not the correctly rounded quotient `R (n/255)`.  Both roundings are
  monotone, so the conversion is monotone over all 256 sources; `0 ↦ 0`; `255 ↦ 1.0` exactly (the two roundings cancel; by
  evaluation, `C06.uint_to_float_ends`).
-/
import PaletteProofs.Ieee.OfBits32
import PaletteProofs.Ieee.Bits64
import PaletteProofs.Lemmas.StimWiden
import PaletteProofs.C06_Stimulus
import PaletteProofs.C06_StimulusAll64

namespace C06
open Stim Float.Model Float.Model.UnpackedFloat Ieee

/-! ## f32 -/
section f32
open Ieee.F32

theorem fields32_of_sum {E M : ℕ} (hE : E < 2^8) (hM : M < 2^23) :
    fS (E * 2^23 + M) = 0 ∧ fE (E * 2^23 + M) = E ∧ fM (E * 2^23 + M) = M := by
  unfold fS fE fM
  have hlt : E * 2^23 + M < 2^31 := by
    have : E * 2^23 ≤ (2^8 - 1) * 2^23 := Nat.mul_le_mul_right _ (by omega)
    omega
  refine ⟨Nat.div_eq_of_lt hlt, ?_, ?_⟩
  · have h1 : (E * 2^23 + M) / 2^23 = E := by rw [Nat.div_eq_iff (by norm_num)]; omega
    rw [h1, Nat.mod_eq_of_lt hE]
  · have : E * 2^23 + M = M + 2^23 * E := by ring
    rw [this, Nat.add_mul_mod_self_left, Nat.mod_eq_of_lt hM]

/-- the pattern `C23 + k` is the float `2^23 + k` -/
theorem magic_pattern32 {a : UInt32} {k : ℕ} (hk : k < 2^23) (ha : a.toNat = 150 * 2^23 + k) :
    IsFin (Float32.ofBits a) ∧ v (Float32.ofBits a) = 2^23 + (k : ℚ) := by
  obtain ⟨f1, f2, f3⟩ := fields32_of_sum (E := 150) (M := k) (by norm_num) hk
  obtain ⟨hf, hv⟩ := ofBits_fin (a := a) (by rw [ha, f2]; norm_num)
  refine ⟨hf, ?_⟩
  rw [hv, ha]; unfold signOf wOf
  rw [f1, f2, f3, if_pos rfl, if_neg (by norm_num)]
  simp only [sgn, one_mul]
  push_cast
  have : (2 : ℚ)^(150 - 1) * 2^(-149 : ℤ) = 1 := by
    rw [← zpow_natCast, ← zpow_add₀ (by norm_num)]; norm_num
  calc ((2 : ℚ)^23 + k) * 2^(150 - 1) * 2^(-149 : ℤ) = ((2 : ℚ)^23 + k) * (2^(150 - 1) * 2^(-149 : ℤ)) := by ring
    _ = _ := by rw [this, mul_one]

/-- `from_bits(k + C23) − from_bits(C23) = k`, on variable floats -/
theorem magic_sub32 {a c : Float32} {k : ℕ} (hk : k < 2^23) (fa : IsFin a) (fc : IsFin c) (va : v a = 2^23 + (k : ℚ))
    (vc : v c = 2^23) : IsFin (a - c) ∧ v (a - c) = k := by
  have hd : v a - v c = (k : ℚ) := by rw [va, vc]; ring
  obtain ⟨hf, hv⟩ := sub_of_le fa fc (n := k) (lt_trans hk (by norm_num)) (by rw [hd, abs_of_nonneg (by positivity)])
  exact ⟨hf, by rw [hv, hd, R32_natCast (lt_trans hk (by norm_num))]⟩

/-- the last two steps on variable floats -/
theorem magic_scale32 {cf one mf : Float32} {k : ℕ} (hk : k ≤ 255) (f1 : IsFin cf) (v1 : v cf = k) (fo : IsFin one)
    (vo : v one = 1) (fm : IsFin mf) (vm : v mf = 255) :
    IsFin (cf * (one / mf)) ∧ v (cf * (one / mf)) = R32 ((k : ℚ) * R32 (1 / 255)) := by
  obtain ⟨fr, vr⟩ := div_of_le fo fm (by rw [vm]; norm_num) (n := 1) (by norm_num) (by rw [vo, vm]; norm_num [abs_of_nonneg])
  rw [vo, vm] at vr
  have hr0 : 0 ≤ R32 (1 / 255) := R_nonneg (by norm_num)
  have hr1 : R32 (1 / 255) ≤ 1 / 128 := by
    have := R32_mono (show (1 / 255 : ℚ) ≤ 2^(-7 : ℤ) by norm_num)
    have h2 : R32 ((2 : ℚ)^(-7 : ℤ)) = 2^(-7 : ℤ) := R_two_zpow (p := spec.mantissaBits) (emin := spec.minExponent) (one_le_mantissaBits spec) (j := -7) (by decide)
    rw [h2] at this; norm_num at this ⊢; exact this
  have hkq : (k : ℚ) ≤ 255 := by exact_mod_cast hk
  obtain ⟨fp, vp⟩ := mul_of_le f1 fr (n := 2) (by norm_num) (by
    rw [v1, vr, abs_of_nonneg (mul_nonneg (by positivity) hr0)]
    have : (k : ℚ) * R32 (1 / 255) ≤ 255 * (1 / 128) := mul_le_mul hkq hr1 hr0 (by norm_num)
    norm_num at this ⊢; linarith)
  exact ⟨fp, by rw [vp, v1, vr]⟩

theorem toNat_add_C23 (n : UInt8) : (n.toUInt32 + C23).toNat = 150 * 2^23 + n.toNat := by
  have := n.toNat_lt
  rw [UInt32.toNat_add, UInt8.toNat_toUInt32, show C23.toNat = 150 * 2^23 from rfl, Nat.mod_eq_of_lt (by omega)]; ring

theorem fin_one32' : IsFin (Float32.ofBits 0x3f800000) := rfl
theorem v_one32' : v (Float32.ofBits 0x3f800000) = 1 := by
  unfold v; rw [show U (Float32.ofBits 0x3f800000) = .finite .positive 0x800000 (-23) (by decide) from rfl]; norm_num [val, sgn]

/-- **`u8 → f32`**: value `R32 (n · R32 (1/255))` -/
theorem u8_to_f32_value (n : ℕ) (hn : n < 256) :
    IsFin (uintToF32 8 n) ∧ v (uintToF32 8 n) = R32 ((n : ℚ) * R32 (1 / 255)) := by
  have hnat : (UInt8.ofNat n).toNat = n := UInt8.toNat_ofNat_of_lt' hn
  obtain ⟨fa, va⟩ := magic_pattern32 (k := n) (by omega) (by rw [toNat_add_C23, hnat])
  obtain ⟨fc, vc⟩ := magic_pattern32 (a := C23) (k := 0) (by norm_num) (by decide)
  obtain ⟨fm, vm⟩ := magic_pattern32 (a := 255 + C23) (k := 255) (by norm_num) (by decide)
  have vc' : v (Float32.ofBits C23) = 2^23 := by rw [vc]; simp
  obtain ⟨f1, v1⟩ := magic_sub32 (by omega) fa fc va vc'
  obtain ⟨f2, v2⟩ := magic_sub32 (k := 255) (by norm_num) fm fc vm vc'
  exact magic_scale32 (by omega) f1 v1 fin_one32' v_one32' f2 (by rw [v2]; norm_num)

/-- **`u8 → f32` is monotone** over every pair of source values -/
theorem u8_to_f32_monotone_all : ∀ n n' : ℕ, n ≤ n' → n' < 256 → uintToF32 8 n ≤ uintToF32 8 n' := by
  intro n n' h hn'
  obtain ⟨f1, v1⟩ := u8_to_f32_value n (by omega)
  obtain ⟨f2, v2⟩ := u8_to_f32_value n' hn'
  rw [le_iff f1 f2, v1, v2]
  apply R32_mono
  exact mul_le_mul_of_nonneg_right (by exact_mod_cast h) (R_nonneg (by norm_num))

theorem U_of_toBits32 {x : Float32} {b : UInt32} (h : x.toBits = b) : U x = UnpackedFloat.unpack spec b.toBitVec := by
  rw [← h]; rfl

/-- `0 ↦ 0` and `255 ↦ exactly 1` as values (from the bit patterns decided in `C06.uint_to_float_ends`) -/
theorem u8_to_f32_ends : v (uintToF32 8 0) = 0 ∧ v (uintToF32 8 255) = 1 := by
  have h := uint_to_float_ends 8 (by decide)
  refine ⟨?_, ?_⟩
  · unfold v; rw [U_of_toBits32 h.1]; rfl
  · unfold v; rw [U_of_toBits32 h.2.1]
    rw [show UnpackedFloat.unpack spec (0x3f800000 : UInt32).toBitVec = .finite .positive 0x800000 (-23) (by decide) from rfl]
    norm_num [val, sgn]

end f32

/-! ## f64 -/
section f64
open Ieee.F64

/-- the pattern `C52 + k` is the float `2^52 + k` -/
theorem magic_pattern64 {a : UInt64} {k : ℕ} (hk : k < 2^52) (ha : a.toNat = 0 * 2^63 + 1075 * 2^52 + k) :
    IsFin (Float.ofBits a) ∧ v (Float.ofBits a) = 2^52 + (k : ℚ) := by
  obtain ⟨f1, f2, f3⟩ := fields_of_sum (s := 0) (E := 1075) (M := k) (by norm_num) (by norm_num) hk
  obtain ⟨hf, hv⟩ := ofBits_fin (a := a) (by rw [ha, f2]; norm_num)
  refine ⟨hf, ?_⟩
  rw [hv, ha]; unfold signOf wOf
  rw [f1, f2, f3, if_pos rfl, if_neg (by norm_num)]
  simp only [sgn, one_mul]
  simp only [Nat.cast_add, Nat.cast_pow, Nat.cast_ofNat, Nat.cast_mul]
  have : (2 : ℚ)^(1075 - 1) * 2^(-1074 : ℤ) = 1 := by
    rw [← zpow_natCast, ← zpow_add₀ (by norm_num)]; norm_num
  calc ((2 : ℚ)^52 + k) * 2^(1075 - 1) * 2^(-1074 : ℤ) = ((2 : ℚ)^52 + k) * (2^(1075 - 1) * 2^(-1074 : ℤ)) := mul_assoc _ _ _
    _ = _ := by rw [this, mul_one]

theorem magic_sub64 {a c : Float} {k : ℕ} (hk : k < 2^52) (fa : IsFin a) (fc : IsFin c) (va : v a = 2^52 + (k : ℚ))
    (vc : v c = 2^52) : IsFin (a - c) ∧ v (a - c) = k := by
  have hd : v a - v c = (k : ℚ) := by rw [va, vc]; ring
  obtain ⟨hf, hv⟩ := sub_of_le fa fc (n := k) (lt_trans hk (by norm_num)) (by rw [hd, abs_of_nonneg (by positivity)])
  exact ⟨hf, by rw [hv, hd, R64_natCast (lt_trans hk (by norm_num))]⟩

theorem magic_scale64 {cf one mf : Float} {k : ℕ} (hk : k ≤ 255) (f1 : IsFin cf) (v1 : v cf = k) (fo : IsFin one)
    (vo : v one = 1) (fm : IsFin mf) (vm : v mf = 255) :
    IsFin (cf * (one / mf)) ∧ v (cf * (one / mf)) = R64 ((k : ℚ) * R64 (1 / 255)) := by
  obtain ⟨fr, vr⟩ := div_of_le fo fm (by rw [vm]; norm_num) (n := 1) (by norm_num) (by rw [vo, vm]; norm_num [abs_of_nonneg])
  rw [vo, vm] at vr
  have hr0 : 0 ≤ R64 (1 / 255) := R_nonneg (by norm_num)
  have hr1 : R64 (1 / 255) ≤ 1 / 128 := by
    have := R64_mono (show (1 / 255 : ℚ) ≤ 2^(-7 : ℤ) by norm_num)
    have h2 : R64 ((2 : ℚ)^(-7 : ℤ)) = 2^(-7 : ℤ) := R_two_zpow (p := spec.mantissaBits) (emin := spec.minExponent) (one_le_mantissaBits spec) (j := -7) (by decide)
    rw [h2] at this; norm_num at this ⊢; exact this
  have hkq : (k : ℚ) ≤ 255 := by exact_mod_cast hk
  obtain ⟨fp, vp⟩ := mul_of_le f1 fr (n := 2) (by norm_num) (by
    rw [v1, vr, abs_of_nonneg (mul_nonneg (by positivity) hr0)]
    have : (k : ℚ) * R64 (1 / 255) ≤ 255 * (1 / 128) := mul_le_mul hkq hr1 hr0 (by norm_num)
    norm_num at this ⊢; linarith)
  exact ⟨fp, by rw [vp, v1, vr]⟩

theorem toNat_add_C52 (n : UInt8) : (n.toUInt64 + C52).toNat = 0 * 2^63 + 1075 * 2^52 + n.toNat := by
  have := n.toNat_lt
  rw [UInt64.toNat_add, UInt8.toNat_toUInt64, show C52.toNat = 1075 * 2^52 from rfl, Nat.mod_eq_of_lt (by omega)]; ring

/-- **`u8 → f64`**: value `R64 (n · R64 (1/255))` -/
theorem u8_to_f64_value (n : ℕ) (hn : n < 256) :
    IsFin (uintToF64 8 n) ∧ v (uintToF64 8 n) = R64 ((n : ℚ) * R64 (1 / 255)) := by
  have hnat : (UInt8.ofNat n).toNat = n := UInt8.toNat_ofNat_of_lt' hn
  obtain ⟨fa, va⟩ := magic_pattern64 (k := n) (by omega) (by rw [toNat_add_C52, hnat])
  obtain ⟨fc, vc⟩ := magic_pattern64 (a := C52) (k := 0) (by norm_num) (by decide)
  obtain ⟨fm, vm⟩ := magic_pattern64 (a := 255 + C52) (k := 255) (by norm_num) (by decide)
  have vc' : v (Float.ofBits C52) = 2^52 := by rw [vc]; simp
  obtain ⟨f1, v1⟩ := magic_sub64 (by omega) fa fc va vc'
  obtain ⟨f2, v2⟩ := magic_sub64 (k := 255) (by norm_num) fm fc vm vc'
  exact magic_scale64 (by omega) f1 v1 fin_one64 v_one64 f2 (by rw [v2]; norm_num)

/-- **`u8 → f64` is monotone** over every pair of source values -/
theorem u8_to_f64_monotone_all : ∀ n n' : ℕ, n ≤ n' → n' < 256 → uintToF64 8 n ≤ uintToF64 8 n' := by
  intro n n' h hn'
  obtain ⟨f1, v1⟩ := u8_to_f64_value n (by omega)
  obtain ⟨f2, v2⟩ := u8_to_f64_value n' hn'
  rw [le_iff f1 f2, v1, v2]
  apply R64_mono
  exact mul_le_mul_of_nonneg_right (by exact_mod_cast h) (R_nonneg (by norm_num))

theorem U_of_toBits64 {x : Float} {b : UInt64} (h : x.toBits = b) : U x = UnpackedFloat.unpack spec b.toBitVec := by
  rw [← h]; rfl

theorem u8_to_f64_ends : v (uintToF64 8 0) = 0 ∧ v (uintToF64 8 255) = 1 := by
  have h := uint_to_float_ends 8 (by decide)
  refine ⟨?_, ?_⟩
  · unfold v; rw [U_of_toBits64 h.2.2.1]; rfl
  · unfold v; rw [U_of_toBits64 h.2.2.2]
    rw [show UnpackedFloat.unpack spec (0x3ff0000000000000 : UInt64).toBitVec =
      .finite .positive 0x10000000000000 (-52) (by decide) from rfl]
    norm_num [val, sgn]

end f64

end C06
