/-
  C01 — whole routes of the Ottosson family at ℝ, as statements about the model's route interpreter (`RouteEval`):
  * `Oklch → Oklab → Oklch`, `Okhwb → Okhsv → Okhwb` (and the reverse orders): exact, instances of the composition principle;
  * `Xyz → Oklab → Xyz`: `M1⁻¹·cube(M2⁻¹·M2·cbrt(M1·c))` with the decided bounds of the two tabulated matrix pairs carried through
    the cube — an explicit ε proportional to `‖xyz‖∞`, for **every** real colour (the model's cube root at ℝ is odd);
  * K1 lifted to colours: the direct `Rgb<sRGB primaries> → Oklab` edge (Ottosson's matrices) against the tree path through `Xyz`.
-/
import PaletteProofs.C01_WholeChain
import PaletteProofs.C01_Ok
import PaletteProofs.Lemmas.CubeSandwich

namespace C01WholeOk
open RouteEval Route C01Hops C01Chain Ok C01Ok C01Rgb CubeSandwich CbrtReal

/-- the two `Rgb ↔ Xyz` routes (also decided in `C01WholeRgb.routes_rgb`; repeated so that this module does not import it) -/
theorem route_rgb_xyz : routeOf RGB XYZ = some [RGB, XYZ] := by decide +kernel
theorem route_xyz_rgb : routeOf XYZ RGB = some [XYZ, RGB] := by decide +kernel

theorem routes_ok :
    routeOf OKLCH OKLAB = some [OKLCH, OKLAB] ∧ routeOf OKLAB OKLCH = some [OKLAB, OKLCH] ∧
    routeOf OKHWB OKHSV = some [OKHWB, OKHSV] ∧ routeOf OKHSV OKHWB = some [OKHSV, OKHWB] ∧
    routeOf XYZ OKLAB = some [XYZ, OKLAB] ∧ routeOf OKLAB XYZ = some [OKLAB, XYZ] ∧
    routeOf RGB OKLAB = some [RGB, OKLAB] ∧ routeOf OKLAB RGB = some [OKLAB, RGB] ∧
    routeOf XYZ OKLCH = some [XYZ, OKLAB, OKLCH] ∧ routeOf OKLCH XYZ = some [OKLCH, OKLAB, XYZ] := by
  decide +kernel

/-! ### the exact polar / hwb pairs at the route level -/
section exact
variable (c : Cfg)

/-- **`Oklch → Oklab → Oklch`**: the identity for positive chroma and a stored hue in `(0°, 360°]` -/
theorem oklch_oklab_oklch_route (L C h : ℝ) (hC : 0 < C) (h0 : 0 < h) (h360 : h ≤ 360) :
    roundTrip c OKLCH OKLAB ⟨L, C, h⟩ = some ⟨L, C, h⟩ :=
  roundTrip_of_chain (D := fun x => 0 < x.c1 ∧ 0 < x.c2 ∧ x.c2 ≤ 360) routes_ok.1 routes_ok.2.1
    (.step (hop_oklch_oklab c) (hop_oklab_oklch c) (D' := fun _ => True)
      (fun x hx => oklch_oklab_oklch x.c0 x.c1 x.c2 hx.1 hx.2.1 hx.2.2) (fun _ _ => trivial) (.last _ _)) _ ⟨hC, h0, h360⟩

/-- **`Oklab → Oklch → Oklab`**: the identity on all of ℝ³ -/
theorem oklab_oklch_oklab_route (x : V3 ℝ) : roundTrip c OKLAB OKLCH x = some x :=
  roundTrip_of_chain (D := fun _ => True) routes_ok.2.1 routes_ok.1
    (.step (hop_oklab_oklch c) (hop_oklch_oklab c) (D' := fun _ => True)
      (fun x _ => oklab_oklch_oklab x.c0 x.c1 x.c2) (fun _ _ => trivial) (.last _ _)) x trivial

/-- **`Okhwb → Okhsv → Okhwb`**, `b ≠ 1`; **`Okhsv → Okhwb → Okhsv`**, `v ≠ 0`: the identity -/
theorem okhwb_okhsv_okhwb_route (h w b : ℝ) (hb : b ≠ 1) : roundTrip c OKHWB OKHSV ⟨h, w, b⟩ = some ⟨h, w, b⟩ :=
  roundTrip_of_chain (D := fun x => x.c2 ≠ 1) routes_ok.2.2.1 routes_ok.2.2.2.1
    (.step (hop_okhwb_okhsv c) (hop_okhsv_okhwb c) (D' := fun _ => True)
      (fun x hx => okhwb_okhsv_okhwb x.c0 x.c1 x.c2 hx) (fun _ _ => trivial) (.last _ _)) _ hb

theorem okhsv_okhwb_okhsv_route (h s v : ℝ) (hv : v ≠ 0) : roundTrip c OKHSV OKHWB ⟨h, s, v⟩ = some ⟨h, s, v⟩ :=
  roundTrip_of_chain (D := fun x => x.c2 ≠ 0) routes_ok.2.2.2.1 routes_ok.2.2.1
    (.step (hop_okhsv_okhwb c) (hop_okhwb_okhsv c) (D' := fun _ => True)
      (fun x hx => okhsv_okhwb_okhsv x.c0 x.c1 x.c2 hx) (fun _ _ => trivial) (.last _ _)) _ hv

end exact

/-! ### `Xyz → Oklab → Xyz` -/

/-- the tabulated pairs at ℝ (decided over ℚ on the generated tables, entrywise) and entry bounds of `M1`, `M1⁻¹` -/
theorem m1_pair : NearId (M3.mul (m1Inv : M3 ℝ) m1) ((1e-16 : Rat) : ℝ) :=
  nearId_of_tables _ _ _ _ _ _ _ _ _ _ _ _ _ _ _ _ _ _ _ (by decide +kernel)
theorem m2_pair : NearId (M3.mul (m2Inv : M3 ℝ) m2) ((1.3e-19 : Rat) : ℝ) :=
  nearId_of_tables _ _ _ _ _ _ _ _ _ _ _ _ _ _ _ _ _ _ _ (by decide +kernel)

theorem m1_entries : EntryLe (m1 : M3 ℝ) 0.93 := by
  simp only [EntryLe, m1, Gen.Mat.oklabM1, M3.ofK, RealScalar.const_eq, RealScalar.eval_neg, RealScalar.eval_ofSci]
  norm_num [abs_le]
theorem m1Inv_entries : EntryLe (m1Inv : M3 ℝ) 1.59 := by
  simp only [EntryLe, m1Inv, Gen.Mat.oklabM1Inv, M3.ofK, RealScalar.const_eq, RealScalar.eval_neg, RealScalar.eval_ofSci]
  norm_num [abs_le]

theorem oklab_xyz_eq_sandwich (x : V3 ℝ) : oklabToXyz (xyzToOklab x) = sandwich m1 m1Inv m2 m2Inv x := rfl

/-- **`Xyz → Oklab → Xyz`, every real colour** (negative components included): the composite of the two edge functions moves each
    component by at most `3.2e-16·‖xyz‖∞` — the decided bound of `M1⁻¹·M1` (1e-16 entrywise) plus that of `M2⁻¹·M2` (1.3e-19)
    carried through the cube and `M1⁻¹` -/
theorem xyz_oklab_xyz_fn (x : V3 ℝ) : Within (3.2e-16 * linf x) (oklabToXyz (xyzToOklab x)) x := by
  rw [oklab_xyz_eq_sandwich]
  have h := sandwich_within m1 m1Inv m2 m2Inv _ _ _ _ m1_pair m2_pair m1_entries m1Inv_entries x
  have hR := linf_nonneg x
  have hc : (3 * ((1e-16 : Rat) : ℝ) + 3 * 1.59 * (3 * ((1.3e-19 : Rat) : ℝ) * (3 + 9 * ((1.3e-19 : Rat) : ℝ) + 9 * ((1.3e-19 : Rat) : ℝ) ^ 2) * (3 * 0.93)))
      ≤ 3.2e-16 := by norm_num
  have hle := mul_le_mul_of_nonneg_right hc hR
  exact ⟨le_trans h.1 hle, le_trans h.2.1 hle, le_trans h.2.2 hle⟩

/-- … at the route level (the `Xyz ↔ Oklab` edges exist for the `D65` white point only) -/
theorem xyz_oklab_xyz_route (c : Cfg) (hwp : c.wp = "D65") (x : V3 ℝ) :
    ∃ y, roundTrip c XYZ OKLAB x = some y ∧ Within (3.2e-16 * linf x) y x := by
  refine ⟨oklabToXyz (xyzToOklab x), ?_, xyz_oklab_xyz_fn x⟩
  unfold roundTrip
  rw [convertAt_of c routes_ok.2.2.2.2.1 (runPath_two c (hop_xyz_oklab c hwp)), Option.bind_some,
    convertAt_of c routes_ok.2.2.2.2.2.1 (runPath_two c (hop_oklab_xyz c hwp))]

/-- **`Xyz → Oklab → Oklch → Oklab → Xyz` within the same ε** (`Oklab → Oklch → Oklab` is exact on all of ℝ³) -/
theorem xyz_oklch_xyz_route (c : Cfg) (hwp : c.wp = "D65") (x : V3 ℝ) :
    ∃ y, roundTrip c XYZ OKLCH x = some y ∧ Within (3.2e-16 * linf x) y x := by
  refine ⟨oklabToXyz (xyzToOklab x), ?_, xyz_oklab_xyz_fn x⟩
  have pf : runPath c [XYZ, OKLAB, OKLCH] = some (oklabToOklch ∘ xyzToOklab) :=
    runPath_cons c (hop_xyz_oklab c hwp) (runPath_two c (hop_oklab_oklch c))
  have pb : runPath c [OKLCH, OKLAB, XYZ] = some (oklabToXyz ∘ oklchToOklab) :=
    runPath_cons c (hop_oklch_oklab c) (runPath_two c (hop_oklab_xyz c hwp))
  unfold roundTrip
  rw [convertAt_of c routes_ok.2.2.2.2.2.2.2.2.1 pf, Option.bind_some, convertAt_of c routes_ok.2.2.2.2.2.2.2.2.2 pb]
  show some (oklabToXyz (oklchToOklab (oklabToOklch (xyzToOklab x)))) = _
  rw [show oklchToOklab (oklabToOklch (xyzToOklab x)) = xyzToOklab x from oklab_oklch_oklab _ _ _]

/-! ### K1 lifted to colours: the direct `Rgb → Oklab` edge against the tree path `Rgb → Xyz → Oklab` -/

/-- cone responses of the direct path (`linear_srgb_to_oklab`, Ottosson's sRGB → LMS table) -/
noncomputable def lmsDirect (x : V3 ℝ) : V3 ℝ :=
  let k : Nat → ℝ := kAt Gen.Mat.linSrgbToOklabCoeffs
  ⟨k 0 * x.c0 + k 1 * x.c1 + k 2 * x.c2, k 3 * x.c0 + k 4 * x.c1 + k 5 * x.c2, k 6 * x.c0 + k 7 * x.c1 + k 8 * x.c2⟩

/-- cone responses of the tree path (`M1` applied to the crate's sRGB → XYZ matrix applied to the colour) -/
noncomputable def lmsVia (x : V3 ℝ) : V3 ℝ := m1.mulVec ((M3.ofK srgbRgbToXyz : M3 ℝ).mulVec x)

theorem direct_eq (x : V3 ℝ) : linSrgbToOklab x =
    ⟨kAt Gen.Mat.linSrgbToOklabCoeffs 9 * Scalar.cbrt (lmsDirect x).c0 + kAt Gen.Mat.linSrgbToOklabCoeffs 10 * Scalar.cbrt (lmsDirect x).c1
        - kAt Gen.Mat.linSrgbToOklabCoeffs 11 * Scalar.cbrt (lmsDirect x).c2,
     kAt Gen.Mat.linSrgbToOklabCoeffs 12 * Scalar.cbrt (lmsDirect x).c0 - kAt Gen.Mat.linSrgbToOklabCoeffs 13 * Scalar.cbrt (lmsDirect x).c1
        + kAt Gen.Mat.linSrgbToOklabCoeffs 14 * Scalar.cbrt (lmsDirect x).c2,
     kAt Gen.Mat.linSrgbToOklabCoeffs 15 * Scalar.cbrt (lmsDirect x).c0 + kAt Gen.Mat.linSrgbToOklabCoeffs 16 * Scalar.cbrt (lmsDirect x).c1
        - kAt Gen.Mat.linSrgbToOklabCoeffs 17 * Scalar.cbrt (lmsDirect x).c2⟩ := rfl

theorem via_eq (x : V3 ℝ) : xyzToOklab ((M3.ofK srgbRgbToXyz : M3 ℝ).mulVec x) =
    m2.mulVec ⟨Scalar.cbrt (lmsVia x).c0, Scalar.cbrt (lmsVia x).c1, Scalar.cbrt (lmsVia x).c2⟩ := rfl

/-- **decided on the tables, entry by entry in relative terms**: on non-negative linear sRGB the cone responses of the two paths
    differ by at most `2.4e-4` *of the response itself* (all entries of both matrices are positive) — this, not the absolute row-sum
    distance of `k1_forward`, is what survives the cube root near black -/
theorem lms_rel (x : V3 ℝ) (h0 : 0 ≤ x.c0) (h1 : 0 ≤ x.c1) (h2 : 0 ≤ x.c2) :
    |(lmsVia x).c0 - (lmsDirect x).c0| ≤ 2.4e-4 * (lmsDirect x).c0 ∧ |(lmsVia x).c1 - (lmsDirect x).c1| ≤ 2.4e-4 * (lmsDirect x).c1 ∧
    |(lmsVia x).c2 - (lmsDirect x).c2| ≤ 2.4e-4 * (lmsDirect x).c2 := by
  obtain ⟨r, g, b⟩ := x
  simp only at h0 h1 h2
  simp only [lmsVia, lmsDirect, m1, srgbRgbToXyz, Gen.Mat.rgbSpaces, Gen.Mat.oklabM1, M3.ofK, M3.mulVec, C02Ok.kAt_eq,
    Gen.Mat.linSrgbToOklabCoeffs, List.getD_cons_zero, List.getD_cons_succ, RealScalar.const_eq, RealScalar.eval_neg, RealScalar.eval_ofSci]
  refine ⟨?_, ?_, ?_⟩ <;> (rw [abs_le]; constructor <;> (norm_num; linarith))

theorem lmsDirect_range (x : V3 ℝ) (h0 : 0 ≤ x.c0) (h1 : 0 ≤ x.c1) (h2 : 0 ≤ x.c2) (g0 : x.c0 ≤ 1) (g1 : x.c1 ≤ 1) (g2 : x.c2 ≤ 1) :
    (0 ≤ (lmsDirect x).c0 ∧ (lmsDirect x).c0 ≤ 1) ∧ (0 ≤ (lmsDirect x).c1 ∧ (lmsDirect x).c1 ≤ 1) ∧ (0 ≤ (lmsDirect x).c2 ∧ (lmsDirect x).c2 ≤ 1) := by
  obtain ⟨r, g, b⟩ := x
  simp only at h0 h1 h2 g0 g1 g2
  simp only [lmsDirect, C02Ok.kAt_eq, Gen.Mat.linSrgbToOklabCoeffs, List.getD_cons_zero, List.getD_cons_succ, RealScalar.eval_ofSci]
  refine ⟨⟨?_, ?_⟩, ⟨?_, ?_⟩, ⟨?_, ?_⟩⟩ <;> (norm_num; linarith)

/-- the cube roots of the two paths' cone responses differ by at most `8.01e-5` on the unit cube -/
theorem cbrt_close {u u' : ℝ} (hu0 : 0 ≤ u) (hu1 : u ≤ 1) (h : |u' - u| ≤ 2.4e-4 * u) : |Scalar.cbrt u' - Scalar.cbrt u| ≤ 8.01e-5 := by
  have hr := cbrt_rel hu0 (by norm_num) (by norm_num) h
  have ht1 : Scalar.cbrt u ≤ 1 := by rw [cbrt_le_iff]; norm_num; exact hu1
  have ht0 := cbrt_nonneg hu0
  have : |Scalar.cbrt u' - Scalar.cbrt u| * (3 - 3 * 2.4e-4) ≤ 2.4e-4 := by nlinarith
  norm_num at this ⊢; linarith

/-- **K1 for colours (forward)**: for linear sRGB in `[0,1]³` the two routes to `Oklab` — Ottosson's direct matrices (the shortcut edge
    `Rgb → Oklab`) and `M1 ∘ (sRGB → XYZ)` (the tree path through `Xyz`) — differ by at most `8.1e-5` in `l`, `3.9e-4` in `a`, `1.3e-4` in `b` -/
theorem k1_forward_colour (x : V3 ℝ) (h0 : 0 ≤ x.c0) (h1 : 0 ≤ x.c1) (h2 : 0 ≤ x.c2) (g0 : x.c0 ≤ 1) (g1 : x.c1 ≤ 1) (g2 : x.c2 ≤ 1) :
    |(xyzToOklab ((M3.ofK srgbRgbToXyz : M3 ℝ).mulVec x)).c0 - (linSrgbToOklab x).c0| ≤ 8.1e-5 ∧
    |(xyzToOklab ((M3.ofK srgbRgbToXyz : M3 ℝ).mulVec x)).c1 - (linSrgbToOklab x).c1| ≤ 3.9e-4 ∧
    |(xyzToOklab ((M3.ofK srgbRgbToXyz : M3 ℝ).mulVec x)).c2 - (linSrgbToOklab x).c2| ≤ 1.3e-4 := by
  obtain ⟨⟨a0, a1⟩, ⟨b0, b1⟩, ⟨c0, c1⟩⟩ := lmsDirect_range x h0 h1 h2 g0 g1 g2
  obtain ⟨r0, r1, r2⟩ := lms_rel x h0 h1 h2
  have e0 := cbrt_close a0 a1 r0
  have e1 := cbrt_close b0 b1 r1
  have e2 := cbrt_close c0 c1 r2
  rw [via_eq, direct_eq]
  generalize Scalar.cbrt (lmsVia x).c0 = p0 at e0
  generalize Scalar.cbrt (lmsVia x).c1 = p1 at e1
  generalize Scalar.cbrt (lmsVia x).c2 = p2 at e2
  generalize Scalar.cbrt (lmsDirect x).c0 = q0 at e0
  generalize Scalar.cbrt (lmsDirect x).c1 = q1 at e1
  generalize Scalar.cbrt (lmsDirect x).c2 = q2 at e2
  rw [abs_le] at e0 e1 e2
  simp only [m2, Gen.Mat.oklabM2, M3.ofK, M3.mulVec, C02Ok.kAt_eq, Gen.Mat.linSrgbToOklabCoeffs, List.getD_cons_zero, List.getD_cons_succ,
    RealScalar.const_eq, RealScalar.eval_neg, RealScalar.eval_ofSci]
  refine ⟨?_, ?_, ?_⟩ <;> (rw [abs_le]; constructor <;> (norm_num at *; linarith))

/-- non-vacuity: mid gray is in the unit cube -/
example : (0 : ℝ) ≤ 0.5 ∧ (0.5 : ℝ) ≤ 1 := by norm_num

/-! ### K1 lifted to colours, inverse direction: the direct `Oklab → Rgb` edge against `Oklab → Xyz → Rgb` (linear light) -/

/-- the sRGB `xyz_to_rgb_matrix` of the generated table (first row, as `C01Ok.srgbRgbToXyz`) -/
def srgbXyzToRgb : List K := match Gen.Mat.rgbSpaces with
  | (_, _, _, m, _) :: _ => m
  | [] => []

/-- `l_, m_, s_` of the direct path (`oklab_to_linear_srgb`, the 10-digit `Lab → LMS'` coefficients) -/
noncomputable def lmsPrimeDirect (c : V3 ℝ) : V3 ℝ :=
  let k : Nat → ℝ := kAt Gen.Mat.oklabToLinSrgbCoeffs
  ⟨c.c0 + k 0 * c.c1 + k 1 * c.c2, c.c0 - k 2 * c.c1 - k 3 * c.c2, c.c0 - k 4 * c.c1 - k 5 * c.c2⟩

theorem inv_direct_eq (c : V3 ℝ) : oklabToLinSrgb c =
    (let k : Nat → ℝ := kAt Gen.Mat.oklabToLinSrgbCoeffs
     let v := lmsPrimeDirect c
     ⟨k 6 * (v.c0 * v.c0 * v.c0) - k 7 * (v.c1 * v.c1 * v.c1) + k 8 * (v.c2 * v.c2 * v.c2),
      k 9 * (v.c0 * v.c0 * v.c0) + k 10 * (v.c1 * v.c1 * v.c1) - k 11 * (v.c2 * v.c2 * v.c2),
      k 12 * (v.c0 * v.c0 * v.c0) - k 13 * (v.c1 * v.c1 * v.c1) + k 14 * (v.c2 * v.c2 * v.c2)⟩) := rfl

theorem inv_via_eq (c : V3 ℝ) : RgbFam.xyzToRgb srgbXyzToRgb .linear (oklabToXyz c) =
    (let v := (m2Inv : M3 ℝ).mulVec c
     (M3.ofK srgbXyzToRgb : M3 ℝ).mulVec (m1Inv.mulVec ⟨v.c0 * v.c0 * v.c0, v.c1 * v.c1 * v.c1, v.c2 * v.c2 * v.c2⟩)) := rfl

/-- the two `Lab → LMS'` tables (10 and 20 digits) on nominal Oklab components: within `7e-8` -/
theorem lmsPrime_close (c : V3 ℝ) (h0 : |c.c0| ≤ 1) (h1 : |c.c1| ≤ 1) (h2 : |c.c2| ≤ 1) :
    |((m2Inv : M3 ℝ).mulVec c).c0 - (lmsPrimeDirect c).c0| ≤ 7e-8 ∧ |((m2Inv : M3 ℝ).mulVec c).c1 - (lmsPrimeDirect c).c1| ≤ 7e-8 ∧
    |((m2Inv : M3 ℝ).mulVec c).c2 - (lmsPrimeDirect c).c2| ≤ 7e-8 := by
  obtain ⟨L, a, b⟩ := c
  simp only at h0 h1 h2
  rw [abs_le] at h0 h1 h2
  simp only [lmsPrimeDirect, m2Inv, Gen.Mat.oklabM2Inv, M3.ofK, M3.mulVec, C02Ok.kAt_eq, Gen.Mat.oklabToLinSrgbCoeffs, List.getD_cons_zero,
    List.getD_cons_succ, RealScalar.const_eq, RealScalar.eval_neg, RealScalar.eval_ofSci]
  refine ⟨?_, ?_, ?_⟩ <;> (rw [abs_le]; constructor <;> (norm_num; linarith))

/-- **K1 for colours (inverse)**: for an Oklab colour with nominal components (`|l|, |a|, |b| ≤ 1`) whose cone-response roots
    `l_, m_, s_` lie in `[0,1]` (every colour of the sRGB gamut), the two routes to *linear* sRGB — Ottosson's direct matrices (the
    shortcut edge `Oklab → Rgb`) and `(XYZ → sRGB) ∘ M1⁻¹` (the tree path through `Xyz`) — differ by at most `6.9e-4` in red,
    `6.2e-5` in green, `4.2e-4` in blue -/
theorem k1_inverse_colour (c : V3 ℝ) (h0 : |c.c0| ≤ 1) (h1 : |c.c1| ≤ 1) (h2 : |c.c2| ≤ 1)
    (v0 : 0 ≤ (lmsPrimeDirect c).c0 ∧ (lmsPrimeDirect c).c0 ≤ 1) (v1 : 0 ≤ (lmsPrimeDirect c).c1 ∧ (lmsPrimeDirect c).c1 ≤ 1)
    (v2 : 0 ≤ (lmsPrimeDirect c).c2 ∧ (lmsPrimeDirect c).c2 ≤ 1) :
    |(RgbFam.xyzToRgb srgbXyzToRgb .linear (oklabToXyz c)).c0 - (oklabToLinSrgb c).c0| ≤ 6.9e-4 ∧
    |(RgbFam.xyzToRgb srgbXyzToRgb .linear (oklabToXyz c)).c1 - (oklabToLinSrgb c).c1| ≤ 6.2e-5 ∧
    |(RgbFam.xyzToRgb srgbXyzToRgb .linear (oklabToXyz c)).c2 - (oklabToLinSrgb c).c2| ≤ 4.2e-4 := by
  obtain ⟨d0, d1, d2⟩ := lmsPrime_close c h0 h1 h2
  have cubeStep : ∀ (x t : ℝ), 0 ≤ t → t ≤ 1 → |x - t| ≤ 7e-8 → 0 ≤ t * t * t ∧ t * t * t ≤ 1 ∧ |x * x * x - t * t * t| ≤ 2.2e-7 := by
    intro x t t0 t1 hd
    have hb : |t| ≤ 1 := by rw [abs_le]; constructor <;> linarith
    have := abs_cube_sub_le hb hd
    have e1 : t + (x - t) = x := by ring
    have e2 : t ^ 3 = t * t * t := by ring
    rw [e1, e2] at this
    refine ⟨by positivity, ?_, le_trans this (by norm_num)⟩
    have : t * t ≤ 1 := by nlinarith
    nlinarith
  obtain ⟨a0, a1, a2⟩ := cubeStep _ _ v0.1 v0.2 d0
  obtain ⟨b0, b1, b2⟩ := cubeStep _ _ v1.1 v1.2 d1
  obtain ⟨c0, c1, c2⟩ := cubeStep _ _ v2.1 v2.2 d2
  rw [inv_via_eq, inv_direct_eq]
  simp only
  generalize ((m2Inv : M3 ℝ).mulVec c).c0 * ((m2Inv : M3 ℝ).mulVec c).c0 * ((m2Inv : M3 ℝ).mulVec c).c0 = p0 at a2
  generalize ((m2Inv : M3 ℝ).mulVec c).c1 * ((m2Inv : M3 ℝ).mulVec c).c1 * ((m2Inv : M3 ℝ).mulVec c).c1 = p1 at b2
  generalize ((m2Inv : M3 ℝ).mulVec c).c2 * ((m2Inv : M3 ℝ).mulVec c).c2 * ((m2Inv : M3 ℝ).mulVec c).c2 = p2 at c2
  generalize (lmsPrimeDirect c).c0 * (lmsPrimeDirect c).c0 * (lmsPrimeDirect c).c0 = q0 at a0 a1 a2
  generalize (lmsPrimeDirect c).c1 * (lmsPrimeDirect c).c1 * (lmsPrimeDirect c).c1 = q1 at b0 b1 b2
  generalize (lmsPrimeDirect c).c2 * (lmsPrimeDirect c).c2 * (lmsPrimeDirect c).c2 = q2 at c0 c1 c2
  rw [abs_le] at a2 b2 c2
  simp only [m1Inv, srgbXyzToRgb, Gen.Mat.rgbSpaces, Gen.Mat.oklabM1Inv, M3.ofK, M3.mulVec, C02Ok.kAt_eq, Gen.Mat.oklabToLinSrgbCoeffs,
    List.getD_cons_zero, List.getD_cons_succ, RealScalar.const_eq, RealScalar.eval_neg, RealScalar.eval_ofSci]
  refine ⟨?_, ?_, ?_⟩ <;> (rw [abs_le]; constructor <;> (norm_num at *; linarith))

/-- non-vacuity of the two K1 statements: mid gray `Oklab (0.5, 0, 0)` has `l_ = m_ = s_ = 0.5` -/
example : (0 : ℝ) ≤ (lmsPrimeDirect ⟨0.5, 0, 0⟩).c0 ∧ (lmsPrimeDirect ⟨0.5, 0, 0⟩).c0 ≤ 1 := by
  simp only [lmsPrimeDirect]; norm_num

/-! ### the two shortcut edges `Rgb ↔ Oklab` against their detours, at the route level -/

/-- the unit cube -/
def InUnit (x : V3 ℝ) : Prop := (0 ≤ x.c0 ∧ x.c0 ≤ 1) ∧ (0 ≤ x.c1 ∧ x.c1 ≤ 1) ∧ (0 ≤ x.c2 ∧ x.c2 ≤ 1)

/-- a configuration whose RGB standard sits on the sRGB primaries (the `TypeId::of::<S::Space>() == TypeId::of::<Srgb>()` branch) -/
structure SrgbCfg (c : Cfg) (s : RgbFam.Std) (tf : Transfer.Fn) : Prop where
  std : StdOk c s
  wp : c.wp = "D65"
  ok : ∃ sp, Conv.okStd? c.std = some (sp, tf) ∧ sp.name = "Srgb"
  toXyz : s.toXyz = srgbRgbToXyz
  fromXyz : s.fromXyz = srgbXyzToRgb
  tf_eq : s.tf = tf

theorem srgbCfg_lin : ∃ s, SrgbCfg ⟨"D65", "LinSrgb"⟩ s .linear := ⟨_, ⟨rfl, rfl, rfl⟩, rfl, ⟨_, rfl, rfl⟩, rfl, rfl, rfl⟩
theorem srgbCfg_srgb : ∃ s, SrgbCfg ⟨"D65", "Srgb"⟩ s .srgb := ⟨_, ⟨rfl, rfl, rfl⟩, rfl, ⟨_, rfl, rfl⟩, rfl, rfl, rfl⟩
theorem srgbCfg_rec709 : ∃ s, SrgbCfg ⟨"D65", "Rec709"⟩ s .recOetf := ⟨_, ⟨rfl, rfl, rfl⟩, rfl, ⟨_, rfl, rfl⟩, rfl, rfl, rfl⟩

example : InUnit ⟨0.5, 0.5, 0.5⟩ := by unfold InUnit; norm_num

/-- **commutation, shortcut `Rgb → Oklab`** (K1): for every standard on the sRGB primaries (`Srgb`, `Linear<Srgb>`, `Rec709`, …) and
    every colour whose *linear* components lie in `[0,1]`, the derive crate's route (the direct edge) and the step-by-step conversion
    through `Xyz` (the tree path the shortcut replaces) both run, and their `Oklab` results differ by at most
    `8.1e-5 / 3.9e-4 / 1.3e-4` in `l / a / b` -/
theorem rgb_oklab_commutes (c : Cfg) (s : RgbFam.Std) (tf : Transfer.Fn) (h : SrgbCfg c s tf) (x : V3 ℝ) (hx : InUnit (RgbFam.intoLinear tf x)) :
    ∃ d v : V3 ℝ, convertAt c RGB OKLAB x = some d ∧ via c RGB XYZ OKLAB x = some v ∧
      |v.c0 - d.c0| ≤ 8.1e-5 ∧ |v.c1 - d.c1| ≤ 3.9e-4 ∧ |v.c2 - d.c2| ≤ 1.3e-4 := by
  obtain ⟨sp, hk, hname⟩ := h.ok
  refine ⟨linSrgbToOklab (RgbFam.intoLinear tf x), xyzToOklab ((M3.ofK srgbRgbToXyz : M3 ℝ).mulVec (RgbFam.intoLinear tf x)), ?_, ?_, ?_⟩
  · rw [convertAt_of c routes_ok.2.2.2.2.2.2.1 (runPath_two c (hop_rgb_oklab c s h.std sp tf hk))]
    simp [rgbToOklab, hname, RgbFam.intoLinear]
  · unfold via
    rw [convertAt_of c route_rgb_xyz (runPath_two c (hop_rgb_xyz c s h.std)), Option.bind_some,
      convertAt_of c routes_ok.2.2.2.2.1 (runPath_two c (hop_xyz_oklab c h.wp)), h.toXyz, h.tf_eq]; rfl
  · exact k1_forward_colour _ hx.1.1 hx.2.1.1 hx.2.2.1 hx.1.2 hx.2.1.2 hx.2.2.2

/-- **commutation, shortcut `Oklab → Rgb`** (K1, linear light): configuration `Linear<Srgb>` -/
theorem oklab_rgb_commutes (c : Cfg) (s : RgbFam.Std) (h : SrgbCfg c s .linear) (x : V3 ℝ) (h0 : |x.c0| ≤ 1) (h1 : |x.c1| ≤ 1) (h2 : |x.c2| ≤ 1)
    (hv : InUnit (lmsPrimeDirect x)) :
    ∃ d v : V3 ℝ, convertAt c OKLAB RGB x = some d ∧ via c OKLAB XYZ RGB x = some v ∧
      |v.c0 - d.c0| ≤ 6.9e-4 ∧ |v.c1 - d.c1| ≤ 6.2e-5 ∧ |v.c2 - d.c2| ≤ 4.2e-4 := by
  obtain ⟨sp, hk, hname⟩ := h.ok
  refine ⟨oklabToLinSrgb x, RgbFam.xyzToRgb srgbXyzToRgb .linear (oklabToXyz x), ?_, ?_, ?_⟩
  · rw [convertAt_of c routes_ok.2.2.2.2.2.2.2.1 (runPath_two c (hop_oklab_rgb c s h.std sp .linear hk))]
    simp [oklabToRgb, hname]; rfl
  · unfold via
    rw [convertAt_of c routes_ok.2.2.2.2.2.1 (runPath_two c (hop_oklab_xyz c h.wp)), Option.bind_some,
      convertAt_of c route_xyz_rgb (runPath_two c (hop_xyz_rgb c s h.std)), h.fromXyz, h.tf_eq]
  · exact k1_inverse_colour x h0 h1 h2 hv.1 hv.2.1 hv.2.2

end C01WholeOk
