/-
  C17 — from "the body reifies to a term that uses only operations in `P`" to the lane theorems, once per argument shape.

  A mask-generic body is a function polymorphic in the component interface.  `ReifiedN P body tm` records the two facts that are
  checked per body (by `rfl`, in `C17_Edges`): evaluating the term `tm` under the interpretation given by *any* instances is
  running `body` at those instances, and `tm` only uses operations from `P`.  From these, for every lane count `n`:

  * `.wide`   — for **every** SIMD implementation `W` of the interface on `Fin n → α` and every per-lane semantics `V` such that
                `W` acts lane by lane as `V` on the operations in `P` (nothing is assumed about the others): lane `i` of `body` run
                on `W` is `body` run on `V` at lane `i`'s arguments;
  * `.exact`  — if moreover `V` agrees on `P` with the scalar type's own operations: lane `i` = the scalar `body` (bit-identical);
  * `.lanes`  — the model's SIMD representation (`Simd.lanes`, `VFused.lanes`, `angleLanes`) is such a `W` with `V` = the underlying
                instances: lane `i` of the body at `Lanes n α` = the body at lane `i`.
-/
import PaletteProofs.C17_LaneWise

namespace C17
open Simd

abbrev Body1 := ∀ {α μ : Type} [VScalar α μ] [VFused α] [Angle α], α → α
abbrev Body2 := ∀ {α μ : Type} [VScalar α μ] [VFused α] [Angle α], α → α → α
abbrev Body3 := ∀ {α μ : Type} [VScalar α μ] [VFused α] [Angle α], V3 α → V3 α
abbrev Body33 := ∀ {α μ : Type} [VScalar α μ] [VFused α] [Angle α], V3 α → V3 α → V3 α

/-- the scalar type's own operations (`Mask = bool`, `select` = `if`, `mul_add` = the type's, the type's `Angle`) -/
abbrev scalarOps (α : Type) [Scalar α] [Angle α] : Ops α Bool := Ops.ofInst α

structure Reified1 (P : Op → Bool) (body : Body1) (tm : Tm) : Prop where
  reify : ∀ {α μ : Type} [VScalar α μ] [VFused α] [Angle α] (x : α), body x = tm.eval (Ops.ofInst α) (envL [x] x)
  uses : tm.usesOnly P = true

structure Reified2 (P : Op → Bool) (body : Body2) (tm : Tm) : Prop where
  reify : ∀ {α μ : Type} [VScalar α μ] [VFused α] [Angle α] (x y : α), body x y = tm.eval (Ops.ofInst α) (envL [x, y] x)
  uses : tm.usesOnly P = true

structure Reified3 (P : Op → Bool) (body : Body3) (tm : V3 Tm) : Prop where
  reify : ∀ {α μ : Type} [VScalar α μ] [VFused α] [Angle α] (c : V3 α), body c = v3Eval (Ops.ofInst α) (envL [c.c0, c.c1, c.c2] c.c0) tm
  uses : v3UsesOnly P tm = true

structure Reified33 (P : Op → Bool) (body : Body33) (tm : V3 Tm) : Prop where
  reify : ∀ {α μ : Type} [VScalar α μ] [VFused α] [Angle α] (w c : V3 α),
    body w c = v3Eval (Ops.ofInst α) (envL [w.c0, w.c1, w.c2, c.c0, c.c1, c.c2] w.c0) tm
  uses : v3UsesOnly P tm = true

variable {P : Op → Bool}

/-! ### one component → one component -/
section s1
variable {body : Body1} {tm : Tm}

theorem Reified1.wide (h : Reified1 P body tm) {α μ : Type} {n : Nat} (W : Ops (Lanes n α) (Lanes n μ)) (V : Ops α μ)
    (hW : LaneWise W V P) (x : Lanes n α) (i : Fin n) :
    (@body _ _ W.vscalar W.vfused W.angle x) i = @body _ _ V.vscalar V.vfused V.angle (x i) := by
  rw [@h.reify _ _ W.vscalar W.vfused W.angle x, @h.reify _ _ V.vscalar V.vfused V.angle (x i)]
  show (tm.eval W _) i = tm.eval V _
  rw [Tm.eval_lane hW tm h.uses, envL_lane]; rfl

theorem Reified1.exact (h : Reified1 P body tm) {α : Type} [Scalar α] [Angle α] {n : Nat} (W : Ops (Lanes n α) (Lanes n Bool)) (V : Ops α Bool)
    (hW : LaneWise W V P) (hV : AgreeOn V (scalarOps α) P) (x : Lanes n α) (i : Fin n) :
    (@body _ _ W.vscalar W.vfused W.angle x) i = body (α := α) (x i) := by
  rw [h.wide W V hW, @h.reify _ _ V.vscalar V.vfused V.angle (x i), h.reify (x i)]
  exact Tm.eval_agree hV tm h.uses _

theorem Reified1.lanes (h : Reified1 P body tm) {α μ : Type} [VScalar α μ] [VFused α] [Angle α] {n : Nat} (x : Lanes n α) (i : Fin n) :
    (body (α := Lanes n α) x) i = body (x i) :=
  h.wide (Ops.lanes n (Ops.ofInst α)) (Ops.ofInst α) (laneWise_lanes _ _) x i
end s1

/-! ### two components → one component -/
section s2
variable {body : Body2} {tm : Tm}

theorem Reified2.wide (h : Reified2 P body tm) {α μ : Type} {n : Nat} (W : Ops (Lanes n α) (Lanes n μ)) (V : Ops α μ)
    (hW : LaneWise W V P) (x y : Lanes n α) (i : Fin n) :
    (@body _ _ W.vscalar W.vfused W.angle x y) i = @body _ _ V.vscalar V.vfused V.angle (x i) (y i) := by
  rw [@h.reify _ _ W.vscalar W.vfused W.angle x y, @h.reify _ _ V.vscalar V.vfused V.angle (x i) (y i)]
  show (tm.eval W _) i = tm.eval V _
  rw [Tm.eval_lane hW tm h.uses, envL_lane]; rfl

theorem Reified2.exact (h : Reified2 P body tm) {α : Type} [Scalar α] [Angle α] {n : Nat} (W : Ops (Lanes n α) (Lanes n Bool)) (V : Ops α Bool)
    (hW : LaneWise W V P) (hV : AgreeOn V (scalarOps α) P) (x y : Lanes n α) (i : Fin n) :
    (@body _ _ W.vscalar W.vfused W.angle x y) i = body (α := α) (x i) (y i) := by
  rw [h.wide W V hW, @h.reify _ _ V.vscalar V.vfused V.angle (x i) (y i), h.reify (x i) (y i)]
  exact Tm.eval_agree hV tm h.uses _

theorem Reified2.lanes (h : Reified2 P body tm) {α μ : Type} [VScalar α μ] [VFused α] [Angle α] {n : Nat} (x y : Lanes n α) (i : Fin n) :
    (body (α := Lanes n α) x y) i = body (x i) (y i) :=
  h.wide (Ops.lanes n (Ops.ofInst α)) (Ops.ofInst α) (laneWise_lanes _ _) x y i
end s2

/-! ### colour → colour -/
section s3
variable {body : Body3} {tm : V3 Tm}

theorem Reified3.wide (h : Reified3 P body tm) {α μ : Type} {n : Nat} (W : Ops (Lanes n α) (Lanes n μ)) (V : Ops α μ)
    (hW : LaneWise W V P) (c : V3 (Lanes n α)) (i : Fin n) :
    unpack (@body _ _ W.vscalar W.vfused W.angle c) i = @body _ _ V.vscalar V.vfused V.angle (unpack c i) := by
  rw [@h.reify _ _ W.vscalar W.vfused W.angle c, @h.reify _ _ V.vscalar V.vfused V.angle (unpack c i)]
  show unpack (v3Eval W _ tm) i = v3Eval V _ tm
  rw [v3Eval_lane hW tm h.uses, envL_lane]; rfl

theorem Reified3.exact (h : Reified3 P body tm) {α : Type} [Scalar α] [Angle α] {n : Nat} (W : Ops (Lanes n α) (Lanes n Bool)) (V : Ops α Bool)
    (hW : LaneWise W V P) (hV : AgreeOn V (scalarOps α) P) (c : V3 (Lanes n α)) (i : Fin n) :
    unpack (@body _ _ W.vscalar W.vfused W.angle c) i = body (α := α) (unpack c i) := by
  rw [h.wide W V hW, @h.reify _ _ V.vscalar V.vfused V.angle (unpack c i), h.reify (unpack c i)]
  exact v3Eval_agree hV tm h.uses _

theorem Reified3.lanes (h : Reified3 P body tm) {α μ : Type} [VScalar α μ] [VFused α] [Angle α] {n : Nat} (c : V3 (Lanes n α)) (i : Fin n) :
    unpack (body (α := Lanes n α) c) i = body (unpack c i) :=
  h.wide (Ops.lanes n (Ops.ofInst α)) (Ops.ofInst α) (laneWise_lanes _ _) c i
end s3

/-! ### white point, colour → colour -/
section s33
variable {body : Body33} {tm : V3 Tm}

theorem Reified33.wide (h : Reified33 P body tm) {α μ : Type} {n : Nat} (W : Ops (Lanes n α) (Lanes n μ)) (V : Ops α μ)
    (hW : LaneWise W V P) (w c : V3 (Lanes n α)) (i : Fin n) :
    unpack (@body _ _ W.vscalar W.vfused W.angle w c) i = @body _ _ V.vscalar V.vfused V.angle (unpack w i) (unpack c i) := by
  rw [@h.reify _ _ W.vscalar W.vfused W.angle w c, @h.reify _ _ V.vscalar V.vfused V.angle (unpack w i) (unpack c i)]
  show unpack (v3Eval W _ tm) i = v3Eval V _ tm
  rw [v3Eval_lane hW tm h.uses, envL_lane]; rfl

theorem Reified33.exact (h : Reified33 P body tm) {α : Type} [Scalar α] [Angle α] {n : Nat} (W : Ops (Lanes n α) (Lanes n Bool)) (V : Ops α Bool)
    (hW : LaneWise W V P) (hV : AgreeOn V (scalarOps α) P) (w c : V3 (Lanes n α)) (i : Fin n) :
    unpack (@body _ _ W.vscalar W.vfused W.angle w c) i = body (α := α) (unpack w i) (unpack c i) := by
  rw [h.wide W V hW, @h.reify _ _ V.vscalar V.vfused V.angle (unpack w i) (unpack c i), h.reify (unpack w i) (unpack c i)]
  exact v3Eval_agree hV tm h.uses _

theorem Reified33.lanes (h : Reified33 P body tm) {α μ : Type} [VScalar α μ] [VFused α] [Angle α] {n : Nat} (w c : V3 (Lanes n α)) (i : Fin n) :
    unpack (body (α := Lanes n α) w c) i = body (unpack w i) (unpack c i) :=
  h.wide (Ops.lanes n (Ops.ofInst α)) (Ops.ofInst α) (laneWise_lanes _ _) w c i
end s33

/-! ## bodies that use approximated operations: "the scalar formula with those operations replaced"

  `S.withApprox V` is the scalar type's interface `S` in which the operations that `wide` approximates or implements by another
  formula — `neg` (`0 − x`), `powf sin cos atan2 exp ln` (polynomials), `round` (ties to even), `mul_add` (fused or not by target
  feature) — are `V`'s; `V.angle` is `V`'s π / `to_degrees` / `to_radians` / `hypot`.  If `V` agrees with `S` on `exactOps`, the
  interpretation of the hand model at `S.withApprox V`, `V.angle` is `V` itself on every operation (`mul_sub` included when `V`'s is
  the unfused `(x·m) − s`, which is what `wide` computes without the `fma` target feature and what the scalar types always compute). -/

/-- `S` with `V`'s approximated operations -/
@[reducible] def withApprox {α : Type} (S : Scalar α) (V : Ops α Bool) : Scalar α :=
  { S with neg := V.neg, exp := V.exp, ln := V.ln, round := V.round, sin := V.sin, cos := V.cos, powf := V.powf, atan2 := V.atan2,
           mulAdd := V.mulAdd }

/-- every operation but `mul_sub` -/
def notMulSub : Op → Bool
  | .mulSub => false
  | _ => true

/-- the interpretation given by `S.withApprox V` and `V.angle` -/
abbrev approxOps {α : Type} (S : Scalar α) (V : Ops α Bool) : Ops α Bool :=
  @Ops.ofInst α Bool (@ofScalar α (withApprox S V)) (@VFused.ofScalar α (withApprox S V)) V.angle

theorem hom_trans {α μ : Type} {A B C : Ops α μ} (o : Op) (h1 : Hom (fun a : α => a) (fun m : μ => m) A B o)
    (h2 : Hom (fun a : α => a) (fun m : μ => m) B C o) : Hom (fun a : α => a) (fun m : μ => m) A C o := by
  cases o <;> (dsimp only [Hom] at h1 h2 ⊢; intros; rw [h1, h2])

/-- the exact operations of `S.withApprox V` are `S`'s -/
theorem agreeOn_scalar_withApprox {α : Type} [S : Scalar α] [A : Angle α] (V : Ops α Bool) :
    AgreeOn (scalarOps α) (approxOps S V) exactOps := by
  intro o ho
  cases o <;> first
    | exact absurd ho (by decide)
    | (dsimp only [Hom]; intros; rfl)

theorem agreeOn_withApprox {α : Type} [S : Scalar α] [A : Angle α] (V : Ops α Bool) (hV : AgreeOn V (scalarOps α) exactOps) :
    AgreeOn V (approxOps S V) notMulSub := by
  intro o ho
  by_cases he : exactOps o = true
  · exact hom_trans o (hV o he) (agreeOn_scalar_withApprox V o he)
  · cases o <;> first
      | exact absurd rfl he
      | exact absurd ho (by decide)
      | (dsimp only [Hom]; intros; rfl)

/-- … and `mul_sub` too when `V`'s is the unfused one -/
theorem agreeOn_withApprox_all {α : Type} [S : Scalar α] [A : Angle α] (V : Ops α Bool) (hV : AgreeOn V (scalarOps α) exactOps)
    (hms : ∀ x m s, V.mulSub x m s = V.sub (V.mul x m) s) : AgreeOn V (approxOps S V) allOps := by
  intro o _
  by_cases h : o = .mulSub
  · subst h
    intro x m s
    have hsub : ∀ a b, V.sub a b = (scalarOps α).sub a b := hV .sub rfl
    have hmul : ∀ a b, V.mul a b = (scalarOps α).mul a b := hV .mul rfl
    show V.mulSub x m s = _
    rw [hms, hsub, hmul]; rfl
  · exact agreeOn_withApprox V hV o (by cases o <;> first | rfl | exact absurd rfl h)

theorem Reified1.approx {body : Body1} {tm : Tm} (h : Reified1 P body tm) {α : Type} [S : Scalar α] {n : Nat}
    (W : Ops (Lanes n α) (Lanes n Bool)) (V : Ops α Bool) (hW : LaneWise W V P) (hV : AgreeOn V (approxOps S V) P)
    (x : Lanes n α) (i : Fin n) :
    (@body _ _ W.vscalar W.vfused W.angle x) i =
      @body α Bool (@ofScalar α (withApprox S V)) (@VFused.ofScalar α (withApprox S V)) V.angle (x i) := by
  rw [h.wide W V hW, @h.reify _ _ V.vscalar V.vfused V.angle (x i),
    @h.reify _ _ (@ofScalar α (withApprox S V)) (@VFused.ofScalar α (withApprox S V)) V.angle (x i)]
  exact Tm.eval_agree hV tm h.uses _

theorem Reified2.approx {body : Body2} {tm : Tm} (h : Reified2 P body tm) {α : Type} [S : Scalar α] {n : Nat}
    (W : Ops (Lanes n α) (Lanes n Bool)) (V : Ops α Bool) (hW : LaneWise W V P) (hV : AgreeOn V (approxOps S V) P)
    (x y : Lanes n α) (i : Fin n) :
    (@body _ _ W.vscalar W.vfused W.angle x y) i =
      @body α Bool (@ofScalar α (withApprox S V)) (@VFused.ofScalar α (withApprox S V)) V.angle (x i) (y i) := by
  rw [h.wide W V hW, @h.reify _ _ V.vscalar V.vfused V.angle (x i) (y i),
    @h.reify _ _ (@ofScalar α (withApprox S V)) (@VFused.ofScalar α (withApprox S V)) V.angle (x i) (y i)]
  exact Tm.eval_agree hV tm h.uses _

theorem Reified3.approx {body : Body3} {tm : V3 Tm} (h : Reified3 P body tm) {α : Type} [S : Scalar α] {n : Nat}
    (W : Ops (Lanes n α) (Lanes n Bool)) (V : Ops α Bool) (hW : LaneWise W V P) (hV : AgreeOn V (approxOps S V) P)
    (c : V3 (Lanes n α)) (i : Fin n) :
    unpack (@body _ _ W.vscalar W.vfused W.angle c) i =
      @body α Bool (@ofScalar α (withApprox S V)) (@VFused.ofScalar α (withApprox S V)) V.angle (unpack c i) := by
  rw [h.wide W V hW, @h.reify _ _ V.vscalar V.vfused V.angle (unpack c i),
    @h.reify _ _ (@ofScalar α (withApprox S V)) (@VFused.ofScalar α (withApprox S V)) V.angle (unpack c i)]
  exact v3Eval_agree hV tm h.uses _

end C17
