/-
  C02 (CIE family) — each directly implemented conversion equals the published definition, at ℝ, on its nominal domain.
  C01 (CIE family) — and the edge pairs are mutual inverses there.
-/
import PaletteProofs.Real
import PaletteModel.Color.Cie
import PaletteSpec.Cie
import Mathlib.Tactic.FieldSimp
import Mathlib.Tactic.Linarith

namespace C02Cie
open Cie

/-! ### Xyz ↔ Yxy -/

theorem xyzToYxy_of_ne (c : V3 ℝ) (h : c.c0 + c.c1 + c.c2 ≠ 0) :
    xyzToYxy c = ⟨c.c0 / (c.c0 + c.c1 + c.c2), c.c1 / (c.c0 + c.c1 + c.c2), c.c1⟩ := by
  unfold xyzToYxy; simp only [RealScalar.valid_eq, decide_eq_true_eq]; rw [if_pos h]

theorem yxyToXyz_of_ne (c : V3 ℝ) (h : c.c1 ≠ 0) :
    yxyToXyz c = ⟨c.c0 / c.c1 * c.c2, 1.0 * c.c2, (1.0 - c.c0 - c.c1) / c.c1 * c.c2⟩ := by
  unfold yxyToXyz; simp only [RealScalar.valid_eq, decide_eq_true_eq]; rw [if_pos h]

/-- **= CIE 15** for every XYZ with `X+Y+Z ≠ 0` -/
theorem xyzToYxy_eq_spec (X Y Z : ℝ) (h : X + Y + Z ≠ 0) :
    (xyzToYxy ⟨X, Y, Z⟩).c0 = (Spec.Cie.xyY X Y Z).1 ∧ (xyzToYxy ⟨X, Y, Z⟩).c1 = (Spec.Cie.xyY X Y Z).2.1 ∧
    (xyzToYxy ⟨X, Y, Z⟩).c2 = (Spec.Cie.xyY X Y Z).2.2 := by
  rw [xyzToYxy_of_ne ⟨X, Y, Z⟩ h]; simp [Spec.Cie.xyY]

theorem yxyToXyz_eq_spec (x y Y : ℝ) (h : y ≠ 0) :
    (yxyToXyz ⟨x, y, Y⟩).c0 = (Spec.Cie.xyzOfxyY x y Y).1 ∧ (yxyToXyz ⟨x, y, Y⟩).c1 = (Spec.Cie.xyzOfxyY x y Y).2.1 ∧
    (yxyToXyz ⟨x, y, Y⟩).c2 = (Spec.Cie.xyzOfxyY x y Y).2.2 := by
  rw [yxyToXyz_of_ne ⟨x, y, Y⟩ h]; simp only [Spec.Cie.xyzOfxyY]
  refine ⟨by ring, by norm_num, by norm_num; ring⟩

/-- black ↦ black (the guarded branch: no division) -/
theorem xyzToYxy_black : xyzToYxy (⟨0, 0, 0⟩ : V3 ℝ) = ⟨0.0, 0.0, 0⟩ := by
  unfold xyzToYxy; simp

/-- **round trip** `Xyz → Yxy → Xyz` is exact whenever `X+Y+Z ≠ 0` and `Y ≠ 0` -/
theorem yxy_xyz_roundtrip (X Y Z : ℝ) (hs : X + Y + Z ≠ 0) (hy : Y ≠ 0) : yxyToXyz (xyzToYxy ⟨X, Y, Z⟩) = ⟨X, Y, Z⟩ := by
  rw [xyzToYxy_of_ne ⟨X, Y, Z⟩ hs]
  have hy' : Y / (X + Y + Z) ≠ 0 := div_ne_zero hy hs
  rw [yxyToXyz_of_ne _ hy']
  simp only
  congr 1
  · field_simp
  · norm_num
  · norm_num; field_simp; ring

/-- **round trip** `Yxy → Xyz → Yxy` is exact whenever `y ≠ 0` and `luma ≠ 0` -/
theorem xyz_yxy_roundtrip (x y Y : ℝ) (hy : y ≠ 0) (hY : Y ≠ 0) : xyzToYxy (yxyToXyz ⟨x, y, Y⟩) = ⟨x, y, Y⟩ := by
  rw [yxyToXyz_of_ne ⟨x, y, Y⟩ hy]
  have hs : x / y * Y + 1.0 * Y + (1.0 - x - y) / y * Y ≠ 0 := by
    have : x / y * Y + 1.0 * Y + (1.0 - x - y) / y * Y = Y / y := by norm_num; field_simp; ring
    rw [this]; exact div_ne_zero hY hy
  rw [xyzToYxy_of_ne _ hs]
  simp only
  have e : x / y * Y + 1.0 * Y + (1.0 - x - y) / y * Y = Y / y := by norm_num; field_simp; ring
  rw [e]
  congr 1
  · field_simp
  · norm_num; field_simp
  · norm_num

/-- non-vacuity: D65 white satisfies the hypotheses -/
example : (0.95047 : ℝ) + 1 + 1.08883 ≠ 0 ∧ (1 : ℝ) ≠ 0 := by norm_num

end C02Cie
