/-
  C02 (CIE family) — each directly implemented conversion equals the published definition, at ℝ, on its nominal domain.
  (Xyz↔Yxy also carries its round trips; the other edge-pair inverses are in `C01_Cie.lean`.)
-/
import PaletteProofs.RealAngle
import PaletteModel.Color.Cie
import PaletteSpec.Cie
import Mathlib.Tactic.FieldSimp
import Mathlib.Tactic.Linarith
import Mathlib.Tactic.Positivity

namespace C02Cie
open Cie

/-! ### Xyz ↔ Yxy -/

theorem xyzToYxy_of_ne (c : V3 ℝ) (h : c.c0 + c.c1 + c.c2 ≠ 0) :
    xyzToYxy c = ⟨c.c0 / (c.c0 + c.c1 + c.c2), c.c1 / (c.c0 + c.c1 + c.c2), c.c1⟩ := by
  unfold xyzToYxy; simp only [RealScalar.valid_eq, decide_eq_true_eq]; rw [if_pos h]

theorem yxyToXyz_of_ne (c : V3 ℝ) (h : c.c1 ≠ 0) :
    yxyToXyz c = ⟨c.c0 / c.c1 * c.c2, 1.0 * c.c2, (1.0 - c.c0 - c.c1) / c.c1 * c.c2⟩ := by
  unfold yxyToXyz; simp only [RealScalar.valid_eq, decide_eq_true_eq]; rw [if_pos h]

/-- **= CIE 15** for every XYZ with `X+Y+Z ≠ 0` -/
theorem xyzToYxy_eq_spec (X Y Z : ℝ) (h : X + Y + Z ≠ 0) :
    (xyzToYxy ⟨X, Y, Z⟩).c0 = (Spec.Cie.xyY X Y Z).1 ∧ (xyzToYxy ⟨X, Y, Z⟩).c1 = (Spec.Cie.xyY X Y Z).2.1 ∧
    (xyzToYxy ⟨X, Y, Z⟩).c2 = (Spec.Cie.xyY X Y Z).2.2 := by
  rw [xyzToYxy_of_ne ⟨X, Y, Z⟩ h]; simp [Spec.Cie.xyY]

theorem yxyToXyz_eq_spec (x y Y : ℝ) (h : y ≠ 0) :
    (yxyToXyz ⟨x, y, Y⟩).c0 = (Spec.Cie.xyzOfxyY x y Y).1 ∧ (yxyToXyz ⟨x, y, Y⟩).c1 = (Spec.Cie.xyzOfxyY x y Y).2.1 ∧
    (yxyToXyz ⟨x, y, Y⟩).c2 = (Spec.Cie.xyzOfxyY x y Y).2.2 := by
  rw [yxyToXyz_of_ne ⟨x, y, Y⟩ h]; simp only [Spec.Cie.xyzOfxyY]
  refine ⟨by ring, by norm_num, by norm_num; ring⟩

/-- black ↦ black (the guarded branch: no division) -/
theorem xyzToYxy_black : xyzToYxy (⟨0, 0, 0⟩ : V3 ℝ) = ⟨0.0, 0.0, 0⟩ := by
  unfold xyzToYxy; simp

/-- **round trip** `Xyz → Yxy → Xyz` is exact whenever `X+Y+Z ≠ 0` and `Y ≠ 0` -/
theorem yxy_xyz_roundtrip (X Y Z : ℝ) (hs : X + Y + Z ≠ 0) (hy : Y ≠ 0) : yxyToXyz (xyzToYxy ⟨X, Y, Z⟩) = ⟨X, Y, Z⟩ := by
  rw [xyzToYxy_of_ne ⟨X, Y, Z⟩ hs]
  have hy' : Y / (X + Y + Z) ≠ 0 := div_ne_zero hy hs
  rw [yxyToXyz_of_ne _ hy']
  simp only
  congr 1
  · field_simp
  · norm_num
  · norm_num; field_simp; ring

/-- **round trip** `Yxy → Xyz → Yxy` is exact whenever `y ≠ 0` and `luma ≠ 0` -/
theorem xyz_yxy_roundtrip (x y Y : ℝ) (hy : y ≠ 0) (hY : Y ≠ 0) : xyzToYxy (yxyToXyz ⟨x, y, Y⟩) = ⟨x, y, Y⟩ := by
  rw [yxyToXyz_of_ne ⟨x, y, Y⟩ hy]
  have hs : x / y * Y + 1.0 * Y + (1.0 - x - y) / y * Y ≠ 0 := by
    have : x / y * Y + 1.0 * Y + (1.0 - x - y) / y * Y = Y / y := by norm_num; field_simp; ring
    rw [this]; exact div_ne_zero hY hy
  rw [xyzToYxy_of_ne _ hs]
  simp only
  have e : x / y * Y + 1.0 * Y + (1.0 - x - y) / y * Y = Y / y := by norm_num; field_simp; ring
  rw [e]
  congr 1
  · field_simp
  · norm_num; field_simp
  · norm_num

/-- non-vacuity: D65 white satisfies the hypotheses -/
example : (0.95047 : ℝ) + 1 + 1.08883 ≠ 0 ∧ (1 : ℝ) ≠ 0 := by norm_num


/-! ### Xyz ↔ Lab -/

theorem cube_eq (x : ℝ) : cube x = x ^ 3 := by unfold cube; ring
theorem recip_eq (x : ℝ) : recip x = 1 / x := by unfold recip; norm_num

theorem labF_hi {c : ℝ} (h : (6 / 29 : ℝ) ^ 3 < c) : labF c = c ^ ((1 : ℝ) / 3) := by
  have hc : 0 ≤ c := le_of_lt (lt_trans (by norm_num) h)
  unfold labF
  simp only [cube_eq, RealScalar.const_eq, RealScalar.eval_div, RealScalar.eval_ofSci]
  rw [if_pos (by norm_num at h ⊢; linarith), RealScalar.cbrt_of_nonneg hc]

theorem labF_lo {c : ℝ} (h : ¬ (6 / 29 : ℝ) ^ 3 < c) : labF c = 841 / 108 * c + 4 / 29 := by
  unfold labF
  simp only [cube_eq, RealScalar.const_eq, RealScalar.eval_div, RealScalar.eval_ofSci]
  rw [if_neg (by norm_num at h ⊢; linarith)]; norm_num

/-- the code's `convert` closure is CIE 15's `f` (κ = 841/108 is `1/(3 (6/29)²)`) -/
theorem labF_eq_spec (c : ℝ) : labF c = Spec.Cie.f c := by
  unfold Spec.Cie.f
  by_cases h : (6 / 29 : ℝ) ^ 3 < c
  · rw [labF_hi h, if_pos h]
  · rw [labF_lo h, if_neg h]; ring

theorem labFInv_hi {c : ℝ} (h : (6 / 29 : ℝ) < c) : labFInv c = c ^ 3 := by
  unfold labFInv
  simp only [cube_eq, RealScalar.const_eq, RealScalar.eval_div, RealScalar.eval_ofSci]
  rw [if_pos (by norm_num at h ⊢; linarith)]

theorem labFInv_lo {c : ℝ} (h : ¬ (6 / 29 : ℝ) < c) : labFInv c = (c - 4 / 29) * (108 / 841) := by
  unfold labFInv
  simp only [cube_eq, RealScalar.const_eq, RealScalar.eval_div, RealScalar.eval_ofSci]
  rw [if_neg (by norm_num at h ⊢; linarith)]; norm_num

theorem labFInv_eq_spec (c : ℝ) : labFInv c = Spec.Cie.fInv c := by
  unfold Spec.Cie.fInv
  by_cases h : (6 / 29 : ℝ) < c
  · rw [labFInv_hi h, if_pos h]
  · rw [labFInv_lo h, if_neg h]; ring

/-- **Xyz → Lab = CIE 15 §8.2.1**, for every XYZ and every white point (no domain restriction: also negative and
    out-of-range tristimulus values take the published linear toe) -/
theorem xyzToLab_eq_spec (Xn Yn Zn X Y Z : ℝ) :
    xyzToLab ⟨Xn, Yn, Zn⟩ ⟨X, Y, Z⟩ =
      ⟨(Spec.Cie.lab Xn Yn Zn X Y Z).1, (Spec.Cie.lab Xn Yn Zn X Y Z).2.1, (Spec.Cie.lab Xn Yn Zn X Y Z).2.2⟩ := by
  unfold xyzToLab Spec.Cie.lab
  simp only [labF_eq_spec]
  congr 1 <;> sring

/-- **Lab → Xyz = CIE 15 reverse transformation** (the code multiplies by reciprocals `1/116`, `1/500`, `1/200` and uses `108/841 = 3 (6/29)²`) -/
theorem labToXyz_eq_spec (Xn Yn Zn L a b : ℝ) :
    labToXyz ⟨Xn, Yn, Zn⟩ ⟨L, a, b⟩ =
      ⟨(Spec.Cie.xyzOfLab Xn Yn Zn L a b).1, (Spec.Cie.xyzOfLab Xn Yn Zn L a b).2.1, (Spec.Cie.xyzOfLab Xn Yn Zn L a b).2.2⟩ := by
  unfold labToXyz Spec.Cie.xyzOfLab
  simp only [labFInv_eq_spec, recip_eq]
  have e1 : (L + 16.0) * (1 / 116.0 : ℝ) = (L + 16) / 116 := by sring
  have e2 : (L + 16.0) * (1 / 116.0 : ℝ) + a * (1 / 500.0) = (L + 16) / 116 + a / 500 := by sring
  have e3 : (L + 16.0) * (1 / 116.0 : ℝ) - b * (1 / 200.0) = (L + 16) / 116 - b / 200 := by sring
  rw [e2, e3, e1]
  congr 1 <;> ring

/-- the join of the piecewise definition is exact: both pieces give `6/29` at `t = (6/29)³` -/
theorem lab_join : (841 / 108 : ℝ) * (6 / 29) ^ 3 + 4 / 29 = 6 / 29 ∧ (((6 / 29 : ℝ) ^ 3) ^ ((1 : ℝ) / 3)) = 6 / 29 := by
  refine ⟨by norm_num, ?_⟩
  rw [← Real.rpow_natCast, ← Real.rpow_mul (by norm_num)]; norm_num


/-! ### cartesian ↔ polar: Lab ↔ Lch, Luv ↔ Lchuv -/

/-- the stored hue at ℝ: `(π + arg(−a − b i)) · 180/π` -/
theorem hueFromCartesian_eq (a b : ℝ) : hueFromCartesian a b = (Real.pi + Complex.arg (-(⟨a, b⟩ : ℂ))) * (180 / Real.pi) := by
  unfold hueFromCartesian
  simp only [RealScalar.radToDeg_eq, RealScalar.angle_pi, RealScalar.atan2_eq]
  rfl

/-- the stored hue always lies in `(0, 360]` (the code's reason for rotating by π) -/
theorem hue_range (a b : ℝ) : 0 < hueFromCartesian a b ∧ hueFromCartesian a b ≤ 360 := by
  rw [hueFromCartesian_eq]
  have h1 := Complex.neg_pi_lt_arg (-(⟨a, b⟩ : ℂ))
  have h2 := Complex.arg_le_pi (-(⟨a, b⟩ : ℂ))
  have hp := Real.pi_pos
  constructor
  · apply mul_pos (by linarith) (by positivity)
  · rw [← le_div_iff₀ (by positivity)]
    have : (360 : ℝ) / (180 / Real.pi) = 2 * Real.pi := by field_simp; ring
    rw [this]; linarith

/-- **hue = CIE 15 hue angle** `atan2(b, a)` in degrees, upper half plane and negative real axis: equal -/
theorem hue_eq_spec_of_pos (a b : ℝ) (h : 0 < b ∨ b = 0 ∧ a < 0) : hueFromCartesian a b = Spec.Cie.hueDeg a b := by
  rw [hueFromCartesian_eq, Spec.Cie.hueDeg]
  have := (Complex.arg_neg_eq_arg_sub_pi_iff (x := (⟨a, b⟩ : ℂ))).mpr h
  rw [this]; have hp := Real.pi_ne_zero; field_simp; ring

/-- lower half plane and positive real axis: the stored hue is the published angle `+ 360°` (same angle on the circle) -/
theorem hue_eq_spec_of_neg (a b : ℝ) (h : b < 0 ∨ b = 0 ∧ 0 < a) : hueFromCartesian a b = Spec.Cie.hueDeg a b + 360 := by
  rw [hueFromCartesian_eq, Spec.Cie.hueDeg]
  have := (Complex.arg_neg_eq_arg_add_pi_iff (x := (⟨a, b⟩ : ℂ))).mpr h
  rw [this]; have hp := Real.pi_ne_zero; field_simp; ring

/-- **modulo 360**: for every non-zero `(a, b)` the stored hue is the published hue angle up to a whole turn -/
theorem hue_eq_spec_mod (a b : ℝ) (h : a ≠ 0 ∨ b ≠ 0) : ∃ k : ℤ, hueFromCartesian a b = Spec.Cie.hueDeg a b + 360 * k := by
  rcases lt_trichotomy b 0 with hb | hb | hb
  · exact ⟨1, by rw [hue_eq_spec_of_neg a b (Or.inl hb)]; norm_num⟩
  · rcases lt_trichotomy a 0 with ha | ha | ha
    · exact ⟨0, by rw [hue_eq_spec_of_pos a b (Or.inr ⟨hb, ha⟩)]; norm_num⟩
    · exact absurd hb (by rcases h with h | h; exact absurd ha h; exact h)
    · exact ⟨1, by rw [hue_eq_spec_of_neg a b (Or.inr ⟨hb, ha⟩)]; norm_num⟩
  · exact ⟨0, by rw [hue_eq_spec_of_pos a b (Or.inl hb)]; norm_num⟩

/-- **Lab → Lch = CIE 15**: `L` unchanged, `C = √(a² + b²)`, hue as above -/
theorem labToLch_eq_spec (L a b : ℝ) :
    (labToLch ⟨L, a, b⟩).c0 = L ∧ (labToLch ⟨L, a, b⟩).c1 = Spec.Cie.chroma a b ∧ (labToLch ⟨L, a, b⟩).c2 = hueFromCartesian a b := by
  refine ⟨rfl, ?_, rfl⟩
  simp only [labToLch, RealScalar.hypot_eq, Spec.Cie.chroma]; congr 1; ring

theorem luvToLchuv_eq_spec (L u v : ℝ) :
    (luvToLchuv ⟨L, u, v⟩).c0 = L ∧ (luvToLchuv ⟨L, u, v⟩).c1 = Spec.Cie.chroma u v ∧ (luvToLchuv ⟨L, u, v⟩).c2 = hueFromCartesian u v := by
  refine ⟨rfl, ?_, rfl⟩
  simp only [luvToLchuv, RealScalar.hypot_eq, Spec.Cie.chroma]; congr 1; ring

/-- **Lch → Lab = CIE 15** for `C ≥ 0`: `a = C cos h`, `b = C sin h` -/
theorem lchToLab_eq_spec (L C h : ℝ) (hC : 0 ≤ C) :
    lchToLab ⟨L, C, h⟩ = ⟨L, (Spec.Cie.cartesian C h).1, (Spec.Cie.cartesian C h).2⟩ := by
  simp only [lchToLab, Spec.Cie.cartesian, RealScalar.degToRad_eq, RealScalar.max_eq, RealScalar.cos_eq, RealScalar.sin_eq]
  have : max C (0.0 : ℝ) = C := by norm_num; exact hC
  rw [this, mul_div_assoc]; congr 1 <;> ring

theorem lchuvToLuv_eq_spec (L C h : ℝ) (hC : 0 ≤ C) :
    lchuvToLuv ⟨L, C, h⟩ = ⟨L, (Spec.Cie.cartesian C h).1, (Spec.Cie.cartesian C h).2⟩ := by
  simp only [lchuvToLuv, Spec.Cie.cartesian, RealScalar.degToRad_eq, RealScalar.max_eq, RealScalar.cos_eq, RealScalar.sin_eq]
  have : max C (0.0 : ℝ) = C := by norm_num; exact hC
  rw [this, mul_div_assoc]

/-- negative chroma is clamped to zero (`chroma.max(0)`): the colour collapses onto the neutral axis -/
theorem lchToLab_neg_chroma (L C h : ℝ) (hC : C ≤ 0) : lchToLab ⟨L, C, h⟩ = ⟨L, 0, 0⟩ := by
  simp only [lchToLab, RealScalar.max_eq]
  have : max C (0.0 : ℝ) = 0 := by norm_num; exact hC
  rw [this]; simp


/-! ### Xyz ↔ Luv -/

theorem eqv_zero_iff (d : ℝ) : Scalar.eqv d (0.0 : ℝ) ↔ d = 0 := by
  unfold Scalar.eqv; constructor
  · rintro ⟨h1, h2⟩; norm_num at h1 h2; linarith
  · rintro rfl; norm_num

/-- the lightness expression of `xyzToLuv` -/
noncomputable def luvL (yR : ℝ) : ℝ :=
  if (cube (Scalar.const (6.0 / 29.0)) : ℝ) < yR then 116.0 * Scalar.powf yR (Scalar.const (1.0 / 3.0)) - 16.0 else cube (Scalar.const (29.0 / 3.0)) * yR

theorem luvL_eq_spec (yR : ℝ) : luvL yR = Spec.Cie.lightness yR := by
  unfold luvL Spec.Cie.lightness
  simp only [cube_eq, RealScalar.const_eq, RealScalar.eval_div, RealScalar.eval_ofSci, RealScalar.powf_eq]
  by_cases h : (6 / 29 : ℝ) ^ 3 < yR
  · rw [if_pos (by norm_num at h ⊢; linarith), if_pos h]; norm_num
  · rw [if_neg (by norm_num at h ⊢; linarith), if_neg h]; norm_num

/-- value of the non-black branch -/
theorem xyzToLuv_of_ne (w c : V3 ℝ) (hd : c.c0 + 15 * c.c1 + 3 * c.c2 ≠ 0) :
    xyzToLuv w c =
      ⟨luvL (c.c1 / w.c1),
       13 * luvL (c.c1 / w.c1) * (4 * c.c0 * (1 / (c.c0 + 15 * c.c1 + 3 * c.c2)) - 4 * w.c0 * (1 / (w.c0 + 15 * w.c1 + 3 * w.c2))),
       13 * luvL (c.c1 / w.c1) * (9 * c.c1 * (1 / (c.c0 + 15 * c.c1 + 3 * c.c2)) - 9 * w.c1 * (1 / (w.c0 + 15 * w.c1 + 3 * w.c2)))⟩ := by
  have hd' : ¬ Scalar.eqv (c.c0 + 15.0 * c.c1 + 3.0 * c.c2) (0.0 : ℝ) := by
    rw [eqv_zero_iff]; norm_num; exact hd
  unfold xyzToLuv
  simp only [if_neg hd', recip_eq]
  unfold luvL
  norm_num

/-- black (zero denominator): the early return -/
theorem xyzToLuv_of_zero (w c : V3 ℝ) (hd : c.c0 + 15 * c.c1 + 3 * c.c2 = 0) : xyzToLuv w c = ⟨0, 0, 0⟩ := by
  have hd' : Scalar.eqv (c.c0 + 15.0 * c.c1 + 3.0 * c.c2) (0.0 : ℝ) := by
    rw [eqv_zero_iff]; norm_num; exact hd
  unfold xyzToLuv
  simp only [if_pos hd']; norm_num

/-- **Xyz → Luv = CIE 15 §8.2.2** wherever the chromaticity `u′, v′` is defined (`X + 15Y + 3Z ≠ 0`) -/
theorem xyzToLuv_eq_spec (Xn Yn Zn X Y Z : ℝ) (hd : X + 15 * Y + 3 * Z ≠ 0) :
    xyzToLuv ⟨Xn, Yn, Zn⟩ ⟨X, Y, Z⟩ =
      ⟨(Spec.Cie.luv Xn Yn Zn X Y Z).1, (Spec.Cie.luv Xn Yn Zn X Y Z).2.1, (Spec.Cie.luv Xn Yn Zn X Y Z).2.2⟩ := by
  rw [xyzToLuv_of_ne _ _ hd]
  simp only [Spec.Cie.luv, Spec.Cie.uPrime, Spec.Cie.vPrime, luvL_eq_spec]
  congr 1 <;> ring

/-- the luminance expression of `luvToXyz` (before the multiplication by `Yn`) -/
noncomputable def luvY (L : ℝ) : ℝ :=
  if (8.0 : ℝ) < L then cube ((L + 16.0) * recip 116.0) else L * recip (cube (Scalar.const (29.0 / 3.0)))

theorem luvY_eq (L : ℝ) : luvY L = if L > 8 then ((L + 16) / 116) ^ 3 else L * (3 / 29 : ℝ) ^ 3 := by
  unfold luvY
  simp only [cube_eq, recip_eq, RealScalar.const_eq, RealScalar.eval_div, RealScalar.eval_ofSci]
  by_cases h : (8 : ℝ) < L
  · rw [if_pos (by norm_num; exact h), if_pos h]; norm_num; ring
  · rw [if_neg (by norm_num; exact not_lt.mp h), if_neg h]; norm_num

/-- value above the cutoff `L ≥ 1e-5` -/
theorem luvToXyz_of_ge (w c : V3 ℝ) (hL : ¬ c.c0 < 1e-5) :
    luvToXyz w c =
      ⟨luvY c.c0 * w.c1 * 2.25 * (c.c1 / (13 * c.c0) + 4 * w.c0 * (1 / (w.c0 + 15 * w.c1 + 3 * w.c2))) / (c.c2 / (13 * c.c0) + 9 * w.c1 * (1 / (w.c0 + 15 * w.c1 + 3 * w.c2))),
       luvY c.c0 * w.c1,
       luvY c.c0 * w.c1 * (3 - 0.75 * (c.c1 / (13 * c.c0) + 4 * w.c0 * (1 / (w.c0 + 15 * w.c1 + 3 * w.c2))) - 5 * (c.c2 / (13 * c.c0) + 9 * w.c1 * (1 / (w.c0 + 15 * w.c1 + 3 * w.c2)))) / (c.c2 / (13 * c.c0) + 9 * w.c1 * (1 / (w.c0 + 15 * w.c1 + 3 * w.c2)))⟩ := by
  unfold luvToXyz
  simp only [if_neg hL, recip_eq]
  unfold luvY
  norm_num [recip_eq]

/-- below the cutoff the code returns black (CIE 15 has no cutoff: there `Y = Yn·L·(3/29)³ ≤ 1.2e-8·Yn`) -/
theorem luvToXyz_of_lt (w c : V3 ℝ) (hL : c.c0 < 1e-5) : luvToXyz w c = ⟨0, 0, 0⟩ := by
  unfold luvToXyz
  simp only [if_pos hL]; norm_num

/-- **Luv → Xyz = CIE 15 reverse transformation** for `L ≥ 1e-5` -/
theorem luvToXyz_eq_spec (Xn Yn Zn L u v : ℝ) (hL : 1e-5 ≤ L) :
    luvToXyz ⟨Xn, Yn, Zn⟩ ⟨L, u, v⟩ =
      ⟨(Spec.Cie.xyzOfLuv Xn Yn Zn L u v).1, (Spec.Cie.xyzOfLuv Xn Yn Zn L u v).2.1, (Spec.Cie.xyzOfLuv Xn Yn Zn L u v).2.2⟩ := by
  rw [luvToXyz_of_ge _ _ (not_lt.mpr hL)]
  simp only [Spec.Cie.xyzOfLuv, Spec.Cie.uPrime, Spec.Cie.vPrime, luvY_eq]
  have e1 : (4 : ℝ) * Xn * (1 / (Xn + 15 * Yn + 3 * Zn)) = 4 * Xn / (Xn + 15 * Yn + 3 * Zn) := by ring
  have e2 : (9 : ℝ) * Yn * (1 / (Xn + 15 * Yn + 3 * Zn)) = 9 * Yn / (Xn + 15 * Yn + 3 * Zn) := by ring
  rw [e1, e2]
  generalize (if L > 8 then ((L + 16) / 116) ^ 3 else L * (3 / 29 : ℝ) ^ 3) = yy
  generalize u / (13 * L) + 4 * Xn / (Xn + 15 * Yn + 3 * Zn) = up
  generalize v / (13 * L) + 9 * Yn / (Xn + 15 * Yn + 3 * Zn) = vp
  by_cases hv : vp = 0
  · subst hv; simp; ring
  · congr 1
    · field_simp; ring
    · ring
    · field_simp; ring


/-! ### HSLuv -/

/-- the extracted constants are the reference's: `m`, `kappa`, `epsilon` digit for digit -/
theorem hsluv_constants :
    (M3.ofK Gen.Mat.hsluvM : M3 ℝ) = ⟨Spec.Cie.hsluvM 0 0, Spec.Cie.hsluvM 0 1, Spec.Cie.hsluvM 0 2, Spec.Cie.hsluvM 1 0, Spec.Cie.hsluvM 1 1,
      Spec.Cie.hsluvM 1 2, Spec.Cie.hsluvM 2 0, Spec.Cie.hsluvM 2 1, Spec.Cie.hsluvM 2 2⟩ ∧
    (Scalar.const Gen.Mat.hsluvKappa : ℝ) = Spec.Cie.hsluvKappa ∧ (Scalar.const Gen.Mat.hsluvEpsilon : ℝ) = Spec.Cie.hsluvEpsilon := by
  refine ⟨?_, ?_, ?_⟩
  · simp only [Gen.Mat.hsluvM, M3.ofK, Spec.Cie.hsluvM, RealScalar.const_eq, RealScalar.eval_neg, RealScalar.eval_ofSci]
  · simp only [Gen.Mat.hsluvKappa, Spec.Cie.hsluvKappa, RealScalar.const_eq, RealScalar.eval_ofSci]
  · simp only [Gen.Mat.hsluvEpsilon, Spec.Cie.hsluvEpsilon, RealScalar.const_eq, RealScalar.eval_ofSci]

/-- the code's `sub2` -/
theorem sub2_eq_spec (l : ℝ) :
    (if (Scalar.const Gen.Mat.hsluvEpsilon : ℝ) < cube (l + 16.0) / 1560896.0 then cube (l + 16.0) / 1560896.0 else l / Scalar.const Gen.Mat.hsluvKappa)
      = Spec.Cie.sub2 l := by
  rw [hsluv_constants.2.1, hsluv_constants.2.2, cube_eq]
  unfold Spec.Cie.sub2
  norm_num

theorem boundaryLine_eq_spec (l t : ℝ) (c : Fin 3) :
    boundaryLine (Spec.Cie.hsluvM c 0) (Spec.Cie.hsluvM c 1) (Spec.Cie.hsluvM c 2) l (Spec.Cie.sub2 l) t
      = ⟨(Spec.Cie.bound l c t).1, (Spec.Cie.bound l c t).2⟩ := by
  unfold boundaryLine Spec.Cie.bound
  norm_num

/-- **`LuvBounds::from_lightness` = the reference's `getBounds`** -/
theorem luvBounds_eq_spec (l : ℝ) :
    (luvBounds l : List (BoundaryLine ℝ)) = (Spec.Cie.bounds l).map fun b => ⟨b.1, b.2⟩ := by
  unfold luvBounds
  simp only [sub2_eq_spec, hsluv_constants.1, Spec.Cie.bounds, List.map]
  have z : (0.0 : ℝ) = 0 := by norm_num
  have o : (1.0 : ℝ) = 1 := by norm_num
  rw [z, o]
  simp only [boundaryLine_eq_spec l 0, boundaryLine_eq_spec l 1]

/-- one step of the minimisation: where the code's `|denom| > 1e-6` filter passes, it is the reference's step -/
theorem chromaStep_eq_spec (θ acc : ℝ) (b : ℝ × ℝ) (hden : 1e-6 < |Real.sin θ - b.1 * Real.cos θ|) :
    chromaStep θ acc ⟨b.1, b.2⟩ = if Spec.Cie.rayLength θ b ≥ 0 then min acc (Spec.Cie.rayLength θ b) else acc := by
  unfold chromaStep Spec.Cie.rayLength
  simp only [RealScalar.sin_eq, RealScalar.cos_eq, RealScalar.abs_eq]
  rw [if_pos (by norm_num at hden ⊢; exact hden)]
  by_cases h0 : b.2 / (Real.sin θ - b.1 * Real.cos θ) ≥ 0
  · rw [if_pos h0]
    by_cases h1 : b.2 / (Real.sin θ - b.1 * Real.cos θ) < acc
    · rw [if_pos ⟨by norm_num; exact h0, h1⟩, min_eq_right h1.le]
    · rw [if_neg (fun h => h1 h.2), min_eq_left (not_lt.mp h1)]
  · rw [if_neg h0, if_neg (fun h => h0 (by have := h.1; norm_num at this; exact this))]

/-- **`max_chroma_at_hue` = the reference's `maxChromaForLH`** whenever no boundary line is (numerically) parallel to the ray,
    i.e. the code's extra filter `|sin θ − slope·cos θ| > 1e-6` (absent from the reference) does not fire -/
theorem maxChroma_eq_spec (l h : ℝ)
    (hden : ∀ b ∈ Spec.Cie.bounds l, 1e-6 < |Real.sin (h / 360 * Real.pi * 2) - b.1 * Real.cos (h / 360 * Real.pi * 2)|) :
    maxChroma l h = Spec.Cie.maxChromaForLH l h := by
  unfold maxChroma maxChromaAtHue Spec.Cie.maxChromaForLH
  simp only [RealScalar.up_eq, RealScalar.down_eq, RealScalar.degToRad_eq, luvBounds_eq_spec]
  have eθ : h * (Real.pi / 180) = h / 360 * Real.pi * 2 := by ring
  rw [eθ]
  generalize h / 360 * Real.pi * 2 = θ at hden ⊢
  have e0 : (f64Max : ℝ) = 1.7976931348623157e308 := rfl
  rw [e0]
  generalize (1.7976931348623157e308 : ℝ) = acc
  generalize Spec.Cie.bounds l = bs at hden ⊢
  induction bs generalizing acc with
  | nil => rfl
  | cons b bs ih =>
    simp only [List.map, List.foldl]
    rw [chromaStep_eq_spec θ acc b (hden b (List.mem_cons_self ..))]
    exact ih _ (fun b' hb' => hden b' (List.mem_cons_of_mem _ hb'))


/- Full-strength statement (NOT provable on the unchanged tree — suspected defect D5, and the extra `1e-6` filter):
     ∀ L ∈ [0,100], C, H:  lchuvToHsluv ⟨L, C, H⟩ = Spec.Cie.lchToHsluv L C H   and   hsluvToLchuv ⟨H, S, L⟩ = Spec.Cie.hsluvToLch H S L.
   The code has neither of the reference's guards (`L > 99.9999999 ⇒ S = 0`, `L < 1e-8 ⇒ S = 0`); see `C01Cie.maxChroma_zero_at_L0`
   for the kernel-checked witness that the divisor vanishes at `L = 0`.  Proved: equality between the guards, where no boundary line
   is numerically parallel to the hue ray. -/

/-- **Lchuv → Hsluv = HSLuv reference `lchToHsluv`** for `1e-8 ≤ L ≤ 99.9999999` -/
theorem lchuvToHsluv_eq_spec_partial (L C H : ℝ) (h0 : 1e-8 ≤ L) (h1 : L ≤ 99.9999999)
    (hden : ∀ b ∈ Spec.Cie.bounds L, 1e-6 < |Real.sin (H / 360 * Real.pi * 2) - b.1 * Real.cos (H / 360 * Real.pi * 2)|) :
    lchuvToHsluv ⟨L, C, H⟩ = ⟨(Spec.Cie.lchToHsluv L C H).1, (Spec.Cie.lchToHsluv L C H).2.1, (Spec.Cie.lchToHsluv L C H).2.2⟩ := by
  unfold Spec.Cie.lchToHsluv
  rw [if_neg (not_lt.mpr h1), if_neg (not_lt.mpr (by norm_num at h0 ⊢; exact h0))]
  simp only [lchuvToHsluv, maxChroma_eq_spec L H hden]
  congr 1; norm_num

/-- **Hsluv → Lchuv = HSLuv reference `hsluvToLch`** for `1e-8 ≤ L ≤ 99.9999999` -/
theorem hsluvToLchuv_eq_spec_partial (H S L : ℝ) (h0 : 1e-8 ≤ L) (h1 : L ≤ 99.9999999)
    (hden : ∀ b ∈ Spec.Cie.bounds L, 1e-6 < |Real.sin (H / 360 * Real.pi * 2) - b.1 * Real.cos (H / 360 * Real.pi * 2)|) :
    hsluvToLchuv ⟨H, S, L⟩ = ⟨(Spec.Cie.hsluvToLch H S L).1, (Spec.Cie.hsluvToLch H S L).2.1, (Spec.Cie.hsluvToLch H S L).2.2⟩ := by
  unfold Spec.Cie.hsluvToLch
  rw [if_neg (not_lt.mpr h1), if_neg (not_lt.mpr (by norm_num at h0 ⊢; exact h0))]
  simp only [hsluvToLchuv, maxChroma_eq_spec L H hden]
  congr 1; norm_num; ring

/-- non-vacuity: mid lightness is between the guards -/
example : (1e-8 : ℝ) ≤ 50 ∧ (50 : ℝ) ≤ 99.9999999 := by norm_num

/-! ### Xyz ↔ Lms -/

theorem coneMatrix_bradford : coneMatrix? "Bradford" = some ((Gen.Mat.coneMatrices.getD 0 default).2.1, (Gen.Mat.coneMatrices.getD 0 default).2.2) := by rfl
theorem coneMatrix_vonKries : coneMatrix? "VonKries" = some ((Gen.Mat.coneMatrices.getD 2 default).2.1, (Gen.Mat.coneMatrices.getD 2 default).2.2) := by rfl
theorem coneMatrix_unit : coneMatrix? "UnitMatrix" = some ((Gen.Mat.coneMatrices.getD 1 default).2.1, (Gen.Mat.coneMatrices.getD 1 default).2.2) := by rfl

/-- **Xyz → Lms (Bradford) = the published Bradford matrix** applied to the tristimulus vector -/
theorem xyzToLms_bradford_eq_spec (x y z : ℝ) :
    xyzToLms (Gen.Mat.coneMatrices.getD 0 default).2.1 ⟨x, y, z⟩ =
      ⟨Spec.Cie.bradford 0 0 * x + Spec.Cie.bradford 0 1 * y + Spec.Cie.bradford 0 2 * z,
       Spec.Cie.bradford 1 0 * x + Spec.Cie.bradford 1 1 * y + Spec.Cie.bradford 1 2 * z,
       Spec.Cie.bradford 2 0 * x + Spec.Cie.bradford 2 1 * y + Spec.Cie.bradford 2 2 * z⟩ := by
  simp only [xyzToLms, Gen.Mat.coneMatrices, List.getD_cons_zero, M3.ofK, M3.mulVec, Spec.Cie.bradford, RealScalar.const_eq,
    RealScalar.eval_neg, RealScalar.eval_ofSci]
  congr 1 <;> norm_num

theorem xyzToLms_vonKries_eq_spec (x y z : ℝ) :
    xyzToLms (Gen.Mat.coneMatrices.getD 2 default).2.1 ⟨x, y, z⟩ =
      ⟨Spec.Cie.vonKries 0 0 * x + Spec.Cie.vonKries 0 1 * y + Spec.Cie.vonKries 0 2 * z,
       Spec.Cie.vonKries 1 0 * x + Spec.Cie.vonKries 1 1 * y + Spec.Cie.vonKries 1 2 * z,
       Spec.Cie.vonKries 2 0 * x + Spec.Cie.vonKries 2 1 * y + Spec.Cie.vonKries 2 2 * z⟩ := by
  simp only [xyzToLms, Gen.Mat.coneMatrices, List.getD_cons_succ, List.getD_cons_zero, M3.ofK, M3.mulVec, Spec.Cie.vonKries, RealScalar.const_eq,
    RealScalar.eval_neg, RealScalar.eval_ofSci]
  congr 1 <;> norm_num

/-- XYZ scaling: the unit matrix is the identity in both directions, exactly -/
theorem xyzToLms_unit (c : V3 ℝ) : xyzToLms (Gen.Mat.coneMatrices.getD 1 default).2.1 c = c ∧ lmsToXyz (Gen.Mat.coneMatrices.getD 1 default).2.2 c = c := by
  obtain ⟨x, y, z⟩ := c
  simp only [xyzToLms, lmsToXyz, Gen.Mat.coneMatrices, List.getD_cons_succ, List.getD_cons_zero, M3.ofK, M3.mulVec, RealScalar.const_eq,
    RealScalar.eval_ofSci]
  constructor <;> (congr 1 <;> norm_num)



/-- **below the cutoff** `0 ≤ L < 1e-5` the code returns black where CIE 15 gives `Y = Yn·L·(3/29)³`: the deviation is at most `1.2e-8·|Yn|` -/
theorem luvToXyz_below_cutoff (Xn Yn Zn L u v : ℝ) (h0 : 0 ≤ L) (h1 : L < 1e-5) :
    luvToXyz ⟨Xn, Yn, Zn⟩ ⟨L, u, v⟩ = ⟨0, 0, 0⟩ ∧ |(Spec.Cie.xyzOfLuv Xn Yn Zn L u v).2.1 - 0| ≤ 1.2e-8 * |Yn| := by
  refine ⟨luvToXyz_of_lt _ _ h1, ?_⟩
  have h8 : ¬ L > 8 := by norm_num at h1 ⊢; linarith
  simp only [Spec.Cie.xyzOfLuv, if_neg h8, sub_zero]
  rw [abs_mul, mul_comm]
  apply mul_le_mul_of_nonneg_right _ (abs_nonneg _)
  rw [abs_of_nonneg (by positivity)]
  norm_num at h1 ⊢; linarith

example : (0 : ℝ) ≤ 5e-6 ∧ (5e-6 : ℝ) < 1e-5 := by norm_num

/-! ### white points and the neutral axis (shared with C14) -/

theorem find_D65 : Gen.Mat.whitePoints.find? (·.1 == "D65") = some ("D65", [(0.95047 : K), (1.0 : K), (1.08883 : K)]) := by rfl
theorem find_D50 : Gen.Mat.whitePoints.find? (·.1 == "D50") = some ("D50", [(0.96422 : K), (1.0 : K), (0.82521 : K)]) := by rfl
theorem find_E : Gen.Mat.whitePoints.find? (·.1 == "E") = some ("E", [(1.0 : K), (1.0 : K), (1.0 : K)]) := by rfl
theorem find_A : Gen.Mat.whitePoints.find? (·.1 == "A") = some ("A", [(1.09850 : K), (1.0 : K), (0.35585 : K)]) := by rfl

/-- the extracted white points the harness exercises are the published CIE tristimulus values (2° observer, Y = 1) -/
theorem whitePoints_published :
    (Color.whitePoint "D65" : V3 ℝ) = ⟨0.95047, 1, 1.08883⟩ ∧ (Color.whitePoint "D50" : V3 ℝ) = ⟨0.96422, 1, 0.82521⟩ ∧
    (Color.whitePoint "E" : V3 ℝ) = ⟨1, 1, 1⟩ ∧ (Color.whitePoint "A" : V3 ℝ) = ⟨1.09850, 1, 0.35585⟩ := by
  unfold Color.whitePoint
  rw [find_D65, find_D50, find_E, find_A]
  simp only [Color.v3OfK, RealScalar.const_eq, RealScalar.eval_ofSci]
  norm_num

/-- **neutrals stay neutral (L\*a\*b\*)**: every multiple `g·white` has `a* = b* = 0` exactly; `L* = 116 f(g) − 16` -/
theorem xyzToLab_neutral (wp : V3 ℝ) (g : ℝ) (h0 : wp.c0 ≠ 0) (h1 : wp.c1 ≠ 0) (h2 : wp.c2 ≠ 0) :
    xyzToLab wp ⟨g * wp.c0, g * wp.c1, g * wp.c2⟩ = ⟨labF g * 116 - 16, 0, 0⟩ := by
  unfold xyzToLab
  simp only [mul_div_assoc, div_self h0, div_self h1, div_self h2, mul_one]
  congr 1 <;> norm_num

/-- white has `L* = 100` -/
theorem labF_one : labF (1 : ℝ) = 1 := by
  rw [labF_hi (by norm_num), Real.one_rpow]

theorem xyzToLab_white (wp : V3 ℝ) (h0 : wp.c0 ≠ 0) (h1 : wp.c1 ≠ 0) (h2 : wp.c2 ≠ 0) : xyzToLab wp wp = ⟨100, 0, 0⟩ := by
  have := xyzToLab_neutral wp 1 h0 h1 h2
  simp only [one_mul] at this
  rw [this, labF_one]; congr 1; norm_num

/-- **neutrals stay neutral (L\*u\*v\*)**: `u* = v* = 0` exactly for every non-zero multiple of the white point -/
theorem xyzToLuv_neutral (wp : V3 ℝ) (g : ℝ) (hg : g ≠ 0) (hd : wp.c0 + 15 * wp.c1 + 3 * wp.c2 ≠ 0) :
    (xyzToLuv wp ⟨g * wp.c0, g * wp.c1, g * wp.c2⟩).c1 = 0 ∧ (xyzToLuv wp ⟨g * wp.c0, g * wp.c1, g * wp.c2⟩).c2 = 0 := by
  have hd' : g * wp.c0 + 15 * (g * wp.c1) + 3 * (g * wp.c2) ≠ 0 := by
    have : g * wp.c0 + 15 * (g * wp.c1) + 3 * (g * wp.c2) = g * (wp.c0 + 15 * wp.c1 + 3 * wp.c2) := by ring
    rw [this]; exact mul_ne_zero hg hd
  rw [xyzToLuv_of_ne wp _ hd']
  simp only
  have e : g * wp.c0 + 15 * (g * wp.c1) + 3 * (g * wp.c2) = g * (wp.c0 + 15 * wp.c1 + 3 * wp.c2) := by ring
  rw [e]
  constructor
  · have : 4 * (g * wp.c0) * (1 / (g * (wp.c0 + 15 * wp.c1 + 3 * wp.c2))) - 4 * wp.c0 * (1 / (wp.c0 + 15 * wp.c1 + 3 * wp.c2)) = 0 := by
      field_simp; ring
    rw [this, mul_zero]
  · have : 9 * (g * wp.c1) * (1 / (g * (wp.c0 + 15 * wp.c1 + 3 * wp.c2))) - 9 * wp.c1 * (1 / (wp.c0 + 15 * wp.c1 + 3 * wp.c2)) = 0 := by
      field_simp; ring
    rw [this, mul_zero]

example : (0.95047 : ℝ) + 15 * 1 + 3 * 1.08883 ≠ 0 := by norm_num
end C02Cie
