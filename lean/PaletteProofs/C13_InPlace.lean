/-
  C13 — in-place conversion equals out-of-place conversion and guards restore on drop.

  Theorems about `PaletteModel/InPlace.lean`, the symbolic transcription of `from_into_color_mut.rs`,
  `from_into_color_unclamped_mut.rs`, the `Vec`/`Box<[T]>` impls of `FromColor`/`FromColorUnclamped` and
  `cast::map_vec_in_place`.  Everything is proved for **arbitrary histories** (any length, any nesting of guards,
  any chain depth, any buffer length including 0) by induction over the list of operations.

  Reading guide
    * `step` / `run`           the faithful model (guards are `Option`s that are `take`n, every temporary runs `Drop`)
    * `specStep` / `specRun`   the property written directly (convert once with the ordinary conversion; `drop`/`restore`
                               convert back once from the *current* type; `forget` does nothing)
    * `run_refines_spec`       the two agree on every history                                   (refinement)
    * `run_inv`, `run_frame`, `run_typed`, `step_pending`                                         (invariant)
    * `in_place_eq_out_of_place*`, `drop_restores_in_one_step`, `restore_eq_drop`, `forget_keeps_converted_state`,
      `chain_then_drop`, `write_visible_and_restored`                                             (the clauses of C13)
-/
import PaletteModel.InPlace
import PaletteModel.Gen.InPlace

namespace C13
open InPlace

/-! ## invariants -/

/-- the borrow chain of the live guards: every guard still holds its reference, and the reference it will give back
    (`original`) is the static type of the access path underneath it -/
def Chain (root : Ty) : List Guard → Prop
  | [] => True
  | g :: gs => g.current.isSome = true ∧ viewTy root gs = some g.original ∧ Chain root gs

/-- a "single colour" buffer has exactly one element -/
def SingleOk (form : Form) (b : Buffer) : Prop := form = .single → b.elems.length = 1

def Inv (s : State) : Prop := Chain s.rootTy s.guards ∧ SingleOk s.form s.buf

/-- the memory holds colours of the type through which it is currently accessed (`buffer.tag = guard.current`) -/
def Typed (s : State) : Prop := viewTy s.rootTy s.guards = some s.buf.tag

@[simp] theorem viewTy_nil (root : Ty) : viewTy root [] = some root := rfl
@[simp] theorem viewTy_cons (root : Ty) (g : Guard) (gs : List Guard) : viewTy root (g :: gs) = g.current := rfl

/-! ## the code paths, one by one -/

/-- the `ptr::read` / `map` / `ptr::write` loop of `map_vec_in_place` is `map` -/
theorem readMapWrite_eq_map (f : Term → Term) (l : List Term) : readMapWrite f l = l.map f := by
  induction l with
  | nil => rfl
  | cons a l ih => simp [readMapWrite, ih]

theorem mapInPlace_eq_convAll (cl : Bool) (A B : Ty) (b : Buffer) : mapInPlace cl A B b = convAll cl A B b := by
  simp [mapInPlace, convAll, outOfPlace, readMapWrite_eq_map]

/-- slices: converting each element in place and forgetting its guard = the ordinary conversion of each element -/
theorem fromColorMutSlice_eq (cl : Bool) (U T : Ty) (cs : List Term) :
    fromColorMutSlice cl U T cs = ({ current := some T, original := U, clamped := cl }, outOfPlace cl U T cs) := by
  simp [fromColorMutSlice, fromColorMutElem, outOfPlace]

/-- `from_color_mut` on any form: a guard `Some(&mut T)`/`U`, and the same memory with every colour converted once -/
theorem fromColorMut_eq (cl : Bool) (U T : Ty) (form : Form) (b : Buffer) (h : SingleOk form b) :
    fromColorMut cl U T form b = ({ current := some T, original := U, clamped := cl }, convAll cl U T b) := by
  cases form with
  | single =>
    obtain ⟨e, he⟩ : ∃ e, b.elems = [e] := List.length_eq_one_iff.mp (h rfl)
    simp [fromColorMut, fromColorMutElem, convAll, outOfPlace, he]
  | slice => simp [fromColorMut, fromColorMutSlice_eq, convAll]
  | vec => simp [fromColorMut, fromColorMutSlice_eq, convAll]
  | boxed => simp [fromColorMut, fromColorMutSlice_eq, convAll]

theorem singleOk_convAll {form : Form} {b : Buffer} (h : SingleOk form b) (cl : Bool) (A B : Ty) : SingleOk form (convAll cl A B b) := by
  intro hf; simpa [convAll, outOfPlace] using h hf

/-- `Drop` of a guard whose reference was moved out does nothing: **no second back-conversion** -/
theorem dropGuard_taken (form : Form) (g : Guard) (b : Buffer) (h : g.current = none) : dropGuard form g b = b := by
  simp [dropGuard, Guard.take, h]

/-- `Drop` of a guard that still holds `&mut T`: one conversion `T → original` of the current contents -/
theorem dropGuard_holding (form : Form) (g : Guard) (b : Buffer) (T : Ty) (h : g.current = some T) (hs : SingleOk form b) :
    dropGuard form g b = convAll g.clamped T g.original b := by
  simp [dropGuard, Guard.take, h, fromColorMut_eq _ _ _ _ _ hs]

/-- the shared expression of `then_into_*` and `restore`: the colours are converted once, the reference comes out with the
    new type, and neither the temporary inner guard nor the moved-from `self` converts anything back -/
theorem takeMapTake_eq (form : Form) (cl : Bool) (X : Ty) (g : Guard) (b : Buffer) (T : Ty) (h : g.current = some T)
    (hs : SingleOk form b) : takeMapTake form cl X g b = (some X, convAll cl T X b) := by
  simp [takeMapTake, Guard.take, h, fromColorMut_eq _ _ _ _ _ hs, dropGuard]

theorem chain_head {root : Ty} {g : Guard} {gs : List Guard} (h : Chain root (g :: gs)) : ∃ T, g.current = some T :=
  Option.isSome_iff_exists.mp h.1

/-! ## refinement: the faithful model computes what the property says, on every history -/

theorem step_eq_specStep (op : Op) (s : State) (hinv : Inv s) : step op s = specStep op s := by
  obtain ⟨hc, hs⟩ := hinv
  cases hg : s.guards with
  | nil =>
    cases op <;> simp [step, specStep, hg, fromColorMut_eq _ _ _ _ _ hs, mapInPlace_eq_convAll]
  | cons g gs =>
    rw [hg] at hc
    obtain ⟨T, hT⟩ := chain_head hc
    cases op <;>
      simp [step, specStep, hg, hT, fromColorMut_eq _ _ _ _ _ hs, thenInto, switchGuard, restore,
        takeMapTake_eq _ _ _ _ _ _ hT hs, dropGuard_holding _ _ _ _ hT hs, dropGuard_taken, Guard.take] <;>
      (cases hcl : g.clamped <;> simp)

/-- the invariant is preserved by every operation -/
theorem specStep_inv (op : Op) (s s' : State) (hinv : Inv s) (h : specStep op s = some s') : Inv s' := by
  obtain ⟨hc, hs⟩ := hinv
  cases hg : s.guards with
  | nil =>
    rw [hg] at hc
    cases op <;> simp [specStep, hg] at h
    case fromColorMut cl T => subst h; exact ⟨by simp [Chain], singleOk_convAll hs _ _ _⟩
    case deref => subst h; exact ⟨by simpa [hg] using hc, hs⟩
    case write i k =>
      obtain ⟨_, rfl⟩ := h
      exact ⟨by simp [Chain], by intro hf; simpa using hs hf⟩
    case ownedFromColor cl T =>
      obtain ⟨_, rfl⟩ := h
      exact ⟨by simp [Chain], singleOk_convAll hs _ _ _⟩
  | cons g gs =>
    rw [hg] at hc
    obtain ⟨T, hT⟩ := chain_head hc
    obtain ⟨_, hbelow, hrest⟩ := hc
    cases op <;> simp [specStep, hg, hT] at h
    case fromColorMut cl T' => subst h; exact ⟨by simp [Chain, hT, hbelow, hrest], singleOk_convAll hs _ _ _⟩
    case deref => subst h; exact ⟨by simp [hg, Chain, hT, hbelow, hrest], hs⟩
    case write i k =>
      obtain ⟨_, rfl⟩ := h
      exact ⟨by simp [Chain, hT, hbelow, hrest], by intro hf; simpa using hs hf⟩
    case thenInto C => subst h; exact ⟨by simp [Chain, hbelow, hrest], singleOk_convAll hs _ _ _⟩
    case thenIntoUnclamped C => subst h; exact ⟨by simp [Chain, hbelow, hrest], singleOk_convAll hs _ _ _⟩
    case intoUnclampedGuard => obtain ⟨_, rfl⟩ := h; exact ⟨by simp [Chain, hbelow, hrest], hs⟩
    case intoClampedGuard => obtain ⟨_, rfl⟩ := h; exact ⟨by simp [Chain, hbelow, hrest], hs⟩
    case restore => subst h; exact ⟨hrest, singleOk_convAll hs _ _ _⟩
    case drop => subst h; exact ⟨hrest, singleOk_convAll hs _ _ _⟩
    case forget => subst h; exact ⟨hrest, hs⟩

theorem step_inv (op : Op) (s s' : State) (hinv : Inv s) (h : step op s = some s') : Inv s' :=
  specStep_inv op s s' hinv (by rw [← step_eq_specStep op s hinv]; exact h)

/-- **[refinement]** for every history, from every state satisfying the invariant, the transcription of the Rust code
    and the direct statement of the property give the same result (same buffer terms, same guards, same failures) -/
theorem run_refines_spec (ops : List Op) (s : State) (hinv : Inv s) : run ops s = specRun ops s := by
  induction ops generalizing s with
  | nil => rfl
  | cons op ops ih =>
    simp only [run, specRun, ← step_eq_specStep op s hinv]
    cases h : step op s with
    | none => rfl
    | some s' => simpa using ih s' (step_inv op s s' hinv h)

/-- **[invariant]** the borrow chain stays intact along every history -/
theorem run_inv (ops : List Op) (s s' : State) (hinv : Inv s) (h : run ops s = some s') : Inv s' := by
  induction ops generalizing s with
  | nil => simp [run] at h; exact h ▸ hinv
  | cons op ops ih =>
    simp only [run] at h
    cases hstep : step op s with
    | none => simp [hstep] at h
    | some s1 => rw [hstep] at h; exact ih s1 (step_inv op s s1 hinv hstep) (by simpa using h)

/-- a fresh buffer satisfies the invariant and is typed (for a single colour: exactly one element) -/
theorem fresh_inv (form : Form) (U id cap n : Nat) (h : form = .single → n = 1) : Inv (fresh form U id cap n) :=
  ⟨by simp [fresh, Chain], by intro hf; simp [fresh, h hf]⟩

theorem fresh_typed (form : Form) (U id cap n : Nat) : Typed (fresh form U id cap n) := by simp [Typed, fresh]

/-! ## invariant: same memory, same length, same capacity; tag = guard.current; one back-conversion pending -/

theorem specStep_frame (op : Op) (s s' : State) (h : specStep op s = some s') :
    s'.buf.id = s.buf.id ∧ s'.buf.cap = s.buf.cap ∧ s'.buf.elems.length = s.buf.elems.length ∧ s'.form = s.form := by
  cases hg : s.guards with
  | nil =>
    cases op <;> simp [specStep, hg] at h
    case fromColorMut cl T => subst h; simp [convAll, outOfPlace]
    case deref => subst h; simp
    case write i k => obtain ⟨_, rfl⟩ := h; simp
    case ownedFromColor cl T => obtain ⟨_, rfl⟩ := h; simp [convAll, outOfPlace]
  | cons g gs =>
    cases op <;> simp [specStep, hg] at h
    case fromColorMut cl T' => obtain ⟨_, _, rfl⟩ := h; simp [convAll, outOfPlace]
    case deref => obtain ⟨_, _, rfl⟩ := h; simp
    case write i k => obtain ⟨_, _, _, rfl⟩ := h; simp
    case thenInto C => obtain ⟨_, _, rfl⟩ := h; simp [convAll, outOfPlace]
    case thenIntoUnclamped C => obtain ⟨_, _, rfl⟩ := h; simp [convAll, outOfPlace]
    case intoUnclampedGuard => obtain ⟨_, rfl⟩ := h; simp
    case intoClampedGuard => obtain ⟨_, rfl⟩ := h; simp
    case restore => obtain ⟨_, _, rfl⟩ := h; simp [convAll, outOfPlace]
    case drop => obtain ⟨_, _, rfl⟩ := h; simp [convAll, outOfPlace]
    case forget => subst h; simp

/-- **[invariant]** no history ever changes the address, the capacity or the length of the buffer (length 0 included) -/
theorem run_frame (ops : List Op) (s s' : State) (hinv : Inv s) (h : run ops s = some s') :
    s'.buf.id = s.buf.id ∧ s'.buf.cap = s.buf.cap ∧ s'.buf.elems.length = s.buf.elems.length ∧ s'.form = s.form := by
  induction ops generalizing s with
  | nil => simp [run] at h; subst h; simp
  | cons op ops ih =>
    simp only [run] at h
    cases hstep : step op s with
    | none => simp [hstep] at h
    | some s1 =>
      rw [hstep] at h
      have h1 := specStep_frame op s s1 (by rw [← step_eq_specStep op s hinv]; exact hstep)
      have h2 := ih s1 (step_inv op s s1 hinv hstep) (by simpa using h)
      exact ⟨h2.1.trans h1.1, h2.2.1.trans h1.2.1, h2.2.2.1.trans h1.2.2.1, h2.2.2.2.trans h1.2.2.2⟩

theorem specStep_typed (op : Op) (s s' : State) (hinv : Inv s) (ht : Typed s) (hop : op ≠ .forget)
    (h : specStep op s = some s') : Typed s' := by
  obtain ⟨hc, _⟩ := hinv
  unfold Typed at ht ⊢
  cases hg : s.guards with
  | nil =>
    rw [hg] at ht
    cases op <;> simp [specStep, hg] at h
    case fromColorMut cl T => subst h; simp [viewTy, convAll]
    case deref => subst h; simpa [hg] using ht
    case write i k => obtain ⟨_, rfl⟩ := h; simpa [hg] using ht
    case ownedFromColor cl T => obtain ⟨_, rfl⟩ := h; simp [convAll]
  | cons g gs =>
    rw [hg] at hc ht
    obtain ⟨_, hbelow, _⟩ := hc
    cases op <;> simp [specStep, hg] at h
    case fromColorMut cl T' => obtain ⟨_, _, rfl⟩ := h; simp [viewTy, convAll]
    case deref => obtain ⟨_, _, rfl⟩ := h; simpa [hg] using ht
    case write i k => obtain ⟨_, _, _, rfl⟩ := h; simpa [hg] using ht
    case thenInto C => obtain ⟨_, _, rfl⟩ := h; simp [viewTy, convAll]
    case thenIntoUnclamped C => obtain ⟨_, _, rfl⟩ := h; simp [viewTy, convAll]
    case intoUnclampedGuard => obtain ⟨_, rfl⟩ := h; simpa [viewTy] using ht
    case intoClampedGuard => obtain ⟨_, rfl⟩ := h; simpa [viewTy] using ht
    case restore => obtain ⟨_, _, rfl⟩ := h; simp [convAll, hbelow]
    case drop => obtain ⟨_, _, rfl⟩ := h; simp [convAll, hbelow]
    case forget => exact absurd rfl hop

/-- **[invariant]** along every history without `mem::forget`, the memory holds colours of exactly the type through which
    it is accessed: while a guard is alive `buffer.tag = guard.current`, after `drop`/`restore` the tag is the guard's
    `original` (which is the type of the access path underneath, by the chain invariant) -/
theorem run_typed (ops : List Op) (s s' : State) (hinv : Inv s) (ht : Typed s) (hops : ∀ op ∈ ops, op ≠ .forget)
    (h : run ops s = some s') : Typed s' := by
  induction ops generalizing s with
  | nil => simp [run] at h; exact h ▸ ht
  | cons op ops ih =>
    simp only [run] at h
    cases hstep : step op s with
    | none => simp [hstep] at h
    | some s1 =>
      rw [hstep] at h
      have hspec : specStep op s = some s1 := by rw [← step_eq_specStep op s hinv]; exact hstep
      exact ih s1 (step_inv op s s1 hinv hstep) (specStep_typed op s s1 hinv ht (hops op (by simp)) hspec)
        (fun o ho => hops o (by simp [ho])) (by simpa using h)

/-- the reading of `run_typed` the property uses: the innermost live guard's `current` is the buffer's tag -/
theorem guard_alive_tag (ops : List Op) (s s' : State) (hinv : Inv s) (ht : Typed s) (hops : ∀ op ∈ ops, op ≠ .forget)
    (h : run ops s = some s') (g : Guard) (gs : List Guard) (hg : s'.guards = g :: gs) : g.current = some s'.buf.tag := by
  have := run_typed ops s s' hinv ht hops h
  simpa [Typed, hg] using this

/-- how many back-conversions are pending after an operation: `from_color_mut` adds one, `drop`/`restore`/`forget`
    remove one, everything else — in particular `then_into_*` and the guard switches, whose inner guard is consumed by
    `take()` — leaves **exactly** as many as before -/
def pendingAfter (op : Op) (n : Nat) : Nat :=
  match op with
  | .fromColorMut _ _ => n + 1
  | .restore | .drop | .forget => n - 1
  | _ => n

theorem step_pending (op : Op) (s s' : State) (hinv : Inv s) (h : step op s = some s') :
    s'.guards.length = pendingAfter op s.guards.length := by
  rw [step_eq_specStep op s hinv] at h
  cases hg : s.guards with
  | nil =>
    cases op <;> simp [specStep, hg] at h
    case fromColorMut cl T => subst h; simp [pendingAfter]
    case deref => subst h; simp [pendingAfter, hg]
    case write i k => obtain ⟨_, rfl⟩ := h; simp [pendingAfter]
    case ownedFromColor cl T => obtain ⟨_, rfl⟩ := h; simp [pendingAfter]
  | cons g gs =>
    cases op <;> simp [specStep, hg] at h
    case fromColorMut cl T' => obtain ⟨_, _, rfl⟩ := h; simp [pendingAfter]
    case deref => obtain ⟨_, _, rfl⟩ := h; simp [pendingAfter, hg]
    case write i k => obtain ⟨_, _, _, rfl⟩ := h; simp [pendingAfter]
    case thenInto C => obtain ⟨_, _, rfl⟩ := h; simp [pendingAfter]
    case thenIntoUnclamped C => obtain ⟨_, _, rfl⟩ := h; simp [pendingAfter]
    case intoUnclampedGuard => obtain ⟨_, rfl⟩ := h; simp [pendingAfter]
    case intoClampedGuard => obtain ⟨_, rfl⟩ := h; simp [pendingAfter]
    case restore => obtain ⟨_, _, rfl⟩ := h; simp [pendingAfter]
    case drop => obtain ⟨_, _, rfl⟩ := h; simp [pendingAfter]
    case forget => subst h; simp [pendingAfter]

/-- `then_into_*` replaces the guard by one for the new type that still restores to the **same** original -/
theorem then_into_guard (cl : Bool) (C : Ty) (s : State) (g : Guard) (gs : List Guard) (T : Ty) (hinv : Inv s)
    (hg : s.guards = g :: gs) (hT : g.current = some T) :
    step (if cl then .thenInto C else .thenIntoUnclamped C) s =
      some { s with buf := convAll cl T C s.buf, guards := { current := some C, original := g.original, clamped := cl } :: gs } := by
  rw [step_eq_specStep _ s hinv]
  cases cl <;> simp [specStep, hg, hT]

/-! ## in place = out of place -/

/-- **[in-place = out-of-place]** from any state, `from_color_mut` (clamped or not, single colour, slice, or the slice of a
    `Vec`/`Box`) leaves in every slot the ordinary conversion of what the slot held, in the same memory -/
theorem in_place_eq_out_of_place (cl : Bool) (T : Ty) (s : State) (hinv : Inv s) (U : Ty) (hU : viewTy s.rootTy s.guards = some U) :
    ∃ s', step (.fromColorMut cl T) s = some s' ∧ s'.buf.elems = outOfPlace cl U T s.buf.elems ∧ s'.buf.tag = T ∧
      s'.buf.id = s.buf.id ∧ s'.buf.cap = s.buf.cap ∧ s'.guards = { current := some T, original := U, clamped := cl } :: s.guards := by
  rw [step_eq_specStep _ s hinv]
  simp [specStep, hU, convAll]

/-- the same on a fresh buffer, slot by slot: slot `i` holds `conv U→T (src i)`, the term `T::from_color(colors[i])` denotes.
    `n = 0` is allowed (nothing to check, nothing touched). -/
theorem in_place_eq_out_of_place_fresh (cl : Bool) (form : Form) (U T id cap n : Nat) (hf : form = .single → n = 1) :
    ∃ s', run [.fromColorMut cl T] (fresh form U id cap n) = some s' ∧ s'.buf.elems.length = n ∧
      ∀ i, i < n → s'.buf.elems[i]? = some (.conv cl U T (.src i)) := by
  obtain ⟨s', h, he, -⟩ := in_place_eq_out_of_place cl T (fresh form U id cap n) (fresh_inv form U id cap n hf) U (by simp [fresh])
  refine ⟨s', by simp [run, h], by simp [he, outOfPlace, fresh], ?_⟩
  intro i hi
  simp [he, outOfPlace, fresh, hi]

/-- **[in-place = out-of-place, `Vec` and `Box<[T]>`]** `Vec::<T>::from_color(v)` (through `map_vec_in_place`) gives the
    ordinary conversion of every element and keeps address, length and capacity -/
theorem owned_in_place_eq_out_of_place (cl : Bool) (T : Ty) (s : State) (hg : s.guards = []) (hf : s.form = .vec ∨ s.form = .boxed) :
    step (.ownedFromColor cl T) s = some { s with rootTy := T, buf := convAll cl s.rootTy T s.buf } ∧
    (convAll cl s.rootTy T s.buf).elems = outOfPlace cl s.rootTy T s.buf.elems ∧
    (convAll cl s.rootTy T s.buf).elems.length = s.buf.elems.length ∧
    (convAll cl s.rootTy T s.buf).id = s.buf.id ∧ (convAll cl s.rootTy T s.buf).cap = s.buf.cap := by
  refine ⟨?_, rfl, by simp [convAll, outOfPlace], rfl, rfl⟩
  simp [step, hg, hf, mapInPlace_eq_convAll]

/-! ## restore on drop -/

/-- **[restore on drop]** dropping the innermost guard converts every slot **once**, from the guard's current type to its
    original type, applied to whatever the slot holds now (a single step, not the reverse of the chain that led here) -/
theorem drop_restores_in_one_step (s : State) (g : Guard) (gs : List Guard) (T : Ty) (hinv : Inv s)
    (hg : s.guards = g :: gs) (hT : g.current = some T) :
    step .drop s = some { s with buf := { s.buf with tag := g.original, elems := s.buf.elems.map (Term.conv g.clamped T g.original) }, guards := gs } := by
  rw [step_eq_specStep _ s hinv]
  simp [specStep, hg, hT, convAll, outOfPlace]

/-- `restore()` has the effect of `drop`, and the reference it returns has the guard's original type, which is the type of
    the access path underneath -/
theorem restore_eq_drop (s : State) (g : Guard) (gs : List Guard) (hinv : Inv s) (hg : s.guards = g :: gs) :
    step .restore s = step .drop s ∧
    (∃ b, restore s.form g s.buf = some (g.original, b)) ∧ viewTy s.rootTy gs = some g.original := by
  have hc := hinv.1; rw [hg] at hc
  obtain ⟨T, hT⟩ := chain_head hc
  refine ⟨?_, ?_, hc.2.1⟩
  · rw [step_eq_specStep _ s hinv, step_eq_specStep _ s hinv]; simp [specStep, hg]
  · exact ⟨convAll g.clamped T g.original s.buf, by simp [restore, takeMapTake_eq _ _ _ _ _ _ hT hinv.2]⟩

/-- **[forget]** forgetting the guard touches nothing: the buffer keeps the converted colours (and the converted tag) -/
theorem forget_keeps_converted_state (s : State) (g : Guard) (gs : List Guard) (hg : s.guards = g :: gs) :
    step .forget s = some { s with guards := gs } := by
  simp [step, hg]

/-- the `unreachable!()` arms of `Deref`, `DerefMut` and `restore` are unreachable: on a live guard reading, writing in
    bounds, restoring and dropping always succeed -/
theorem no_unreachable (s : State) (g : Guard) (gs : List Guard) (hinv : Inv s) (hg : s.guards = g :: gs) :
    (step .deref s).isSome = true ∧ (step .restore s).isSome = true ∧ (step .drop s).isSome = true ∧
    ∀ i k, i < s.buf.elems.length → (step (.write i k) s).isSome = true := by
  have hc := hinv.1; rw [hg] at hc
  obtain ⟨T, hT⟩ := chain_head hc
  refine ⟨?_, ?_, ?_, ?_⟩
  · simp [step, hg, hT]
  · rw [step_eq_specStep _ s hinv]; simp [specStep, hg, hT]
  · simp [step, hg]
  · intro i k hi; simp [step, hg, hT, hi]

theorem specStep_rootTy (op : Op) (s s' : State) (hop : ∀ cl T, op ≠ .ownedFromColor cl T) (h : specStep op s = some s') :
    s'.rootTy = s.rootTy := by
  cases hg : s.guards with
  | nil =>
    cases op <;> simp [specStep, hg] at h
    case fromColorMut cl T => subst h; rfl
    case deref => subst h; rfl
    case write i k => obtain ⟨_, rfl⟩ := h; rfl
    case ownedFromColor cl T => exact absurd rfl (hop cl T)
  | cons g gs =>
    cases op <;> simp [specStep, hg] at h
    case fromColorMut cl T' => obtain ⟨_, _, rfl⟩ := h; rfl
    case deref => obtain ⟨_, _, rfl⟩ := h; rfl
    case write i k => obtain ⟨_, _, _, rfl⟩ := h; rfl
    case thenInto C => obtain ⟨_, _, rfl⟩ := h; rfl
    case thenIntoUnclamped C => obtain ⟨_, _, rfl⟩ := h; rfl
    case intoUnclampedGuard => obtain ⟨_, rfl⟩ := h; rfl
    case intoClampedGuard => obtain ⟨_, rfl⟩ := h; rfl
    case restore => obtain ⟨_, _, rfl⟩ := h; rfl
    case drop => obtain ⟨_, _, rfl⟩ := h; rfl
    case forget => subst h; rfl

/-- **[restore, whole histories]** whatever is done in between — nested guards, chains, switches, writes —: once every guard
    of a `forget`-free history has been dropped or restored, the buffer holds colours of the owner's type again; if the owner
    was not converted by value that is the original type `U` -/
theorem closed_history_restores_type (ops : List Op) (form : Form) (U id cap n : Nat) (hf : form = .single → n = 1) (s' : State)
    (hops : ∀ op ∈ ops, op ≠ .forget) (h : run ops (fresh form U id cap n) = some s') (hclosed : s'.guards = []) :
    s'.buf.tag = s'.rootTy ∧ s'.buf.id = id ∧ s'.buf.cap = cap ∧ s'.buf.elems.length = n ∧
    ((∀ op ∈ ops, ∀ cl T, op ≠ .ownedFromColor cl T) → s'.buf.tag = U) := by
  have hinv := fresh_inv form U id cap n hf
  have ht := run_typed ops _ s' hinv (fresh_typed form U id cap n) hops h
  have hfr := run_frame ops _ s' hinv h
  have htag : s'.buf.tag = s'.rootTy := by simpa [Typed, hclosed] using ht.symm
  refine ⟨htag, by simpa [fresh] using hfr.1, by simpa [fresh] using hfr.2.1, by simpa [fresh] using hfr.2.2.1, ?_⟩
  intro hown
  have hroot : ∀ (ops : List Op) (s : State), Inv s → (∀ op ∈ ops, ∀ cl T, op ≠ .ownedFromColor cl T) → run ops s = some s' → s'.rootTy = s.rootTy := by
    intro ops
    induction ops with
    | nil => intro s _ _ h; simp [run] at h; rw [h]
    | cons op ops ih =>
      intro s hinv hown h
      simp only [run] at h
      cases hstep : step op s with
      | none => simp [hstep] at h
      | some s1 =>
        rw [hstep] at h
        have h1 := specStep_rootTy op s s1 (hown op (by simp)) (by rw [← step_eq_specStep op s hinv]; exact hstep)
        rw [ih s1 (step_inv op s s1 hinv hstep) (fun o ho => hown o (by simp [ho])) (by simpa using h), h1]
  rw [htag, hroot ops _ hinv hown h]; rfl

/-! ## chains of further in-place conversions -/

def thenOp : Bool × Ty → Op
  | (true, C) => .thenInto C
  | (false, C) => .thenIntoUnclamped C

/-- the forward conversions of a chain `A → B₁ → B₂ → …` applied to a term -/
def forward : Ty → List (Bool × Ty) → Term → Term
  | _, [], t => t
  | A, (cl, B) :: rest, t => forward B rest (.conv cl A B t)

def lastTy : Ty → List (Bool × Ty) → Ty
  | A, [] => A
  | _, (_, B) :: rest => lastTy B rest

def lastCl : Bool → List (Bool × Ty) → Bool
  | c, [] => c
  | _, (c, _) :: rest => lastCl c rest

theorem run_append (a b : List Op) (s : State) : run (a ++ b) s = (run a s).bind (run b) := by
  induction a generalizing s with
  | nil => simp [run]
  | cons op a ih => simp only [List.cons_append, run]; cases step op s <;> simp [ih]

theorem run_cons_some {op : Op} {ops : List Op} {s s1 : State} (h : step op s = some s1) : run (op :: ops) s = run ops s1 := by
  simp [run, h]

theorem run_append_some {a b : List Op} {s s1 : State} (h : run a s = some s1) : run (a ++ b) s = run b s1 := by
  simp [run_append, h]

/-- any chain of `then_into_color_mut` / `then_into_color_unclamped_mut` (any depth): every slot carries the forward
    conversions in order, and there is still one guard, for the last type, restoring to the **original** type -/
theorem run_thens (cs : List (Bool × Ty)) (s : State) (g : Guard) (gs : List Guard) (T : Ty) (hinv : Inv s) (ht : Typed s)
    (hg : s.guards = g :: gs) (hT : g.current = some T) :
    run (cs.map thenOp) s = some { s with
      buf := { s.buf with tag := lastTy T cs, elems := s.buf.elems.map (forward T cs) },
      guards := { current := some (lastTy T cs), original := g.original, clamped := lastCl g.clamped cs } :: gs } := by
  induction cs generalizing s g T with
  | nil =>
    have htag : T = s.buf.tag := by simpa [Typed, hg, hT] using ht
    have hf : forward T [] = id := by funext t; simp [forward]
    obtain ⟨form, root, buf, guards⟩ := s
    obtain ⟨cur, orig, cl⟩ := g
    simp_all [run, lastTy, lastCl]
  | cons c cs ih =>
    obtain ⟨cl, C⟩ := c
    have hstep := then_into_guard cl C s g gs T hinv hg hT
    have hop : thenOp (cl, C) = (if cl then Op.thenInto C else Op.thenIntoUnclamped C) := by cases cl <;> rfl
    have h1 := ih { s with buf := convAll cl T C s.buf, guards := { current := some C, original := g.original, clamped := cl } :: gs }
      { current := some C, original := g.original, clamped := cl } C (step_inv _ _ _ hinv hstep) (by simp [Typed, convAll]) rfl rfl
    simp only [List.map_cons, run, hop, hstep, Option.bind_some, h1]
    simp [convAll, outOfPlace, forward, lastTy, lastCl, List.map_map, Function.comp_def]

/-- **[chains]** `from_color_mut`, then any number of `then_into_*`, then `drop`, on a fresh buffer of any length: slot `i`
    ends up as **one** conversion `last type → U` of the forward chain applied to `src i`; the memory is the same, its
    tag is `U` again and no guard is left -/
theorem chain_then_drop (form : Form) (U id cap n : Nat) (hf : form = .single → n = 1) (c1 : Bool) (T1 : Ty) (cs : List (Bool × Ty)) :
    ∃ s', run (.fromColorMut c1 T1 :: (cs.map thenOp ++ [.drop])) (fresh form U id cap n) = some s' ∧
      s'.guards = [] ∧ s'.buf.tag = U ∧ s'.buf.id = id ∧ s'.buf.cap = cap ∧
      s'.buf.elems = (List.range n).map fun i => .conv (lastCl c1 cs) (lastTy T1 cs) U (forward T1 cs (.conv c1 U T1 (.src i))) := by
  have hinv0 := fresh_inv form U id cap n hf
  obtain ⟨s1, h1, he1, ht1, hid1, hcap1, hg1⟩ := in_place_eq_out_of_place c1 T1 (fresh form U id cap n) hinv0 U (by simp [fresh])
  have hinv1 := step_inv _ _ _ hinv0 h1
  have hty1 : Typed s1 := by simp [Typed, hg1, ht1]
  have h2 := run_thens cs s1 _ _ T1 hinv1 hty1 hg1 rfl
  have hinv2 := run_inv _ _ _ hinv1 h2
  have h3 := drop_restores_in_one_step _ _ _ (lastTy T1 cs) hinv2 rfl rfl
  refine ⟨_, (run_cons_some h1).trans ((run_append_some h2).trans (run_cons_some h3)), ?_⟩
  simp [he1, hid1, hcap1, outOfPlace, fresh, List.map_map, Function.comp_def]

/-! ## modifications made through the guard -/

/-- **[writes]** a colour stored through `DerefMut` is what `Deref` shows in that slot (the other slots are untouched), and
    when the guard is dropped that slot holds the back-conversion of the *written* colour -/
theorem write_visible_and_restored (s : State) (g : Guard) (gs : List Guard) (T : Ty) (hinv : Inv s)
    (hg : s.guards = g :: gs) (hT : g.current = some T) (i k : Nat) (hi : i < s.buf.elems.length) :
    ∃ s1 s2, step (.write i k) s = some s1 ∧ s1.guards = s.guards ∧ s1.buf.elems[i]? = some (.written k) ∧
      (∀ j, j ≠ i → s1.buf.elems[j]? = s.buf.elems[j]?) ∧
      step .drop s1 = some s2 ∧ s2.buf.elems[i]? = some (.conv g.clamped T g.original (.written k)) ∧
      (∀ j, j ≠ i → s2.buf.elems[j]? = (s.buf.elems[j]?).map (.conv g.clamped T g.original)) := by
  have h1 : step (.write i k) s = some { s with buf := { s.buf with elems := s.buf.elems.set i (.written k) } } := by
    simp [step, hi, hg, hT]
  have hinv1 := step_inv _ _ _ hinv h1
  have h2 := drop_restores_in_one_step _ g gs T hinv1 hg hT
  refine ⟨_, _, h1, rfl, by simp [hi], ?_, h2, by simp [hi], ?_⟩
  · intro j hj; simp [List.getElem?_set_ne (Ne.symm hj)]
  · intro j hj; simp [List.getElem?_set_ne (Ne.symm hj)]

/-! ## the guards' public surface is what the model's operations cover

  `Gen/InPlace.lean` is regenerated from the two guard source files on every run: the public inherent methods of both guard
  types (all `mut self`), the guard type each returns, the trait impls, and a shape check of the two fields.  The functions
  below match on the generated inductives, so a method that is added, removed or renamed upstream breaks this section
  instead of silently staying outside the model. -/

open Gen.InPlace in
def opOfClamped : ClampedGuardMethod → Ty → Op
  | .then_into_color_mut, C => .thenInto C
  | .then_into_color_unclamped_mut, C => .thenIntoUnclamped C
  | .into_unclamped_guard, _ => .intoUnclampedGuard
  | .restore, _ => .restore

open Gen.InPlace in
def opOfUnclamped : UnclampedGuardMethod → Ty → Op
  | .then_into_color_mut, C => .thenInto C
  | .then_into_color_unclamped_mut, C => .thenIntoUnclamped C
  | .into_clamped_guard, _ => .intoClampedGuard
  | .restore, _ => .restore

open Gen.InPlace in
def opOfClampedTrait : ClampedGuardTrait → Nat → Nat → Op
  | .Deref, _, _ => .deref
  | .DerefMut, i, k => .write i k
  | .Drop, _, _ => .drop

open Gen.InPlace in
def opOfUnclampedTrait : UnclampedGuardTrait → Nat → Nat → Op
  | .Deref, _, _ => .deref
  | .DerefMut, i, k => .write i k
  | .Drop, _, _ => .drop

/-- what a method's declared return type promises about the guard stack afterwards -/
def returnsOk (ret : Option Bool) (g : Guard) (gs : List Guard) (s' : State) : Prop :=
  match ret with
  | some k => ∃ g', s'.guards = g' :: gs ∧ g'.clamped = k ∧ g'.original = g.original
  | none => s'.guards = gs

open Gen.InPlace in
/-- every public method of `FromColorMutGuard` is enabled in the model on a live clamping guard, and leaves a guard of
    exactly the kind (clamping / unclamped, same original) that the method's Rust return type declares — or, for
    `restore`, no guard -/
theorem clamped_guard_surface_modelled (s : State) (g : Guard) (gs : List Guard) (hinv : Inv s) (hg : s.guards = g :: gs)
    (hcl : g.clamped = true) (m : ClampedGuardMethod) (C : Ty) :
    ∃ s', step (opOfClamped m C) s = some s' ∧ returnsOk m.returns g gs s' := by
  have hc := hinv.1; rw [hg] at hc
  obtain ⟨T, hT⟩ := chain_head hc
  rw [step_eq_specStep _ s hinv]
  cases m <;> simp [opOfClamped, specStep, hg, hT, hcl, ClampedGuardMethod.returns, returnsOk]

open Gen.InPlace in
theorem unclamped_guard_surface_modelled (s : State) (g : Guard) (gs : List Guard) (hinv : Inv s) (hg : s.guards = g :: gs)
    (hcl : g.clamped = false) (m : UnclampedGuardMethod) (C : Ty) :
    ∃ s', step (opOfUnclamped m C) s = some s' ∧ returnsOk m.returns g gs s' := by
  have hc := hinv.1; rw [hg] at hc
  obtain ⟨T, hT⟩ := chain_head hc
  rw [step_eq_specStep _ s hinv]
  cases m <;> simp [opOfUnclamped, specStep, hg, hT, hcl, UnclampedGuardMethod.returns, returnsOk]

open Gen.InPlace in
/-- the trait impls (`Deref`, `DerefMut`, `Drop`) of both guards are the model's `deref`, `write`, `drop` and are enabled on a
    live guard (`write` for an index in bounds) -/
theorem guard_traits_modelled (s : State) (g : Guard) (gs : List Guard) (hinv : Inv s) (hg : s.guards = g :: gs)
    (i k : Nat) (hi : i < s.buf.elems.length) :
    (∀ t : ClampedGuardTrait, (step (opOfClampedTrait t i k) s).isSome = true) ∧
    (∀ t : UnclampedGuardTrait, (step (opOfUnclampedTrait t i k) s).isSome = true) := by
  obtain ⟨h1, _, h3, h4⟩ := no_unreachable s g gs hinv hg
  exact ⟨fun t => by cases t <;> simp [opOfClampedTrait, h1, h3, h4 i k hi],
         fun t => by cases t <;> simp [opOfUnclampedTrait, h1, h3, h4 i k hi]⟩

/-! ## non-vacuity and sensitivity: concrete histories evaluated by the kernel -/

/-- `Srgb(0) → Hsv(3)`, write slot 1, `→ Hsl(5)`, drop: one back-conversion `5 → 0`, of the written colour in slot 1 -/
example : (run [.fromColorMut true 3, .write 1 0, .thenInto 5, .drop] (fresh .slice 0 100 2 2)).map (·.buf) =
    some { id := 100, cap := 2, tag := 0, elems := [.conv true 5 0 (.conv true 3 5 (.conv true 0 3 (.src 0))), .conv true 5 0 (.conv true 3 5 (.written 0))] } := by
  decide

/-- nested guards (`into_color_mut` on a guard): `Srgb → Hsv → Hsl → Hsv → Srgb`, as the crate's documentation says -/
example : (run [.fromColorMut true 3, .fromColorMut true 5, .drop, .drop] (fresh .single 0 100 1 1)).map (·.buf.elems) =
    some [.conv true 3 0 (.conv true 5 3 (.conv true 3 5 (.conv true 0 3 (.src 0))))] := by
  decide

/-- `forget` leaves the converted state, an empty `Vec` is fine, `restore` on an unclamped guard converts back unclamped -/
example : (run [.fromColorMut true 3, .forget] (fresh .vec 0 100 4 1)).map (·.buf.elems) = some [.conv true 0 3 (.src 0)] := by decide
example : (run [.ownedFromColor true 3, .fromColorMut false 2, .restore] (fresh .vec 0 100 8 0)).map (fun s => (s.buf.elems, s.buf.cap, s.buf.tag)) = some ([], 8, 3) := by decide
example : (run [.fromColorMut true 3, .intoUnclampedGuard, .restore] (fresh .boxed 0 100 1 1)).map (·.buf.elems) =
    some [.conv false 3 0 (.conv true 0 3 (.src 0))] := by decide
/-- operations Rust does not offer are rejected by the model, so the theorems' `run … = some _` hypotheses are not vacuous the other way -/
example : run [.fromColorMut true 3, .intoClampedGuard] (fresh .slice 0 100 1 1) = none := by decide
example : run [.drop] (fresh .slice 0 100 1 1) = none := by decide
example : Inv (fresh .slice 0 100 3 3) ∧ Typed (fresh .slice 0 100 3 3) := ⟨fresh_inv _ _ _ _ _ (by simp), fresh_typed _ _ _ _ _⟩

/-- what `then_into_color_mut` would be **without** `guard.current.take()` on the inner guard (the reference copied out
    instead of moved): the inner guard's `Drop` converts back a second time.  The theorems above fail for it. -/
def thenIntoNoTake (form : Form) (cl : Bool) (C : Ty) (self : Guard) (b : Buffer) : Guard × Buffer :=
  match self.current with
  | none => ({ current := none, original := self.original, clamped := cl }, b)
  | some T =>
    let (inner, b1) := fromColorMut cl T C form b
    ({ current := inner.current, original := self.original, clamped := cl }, dropGuard form inner b1)

example : (thenIntoNoTake .slice true 5 { current := some 3, original := 0, clamped := true } { id := 1, cap := 1, tag := 3, elems := [.src 0] }).2.elems
      = [.conv true 5 3 (.conv true 3 5 (.src 0))] ∧
    (thenInto .slice true 5 { current := some 3, original := 0, clamped := true } { id := 1, cap := 1, tag := 3, elems := [.src 0] }).2.elems
      = [.conv true 3 5 (.src 0)] := by decide

end C13
