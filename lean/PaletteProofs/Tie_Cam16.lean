/-
  Tie of the hand-written CAM16 model (`PaletteModel/Color/Cam16.lean`, C16) to the *text* of the Rust functions.

  `tools/extract.py` (`gen_bodies`, translator `tools/rust2lean.py`, family `cam16`) re-translates the bodies of
  `cam16/math.rs` (`prepare_parameters`, `xyz_to_cam16`, `cam16_to_xyz`, `non_black_cam16_to_xyz`, `Adapt::run`, `Unadapt::run`,
  `m16`, `m16_inv`, `lerp`, `map3`, `mul3` and the fifteen attribute helpers), `cam16/math/luminance.rs`, `cam16/math/chromaticity.rs`
  (`into_cam16`), `cam16/parameters.rs` (`Surround::into_percent`), the CAM16-UCS edges of `ucs_jmh.rs`, `ucs_jab.rs`, `partial.rs`
  and the hue / angle macro bodies they call into `Gen.Body.*` (lean/PaletteModel/Gen/BodiesCam16.lean) on every run.  Each theorem
  `tie_<name>` states, for every `α` with `[Scalar α]` (hence at `Float`, `Float32` and `ℝ` alike), that the translated body *is* the
  model function the driver executes and the `C16_*` theorems talk about.  Proofs: `rfl` / case split on the enum a `match` inspects;
  no law of arithmetic is used (there is none in `Scalar`).

  What the ties pin, and what they do not.  The model takes every `T::from_f64` constant from `Gen/Cam16.lean`, which is re-extracted
  from the same source text on every run; a changed *coefficient* therefore moves model and translation together (and breaks the
  spec theorems of `C16_Cam16Spec` — `xyzToCam16_eq_published` — not a tie).  The ties pin everything else: which operand, operator,
  association, comparison, branch order, which baked parameter is used where, which helper is called with which arguments.

  Shapes that differ between source and model (stated in the theorem, proved by unfolding):
    * `cam16_to_xyz`, `non_black_cam16_to_xyz` take the triple `(LuminanceType, ChromaticityType, Cam16Hue)`; the model is curried;
    * `DependentParameters` nests `adapt: Adapt { f_l }` and `unadapt: Unadapt { constant, exponent }`; `Cam16.Dep` is flat
      (`Prim.Adapt`, `Prim.Unadapt` in PaletteModel/BodyPrimExt.lean are rebuilt on access and projected on construction);
    * `xyz_to_cam16` computes all six attributes in one body; the model splits it into `forward` (intermediates, exposed for the
      theorems) and the attribute formulas; `non_black_cam16_to_xyz` likewise (`inverseOpponent`, `inverseFromAdapted`);
    * `map3(parameters.d_rgb, T::from_scalar)` (identity for `f32`/`f64`) is dropped by the model (structure eta);
    * `into_cam16` takes `self` first, the model function the viewing conditions.

  NOT translated (header of Gen/BodiesCam16.lean): the six `make_partial_cam16!` types and `Cam16::from_xyz/into_xyz` (macro
  metavariables as field names, trait-dispatched wrappers), `Parameters::bake` / white point parameters, std's `signum`,
  `to_degrees`, `to_radians`, `clamp`, `hypot` (per-type primitives, transcribed in the model).
-/
import PaletteModel.Gen.BodiesCam16

namespace Tie
variable {α : Type} [Scalar α]

/-! ### angle / hue helpers (`impl_angle_float!` in angle.rs, `make_hues!` in hues.rs, at `Cam16Hue`) -/
theorem tie_cam16NormalizeSigned : @Gen.Body.cam16NormalizeSigned α _ = Cam16.normalizeSigned := rfl
theorem tie_cam16HueFromRadians : @Gen.Body.cam16HueFromRadians α _ = Cam16.hueFromRadians := rfl
theorem tie_cam16HueIntoRadians : @Gen.Body.cam16HueIntoRadians α _ = Cam16.hueIntoRadians := rfl
theorem tie_cam16HueIntoRawRadians : @Gen.Body.cam16HueIntoRawRadians α _ = Cam16.hueIntoRawRadians := rfl

/-! ### cam16/math.rs: array helpers, CAT16 matrices, adaptation -/
theorem tie_cam16Map3 : @Gen.Body.cam16Map3 α _ = fun v f => Cam16.map3 v f := rfl
theorem tie_cam16Mul3 : @Gen.Body.cam16Mul3 α _ = Cam16.mul3 := rfl
theorem tie_cam16Lerp : @Gen.Body.cam16Lerp α _ = Cam16.lerp := rfl
/-- the model reads the nine coefficients and six operators from the extracted tables `Gen.Cam16.m16/m16Ops`; `rfl` evaluates the lookup -/
theorem tie_cam16M16 : @Gen.Body.cam16M16 α _ = Cam16.m16 := rfl
theorem tie_cam16M16Inv : @Gen.Body.cam16M16Inv α _ = Cam16.m16Inv := rfl
theorem tie_adaptRun : @Gen.Body.adaptRun α _ = fun s c => Cam16.adaptRun s.fL c := rfl
theorem tie_unadaptRun : @Gen.Body.unadaptRun α _ = fun s c => Cam16.unadaptRun s.constant s.exponent c := rfl
theorem tie_surroundIntoPercent : @Gen.Body.surroundIntoPercent α _ = Cam16.Surround.intoPercent := by
  funext s; cases s <;> rfl

/-! ### attribute algebra -/
theorem tie_calculateLightness : @Gen.Body.calculateLightness α _ = Cam16.calculateLightness := rfl
theorem tie_calculateBrightness : @Gen.Body.calculateBrightness α _ = Cam16.calculateBrightness := rfl
theorem tie_calculateChroma : @Gen.Body.calculateChroma α _ = Cam16.calculateChroma := rfl
theorem tie_calculateColorfulness : @Gen.Body.calculateColorfulness α _ = Cam16.calculateColorfulness := rfl
theorem tie_calculateSaturation : @Gen.Body.calculateSaturation α _ = Cam16.calculateSaturation := rfl
theorem tie_lightnessToJRoot : @Gen.Body.lightnessToJRoot α _ = Cam16.lightnessToJRoot := rfl
theorem tie_brightnessToJRoot : @Gen.Body.brightnessToJRoot α _ = Cam16.brightnessToJRoot := rfl
theorem tie_saturationToAlpha : @Gen.Body.saturationToAlpha α _ = Cam16.saturationToAlpha := rfl
theorem tie_lightnessToBrightness : @Gen.Body.lightnessToBrightness α _ = Cam16.lightnessToBrightness := rfl
theorem tie_brightnessToLightness : @Gen.Body.brightnessToLightness α _ = Cam16.brightnessToLightness := rfl
theorem tie_chromaToColorfulness : @Gen.Body.chromaToColorfulness α _ = Cam16.chromaToColorfulness := rfl
theorem tie_chromaToSaturation : @Gen.Body.chromaToSaturation α _ = Cam16.chromaToSaturation := rfl
theorem tie_colorfulnessToChroma : @Gen.Body.colorfulnessToChroma α _ = Cam16.colorfulnessToChroma := rfl
theorem tie_saturationToChroma : @Gen.Body.saturationToChroma α _ = Cam16.saturationToChroma := rfl

/-! ### the viewing conditions, the forward and the inverse model -/
theorem tie_prepareParameters : @Gen.Body.prepareParameters α _ = Cam16.prepareParameters := by
  funext p
  obtain ⟨wp, la, yb, s, d⟩ := p
  cases d <;> rfl

theorem tie_xyzToCam16 : @Gen.Body.xyzToCam16 α _ = Cam16.xyzToCam16 := rfl

theorem tie_nonBlackCam16ToXyz :
    @Gen.Body.nonBlackCam16ToXyz α _ = fun c p => Cam16.nonBlackCam16ToXyz c.1 c.2.1 c.2.2 p := by
  funext c p
  obtain ⟨l, ch, h⟩ := c
  cases l <;> cases ch <;> rfl

theorem tie_cam16ToXyz : @Gen.Body.cam16ToXyz α _ = fun c p => Cam16.cam16ToXyz c.1 c.2.1 c.2.2 p := by
  funext c p
  obtain ⟨l, ch, h⟩ := c
  unfold Gen.Body.cam16ToXyz Cam16.cam16ToXyz
  rw [tie_nonBlackCam16ToXyz]
  -- the source stores the mask (`Bool`), the model tests the proposition: same branch either way
  cases l with
  | lightness j =>
    simp only [Cam16.Lum.value, decide_eq_true_eq]
    by_cases hz : Scalar.eqv j (0.0 : α) <;> simp only [hz, if_true, if_false]
  | brightness q =>
    simp only [Cam16.Lum.value, decide_eq_true_eq]
    by_cases hz : Scalar.eqv q (0.0 : α) <;> simp only [hz, if_true, if_false]

/-! ### `into_cam16` of the dynamic attribute types -/
theorem tie_lumIntoCam16 : @Gen.Body.lumIntoCam16 α _ = fun l p => Cam16.Lum.intoCam16 p l := by
  funext l p; cases l <;> rfl
theorem tie_chrIntoCam16 : @Gen.Body.chrIntoCam16 α _ = fun c j p => Cam16.Chr.intoCam16 j p c := by
  funext c j p; cases c <;> rfl

/-! ### CAM16-UCS -/
theorem tie_jmhToUcs : @Gen.Body.jmhToUcs α _ = Cam16.jmhToUcs := rfl
theorem tie_ucsToJmh : @Gen.Body.ucsToJmh α _ = Cam16.ucsToJmh := rfl
theorem tie_ucsJmhToJab : @Gen.Body.ucsJmhToJab α _ = Cam16.ucsJmhToJab := rfl
theorem tie_ucsJabToJmh : @Gen.Body.ucsJabToJmh α _ = Cam16.ucsJabToJmh := rfl

end Tie
