/-
  C06 — integer → narrower integer (`convert_uint_to_uint!`), **for every source value**, as theorems.

  Route through `f64` (all pairs except `u16 → u8`): with `M w = MAX_w as f64` (`255`, `65535`, `2^32 − 1`, but `2^64`, `2^128`
  for the two wide types, whose maximum is not representable),
      narrow n = min ⌊S + ½⌋ (2^w' − 1),   S = R64 (R64 (R64 n / M w) · M w')
  — up to three roundings (`n as f64` for `u64`/`u128`; the quotient for `u32`; the product), `round` = half away from zero,
  `clamp` a no-op, the final cast saturating (it is what maps `2^64` to `u64::MAX` in `u128 → u64`).  From the closed form:
  monotone over every ordered pair of sources, `0 ↦ 0`, `MAX ↦ MAX`, and **widen-then-narrow is the identity for every
  8-, 16- and 32-bit source value** (`widen_narrow_all`: the replicated value is `n·(2^w1 − 1)/(2^w0 − 1)`, the quotient is within
  `2^-53` of `n/(2^w0 − 1)`, the product within `2^(w0−52) < ½` of `n`).
  Route through `f32` (`u16 → u8`): `narrow16_closed_form`, monotone, ends; `u8 → u16 → u8` is `C06.widen_narrow_u8_u16`.
-/
import PaletteProofs.Lemmas.StimNarrow
import PaletteProofs.C06_StimulusBig
import PaletteProofs.C06_StimulusRoundTrip
import PaletteProofs.C06_StimulusIntFloat

namespace C06
open Stim Float.Model Float.Model.UnpackedFloat Ieee StimSpec

/-- `MAX_w as f64` as a natural number -/
def Mf : ℕ → ℕ
  | 8 => 255
  | 16 => 65535
  | 32 => 4294967295
  | 64 => 2^64
  | _ => 2^128

section f64
open Ieee.F64

theorem maxFacts : ∀ w ∈ [8, 16, 32, 64, 128],
    IsFin (maxF64 w) ∧ v (maxF64 w) = (Mf w : ℚ) ∧ 0 < Mf w ∧ Mf w ≤ 2^128 ∧ R64 (Mf w : ℚ) = Mf w ∧ 2^w - 1 ≤ Mf w := by
  intro w hw
  simp only [List.mem_cons, List.mem_nil_iff, or_false] at hw
  rcases hw with rfl | rfl | rfl | rfl | rfl
  · exact ⟨fin_maxF64_8, v_maxF64_8, by decide, by decide, R64_natCast (by decide), by decide⟩
  · exact ⟨fin_maxF64_16, v_maxF64_16, by decide, by decide, R64_natCast (by decide), by decide⟩
  · exact ⟨fin_maxF64_32, v_maxF64_32, by decide, by decide, R64_natCast (by decide), by decide⟩
  · have e : ((Mf 64 : ℕ) : ℚ) = 2^64 := by norm_num [Mf]
    exact ⟨fin_maxF64_64, by rw [v_maxF64_64, e], by decide, by decide, by rw [e]; exact R64_two_pow_nat, by decide⟩
  · have e : ((Mf 128 : ℕ) : ℚ) = 2^128 := by norm_num [Mf]
    exact ⟨fin_maxF64_128, by rw [v_maxF64_128, e], by decide, by decide, by rw [e]; exact R64_two_pow_nat, by decide⟩

/-- every source value rounds to at most `MAX_w as f64` -/
theorem R64_le_Mf : ∀ w ∈ [32, 64, 128], ∀ n : ℕ, n < 2^w → R64 (n : ℚ) ≤ Mf w := by
  intro w hw n hn
  simp only [List.mem_cons, List.mem_nil_iff, or_false] at hw
  rcases hw with rfl | rfl | rfl
  · rw [R64_natCast (lt_trans hn (by norm_num))]
    have : n ≤ 4294967295 := by omega
    exact_mod_cast this
  · have e : ((Mf 64 : ℕ) : ℚ) = 2^64 := by norm_num [Mf]
    have := R64_mono (show (n : ℚ) ≤ 2^64 by exact_mod_cast hn.le)
    rw [R64_two_pow_nat] at this; rw [e]; exact this
  · have e : ((Mf 128 : ℕ) : ℚ) = 2^128 := by norm_num [Mf]
    have := R64_mono (show (n : ℚ) ≤ 2^128 by exact_mod_cast hn.le)
    rw [R64_two_pow_nat] at this; rw [e]; exact this

/-- the narrowing pairs that run through `f64` -/
def narrowPairs : List (ℕ × ℕ) := [(32, 8), (32, 16), (64, 8), (64, 16), (64, 32), (128, 8), (128, 16), (128, 32), (128, 64)]

theorem narrowPairs_mem {w w' : ℕ} (h : (w, w') ∈ narrowPairs) :
    w ∈ [32, 64, 128] ∧ w' ∈ [8, 16, 32, 64] ∧ (w == 16) = false ∧ w ≤ 128 := by
  simp only [narrowPairs, List.mem_cons, Prod.mk.injEq, List.mem_nil_iff, or_false] at h
  rcases h with ⟨rfl, rfl⟩ | ⟨rfl, rfl⟩ | ⟨rfl, rfl⟩ | ⟨rfl, rfl⟩ | ⟨rfl, rfl⟩ | ⟨rfl, rfl⟩ | ⟨rfl, rfl⟩ | ⟨rfl, rfl⟩ | ⟨rfl, rfl⟩ <;>
    decide

/-- **closed form of every narrowing through `f64`, for every source value** -/
theorem narrow_closed_form_all : ∀ w w', (w, w') ∈ narrowPairs → ∀ n, n < 2^w →
    narrow w w' n = narrowSpec w' (Mf w) (Mf w') n := by
  intro w w' hp n hn
  obtain ⟨hw, hw', h16, hle⟩ := narrowPairs_mem hp
  have hw5 : w ∈ [8, 16, 32, 64, 128] := by
    simp only [List.mem_cons, List.mem_nil_iff, or_false] at hw ⊢; omega
  have hw'5 : w' ∈ [8, 16, 32, 64, 128] := by
    simp only [List.mem_cons, List.mem_nil_iff, or_false] at hw' ⊢; omega
  obtain ⟨fm, vm, hM, _, _, _⟩ := maxFacts w hw5
  obtain ⟨fm', vm', _, _, hrep, _⟩ := maxFacts w' hw'5
  have hM' : Mf w' ≤ 2^64 := by
    simp only [List.mem_cons, List.mem_nil_iff, or_false] at hw'
    rcases hw' with rfl | rfl | rfl | rfl <;> decide
  exact narrow_closed h16 (lt_of_lt_of_le hn (Nat.pow_le_pow_right (by norm_num) hle)) fm vm hM (R64_le_Mf w hw n hn)
    fm' vm' hM' hrep

/-- **monotone over every ordered pair of source values** -/
theorem narrow_monotone_all : ∀ w w', (w, w') ∈ narrowPairs → ∀ n n', n ≤ n' → n' < 2^w → narrow w w' n ≤ narrow w w' n' := by
  intro w w' hp n n' h hn'
  rw [narrow_closed_form_all w w' hp n (lt_of_le_of_lt h hn'), narrow_closed_form_all w w' hp n' hn']
  exact narrowSpec_mono _ _ _ h

/-- `R64 (2^w − 1) = MAX_w as f64` -/
theorem R64_max_eq_Mf : ∀ w ∈ [32, 64, 128], R64 (((2^w - 1 : ℕ) : ℚ)) = Mf w := by
  intro w hw
  simp only [List.mem_cons, List.mem_nil_iff, or_false] at hw
  rcases hw with rfl | rfl | rfl
  · exact R64_natCast (by decide)
  · rw [R64_max_big (by norm_num)]; norm_num [Mf]
  · rw [R64_max_big (by norm_num)]; norm_num [Mf]

/-- **`0 ↦ 0` and `MAX ↦ MAX`** -/
theorem narrow_ends_all : ∀ w w', (w, w') ∈ narrowPairs → narrow w w' 0 = 0 ∧ narrow w w' (2^w - 1) = 2^w' - 1 := by
  intro w w' hp
  obtain ⟨hw, hw', h16, hle⟩ := narrowPairs_mem hp
  have hw5 : w ∈ [8, 16, 32, 64, 128] := by
    simp only [List.mem_cons, List.mem_nil_iff, or_false] at hw ⊢; omega
  have hw'5 : w' ∈ [8, 16, 32, 64, 128] := by
    simp only [List.mem_cons, List.mem_nil_iff, or_false] at hw' ⊢; omega
  obtain ⟨_, _, hM, _, _, _⟩ := maxFacts w hw5
  obtain ⟨_, _, _, _, hrep, hfit⟩ := maxFacts w' hw'5
  have hpos : 0 < 2^w := Nat.pos_of_ne_zero (by simp)
  rw [narrow_closed_form_all w w' hp 0 hpos, narrow_closed_form_all w w' hp (2^w - 1) (by omega)]
  exact ⟨narrowSpec_zero _ _ _, narrowSpec_max hM (R64_max_eq_Mf w hw) hrep hfit⟩

/-! ### widen-then-narrow -/

/-- bit replication multiplies by `(2^w1 − 1)/(2^w0 − 1)` -/
theorem widen_mul : ∀ w0 w1, (w0, w1) ∈ [(8,32),(8,64),(8,128),(16,32),(16,64),(16,128),(32,64),(32,128)] →
    ∀ n, widen w0 w1 n * (2^w0 - 1) = n * (2^w1 - 1) := by
  intro w0 w1 hp n
  simp only [List.mem_cons, Prod.mk.injEq, List.mem_nil_iff, or_false] at hp
  rcases hp with ⟨rfl, rfl⟩ | ⟨rfl, rfl⟩ | ⟨rfl, rfl⟩ | ⟨rfl, rfl⟩ | ⟨rfl, rfl⟩ | ⟨rfl, rfl⟩ | ⟨rfl, rfl⟩ | ⟨rfl, rfl⟩ <;>
    (simp only [widen, widenStep]; norm_num; omega)

/-- **widening an 8-, 16- or 32-bit integer and narrowing it again reproduces every source value** -/
theorem widen_narrow_all : ∀ w0 w1, (w0, w1) ∈ [(8,32),(8,64),(8,128),(16,32),(16,64),(16,128),(32,64),(32,128)] →
    ∀ n, n < 2^w0 → narrow w1 w0 (widen w0 w1 n) = n := by
  intro w0 w1 hp n hn
  have hmul := widen_mul w0 w1 hp n
  have hmem : (w1, w0) ∈ narrowPairs ∧ 1 ≤ w0 ∧ w0 ≤ 32 ∧ w0 < w1 ∧ Mf w0 = 2^w0 - 1 ∧
      ((Mf w1 = 2^w1 - 1 ∧ w1 = 32) ∨ (Mf w1 = 2^w1 ∧ 64 ≤ w1 ∧ w1 ≤ 128)) := by
    simp only [List.mem_cons, Prod.mk.injEq, List.mem_nil_iff, or_false] at hp
    rcases hp with ⟨rfl, rfl⟩ | ⟨rfl, rfl⟩ | ⟨rfl, rfl⟩ | ⟨rfl, rfl⟩ | ⟨rfl, rfl⟩ | ⟨rfl, rfl⟩ | ⟨rfl, rfl⟩ | ⟨rfl, rfl⟩ <;>
      decide
  obtain ⟨hnp, hw0a, hw0b, hlt, hM0, hM1⟩ := hmem
  have hp0 : 2 ≤ 2^w0 := by
    calc 2 = 2^1 := rfl
      _ ≤ 2^w0 := Nat.pow_le_pow_right (by norm_num) hw0a
  have hp1 : 2^w0 < 2^w1 := Nat.pow_lt_pow_right (by norm_num) hlt
  -- the widened value is below 2^w1
  have hT0 : 0 < 2^w0 - 1 := by omega
  have hwn : widen w0 w1 n ≤ 2^w1 - 1 := by
    have h1 : widen w0 w1 n * (2^w0 - 1) ≤ (2^w1 - 1) * (2^w0 - 1) := by
      rw [hmul, Nat.mul_comm]; exact Nat.mul_le_mul_left _ (by omega)
    exact Nat.le_of_mul_le_mul_right h1 hT0
  have hwlt : widen w0 w1 n < 2^w1 := by omega
  rw [narrow_closed_form_all w1 w0 hnp _ hwlt, hM0]
  -- q = n / (2^w0 − 1)
  have hT0q : (0 : ℚ) < ((2^w0 - 1 : ℕ) : ℚ) := by exact_mod_cast hT0
  have hq0 : (0 : ℚ) ≤ (n : ℚ) / ((2^w0 - 1 : ℕ) : ℚ) := by positivity
  have hq1 : (n : ℚ) / ((2^w0 - 1 : ℕ) : ℚ) ≤ 1 := by
    rw [div_le_one hT0q]; exact_mod_cast (by omega : n ≤ 2^w0 - 1)
  have hmulq : ((widen w0 w1 n : ℕ) : ℚ) * ((2^w0 - 1 : ℕ) : ℚ) = (n : ℚ) * ((2^w1 - 1 : ℕ) : ℚ) := by exact_mod_cast hmul
  have hT1 : 0 < 2^w1 - 1 := by omega
  have hT1q : (0 : ℚ) < ((2^w1 - 1 : ℕ) : ℚ) := by exact_mod_cast hT1
  obtain ⟨_, _, hMpos, _, _, _⟩ := maxFacts w1 (by
    simp only [List.mem_cons, List.mem_nil_iff, or_false]
    rcases hM1 with ⟨_, h⟩ | ⟨_, h1, h2⟩
    · omega
    · obtain ⟨hw, _, _, _⟩ := narrowPairs_mem hnp
      simp only [List.mem_cons, List.mem_nil_iff, or_false] at hw; omega)
  have hAle : Aq (Mf w1) (widen w0 w1 n) ≤ 1 := by
    obtain ⟨hw, _, _, _⟩ := narrowPairs_mem hnp
    exact Aq_le_one hMpos (R64_le_Mf w1 hw _ hwlt)
  apply narrowSpec_back hw0b hw0a (by omega) hAle
  rcases hM1 with ⟨hM1, rfl⟩ | ⟨hM1, h64, h128⟩
  · rw [hM1]
    apply Aq_close_exact (lt_trans hwlt (by norm_num)) _ hq0 hq1
    rw [div_eq_div_iff hT1q.ne' hT0q.ne']; exact hmulq
  · rw [hM1]
    apply Aq_close_pow h64 h128 hwlt _ hq0 hq1
    have : ((2^w1 - 1 : ℕ) : ℚ) = 2^w1 - 1 := by rw [Nat.cast_sub Nat.one_le_two_pow]; push_cast; rfl
    rw [← this, div_mul_eq_mul_div, eq_div_iff hT0q.ne']; exact hmulq

end f64

/-! ## `u16 → u8` (through `f32`) -/
section f32
open Ieee.F32

def S16 (n : ℕ) : ℚ := R32 (R32 ((n : ℚ) / 65535) * 255)

theorem narrow16_unfold (w' n : ℕ) : narrow 16 w' n =
    (clamp32 (round32 (((UInt16.ofNat n).toFloat32 / max16f) * max8f)) StimSpec.zero32 max8f).toUInt8.toNat := rfl

theorem narrow16_pipe {q m8 : Float32} {n : ℕ} (hn : n ≤ 65535) (fq : IsFin q) (vq : v q = R32 ((n : ℚ) / 65535))
    (fm : IsFin m8) (vm : v m8 = 255) :
    (clamp32 (round32 (q * m8)) StimSpec.zero32 m8).toUInt8.toNat = ⌊S16 n + 1 / 2⌋.toNat ∧ ⌊S16 n + 1 / 2⌋ ≤ 255 ∧ 0 ≤ S16 n := by
  have hnq : (n : ℚ) ≤ 65535 := by exact_mod_cast hn
  have hq0 : (0 : ℚ) ≤ (n : ℚ) / 65535 := by positivity
  have hq1 : (n : ℚ) / 65535 ≤ 1 := by rw [div_le_one (by norm_num)]; exact hnq
  have hA0 : 0 ≤ R32 ((n : ℚ) / 65535) := R_nonneg hq0
  have hA1 : R32 ((n : ℚ) / 65535) ≤ 1 := by
    have := R32_mono hq1
    rwa [show (1 : ℚ) = ((1 : ℕ) : ℚ) by norm_num, R32_natCast (by norm_num)] at this
  obtain ⟨fp, vp⟩ := mul_of_le fq fm (n := 255) (by norm_num) (by
    rw [vq, vm, abs_of_nonneg (by positivity)]; push_cast; nlinarith)
  rw [vq, vm] at vp
  have vp' : v (q * m8) = S16 n := vp
  have hS0 : 0 ≤ S16 n := R_nonneg (by positivity)
  have hS1 : S16 n ≤ 255 := by
    have := R32_mono (show R32 ((n : ℚ) / 65535) * 255 ≤ 255 by nlinarith)
    rwa [show (255 : ℚ) = ((255 : ℕ) : ℚ) by norm_num, R32_natCast (by norm_num)] at this
  obtain ⟨fr, vr⟩ := round32_spec fp (by rw [vp']; exact hS0)
  rw [vp'] at vr
  have hfl0 : 0 ≤ ⌊S16 n + 1 / 2⌋ := Int.floor_nonneg.mpr (by linarith)
  have hfl1 : ⌊S16 n + 1 / 2⌋ ≤ 255 := by
    have : ⌊S16 n + 1 / 2⌋ ≤ ⌊((255 : ℤ) : ℚ) + 1 / 2⌋ := Int.floor_mono (by push_cast; linarith)
    rwa [floor_add_half_int] at this
  obtain ⟨fc, vc⟩ := clamp32_spec fr StimSpec.fin_zero32 fm (by rw [StimSpec.v_zero32, vm]; norm_num)
  rw [vr, StimSpec.v_zero32, vm] at vc
  have hflq0 : (0 : ℚ) ≤ (⌊S16 n + 1 / 2⌋ : ℚ) := by exact_mod_cast hfl0
  have hflq1 : (⌊S16 n + 1 / 2⌋ : ℚ) ≤ 255 := by exact_mod_cast hfl1
  rw [min_eq_left hflq1, max_eq_right hflq0] at vc
  refine ⟨?_, hfl1, hS0⟩
  apply toUInt8_nat fc _ (by omega)
  rw [vc]
  have : ((⌊S16 n + 1 / 2⌋.toNat : ℕ) : ℤ) = ⌊S16 n + 1 / 2⌋ := by omega
  exact_mod_cast this.symm

/-- **closed form of `u16 → u8`**: `⌊S + ½⌋`, `S = R32 (R32 (n/65535) · 255)` (two binary32 roundings) -/
theorem narrow16_closed_form : ∀ n, n < 65536 → narrow 16 8 n = ⌊S16 n + 1 / 2⌋.toNat := by
  intro n hn
  rw [narrow16_unfold]
  have hnat : (UInt16.ofNat n).toNat = n := UInt16.toNat_ofNat_of_lt' hn
  obtain ⟨hfn, hvn⟩ := u16_toFloat32 (UInt16.ofNat n)
  rw [hnat] at hvn
  have hmx : v max16f = 65535 := by rw [v_max16f]; norm_num
  have hnq : (n : ℚ) ≤ 65535 := by exact_mod_cast (by omega : n ≤ 65535)
  have hq0 : (0 : ℚ) ≤ (n : ℚ) / 65535 := by positivity
  have hq1 : (n : ℚ) / 65535 ≤ 1 := by rw [div_le_one (by norm_num)]; exact hnq
  obtain ⟨hfa, hva⟩ := div_of_le hfn fin_max16f (by rw [hmx]; norm_num) (n := 1) (by norm_num)
    (by rw [hvn, hmx, abs_of_nonneg hq0]; simpa using hq1)
  rw [hvn, hmx] at hva
  exact (narrow16_pipe (by omega) hfa hva fin_max8f (by rw [v_max8f]; norm_num)).1

theorem S16_mono {n n' : ℕ} (h : n ≤ n') : S16 n ≤ S16 n' := by
  unfold S16
  apply R32_mono
  have := R32_mono (div_le_div_of_nonneg_right (show (n : ℚ) ≤ n' by exact_mod_cast h) (show (0 : ℚ) ≤ 65535 by norm_num))
  linarith

/-- **`u16 → u8` is monotone, `0 ↦ 0`, `65535 ↦ 255`** -/
theorem narrow16_monotone_all : ∀ n n', n ≤ n' → n' < 65536 → narrow 16 8 n ≤ narrow 16 8 n' := by
  intro n n' h hn'
  rw [narrow16_closed_form n (by omega), narrow16_closed_form n' hn']
  exact Int.toNat_le_toNat (Int.floor_mono (by linarith [S16_mono h]))

theorem narrow16_ends : narrow 16 8 0 = 0 ∧ narrow 16 8 65535 = 255 := by decide +kernel

end f32

end C06
