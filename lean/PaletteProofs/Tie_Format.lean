/-
  Tie of the number-format conversion of *whole colours* (C06: "converting a color component between number formats") to the text of
  `Rgb::into_format` / `from_format` (rgb/rgb.rs), `Luma::into_format` / `from_format` (luma/luma.rs), their `Alpha` forms and the blanket
  `impl<T, U: IntoStimulus<T>> FromStimulus<U> for T` (stimulus.rs).

  `tools/extract.py` (`gen_bodies_glue`, translator `tools/rust2lean_glue.py`, family `format`) re-reads these bodies on every run and
  translates them into `Gen.Body.<name>` (lean/PaletteModel/Gen/BodiesFormat.lean), generic over the source and target component types
  with the trait-dispatched `U::from_stimulus` as a **parameter** `conv`.  The theorems state, for every `conv`, that the translated body is
  the model's component-wise map (`Stim.intoFormat`, `Stim.intoFormatAlpha`, `Stim.fromStimulus` of `PaletteModel/StimulusForms.lean`):
  every component, in struct order, converted by the same `conv`, nothing else.  `rgb_f32_to_u8`, `rgb_u8_to_f32`, `luma_u8_to_u16`,
  `rgba_f32_to_u8` then instantiate `conv` with the translated arms of `stimulus.rs` through `FromStimulus` and rewrite with the ties of
  `Tie_Stimulus.lean`: `Srgb<f32>::into_format::<u8>()` is `Stim.f32ToUint 8` on each of red, green, blue - so the all-floats theorems of
  C06 (monotone, nearest, saturating), which are about `Stim.f32ToUint 8`, are statements about each component of the converted colour.

  So a component converted twice, a swapped pair (`red: U::from_stimulus(self.blue)`), an alpha converted with the colour's `U` instead of its
  own `B`, or `FromStimulus` no longer being `into_stimulus` is a broken obligation naming the function.

  NOT translated: header of Gen/BodiesFormat.lean.
-/
import PaletteModel.Gen.BodiesFormat
import PaletteProofs.Tie_Stimulus

namespace Tie

section generic
variable {γ γ' σ τ : Type}

theorem tie_fromStimulus (intoStimulus : σ → τ) (x : σ) : Gen.Body.fromStimulus intoStimulus x = Stim.fromStimulus intoStimulus x := rfl

/- **`Rgb::into_format`: `U::from_stimulus` on red, green, blue, in that order** - for every pair of component types -/
theorem tie_rgbIntoFormat (conv : σ → τ) (c : Prim.Rgb3 σ) : (Gen.Body.rgbIntoFormat conv c).toList = Stim.intoFormat conv c.toList := rfl
/- `Rgb::from_format(color)` is `color.into_format()` -/
theorem tie_rgbFromFormat (conv : σ → τ) (c : Prim.Rgb3 σ) :
    (Gen.Body.rgbFromFormat (Gen.Body.rgbIntoFormat conv) c).toList = Stim.intoFormat conv c.toList := rfl
theorem tie_lumaIntoFormat (conv : σ → τ) (c : Prim.Luma1 σ) : (Gen.Body.lumaIntoFormat conv c).toList = Stim.intoFormat conv c.toList := rfl
theorem tie_lumaFromFormat (conv : σ → τ) (c : Prim.Luma1 σ) :
    (Gen.Body.lumaFromFormat (Gen.Body.lumaIntoFormat conv) c).toList = Stim.intoFormat conv c.toList := rfl

/- `Alpha<Rgb<S, T>, A>::into_format::<U, B>()`: the colour by its own `into_format`, the alpha by `B::from_stimulus` (its own type pair) -/
theorem tie_rgbaIntoFormat (colorFmt : γ → γ') (convA : σ → τ) (a : Prim.AlphaOf γ σ) :
    ((Gen.Body.rgbaIntoFormat colorFmt convA a).color, (Gen.Body.rgbaIntoFormat colorFmt convA a).alpha)
      = Stim.intoFormatAlpha colorFmt convA (a.color, a.alpha) := rfl
theorem tie_lumaaIntoFormat (colorFmt : γ → γ') (convA : σ → τ) (a : Prim.AlphaOf γ σ) :
    ((Gen.Body.lumaaIntoFormat colorFmt convA a).color, (Gen.Body.lumaaIntoFormat colorFmt convA a).alpha)
      = Stim.intoFormatAlpha colorFmt convA (a.color, a.alpha) := rfl
end generic

/-! ### instantiated with the translated arms of stimulus.rs (through the translated blanket `FromStimulus`) and rewritten with `Tie_Stimulus` -/

/- `Rgb<S, f32>::into_format::<u8>()`: every component is the model's `Stim.f32ToUint 8` (C06_StimulusAll: nearest, monotone, saturating) -/
theorem rgb_f32_to_u8 (c : Prim.Rgb3 Float32) :
    (Gen.Body.rgbIntoFormat (Gen.Body.fromStimulus Gen.Body.stimF32ToU8) c).toList
      = Stim.intoFormat (fun x => UInt8.ofNat (Stim.f32ToUint 8 x)) c.toList := by
  rw [tie_rgbIntoFormat]; exact List.map_congr_left (fun x _ => tie_stimF32ToU8 x)

/- `Rgb<S, u8>::into_format::<f32>()`: every component is `Stim.uintToF32 8` -/
theorem rgb_u8_to_f32 (c : Prim.Rgb3 UInt8) :
    (Gen.Body.rgbIntoFormat (Gen.Body.fromStimulus Gen.Body.stimU8ToF32) c).toList
      = Stim.intoFormat (fun n => Stim.uintToF32 8 n.toNat) c.toList := by
  rw [tie_rgbIntoFormat]; exact List.map_congr_left (fun n _ => tie_stimU8ToF32 n)

/- `Luma<S, u8>::into_format::<u16>()`: `Stim.uintToUint 8 16` (the widening `n ↦ n·257`) -/
theorem luma_u8_to_u16 (c : Prim.Luma1 UInt8) :
    (Gen.Body.lumaIntoFormat (Gen.Body.fromStimulus Gen.Body.stimU8ToU16) c).toList
      = Stim.intoFormat (fun n => UInt16.ofNat (Stim.uintToUint 8 16 n.toNat)) c.toList := by
  rw [tie_lumaIntoFormat]; exact List.map_congr_left (fun n _ => tie_stimU8ToU16 n)

/- `Alpha<Rgb<S, f32>, f32>::into_format::<u8, u8>()` (`Srgba<f32>` → `Srgba<u8>`): four times `Stim.f32ToUint 8` -/
theorem rgba_f32_to_u8 (a : Prim.AlphaOf (Prim.Rgb3 Float32) Float32) :
    let r := Gen.Body.rgbaIntoFormat (Gen.Body.rgbIntoFormat (Gen.Body.fromStimulus Gen.Body.stimF32ToU8)) (Gen.Body.fromStimulus Gen.Body.stimF32ToU8) a
    r.color.toList ++ [r.alpha] = Stim.intoFormat (fun x => UInt8.ofNat (Stim.f32ToUint 8 x)) (a.color.toList ++ [a.alpha]) := by
  intro r
  have hc : r.color.toList = Stim.intoFormat (fun x => UInt8.ofNat (Stim.f32ToUint 8 x)) a.color.toList := rgb_f32_to_u8 a.color
  have ha : r.alpha = UInt8.ofNat (Stim.f32ToUint 8 a.alpha) := tie_stimF32ToU8 a.alpha
  rw [hc, ha]; simp [Stim.intoFormat]

end Tie
