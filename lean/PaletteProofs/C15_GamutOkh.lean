/-
  C15 — Okhsv / Okhsl: corollaries of the cusp facts proved for the whole hue circle (`C07_OkCusp`) and of the composite inverses
  (`C01_OkCompositeAll`).  (A module of its own because it imports both and `C15_Gamut`.)

  * **At `v = 1` the largest linear-sRGB component of `Okhsv(h, s, 1)` is exactly 1, for every hue and every `0 < s ≤ 1`** — the
    hypothesis "the unscaled colour has a positive component" of `C15.okhsv_value_one_on_surface` is discharged (`S_cusp < 8`).  So at
    `v = 1` containment can only fail through NEGATIVE components (accuracy of the cusp fit), never through the maximum.
  * **Converse bounds**: an Oklab colour inside the cusp triangle (`0 < L`, `0 < C ≤ S_cusp·L`) has Okhsv saturation in `(0, 1]` and converts
    back to the same colour; below the cusp (`0 < L ≤ L_cusp`, `0 < C ≤ S_cusp·L = C_max`) it has Okhsl saturation in `[0, 1]`,
    lightness in `(0, 1)` and converts back to the same colour.  No hypothesis on the cusp is left.
  NOT proved (unchanged): that bounded Okhsl/Okhsv/Okhwb components give linear sRGB within 1e-3 of `[0, 1]³` (negative components:
  accuracy of the fitted cusp), and the converse for the value / lightness component `v ≤ 1`.
-/
import PaletteProofs.C15_Gamut
import PaletteProofs.C01_OkCompositeAll

namespace C15
open Ok C01OkComposite

/-- **`Okhsv(h, s, 1)` lies on the gamut surface `max(r, g, b) = 1`, for every hue and every `0 < s ≤ 1`** -/
theorem okhsv_value_one_max_eq_one (h s : ℝ) (hs0 : 0 < s) (hs1 : s ≤ 1) :
    max (max (oklabToLinSrgb (okhsvToOklab ⟨h, s, 1⟩)).c0 (oklabToLinSrgb (okhsvToOklab ⟨h, s, 1⟩)).c1)
        (max (oklabToLinSrgb (okhsvToOklab ⟨h, s, 1⟩)).c2 0) = 1 := by
  have hu := cos_sin_unit (h * (Real.pi / 180))
  obtain ⟨_, s1, s2, t1⟩ := OkCusp.cuspST_bounds _ _ hu
  have hS0 : 0 < (cuspST (Real.cos (h * (Real.pi / 180))) (Real.sin (h * (Real.pi / 180)))).s := by unfold cuspST; linarith
  have hT0 : 0 < (cuspST (Real.cos (h * (Real.pi / 180))) (Real.sin (h * (Real.pi / 180)))).t := t1
  have hM := scaleMax_pos _ _ _ _ _ hu (lvOf_pos _ _ s hS0 hT0 hs0.le hs1) (cvOf_pos _ _ s hS0 hT0 hs0 hs1).le
    (cv_le_S_lv _ _ s hS0 hT0 hs0.le hs1) (by unfold cuspST; linarith)
  rw [← okhsvToOklabW_model, okhsvToOklabW_arm cuspST h s 1 hs0.ne' one_ne_zero]
  simp only [one_mul]
  set a_ := Real.cos (h * (Real.pi / 180))
  set b_ := Real.sin (h * (Real.pi / 180))
  set lv := lvOf (cuspST a_ b_).s (cuspST a_ b_).t s with hlv
  set cv := cvOf (cuspST a_ b_).s (cuspST a_ b_).t s with hcv
  have key := scaled_max_eq_one (toeInv lv) a_ b_ (cv * toeInv lv / lv) (by unfold scaleMax at hM; exact hM)
  simp only at key
  exact key

example : (0 : ℝ) < 0.5 ∧ (0.5 : ℝ) ≤ 1 := by norm_num

/-- **converse, Okhsv**: inside the cusp triangle the saturation is in `(0, 1]` and the colour converts back exactly -/
theorem oklab_in_cusp_triangle_okhsv (L a b : ℝ) (hL : 0 < L) (hC : 0 < chromaOf a b)
    (hCS : chromaOf a b ≤ (stOfLC (findCusp (a / chromaOf a b) (b / chromaOf a b))).s * L) :
    0 < (oklabToOkhsv ⟨L, a, b⟩).c1 ∧ (oklabToOkhsv ⟨L, a, b⟩).c1 ≤ 1 ∧ okhsvToOklab (oklabToOkhsv ⟨L, a, b⟩) = ⟨L, a, b⟩ := by
  obtain ⟨e, s0, s1⟩ := oklab_okhsv_oklab_all L a b hL hC hCS
  exact ⟨s0, s1, e⟩

/-- **converse, Okhsl**: below the cusp, up to the `C_max = S_cusp·L` the code computes, the saturation is in `[0, 1]`, the lightness in
    `(0, 1)`, and the colour converts back exactly -/
theorem oklab_below_cusp_okhsl (L a b : ℝ) (hL0 : 0 < L) (hC : 0 < chromaOf a b)
    (hL : L ≤ (findCusp (a / chromaOf a b) (b / chromaOf a b)).lightness)
    (hmax : chromaOf a b ≤ maxSaturation (a / chromaOf a b) (b / chromaOf a b) * L) :
    0 ≤ (oklabToOkhsl ⟨L, a, b⟩).c1 ∧ (oklabToOkhsl ⟨L, a, b⟩).c1 ≤ 1 ∧ 0 ≤ (oklabToOkhsl ⟨L, a, b⟩).c2 ∧ (oklabToOkhsl ⟨L, a, b⟩).c2 ≤ 1 ∧
    okhslToOklab (oklabToOkhsl ⟨L, a, b⟩) = ⟨L, a, b⟩ := by
  obtain ⟨e, s0, s1⟩ := oklab_okhsl_oklab_below_cusp L a b hL0 hC hL hmax
  obtain ⟨_, l1, _⟩ := OkCusp.findCusp_bounds _ _ (div_chroma_unit a b hC)
  have hL1 : L < 1 := lt_of_le_of_lt hL l1
  have el : (oklabToOkhsl ⟨L, a, b⟩).c2 = toe L := by
    rw [← oklabToOkhslW_model, oklabToOkhslW_arm fromNormalized L a b hC.ne' hL0.ne' hL1.ne]
  obtain ⟨t0, t1⟩ := toe_unit L hL0.le hL1.le
  exact ⟨s0, s1, by rw [el]; exact t0, by rw [el]; exact t1, e⟩

/-- the two converse statements are not vacuous: `Oklab(0.3, 0.018, 0.024)` satisfies both hypotheses sets at its hue -/
example : okhslToOklab (oklabToOkhsl ⟨0.3, 3 * 0.006, 4 * 0.006⟩) = (⟨0.3, 3 * 0.006, 4 * 0.006⟩ : V3 ℝ) := by
  have hC : chromaOf (3 * 0.006 : ℝ) (4 * 0.006) = 5 * 0.006 := by
    show Real.sqrt (3 * 0.006 * (3 * 0.006) + 4 * 0.006 * (4 * 0.006)) = 5 * 0.006
    rw [show (3 * 0.006 : ℝ) * (3 * 0.006) + 4 * 0.006 * (4 * 0.006) = (5 * 0.006) ^ 2 by ring, Real.sqrt_sq (by norm_num)]
  have hpos : 0 < chromaOf (3 * 0.006 : ℝ) (4 * 0.006) := by rw [hC]; norm_num
  have hu := div_chroma_unit _ _ hpos
  obtain ⟨l0, _, _⟩ := OkCusp.findCusp_bounds _ _ hu
  obtain ⟨s1, _⟩ := OkCusp.maxSaturation_bounds _ _ hu
  refine (oklab_below_cusp_okhsl 0.3 _ _ (by norm_num) hpos (by linarith) ?_).2.2.2.2
  rw [hC] at s1 ⊢
  nlinarith

end C15
