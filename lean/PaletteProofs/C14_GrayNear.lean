/-
  C14 — perturbation form of "grays stay neutral": the hard-coded 7-digit matrices send RGB white only *near* the white point
  (`C14.rgb_white_is_white_point`: within 1e-6), so a gray computed with the real (generated) matrix is `g·r` with `r = M(1,1,1) ≈ w`, not
  `g·w`.  Here: exact formulas for Lab / Luv of `g·r` in terms of the ratios `ρ = r/w` (componentwise), a global Lipschitz bound and a sharper
  cube-root-branch bound for a\*, b\*, an exact formula for u\*, v\*, and — with the mismatch decided over `ℚ` on the generated tables and
  carried to ℝ — the bounds for **every** RGB space of the crate and **every** gray level in `[0,1]`:
  `|a*| ≤ 2e-5, |b*| ≤ 1e-5, |u*| ≤ 3e-5, |v*| ≤ 2e-5, |L*(white) − 100| ≤ 1e-5`.
  The oracle tolerances of `harness/src/c14.rs` at f64 (`tol_ab = 2e-4`, `tol_uv = 1.5e-3`, `tol_l = 1e-4`, chroma `1.5×`) are consequences
  (`gray_within_oracle_tolerances`); what they leave to the oracle is the floating-point rounding of these expressions.
-/
import PaletteProofs.C14_Gray
import Mathlib.Tactic.Positivity

namespace C14Gray
open Cie KRatCast

/-! ### real analysis: the cube root and `labF` are Lipschitz -/

/-- cube roots of two numbers `≥ c³` differ by at most `|s − t| / (3c²)` (from `p³ − q³ = (p − q)(p² + pq + q²)`) -/
theorem cbrt_sub_le {s t c : ℝ} (hc : 0 < c) (hs : c ^ 3 ≤ s) (ht : c ^ 3 ≤ t) :
    |s ^ ((1 : ℝ) / 3) - t ^ ((1 : ℝ) / 3)| ≤ |s - t| / (3 * c ^ 2) := by
  have hc3 : (0 : ℝ) ≤ c ^ 3 := by positivity
  have hs0 : 0 ≤ s := le_trans hc3 hs
  have ht0 : 0 ≤ t := le_trans hc3 ht
  have hp3 : (s ^ ((1 : ℝ) / 3)) ^ 3 = s := C01Cie.cbrt_cube hs0
  have hq3 : (t ^ ((1 : ℝ) / 3)) ^ 3 = t := C01Cie.cbrt_cube ht0
  have hcp : c ≤ s ^ ((1 : ℝ) / 3) := by
    have := Real.rpow_le_rpow hc3 hs (by norm_num : (0 : ℝ) ≤ 1 / 3)
    rwa [C01Cie.cube_cbrt hc.le] at this
  have hcq : c ≤ t ^ ((1 : ℝ) / 3) := by
    have := Real.rpow_le_rpow hc3 ht (by norm_num : (0 : ℝ) ≤ 1 / 3)
    rwa [C01Cie.cube_cbrt hc.le] at this
  generalize s ^ ((1 : ℝ) / 3) = p at hp3 hcp ⊢
  generalize t ^ ((1 : ℝ) / 3) = q at hq3 hcq ⊢
  have key : s - t = (p - q) * (p ^ 2 + p * q + q ^ 2) := by rw [← hp3, ← hq3]; ring
  have hpos : 3 * c ^ 2 ≤ p ^ 2 + p * q + q ^ 2 := by nlinarith
  have hpos' : 0 < p ^ 2 + p * q + q ^ 2 := lt_of_lt_of_le (by positivity) hpos
  rw [le_div_iff₀ (by positivity), key, abs_mul, abs_of_pos hpos']
  exact mul_le_mul_of_nonneg_left hpos (abs_nonneg _)

/-- **`labF` is `841/108`-Lipschitz on all of ℝ** (the slope of its linear toe, which is also the slope of the cube root at the join) -/
theorem labF_lipschitz (s t : ℝ) : |labF s - labF t| ≤ 841 / 108 * |s - t| := by
  wlog hst : s ≤ t generalizing s t
  · have := this t s (le_of_not_ge hst); rwa [abs_sub_comm, abs_sub_comm t s] at this
  have hc : (0 : ℝ) < 6 / 29 := by norm_num
  by_cases ht : (6 / 29 : ℝ) ^ 3 < t
  · by_cases hs : (6 / 29 : ℝ) ^ 3 < s
    · rw [C02Cie.labF_hi hs, C02Cie.labF_hi ht]
      have := cbrt_sub_le hc hs.le ht.le
      have e : |s - t| / (3 * (6 / 29 : ℝ) ^ 2) = 841 / 108 * |s - t| := by ring
      rwa [e] at this
    · rw [C02Cie.labF_lo hs, C02Cie.labF_hi ht]
      have h1 := cbrt_sub_le hc ht.le (le_refl _)
      rw [C01Cie.cbrt_eps] at h1
      have hA : (6 / 29 : ℝ) ≤ t ^ ((1 : ℝ) / 3) := by
        have := Real.rpow_le_rpow (by positivity) ht.le (by norm_num : (0 : ℝ) ≤ 1 / 3)
        rwa [C01Cie.cbrt_eps] at this
      have e : |t - (6 / 29 : ℝ) ^ 3| / (3 * (6 / 29 : ℝ) ^ 2) = 841 / 108 * (t - (6 / 29) ^ 3) := by
        rw [abs_of_pos (by linarith)]; ring
      rw [e, abs_of_nonneg (by linarith)] at h1
      have hs' : s ≤ (6 / 29 : ℝ) ^ 3 := not_lt.mp hs
      have hκ : (841 / 108 : ℝ) * (6 / 29) ^ 3 + 4 / 29 = 6 / 29 := by norm_num
      rw [abs_of_nonpos (by linarith), abs_of_nonpos (by linarith : s - t ≤ 0)]
      linarith
  · have hs : ¬ (6 / 29 : ℝ) ^ 3 < s := fun h => ht (lt_of_lt_of_le h hst)
    rw [C02Cie.labF_lo hs, C02Cie.labF_lo ht]
    have e : (841 / 108 * s + 4 / 29 - (841 / 108 * t + 4 / 29) : ℝ) = 841 / 108 * (s - t) := by ring
    rw [e, abs_mul, abs_of_pos (by norm_num : (0 : ℝ) < 841 / 108)]

/-- in the cube-root branch the constant is `1/(3c²)` for arguments `≥ c³` — about `1/3` near white instead of `7.8` -/
theorem labF_sub_le_cbrt {s t c : ℝ} (hc : 0 < c) (hs : c ^ 3 ≤ s) (ht : c ^ 3 ≤ t) (hs' : (6 / 29 : ℝ) ^ 3 < s) (ht' : (6 / 29 : ℝ) ^ 3 < t) :
    |labF s - labF t| ≤ |s - t| / (3 * c ^ 2) := by
  rw [C02Cie.labF_hi hs', C02Cie.labF_hi ht']; exact cbrt_sub_le hc hs ht

/-! ### Lab and Luv of a gray computed with an arbitrary matrix -/

/-- the componentwise ratio `ρ = M(1,1,1) / w` of RGB white to the reference white (`(1,1,1)` when the matrix is exact) -/
noncomputable def rho (m : M3 ℝ) (w : V3 ℝ) : V3 ℝ :=
  ⟨(m.mulVec ⟨1, 1, 1⟩).c0 / w.c0, (m.mulVec ⟨1, 1, 1⟩).c1 / w.c1, (m.mulVec ⟨1, 1, 1⟩).c2 / w.c2⟩

/-- **Lab of a gray, any matrix, any white, any `g`** — exact: `L* = L*(gρ₁)`, `a* = 500 (f(gρ₀) − f(gρ₁))`, `b* = 200 (f(gρ₁) − f(gρ₂))` -/
theorem lab_gray_matrix (m : M3 ℝ) (w : V3 ℝ) (g : ℝ) :
    xyzToLab w (m.mulVec ⟨g, g, g⟩) =
      ⟨labL (g * (rho m w).c1), (labF (g * (rho m w).c0) - labF (g * (rho m w).c1)) * 500,
       (labF (g * (rho m w).c1) - labF (g * (rho m w).c2)) * 200⟩ := by
  rw [gray_axis]
  unfold xyzToLab labL rho
  simp only [mul_div_assoc]
  congr 1 <;> norm_num

/-- **linear branch, exact**: when all three ratios `gρᵢ` are at or below `(6/29)³`, `a* = 500·(841/108)·g·(ρ₀ − ρ₁)` and
    `b* = 200·(841/108)·g·(ρ₁ − ρ₂)` -/
theorem lab_gray_matrix_linear_branch (m : M3 ℝ) (w : V3 ℝ) (g : ℝ)
    (h0 : ¬ (6 / 29 : ℝ) ^ 3 < g * (rho m w).c0) (h1 : ¬ (6 / 29 : ℝ) ^ 3 < g * (rho m w).c1) (h2 : ¬ (6 / 29 : ℝ) ^ 3 < g * (rho m w).c2) :
    (xyzToLab w (m.mulVec ⟨g, g, g⟩)).c1 = 500 * (841 / 108) * g * ((rho m w).c0 - (rho m w).c1) ∧
    (xyzToLab w (m.mulVec ⟨g, g, g⟩)).c2 = 200 * (841 / 108) * g * ((rho m w).c1 - (rho m w).c2) := by
  rw [lab_gray_matrix]
  simp only [C02Cie.labF_lo h0, C02Cie.labF_lo h1, C02Cie.labF_lo h2]
  constructor <;> ring

/-- **global Lipschitz bound** (every `g ≥ 0`, both branches and the straddling case): `|a*| ≤ 500·(841/108)·g·|ρ₀ − ρ₁|`,
    `|b*| ≤ 200·(841/108)·g·|ρ₁ − ρ₂|` -/
theorem lab_gray_matrix_lipschitz (m : M3 ℝ) (w : V3 ℝ) (g : ℝ) (hg : 0 ≤ g) :
    |(xyzToLab w (m.mulVec ⟨g, g, g⟩)).c1| ≤ 500 * (841 / 108) * g * |(rho m w).c0 - (rho m w).c1| ∧
    |(xyzToLab w (m.mulVec ⟨g, g, g⟩)).c2| ≤ 200 * (841 / 108) * g * |(rho m w).c1 - (rho m w).c2| := by
  rw [lab_gray_matrix]
  have e (x y : ℝ) : |g * x - g * y| = g * |x - y| := by rw [← mul_sub, abs_mul, abs_of_nonneg hg]
  constructor
  · have := labF_lipschitz (g * (rho m w).c0) (g * (rho m w).c1)
    rw [e] at this
    simp only [abs_mul]; norm_num; nlinarith [abs_nonneg ((rho m w).c0 - (rho m w).c1)]
  · have := labF_lipschitz (g * (rho m w).c1) (g * (rho m w).c2)
    rw [e] at this
    simp only [abs_mul]; norm_num; nlinarith [abs_nonneg ((rho m w).c1 - (rho m w).c2)]

/-- **cube-root branch**: for `g ≥ 0` and `c > 0` with `c³ ≤ gρᵢ` and `(6/29)³ < gρᵢ`: `|a*| ≤ 500·g·|ρ₀ − ρ₁| / (3c²)`,
    `|b*| ≤ 200·g·|ρ₁ − ρ₂| / (3c²)` -/
theorem lab_gray_matrix_cbrt_branch (m : M3 ℝ) (w : V3 ℝ) (g c : ℝ) (hg : 0 ≤ g) (hc : 0 < c)
    (c0 : c ^ 3 ≤ g * (rho m w).c0) (c1 : c ^ 3 ≤ g * (rho m w).c1) (c2 : c ^ 3 ≤ g * (rho m w).c2)
    (h0 : (6 / 29 : ℝ) ^ 3 < g * (rho m w).c0) (h1 : (6 / 29 : ℝ) ^ 3 < g * (rho m w).c1) (h2 : (6 / 29 : ℝ) ^ 3 < g * (rho m w).c2) :
    |(xyzToLab w (m.mulVec ⟨g, g, g⟩)).c1| ≤ 500 * (g * |(rho m w).c0 - (rho m w).c1| / (3 * c ^ 2)) ∧
    |(xyzToLab w (m.mulVec ⟨g, g, g⟩)).c2| ≤ 200 * (g * |(rho m w).c1 - (rho m w).c2| / (3 * c ^ 2)) := by
  rw [lab_gray_matrix]
  have e (x y : ℝ) : |g * x - g * y| = g * |x - y| := by rw [← mul_sub, abs_mul, abs_of_nonneg hg]
  constructor
  · have := labF_sub_le_cbrt hc c0 c1 h0 h1
    rw [e] at this
    simp only [abs_mul]; norm_num; linarith
  · have := labF_sub_le_cbrt hc c1 c2 h1 h2
    rw [e] at this
    simp only [abs_mul]; norm_num; linarith

/-- non-vacuity of the branch hypotheses: `g = 1/2`, `ρ = 1`, `c = 1/2` (cube-root branch) and `g = 1/200` (linear branch) -/
example : (0 : ℝ) ≤ 1 / 2 ∧ (0 : ℝ) < 1 / 2 ∧ (1 / 2 : ℝ) ^ 3 ≤ 1 / 2 * 1 ∧ (6 / 29 : ℝ) ^ 3 < 1 / 2 * 1 ∧ ¬ (6 / 29 : ℝ) ^ 3 < 1 / 200 * 1 := by
  norm_num

/-- CIE 1976 `u′`, `v′` as `xyzToLuv` forms them -/
noncomputable def uPrime (v : V3 ℝ) : ℝ := 4 * v.c0 * (1 / (v.c0 + 15 * v.c1 + 3 * v.c2))
noncomputable def vPrime (v : V3 ℝ) : ℝ := 9 * v.c1 * (1 / (v.c0 + 15 * v.c1 + 3 * v.c2))

/-- **Luv of a gray, any matrix** — exact, both lightness branches: the chromaticity of `g·r` does not depend on `g`, so
    `u* = 13·L*·(u′(r) − u′(w))`, `v* = 13·L*·(v′(r) − v′(w))` with `r = M(1,1,1)` -/
theorem luv_gray_matrix (m : M3 ℝ) (w : V3 ℝ) (g : ℝ) (hg : g ≠ 0)
    (hd : (m.mulVec ⟨1, 1, 1⟩).c0 + 15 * (m.mulVec ⟨1, 1, 1⟩).c1 + 3 * (m.mulVec ⟨1, 1, 1⟩).c2 ≠ 0) :
    xyzToLuv w (m.mulVec ⟨g, g, g⟩) =
      ⟨labL (g * (rho m w).c1), 13 * labL (g * (rho m w).c1) * (uPrime (m.mulVec ⟨1, 1, 1⟩) - uPrime w),
       13 * labL (g * (rho m w).c1) * (vPrime (m.mulVec ⟨1, 1, 1⟩) - vPrime w)⟩ := by
  rw [gray_axis]
  unfold rho
  simp only
  generalize m.mulVec ⟨1, 1, 1⟩ = r at hd ⊢
  have e : g * r.c0 + 15 * (g * r.c1) + 3 * (g * r.c2) = g * (r.c0 + 15 * r.c1 + 3 * r.c2) := by ring
  have hd' : g * r.c0 + 15 * (g * r.c1) + 3 * (g * r.c2) ≠ 0 := by rw [e]; exact mul_ne_zero hg hd
  rw [C02Cie.xyzToLuv_of_ne w _ hd']
  simp only [luvL_eq_labL, uPrime, vPrime, e]
  have e1 : g * r.c1 / w.c1 = g * (r.c1 / w.c1) := mul_div_assoc _ _ _
  have e2 : 4 * (g * r.c0) * (1 / (g * (r.c0 + 15 * r.c1 + 3 * r.c2))) = 4 * r.c0 * (1 / (r.c0 + 15 * r.c1 + 3 * r.c2)) := by field_simp
  have e3 : 9 * (g * r.c1) * (1 / (g * (r.c0 + 15 * r.c1 + 3 * r.c2))) = 9 * r.c1 * (1 / (r.c0 + 15 * r.c1 + 3 * r.c2)) := by field_simp
  rw [e1, e2, e3]

/-- non-vacuity: the identity matrix has `M(1,1,1) = (1,1,1)`, denominator `19 ≠ 0`, and `g = 1/2 ≠ 0` -/
example : (1 / 2 : ℝ) ≠ 0 ∧ ((⟨1, 0, 0, 0, 1, 0, 0, 0, 1⟩ : M3 ℝ).mulVec ⟨1, 1, 1⟩).c0 + 15 * ((⟨1, 0, 0, 0, 1, 0, 0, 0, 1⟩ : M3 ℝ).mulVec ⟨1, 1, 1⟩).c1
    + 3 * ((⟨1, 0, 0, 0, 1, 0, 0, 0, 1⟩ : M3 ℝ).mulVec ⟨1, 1, 1⟩).c2 ≠ 0 := by
  simp only [M3.mulVec]; norm_num

/-- … and black is the model's early return -/
theorem luv_gray_matrix_black (m : M3 ℝ) (w : V3 ℝ) : xyzToLuv w (m.mulVec ⟨0, 0, 0⟩) = ⟨0, 0, 0⟩ := by
  apply C02Cie.xyzToLuv_of_zero; simp [M3.mulVec]

theorem labL_nonneg {y : ℝ} (hy : 0 ≤ y) : 0 ≤ labL y := by
  by_cases h : (6 / 29 : ℝ) ^ 3 < y
  · rw [labL_hi h]
    have := Real.rpow_le_rpow (by positivity) h.le (by norm_num : (0 : ℝ) ≤ 1 / 3)
    rw [C01Cie.cbrt_eps] at this; linarith
  · rw [labL_lo h]; positivity

theorem labL_le {y c : ℝ} (hy : 0 ≤ y) (hc : 1 ≤ c) (h : y ≤ c ^ 3) : labL y ≤ 116 * c - 16 := by
  by_cases h' : (6 / 29 : ℝ) ^ 3 < y
  · rw [labL_hi h']
    have := Real.rpow_le_rpow hy h (by norm_num : (0 : ℝ) ≤ 1 / 3)
    rw [C01Cie.cube_cbrt (by linarith)] at this; linarith
  · rw [labL_lo h']
    have : y ≤ (6 / 29 : ℝ) ^ 3 := not_lt.mp h'
    norm_num at this ⊢; nlinarith

example : (0 : ℝ) ≤ 1 / 2 ∧ (1 : ℝ) ≤ 1 ∧ (1 / 2 : ℝ) ≤ 1 ^ 3 := by norm_num

/-- `hypot a b ≤ |a| + |b|` — chroma from the two opponent coordinates -/
theorem hypot_le (a b : ℝ) : Angle.hypot a b ≤ |a| + |b| := by
  rw [RealScalar.hypot_eq]
  have h : a * a + b * b ≤ (|a| + |b|) ^ 2 := by
    have := mul_nonneg (abs_nonneg a) (abs_nonneg b)
    nlinarith [abs_mul_abs_self a, abs_mul_abs_self b]
  calc Real.sqrt (a * a + b * b) ≤ Real.sqrt ((|a| + |b|) ^ 2) := Real.sqrt_le_sqrt h
    _ = |a| + |b| := Real.sqrt_sq (by positivity)

/-! ### the generated tables: mismatch decided over `ℚ` on the model's matrix code, carried to ℝ -/

abbrev SpaceRow := String × String × List K × List K × List (List K)

/-- RGB white `M(1,1,1)` and the reference white of a generated space, over `ℚ` (same functions as `C14.rgb_white_is_white_point`) -/
def rQ (sp : SpaceRow) : V3 Rat := (C14.spaceM sp).1.mulVec ⟨1, 1, 1⟩
def wQ (sp : SpaceRow) : V3 Rat := C14.wpR sp.2.1
def denQ (v : V3 Rat) : Rat := v.c0 + 15 * v.c1 + 3 * v.c2

/-- what is decided per space: positive white point and denominators; each ratio `ρᵢ` within 1.1e-7 of 1; `|ρ₀ − ρ₁|`, `|ρ₁ − ρ₂|` ≤ 1.1e-7;
    `|u′(r) − u′(w)| ≤ 2e-8`, `|v′(r) − v′(w)| ≤ 1.1e-8` -/
def grayFacts (sp : SpaceRow) : Bool :=
  let r := rQ sp
  let w := wQ sp
  decide (0 < w.c0) && decide (0 < w.c1) && decide (0 < w.c2) && decide (0 < denQ r) && decide (0 < denQ w) &&
  decide (KRat.absR (r.c0 / w.c0 - 1) ≤ 11 / 100000000) && decide (KRat.absR (r.c1 / w.c1 - 1) ≤ 11 / 100000000) &&
  decide (KRat.absR (r.c2 / w.c2 - 1) ≤ 11 / 100000000) &&
  decide (KRat.absR (r.c0 / w.c0 - r.c1 / w.c1) ≤ 11 / 100000000) && decide (KRat.absR (r.c1 / w.c1 - r.c2 / w.c2) ≤ 11 / 100000000) &&
  decide (KRat.absR (4 * r.c0 * (1 / denQ r) - 4 * w.c0 * (1 / denQ w)) ≤ 2 / 100000000) &&
  decide (KRat.absR (9 * r.c1 * (1 / denQ r) - 9 * w.c1 * (1 / denQ w)) ≤ 11 / 1000000000)

/-- **decided** on every RGB space of the crate with hard-coded matrices (kernel evaluation, exact rationals) -/
theorem gray_facts_decided : Gen.Mat.rgbSpaces.all grayFacts = true := by decide +kernel

/-- … and the bounds are not vacuous slack: some space really has `|ρ₀ − ρ₁| > 1e-7` (Display P3) -/
theorem gray_facts_sharp :
    Gen.Mat.rgbSpaces.any (fun sp => decide (1 / 10000000 < KRat.absR ((rQ sp).c0 / (wQ sp).c0 - (rQ sp).c1 / (wQ sp).c1))) = true := by
  decide +kernel

theorem r_cast (sp : SpaceRow) : (M3.ofK sp.2.2.1 : M3 ℝ).mulVec ⟨1, 1, 1⟩ = castV (rQ sp) := by
  unfold rQ C14.spaceM
  rw [mulVec_cast, ofK_cast]
  simp [castV]

theorem w_cast (sp : SpaceRow) : (Color.whitePoint sp.2.1 : V3 ℝ) = castV (wQ sp) := (whitePoint_cast _).symm

/-- the decided facts, read at ℝ about the model's own matrix and white point -/
theorem grayFacts_real (sp : SpaceRow) (h : grayFacts sp = true) :
    let m : M3 ℝ := M3.ofK sp.2.2.1
    let w : V3 ℝ := Color.whitePoint sp.2.1
    let r : V3 ℝ := m.mulVec ⟨1, 1, 1⟩
    (0 < w.c0 ∧ 0 < w.c1 ∧ 0 < w.c2 ∧ 0 < r.c0 + 15 * r.c1 + 3 * r.c2 ∧ 0 < w.c0 + 15 * w.c1 + 3 * w.c2) ∧
    (|(rho m w).c0 - 1| ≤ 1.1e-7 ∧ |(rho m w).c1 - 1| ≤ 1.1e-7 ∧ |(rho m w).c2 - 1| ≤ 1.1e-7) ∧
    (|(rho m w).c0 - (rho m w).c1| ≤ 1.1e-7 ∧ |(rho m w).c1 - (rho m w).c2| ≤ 1.1e-7) ∧
    (|uPrime r - uPrime w| ≤ 2e-8 ∧ |vPrime r - vPrime w| ≤ 1.1e-8) := by
  intro m w r
  have hr : r = castV (rQ sp) := r_cast sp
  have hw : w = castV (wQ sp) := w_cast sp
  simp only [grayFacts, Bool.and_eq_true, decide_eq_true_eq] at h
  obtain ⟨⟨⟨⟨⟨⟨⟨⟨⟨⟨⟨p0, p1⟩, p2⟩, p3⟩, p4⟩, q0⟩, q1⟩, q2⟩, d0⟩, d1⟩, du⟩, dv⟩ := h
  have q0' := absR_le_cast q0
  have q1' := absR_le_cast q1
  have q2' := absR_le_cast q2
  have d0' := absR_le_cast d0
  have d1' := absR_le_cast d1
  have du' := absR_le_cast du
  have dv' := absR_le_cast dv
  simp only [denQ] at p3 p4 du' dv'
  unfold rho uPrime vPrime
  simp only [show m.mulVec ⟨1, 1, 1⟩ = r from rfl, hr, hw, castV]
  push_cast at q0' q1' q2' d0' d1' du' dv'
  refine ⟨⟨by exact_mod_cast p0, by exact_mod_cast p1, by exact_mod_cast p2, by exact_mod_cast p3, by exact_mod_cast p4⟩,
    ⟨?_, ?_, ?_⟩, ⟨?_, ?_⟩, ⟨?_, ?_⟩⟩
  · refine le_trans q0' (by norm_num)
  · refine le_trans q1' (by norm_num)
  · refine le_trans q2' (by norm_num)
  · refine le_trans d0' (by norm_num)
  · refine le_trans d1' (by norm_num)
  · refine le_trans du' (by norm_num)
  · refine le_trans dv' (by norm_num)

/-! ### every RGB space, every transfer function, every gray level in `[0,1]` -/

/-- an encoded gray `(e,e,e)` of any standard is the linear gray `g = into_linear(e)` under the space's matrix -/
theorem rgbToXyz_gray (mk : List K) (tf : Transfer.Fn) (e : ℝ) :
    RgbFam.rgbToXyz mk tf ⟨e, e, e⟩ = (M3.ofK mk : M3 ℝ).mulVec ⟨Transfer.intoLinear tf e, Transfer.intoLinear tf e, Transfer.intoLinear tf e⟩ := rfl

/-- **Lab of every gray of every RGB space of the crate**, through the real 7-digit matrix: `|a*| ≤ 2e-5`, `|b*| ≤ 1e-5` for all linear levels
    `g ∈ [0,1]` (below `g = 1/50` by the global Lipschitz bound, above it by the cube-root-branch bound with `c = 0.999·∛g`) -/
theorem lab_gray_tables (sp : SpaceRow) (hsp : sp ∈ Gen.Mat.rgbSpaces) (g : ℝ) (hg0 : 0 ≤ g) (hg1 : g ≤ 1) :
    |(xyzToLab (Color.whitePoint sp.2.1 : V3 ℝ) ((M3.ofK sp.2.2.1 : M3 ℝ).mulVec ⟨g, g, g⟩)).c1| ≤ 2e-5 ∧
    |(xyzToLab (Color.whitePoint sp.2.1 : V3 ℝ) ((M3.ofK sp.2.2.1 : M3 ℝ).mulVec ⟨g, g, g⟩)).c2| ≤ 1e-5 := by
  obtain ⟨-, ⟨q0, q1, q2⟩, ⟨d0, d1⟩, -⟩ := grayFacts_real sp (List.all_eq_true.mp gray_facts_decided sp hsp)
  generalize hm : (M3.ofK sp.2.2.1 : M3 ℝ) = m at *
  generalize hw : (Color.whitePoint sp.2.1 : V3 ℝ) = w at *
  rw [abs_le] at q0 q1 q2
  by_cases hlo : g ≤ 1 / 50
  · obtain ⟨ha, hb⟩ := lab_gray_matrix_lipschitz m w g hg0
    have hd0 := abs_nonneg ((rho m w).c0 - (rho m w).c1)
    have hd1 := abs_nonneg ((rho m w).c1 - (rho m w).c2)
    constructor
    · refine le_trans ha ?_
      have : g * |(rho m w).c0 - (rho m w).c1| ≤ 1 / 50 * 1.1e-7 := mul_le_mul hlo d0 hd0 (by norm_num)
      norm_num at this ⊢; linarith
    · refine le_trans hb ?_
      have : g * |(rho m w).c1 - (rho m w).c2| ≤ 1 / 50 * 1.1e-7 := mul_le_mul hlo d1 hd1 (by norm_num)
      norm_num at this ⊢; linarith
  · have hgpos : 0 < g := by linarith
    have hp3 : (g ^ ((1 : ℝ) / 3)) ^ 3 = g := C01Cie.cbrt_cube hg0
    have hppos : 0 < g ^ ((1 : ℝ) / 3) := Real.rpow_pos_of_pos hgpos _
    have hp1 : g ^ ((1 : ℝ) / 3) ≤ 1 := Real.rpow_le_one hg0 hg1 (by norm_num)
    generalize g ^ ((1 : ℝ) / 3) = p at hp3 hppos hp1
    have hc : 0 < 0.999 * p := by positivity
    have c3 : (0.999 * p) ^ 3 = 0.997002999 * g := by rw [mul_pow, hp3]; norm_num
    have hlo' : 1 / 50 < g := lt_of_not_ge hlo
    have hb (x : ℝ) (hx : -1.1e-7 ≤ x - 1) : (0.999 * p) ^ 3 ≤ g * x ∧ (6 / 29 : ℝ) ^ 3 < g * x := by
      rw [c3]; constructor <;> norm_num at hx ⊢ <;> nlinarith
    obtain ⟨ha, hbb⟩ := lab_gray_matrix_cbrt_branch m w g (0.999 * p) hg0 hc (hb _ q0.1).1 (hb _ q1.1).1 (hb _ q2.1).1
      (hb _ q0.1).2 (hb _ q1.1).2 (hb _ q2.1).2
    have key (d : ℝ) (hd0 : 0 ≤ d) (hd : d ≤ 1.1e-7) : g * d / (3 * (0.999 * p) ^ 2) ≤ 3.7e-8 := by
      rw [div_le_iff₀ (by positivity), ← hp3]
      have h1 : p ^ 3 * d ≤ p ^ 2 * 1.1e-7 := by
        have : p ^ 3 ≤ p ^ 2 := by nlinarith [sq_nonneg p]
        exact mul_le_mul this hd hd0 (by positivity)
      have h2 : 0 ≤ p ^ 2 := by positivity
      norm_num at h1 ⊢; nlinarith
    constructor
    · refine le_trans ha ?_
      have := key _ (abs_nonneg _) d0
      norm_num at this ⊢; linarith
    · refine le_trans hbb ?_
      have := key _ (abs_nonneg _) d1
      norm_num at this ⊢; linarith

/-- **Luv of every gray of every RGB space of the crate**: `|u*| ≤ 3e-5`, `|v*| ≤ 2e-5`, and `0 ≤ L* ≤ 100.000116`, for all `g ∈ [0,1]` -/
theorem luv_gray_tables (sp : SpaceRow) (hsp : sp ∈ Gen.Mat.rgbSpaces) (g : ℝ) (hg0 : 0 ≤ g) (hg1 : g ≤ 1) :
    |(xyzToLuv (Color.whitePoint sp.2.1 : V3 ℝ) ((M3.ofK sp.2.2.1 : M3 ℝ).mulVec ⟨g, g, g⟩)).c1| ≤ 3e-5 ∧
    |(xyzToLuv (Color.whitePoint sp.2.1 : V3 ℝ) ((M3.ofK sp.2.2.1 : M3 ℝ).mulVec ⟨g, g, g⟩)).c2| ≤ 2e-5 ∧
    0 ≤ (xyzToLuv (Color.whitePoint sp.2.1 : V3 ℝ) ((M3.ofK sp.2.2.1 : M3 ℝ).mulVec ⟨g, g, g⟩)).c0 ∧
    (xyzToLuv (Color.whitePoint sp.2.1 : V3 ℝ) ((M3.ofK sp.2.2.1 : M3 ℝ).mulVec ⟨g, g, g⟩)).c0 ≤ 100.000116 := by
  obtain ⟨⟨-, -, -, hdr, -⟩, ⟨-, q1, -⟩, -, ⟨du, dv⟩⟩ := grayFacts_real sp (List.all_eq_true.mp gray_facts_decided sp hsp)
  generalize hm : (M3.ofK sp.2.2.1 : M3 ℝ) = m at *
  generalize hw : (Color.whitePoint sp.2.1 : V3 ℝ) = w at *
  by_cases hg : g = 0
  · subst hg
    rw [luv_gray_matrix_black m w]; norm_num
  · rw [luv_gray_matrix m w g hg hdr.ne']
    simp only
    rw [abs_le] at q1
    have hy0 : 0 ≤ g * (rho m w).c1 := mul_nonneg hg0 (by linarith [q1.1])
    have hy1 : g * (rho m w).c1 ≤ (1.000001 : ℝ) ^ 3 := by
      have : g * (rho m w).c1 ≤ 1 * (1 + 1.1e-7) := mul_le_mul hg1 (by linarith [q1.2]) (by linarith [q1.1]) (by norm_num)
      norm_num at this ⊢; linarith
    have hL0 := labL_nonneg hy0
    have hL1 := labL_le hy0 (by norm_num) hy1
    generalize labL (g * (rho m w).c1) = L at hL0 hL1 ⊢
    have hL1' : L ≤ 100.000116 := by norm_num at hL1 ⊢; linarith
    refine ⟨?_, ?_, hL0, hL1'⟩
    · rw [abs_mul, abs_mul, abs_of_nonneg hL0, abs_of_pos (by norm_num : (0 : ℝ) < 13)]
      have : L * |uPrime (m.mulVec ⟨1, 1, 1⟩) - uPrime w| ≤ 100.000116 * 2e-8 := mul_le_mul hL1' du (abs_nonneg _) (by norm_num)
      norm_num at this ⊢; linarith
    · rw [abs_mul, abs_mul, abs_of_nonneg hL0, abs_of_pos (by norm_num : (0 : ℝ) < 13)]
      have : L * |vPrime (m.mulVec ⟨1, 1, 1⟩) - vPrime w| ≤ 100.000116 * 1.1e-8 := mul_le_mul hL1' dv (abs_nonneg _) (by norm_num)
      norm_num at this ⊢; linarith

/-- **RGB white has `L* = 100` within 1e-5** in Lab and in Luv, for every RGB space of the crate (through the real matrix) -/
theorem white_L_tables (sp : SpaceRow) (hsp : sp ∈ Gen.Mat.rgbSpaces) :
    let w : V3 ℝ := Color.whitePoint sp.2.1
    let xyz := (M3.ofK sp.2.2.1 : M3 ℝ).mulVec ⟨1, 1, 1⟩
    |(xyzToLab w xyz).c0 - 100| ≤ 1e-5 ∧ |(xyzToLuv w xyz).c0 - 100| ≤ 1e-5 := by
  intro w xyz
  obtain ⟨⟨-, -, -, hdr, -⟩, ⟨-, q1, -⟩, -, -⟩ := grayFacts_real sp (List.all_eq_true.mp gray_facts_decided sp hsp)
  have e1 : (xyzToLab w xyz).c0 = labL (1 * (rho (M3.ofK sp.2.2.1) w).c1) := by
    show (xyzToLab w ((M3.ofK sp.2.2.1 : M3 ℝ).mulVec ⟨1, 1, 1⟩)).c0 = _
    rw [lab_gray_matrix]
  have e2 : (xyzToLuv w xyz).c0 = labL (1 * (rho (M3.ofK sp.2.2.1) w).c1) := by
    show (xyzToLuv w ((M3.ofK sp.2.2.1 : M3 ℝ).mulVec ⟨1, 1, 1⟩)).c0 = _
    rw [luv_gray_matrix _ _ 1 one_ne_zero hdr.ne']
  rw [e1, e2, one_mul]
  generalize (rho (M3.ofK sp.2.2.1) w).c1 = x at q1
  have hx := abs_le.mp q1
  have hhi : (6 / 29 : ℝ) ^ 3 < x := by norm_num at hx ⊢; linarith [hx.1]
  have h := cbrt_sub_le (c := 0.999) (s := x) (t := 1) (by norm_num) (by norm_num at hx ⊢; linarith [hx.1]) (by norm_num)
  rw [Real.one_rpow] at h
  have h' : |x ^ ((1 : ℝ) / 3) - 1| ≤ 3.7e-8 := by
    refine le_trans h ?_
    rw [div_le_iff₀ (by norm_num)]; norm_num at q1 ⊢; linarith
  have : |labL x - 100| ≤ 1e-5 := by
    rw [labL_hi hhi]
    have e : 116 * x ^ ((1 : ℝ) / 3) - 16 - 100 = 116 * (x ^ ((1 : ℝ) / 3) - 1) := by ring
    rw [e, abs_mul, abs_of_pos (by norm_num : (0 : ℝ) < 116)]
    norm_num at h' ⊢; linarith
  exact ⟨this, this⟩

/-- **Lch / Lchuv chroma of every gray of every RGB space** (linear level in `[0,1]`): `≤ 3e-5` and `≤ 5e-5` -/
theorem chroma_gray_tables (sp : SpaceRow) (hsp : sp ∈ Gen.Mat.rgbSpaces) (g : ℝ) (hg0 : 0 ≤ g) (hg1 : g ≤ 1) :
    (labToLch (xyzToLab (Color.whitePoint sp.2.1 : V3 ℝ) ((M3.ofK sp.2.2.1 : M3 ℝ).mulVec ⟨g, g, g⟩))).c1 ≤ 3e-5 ∧
    (luvToLchuv (xyzToLuv (Color.whitePoint sp.2.1 : V3 ℝ) ((M3.ofK sp.2.2.1 : M3 ℝ).mulVec ⟨g, g, g⟩))).c1 ≤ 5e-5 := by
  obtain ⟨a1, a2⟩ := lab_gray_tables sp hsp g hg0 hg1
  obtain ⟨u1, u2, -, -⟩ := luv_gray_tables sp hsp g hg0 hg1
  constructor
  · refine le_trans (hypot_le _ _) ?_
    norm_num at a1 a2 ⊢; linarith
  · refine le_trans (hypot_le _ _) ?_
    norm_num at u1 u2 ⊢; linarith

/-- **the oracle's f64 tolerances are consequences**: for every RGB space of the crate, every transfer function and every encoded gray
    `(e,e,e)` whose linear level is in `[0,1]`, the exact (ℝ) values of the model's `Rgb → Xyz → Lab / Lch / Luv / Lchuv` satisfy the
    clauses `gray-neutral-lab`, `gray-neutral-luv` of `harness/src/c14.rs` with `tol_ab = 2e-4`, `tol_uv = 1.5e-3` (chroma `1.5×`) with a
    factor ≥ 6 to spare; the remainder of the tolerance covers the rounding of these expressions only -/
theorem gray_within_oracle_tolerances (sp : SpaceRow) (hsp : sp ∈ Gen.Mat.rgbSpaces) (tf : Transfer.Fn) (e : ℝ)
    (h0 : 0 ≤ Transfer.intoLinear tf e) (h1 : Transfer.intoLinear tf e ≤ 1) :
    let w : V3 ℝ := Color.whitePoint sp.2.1
    let xyz := RgbFam.rgbToXyz sp.2.2.1 tf ⟨e, e, e⟩
    (|(xyzToLab w xyz).c1| ≤ 2e-4 ∧ |(xyzToLab w xyz).c2| ≤ 2e-4 ∧ (labToLch (xyzToLab w xyz)).c1 ≤ 1.5 * 2e-4) ∧
    (|(xyzToLuv w xyz).c1| ≤ 1.5e-3 ∧ |(xyzToLuv w xyz).c2| ≤ 1.5e-3 ∧ (luvToLchuv (xyzToLuv w xyz)).c1 ≤ 1.5 * 1.5e-3) := by
  intro w xyz
  have hx : xyz = (M3.ofK sp.2.2.1 : M3 ℝ).mulVec ⟨Transfer.intoLinear tf e, Transfer.intoLinear tf e, Transfer.intoLinear tf e⟩ :=
    rgbToXyz_gray _ _ _
  obtain ⟨a1, a2⟩ := lab_gray_tables sp hsp _ h0 h1
  obtain ⟨u1, u2, -, -⟩ := luv_gray_tables sp hsp _ h0 h1
  rw [← hx] at a1 a2 u1 u2
  refine ⟨⟨le_trans a1 (by norm_num), le_trans a2 (by norm_num), ?_⟩, ⟨le_trans u1 (by norm_num), le_trans u2 (by norm_num), ?_⟩⟩
  · refine le_trans (hypot_le _ _) ?_
    have : |(xyzToLab w xyz).c1| + |(xyzToLab w xyz).c2| ≤ 2e-5 + 1e-5 := add_le_add a1 a2
    norm_num at this ⊢; linarith
  · refine le_trans (hypot_le _ _) ?_
    have : |(xyzToLuv w xyz).c1| + |(xyzToLuv w xyz).c2| ≤ 3e-5 + 2e-5 := add_le_add u1 u2
    norm_num at this ⊢; linarith

/-- non-vacuity: the table has seven spaces and a linear mid-gray satisfies the hypotheses -/
example : Gen.Mat.rgbSpaces.length = 7 ∧ (0 : ℝ) ≤ Transfer.intoLinear .linear (0.5 : ℝ) ∧ Transfer.intoLinear .linear (0.5 : ℝ) ≤ 1 := by
  refine ⟨by decide, ?_, ?_⟩ <;> (show _ ≤ _; simp only [Transfer.intoLinear, id]; norm_num)

end C14Gray
