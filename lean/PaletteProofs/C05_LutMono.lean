/-
  C05 — the 8-bit LUT encoders are **monotone over every f32 bit pattern** (IEEE order on non-NaN inputs).

  Shape of the argument: after clamping, the input bits `b ∈ [min, max]` determine `u = (b − min) >>> 12`, the table cell
  `i = u / 256` and the in-cell offset `t = u % 256` (this needs `min` aligned to 2²⁰, decided in `C05.geometry`).  `u` is monotone
  in `b`; the result is monotone in `t` inside a cell (`cellRes_mono_t`) and across cells because the last value of a cell does not
  exceed the first value of the next (`chainOK`, decided by the kernel on the regenerated tables).
-/
import PaletteProofs.C05_Lut

namespace C05
open Lut

/-- adjacent cells: last value of a cell ≤ first value of the next -/
def chainOK (bw : Nat) : List Nat → Bool
  | a :: b :: r => decide (cellRes bw a (2^bw - 1) ≤ cellRes bw b 0) && chainOK bw (b :: r)
  | _ => true

theorem tables_chain : ∀ e ∈ Enc.all, chainOK 8 e.table = true := by decide +kernel

theorem chainOK_get (bw : Nat) : ∀ (l : List Nat), chainOK bw l = true → ∀ i, i + 1 < l.length →
    cellRes bw (l.getD i 0) (2^bw - 1) ≤ cellRes bw (l.getD (i + 1) 0) 0
  | [], _, i, hi => by simp at hi
  | [_], _, i, hi => by simp at hi
  | a :: b :: r, h, i, hi => by
    simp only [chainOK, Bool.and_eq_true, decide_eq_true_eq] at h
    cases i with
    | zero => simpa using h.1
    | succ k =>
      have := chainOK_get bw (b :: r) h.2 k (by simpa using hi)
      simpa using this

/-- value of cell `i` at offset `t` -/
def cellAt (l : List Nat) (i t : Nat) : Nat := cellRes 8 (l.getD i 0) t

theorem cellAt_first_mono (l : List Nat) (h : chainOK 8 l = true) : ∀ (d i : Nat), i + d < l.length → cellAt l i 0 ≤ cellAt l (i + d) 0
  | 0, i, _ => Nat.le_refl _
  | d + 1, i, hi => by
    have h1 : cellAt l i 0 ≤ cellAt l (i + d) 0 := cellAt_first_mono l h d i (by omega)
    have h2 : cellAt l (i + d) 0 ≤ cellAt l (i + d) (2^8 - 1) := cellRes_mono_t 8 _ (Nat.zero_le _)
    have h3 := chainOK_get 8 l h (i + d) (by omega)
    have e : i + (d + 1) = i + d + 1 := by omega
    rw [e]; exact Nat.le_trans h1 (Nat.le_trans h2 h3)

/-- lexicographic monotonicity in (cell, offset) -/
theorem cellAt_lex_mono (l : List Nat) (h : chainOK 8 l = true) (i t i' t' : Nat) (hi' : i' < l.length) (ht : t ≤ 255) (_ht' : t' ≤ 255)
    (hlex : i < i' ∨ (i = i' ∧ t ≤ t')) : cellAt l i t ≤ cellAt l i' t' := by
  rcases hlex with hlt | ⟨rfl, hle⟩
  · -- cellAt i t ≤ last i ≤ first (i+1) ≤ first i' ≤ cellAt i' t'
    have h1 : cellAt l i t ≤ cellAt l i (2^8 - 1) := cellRes_mono_t 8 _ (by omega)
    have h2 := chainOK_get 8 l h i (by omega)
    have h3 : cellAt l (i + 1) 0 ≤ cellAt l (i + 1 + (i' - (i + 1))) 0 := cellAt_first_mono l h (i' - (i + 1)) (i + 1) (by omega)
    have e : i + 1 + (i' - (i + 1)) = i' := by omega
    rw [e] at h3
    have h4 : cellAt l i' 0 ≤ cellAt l i' t' := cellRes_mono_t 8 _ (Nat.zero_le _)
    exact Nat.le_trans h1 (Nat.le_trans h2 (Nat.le_trans h3 h4))
  · exact cellRes_mono_t 8 _ hle

/-- index and offset from `u = (b − min) >>> 12` when `min` is aligned to 2²⁰ -/
theorem cell_coords (minBits b : Nat) (hal : minBits % 2^20 = 0) (hb : minBits ≤ b) :
    cellIndex minBits 3 b = ((b - minBits) >>> 12) / 256 ∧ cellT 8 3 b = ((b - minBits) >>> 12) % 256 := by
  unfold cellIndex cellT
  rw [Nat.and_two_pow_sub_one_eq_mod]
  simp only [Nat.shiftRight_eq_div_pow]
  have p20 : (2:Nat)^(23 - 3) = 1048576 := by decide
  have p12 : (2:Nat)^12 = 4096 := by decide
  have p12' : (2:Nat)^(23 - 3 - 8) = 4096 := by decide
  have p8 : (2:Nat)^8 = 256 := by decide
  have p20' : (2:Nat)^20 = 1048576 := by decide
  rw [p20, p12, p8]
  rw [p20'] at hal
  omega

/-- **monotone on the clamped range**: for `min ≤ b ≤ b' ≤ max`, code(b) ≤ code(b') — every encoder -/
theorem encodeClamped_mono (e : Enc) (he : e ∈ Enc.all) (b b' : Nat) (h0 : e.minFloat ≤ b) (h1 : b ≤ b') (h2 : b' ≤ Gen.Lut.maxFloatBits) :
    encodeClamped e.table e.minFloat 8 3 b ≤ encodeClamped e.table e.minFloat 8 3 b' := by
  have hal : e.minFloat % 2^20 = 0 := by
    have := geometry.2.2.2.2.2.2.2.1 e he; exact this.2.2
  obtain ⟨ci, ct⟩ := cell_coords e.minFloat b hal h0
  obtain ⟨ci', ct'⟩ := cell_coords e.minFloat b' hal (Nat.le_trans h0 h1)
  have hu : (b - e.minFloat) >>> 12 ≤ (b' - e.minFloat) >>> 12 := shiftRight_mono 12 (by omega)
  have hidx' : cellIndex e.minFloat 3 b' < e.table.length := by
    have hlast : (Gen.Lut.maxFloatBits - e.minFloat) >>> 20 < e.table.length := by
      simp only [Enc.all, List.mem_cons, List.mem_nil_iff, or_false] at he
      rcases he with rfl | rfl | rfl | rfl <;> decide +kernel
    have : b' - e.minFloat ≤ Gen.Lut.maxFloatBits - e.minFloat := by omega
    exact Nat.lt_of_le_of_lt (shiftRight_mono 20 this) hlast
  unfold encodeClamped
  show cellAt e.table (cellIndex e.minFloat 3 b) (cellT 8 3 b) ≤ cellAt e.table (cellIndex e.minFloat 3 b') (cellT 8 3 b')
  apply cellAt_lex_mono e.table (tables_chain e he) _ _ _ _ hidx'
  · rw [ct]; omega
  · rw [ct']; omega
  · rw [ci, ct, ci', ct']; omega

/-! ### IEEE order on f32 bit patterns -/

/-- `x ≤ y` as IEEE floats, for non-NaN patterns: sign-magnitude comparison (−0 = +0) -/
def f32le (x y : Nat) : Prop :=
  (x ≥ 0x80000000 ∧ y ≥ 0x80000000 ∧ y ≤ x) ∨ (x ≥ 0x80000000 ∧ y < 0x80000000) ∨ (x < 0x80000000 ∧ y < 0x80000000 ∧ x ≤ y) ∨
  (x = 0 ∧ y = 0x80000000)

def notNaN (b : Nat) : Prop := (b < 0x80000000 ∧ b ≤ 0x7f800000) ∨ (b ≥ 0x80000000 ∧ b ≤ 0xff800000)

theorem clampBits_mono (minBits maxBits x y : Nat) (hmm : minBits ≤ maxBits) (_hx : notNaN x) (hy : notNaN y) (h : f32le x y) :
    clampBits minBits maxBits x ≤ clampBits minBits maxBits y := by
  have ry := clampBits_range minBits maxBits y hmm
  unfold f32le at h
  unfold notNaN at hy
  rcases h with ⟨hx, _, _⟩ | ⟨hx, _⟩ | ⟨hx, hyn, hle⟩ | ⟨hx0, _⟩
  · have : clampBits minBits maxBits x = minBits := by unfold clampBits; rw [if_pos hx]
    rw [this]; exact ry.1
  · have : clampBits minBits maxBits x = minBits := by unfold clampBits; rw [if_pos hx]
    rw [this]; exact ry.1
  · unfold clampBits
    rw [if_neg (by omega), if_neg (by omega)]
    repeat' split
    all_goals omega
  · have : clampBits minBits maxBits x = minBits := by
      unfold clampBits; subst hx0; rw [if_neg (by omega), if_neg (by omega), if_pos (Nat.zero_le _)]
    rw [this]; exact ry.1

/-- **monotone over every f32 bit pattern**: for non-NaN `x ≤ y` (IEEE order), `from_linear(x) ≤ from_linear(y)`, all four 8-bit encoders -/
theorem fromLinearU8_mono (e : Enc) (x y : Nat) (hx : notNaN x) (hy : notNaN y) (h : f32le x y) :
    fromLinearU8 e x ≤ fromLinearU8 e y := by
  have he := Enc.mem_all e
  have hmm : e.minFloat ≤ Gen.Lut.maxFloatBits := by cases e <;> decide +kernel
  have rx := clampBits_range e.minFloat Gen.Lut.maxFloatBits x hmm
  have ry := clampBits_range e.minFloat Gen.Lut.maxFloatBits y hmm
  have hc := clampBits_mono e.minFloat Gen.Lut.maxFloatBits x y hmm hx hy h
  have hm := encodeClamped_mono e he _ _ rx.1 hc ry.2
  -- the final `% 256` (`as u8`) is the identity because every result is ≤ 255
  have bound : ∀ b, e.minFloat ≤ b → b ≤ Gen.Lut.maxFloatBits → encodeClamped e.table e.minFloat 8 3 b ≤ 255 := by
    intro b hb0 hb1
    have hidx : cellIndex e.minFloat 3 b < e.table.length := by
      have hlast : (Gen.Lut.maxFloatBits - e.minFloat) >>> 20 < e.table.length := by cases e <;> decide +kernel
      have : b - e.minFloat ≤ Gen.Lut.maxFloatBits - e.minFloat := by omega
      exact Nat.lt_of_le_of_lt (shiftRight_mono 20 this) hlast
    have hal : e.minFloat % 2^20 = 0 := (geometry.2.2.2.2.2.2.2.1 e he).2.2
    have ht : cellT 8 3 b ≤ 255 := by rw [(cell_coords e.minFloat b hal hb0).2]; omega
    unfold encodeClamped
    have hmem : e.table.getD (cellIndex e.minFloat 3 b) 0 ∈ e.table := by
      rw [List.getD_eq_getElem?_getD, List.getElem?_eq_getElem hidx]; exact List.getElem_mem hidx
    exact res_le_max e _ hmem _ ht
  unfold fromLinearU8 encU8
  have b1 := bound _ rx.1 rx.2
  have b2 := bound _ ry.1 ry.2
  omega

/-- non-vacuity: 0.25 ≤ 0.5 as bit patterns, both non-NaN -/
example : notNaN 0x3e800000 ∧ notNaN 0x3f000000 ∧ f32le 0x3e800000 0x3f000000 := by
  unfold notNaN f32le; omega

end C05

/-! ## the 16-bit ProPhoto encoder: monotone on its table branch (`min ≤ b ≤ max`) -/
namespace C05
open Lut

theorem prophoto_chain : chainOK 16 Gen.Lut.prophotoEnc = true := by decide +kernel

def cellAt16 (l : List Nat) (i t : Nat) : Nat := cellRes 16 (l.getD i 0) t

theorem cellAt16_first_mono (l : List Nat) (h : chainOK 16 l = true) : ∀ (d i : Nat), i + d < l.length → cellAt16 l i 0 ≤ cellAt16 l (i + d) 0
  | 0, i, _ => Nat.le_refl _
  | d + 1, i, hi => by
    have h1 : cellAt16 l i 0 ≤ cellAt16 l (i + d) 0 := cellAt16_first_mono l h d i (by omega)
    have h2 : cellAt16 l (i + d) 0 ≤ cellAt16 l (i + d) (2^16 - 1) := cellRes_mono_t 16 _ (Nat.zero_le _)
    have h3 := chainOK_get 16 l h (i + d) (by omega)
    have e : i + (d + 1) = i + d + 1 := by omega
    rw [e]; exact Nat.le_trans h1 (Nat.le_trans h2 h3)

theorem cellAt16_lex_mono (l : List Nat) (h : chainOK 16 l = true) (i t i' t' : Nat) (hi' : i' < l.length) (ht : t ≤ 65535)
    (hlex : i < i' ∨ (i = i' ∧ t ≤ t')) : cellAt16 l i t ≤ cellAt16 l i' t' := by
  rcases hlex with hlt | ⟨rfl, hle⟩
  · have h1 : cellAt16 l i t ≤ cellAt16 l i (2^16 - 1) := cellRes_mono_t 16 _ (by omega)
    have h2 := chainOK_get 16 l h i (by omega)
    have h3 : cellAt16 l (i + 1) 0 ≤ cellAt16 l (i + 1 + (i' - (i + 1))) 0 := cellAt16_first_mono l h (i' - (i + 1)) (i + 1) (by omega)
    have e : i + 1 + (i' - (i + 1)) = i' := by omega
    rw [e] at h3
    have h4 : cellAt16 l i' 0 ≤ cellAt16 l i' t' := cellRes_mono_t 16 _ (Nat.zero_le _)
    exact Nat.le_trans h1 (Nat.le_trans h2 (Nat.le_trans h3 h4))
  · exact cellRes_mono_t 16 _ hle

/-- cell coordinates of the 16-bit encoder: `i = (b − min) >>> 16`, `t = b &&& 0xffff = (b − min) % 65536` (`min` aligned to 2¹⁶) -/
theorem cell_coords16 (b : Nat) (hb : Gen.Lut.prophotoMinFloat ≤ b) :
    cellIndex Gen.Lut.prophotoMinFloat 7 b = (b - Gen.Lut.prophotoMinFloat) / 65536 ∧ cellT 16 7 b = (b - Gen.Lut.prophotoMinFloat) % 65536 := by
  have hal : Gen.Lut.prophotoMinFloat % 2^16 = 0 := geometry.2.2.2.2.2.2.2.2
  unfold cellIndex cellT
  rw [Nat.and_two_pow_sub_one_eq_mod]
  simp only [Nat.shiftRight_eq_div_pow]
  have p16 : (2:Nat)^(23 - 7) = 65536 := by decide
  have p0 : (2:Nat)^(23 - 7 - 16) = 1 := by decide
  have p16' : (2:Nat)^16 = 65536 := by decide
  simp only [p16, p0, Nat.div_one]
  -- `min` is a multiple of 65536 (decided in `geometry`): write it as `65536·k`
  obtain ⟨k, hk⟩ : ∃ k, Gen.Lut.prophotoMinFloat = 65536 * k := ⟨Gen.Lut.prophotoMinFloat / 65536, by rw [p16'] at hal; omega⟩
  rw [hk] at hb ⊢
  refine ⟨trivial, ?_⟩
  omega

/-- **monotone on the table branch**: for `min ≤ b ≤ b' ≤ max`, the raw interpolation result is monotone — 16-bit ProPhoto encoder.
    (Partial: the linear segment below `min_float` is `(scale·x + 2²³).to_bits() & 0xffff`, whose monotonicity is a statement about
    float rounding; it and the join are covered by the exhaustive 2³² scan of the thorough tier.) -/
theorem prophoto_encodeClamped_mono_partial (b b' : Nat) (h0 : Gen.Lut.prophotoMinFloat ≤ b) (h1 : b ≤ b') (h2 : b' ≤ Gen.Lut.maxFloatBits) :
    encodeClamped Gen.Lut.prophotoEnc Gen.Lut.prophotoMinFloat 16 7 b ≤ encodeClamped Gen.Lut.prophotoEnc Gen.Lut.prophotoMinFloat 16 7 b' := by
  obtain ⟨ci, ct⟩ := cell_coords16 b h0
  obtain ⟨ci', ct'⟩ := cell_coords16 b' (Nat.le_trans h0 h1)
  have hidx' := index_in_bounds_u16 b' (Nat.le_trans h0 h1) h2
  unfold encodeClamped
  show cellAt16 _ (cellIndex _ 7 b) (cellT 16 7 b) ≤ cellAt16 _ (cellIndex _ 7 b') (cellT 16 7 b')
  apply cellAt16_lex_mono _ prophoto_chain _ _ _ _ hidx'
  · rw [ct]; omega
  · rw [ci, ct, ci', ct']; omega

end C05
