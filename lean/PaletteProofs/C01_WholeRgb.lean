/-
  C01 — whole routes of the RGB family at ℝ, as statements about the model's route interpreter (`RouteEval`):
  the hexcone chains (`Hwb → Hsv → Rgb → Hsv → Hwb`, `Hsl → Rgb → Hsl`, …; hue up to full turns, which is equality of the
  angle type `RgbHue`), the `Hsl ↔ Hsv` shortcut against the detour through `Rgb` (commutation at the route level), and the
  linear-light `Rgb<S> ↔ Xyz` round trips for every RGB space with the decided matrix bound as an explicit ε, also composed
  with the exact `Lab` edges.
-/
import PaletteProofs.C01_WholeChain
import PaletteProofs.C01_WholeCie
import PaletteProofs.C01_Rgb

namespace C01WholeRgb
open RouteEval Route C01Hops C01Chain RgbFam C01Rgb Hexcone

/-- the routes concerned, decided on the generated table -/
theorem routes_rgb :
    routeOf HWB RGB = some [HWB, HSV, RGB] ∧ routeOf RGB HWB = some [RGB, HSV, HWB] ∧
    routeOf HSL RGB = some [HSL, RGB] ∧ routeOf RGB HSL = some [RGB, HSL] ∧
    routeOf HSV RGB = some [HSV, RGB] ∧ routeOf RGB HSV = some [RGB, HSV] ∧
    routeOf HSL HSV = some [HSL, HSV] ∧ routeOf HSV HSL = some [HSV, HSL] ∧
    routeOf HWB HSV = some [HWB, HSV] ∧ routeOf HSV HWB = some [HSV, HWB] ∧
    routeOf RGB XYZ = some [RGB, XYZ] ∧ routeOf XYZ RGB = some [XYZ, RGB] ∧
    routeOf RGB LAB = some [RGB, XYZ, LAB] ∧ routeOf LAB RGB = some [LAB, XYZ, RGB] ∧
    routeOf RGB LCH = some [RGB, XYZ, LAB, LCH] ∧ routeOf LCH RGB = some [LCH, LAB, XYZ, RGB] := by
  decide +kernel

/-- adding whole turns to the stored hue of a hue-first colour (`Hsv`, `Hsl`, `Hwb`): the same colour, `RgbHue` compares modulo 360° -/
def turns (n : ℤ) (x : V3 ℝ) : V3 ℝ := ⟨x.c0 + 360 * (n : ℝ), x.c1, x.c2⟩

theorem rgbToHsv_value (r g b : ℝ) (hr : 0 ≤ r) (hg : 0 ≤ g) (hb : 0 ≤ b) : (rgbToHsv ⟨r, g, b⟩).c2 = (maxMinSep r g b).max := by
  unfold rgbToHsv
  simp only [max0_of_nonneg hr, max0_of_nonneg hg, max0_of_nonneg hb]
  split_ifs <;> rfl

section hexcone
variable (c : Cfg) (s : Std) (hs : StdOk c s)
include hs

/-! ### round trips that start from a hexcone type: exact up to whole turns of the hue -/

/-- **`Hsv → Rgb → Hsv`**, `s ∈ (0,1]`, `v > 0`, every stored hue -/
theorem hsv_rgb_hsv_route (hue sat v : ℝ) (hs0 : 0 < sat) (hs1 : sat ≤ 1) (hv0 : 0 < v) :
    ∃ n : ℤ, roundTrip c HSV RGB ⟨hue, sat, v⟩ = some (turns n ⟨hue, sat, v⟩) := by
  obtain ⟨n, hn⟩ := hsv_rgb_hsv hue sat v hs0 hs1 hv0
  refine ⟨n, ?_⟩
  unfold roundTrip
  rw [convertAt_of c routes_rgb.2.2.2.2.1 (runPath_two c (hop_hsv_rgb c s hs)), Option.bind_some,
    convertAt_of c routes_rgb.2.2.2.2.2.1 (runPath_two c (hop_rgb_hsv c s hs)), hn]; rfl

/-- **`Hsl → Rgb → Hsl`**, `s ∈ (0,1]`, `0 < l < 1` -/
theorem hsl_rgb_hsl_route (hue sat l : ℝ) (hs0 : 0 < sat) (hs1 : sat ≤ 1) (hl0 : 0 < l) (hl1 : l < 1) :
    ∃ n : ℤ, roundTrip c HSL RGB ⟨hue, sat, l⟩ = some (turns n ⟨hue, sat, l⟩) := by
  obtain ⟨n, hn⟩ := hsl_rgb_hsl hue sat l hs0 hs1 hl0 hl1
  refine ⟨n, ?_⟩
  unfold roundTrip
  rw [convertAt_of c routes_rgb.2.2.1 (runPath_two c (hop_hsl_rgb c s hs)), Option.bind_some,
    convertAt_of c routes_rgb.2.2.2.1 (runPath_two c (hop_rgb_hsl c s hs)), hn]; rfl

/-- **`Hwb → Hsv → Rgb → Hsv → Hwb`**, `Hwb` off the gray axis: `w ≥ 0`, `w + b < 1` (in particular every nominal `w, b ≥ 0` with
    `w + b < 1`; on the gray axis `w + b = 1` the saturation is 0 and the hue is not recoverable) -/
theorem hwb_rgb_hwb_route (hue w b : ℝ) (hw : 0 ≤ w) (hwb : w + b < 1) :
    ∃ n : ℤ, roundTrip c HWB RGB ⟨hue, w, b⟩ = some (turns n ⟨hue, w, b⟩) := by
  have hb1 : b ≠ 1 := by intro e; linarith
  have hv0 : (0 : ℝ) < 1.0 - b := by norm_num; linarith
  have hs0 : (0 : ℝ) < 1.0 - w / (1.0 - b) := by
    have : w / (1.0 - b) < 1 := by rw [div_lt_one hv0]; norm_num; linarith
    norm_num at this ⊢; linarith
  have hs1 : (1.0 : ℝ) - w / (1.0 - b) ≤ 1 := by
    have : 0 ≤ w / (1.0 - b) := div_nonneg hw hv0.le
    norm_num at this ⊢; linarith
  obtain ⟨n, hn⟩ := hsv_rgb_hsv hue _ _ hs0 hs1 hv0
  refine ⟨n, ?_⟩
  have pf : runPath c [HWB, HSV, RGB] = some (hsvToRgb ∘ hwbToHsv) :=
    runPath_cons c (hop_hwb_hsv c s hs) (runPath_two c (hop_hsv_rgb c s hs))
  have pb : runPath c [RGB, HSV, HWB] = some (hsvToHwb ∘ rgbToHsv) :=
    runPath_cons c (hop_rgb_hsv c s hs) (runPath_two c (hop_hsv_hwb c s hs))
  unfold roundTrip
  rw [convertAt_of c routes_rgb.1 pf, Option.bind_some, convertAt_of c routes_rgb.2.1 pb]
  show some (hsvToHwb (rgbToHsv (hsvToRgb (hwbToHsv ⟨hue, w, b⟩)))) = _
  rw [hwbToHsv_of_ne _ _ _ hb1, hn, ← hwbToHsv_of_ne (hue + 360 * (n : ℝ)) w b hb1, hwb_hsv_hwb _ _ _ hb1]; rfl

/-! ### round trips that start from `Rgb`: exact (instances of the composition principle) -/

/-- in-gamut-or-brighter `Rgb`: non-negative components -/
def DRgbNonneg (x : V3 ℝ) : Prop := 0 ≤ x.c0 ∧ 0 ≤ x.c1 ∧ 0 ≤ x.c2
/-- the unit cube -/
def DRgbUnit (x : V3 ℝ) : Prop := (0 ≤ x.c0 ∧ x.c0 ≤ 1) ∧ (0 ≤ x.c1 ∧ x.c1 ≤ 1) ∧ (0 ≤ x.c2 ∧ x.c2 ≤ 1)
/-- non-negative and not black -/
def DRgbLit (x : V3 ℝ) : Prop := DRgbNonneg x ∧ (0 < x.c0 ∨ 0 < x.c1 ∨ 0 < x.c2)

theorem chain_rgb_hsv : InvChain c [RGB, HSV] DRgbNonneg :=
  .step (hop_rgb_hsv c s hs) (hop_hsv_rgb c s hs) (D' := fun _ => True)
    (fun x hx => rgb_hsv_rgb x.c0 x.c1 x.c2 hx.1 hx.2.1 hx.2.2) (fun _ _ => trivial) (.last _ _)

theorem chain_rgb_hsl : InvChain c [RGB, HSL] DRgbUnit :=
  .step (hop_rgb_hsl c s hs) (hop_hsl_rgb c s hs) (D' := fun _ => True)
    (fun x hx => rgb_hsl_rgb x.c0 x.c1 x.c2 hx.1.1 hx.2.1.1 hx.2.2.1 hx.1.2 hx.2.1.2 hx.2.2.2) (fun _ _ => trivial) (.last _ _)

theorem chain_rgb_hwb : InvChain c [RGB, HSV, HWB] DRgbLit := by
  refine .step (hop_rgb_hsv c s hs) (hop_hsv_rgb c s hs) (D' := fun y => y.c2 ≠ 0)
    (fun x hx => rgb_hsv_rgb x.c0 x.c1 x.c2 hx.1.1 hx.1.2.1 hx.1.2.2) ?_ ?_
  · rintro ⟨r, g, b⟩ ⟨⟨hr, hg, hb⟩, hpos⟩
    simp only at hr hg hb hpos
    rw [rgbToHsv_value r g b hr hg hb]
    obtain ⟨_, b2, _, b4, _, b6⟩ := maxMin_bounds r g b
    rcases hpos with h | h | h <;> (intro e; linarith)
  · exact .step (hop_hsv_hwb c s hs) (hop_hwb_hsv c s hs) (D' := fun _ => True)
      (fun x hx => hsv_hwb_hsv x.c0 x.c1 x.c2 hx) (fun _ _ => trivial) (.last _ _)

/-- **`Rgb → Hsv → Rgb`** (non-negative components), **`Rgb → Hsl → Rgb`** (unit cube), **`Rgb → Hsv → Hwb → Hsv → Rgb`**
    (non-negative, not black): the identity -/
theorem rgb_hsv_rgb_route (x : V3 ℝ) (hx : DRgbNonneg x) : roundTrip c RGB HSV x = some x :=
  roundTrip_of_chain routes_rgb.2.2.2.2.2.1 routes_rgb.2.2.2.2.1 (chain_rgb_hsv c s hs) x hx
theorem rgb_hsl_rgb_route (x : V3 ℝ) (hx : DRgbUnit x) : roundTrip c RGB HSL x = some x :=
  roundTrip_of_chain routes_rgb.2.2.2.1 routes_rgb.2.2.1 (chain_rgb_hsl c s hs) x hx
theorem rgb_hwb_rgb_route (x : V3 ℝ) (hx : DRgbLit x) : roundTrip c RGB HWB x = some x :=
  roundTrip_of_chain routes_rgb.2.1 routes_rgb.1 (chain_rgb_hwb c s hs) x hx

/-! ### `Hsl ↔ Hsv`: the shortcut edge is its own round trip, and agrees with the detour through `Rgb` -/

/-- **`Hsl → Hsv → Hsl`** (the direct formulas), `0 < l < 1`, `0 ≤ s`; **`Hsv → Hsl → Hsv`** where the guarded divisions are taken;
    **`Hsv → Hwb → Hsv`**, `v ≠ 0`; **`Hwb → Hsv → Hwb`**, `b ≠ 1`: the identity -/
theorem hsl_hsv_hsl_route (hue sat l : ℝ) (hl0 : 0 < l) (hl1 : l < 1) (hs0 : 0 ≤ sat) :
    roundTrip c HSL HSV ⟨hue, sat, l⟩ = some ⟨hue, sat, l⟩ :=
  roundTrip_of_chain (D := fun x => 0 < x.c2 ∧ x.c2 < 1 ∧ 0 ≤ x.c1) routes_rgb.2.2.2.2.2.2.1 routes_rgb.2.2.2.2.2.2.2.1
    (.step (hop_hsl_hsv c s hs) (hop_hsv_hsl c s hs) (D' := fun _ => True)
      (fun x hx => hsl_hsv_hsl x.c0 x.c1 x.c2 hx.1 hx.2.1 hx.2.2) (fun _ _ => trivial) (.last _ _)) _ ⟨hl0, hl1, hs0⟩

theorem hsv_hsl_hsv_route (hue sat v : ℝ) (hv : v ≠ 0) (hx0 : (2 - sat) * v ≠ 0) (hx2 : (2 - sat) * v ≠ 2) :
    roundTrip c HSV HSL ⟨hue, sat, v⟩ = some ⟨hue, sat, v⟩ :=
  roundTrip_of_chain (D := fun x => x.c2 ≠ 0 ∧ (2 - x.c1) * x.c2 ≠ 0 ∧ (2 - x.c1) * x.c2 ≠ 2) routes_rgb.2.2.2.2.2.2.2.1 routes_rgb.2.2.2.2.2.2.1
    (.step (hop_hsv_hsl c s hs) (hop_hsl_hsv c s hs) (D' := fun _ => True)
      (fun x hx => hsv_hsl_hsv x.c0 x.c1 x.c2 hx.1 hx.2.1 hx.2.2) (fun _ _ => trivial) (.last _ _)) _ ⟨hv, hx0, hx2⟩

theorem hsv_hwb_hsv_route (hue sat v : ℝ) (hv : v ≠ 0) : roundTrip c HSV HWB ⟨hue, sat, v⟩ = some ⟨hue, sat, v⟩ :=
  roundTrip_of_chain (D := fun x => x.c2 ≠ 0) routes_rgb.2.2.2.2.2.2.2.2.2.1 routes_rgb.2.2.2.2.2.2.2.2.1
    (.step (hop_hsv_hwb c s hs) (hop_hwb_hsv c s hs) (D' := fun _ => True)
      (fun x hx => hsv_hwb_hsv x.c0 x.c1 x.c2 hx) (fun _ _ => trivial) (.last _ _)) _ hv

theorem hwb_hsv_hwb_route (hue w b : ℝ) (hb : b ≠ 1) : roundTrip c HWB HSV ⟨hue, w, b⟩ = some ⟨hue, w, b⟩ :=
  roundTrip_of_chain (D := fun x => x.c2 ≠ 1) routes_rgb.2.2.2.2.2.2.2.2.1 routes_rgb.2.2.2.2.2.2.2.2.2.1
    (.step (hop_hwb_hsv c s hs) (hop_hsv_hwb c s hs) (D' := fun _ => True)
      (fun x hx => hwb_hsv_hwb x.c0 x.c1 x.c2 hx) (fun _ _ => trivial) (.last _ _)) _ hb

/-- **commutation, shortcut `Hsl → Hsv`**: the derive crate's route (the direct edge) and the step-by-step conversion through `Rgb`
    (the tree path the shortcut replaces) give the same `Hsv` — saturation and value exactly, the hue up to whole turns —
    for `s ∈ (0,1]`, `0 < l < 1` -/
theorem hsl_hsv_commutes (hue sat l : ℝ) (hs0 : 0 < sat) (hs1 : sat ≤ 1) (hl0 : 0 < l) (hl1 : l < 1) :
    ∃ (n : ℤ) (y : V3 ℝ), convertAt c HSL HSV ⟨hue, sat, l⟩ = some y ∧ via c HSL RGB HSV ⟨hue, sat, l⟩ = some (turns n y) := by
  obtain ⟨n, hn⟩ := hsl_hsv_shortcut hue sat l hs0 hs1 hl0 hl1
  refine ⟨n, hslToHsv ⟨hue, sat, l⟩, convertAt_of c routes_rgb.2.2.2.2.2.2.1 (runPath_two c (hop_hsl_hsv c s hs)) _, ?_⟩
  unfold via
  rw [convertAt_of c routes_rgb.2.2.1 (runPath_two c (hop_hsl_rgb c s hs)), Option.bind_some,
    convertAt_of c routes_rgb.2.2.2.2.2.1 (runPath_two c (hop_rgb_hsv c s hs)), hn]; rfl

/-- **commutation, shortcut `Hsv → Hsl`**, `s ∈ (0,1]`, `v ∈ (0,1]` -/
theorem hsv_hsl_commutes (hue sat v : ℝ) (hs0 : 0 < sat) (hs1 : sat ≤ 1) (hv0 : 0 < v) (hv1 : v ≤ 1) :
    ∃ (n : ℤ) (y : V3 ℝ), convertAt c HSV HSL ⟨hue, sat, v⟩ = some y ∧ via c HSV RGB HSL ⟨hue, sat, v⟩ = some (turns n y) := by
  obtain ⟨n, hn⟩ := hsv_hsl_shortcut hue sat v hs0 hs1 hv0 hv1
  refine ⟨n, hsvToHsl ⟨hue, sat, v⟩, convertAt_of c routes_rgb.2.2.2.2.2.2.2.1 (runPath_two c (hop_hsv_hsl c s hs)) _, ?_⟩
  unfold via
  rw [convertAt_of c routes_rgb.2.2.2.2.1 (runPath_two c (hop_hsv_rgb c s hs)), Option.bind_some,
    convertAt_of c routes_rgb.2.2.2.1 (runPath_two c (hop_rgb_hsl c s hs)), hn]; rfl

end hexcone

/-! ### linear `Rgb<S> ↔ Xyz`, every RGB space, with the decided ε -/

/-- a resolved standard's matrices are a row of the generated table -/
theorem std_row (n : String) (s : Std) (h : Std.of? n = some s) :
    ∃ row : RgbTables.SpaceRow, row ∈ Gen.Mat.rgbSpaces ∧ row.2.1 = s.wp ∧ row.2.2.1 = s.toXyz ∧ row.2.2.2.1 = s.fromXyz := by
  unfold Std.of? at h
  cases hst : Color.standard? n with
  | none => simp [hst] at h
  | some p =>
    obtain ⟨sp, tf⟩ := p
    simp only [hst] at h
    cases hd : Color.rgbSpace? sp with
    | none => simp [hd] at h
    | some d =>
      simp only [hd, Option.some.injEq] at h; subst h
      unfold Color.rgbSpace? at hd
      obtain ⟨row, hrow, rfl⟩ := Option.map_eq_some_iff.mp hd
      exact ⟨row, List.mem_of_find?_eq_some hrow, rfl, rfl, rfl⟩

section linear
variable (c : Cfg) (s : Std) (hs : StdOk c s) (hl : s.tf = .linear)
include hs hl

/-- **`Rgb<Linear<S>> → Xyz → Rgb<Linear<S>>`, every RGB space of the crate, every colour**: the round trip of the model moves
    each component by at most `ε = 3·2e-7·‖rgb‖∞` (the decided entrywise bound of the hard-coded matrix pair, lifted by linearity) -/
theorem rgb_xyz_rgb_route (x : V3 ℝ) : ∃ y, roundTrip c RGB XYZ x = some y ∧ Within (3 * 2e-7 * linf x) y x := by
  obtain ⟨row, hrow, _, e1, e2⟩ := std_row c.std s hs.of
  refine ⟨xyzToRgb s.fromXyz s.tf (rgbToXyz s.toXyz s.tf x), ?_, ?_⟩
  · unfold roundTrip
    rw [convertAt_of c routes_rgb.2.2.2.2.2.2.2.2.2.2.1 (runPath_two c (hop_rgb_xyz c s hs)), Option.bind_some,
      convertAt_of c routes_rgb.2.2.2.2.2.2.2.2.2.2.2.1 (runPath_two c (hop_xyz_rgb c s hs))]
  · have := rgb_xyz_rgb_linear row hrow x
    rw [e1, e2] at this; rw [hl]; exact this

/-- **`Xyz → Rgb<Linear<S>> → Xyz`** likewise -/
theorem xyz_rgb_xyz_route (x : V3 ℝ) : ∃ y, roundTrip c XYZ RGB x = some y ∧ Within (3 * 2e-7 * linf x) y x := by
  obtain ⟨row, hrow, _, e1, e2⟩ := std_row c.std s hs.of
  refine ⟨rgbToXyz s.toXyz s.tf (xyzToRgb s.fromXyz s.tf x), ?_, ?_⟩
  · unfold roundTrip
    rw [convertAt_of c routes_rgb.2.2.2.2.2.2.2.2.2.2.2.1 (runPath_two c (hop_xyz_rgb c s hs)), Option.bind_some,
      convertAt_of c routes_rgb.2.2.2.2.2.2.2.2.2.2.1 (runPath_two c (hop_rgb_xyz c s hs))]
  · have := xyz_rgb_xyz_linear row hrow x
    rw [e1, e2] at this; rw [hl]; exact this

/-- **`Rgb → Xyz → Lab → Xyz → Rgb` within the same ε**: the `Lab` edges are exact, so the three-colour route loses exactly what
    the matrix pair loses -/
theorem rgb_lab_rgb_route (hwp : WpOk c) (x : V3 ℝ) : ∃ y, roundTrip c RGB LAB x = some y ∧ Within (3 * 2e-7 * linf x) y x := by
  obtain ⟨row, hrow, _, e1, e2⟩ := std_row c.std s hs.of
  obtain ⟨w0, w1, w2⟩ := C01WholeCie.wp_pos c hwp
  have pf : runPath c [RGB, XYZ, LAB] = some (Cie.xyzToLab (Color.whitePoint c.wp) ∘ rgbToXyz s.toXyz s.tf) :=
    runPath_cons c (hop_rgb_xyz c s hs) (runPath_two c (hop_xyz_lab c hwp))
  have pb : runPath c [LAB, XYZ, RGB] = some (xyzToRgb s.fromXyz s.tf ∘ Cie.labToXyz (Color.whitePoint c.wp)) :=
    runPath_cons c (hop_lab_xyz c hwp) (runPath_two c (hop_xyz_rgb c s hs))
  refine ⟨xyzToRgb s.fromXyz s.tf (rgbToXyz s.toXyz s.tf x), ?_, ?_⟩
  · unfold roundTrip
    rw [convertAt_of c routes_rgb.2.2.2.2.2.2.2.2.2.2.2.2.1 pf, Option.bind_some, convertAt_of c routes_rgb.2.2.2.2.2.2.2.2.2.2.2.2.2.1 pb]
    show some (xyzToRgb s.fromXyz s.tf (Cie.labToXyz _ (Cie.xyzToLab _ (rgbToXyz s.toXyz s.tf x)))) = _
    rw [C01Cie.lab_xyz_roundtrip _ _ w0.ne' w1.ne' w2.ne']
  · have := rgb_xyz_rgb_linear row hrow x
    rw [e1, e2] at this; rw [hl]; exact this

/-- **`Rgb → Xyz → Lab → Lch → Lab → Xyz → Rgb` within the same ε** (four colours; `Lab → Lch → Lab` is exact on all of ℝ³) -/
theorem rgb_lch_rgb_route (hwp : WpOk c) (x : V3 ℝ) : ∃ y, roundTrip c RGB LCH x = some y ∧ Within (3 * 2e-7 * linf x) y x := by
  obtain ⟨row, hrow, _, e1, e2⟩ := std_row c.std s hs.of
  obtain ⟨w0, w1, w2⟩ := C01WholeCie.wp_pos c hwp
  have pf : runPath c [RGB, XYZ, LAB, LCH] = some ((Cie.labToLch ∘ Cie.xyzToLab (Color.whitePoint c.wp)) ∘ rgbToXyz s.toXyz s.tf) :=
    runPath_cons c (hop_rgb_xyz c s hs) (runPath_cons c (hop_xyz_lab c hwp) (runPath_two c (hop_lab_lch c hwp)))
  have pb : runPath c [LCH, LAB, XYZ, RGB] = some ((xyzToRgb s.fromXyz s.tf ∘ Cie.labToXyz (Color.whitePoint c.wp)) ∘ Cie.lchToLab) :=
    runPath_cons c (hop_lch_lab c hwp) (runPath_cons c (hop_lab_xyz c hwp) (runPath_two c (hop_xyz_rgb c s hs)))
  refine ⟨xyzToRgb s.fromXyz s.tf (rgbToXyz s.toXyz s.tf x), ?_, ?_⟩
  · unfold roundTrip
    rw [convertAt_of c routes_rgb.2.2.2.2.2.2.2.2.2.2.2.2.2.2.1 pf, Option.bind_some, convertAt_of c routes_rgb.2.2.2.2.2.2.2.2.2.2.2.2.2.2.2 pb]
    show some (xyzToRgb s.fromXyz s.tf (Cie.labToXyz _ (Cie.lchToLab (Cie.labToLch (Cie.xyzToLab _ (rgbToXyz s.toXyz s.tf x)))))) = _
    rw [C01Cie.lch_lab_roundtrip, C01Cie.lab_xyz_roundtrip _ _ w0.ne' w1.ne' w2.ne']
  · have := rgb_xyz_rgb_linear row hrow x
    rw [e1, e2] at this; rw [hl]; exact this

end linear

/-! ### the three `Luma` shortcut edges against their detours through `Xyz` -/

theorem routes_luma :
    routeOf LUMA RGB = some [LUMA, RGB] ∧ routeOf LUMA XYZ = some [LUMA, XYZ] ∧ routeOf XYZ RGB = some [XYZ, RGB] ∧
    routeOf LUMA YXY = some [LUMA, YXY] ∧ routeOf XYZ YXY = some [XYZ, YXY] ∧
    routeOf YXY LUMA = some [YXY, LUMA] ∧ routeOf YXY XYZ = some [YXY, XYZ] ∧ routeOf XYZ LUMA = some [XYZ, LUMA] := by
  decide +kernel

theorem find_DciP3 : Gen.Mat.whitePoints.find? (·.1 == "DciP3") = some ("DciP3", [(0.314 : K) / (0.351 : K), (1.0 : K), (0.335 : K) / (0.351 : K)]) := by rfl

theorem scale_row (b0 b1 b2 w0 w1 w2 y ε : ℝ) (h : |b0 * w0 + b1 * w1 + b2 * w2 - 1| ≤ ε) :
    |b0 * (w0 * y) + b1 * (w1 * y) + b2 * (w2 * y) - y| ≤ ε * |y| := by
  have : b0 * (w0 * y) + b1 * (w1 * y) + b2 * (w2 * y) - y = (b0 * w0 + b1 * w1 + b2 * w2 - 1) * y := by ring
  rw [this, abs_mul]; exact mul_le_mul_of_nonneg_right h (abs_nonneg _)

/-- decided on the tables in ℝ: `xyz_to_rgb_matrix · white point` is within `1e-7` of `(1, 1, 1)`, for every RGB space -/
theorem white_back (row : RgbTables.SpaceRow) (hrow : row ∈ Gen.Mat.rgbSpaces) (y : ℝ) :
    Within (1e-7 * |y|)
      ((M3.ofK row.2.2.2.1 : M3 ℝ).mulVec ⟨(Color.whitePoint row.2.1 : V3 ℝ).c0 * y, (Color.whitePoint row.2.1 : V3 ℝ).c1 * y, (Color.whitePoint row.2.1 : V3 ℝ).c2 * y⟩)
      ⟨y, y, y⟩ := by
  simp only [Gen.Mat.rgbSpaces, List.mem_cons, List.mem_nil_iff, or_false] at hrow
  rcases hrow with rfl | rfl | rfl | rfl | rfl | rfl | rfl <;>
    simp only [Within, Color.whitePoint, C02Cie.find_D65, C02Cie.find_D50, find_DciP3, Color.v3OfK, M3.ofK, M3.mulVec, RealScalar.const_eq,
      RealScalar.eval_neg, RealScalar.eval_ofSci, RealScalar.eval_div] <;>
    exact ⟨scale_row _ _ _ _ _ _ _ _ (by norm_num [abs_le]), scale_row _ _ _ _ _ _ _ _ (by norm_num [abs_le]),
      scale_row _ _ _ _ _ _ _ _ (by norm_num [abs_le])⟩

section luma
variable (c : Cfg) (s : Std) (hs : StdOk c s)
include hs

/-- **commutation, shortcut `Yxy → Luma`**: the direct edge and `Yxy → Xyz → Luma` agree exactly, every colour, every standard -/
theorem yxy_luma_commutes (x : V3 ℝ) :
    ∃ d : V3 ℝ, convertAt c YXY LUMA x = some d ∧ via c YXY XYZ LUMA x = some d := by
  refine ⟨yxyToLuma s x, convertAt_of c routes_luma.2.2.2.2.2.1 (runPath_two c (hop_yxy_luma c s hs)) x, ?_⟩
  unfold via
  rw [convertAt_of c routes_luma.2.2.2.2.2.2.1 (runPath_two c (hop_yxy_xyz c)), Option.bind_some,
    convertAt_of c routes_luma.2.2.2.2.2.2.2 (runPath_two c (hop_xyz_luma c s hs))]
  have : (Cie.yxyToXyz x).c1 = x.c2 := by
    unfold Cie.yxyToXyz; simp only; split_ifs <;> norm_num
  simp only [xyzToLuma, yxyToLuma, this]

/-- **commutation, shortcut `Luma → Yxy`**: exact off black (`linear luma ≠ 0`; at black the direct edge keeps the white point's
    chromaticity while `Yxy ← Xyz` of `(0,0,0)` reports `x = y = 0` — the same colour, black) -/
theorem luma_yxy_commutes (hwp : WpOk c) (x : V3 ℝ) (hl : Transfer.intoLinear s.tf x.c0 ≠ 0) :
    ∃ d : V3 ℝ, convertAt c LUMA YXY x = some d ∧ via c LUMA XYZ YXY x = some d := by
  refine ⟨lumaToYxy s x, convertAt_of c routes_luma.2.2.2.1 (runPath_two c (hop_luma_yxy c s hs)) x, ?_⟩
  unfold via
  rw [convertAt_of c routes_luma.2.1 (runPath_two c (hop_luma_xyz c s hs)), Option.bind_some,
    convertAt_of c routes_luma.2.2.2.2.1 (runPath_two c (hop_xyz_yxy c))]
  obtain ⟨w0, w1, w2⟩ := C01WholeCie.wp_pos c hwp
  have hy1 := C01WholeCie.wp_y_one c hwp
  rw [← hs.wp] at w0 w1 w2 hy1
  set l := Transfer.intoLinear s.tf x.c0 with hldef
  set w : V3 ℝ := Color.whitePoint s.wp with hw
  have hsum : w.c0 + w.c1 + w.c2 ≠ 0 := by positivity
  have hsum' : w.c0 * l + w.c1 * l + w.c2 * l ≠ 0 := by
    have : w.c0 * l + w.c1 * l + w.c2 * l = (w.c0 + w.c1 + w.c2) * l := by ring
    rw [this]; exact mul_ne_zero hsum hl
  have e1 : lumaToXyz s x = ⟨w.c0 * l, w.c1 * l, w.c2 * l⟩ := rfl
  have e2 : lumaToYxy s x = ⟨(Cie.xyzToYxy w).c0, (Cie.xyzToYxy w).c1, l⟩ := rfl
  rw [e1, e2, C02Cie.xyzToYxy_of_ne _ hsum', C02Cie.xyzToYxy_of_ne w hsum]
  simp only [hy1]
  refine congrArg some ?_
  congr 1 <;> field_simp

/-- **commutation, shortcut `Luma → Rgb`** in linear light, every RGB space: the direct edge copies the luma into the three
    channels; `Luma → Xyz → Rgb` multiplies it with `xyz_to_rgb_matrix · white point`, within `1e-7·|luma|` of that -/
theorem luma_rgb_commutes (hl : s.tf = .linear) (x : V3 ℝ) :
    ∃ d v : V3 ℝ, convertAt c LUMA RGB x = some d ∧ via c LUMA XYZ RGB x = some v ∧ d = ⟨x.c0, x.c0, x.c0⟩ ∧ Within (1e-7 * |x.c0|) v d := by
  obtain ⟨row, hrow, e0, _, e2⟩ := std_row c.std s hs.of
  refine ⟨lumaToRgb s s x, xyzToRgb s.fromXyz s.tf (lumaToXyz s x),
    convertAt_of c routes_luma.1 (runPath_two c (hop_luma_rgb c s hs)) x, ?_, ?_, ?_⟩
  · unfold via
    rw [convertAt_of c routes_luma.2.1 (runPath_two c (hop_luma_xyz c s hs)), Option.bind_some,
      convertAt_of c routes_luma.2.2.1 (runPath_two c (hop_xyz_rgb c s hs))]
  · unfold lumaToRgb; simp
  · have hd : lumaToRgb s s x = ⟨x.c0, x.c0, x.c0⟩ := by unfold lumaToRgb; simp
    have := white_back row hrow x.c0
    rw [e0, e2] at this
    rw [hd, hl]
    have hv : xyzToRgb s.fromXyz .linear (lumaToXyz s x) =
        (M3.ofK s.fromXyz : M3 ℝ).mulVec ⟨(Color.whitePoint s.wp : V3 ℝ).c0 * x.c0, (Color.whitePoint s.wp : V3 ℝ).c1 * x.c0, (Color.whitePoint s.wp : V3 ℝ).c2 * x.c0⟩ := by
      unfold lumaToXyz; rw [hl]; rfl
    rw [hv]; exact this

end luma

/-! ### non-vacuity: the configurations exist — one linear standard per RGB space that has one, and the harness's `Srgb`/`D65` -/

theorem stdOk_linear :
    (∃ s, StdOk ⟨"D65", "LinSrgb"⟩ s ∧ s.tf = .linear) ∧ (∃ s, StdOk ⟨"D65", "LinAdobeRgb"⟩ s ∧ s.tf = .linear) ∧
    (∃ s, StdOk ⟨"D65", "LinRec2020"⟩ s ∧ s.tf = .linear) ∧ (∃ s, StdOk ⟨"D65", "LinDisplayP3"⟩ s ∧ s.tf = .linear) ∧
    (∃ s, StdOk ⟨"DciP3", "LinDciP3"⟩ s ∧ s.tf = .linear) ∧ (∃ s, StdOk ⟨"D50", "LinProPhotoRgb"⟩ s ∧ s.tf = .linear) :=
  ⟨⟨_, ⟨rfl, rfl, rfl⟩, rfl⟩, ⟨_, ⟨rfl, rfl, rfl⟩, rfl⟩, ⟨_, ⟨rfl, rfl, rfl⟩, rfl⟩, ⟨_, ⟨rfl, rfl, rfl⟩, rfl⟩, ⟨_, ⟨rfl, rfl, rfl⟩, rfl⟩,
    ⟨_, ⟨rfl, rfl, rfl⟩, rfl⟩⟩

theorem stdOk_srgb : ∃ s, StdOk ⟨"D65", "Srgb"⟩ s := ⟨_, ⟨rfl, rfl, rfl⟩⟩

example : (0 : ℝ) < 0.5 ∧ (0.5 : ℝ) ≤ 1 ∧ (0 : ℝ) ≤ 0.2 ∧ (0.2 : ℝ) + 0.3 < 1 := by norm_num
example : DRgbLit ⟨1, 0.5, 0⟩ := by unfold DRgbLit DRgbNonneg; norm_num
example : DRgbUnit ⟨1, 0.5, 0⟩ := by unfold DRgbUnit; norm_num

end C01WholeRgb
