/-
  C05 — the float branch of the 16-bit ProPhoto encoder, `((linear_scale · x + 2²³).to_bits() & 0xffff)`, is monotone on the positive
  patterns below `min_float = 2⁻⁹`: the hypothesis `LinearSegMono` of `prophotoFromLinearU16_mono_of_linear` is proved here from the
  rounding lemmas of `Lemmas/F32Round.lean` (closed forms of the two IEEE roundings `·` and `+` in Lean's kernel-transparent
  `Float32` model), which makes monotonicity of `prophotoFromLinearU16` over **every** f32 bit pattern unconditional.

  For `0 < b < min_float` the code is `lin16 S b = rint (fl (S · x(b)))`: with the exact product scaled by `2¹⁵⁴`,
  `V(b) = mant S · mant b · 2^expo b`, it is `rneDiv (rnd 5 V(b)) 2¹⁵⁴` — one rounding to 24 significant bits on a grid no finer
  than `2⁵` (= 2⁻¹⁴⁹ scaled), one rounding to an integer.  `V` is monotone in `b`, and both roundings are monotone in the value.
  The only facts used about the two generated numbers are kernel evaluations on the `def`s (`scale_facts`, `min_facts`).
-/
import PaletteProofs.C05_LutMono16
import PaletteProofs.Lemmas.F32Round

namespace C05
open Lut F32Round

/-- the scale is a positive finite normal pattern with (biased, shifted) exponent `146 = 300 − 154` -/
theorem scale_facts :
    0 < Gen.Lut.prophotoLinearScaleBits ∧ Gen.Lut.prophotoLinearScaleBits < 0x7f800000 ∧
      2 ^ 23 ≤ C05E.mant Gen.Lut.prophotoLinearScaleBits ∧ C05E.expo Gen.Lut.prophotoLinearScaleBits + 154 = 300 := by
  decide +kernel

/-- the exact product (scaled by `2¹⁵⁴`) at the last pattern below `min_float`, and the code there -/
def linSpec (b : Nat) : Nat :=
  rneDiv (rnd (154 - 149) (C05E.mant Gen.Lut.prophotoLinearScaleBits * C05E.mant b * 2 ^ C05E.expo b)) (2 ^ 154)

theorem min_facts :
    0 < Gen.Lut.prophotoMinFloat ∧ Gen.Lut.prophotoMinFloat ≤ 0x7f800000 ∧
      C05E.mant Gen.Lut.prophotoLinearScaleBits *
          (C05E.mant (Gen.Lut.prophotoMinFloat - 1) * 2 ^ C05E.expo (Gen.Lut.prophotoMinFloat - 1)) < 2 ^ (154 + 22) ∧
      linSpec (Gen.Lut.prophotoMinFloat - 1) < 65536 := by
  decide +kernel

theorem linSpec_mono {b b' : Nat} (h : b ≤ b') : linSpec b ≤ linSpec b' :=
  mul_add_two23_mono _ _ _ h

/-- **closed form of the float branch**: for every positive pattern below `min_float`, `lin16` is the exact product rounded to
    binary32 and then to an integer -/
theorem lin16_eq (b : Nat) (h0 : 0 < b) (h1 : b < Gen.Lut.prophotoMinFloat) :
    lin16 Gen.Lut.prophotoLinearScaleBits b = linSpec b := by
  obtain ⟨hs0, hs1, hS, hK⟩ := scale_facts
  obtain ⟨_, hm1, hVmax, hcmax⟩ := min_facts
  have hV : C05E.mant Gen.Lut.prophotoLinearScaleBits * C05E.mant b * 2 ^ C05E.expo b < 2 ^ (154 + 22) := by
    rw [Nat.mul_assoc]
    exact Nat.lt_of_le_of_lt
      (Nat.mul_le_mul_left _ (weight_mono (b := b) (b' := Gen.Lut.prophotoMinFloat - 1) (by omega))) hVmax
  have hc : linSpec b < 65536 :=
    Nat.lt_of_le_of_lt (linSpec_mono (b := b) (b' := Gen.Lut.prophotoMinFloat - 1) (by omega)) hcmax
  unfold lin16
  rw [mul_add_two23_bits Gen.Lut.prophotoLinearScaleBits b 154 hs0 hs1 h0 (by omega) hS hK (by decide) hV]
  show (0x4b000000 + linSpec b) % 65536 = linSpec b
  omega

/-- **the float branch is monotone** on the positive patterns below `min_float` -/
theorem linearSegMono : LinearSegMono := by
  intro b b' h0 hle hlt
  rw [lin16_eq b h0 (by omega), lin16_eq b' (by omega) hlt]
  exact linSpec_mono hle

/-- **monotone over every f32 bit pattern**, unconditionally: non-NaN `x ≤ y` (IEEE order) implies `code(x) ≤ code(y)` -/
theorem prophotoFromLinearU16_mono (x y : Nat) (hx : notNaN x) (hy : notNaN y) (h : f32le x y) :
    prophotoFromLinearU16 x ≤ prophotoFromLinearU16 y :=
  prophotoFromLinearU16_mono_of_linear linearSegMono x y hx hy h

/-- non-vacuity: 2⁻¹¹ ≤ 2⁻¹⁰ is an admissible pair inside the float branch, and the closed form is not trivial there -/
example : notNaN 0x3a000000 ∧ notNaN 0x3a800000 ∧ f32le 0x3a000000 0x3a800000 ∧
    0 < (0x3a000000 : Nat) ∧ (0x3a800000 : Nat) < Gen.Lut.prophotoMinFloat := by
  refine ⟨?_, ?_, ?_, by decide, by decide +kernel⟩ <;> first | (unfold notNaN; omega) | (unfold f32le; omega)
example : lin16 Gen.Lut.prophotoLinearScaleBits 0x3a000000 = 512 ∧ lin16 Gen.Lut.prophotoLinearScaleBits 0x3a800000 = 1024 ∧
    linSpec 0x3a000000 = 512 ∧ linSpec 0x3a800000 = 1024 := by decide +kernel

end C05
