/-
  C08 — range statements for `Equations` (`blend/equations.rs`): which of the 5 × 10 × 10 colour settings and 5 × 10 × 10 alpha
  settings keep the result in [0, 1] on the property's domain, and which do not (with witnesses).

  Domain: *valid premultiplied* inputs — what `blend_with` feeds the equation when it is called on in-range `Alpha` / opaque
  colours (`premultiply`: `S = cs·αs`, so `0 ≤ S ≤ αs ≤ 1`; the same for the destination).
  By `equations_eq_gl` the statements below about `GL.blendRGB` / `GL.blendA` are statements about the model's evaluator
  `Equations.applyTo`; `equations_color_in_range` / `equations_alpha_in_range` spell that out for whole colours.
  The tables were found by enumeration and are *proved* in both directions: a `true` entry by a positivity certificate
  (products of the six non-negative quantities `S, αs−S, 1−αs, D, αb−D, 1−αb`), a `false` entry by a concrete valid input.
-/
import PaletteProofs.C08_EquationsGL
import Mathlib.Tactic.Linarith
import Mathlib.Tactic.NormNum

namespace C08
open Blend BlendReal

/-- a valid premultiplied component pair with its alphas -/
def ValidPre (S αs D αb : ℝ) : Prop := 0 ≤ S ∧ S ≤ αs ∧ αs ≤ 1 ∧ 0 ≤ D ∧ D ≤ αb ∧ αb ≤ 1

/-- colour, `Add`: the (source, destination) parameter pairs for which `sp·S + dp·D ≤ 1` on all valid premultiplied inputs (61 of 100) -/
def addSafeC : Parameter → Parameter → Bool
  | .one, .zero | .one, .oneMinusSourceColor | .one, .oneMinusSourceAlpha => true
  | .zero, _ => true
  | .sourceColor, .zero | .sourceColor, .oneMinusSourceColor | .sourceColor, .oneMinusSourceAlpha => true
  | .oneMinusSourceColor, .zero | .oneMinusSourceColor, .sourceColor | .oneMinusSourceColor, .oneMinusSourceColor | .oneMinusSourceColor, .oneMinusDestinationColor | .oneMinusSourceColor, .oneMinusSourceAlpha | .oneMinusSourceColor, .oneMinusDestinationAlpha => true
  | .destinationColor, .zero | .destinationColor, .oneMinusSourceColor | .destinationColor, .oneMinusDestinationColor | .destinationColor, .oneMinusSourceAlpha | .destinationColor, .oneMinusDestinationAlpha => true
  | .oneMinusDestinationColor, _ => true
  | .sourceAlpha, .zero | .sourceAlpha, .oneMinusSourceColor | .sourceAlpha, .oneMinusSourceAlpha => true
  | .oneMinusSourceAlpha, .zero | .oneMinusSourceAlpha, .sourceColor | .oneMinusSourceAlpha, .oneMinusSourceColor | .oneMinusSourceAlpha, .oneMinusDestinationColor | .oneMinusSourceAlpha, .sourceAlpha | .oneMinusSourceAlpha, .oneMinusSourceAlpha | .oneMinusSourceAlpha, .oneMinusDestinationAlpha => true
  | .destinationAlpha, .zero | .destinationAlpha, .oneMinusSourceColor | .destinationAlpha, .oneMinusSourceAlpha | .destinationAlpha, .oneMinusDestinationAlpha => true
  | .oneMinusDestinationAlpha, _ => true
  | _, _ => false

/-- colour, `Subtract`: the pairs for which `sp·S − dp·D ≥ 0` (13 of 100: `dp = 0`, or `dp = S` against `sp ∈ {1, D, Ad}`) -/
def subSafeC : Parameter → Parameter → Bool
  | .one, .zero | .one, .sourceColor => true
  | .zero, .zero => true
  | .sourceColor, .zero => true
  | .oneMinusSourceColor, .zero => true
  | .destinationColor, .zero | .destinationColor, .sourceColor => true
  | .oneMinusDestinationColor, .zero => true
  | .sourceAlpha, .zero => true
  | .oneMinusSourceAlpha, .zero => true
  | .destinationAlpha, .zero | .destinationAlpha, .sourceColor => true
  | .oneMinusDestinationAlpha, .zero => true
  | _, _ => false

/-- colour, `ReverseSubtract`: the pairs for which `dp·D − sp·S ≥ 0` (13 of 100, the mirror image) -/
def rsubSafeC : Parameter → Parameter → Bool
  | .zero, _ => true
  | .destinationColor, .one | .destinationColor, .sourceColor | .destinationColor, .sourceAlpha => true
  | _, _ => false

/-- alpha, `Add` (the `…Color` parameters read the alpha) -/
def addSafeA : Parameter → Parameter → Bool
  | .one, .zero | .one, .oneMinusSourceColor | .one, .oneMinusSourceAlpha => true
  | .zero, _ => true
  | .sourceColor, .zero | .sourceColor, .oneMinusSourceColor | .sourceColor, .oneMinusSourceAlpha => true
  | .oneMinusSourceColor, .zero | .oneMinusSourceColor, .sourceColor | .oneMinusSourceColor, .oneMinusSourceColor | .oneMinusSourceColor, .oneMinusDestinationColor | .oneMinusSourceColor, .sourceAlpha | .oneMinusSourceColor, .oneMinusSourceAlpha | .oneMinusSourceColor, .oneMinusDestinationAlpha => true
  | .destinationColor, .zero | .destinationColor, .oneMinusSourceColor | .destinationColor, .oneMinusDestinationColor | .destinationColor, .oneMinusSourceAlpha | .destinationColor, .oneMinusDestinationAlpha => true
  | .oneMinusDestinationColor, _ => true
  | .sourceAlpha, .zero | .sourceAlpha, .oneMinusSourceColor | .sourceAlpha, .oneMinusSourceAlpha => true
  | .oneMinusSourceAlpha, .zero | .oneMinusSourceAlpha, .sourceColor | .oneMinusSourceAlpha, .oneMinusSourceColor | .oneMinusSourceAlpha, .oneMinusDestinationColor | .oneMinusSourceAlpha, .sourceAlpha | .oneMinusSourceAlpha, .oneMinusSourceAlpha | .oneMinusSourceAlpha, .oneMinusDestinationAlpha => true
  | .destinationAlpha, .zero | .destinationAlpha, .oneMinusSourceColor | .destinationAlpha, .oneMinusDestinationColor | .destinationAlpha, .oneMinusSourceAlpha | .destinationAlpha, .oneMinusDestinationAlpha => true
  | .oneMinusDestinationAlpha, _ => true
  | _, _ => false

/-- alpha, `Subtract` -/
def subSafeA : Parameter → Parameter → Bool
  | .one, .zero | .one, .sourceColor | .one, .sourceAlpha => true
  | .zero, .zero => true
  | .sourceColor, .zero => true
  | .oneMinusSourceColor, .zero => true
  | .destinationColor, .zero | .destinationColor, .sourceColor | .destinationColor, .sourceAlpha => true
  | .oneMinusDestinationColor, .zero => true
  | .sourceAlpha, .zero => true
  | .oneMinusSourceAlpha, .zero => true
  | .destinationAlpha, .zero | .destinationAlpha, .sourceColor | .destinationAlpha, .sourceAlpha => true
  | .oneMinusDestinationAlpha, .zero => true
  | _, _ => false

/-- alpha, `ReverseSubtract` -/
def rsubSafeA : Parameter → Parameter → Bool
  | .zero, _ => true
  | .destinationColor, .one | .destinationColor, .sourceColor | .destinationColor, .sourceAlpha => true
  | .destinationAlpha, .one | .destinationAlpha, .sourceColor | .destinationAlpha, .sourceAlpha => true
  | _, _ => false

/-- **the table**: does this colour setting keep every component in [0, 1]?  `Min` / `Max` ignore the parameters. -/
def colorInRange : Equation → Parameter → Parameter → Bool
  | .min, _, _ | .max, _, _ => true
  | .add, ps, pd => addSafeC ps pd
  | .subtract, ps, pd => subSafeC ps pd
  | .reverseSubtract, ps, pd => rsubSafeC ps pd

/-- the same for the alpha -/
def alphaInRange : Equation → Parameter → Parameter → Bool
  | .min, _, _ | .max, _, _ => true
  | .add, ps, pd => addSafeA ps pd
  | .subtract, ps, pd => subSafeA ps pd
  | .reverseSubtract, ps, pd => rsubSafeA ps pd

/-- `ReverseSubtract` is `Subtract` with the layers exchanged: the two tables are mirror images -/
def mirrorParam : Parameter → Parameter
  | .one => .one | .zero => .zero | .sourceColor => .destinationColor | .oneMinusSourceColor => .oneMinusDestinationColor
  | .destinationColor => .sourceColor | .oneMinusDestinationColor => .oneMinusSourceColor
  | .sourceAlpha => .destinationAlpha | .oneMinusSourceAlpha => .oneMinusDestinationAlpha
  | .destinationAlpha => .sourceAlpha | .oneMinusDestinationAlpha => .oneMinusSourceAlpha

theorem rsub_table_is_mirror (ps pd : Parameter) :
    rsubSafeC ps pd = subSafeC (mirrorParam pd) (mirrorParam ps) ∧ rsubSafeA ps pd = subSafeA (mirrorParam pd) (mirrorParam ps) := by
  cases ps <;> cases pd <;> exact ⟨rfl, rfl⟩

/-- how many settings are safe: 61 + 13 + 13 of 3 × 100 for the colour (plus all 200 `Min`/`Max` settings), 63 + 16 + 16 for the alpha -/
theorem table_counts :
    let ps := [Parameter.one, .zero, .sourceColor, .oneMinusSourceColor, .destinationColor, .oneMinusDestinationColor,
      .sourceAlpha, .oneMinusSourceAlpha, .destinationAlpha, .oneMinusDestinationAlpha]
    let count (f : Parameter → Parameter → Bool) := (ps.map fun a => (ps.filter fun b => f a b).length).sum
    (count addSafeC, count subSafeC, count rsubSafeC, count addSafeA, count subSafeA, count rsubSafeA) = (61, 13, 13, 63, 16, 16) := by
  decide

/-! ## `true` entries: the result stays in [0, 1] -/

theorem color_in_range (q : Equation) (ps pd : Parameter) (h : colorInRange q ps pd = true) {S αs D αb : ℝ}
    (v : ValidPre S αs D αb) :
    0 ≤ GL.blendRGB (glFunc q) (glFactor ps) (glFactor pd) S αs D αb ∧
    GL.blendRGB (glFunc q) (glFactor ps) (glFactor pd) S αs D αb ≤ 1 := by
  obtain ⟨a1, a2', a3', b1, b2', b3'⟩ := v
  have a2 : 0 ≤ αs - S := by linarith
  have a3 : 0 ≤ 1 - αs := by linarith
  have b2 : 0 ≤ αb - D := by linarith
  have b3 : 0 ≤ 1 - αb := by linarith
  cases q
  case min => simp only [GL.blendRGB, glFunc, GL.Func.eval]; exact ⟨le_min a1 b1, le_trans (min_le_left _ _) (by linarith)⟩
  case max => simp only [GL.blendRGB, glFunc, GL.Func.eval]; exact ⟨le_trans a1 (le_max_left _ _), max_le (by linarith) (by linarith)⟩
  all_goals
    have p11 := mul_nonneg a1 a1; have p12 := mul_nonneg a1 a2; have p13 := mul_nonneg a1 a3
    have p22 := mul_nonneg a2 a2; have p23 := mul_nonneg a2 a3; have p33 := mul_nonneg a3 a3
    have q11 := mul_nonneg b1 b1; have q12 := mul_nonneg b1 b2; have q13 := mul_nonneg b1 b3
    have q22 := mul_nonneg b2 b2; have q23 := mul_nonneg b2 b3; have q33 := mul_nonneg b3 b3
    have r11 := mul_nonneg a1 b1; have r12 := mul_nonneg a1 b2; have r13 := mul_nonneg a1 b3
    have r21 := mul_nonneg a2 b1; have r22 := mul_nonneg a2 b2; have r23 := mul_nonneg a2 b3
    have r31 := mul_nonneg a3 b1; have r32 := mul_nonneg a3 b2; have r33 := mul_nonneg a3 b3
    cases ps <;> cases pd <;>
      first
      | exact absurd h (by decide)
      | (simp only [GL.blendRGB, glFunc, glFactor, GL.Func.eval, GL.Factor.rgb]; constructor <;> linarith)

theorem alpha_in_range (q : Equation) (ps pd : Parameter) (h : alphaInRange q ps pd = true) {αs αb : ℝ}
    (a1 : 0 ≤ αs) (a2' : αs ≤ 1) (b1 : 0 ≤ αb) (b2' : αb ≤ 1) :
    0 ≤ GL.blendA (glFunc q) (glFactor ps) (glFactor pd) αs αb ∧ GL.blendA (glFunc q) (glFactor ps) (glFactor pd) αs αb ≤ 1 := by
  have a2 : 0 ≤ 1 - αs := by linarith
  have b2 : 0 ≤ 1 - αb := by linarith
  cases q
  case min => simp only [GL.blendA, glFunc, GL.Func.eval]; exact ⟨le_min a1 b1, le_trans (min_le_left _ _) a2'⟩
  case max => simp only [GL.blendA, glFunc, GL.Func.eval]; exact ⟨le_trans a1 (le_max_left _ _), max_le a2' b2'⟩
  all_goals
    have p11 := mul_nonneg a1 a1; have p12 := mul_nonneg a1 a2; have p22 := mul_nonneg a2 a2
    have q11 := mul_nonneg b1 b1; have q12 := mul_nonneg b1 b2; have q22 := mul_nonneg b2 b2
    have r11 := mul_nonneg a1 b1; have r12 := mul_nonneg a1 b2; have r21 := mul_nonneg a2 b1; have r22 := mul_nonneg a2 b2
    cases ps <;> cases pd <;>
      first
      | exact absurd h (by decide)
      | (simp only [GL.blendA, glFunc, glFactor, GL.Func.eval, GL.Factor.alpha]; constructor <;> linarith)

/-! ## `false` entries: a valid input whose result leaves [0, 1] (five inputs suffice for all 213 colour settings, five for all
  205 alpha settings) -/

set_option linter.unusedTactic false in
theorem color_out_of_range (q : Equation) (ps pd : Parameter) (h : colorInRange q ps pd = false) :
    ∃ S αs D αb : ℝ, ValidPre S αs D αb ∧
      (GL.blendRGB (glFunc q) (glFactor ps) (glFactor pd) S αs D αb < 0 ∨
       1 < GL.blendRGB (glFunc q) (glFactor ps) (glFactor pd) S αs D αb) := by
  cases q <;> cases ps <;> cases pd <;>
    first
      | exact absurd h (by decide)
      | (refine ⟨3/4, 3/4, 7/8, 1, by unfold ValidPre; norm_num, ?_⟩; simp only [GL.blendRGB, glFunc, glFactor, GL.Func.eval, GL.Factor.rgb]; norm_num; done)
      | (refine ⟨1/4, 1/4, 1/8, 1/8, by unfold ValidPre; norm_num, ?_⟩; simp only [GL.blendRGB, glFunc, glFactor, GL.Func.eval, GL.Factor.rgb]; norm_num; done)
      | (refine ⟨1, 1, 1/2, 7/8, by unfold ValidPre; norm_num, ?_⟩; simp only [GL.blendRGB, glFunc, glFactor, GL.Func.eval, GL.Factor.rgb]; norm_num; done)
      | (refine ⟨0, 1/2, 1/2, 1/2, by unfold ValidPre; norm_num, ?_⟩; simp only [GL.blendRGB, glFunc, glFactor, GL.Func.eval, GL.Factor.rgb]; norm_num; done)
      | (refine ⟨1/2, 7/8, 1, 1, by unfold ValidPre; norm_num, ?_⟩; simp only [GL.blendRGB, glFunc, glFactor, GL.Func.eval, GL.Factor.rgb]; norm_num; done)

set_option linter.unusedTactic false in
theorem alpha_out_of_range (q : Equation) (ps pd : Parameter) (h : alphaInRange q ps pd = false) :
    ∃ αs αb : ℝ, (0 ≤ αs ∧ αs ≤ 1 ∧ 0 ≤ αb ∧ αb ≤ 1) ∧
      (GL.blendA (glFunc q) (glFactor ps) (glFactor pd) αs αb < 0 ∨ 1 < GL.blendA (glFunc q) (glFactor ps) (glFactor pd) αs αb) := by
  cases q <;> cases ps <;> cases pd <;>
    first
      | exact absurd h (by decide)
      | (refine ⟨3/4, 7/8, by norm_num, ?_⟩; simp only [GL.blendA, glFunc, glFactor, GL.Func.eval, GL.Factor.alpha]; norm_num; done)
      | (refine ⟨1/4, 1/8, by norm_num, ?_⟩; simp only [GL.blendA, glFunc, glFactor, GL.Func.eval, GL.Factor.alpha]; norm_num; done)
      | (refine ⟨1, 1/2, by norm_num, ?_⟩; simp only [GL.blendA, glFunc, glFactor, GL.Func.eval, GL.Factor.alpha]; norm_num; done)
      | (refine ⟨1/4, 1, by norm_num, ?_⟩; simp only [GL.blendA, glFunc, glFactor, GL.Func.eval, GL.Factor.alpha]; norm_num; done)
      | (refine ⟨0, 1/2, by norm_num, ?_⟩; simp only [GL.blendA, glFunc, glFactor, GL.Func.eval, GL.Factor.alpha]; norm_num; done)

/-! ## the classification, both directions at once -/

/-- **a colour setting keeps every valid premultiplied input in [0, 1] exactly when the table says so** -/
theorem color_in_range_iff (q : Equation) (ps pd : Parameter) :
    colorInRange q ps pd = true ↔ ∀ S αs D αb : ℝ, ValidPre S αs D αb →
      0 ≤ GL.blendRGB (glFunc q) (glFactor ps) (glFactor pd) S αs D αb ∧
      GL.blendRGB (glFunc q) (glFactor ps) (glFactor pd) S αs D αb ≤ 1 := by
  constructor
  · intro h S αs D αb v; exact color_in_range q ps pd h v
  · intro H
    by_contra hne
    obtain ⟨S, αs, D, αb, v, hv⟩ := color_out_of_range q ps pd (by simpa using hne)
    obtain ⟨h0, h1⟩ := H S αs D αb v
    rcases hv with hv | hv <;> linarith

theorem alpha_in_range_iff (q : Equation) (ps pd : Parameter) :
    alphaInRange q ps pd = true ↔ ∀ αs αb : ℝ, 0 ≤ αs → αs ≤ 1 → 0 ≤ αb → αb ≤ 1 →
      0 ≤ GL.blendA (glFunc q) (glFactor ps) (glFactor pd) αs αb ∧ GL.blendA (glFunc q) (glFactor ps) (glFactor pd) αs αb ≤ 1 := by
  constructor
  · intro h αs αb a1 a2 b1 b2; exact alpha_in_range q ps pd h a1 a2 b1 b2
  · intro H
    by_contra hne
    obtain ⟨αs, αb, ⟨a1, a2, b1, b2⟩, hv⟩ := alpha_out_of_range q ps pd (by simpa using hne)
    obtain ⟨h0, h1⟩ := H αs αb a1 a2 b1 b2
    rcases hv with hv | hv <;> linarith

/-! ## on the model's evaluator, whole colours -/

/-- **`Equations::apply_to` on valid premultiplied colours: every component and the alpha stay in [0, 1] when the tables say so**
    (`s`, `d` the premultiplied component lists; `hs`, `hd`: each component is between 0 and its alpha) -/
theorem equations_in_range (e : Equations) (hc : colorInRange e.colorEquation e.colorSource e.colorDestination = true)
    (ha : alphaInRange e.alphaEquation e.alphaSource e.alphaDestination = true)
    (s d : List ℝ) {αs αb : ℝ} (hs : ∀ x ∈ s, 0 ≤ x ∧ x ≤ αs) (hd : ∀ x ∈ d, 0 ≤ x ∧ x ≤ αb)
    (a1 : 0 ≤ αs) (a2 : αs ≤ 1) (b1 : 0 ≤ αb) (b2 : αb ≤ 1) :
    (∀ x ∈ (e.applyTo (s, αs) (d, αb)).1, 0 ≤ x ∧ x ≤ 1) ∧
    0 ≤ (e.applyTo (s, αs) (d, αb)).2 ∧ (e.applyTo (s, αs) (d, αb)).2 ≤ 1 := by
  rw [equations_eq_gl]
  refine ⟨?_, alpha_in_range _ _ _ ha a1 a2 b1 b2⟩
  simp only []
  intro x hx
  obtain ⟨i, hi, rfl⟩ := List.getElem_of_mem hx
  simp only [List.getElem_zipWith]
  have hi' : i < s.length ∧ i < d.length := by simpa [List.length_zipWith] using hi
  have h1 := hs s[i] (List.getElem_mem hi'.1)
  have h2 := hd d[i] (List.getElem_mem hi'.2)
  exact color_in_range _ _ _ hc ⟨h1.1, h1.2, a2, h2.1, h2.2, b2⟩

/-- non-vacuity of `color_in_range` / `equations_in_range`: `Subtract` with `(DestinationAlpha, SourceColor)` on a valid input -/
example : 0 ≤ GL.blendRGB (glFunc .subtract) (glFactor .destinationAlpha) (glFactor .sourceColor) (1/4) (1/2) (1/2) (3/4) :=
  (color_in_range .subtract .destinationAlpha .sourceColor (by decide) (by unfold ValidPre; norm_num)).1
example : ∀ x ∈ ((Equations.mk .add .max .oneMinusSourceAlpha .sourceAlpha .zero .one).applyTo ([1/4, 1/2], (1/2 : ℝ)) ([3/4, 1/8], 3/4)).1,
    0 ≤ x ∧ x ≤ 1 :=
  (equations_in_range _ (by decide) (by decide) _ _
    (by intro x hx; simp at hx; rcases hx with rfl | rfl <;> norm_num) (by intro x hx; simp at hx; rcases hx with rfl | rfl <;> norm_num)
    (by norm_num) (by norm_num) (by norm_num) (by norm_num)).1

/-- non-vacuity: the documented example `Equations::from_parameters(SourceAlpha, OneMinusSourceAlpha)` is a `true` entry of both
    tables, `from_parameters(One, One)` (= `plus`) is a `false` one, with the witness `3/4 + 7/8 > 1` -/
example : colorInRange .add .sourceAlpha .oneMinusSourceAlpha = true ∧ alphaInRange .add .sourceAlpha .oneMinusSourceAlpha = true ∧
    colorInRange .add .one .one = false := by decide
example : GL.blendRGB (glFunc .add) (glFactor .one) (glFactor .one) (3/4) (3/4) (7/8) 1 = 13/8 := by
  simp only [GL.blendRGB, glFunc, glFactor, GL.Func.eval, GL.Factor.rgb]; norm_num

end C08
