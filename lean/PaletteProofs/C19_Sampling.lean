/-
  C19 — random colour sampling respects the requested range and volume.

  Everything here is about `PaletteModel/Sampling.lean` read at ℝ (`PaletteProofs/Real.lean`: `cbrt` is the real odd cube root,
  `sqrt = Real.sqrt`, `floor = Int.floor`).  rand's primitives are parameters of the model: a draw of
  `Uniform::new(a, b)` is *any* `d` with `a ≤ d < b`, of `new_inclusive` any `d` with `a ≤ d ≤ b`, of `rng.gen::<T>()` any
  `g` with `0 ≤ g < 1`.  The theorems quantify over all such draws ("for every admissible draw").

  The measure-theoretic pushforward (uniform draws pushed through the sampler ARE the normalised volume measure of the solid, full 3-D
  statement) is proved in `C19_Pushforward.lean` / `C19_PushforwardStd.lean`.  This file proves containment and the 1-D content: the
  volume/area fractions are `v³`, `s²` and the two-piece bicone cubic (interval integrals), and the samplers are exactly the inverses
  of these CDFs.
-/
import PaletteProofs.Real
import PaletteModel.Sampling
import Mathlib.Tactic.Linarith
import Mathlib.Tactic.NormNum
import Mathlib.Tactic.Positivity
import Mathlib.Analysis.SpecialFunctions.Pow.Real
import Mathlib.Analysis.SpecialFunctions.Integrals.Basic

namespace C19
open Sampling Gen.Sampling

/-! ## the real cube root and square root -/

theorem cbrt_of_nonneg {x : ℝ} (h : 0 ≤ x) : Scalar.cbrt x = x ^ ((1:ℝ)/3) := if_pos h
theorem cbrt_of_neg {x : ℝ} (h : ¬ 0 ≤ x) : Scalar.cbrt x = -((-x) ^ ((1:ℝ)/3)) := if_neg h

theorem rpow_third_cube {y : ℝ} (h : 0 ≤ y) : (y ^ ((1:ℝ)/3)) ^ 3 = y := by
  rw [← Real.rpow_natCast, ← Real.rpow_mul h]; norm_num

/-- `cbrt` is the inverse of cubing on all of ℝ -/
theorem cbrt_cube (x : ℝ) : (Scalar.cbrt x) ^ 3 = x := by
  by_cases h : 0 ≤ x
  · rw [cbrt_of_nonneg h, rpow_third_cube h]
  · rw [cbrt_of_neg h]
    have h' : 0 ≤ -x := by linarith [not_le.mp h]
    have e : (-((-x) ^ ((1:ℝ)/3))) ^ 3 = -(((-x) ^ ((1:ℝ)/3)) ^ 3) := by ring
    rw [e, rpow_third_cube h']; ring

theorem cube_strictMono : StrictMono (fun t : ℝ => t ^ 3) := Odd.strictMono_pow ⟨1, by norm_num⟩
theorem cube_le_cube {a b : ℝ} : a ^ 3 ≤ b ^ 3 ↔ a ≤ b := cube_strictMono.le_iff_le
theorem cube_lt_cube {a b : ℝ} : a ^ 3 < b ^ 3 ↔ a < b := cube_strictMono.lt_iff_lt

theorem le_cbrt_iff (v d : ℝ) : v ≤ Scalar.cbrt d ↔ v ^ 3 ≤ d := by
  rw [← cube_le_cube, cbrt_cube]
theorem cbrt_le_iff (v d : ℝ) : Scalar.cbrt d ≤ v ↔ d ≤ v ^ 3 := by
  rw [← cube_le_cube, cbrt_cube]
theorem cbrt_lt_iff (v d : ℝ) : Scalar.cbrt d < v ↔ d < v ^ 3 := by
  rw [← cube_lt_cube, cbrt_cube]
theorem lt_cbrt_iff (v d : ℝ) : v < Scalar.cbrt d ↔ v ^ 3 < d := by
  rw [← cube_lt_cube, cbrt_cube]

theorem powi3_eq (v : ℝ) : powi3 v = v ^ 3 := by unfold powi3; ring
theorem powi2_eq (v : ℝ) : powi2 v = v ^ 2 := by unfold powi2; ring

/-- `cbrt (v³) = v` for every real `v` -/
theorem cbrt_powi3 (v : ℝ) : Scalar.cbrt (powi3 v) = v := by
  apply le_antisymm
  · rw [cbrt_le_iff, powi3_eq]
  · rw [le_cbrt_iff, powi3_eq]

theorem sqrt_powi2 {s : ℝ} (h : 0 ≤ s) : Scalar.sqrt (powi2 s) = s := by
  rw [powi2_eq]; exact Real.sqrt_sq h

/-! ## [C] containment: cone and disc coordinates -/

/-- HSV cone height: a draw between the cubes of the two values gives a value between them (every real end) -/
theorem cone_height_contained {vLo vHi d : ℝ} (h1 : powi3 vLo ≤ d) (h2 : d ≤ powi3 vHi) :
    vLo ≤ (sampleHsv d 0).1 ∧ (sampleHsv d 0).1 ≤ vHi := by
  rw [powi3_eq] at h1 h2
  exact ⟨(le_cbrt_iff _ _).mpr h1, (cbrt_le_iff _ _).mpr h2⟩

/-- half-open sampler: strictly below the high end -/
theorem cone_height_lt {vHi d : ℝ} (h2 : d < powi3 vHi) : Scalar.cbrt d < vHi := by
  rw [powi3_eq] at h2; exact (cbrt_lt_iff _ _).mpr h2

/-- disc radius (HSV/HSL saturation, cylinder chroma/colorfulness): a draw between the squares of the two radii gives a radius
    between them, for a non-negative high end (a valid colour) and any low end -/
theorem radius_contained {rLo rHi d : ℝ} (hhi : 0 ≤ rHi) (h1 : powi2 rLo ≤ d) (h2 : d ≤ powi2 rHi) :
    rLo ≤ Scalar.sqrt d ∧ Scalar.sqrt d ≤ rHi := by
  rw [powi2_eq] at h1 h2
  constructor
  · exact le_trans (le_abs_self _) (Real.abs_le_sqrt h1)
  · show Real.sqrt d ≤ rHi
    rw [Real.sqrt_le_left hhi] at *
    exact h2

theorem radius_lt {rHi d : ℝ} (hhi : 0 ≤ rHi) (h0 : 0 ≤ d) (h2 : d < powi2 rHi) : Scalar.sqrt d < rHi := by
  rw [powi2_eq] at h2
  have hpos : 0 < rHi := by
    rcases hhi.lt_or_eq with h | h
    · exact h
    · rw [← h] at h2; norm_num at h2; linarith
  show Real.sqrt d < rHi
  exact (Real.sqrt_lt' hpos).mpr h2

/-! ## the bicone: `invertBiconeHeight` is the CDF, `biconeHeight` its inverse -/

theorem invertBicone_lo {h : ℝ} (hh : h ≤ 0.5) : invertBiconeHeight h = powi3 h * 4.0 := by
  unfold invertBiconeHeight; exact if_pos hh
theorem invertBicone_hi {h : ℝ} (hh : ¬ h ≤ 0.5) : invertBiconeHeight h = powi3 (h - 1.0) * 4.0 + 1.0 := by
  unfold invertBiconeHeight; exact if_neg hh
theorem biconeHeight_lo {r : ℝ} (hr : r ≤ 0.5) : biconeHeight r = Scalar.cbrt (r * 2.0) * 0.5 := by
  unfold biconeHeight; simp only [if_pos hr]
theorem biconeHeight_hi {r : ℝ} (hr : ¬ r ≤ 0.5) : biconeHeight r = 1.0 - Scalar.cbrt ((1.0 - r) * 2.0) * 0.5 := by
  unfold biconeHeight; simp only [if_neg hr]

/-- the bicone height sampler is a right inverse of the bicone CDF, for every real argument -/
theorem invert_biconeHeight (r : ℝ) : invertBiconeHeight (biconeHeight r) = r := by
  by_cases hr : r ≤ 0.5
  · rw [biconeHeight_lo hr]
    have c := cbrt_cube (r * 2.0)
    have hle : Scalar.cbrt (r * 2.0) * 0.5 ≤ (0.5:ℝ) := by
      have : Scalar.cbrt (r * 2.0) ≤ 1 := by rw [cbrt_le_iff]; norm_num at hr ⊢; linarith
      norm_num; linarith
    rw [invertBicone_lo hle, powi3_eq]
    have e : (Scalar.cbrt (r * 2.0) * 0.5) ^ 3 * 4.0 = (Scalar.cbrt (r * 2.0)) ^ 3 * (1/2) := by norm_num; ring
    rw [e, c]; norm_num; ring
  · rw [biconeHeight_hi hr]
    have c := cbrt_cube ((1.0 - r) * 2.0)
    have hlt : Scalar.cbrt ((1.0 - r) * 2.0) < 1 := by rw [cbrt_lt_iff]; norm_num at hr ⊢; linarith
    have hnle : ¬ ((1.0:ℝ) - Scalar.cbrt ((1.0 - r) * 2.0) * 0.5 ≤ 0.5) := by norm_num; linarith
    rw [invertBicone_hi hnle, powi3_eq]
    have e : ((1.0:ℝ) - Scalar.cbrt ((1.0 - r) * 2.0) * 0.5 - 1.0) ^ 3 * 4.0 + 1.0
        = 1 - (Scalar.cbrt ((1.0 - r) * 2.0)) ^ 3 * (1/2) := by norm_num; ring
    rw [e, c]; norm_num; ring

/-- the bicone CDF is strictly increasing on all of ℝ (two cubics that meet at the waist with value 1/2) -/
theorem invertBicone_strictMono : StrictMono (invertBiconeHeight : ℝ → ℝ) := by
  intro a b hab
  by_cases ha : a ≤ 0.5 <;> by_cases hb : b ≤ 0.5
  · rw [invertBicone_lo ha, invertBicone_lo hb, powi3_eq, powi3_eq]
    have := cube_lt_cube.mpr hab
    norm_num; linarith
  · rw [invertBicone_lo ha, invertBicone_hi hb, powi3_eq, powi3_eq]
    have h1 : a ^ 3 ≤ (1/2:ℝ) ^ 3 := cube_le_cube.mpr (by norm_num at ha; linarith)
    have h2 : (-(1/2):ℝ) ^ 3 < (b - 1.0) ^ 3 := cube_lt_cube.mpr (by norm_num at hb ⊢; linarith)
    norm_num at h1 h2 ⊢; linarith
  · exact absurd (le_trans hab.le hb) ha
  · rw [invertBicone_hi ha, invertBicone_hi hb, powi3_eq, powi3_eq]
    have : (a - 1.0) ^ 3 < (b - 1.0) ^ 3 := cube_lt_cube.mpr (by linarith)
    norm_num at this ⊢; linarith

/-- and a left inverse: `biconeHeight (CDF h) = h` -/
theorem biconeHeight_invert (h : ℝ) : biconeHeight (invertBiconeHeight h) = h :=
  invertBicone_strictMono.injective (invert_biconeHeight _)

/-- [C] containment, bicone height: a draw between the CDF values of the two lightness ends gives a lightness between them -/
theorem bicone_height_contained {lLo lHi d : ℝ} (h1 : invertBiconeHeight lLo ≤ d) (h2 : d ≤ invertBiconeHeight lHi) :
    lLo ≤ biconeHeight d ∧ biconeHeight d ≤ lHi := by
  have e := invert_biconeHeight d
  exact ⟨invertBicone_strictMono.le_iff_le.mp (by rw [e]; exact h1), invertBicone_strictMono.le_iff_le.mp (by rw [e]; exact h2)⟩

theorem bicone_height_lt {lHi d : ℝ} (h2 : d < invertBiconeHeight lHi) : biconeHeight d < lHi :=
  invertBicone_strictMono.lt_iff_lt.mp (by rw [invert_biconeHeight]; exact h2)

/-! ## [C] hue arc -/

theorem fullRotation_eq : (fullRotation : ℝ) = 360 := by unfold fullRotation; norm_num

theorem normalize_eq (x : ℝ) : normalizeUnsigned x = x - (⌊x / 360⌋ : ℝ) * 360 := by
  unfold normalizeUnsigned
  show x - ((⌊x / 360.0⌋ : ℤ) : ℝ) * 360.0 = _
  norm_num

/-- `into_positive_degrees`: congruent to the argument, in `[0, 360)` -/
theorem normalize_spec (x : ℝ) : ∃ k : ℤ, normalizeUnsigned x = x - 360 * k ∧ 0 ≤ normalizeUnsigned x ∧ normalizeUnsigned x < 360 := by
  refine ⟨⌊x / 360⌋, ?_, ?_, ?_⟩
  · rw [normalize_eq]; ring
  · rw [normalize_eq]
    have := Int.floor_le (x / 360)
    have h : (⌊x / 360⌋ : ℝ) * 360 ≤ x := by
      have := mul_le_mul_of_nonneg_right this (by norm_num : (0:ℝ) ≤ 360)
      linarith [div_mul_cancel₀ x (by norm_num : (360:ℝ) ≠ 0)]
    linarith
  · rw [normalize_eq]
    have := Int.lt_floor_add_one (x / 360)
    have h : x < ((⌊x / 360⌋ : ℝ) + 1) * 360 := by
      have := mul_lt_mul_of_pos_right this (by norm_num : (0:ℝ) < 360)
      linarith [div_mul_cancel₀ x (by norm_num : (360:ℝ) ≠ 0)]
    linarith

theorem normalize_of_mem {x : ℝ} (h0 : 0 ≤ x) (h1 : x < 360) : normalizeUnsigned x = x := by
  rw [normalize_eq]
  have : ⌊x / 360⌋ = 0 := by
    rw [Int.floor_eq_zero_iff]; constructor
    · positivity
    · rw [div_lt_one (by norm_num)]; exact h1
  rw [this]; norm_num

theorem hueEnds_lo (lo hi : ℝ) : (hueEnds lo hi).lo = normalizeUnsigned lo := rfl
theorem hueEnds_hi_wrap {lo hi : ℝ} (h : normalizeUnsigned hi ≤ normalizeUnsigned lo ∧ lo < hi) :
    (hueEnds lo hi).hi = normalizeUnsigned hi + 360 := by
  unfold hueEnds; simp only [if_pos h, fullRotation_eq]
theorem hueEnds_hi_plain {lo hi : ℝ} (h : ¬ (normalizeUnsigned hi ≤ normalizeUnsigned lo ∧ lo < hi)) :
    (hueEnds lo hi).hi = normalizeUnsigned hi := by
  unfold hueEnds; simp only [if_neg h]

/-- The interval handed to rand, for raw ends `lo ≤ hi` (rand's own contract on the raw degrees):
    its length ("span") is congruent to `hi - lo` modulo 360, lies in `[0, 360]`, is positive when `lo < hi` — so the half-open
    constructor's precondition holds and nothing panics, and a difference of a positive multiple of 360 gives the whole circle,
    not the empty arc — and is 0 when the ends are equal. -/
theorem hue_span (lo hi : ℝ) (hle : lo ≤ hi) :
    0 ≤ (hueEnds lo hi).hi - (hueEnds lo hi).lo ∧ (hueEnds lo hi).hi - (hueEnds lo hi).lo ≤ 360 ∧
    (∃ m : ℤ, (hueEnds lo hi).hi - (hueEnds lo hi).lo = (hi - lo) - 360 * m) ∧
    (lo < hi → 0 < (hueEnds lo hi).hi - (hueEnds lo hi).lo) ∧ (lo = hi → (hueEnds lo hi).hi - (hueEnds lo hi).lo = 0) := by
  obtain ⟨a, ea, a0, a1⟩ := normalize_spec lo
  obtain ⟨b, eb, b0, b1⟩ := normalize_spec hi
  rw [hueEnds_lo]
  by_cases h : normalizeUnsigned hi ≤ normalizeUnsigned lo ∧ lo < hi
  · rw [hueEnds_hi_wrap h]
    refine ⟨by linarith [h.1], by linarith [h.1], ⟨b - a - 1, ?_⟩, fun _ => by linarith [h.1], fun e => absurd h.2 (by rw [e]; exact lt_irrefl _)⟩
    rw [ea, eb]; push_cast; ring
  · rw [hueEnds_hi_plain h]
    have hcases : normalizeUnsigned lo < normalizeUnsigned hi ∨ lo = hi := by
      by_contra hc
      rw [not_or] at hc
      exact h ⟨not_lt.mp hc.1, lt_of_le_of_ne hle hc.2⟩
    refine ⟨?_, by linarith, ⟨b - a, by rw [ea, eb]; push_cast; ring⟩, ?_, ?_⟩
    · rcases hcases with h' | h'
      · linarith
      · rw [h']
        linarith
    · intro hlt
      rcases hcases with h' | h'
      · linarith
      · exact absurd hlt (by rw [h']; exact lt_irrefl _)
    · intro e; rw [e]; ring

/-- `h` is congruent (mod 360) to a point of the arc that starts at hue `lo` and runs upwards by `span` degrees -/
def OnArc (lo span h : ℝ) : Prop := ∃ (t : ℝ) (k : ℤ), 0 ≤ t ∧ t ≤ span ∧ h = lo + t + 360 * k

/-- **[C] hue arc.**  For every admissible draw of the (repaired) hue sampler, the sampled hue is congruent to a point of the arc
    from the low hue to the high hue — arcs through 0°, any representatives of the angles, whole circles and equal ends
    included (`hue_span` says which arc this is). -/
theorem hue_on_arc (lo hi d : ℝ) (h1 : (hueEnds lo hi).lo ≤ d) (h2 : d ≤ (hueEnds lo hi).hi) :
    OnArc lo ((hueEnds lo hi).hi - (hueEnds lo hi).lo) (hueSample d) := by
  obtain ⟨a, ea, _, _⟩ := normalize_spec lo
  refine ⟨d - (hueEnds lo hi).lo, -a, by linarith, by linarith, ?_⟩
  rw [hueEnds_lo, ea]; unfold hueSample; push_cast; ring

/-- non-vacuity and a concrete instance: the arc 350° → 370° through 0° is handed to rand as `[350, 370]` -/
example : (hueEnds (350:ℝ) 370).lo = 350 ∧ (hueEnds (350:ℝ) 370).hi = 370 := by
  have e1 : normalizeUnsigned (350:ℝ) = 350 := normalize_of_mem (by norm_num) (by norm_num)
  have e2 : normalizeUnsigned (370:ℝ) = 10 := by
    rw [normalize_eq]
    have : ⌊(370:ℝ) / 360⌋ = 1 := by rw [Int.floor_eq_iff]; norm_num
    rw [this]; norm_num
  constructor
  · rw [hueEnds_lo, e1]
  · rw [hueEnds_hi_wrap (by rw [e1, e2]; norm_num), e2]; norm_num

theorem hueEnds_10_20 : (hueEnds (10:ℝ) 20).lo = 10 ∧ (hueEnds (10:ℝ) 20).hi = 20 := by
  have e1 : normalizeUnsigned (10:ℝ) = 10 := normalize_of_mem (by norm_num) (by norm_num)
  have e2 : normalizeUnsigned (20:ℝ) = 20 := normalize_of_mem (by norm_num) (by norm_num)
  constructor
  · rw [hueEnds_lo, e1]
  · rw [hueEnds_hi_plain (by rw [e1, e2]; norm_num), e2]

/-- **D2 witness.**  The formula of the unrepaired tree (`sample * full_rotation`) violates the arc statement: between the hues
    10° and 20° the sampler holds `[10, 20)`; the admissible draw 15 is returned as 15·360 = 5400 ≡ 0°, which is not on the arc. -/
theorem hue_old_violates :
    (hueEnds (10:ℝ) 20).lo ≤ 15 ∧ (15:ℝ) < (hueEnds (10:ℝ) 20).hi ∧
    ¬ OnArc 10 ((hueEnds (10:ℝ) 20).hi - (hueEnds (10:ℝ) 20).lo) (hueSampleOld 15) := by
  rw [hueEnds_10_20.1, hueEnds_10_20.2]
  refine ⟨by norm_num, by norm_num, ?_⟩
  rintro ⟨t, k, t0, t1, e⟩
  unfold hueSampleOld at e
  rw [fullRotation_eq] at e
  have hk1 : (k:ℝ) < 15 := by nlinarith
  have hk2 : (14:ℝ) < k := by nlinarith
  have h1 : k < 15 := by exact_mod_cast hk1
  have h2 : 14 < k := by exact_mod_cast hk2
  omega

/-! ## [C] containment of whole samples, per family (every admissible draw; `new_inclusive` ends, `new` is the special case) -/

/-- admissible draws: one per interval, inside it -/
def Admissible : List (Iv ℝ) → List ℝ → Prop
  | [], [] => True
  | iv :: ivs, d :: ds => iv.lo ≤ d ∧ d ≤ iv.hi ∧ Admissible ivs ds
  | _, _ => False

theorem admissible_forall₂ : ∀ (ivs : List (Iv ℝ)) (d : List ℝ), Admissible ivs d → List.Forall₂ (fun iv x => iv.lo ≤ x ∧ x ≤ iv.hi) ivs d
  | [], [], _ => List.Forall₂.nil
  | [], _ :: _, h => absurd h (by simp [Admissible])
  | _ :: _, [], h => absurd h (by simp [Admissible])
  | _ :: ivs, _ :: xs, h => List.Forall₂.cons ⟨h.1, h.2.1⟩ (admissible_forall₂ ivs xs h.2.2)

/-- cartesian types (Rgb, Luma, Lab, Luv, Xyz, Yxy, Lms, Oklab, Cam16UcsJab): the sample is the list of draws, and every draw lies
    between the corresponding components of the two ends -/
theorem cartesian_contained (ty : Ty) (hf : family ty = .cartesian) (low high d : List ℝ)
    (h : Admissible (uniformEnds ty low high) d) :
    uniformSample ty d = d ∧ List.Forall₂ (fun iv x => iv.lo ≤ x ∧ x ≤ iv.hi) ((low.zip high).map fun (l, h) => (⟨l, h⟩ : Iv ℝ)) d := by
  have e1 : uniformEnds ty low high = (low.zip high).map fun (l, h) => (⟨l, h⟩ : Iv ℝ) := by unfold uniformEnds; rw [hf]
  have e2 : uniformSample ty d = d := by unfold uniformSample; rw [hf]
  rw [e1] at h
  exact ⟨e2, admissible_forall₂ _ _ h⟩

/-- cylinder types (Lch, Lchuv, Oklch, Cam16UcsJmh), components `[height, radius, hue]` -/
theorem cylinder_contained (ty : Ty) (hf : family ty = .cylinder) (hLo rLo hueLo hHi rHi hueHi dH dR dHue : ℝ) (hr : 0 ≤ rHi)
    (ha : Admissible (uniformEnds ty [hLo, rLo, hueLo] [hHi, rHi, hueHi]) [dH, dR, dHue]) :
    ∃ h r hue, uniformSample ty [dH, dR, dHue] = [h, r, hue] ∧ hLo ≤ h ∧ h ≤ hHi ∧ rLo ≤ r ∧ r ≤ rHi ∧
      OnArc hueLo ((hueEnds hueLo hueHi).hi - (hueEnds hueLo hueHi).lo) hue := by
  have e1 : uniformEnds ty [hLo, rLo, hueLo] [hHi, rHi, hueHi] = [⟨hLo, hHi⟩, ⟨rLo * rLo, rHi * rHi⟩, hueEnds hueLo hueHi] := by
    unfold uniformEnds; rw [hf]
  have e2 : uniformSample ty [dH, dR, dHue] = [dH, Scalar.sqrt dR, hueSample dHue] := by unfold uniformSample; rw [hf]
  rw [e1] at ha
  obtain ⟨a1, a2, b1, b2, c1, c2, _⟩ := ha
  have := radius_contained (rLo := rLo) hr b1 b2
  exact ⟨_, _, _, e2, a1, a2, this.1, this.2, hue_on_arc _ _ _ c1 c2⟩

/-- HSV cones (Hsv, Okhsv), components `[hue, saturation, value]` -/
theorem hsv_contained (ty : Ty) (hf : family ty = .hsv_cone) (hueLo sLo vLo hueHi sHi vHi dHue d1 d2 : ℝ) (hs : 0 ≤ sHi)
    (ha : Admissible (uniformEnds ty [hueLo, sLo, vLo] [hueHi, sHi, vHi]) [dHue, d1, d2]) :
    ∃ hue s v, uniformSample ty [dHue, d1, d2] = [hue, s, v] ∧ sLo ≤ s ∧ s ≤ sHi ∧ vLo ≤ v ∧ v ≤ vHi ∧
      OnArc hueLo ((hueEnds hueLo hueHi).hi - (hueEnds hueLo hueHi).lo) hue := by
  have e1 : uniformEnds ty [hueLo, sLo, vLo] [hueHi, sHi, vHi] = [hueEnds hueLo hueHi, ⟨powi3 vLo, powi3 vHi⟩, ⟨powi2 sLo, powi2 sHi⟩] := by
    unfold uniformEnds; rw [hf]; rfl
  have e2 : uniformSample ty [dHue, d1, d2] = [hueSample dHue, Scalar.sqrt d2, Scalar.cbrt d1] := by unfold uniformSample; rw [hf]; rfl
  rw [e1] at ha
  obtain ⟨c1, c2, a1, a2, b1, b2, _⟩ := ha
  have hv := cone_height_contained a1 a2
  have hsr := radius_contained (rLo := sLo) hs b1 b2
  exact ⟨_, _, _, e2, hsr.1, hsr.2, hv.1, hv.2, hue_on_arc _ _ _ c1 c2⟩

/-- HSL bicones without component maps (Hsl, Okhsl), components `[hue, saturation, lightness]` -/
theorem hsl_contained (ty : Ty) (hty : ty = .Hsl ∨ ty = .Okhsl) (hueLo sLo lLo hueHi sHi lHi dHue d1 d2 : ℝ) (hs : 0 ≤ sHi)
    (ha : Admissible (uniformEnds ty [hueLo, sLo, lLo] [hueHi, sHi, lHi]) [dHue, d1, d2]) :
    ∃ hue s l, uniformSample ty [dHue, d1, d2] = [hue, s, l] ∧ sLo ≤ s ∧ s ≤ sHi ∧ lLo ≤ l ∧ l ≤ lHi ∧
      OnArc hueLo ((hueEnds hueLo hueHi).hi - (hueEnds hueLo hueHi).lo) hue := by
  have e1 : uniformEnds ty [hueLo, sLo, lLo] [hueHi, sHi, lHi] =
      [hueEnds hueLo hueHi, ⟨invertBiconeHeight lLo, invertBiconeHeight lHi⟩, ⟨powi2 sLo, powi2 sHi⟩] := by
    rcases hty with rfl | rfl <;> rfl
  have e2 : uniformSample ty [dHue, d1, d2] = [hueSample dHue, Scalar.sqrt d2, biconeHeight d1] := by
    rcases hty with rfl | rfl <;> rfl
  rw [e1] at ha
  obtain ⟨c1, c2, a1, a2, b1, b2, _⟩ := ha
  have hl := bicone_height_contained a1 a2
  have hsr := radius_contained (rLo := sLo) hs b1 b2
  exact ⟨_, _, _, e2, hsr.1, hsr.2, hl.1, hl.2, hue_on_arc _ _ _ c1 c2⟩

/-- Hsluv: the same bicone on components scaled by 100 (`/ 100` before inverting, `* 100` after sampling) -/
theorem hsluv_contained (hueLo sLo lLo hueHi sHi lHi dHue d1 d2 : ℝ) (hs : 0 ≤ sHi)
    (ha : Admissible (uniformEnds .Hsluv [hueLo, sLo, lLo] [hueHi, sHi, lHi]) [dHue, d1, d2]) :
    ∃ hue s l, uniformSample .Hsluv [dHue, d1, d2] = [hue, s, l] ∧ sLo ≤ s ∧ s ≤ sHi ∧ lLo ≤ l ∧ l ≤ lHi ∧
      OnArc hueLo ((hueEnds hueLo hueHi).hi - (hueEnds hueLo hueHi).lo) hue := by
  have e1 : uniformEnds .Hsluv [hueLo, sLo, lLo] [hueHi, sHi, lHi] =
      [hueEnds hueLo hueHi, ⟨invertBiconeHeight (lLo / 100.0), invertBiconeHeight (lHi / 100.0)⟩, ⟨powi2 (sLo / 100.0), powi2 (sHi / 100.0)⟩] := rfl
  have e2 : uniformSample .Hsluv [dHue, d1, d2] = [hueSample dHue, Scalar.sqrt d2 * 100.0, biconeHeight d1 * 100.0] := rfl
  rw [e1] at ha
  obtain ⟨c1, c2, a1, a2, b1, b2, _⟩ := ha
  have hl := bicone_height_contained a1 a2
  have hsr := radius_contained (rLo := sLo / 100.0) (rHi := sHi / 100.0) (by norm_num; linarith) b1 b2
  refine ⟨_, _, _, e2, ?_, ?_, ?_, ?_, hue_on_arc _ _ _ c1 c2⟩
  · have := hsr.1; norm_num at this ⊢; linarith
  · have := hsr.2; norm_num at this ⊢; linarith
  · have := hl.1; norm_num at this ⊢; linarith
  · have := hl.2; norm_num at this ⊢; linarith

/-! ### HWB forms: the sampler is the HSV sampler of the converted, ordered ends -/

theorem hwbToHsv_hsvToHwb {s v : ℝ} (hv : v ≠ 0) : hwbToHsv (hsvToHwb s v).1 (hsvToHwb s v).2 = (s, v) := by
  unfold hwbToHsv hsvToHwb
  have e : (1.0:ℝ) - (1.0 - v) = v := by norm_num
  simp only [e, RealScalar.valid_eq, decide_eq_true_eq, if_pos hv]
  rw [mul_div_assoc, div_self hv]; norm_num

/-- Hwb, Okhwb (`[hue, whiteness, blackness]` ends): the HSV colour drawn by the inner sampler has its saturation and value between
    those of the two ends' equivalent HSV colours (in either order), its hue on the arc; and the HWB colour returned converts
    back to exactly that HSV colour (whenever the value is non-zero; at value 0 every saturation is the same black) -/
theorem hwb_contained (ty : Ty) (hf : family ty = .hwb_cone) (hueLo wLo bLo hueHi wHi bHi dHue d1 d2 : ℝ)
    (hs : 0 ≤ (hwbToHsv wLo bLo).1 ∨ 0 ≤ (hwbToHsv wHi bHi).1)
    (ha : Admissible (uniformEnds ty [hueLo, wLo, bLo] [hueHi, wHi, bHi]) [dHue, d1, d2]) :
    ∃ hue s v, hwbInnerHsv [dHue, d1, d2] = [hue, s, v] ∧
      uniformSample ty [dHue, d1, d2] = [hue, (hsvToHwb s v).1, (hsvToHwb s v).2] ∧
      (v ≠ 0 → hwbToHsv (hsvToHwb s v).1 (hsvToHwb s v).2 = (s, v)) ∧
      min (hwbToHsv wLo bLo).1 (hwbToHsv wHi bHi).1 ≤ s ∧ s ≤ max (hwbToHsv wLo bLo).1 (hwbToHsv wHi bHi).1 ∧
      min (hwbToHsv wLo bLo).2 (hwbToHsv wHi bHi).2 ≤ v ∧ v ≤ max (hwbToHsv wLo bLo).2 (hwbToHsv wHi bHi).2 ∧
      OnArc hueLo ((hueEnds hueLo hueHi).hi - (hueEnds hueLo hueHi).lo) hue := by
  have e1 : uniformEnds ty [hueLo, wLo, bLo] [hueHi, wHi, bHi] =
      [hueEnds hueLo hueHi,
       ⟨powi3 (min (hwbToHsv wLo bLo).2 (hwbToHsv wHi bHi).2), powi3 (max (hwbToHsv wLo bLo).2 (hwbToHsv wHi bHi).2)⟩,
       ⟨powi2 (min (hwbToHsv wLo bLo).1 (hwbToHsv wHi bHi).1), powi2 (max (hwbToHsv wLo bLo).1 (hwbToHsv wHi bHi).1)⟩] := by
    unfold uniformEnds; rw [hf]; rfl
  have e2 : uniformSample ty [dHue, d1, d2] = [hueSample dHue, (hsvToHwb (Scalar.sqrt d2) (Scalar.cbrt d1)).1, (hsvToHwb (Scalar.sqrt d2) (Scalar.cbrt d1)).2] := by
    unfold uniformSample; rw [hf]; rfl
  rw [e1] at ha
  obtain ⟨c1, c2, a1, a2, b1, b2, _⟩ := ha
  have hv := cone_height_contained a1 a2
  have hmax : 0 ≤ max (hwbToHsv wLo bLo).1 (hwbToHsv wHi bHi).1 := by
    rcases hs with h | h
    · exact le_trans h (le_max_left _ _)
    · exact le_trans h (le_max_right _ _)
  have hsr := radius_contained hmax b1 b2
  exact ⟨hueSample dHue, Scalar.sqrt d2, Scalar.cbrt d1, rfl, e2, fun h => hwbToHsv_hsvToHwb h, hsr.1, hsr.2, hv.1, hv.2, hue_on_arc _ _ _ c1 c2⟩

/-- Alpha<C, T>: the colour part is the colour sampler's, alpha is one more draw between the two alphas -/
theorem alpha_contained (ty : Ty) (d : List ℝ) (aLo aHi dA : ℝ) (h : aLo ≤ dA ∧ dA ≤ aHi) :
    alphaSample ty d dA = uniformSample ty d ++ [dA] ∧ aLo ≤ dA ∧ dA ≤ aHi := ⟨rfl, h.1, h.2⟩

/-- non-vacuity: admissible draws exist for a concrete HSV range (and the sample is what the theorem says) -/
example : Admissible (uniformEnds .Hsv [(10:ℝ), 0, 0] [20, 1, 1]) [15, 0.5, 0.25] := by
  have e : uniformEnds .Hsv [(10:ℝ), 0, 0] [20, 1, 1] = [hueEnds 10 20, ⟨powi3 0, powi3 1⟩, ⟨powi2 0, powi2 1⟩] := rfl
  rw [e]
  refine ⟨?_, ?_, ?_, ?_, ?_, ?_, trivial⟩
  · rw [hueEnds_10_20.1]; norm_num
  · rw [hueEnds_10_20.2]; norm_num
  all_goals (simp only [powi3, powi2]; norm_num)

/-! ## [C] volume uniformity, as inverse-CDF statements

  The *pushforward* statement ("a uniform draw pushed through the sampler is distributed as the normalised volume measure") is
  proved in `C19_Pushforward.lean` (between two colours) and `C19_PushforwardStd.lean` (`Standard`).  Its 1-D content is: (i) the CDF of
  the volume measure along each coordinate is the function below, (ii) the sampler is exactly the inverse of that CDF,
  (iii) `new`/`new_inclusive` hand rand exactly the CDF values of the two ends, so a uniform draw between them is the volume measure
  conditioned on the range.  (i)–(iii) are proved here. -/

theorem integral_sq (c a b : ℝ) : ∫ t in a..b, c * t ^ 2 = c * ((b ^ 3 - a ^ 3) / 3) := by
  rw [intervalIntegral.integral_const_mul, integral_pow]; norm_num

theorem integral_lin (c a b : ℝ) : ∫ t in a..b, c * t = c * ((b ^ 2 - a ^ 2) / 2) := by
  rw [intervalIntegral.integral_const_mul, integral_id]

/-- (i) cone (HSV, Okhsv, and HWB through them): the cross-section at height `t` is a disc of radius proportional to `t`, area
    `c·t²`; the fraction of the cone's volume below height `v` is `v³` -/
theorem cone_volume_fraction (c v : ℝ) (hc : c ≠ 0) :
    (∫ t in (0:ℝ)..v, c * t ^ 2) / (∫ t in (0:ℝ)..1, c * t ^ 2) = v ^ 3 := by
  rw [integral_sq, integral_sq]; field_simp; ring

/-- (i) disc (every cross-section; also the cylinders' chroma): rings of circumference proportional to `ρ`; the fraction of the
    disc's area within relative radius `s` is `s²` -/
theorem disc_area_fraction (c s : ℝ) (hc : c ≠ 0) :
    (∫ ρ in (0:ℝ)..s, c * ρ) / (∫ ρ in (0:ℝ)..1, c * ρ) = s ^ 2 := by
  rw [integral_lin, integral_lin]; field_simp; ring

/-- (i) bicone (HSL, Okhsl, Hsluv): two cones base to base, cross-section radius proportional to `t` below the waist `1/2` and to
    `1 - t` above; the fraction of the volume below height `h` is the two-piece cubic `invertBiconeHeight h` -/
theorem bicone_volume_fraction_lower (c h : ℝ) (hc : c ≠ 0) (hh : h ≤ 0.5) :
    (∫ t in (0:ℝ)..h, c * t ^ 2) / ((∫ t in (0:ℝ)..(1/2), c * t ^ 2) + ∫ t in (1/2:ℝ)..1, c * (1 - t) ^ 2) = invertBiconeHeight h := by
  rw [invertBicone_lo hh, powi3_eq]
  have e : (∫ t in (1/2:ℝ)..1, c * (1 - t) ^ 2) = ∫ t in (1 - 1:ℝ)..(1 - 1/2), c * t ^ 2 :=
    intervalIntegral.integral_comp_sub_left (fun t => c * t ^ 2) 1
  rw [e, integral_sq, integral_sq, integral_sq]; field_simp; norm_num; ring
theorem bicone_volume_fraction_upper (c h : ℝ) (hc : c ≠ 0) (hh : ¬ h ≤ 0.5) :
    ((∫ t in (0:ℝ)..(1/2), c * t ^ 2) + ∫ t in (1/2:ℝ)..h, c * (1 - t) ^ 2) /
      ((∫ t in (0:ℝ)..(1/2), c * t ^ 2) + ∫ t in (1/2:ℝ)..1, c * (1 - t) ^ 2) = invertBiconeHeight h := by
  rw [invertBicone_hi hh, powi3_eq]
  have e : (∫ t in (1/2:ℝ)..1, c * (1 - t) ^ 2) = ∫ t in (1 - 1:ℝ)..(1 - 1/2), c * t ^ 2 :=
    intervalIntegral.integral_comp_sub_left (fun t => c * t ^ 2) 1
  have e' : (∫ t in (1/2:ℝ)..h, c * (1 - t) ^ 2) = ∫ t in (1 - h:ℝ)..(1 - 1/2), c * t ^ 2 :=
    intervalIntegral.integral_comp_sub_left (fun t => c * t ^ 2) 1
  rw [e, e', integral_sq, integral_sq, integral_sq]; field_simp; norm_num; ring

/-- (ii) the samplers are exactly the inverse CDFs: `cbrt r₁`, `√r₂`, and the two-piece bicone inverse -/
theorem cone_sampler_is_inverse_cdf (r1 r2 : ℝ) : ((sampleHsv r1 r2).1) ^ 3 = r1 := cbrt_cube r1
theorem disc_sampler_is_inverse_cdf (r1 r2 : ℝ) (h : 0 ≤ r2) : ((sampleHsv r1 r2).2) ^ 2 = r2 := Real.sq_sqrt h
theorem bicone_sampler_is_inverse_cdf (r1 r2 : ℝ) : invertBiconeHeight ((sampleHsl r1 r2).2) = r1 := invert_biconeHeight r1
theorem bicone_disc_sampler_is_inverse_cdf (r1 r2 : ℝ) (h : 0 ≤ r2) : ((sampleHsl r1 r2).1) ^ 2 = r2 := Real.sq_sqrt h

/-- (iii) the constructors hand rand the CDF values of the ends: `(v³, s²)` for the cone, `(bicone CDF of l, s²)` for the bicone -/
theorem invertHsv_is_cdf (v s : ℝ) : invertHsv v s = (v ^ 3, s ^ 2) := by unfold invertHsv; rw [powi3_eq, powi2_eq]
theorem invertHsl_is_cdf (s l : ℝ) : invertHsl s l = (invertBiconeHeight l, s ^ 2) := by unfold invertHsl; rw [powi2_eq]
/-- and sampling the CDF value of a colour returns the colour (so the end points themselves are reachable exactly) -/
theorem sampleHsv_invertHsv {v s : ℝ} (hs : 0 ≤ s) : sampleHsv (invertHsv v s).1 (invertHsv v s).2 = (v, s) := by
  unfold sampleHsv invertHsv; rw [cbrt_powi3, sqrt_powi2 hs]
theorem sampleHsl_invertHsl {s l : ℝ} (hs : 0 ≤ s) : sampleHsl (invertHsl s l).1 (invertHsl s l).2 = (s, l) := by
  unfold sampleHsl invertHsl; rw [biconeHeight_invert, sqrt_powi2 hs]

/-! ## [C] `Standard`: a colour from `rng.gen()` lies within the bounds of its space

  Bounds = the numeric `is_within_bounds` table regenerated from the sources (`Gen.Sampling.stdBounds`, cross-checked against the
  public accessors on every run); HWB forms: `impl_is_within_bounds_hwb!` (w, b in [0,1], w + b ≤ 1). -/

theorem unit_cbrt {g : ℝ} (h0 : 0 ≤ g) (h1 : g < 1) : 0 ≤ Scalar.cbrt g ∧ Scalar.cbrt g < 1 := by
  constructor
  · rw [le_cbrt_iff]; norm_num; exact h0
  · rw [cbrt_lt_iff]; norm_num; exact h1
theorem unit_sqrt {g : ℝ} (h1 : g < 1) : 0 ≤ Real.sqrt g ∧ Real.sqrt g < 1 := by
  constructor
  · exact Real.sqrt_nonneg g
  · rw [Real.sqrt_lt' one_pos]; norm_num; exact h1
theorem unit_bicone {g : ℝ} (h0 : 0 ≤ g) (h1 : g < 1) : 0 ≤ biconeHeight g ∧ biconeHeight g < 1 := by
  have z : invertBiconeHeight (0:ℝ) = 0 := by rw [invertBicone_lo (by norm_num), powi3_eq]; norm_num
  have o : invertBiconeHeight (1:ℝ) = 1 := by rw [invertBicone_hi (by norm_num), powi3_eq]; norm_num
  exact ⟨(bicone_height_contained (lLo := 0) (lHi := 1) (by rw [z]; exact h0) (by rw [o]; exact h1.le)).1,
         bicone_height_lt (by rw [o]; exact h1)⟩

/-- a bounds entry `(index, min, max?)` holds of a component list -/
def EntryOk (xs : List ℝ) (e : Nat × ℝ × Option ℝ) : Prop :=
  match xs[e.1]? with
  | some x => e.2.1 ≤ x ∧ (match e.2.2 with | some h => x ≤ h | none => True)
  | none => False

/-- the raw draws a type consumes: one for `Luma`, three otherwise -/
def draws (ty : Ty) (g1 g2 g3 : ℝ) : List ℝ := if ty = .Luma then [g1] else [g1, g2, g3]

/-- **every type with a bounds table**: each bounded component of a `Standard` sample is within its bounds, for every raw draw in
    `[0,1)` and every white point with non-negative coordinates -/
theorem standard_within (ty : Ty) (wx wy wz g1 g2 g3 : ℝ) (hw : 0 ≤ wx ∧ 0 ≤ wy ∧ 0 ≤ wz)
    (h1 : 0 ≤ g1 ∧ g1 < 1) (h2 : 0 ≤ g2 ∧ g2 < 1) (h3 : 0 ≤ g3 ∧ g3 < 1) :
    ∀ e ∈ stdBounds ty wx wy wz, EntryOk (standard ty wx wy wz (draws ty g1 g2 g3)) e := by
  obtain ⟨c2a, c2b⟩ := unit_cbrt h2.1 h2.2
  obtain ⟨s3a, s3b⟩ := unit_sqrt h3.2
  obtain ⟨b2a, b2b⟩ := unit_bicone h2.1 h2.2
  obtain ⟨hwx, hwy, hwz⟩ := hw
  obtain ⟨g1a, g1b⟩ := h1
  obtain ⟨g2a, g2b⟩ := h2
  obtain ⟨g3a, g3b⟩ := h3
  cases ty <;>
    simp only [stdBounds, standard, family, draws, stdMap, EntryOk, sampleHsv, sampleHsl, biconeRadiusMap, biconeHeightMap,
      hueStandard, List.zipIdx, List.mem_cons, List.not_mem_nil, or_false, forall_eq_or_imp, forall_eq, List.map, reduceCtorEq, if_false, if_true,
      List.getElem?_cons_zero, List.getElem?_cons_succ, Nat.zero_add, false_imp_iff, implies_true, and_true] <;>
    (try norm_num) <;>
    (try (refine ⟨?_, ?_⟩ <;> (try refine ⟨?_, ?_⟩) <;> (try refine ⟨?_, ?_⟩) <;> nlinarith)) <;>
    (try nlinarith)

/-- **HWB forms**: a `Standard` HWB sample is within the coupled bounds (`impl_is_within_bounds_hwb!`): w, b in [0,1], w + b ≤ 1 -/
theorem standard_hwb_within (ty : Ty) (hf : family ty = .hwb_cone) (g1 g2 g3 : ℝ)
    (h2 : 0 ≤ g2 ∧ g2 < 1) (h3 : 0 ≤ g3 ∧ g3 < 1) :
    ∃ hue w b, standard ty 0 0 0 [g1, g2, g3] = [hue, w, b] ∧ 0 ≤ w ∧ w ≤ 1 ∧ 0 ≤ b ∧ b ≤ 1 ∧ w + b ≤ 1 := by
  have e : standard ty 0 0 0 [g1, g2, g3] = [hueStandard g1, (hsvToHwb (Scalar.sqrt g3) (Scalar.cbrt g2)).1, (hsvToHwb (Scalar.sqrt g3) (Scalar.cbrt g2)).2] := by
    unfold standard; rw [hf]; rfl
  obtain ⟨va, vb⟩ := unit_cbrt h2.1 h2.2
  obtain ⟨sa, sb⟩ := unit_sqrt h3.2
  have p1 : 0 ≤ (1 - Real.sqrt g3) * Scalar.cbrt g2 := mul_nonneg (by linarith) va
  have p2 : 0 ≤ Real.sqrt g3 * Scalar.cbrt g2 := mul_nonneg sa va
  refine ⟨_, _, _, e, ?_, ?_, ?_, ?_, ?_⟩ <;> simp only [hsvToHwb, RealScalar.sqrt_eq] <;> norm_num <;> nlinarith

/-- the hue of a `Standard` sample is in `[0°, 360°)` -/
theorem standard_hue {g : ℝ} (h0 : 0 ≤ g) (h1 : g < 1) : 0 ≤ hueStandard g ∧ hueStandard g < 360 := by
  unfold hueStandard; rw [fullRotation_eq]; constructor <;> nlinarith

/-- Alpha: the alpha of a `Standard` transparent colour is the raw draw, in `[0,1)` -/
theorem standard_alpha (ty : Ty) (wx wy wz : ℝ) (g : List ℝ) (gA : ℝ) :
    alphaStandard ty wx wy wz g gA = standard ty wx wy wz g ++ [gA] := rfl

/-! ## the code the model transcribes (text regenerated from /repo on every run; a change of the sampling logic shows up here) -/

/-- which macro serves which type: the cone and bicone shaped spaces use the volume samplers, the HWB forms go through the HSV
    samplers, and 20 types have sampling support -/
theorem families_as_modelled :
    family .Hsv = .hsv_cone ∧ family .Okhsv = .hsv_cone ∧ family .Hsl = .hsl_bicone ∧ family .Okhsl = .hsl_bicone ∧
    family .Hsluv = .hsl_bicone ∧ family .Hwb = .hwb_cone ∧ family .Okhwb = .hwb_cone ∧
    hueOf .Hwb = ("UniformHsv", "Hsv") ∧ hueOf .Okhwb = ("UniformOkhsv", "Okhsv") ∧ hwbTypes = [.Hwb, .Okhwb] ∧
    Ty.all.length = 20 ∧ (Ty.all.filter fun t => family t == .cartesian).length = 9 ∧ (Ty.all.filter fun t => family t == .cylinder).length = 4 := by
  decide

theorem pinned_body_sample_hsv : Gen.Sampling.body_sample_hsv =
    "HsvSample { value: r1.cbrt(), saturation: r2.sqrt(), }" := by decide +kernel
theorem pinned_body_invert_hsv_sample : Gen.Sampling.body_invert_hsv_sample =
    "(sample.value.powi(3), sample.saturation.powi(2))" := by decide +kernel
theorem pinned_body_sample_hsl : Gen.Sampling.body_sample_hsl =
    "HslSample { saturation: r2.sqrt(), lightness: sample_bicone_height(r1), }" := by decide +kernel
theorem pinned_body_sample_bicone_height : Gen.Sampling.body_sample_bicone_height =
    "let mask = r1.lt_eq(&T::from_f64(0.5)); let r1 = lazy_select! { if mask.clone() => r1.clone(), else => T::one() - &r1, } * T::from_f64(2.0); let height = r1.cbrt(); let height = height * T::from_f64(0.5); lazy_select! { if mask => height.clone(), else => T::one() - &height, }" := by decide +kernel
theorem pinned_body_invert_hsl_sample : Gen.Sampling.body_invert_hsl_sample =
    "let HslSample { saturation, lightness, } = sample; let r1 = invert_bicone_height_sample(lightness); let r2 = saturation.powi(2); (r1, r2)" := by decide +kernel
theorem pinned_body_invert_bicone_height_sample : Gen.Sampling.body_invert_bicone_height_sample =
    "lazy_select! { if height.lt_eq(&T::from_f64(0.5)) => { height.clone().powi(3) * T::from_f64(4.0) }, else => { let x = height.clone() - T::from_f64(1.0); x.powi(3) * T::from_f64(4.0) + T::from_f64(1.0) }, }" := by decide +kernel
theorem pinned_body_hue_uniform_new : Gen.Sampling.body_hue_uniform_new =
    "let low = low_b.borrow().clone(); let normalized_low = $base_ty::into_positive_degrees(low.clone()); let high = high_b.borrow().clone(); let normalized_high = $base_ty::into_positive_degrees(high.clone()); let normalized_high = if normalized_low >= normalized_high && low.0 < high.0 { normalized_high + T::full_rotation() } else { normalized_high }; $uni_ty { hue: Uniform::new(normalized_low, normalized_high), }" := by decide +kernel
theorem pinned_body_hue_uniform_new_inclusive : Gen.Sampling.body_hue_uniform_new_inclusive =
    "let low = low_b.borrow().clone(); let normalized_low = $base_ty::into_positive_degrees(low.clone()); let high = high_b.borrow().clone(); let normalized_high = $base_ty::into_positive_degrees(high.clone()); let normalized_high = if normalized_low >= normalized_high && low.0 < high.0 { normalized_high + T::full_rotation() } else { normalized_high }; $uni_ty { hue: Uniform::new_inclusive(normalized_low, normalized_high), }" := by decide +kernel
theorem pinned_body_hue_uniform_sample : Gen.Sampling.body_hue_uniform_sample =
    "$base_ty::from(self.hue.sample(rng))" := by decide +kernel
theorem pinned_body_hue_standard : Gen.Sampling.body_hue_standard =
    "$name::from_degrees(rng.gen() * T::full_rotation())" := by decide +kernel
theorem pinned_body_normalize_unsigned : Gen.Sampling.body_normalize_unsigned =
    "self - (Round::floor(self / 360.0) * 360.0)" := by decide +kernel
theorem pinned_body_cylinder_sample : Gen.Sampling.body_cylinder_sample =
    "use rand::distributions::Distribution; $ty { $height: self.$height.sample(rng), $radius: self.$radius.sample(rng).sqrt(), hue: self.hue.sample(rng), $($phantom: core::marker::PhantomData,)? }" := by decide +kernel
theorem pinned_body_hsv_cone_sample : Gen.Sampling.body_hsv_cone_sample =
    "use rand::distributions::Distribution; let hue = self.hue.sample(rng); let crate::random_sampling::HsvSample { saturation: $radius, value: $height } = crate::random_sampling::sample_hsv(self.u1.sample(rng), self.u2.sample(rng)); $ty { hue, $radius, $height, $($phantom: core::marker::PhantomData,)? }" := by decide +kernel
theorem pinned_body_hsl_bicone_sample : Gen.Sampling.body_hsl_bicone_sample =
    "use rand::distributions::Distribution; let hue = self.hue.sample(rng); let crate::random_sampling::HslSample { saturation, lightness } = crate::random_sampling::sample_hsl(self.u1.sample(rng), self.u2.sample(rng)); $ty { hue, $radius: __apply_map_fn!(saturation $(, $radius_map_fn)?), $height: __apply_map_fn!(lightness $(, $height_map_fn)?), $($phantom: core::marker::PhantomData,)? }" := by decide +kernel
theorem pinned_body_hwb_cone_sample : Gen.Sampling.body_hwb_cone_sample =
    "use crate::convert::FromColorUnclamped; $ty::from_color_unclamped(self.sampler.sample(rng))" := by decide +kernel
theorem pinned_body_hwb_cone_standard : Gen.Sampling.body_hwb_cone_standard =
    "use crate::convert::FromColorUnclamped; $ty::from_color_unclamped(rng.gen::<$hsv_ty<$($ty_param,)* T>>())" := by decide +kernel
theorem pinned_body_cartesian_sample : Gen.Sampling.body_cartesian_sample =
    "use rand::distributions::Distribution; $ty { $($component: self.$component.sample(rng),)+ $($phantom: core::marker::PhantomData,)? }" := by decide +kernel

/-- `full_rotation()` is 360 -/
theorem pinned_fullRotation : (fullRotation : ℝ) = 360 := fullRotation_eq

end C19
