/-
  Tie of the hand-written clamp / bounds model (`PaletteModel/Clamp.lean`, C03) to the *text* of the macro-generated Rust code.

  `tools/extract.py` (`gen_bodies`, translator `tools/rust2lean.py`, family `clamp`, macro engine `tools/rust_macros.py`) does on every run what
  the compiler does: it matches every invocation of `impl_clamp!`, `impl_is_within_bounds!`, `impl_clamp_hwb!`, `impl_is_within_bounds_hwb!` for
  a three-component colour type (19 types) against the arms of the `macro_rules!` as written *now*, transcribes the selected arm (nested
  `$(, $get_max)?` groups, the recursion that adds `<>`, the helper `_clamp_value!`), and translates the resulting `fn clamp`, `fn clamp_assign`,
  `fn is_within_bounds` into `Gen.Body.clamp<Ty>`, `clampAssign<Ty>`, `within<Ty>` (lean/PaletteModel/Gen/BodiesClamp.lean), together with every
  `min_*` / `max_*` accessor the invocation names (`Gen.Body.bound<Ty><Accessor>`).  Each theorem `tie_<name>` states, for every `α` with
  `[Scalar α]` (hence at `Float`, `Float32`, `ℝ`; the model itself is order-only), that the translated body is the model function the driver
  executes (`Clamp.clampAll`, `Clamp.withinAll`, `Clamp.hwbClamp`, `Clamp.hwbWithin`) **at the bounds table written in the statement**:
  which component is clamped, with which accessor as lower and which as upper bound, `clamp` (two bounds) against `clamp_min` (lower bound
  only), untouched components, the order of the conjunction.  So a changed comparison (`gt_eq` → `gt`), a swapped `$get_min`/`$get_max`, a
  dropped component, a changed divisor in the HWB form or an invocation that names another accessor is a broken obligation naming the type,
  whatever the sampled correspondence run happens to hit.  The pinned-text theorems of `C03_Clamp` (`macro_bodies`) stay; these are stronger.

  Shapes that differ between source and model (stated in the theorems):
    * the model works on the component list in struct order with a `Bound` per component, the source on the struct: `V3.toList`;
    * `clamp_assign` is its own macro arm (`_clamp_value!(@assign ..)`, one statement per component); it is tied to the *same* `clampAll`;
    * `is_within_bounds` is `$( lo ≤ c & c ≤ hi )&+`, left-nested without parentheses; the model nests to the right and ends in `true`
      (`Bool.and_assoc`, `Bool.and_true` — the only non-definitional steps);
    * the accessor values (`T::zero()`, `T::from_f64(100.0)`, `T::max_intensity()`, `Wp::get_xyz().x`, ..) flow through as
      `Gen.Body.bound…` (the driver reads them from the running crate and cross-checks the shape with `Gen.Bounds`); for HWB / Okhwb, whose
      model takes `zero` and `one`, they are unfolded: the tie is at `0.0`, `1.0`.

  NOT translated: header of Gen/BodiesClamp.lean (Luma, Cam16, the partial CAM16 types, `Alpha`, slices, `FromColor` / `TryFromColor`, the
  per-type primitives `f32::clamp/max/min`).
-/
import PaletteModel.Gen.BodiesClamp

set_option linter.unusedSimpArgs false   -- one simp set for every bounds shape (`Bool.true_and` / `Bool.and_true` are used only where a component is untouched / has no upper bound)

namespace Tie
variable {α : Type} [Scalar α]

/-! ### `Lab` (lab.rs) -/
theorem tie_clampLab (c : V3 α) :
    (Gen.Body.clampLab c).toList = Clamp.clampAll c.toList [.both Gen.Body.boundLabMinL Gen.Body.boundLabMaxL, .both Gen.Body.boundLabMinA Gen.Body.boundLabMaxA, .both Gen.Body.boundLabMinB Gen.Body.boundLabMaxB] := rfl
theorem tie_clampAssignLab (c : V3 α) :
    (Gen.Body.clampAssignLab c).toList = Clamp.clampAll c.toList [.both Gen.Body.boundLabMinL Gen.Body.boundLabMaxL, .both Gen.Body.boundLabMinA Gen.Body.boundLabMaxA, .both Gen.Body.boundLabMinB Gen.Body.boundLabMaxB] := rfl
theorem tie_withinLab (c : V3 α) :
    Gen.Body.withinLab c = Clamp.withinAll c.toList [.both Gen.Body.boundLabMinL Gen.Body.boundLabMaxL, .both Gen.Body.boundLabMinA Gen.Body.boundLabMaxA, .both Gen.Body.boundLabMinB Gen.Body.boundLabMaxB] := by
  simp only [Gen.Body.withinLab, V3.toList, Clamp.withinAll, Clamp.withinC, Bool.and_true, Bool.true_and, Bool.and_assoc]

/-! ### `Lch` (lch.rs) -/
theorem tie_clampLch (c : V3 α) :
    (Gen.Body.clampLch c).toList = Clamp.clampAll c.toList [.both Gen.Body.boundLchMinL Gen.Body.boundLchMaxL, .minOnly Gen.Body.boundLchMinChroma, .untouched] := rfl
theorem tie_clampAssignLch (c : V3 α) :
    (Gen.Body.clampAssignLch c).toList = Clamp.clampAll c.toList [.both Gen.Body.boundLchMinL Gen.Body.boundLchMaxL, .minOnly Gen.Body.boundLchMinChroma, .untouched] := rfl
theorem tie_withinLch (c : V3 α) :
    Gen.Body.withinLch c = Clamp.withinAll c.toList [.both Gen.Body.boundLchMinL Gen.Body.boundLchMaxL, .minOnly Gen.Body.boundLchMinChroma, .untouched] := by
  simp only [Gen.Body.withinLch, V3.toList, Clamp.withinAll, Clamp.withinC, Bool.and_true, Bool.true_and, Bool.and_assoc]

/-! ### `Luv` (luv.rs) -/
theorem tie_clampLuv (c : V3 α) :
    (Gen.Body.clampLuv c).toList = Clamp.clampAll c.toList [.both Gen.Body.boundLuvMinL Gen.Body.boundLuvMaxL, .both Gen.Body.boundLuvMinU Gen.Body.boundLuvMaxU, .both Gen.Body.boundLuvMinV Gen.Body.boundLuvMaxV] := rfl
theorem tie_clampAssignLuv (c : V3 α) :
    (Gen.Body.clampAssignLuv c).toList = Clamp.clampAll c.toList [.both Gen.Body.boundLuvMinL Gen.Body.boundLuvMaxL, .both Gen.Body.boundLuvMinU Gen.Body.boundLuvMaxU, .both Gen.Body.boundLuvMinV Gen.Body.boundLuvMaxV] := rfl
theorem tie_withinLuv (c : V3 α) :
    Gen.Body.withinLuv c = Clamp.withinAll c.toList [.both Gen.Body.boundLuvMinL Gen.Body.boundLuvMaxL, .both Gen.Body.boundLuvMinU Gen.Body.boundLuvMaxU, .both Gen.Body.boundLuvMinV Gen.Body.boundLuvMaxV] := by
  simp only [Gen.Body.withinLuv, V3.toList, Clamp.withinAll, Clamp.withinC, Bool.and_true, Bool.true_and, Bool.and_assoc]

/-! ### `Lchuv` (lchuv.rs) -/
theorem tie_clampLchuv (c : V3 α) :
    (Gen.Body.clampLchuv c).toList = Clamp.clampAll c.toList [.both Gen.Body.boundLchuvMinL Gen.Body.boundLchuvMaxL, .both Gen.Body.boundLchuvMinChroma Gen.Body.boundLchuvMaxChroma, .untouched] := rfl
theorem tie_clampAssignLchuv (c : V3 α) :
    (Gen.Body.clampAssignLchuv c).toList = Clamp.clampAll c.toList [.both Gen.Body.boundLchuvMinL Gen.Body.boundLchuvMaxL, .both Gen.Body.boundLchuvMinChroma Gen.Body.boundLchuvMaxChroma, .untouched] := rfl
theorem tie_withinLchuv (c : V3 α) :
    Gen.Body.withinLchuv c = Clamp.withinAll c.toList [.both Gen.Body.boundLchuvMinL Gen.Body.boundLchuvMaxL, .both Gen.Body.boundLchuvMinChroma Gen.Body.boundLchuvMaxChroma, .untouched] := by
  simp only [Gen.Body.withinLchuv, V3.toList, Clamp.withinAll, Clamp.withinC, Bool.and_true, Bool.true_and, Bool.and_assoc]

/-! ### `Hsluv` (hsluv.rs) -/
theorem tie_clampHsluv (c : V3 α) :
    (Gen.Body.clampHsluv c).toList = Clamp.clampAll c.toList [.untouched, .both Gen.Body.boundHsluvMinSaturation Gen.Body.boundHsluvMaxSaturation, .both Gen.Body.boundHsluvMinL Gen.Body.boundHsluvMaxL] := rfl
theorem tie_clampAssignHsluv (c : V3 α) :
    (Gen.Body.clampAssignHsluv c).toList = Clamp.clampAll c.toList [.untouched, .both Gen.Body.boundHsluvMinSaturation Gen.Body.boundHsluvMaxSaturation, .both Gen.Body.boundHsluvMinL Gen.Body.boundHsluvMaxL] := rfl
theorem tie_withinHsluv (c : V3 α) :
    Gen.Body.withinHsluv c = Clamp.withinAll c.toList [.untouched, .both Gen.Body.boundHsluvMinSaturation Gen.Body.boundHsluvMaxSaturation, .both Gen.Body.boundHsluvMinL Gen.Body.boundHsluvMaxL] := by
  simp only [Gen.Body.withinHsluv, V3.toList, Clamp.withinAll, Clamp.withinC, Bool.and_true, Bool.true_and, Bool.and_assoc]

/-! ### `Hsv` (hsv.rs) -/
theorem tie_clampHsv (c : V3 α) :
    (Gen.Body.clampHsv c).toList = Clamp.clampAll c.toList [.untouched, .both Gen.Body.boundHsvMinSaturation Gen.Body.boundHsvMaxSaturation, .both Gen.Body.boundHsvMinValue Gen.Body.boundHsvMaxValue] := rfl
theorem tie_clampAssignHsv (c : V3 α) :
    (Gen.Body.clampAssignHsv c).toList = Clamp.clampAll c.toList [.untouched, .both Gen.Body.boundHsvMinSaturation Gen.Body.boundHsvMaxSaturation, .both Gen.Body.boundHsvMinValue Gen.Body.boundHsvMaxValue] := rfl
theorem tie_withinHsv (c : V3 α) :
    Gen.Body.withinHsv c = Clamp.withinAll c.toList [.untouched, .both Gen.Body.boundHsvMinSaturation Gen.Body.boundHsvMaxSaturation, .both Gen.Body.boundHsvMinValue Gen.Body.boundHsvMaxValue] := by
  simp only [Gen.Body.withinHsv, V3.toList, Clamp.withinAll, Clamp.withinC, Bool.and_true, Bool.true_and, Bool.and_assoc]

/-! ### `Hsl` (hsl.rs) -/
theorem tie_clampHsl (c : V3 α) :
    (Gen.Body.clampHsl c).toList = Clamp.clampAll c.toList [.untouched, .both Gen.Body.boundHslMinSaturation Gen.Body.boundHslMaxSaturation, .both Gen.Body.boundHslMinLightness Gen.Body.boundHslMaxLightness] := rfl
theorem tie_clampAssignHsl (c : V3 α) :
    (Gen.Body.clampAssignHsl c).toList = Clamp.clampAll c.toList [.untouched, .both Gen.Body.boundHslMinSaturation Gen.Body.boundHslMaxSaturation, .both Gen.Body.boundHslMinLightness Gen.Body.boundHslMaxLightness] := rfl
theorem tie_withinHsl (c : V3 α) :
    Gen.Body.withinHsl c = Clamp.withinAll c.toList [.untouched, .both Gen.Body.boundHslMinSaturation Gen.Body.boundHslMaxSaturation, .both Gen.Body.boundHslMinLightness Gen.Body.boundHslMaxLightness] := by
  simp only [Gen.Body.withinHsl, V3.toList, Clamp.withinAll, Clamp.withinC, Bool.and_true, Bool.true_and, Bool.and_assoc]

/-! ### `Rgb` (rgb/rgb.rs) -/
theorem tie_clampRgb (c : V3 α) :
    (Gen.Body.clampRgb c).toList = Clamp.clampAll c.toList [.both Gen.Body.boundRgbMinRed Gen.Body.boundRgbMaxRed, .both Gen.Body.boundRgbMinGreen Gen.Body.boundRgbMaxGreen, .both Gen.Body.boundRgbMinBlue Gen.Body.boundRgbMaxBlue] := rfl
theorem tie_clampAssignRgb (c : V3 α) :
    (Gen.Body.clampAssignRgb c).toList = Clamp.clampAll c.toList [.both Gen.Body.boundRgbMinRed Gen.Body.boundRgbMaxRed, .both Gen.Body.boundRgbMinGreen Gen.Body.boundRgbMaxGreen, .both Gen.Body.boundRgbMinBlue Gen.Body.boundRgbMaxBlue] := rfl
theorem tie_withinRgb (c : V3 α) :
    Gen.Body.withinRgb c = Clamp.withinAll c.toList [.both Gen.Body.boundRgbMinRed Gen.Body.boundRgbMaxRed, .both Gen.Body.boundRgbMinGreen Gen.Body.boundRgbMaxGreen, .both Gen.Body.boundRgbMinBlue Gen.Body.boundRgbMaxBlue] := by
  simp only [Gen.Body.withinRgb, V3.toList, Clamp.withinAll, Clamp.withinC, Bool.and_true, Bool.true_and, Bool.and_assoc]

/-! ### `Xyz` (xyz.rs) -/
theorem tie_clampXyz (wp c : V3 α) :
    (Gen.Body.clampXyz wp c).toList = Clamp.clampAll c.toList [.both Gen.Body.boundXyzMinX (Gen.Body.boundXyzMaxX wp), .both Gen.Body.boundXyzMinY (Gen.Body.boundXyzMaxY wp), .both Gen.Body.boundXyzMinZ (Gen.Body.boundXyzMaxZ wp)] := rfl
theorem tie_clampAssignXyz (wp c : V3 α) :
    (Gen.Body.clampAssignXyz wp c).toList = Clamp.clampAll c.toList [.both Gen.Body.boundXyzMinX (Gen.Body.boundXyzMaxX wp), .both Gen.Body.boundXyzMinY (Gen.Body.boundXyzMaxY wp), .both Gen.Body.boundXyzMinZ (Gen.Body.boundXyzMaxZ wp)] := rfl
theorem tie_withinXyz (wp c : V3 α) :
    Gen.Body.withinXyz wp c = Clamp.withinAll c.toList [.both Gen.Body.boundXyzMinX (Gen.Body.boundXyzMaxX wp), .both Gen.Body.boundXyzMinY (Gen.Body.boundXyzMaxY wp), .both Gen.Body.boundXyzMinZ (Gen.Body.boundXyzMaxZ wp)] := by
  simp only [Gen.Body.withinXyz, V3.toList, Clamp.withinAll, Clamp.withinC, Bool.and_true, Bool.true_and, Bool.and_assoc]

/-! ### `Yxy` (yxy.rs) -/
theorem tie_clampYxy (c : V3 α) :
    (Gen.Body.clampYxy c).toList = Clamp.clampAll c.toList [.both Gen.Body.boundYxyMinX Gen.Body.boundYxyMaxX, .both Gen.Body.boundYxyMinY Gen.Body.boundYxyMaxY, .both Gen.Body.boundYxyMinLuma Gen.Body.boundYxyMaxLuma] := rfl
theorem tie_clampAssignYxy (c : V3 α) :
    (Gen.Body.clampAssignYxy c).toList = Clamp.clampAll c.toList [.both Gen.Body.boundYxyMinX Gen.Body.boundYxyMaxX, .both Gen.Body.boundYxyMinY Gen.Body.boundYxyMaxY, .both Gen.Body.boundYxyMinLuma Gen.Body.boundYxyMaxLuma] := rfl
theorem tie_withinYxy (c : V3 α) :
    Gen.Body.withinYxy c = Clamp.withinAll c.toList [.both Gen.Body.boundYxyMinX Gen.Body.boundYxyMaxX, .both Gen.Body.boundYxyMinY Gen.Body.boundYxyMaxY, .both Gen.Body.boundYxyMinLuma Gen.Body.boundYxyMaxLuma] := by
  simp only [Gen.Body.withinYxy, V3.toList, Clamp.withinAll, Clamp.withinC, Bool.and_true, Bool.true_and, Bool.and_assoc]

/-! ### `Lms` (lms/lms.rs) -/
theorem tie_clampLms (c : V3 α) :
    (Gen.Body.clampLms c).toList = Clamp.clampAll c.toList [.minOnly Gen.Body.boundLmsMinLong, .minOnly Gen.Body.boundLmsMinMedium, .minOnly Gen.Body.boundLmsMinShort] := rfl
theorem tie_clampAssignLms (c : V3 α) :
    (Gen.Body.clampAssignLms c).toList = Clamp.clampAll c.toList [.minOnly Gen.Body.boundLmsMinLong, .minOnly Gen.Body.boundLmsMinMedium, .minOnly Gen.Body.boundLmsMinShort] := rfl
theorem tie_withinLms (c : V3 α) :
    Gen.Body.withinLms c = Clamp.withinAll c.toList [.minOnly Gen.Body.boundLmsMinLong, .minOnly Gen.Body.boundLmsMinMedium, .minOnly Gen.Body.boundLmsMinShort] := by
  simp only [Gen.Body.withinLms, V3.toList, Clamp.withinAll, Clamp.withinC, Bool.and_true, Bool.true_and, Bool.and_assoc]

/-! ### `Oklab` (oklab/properties.rs) -/
theorem tie_clampOklab (c : V3 α) :
    (Gen.Body.clampOklab c).toList = Clamp.clampAll c.toList [.both Gen.Body.boundOklabMinL Gen.Body.boundOklabMaxL, .untouched, .untouched] := rfl
theorem tie_clampAssignOklab (c : V3 α) :
    (Gen.Body.clampAssignOklab c).toList = Clamp.clampAll c.toList [.both Gen.Body.boundOklabMinL Gen.Body.boundOklabMaxL, .untouched, .untouched] := rfl
theorem tie_withinOklab (c : V3 α) :
    Gen.Body.withinOklab c = Clamp.withinAll c.toList [.both Gen.Body.boundOklabMinL Gen.Body.boundOklabMaxL, .untouched, .untouched] := by
  simp only [Gen.Body.withinOklab, V3.toList, Clamp.withinAll, Clamp.withinC, Bool.and_true, Bool.true_and, Bool.and_assoc]

/-! ### `Oklch` (oklch/properties.rs) -/
theorem tie_clampOklch (c : V3 α) :
    (Gen.Body.clampOklch c).toList = Clamp.clampAll c.toList [.both Gen.Body.boundOklchMinL Gen.Body.boundOklchMaxL, .minOnly Gen.Body.boundOklchMinChroma, .untouched] := rfl
theorem tie_clampAssignOklch (c : V3 α) :
    (Gen.Body.clampAssignOklch c).toList = Clamp.clampAll c.toList [.both Gen.Body.boundOklchMinL Gen.Body.boundOklchMaxL, .minOnly Gen.Body.boundOklchMinChroma, .untouched] := rfl
theorem tie_withinOklch (c : V3 α) :
    Gen.Body.withinOklch c = Clamp.withinAll c.toList [.both Gen.Body.boundOklchMinL Gen.Body.boundOklchMaxL, .minOnly Gen.Body.boundOklchMinChroma, .untouched] := by
  simp only [Gen.Body.withinOklch, V3.toList, Clamp.withinAll, Clamp.withinC, Bool.and_true, Bool.true_and, Bool.and_assoc]

/-! ### `Okhsl` (okhsl/properties.rs) -/
theorem tie_clampOkhsl (c : V3 α) :
    (Gen.Body.clampOkhsl c).toList = Clamp.clampAll c.toList [.untouched, .both Gen.Body.boundOkhslMinSaturation Gen.Body.boundOkhslMaxSaturation, .both Gen.Body.boundOkhslMinLightness Gen.Body.boundOkhslMaxLightness] := rfl
theorem tie_clampAssignOkhsl (c : V3 α) :
    (Gen.Body.clampAssignOkhsl c).toList = Clamp.clampAll c.toList [.untouched, .both Gen.Body.boundOkhslMinSaturation Gen.Body.boundOkhslMaxSaturation, .both Gen.Body.boundOkhslMinLightness Gen.Body.boundOkhslMaxLightness] := rfl
theorem tie_withinOkhsl (c : V3 α) :
    Gen.Body.withinOkhsl c = Clamp.withinAll c.toList [.untouched, .both Gen.Body.boundOkhslMinSaturation Gen.Body.boundOkhslMaxSaturation, .both Gen.Body.boundOkhslMinLightness Gen.Body.boundOkhslMaxLightness] := by
  simp only [Gen.Body.withinOkhsl, V3.toList, Clamp.withinAll, Clamp.withinC, Bool.and_true, Bool.true_and, Bool.and_assoc]

/-! ### `Okhsv` (okhsv/properties.rs) -/
theorem tie_clampOkhsv (c : V3 α) :
    (Gen.Body.clampOkhsv c).toList = Clamp.clampAll c.toList [.untouched, .both Gen.Body.boundOkhsvMinSaturation (Gen.Body.boundOkhsvMaxSaturation + Scalar.const (1e-6 : K)), .both Gen.Body.boundOkhsvMinValue (Gen.Body.boundOkhsvMaxValue + Scalar.const (1e-6 : K))] := rfl
theorem tie_clampAssignOkhsv (c : V3 α) :
    (Gen.Body.clampAssignOkhsv c).toList = Clamp.clampAll c.toList [.untouched, .both Gen.Body.boundOkhsvMinSaturation (Gen.Body.boundOkhsvMaxSaturation + Scalar.const (1e-6 : K)), .both Gen.Body.boundOkhsvMinValue (Gen.Body.boundOkhsvMaxValue + Scalar.const (1e-6 : K))] := rfl
theorem tie_withinOkhsv (c : V3 α) :
    Gen.Body.withinOkhsv c = Clamp.withinAll c.toList [.untouched, .both Gen.Body.boundOkhsvMinSaturation (Gen.Body.boundOkhsvMaxSaturation + Scalar.const (1e-6 : K)), .both Gen.Body.boundOkhsvMinValue (Gen.Body.boundOkhsvMaxValue + Scalar.const (1e-6 : K))] := by
  simp only [Gen.Body.withinOkhsv, V3.toList, Clamp.withinAll, Clamp.withinC, Bool.and_true, Bool.true_and, Bool.and_assoc]

/-! ### `Cam16UcsJab` (cam16/ucs_jab.rs) -/
theorem tie_clampCam16UcsJab (c : V3 α) :
    (Gen.Body.clampCam16UcsJab c).toList = Clamp.clampAll c.toList [.both Gen.Body.boundCam16UcsJabMinLightness Gen.Body.boundCam16UcsJabMaxLightness, .untouched, .untouched] := rfl
theorem tie_clampAssignCam16UcsJab (c : V3 α) :
    (Gen.Body.clampAssignCam16UcsJab c).toList = Clamp.clampAll c.toList [.both Gen.Body.boundCam16UcsJabMinLightness Gen.Body.boundCam16UcsJabMaxLightness, .untouched, .untouched] := rfl
theorem tie_withinCam16UcsJab (c : V3 α) :
    Gen.Body.withinCam16UcsJab c = Clamp.withinAll c.toList [.both Gen.Body.boundCam16UcsJabMinLightness Gen.Body.boundCam16UcsJabMaxLightness, .untouched, .untouched] := by
  simp only [Gen.Body.withinCam16UcsJab, V3.toList, Clamp.withinAll, Clamp.withinC, Bool.and_true, Bool.true_and, Bool.and_assoc]

/-! ### `Cam16UcsJmh` (cam16/ucs_jmh.rs) -/
theorem tie_clampCam16UcsJmh (c : V3 α) :
    (Gen.Body.clampCam16UcsJmh c).toList = Clamp.clampAll c.toList [.both Gen.Body.boundCam16UcsJmhMinLightness Gen.Body.boundCam16UcsJmhMaxLightness, .minOnly Gen.Body.boundCam16UcsJmhMinColorfulness, .untouched] := rfl
theorem tie_clampAssignCam16UcsJmh (c : V3 α) :
    (Gen.Body.clampAssignCam16UcsJmh c).toList = Clamp.clampAll c.toList [.both Gen.Body.boundCam16UcsJmhMinLightness Gen.Body.boundCam16UcsJmhMaxLightness, .minOnly Gen.Body.boundCam16UcsJmhMinColorfulness, .untouched] := rfl
theorem tie_withinCam16UcsJmh (c : V3 α) :
    Gen.Body.withinCam16UcsJmh c = Clamp.withinAll c.toList [.both Gen.Body.boundCam16UcsJmhMinLightness Gen.Body.boundCam16UcsJmhMaxLightness, .minOnly Gen.Body.boundCam16UcsJmhMinColorfulness, .untouched] := by
  simp only [Gen.Body.withinCam16UcsJmh, V3.toList, Clamp.withinAll, Clamp.withinC, Bool.and_true, Bool.true_and, Bool.and_assoc]

/-! ### `Hwb`, `Okhwb`: `impl_clamp_hwb!`, `impl_is_within_bounds_hwb!` (whiteness and blackness coupled; hue carried along) -/
theorem tie_clampHwb (c : V3 α) :
    Gen.Body.clampHwb c = ⟨c.c0, (Clamp.hwbClamp 0.0 1.0 c.c1 c.c2).1, (Clamp.hwbClamp 0.0 1.0 c.c1 c.c2).2⟩ := rfl
theorem tie_clampAssignHwb (c : V3 α) :
    Gen.Body.clampAssignHwb c = ⟨c.c0, (Clamp.hwbClamp 0.0 1.0 c.c1 c.c2).1, (Clamp.hwbClamp 0.0 1.0 c.c1 c.c2).2⟩ := rfl
theorem tie_withinHwb (c : V3 α) : Gen.Body.withinHwb c = Clamp.hwbWithin 0.0 1.0 c.c1 c.c2 := rfl
theorem tie_clampOkhwb (c : V3 α) :
    Gen.Body.clampOkhwb c = ⟨c.c0, (Clamp.hwbClamp 0.0 1.0 c.c1 c.c2).1, (Clamp.hwbClamp 0.0 1.0 c.c1 c.c2).2⟩ := rfl
theorem tie_clampAssignOkhwb (c : V3 α) :
    Gen.Body.clampAssignOkhwb c = ⟨c.c0, (Clamp.hwbClamp 0.0 1.0 c.c1 c.c2).1, (Clamp.hwbClamp 0.0 1.0 c.c1 c.c2).2⟩ := rfl
theorem tie_withinOkhwb (c : V3 α) : Gen.Body.withinOkhwb c = Clamp.hwbWithin 0.0 1.0 c.c1 c.c2 := rfl

-- the accessor values the HWB ties unfold (`min_* = T::zero()`, `max_* = T::max_intensity()`, read as `0.0` / `1.0`)
theorem hwb_accessors :
    (Gen.Body.boundHwbMinWhiteness : α) = 0.0 ∧ (Gen.Body.boundHwbMinBlackness : α) = 0.0 ∧ (Gen.Body.boundHwbMaxBlackness : α) = 1.0 ∧
    (Gen.Body.boundOkhwbMinWhiteness : α) = 0.0 ∧ (Gen.Body.boundOkhwbMinBlackness : α) = 0.0 ∧ (Gen.Body.boundOkhwbMaxBlackness : α) = 1.0 :=
  ⟨rfl, rfl, rfl, rfl, rfl, rfl⟩

end Tie
