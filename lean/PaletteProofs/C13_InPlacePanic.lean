/-
  C13 — a panic inside a conversion while a buffer is half converted: what the code guarantees, and what it does not.

  Theorems about `PaletteModel/InPlacePanic.lean` (the extension of the symbolic model by "the `k`-th element conversion of this
  operation panics").  palette's own colour conversions on `f32`/`f64` do not panic (C07); the situation arises with user colour
  types (`FromColorUnclamped` impls that panic) and with the public `cast::map_vec_in_place(values, closure)`.

  What the code **does** guarantee (proved below):
    * element granularity — after a panic every slot holds either its previous colour or the fully converted one, never a mixture
      (`convLoopPanic_get`); the element whose conversion panicked is untouched (`panicking_element_untouched`,
      `single_panic_unchanged`); address, capacity and length never change (`panicStep_frame`, `unwind_frame`);
    * no second back-conversion — the guard that is being dropped / restored / chained when its conversion panics has already
      given up its reference, so its `Drop` does nothing (`panic_in_drop`, `panic_in_restore_or_then`);
    * the guards that are still alive are dropped by the unwinding and restore exactly as a normal `drop` does:
      `unwind = run [drop, …, drop]` (`unwind_eq_run_drops`), hence each converts back once from its current type
      (`unwind_spec`), and afterwards no guard is pending (`unwind_guards`); a panic in the *user's* code while guards are alive
      restores everything (`userPanic_restores`);
    * `map_vec_in_place` / `map_slice_box_in_place` (`Vec`/`Box<[T]>::from_color`): on panic nothing is dropped twice — the one
      value that was moved into the conversion is dropped once, everything else (converted or not) and the allocation are
      **leaked** (`owned_panic_outcome`, `owned_panic_no_double_drop`, `owned_panic_leaks`); without the `ManuallyDrop` the value
      would be dropped twice (`without_manuallyDrop_double_drop`);
    * the panic model extends the normal one: an operation in which no conversion panics is `step` (`runP_ops`,
      `convLoopPanic_all`, `mapLoopPanic_finished`).
  What it does **not** guarantee (shown by kernel-evaluated witnesses, `example`s at the end):
    * no roll-back: a slice conversion that panics at element `k > 0` leaves elements `0..k` converted — colours of type `T` in a
      buffer whose static type is `[U]` — and nothing restores them (`from_color_mut_panic_not_rolled_back`);
    * an outer guard that is alive restores "through" such a mixed buffer: it applies its back-conversion to every slot,
      including the slots that hold colours of a third type.
  The harness (`harness/src/c13_panic.rs`) runs these histories on the real API with a colour type whose conversion panics at a
  chosen element, under `catch_unwind`, and the driver compares the observable state with this model.
-/
import PaletteProofs.C13_InPlace
import PaletteModel.InPlacePanic

namespace C13
open InPlace

/-! ## the element loop -/

/-- **prefix converted, suffix untouched** -/
theorem convLoopPanic_eq (cl : Bool) (U T : Ty) : ∀ (k : Nat) (l : List Term),
    convLoopPanic cl U T k l = (l.take k).map (Term.conv cl U T) ++ l.drop k
  | _, [] => by simp [convLoopPanic]
  | 0, c :: rest => by simp [convLoopPanic]
  | k + 1, c :: rest => by simp [convLoopPanic, fromColorMutElem, convLoopPanic_eq cl U T k rest]

theorem convLoopPanic_length (cl : Bool) (U T : Ty) (k : Nat) (l : List Term) : (convLoopPanic cl U T k l).length = l.length := by
  rw [convLoopPanic_eq]; simp [List.length_take, List.length_drop]; omega

/-- **no element is left in a mixed state**: slot `j` holds the ordinary conversion of its previous colour if `j < k`, and its
    previous colour otherwise — in particular the element whose conversion panicked (`j = k`) is untouched -/
theorem convLoopPanic_get (cl : Bool) (U T : Ty) (k : Nat) (l : List Term) (j : Nat) :
    (convLoopPanic cl U T k l)[j]? = if j < k then (l[j]?).map (Term.conv cl U T) else l[j]? := by
  rw [convLoopPanic_eq]
  by_cases h : j < k
  · rw [if_pos h]
    by_cases hj : j < l.length
    · rw [List.getElem?_append_left (by simp [List.length_take]; omega)]
      simp [List.getElem?_map, h]
    · have hj' : l.length ≤ j := Nat.le_of_not_lt hj
      rw [List.getElem?_eq_none (by simp [List.length_take, List.length_drop]; omega)]
      simp [List.getElem?_eq_none hj']
  · rw [if_neg h]
    have hk : k ≤ j := Nat.le_of_not_lt h
    by_cases hkl : k ≤ l.length
    · rw [List.getElem?_append_right (by simp [List.length_take]; omega)]
      simp only [List.length_map, List.length_take, Nat.min_eq_left hkl, List.getElem?_drop]
      congr 1; omega
    · have : l.length < k := Nat.lt_of_not_le hkl
      rw [List.getElem?_eq_none (by simp [List.length_take, List.length_drop]; omega), List.getElem?_eq_none (by omega)]

theorem panicking_element_untouched (cl : Bool) (U T : Ty) (k : Nat) (l : List Term) : (convLoopPanic cl U T k l)[k]? = l[k]? := by
  rw [convLoopPanic_get, if_neg (Nat.lt_irrefl k)]

/-- when no call panics (`k ≥` number of elements) the loop is the ordinary slice conversion of `InPlace.fromColorMutSlice` -/
theorem convLoopPanic_all (cl : Bool) (U T : Ty) (k : Nat) (l : List Term) (h : l.length ≤ k) :
    convLoopPanic cl U T k l = (fromColorMutSlice cl U T l).2 := by
  rw [convLoopPanic_eq, List.take_of_length_le h, List.drop_eq_nil_of_le h, fromColorMutSlice_eq]
  simp [outOfPlace]

/-- a single colour whose conversion panics is unchanged (the assignment `*result = …` is never reached) -/
theorem single_panic_unchanged (cl : Bool) (U T : Ty) (b : Buffer) (k : Nat) : fromColorMutPanic cl U T .single b k = b := rfl

/-- slices, `Vec`s and boxed slices: the element loop -/
theorem fromColorMutPanic_elems (cl : Bool) (U T : Ty) (form : Form) (hf : form ≠ .single) (b : Buffer) (k : Nat) :
    fromColorMutPanic cl U T form b k = { b with elems := (b.elems.take k).map (Term.conv cl U T) ++ b.elems.drop k } := by
  cases form <;> simp_all [fromColorMutPanic, convLoopPanic_eq]

/-! ## frame: same memory, same capacity, same length -/

theorem fromColorMutPanic_frame (cl : Bool) (U T : Ty) (form : Form) (b : Buffer) (k : Nat) :
    (fromColorMutPanic cl U T form b k).id = b.id ∧ (fromColorMutPanic cl U T form b k).cap = b.cap ∧
    (fromColorMutPanic cl U T form b k).elems.length = b.elems.length := by
  cases form <;> simp [fromColorMutPanic, convLoopPanic_length]

theorem fromColorMutPanic_singleOk {form : Form} {b : Buffer} (h : SingleOk form b) (cl : Bool) (U T : Ty) (k : Nat) :
    SingleOk form (fromColorMutPanic cl U T form b k) := by
  intro hf; rw [(fromColorMutPanic_frame cl U T form b k).2.2]; exact h hf

/-! ## the guard whose conversion panics is gone, and attempts nothing further -/

/-- **panic inside `Drop`**: the reference had been taken, so what remains is the partially back-converted memory and no guard -/
theorem panic_in_drop (form : Form) (g : Guard) (b : Buffer) (k : Nat) (T : Ty) (h : g.current = some T) :
    dropGuardPanic form g b k = some (fromColorMutPanic g.clamped T g.original form b k) := by
  simp [dropGuardPanic, Guard.take, h]

/-- **panic inside `restore` / `then_into_*`**: the moved-from `self` is dropped by the unwinding with `current = None`: it does
    not convert anything back (`dropGuard_taken`) -/
theorem panic_in_restore_or_then (form : Form) (cl : Bool) (X : Ty) (g : Guard) (b : Buffer) (k : Nat) (T : Ty) (h : g.current = some T) :
    takeMapTakePanic form cl X g b k = some (fromColorMutPanic cl T X form b k) := by
  simp [takeMapTakePanic, Guard.take, h, dropGuard]

/-- `restore` that panics and `drop` that panics leave the same memory (`restore` is `drop` plus handing out the reference) -/
theorem panic_restore_eq_panic_drop (form : Form) (g : Guard) (b : Buffer) (k : Nat) (T : Ty) (h : g.current = some T) :
    takeMapTakePanic form g.clamped g.original g b k = dropGuardPanic form g b k := by
  rw [panic_in_restore_or_then form _ _ g b k T h, panic_in_drop form g b k T h]

/-! ## `panicStep`: what each operation leaves -/

/-- the shape of every panicking step: one partial element loop with some conversion, the live guards unchanged
    (`from_color_mut`: no guard was created) or the innermost one removed (`drop`, `restore`, `then_into_*`: it was consumed) -/
theorem panicStep_shape (op : Op) (k : Nat) (s s' : State) (hinv : Inv s) (h : panicStep op k s = some s') :
    ∃ cl U T, s' = { s with buf := fromColorMutPanic cl U T s.form s.buf k } ∨
      (s' = { s with buf := fromColorMutPanic cl U T s.form s.buf k, guards := s.guards.tail } ∧ s.guards ≠ []) := by
  unfold panicStep at h
  by_cases hk : convCalls s.form s.buf ≤ k
  · simp [hk] at h
  · simp only [hk, if_false] at h
    cases hg : s.guards with
    | nil =>
      rw [hg] at h
      cases op <;> simp at h
      rename_i cl T
      exact ⟨cl, s.rootTy, T, Or.inl h.symm⟩
    | cons g gs =>
      rw [hg] at h
      have hchain := hinv.1
      rw [hg] at hchain
      obtain ⟨T, hT⟩ := chain_head hchain
      cases op <;> simp [hT, panic_in_restore_or_then _ _ _ g _ k T hT, panic_in_drop _ g _ k T hT] at h
      · rename_i cl C; exact ⟨cl, T, C, Or.inl h.symm⟩
      · rename_i C; exact ⟨true, T, C, Or.inr ⟨by rw [← h]; rfl, by simp⟩⟩
      · rename_i C; exact ⟨false, T, C, Or.inr ⟨by rw [← h]; rfl, by simp⟩⟩
      · exact ⟨g.clamped, T, g.original, Or.inr ⟨by rw [← h]; rfl, by simp⟩⟩
      · exact ⟨g.clamped, T, g.original, Or.inr ⟨by rw [← h]; rfl, by simp⟩⟩

/-- the frame and the invariant survive a panicking operation; the static types of the remaining access paths are unchanged -/
theorem panicStep_frame (op : Op) (k : Nat) (s s' : State) (hinv : Inv s) (h : panicStep op k s = some s') :
    s'.buf.id = s.buf.id ∧ s'.buf.cap = s.buf.cap ∧ s'.buf.elems.length = s.buf.elems.length ∧ s'.form = s.form ∧
    s'.rootTy = s.rootTy ∧ Inv s' ∧ (s'.guards = s.guards ∨ s'.guards = s.guards.tail) := by
  obtain ⟨cl, U, T, hs | ⟨hs, hne⟩⟩ := panicStep_shape op k s s' hinv h
  · subst hs
    have fr := fromColorMutPanic_frame cl U T s.form s.buf k
    exact ⟨fr.1, fr.2.1, fr.2.2, rfl, rfl, ⟨hinv.1, fromColorMutPanic_singleOk hinv.2 _ _ _ _⟩, Or.inl rfl⟩
  · subst hs
    have fr := fromColorMutPanic_frame cl U T s.form s.buf k
    refine ⟨fr.1, fr.2.1, fr.2.2, rfl, rfl, ⟨?_, fromColorMutPanic_singleOk hinv.2 _ _ _ _⟩, Or.inr rfl⟩
    have hchain := hinv.1
    cases hg : s.guards with
    | nil => exact absurd hg hne
    | cons g gs => rw [hg] at hchain; simpa [hg] using hchain.2.2

/-- **`drop` / `restore` / `then_into_*` whose conversion panics**: the guard is removed, the memory holds the prefix converted
    with the conversion the operation was performing, and nothing else happened -/
theorem panicStep_consuming (s : State) (g : Guard) (gs : List Guard) (T : Ty) (k : Nat) (hg : s.guards = g :: gs)
    (hT : g.current = some T) (hk : k < convCalls s.form s.buf) :
    panicStep .drop k s = some { s with buf := fromColorMutPanic g.clamped T g.original s.form s.buf k, guards := gs } ∧
    panicStep .restore k s = some { s with buf := fromColorMutPanic g.clamped T g.original s.form s.buf k, guards := gs } ∧
    (∀ C, panicStep (.thenInto C) k s = some { s with buf := fromColorMutPanic true T C s.form s.buf k, guards := gs }) ∧
    (∀ C, panicStep (.thenIntoUnclamped C) k s = some { s with buf := fromColorMutPanic false T C s.form s.buf k, guards := gs }) := by
  have hk' : ¬ convCalls s.form s.buf ≤ k := Nat.not_le_of_lt hk
  refine ⟨?_, ?_, ?_, ?_⟩
  · simp [panicStep, hk', hg, panic_in_drop _ g _ k T hT]
  · simp [panicStep, hk', hg, panic_in_restore_or_then _ _ _ g _ k T hT]
  · intro C; simp [panicStep, hk', hg, panic_in_restore_or_then _ _ _ g _ k T hT]
  · intro C; simp [panicStep, hk', hg, panic_in_restore_or_then _ _ _ g _ k T hT]

/-- **`from_color_mut` that panics**: no guard is created (the guards are the ones that were alive), the prefix is converted -/
theorem panicStep_start (s : State) (cl : Bool) (T U : Ty) (k : Nat) (hU : viewTy s.rootTy s.guards = some U)
    (hk : k < convCalls s.form s.buf) :
    panicStep (.fromColorMut cl T) k s = some { s with buf := fromColorMutPanic cl U T s.form s.buf k } := by
  have hk' : ¬ convCalls s.form s.buf ≤ k := Nat.not_le_of_lt hk
  cases hg : s.guards with
  | nil => rw [hg] at hU; simp at hU; simp [panicStep, hk', hg, hU]
  | cons g gs => rw [hg] at hU; simp at hU; simp [panicStep, hk', hg, hU]

/-! ## the unwinding is a sequence of ordinary drops -/

theorem unwindGo_eq_run (s : State) : ∀ (gs : List Guard) (b : Buffer),
    run (List.replicate gs.length .drop) { s with buf := b, guards := gs } = some { s with buf := unwindGo s.form gs b, guards := [] }
  | [], b => rfl
  | g :: gs, b => by
    simp only [List.length_cons, List.replicate_succ, run, step, Option.bind_some, unwindGo]
    exact unwindGo_eq_run s gs (dropGuard s.form g b)

/-- **the guards that are alive when a panic unwinds are dropped like any other guard**: `unwind` is `drop` applied once per live
    guard, innermost first -/
theorem unwind_eq_run_drops (s : State) : run (List.replicate s.guards.length .drop) s = some (unwind s) := by
  have := unwindGo_eq_run s s.guards s.buf
  simpa [unwind] using this

/-- hence (by `run_refines_spec`) each live guard converts the whole buffer back **once**, from its current type to its original
    type, in the direct reading of the property -/
theorem unwind_spec (s : State) (hinv : Inv s) : specRun (List.replicate s.guards.length .drop) s = some (unwind s) := by
  rw [← run_refines_spec _ s hinv]; exact unwind_eq_run_drops s

theorem unwind_guards (s : State) : (unwind s).guards = [] := rfl

theorem unwind_frame (s : State) (hinv : Inv s) :
    (unwind s).buf.id = s.buf.id ∧ (unwind s).buf.cap = s.buf.cap ∧ (unwind s).buf.elems.length = s.buf.elems.length ∧ Inv (unwind s) := by
  have h := unwind_eq_run_drops s
  have fr := run_frame _ s _ hinv h
  exact ⟨fr.1, fr.2.1, fr.2.2.1, run_inv _ s _ hinv h⟩

/-- one live guard: the unwinding is its single back-conversion -/
theorem unwind_one (s : State) (g : Guard) (T : Ty) (hinv : Inv s) (hg : s.guards = [g]) (hT : g.current = some T) :
    (unwind s).buf = convAll g.clamped T g.original s.buf := by
  simp [unwind, hg, unwindGo, dropGuard_holding s.form g s.buf T hT hinv.2]

/-- **a panic in the user's code while guards are alive restores the buffer** exactly as closing every guard with `drop` would -/
theorem userPanic_restores (s : State) : stepP .userPanic s = (run (List.replicate s.guards.length .drop) s).map .state := by
  rw [unwind_eq_run_drops]; rfl

/-- after a caught panic the history continues on the owner, with the invariant of the ordinary theorems: every statement of
    `C13_InPlace.lean` applies to the continuation -/
theorem stepP_panicIn_inv (o : Op) (k : Nat) (s s' : State) (hinv : Inv s) (h : stepP (.panicIn o k) s = some (.state s')) :
    Inv s' ∧ s'.guards = [] ∧ s'.buf.id = s.buf.id ∧ s'.buf.cap = s.buf.cap ∧ s'.buf.elems.length = s.buf.elems.length := by
  have key : ∀ s1, panicStep o k s = some s1 → unwind s1 = s' →
      Inv s' ∧ s'.guards = [] ∧ s'.buf.id = s.buf.id ∧ s'.buf.cap = s.buf.cap ∧ s'.buf.elems.length = s.buf.elems.length := by
    intro s1 h1 h2
    have f1 := panicStep_frame o k s s1 hinv h1
    have f2 := unwind_frame s1 f1.2.2.2.2.2.1
    subst h2
    exact ⟨f2.2.2.2, rfl, f2.1.trans f1.1, f2.2.1.trans f1.2.1, f2.2.2.1.trans f1.2.2.1⟩
  cases o with
  | ownedFromColor cl T =>
    simp only [stepP] at h
    split at h
    · split at h <;> simp at h
    · simp at h
  | fromColorMut cl T => simp only [stepP, Option.map_eq_some_iff] at h; obtain ⟨s1, h1, h2⟩ := h; exact key s1 h1 (by injection h2)
  | deref => simp only [stepP, Option.map_eq_some_iff] at h; obtain ⟨s1, h1, h2⟩ := h; exact key s1 h1 (by injection h2)
  | write i j => simp only [stepP, Option.map_eq_some_iff] at h; obtain ⟨s1, h1, h2⟩ := h; exact key s1 h1 (by injection h2)
  | thenInto C => simp only [stepP, Option.map_eq_some_iff] at h; obtain ⟨s1, h1, h2⟩ := h; exact key s1 h1 (by injection h2)
  | thenIntoUnclamped C => simp only [stepP, Option.map_eq_some_iff] at h; obtain ⟨s1, h1, h2⟩ := h; exact key s1 h1 (by injection h2)
  | intoUnclampedGuard => simp only [stepP, Option.map_eq_some_iff] at h; obtain ⟨s1, h1, h2⟩ := h; exact key s1 h1 (by injection h2)
  | intoClampedGuard => simp only [stepP, Option.map_eq_some_iff] at h; obtain ⟨s1, h1, h2⟩ := h; exact key s1 h1 (by injection h2)
  | restore => simp only [stepP, Option.map_eq_some_iff] at h; obtain ⟨s1, h1, h2⟩ := h; exact key s1 h1 (by injection h2)
  | drop => simp only [stepP, Option.map_eq_some_iff] at h; obtain ⟨s1, h1, h2⟩ := h; exact key s1 h1 (by injection h2)
  | forget => simp only [stepP, Option.map_eq_some_iff] at h; obtain ⟨s1, h1, h2⟩ := h; exact key s1 h1 (by injection h2)

/-- **the panic model extends the ordinary one**: a history in which nothing panics is `run` -/
theorem runP_ops (ops : List Op) (s : State) : runP (ops.map .op) s = (run ops s).map .state := by
  induction ops generalizing s with
  | nil => rfl
  | cons o ops ih =>
    simp only [List.map_cons, runP, stepP, run]
    cases h : step o s with
    | none => simp
    | some s' => simp [ih]

/-! ## `map_vec_in_place` / `map_slice_box_in_place` -/

/-- no panic: the loop finishes with every slot mapped — the ordinary model `readMapWrite` (= `map`, = out of place) -/
theorem mapLoopPanic_finished (map : Term → Term) (md : Bool) : ∀ (k : Nat) (done l : List Term), l.length ≤ k →
    mapLoopPanic map md k done l = .finished (done ++ readMapWrite map l)
  | _, done, [], _ => by simp [mapLoopPanic, readMapWrite]
  | 0, done, _ :: _, h => by simp at h
  | k + 1, done, item :: rest, h => by
    rw [mapLoopPanic, mapLoopPanic_finished map md k _ rest (by simpa using h)]
    simp [readMapWrite]

/-- panic at call `k`: the slots before `k` hold the outputs, slot `k` and the rest still hold the inputs; the value that was moved
    into the closure is dropped; with `ManuallyDrop` nothing else is, and the allocation is not released -/
theorem mapLoopPanic_panicked (map : Term → Term) (md : Bool) : ∀ (k : Nat) (done l : List Term) (hk : k < l.length),
    mapLoopPanic map md k done l = .panicked
      { slots := done ++ (l.take k).map map ++ l.drop k,
        dropped := l[k] :: (if md then [] else done ++ (l.take k).map map ++ l.drop k),
        freed := !md }
  | 0, done, item :: rest, _ => by simp [mapLoopPanic]
  | k + 1, done, item :: rest, hk => by
    rw [mapLoopPanic, mapLoopPanic_panicked map md k _ rest (by simpa using hk)]
    simp

/-- **the outcome of a by-value in-place conversion whose conversion panics at element `k`** -/
theorem owned_panic_outcome (cl : Bool) (A B : Ty) (b : Buffer) (k : Nat) (hk : k < b.elems.length) :
    ownedPanic cl A B b k = .panicked
      { slots := (b.elems.take k).map (Term.conv cl A B) ++ b.elems.drop k, dropped := [b.elems[k]], freed := false } := by
  unfold ownedPanic
  rw [mapLoopPanic_panicked _ _ k [] b.elems hk]
  simp

/-- and when it does not panic it is the ordinary `mapInPlace` -/
theorem owned_no_panic (cl : Bool) (A B : Ty) (b : Buffer) (k : Nat) (hk : b.elems.length ≤ k) :
    ownedPanic cl A B b k = .finished (mapInPlace cl A B b).elems := by
  unfold ownedPanic
  rw [mapLoopPanic_finished _ _ k [] b.elems hk]
  simp [mapInPlace]

/-- **never a double drop**: every value is dropped at most once — exactly one value is dropped at all -/
theorem owned_panic_no_double_drop (cl : Bool) (A B : Ty) (b : Buffer) (k : Nat) (l : Leak) (h : ownedPanic cl A B b k = .panicked l) :
    l.dropped.length = 1 ∧ l.dropped.Nodup ∧ ∀ t, l.dropped.count t ≤ 1 := by
  by_cases hk : k < b.elems.length
  · rw [owned_panic_outcome cl A B b k hk] at h
    injection h with h; subst h
    refine ⟨rfl, by simp, fun t => ?_⟩
    simp only [List.count_cons, List.count_nil]; split <;> omega
  · rw [owned_no_panic cl A B b k (Nat.le_of_not_lt hk)] at h; cases h

/-- **… but a leak**: the allocation is not released, and none of the `n − 1` other elements (the already converted ones and the
    ones not yet reached) is ever dropped — for a buffer of pairwise distinct values -/
theorem owned_panic_leaks (cl : Bool) (A B : Ty) (b : Buffer) (k : Nat) (l : Leak) (h : ownedPanic cl A B b k = .panicked l)
    (hd : b.elems.Nodup) :
    l.freed = false ∧ l.slots.length = b.elems.length ∧
    ∀ j (hj : j < b.elems.length), j ≠ k → b.elems[j] ∉ l.dropped := by
  by_cases hk : k < b.elems.length
  · rw [owned_panic_outcome cl A B b k hk] at h
    injection h with h; subst h
    refine ⟨rfl, by simp [List.length_take, List.length_drop]; omega, ?_⟩
    intro j hj hjk hmem
    simp only [List.mem_singleton] at hmem
    exact hjk ((List.getElem_inj hd).mp hmem)
  · rw [owned_no_panic cl A B b k (Nat.le_of_not_lt hk)] at h; cases h

/-- the counterfactual the `ManuallyDrop` exists for: were `values` dropped by the unwinding, the value moved into the closure
    would be dropped a second time through its slot -/
theorem without_manuallyDrop_double_drop (map : Term → Term) (k : Nat) (l : List Term) (hk : k < l.length) :
    ∃ lk, mapLoopPanic map false k [] l = .panicked lk ∧ 2 ≤ lk.dropped.count l[k] ∧ lk.freed = true := by
  refine ⟨_, mapLoopPanic_panicked map false k [] l hk, ?_, rfl⟩
  simp only [Bool.false_eq_true, if_false, List.nil_append, List.count_cons_self, List.count_append]
  have : 1 ≤ (l.drop k).count l[k] := by
    rw [List.drop_eq_getElem_cons hk, List.count_cons_self]; omega
  omega

/-- through `stepP`: a panicking by-value conversion ends the history with the owner leaked -/
theorem stepP_owned_panic (s : State) (cl : Bool) (T : Ty) (k : Nat) (hg : s.guards = []) (hf : s.form = .vec ∨ s.form = .boxed)
    (hk : k < s.buf.elems.length) :
    stepP (.panicIn (.ownedFromColor cl T) k) s = some (.leaked
      { slots := (s.buf.elems.take k).map (Term.conv cl s.rootTy T) ++ s.buf.elems.drop k, dropped := [s.buf.elems[k]], freed := false }) := by
  simp [stepP, hg, hf, owned_panic_outcome cl s.rootTy T s.buf k hk]

/-- a fresh buffer holds pairwise distinct values, so `owned_panic_leaks` applies to it -/
theorem fresh_nodup (form : Form) (U id cap n : Nat) : (fresh form U id cap n).buf.elems.Nodup := by
  simp only [fresh]
  exact List.Pairwise.map Term.src (fun a b h heq => h (by injection heq)) List.nodup_range

/-! ## what is *not* guaranteed, and non-vacuity: concrete histories evaluated by the kernel -/

/-- **no roll-back**: `<[T]>::from_color_mut(&mut [U; 3])` (U = 0, T = 1) whose conversion panics at element 1 leaves element 0
    converted: the caller's `[U]` holds a colour of type `T` in slot 0, and no guard is pending that would restore it -/
theorem from_color_mut_panic_not_rolled_back :
    runP [.panicIn (.fromColorMut true 1) 1] (fresh .slice 0 100 3 3) =
      some (.state { form := .slice, rootTy := 0, guards := [], buf := { id := 100, cap := 3, tag := 0, elems := [.conv true 0 1 (.src 0), .src 1, .src 2] } }) := by
  decide

/-- panic in the back-conversion of `drop` at element 2 of 3: elements 0, 1 restored, element 2 still of the converted type; the
    guard is gone (`guards = []`), nothing retries -/
example : runP [.op (.fromColorMut true 1), .panicIn .drop 2] (fresh .vec 0 100 4 3) =
    some (.state { form := .vec, rootTy := 0, guards := [], buf := { id := 100, cap := 4, tag := 1, elems := [.conv true 1 0 (.conv true 0 1 (.src 0)), .conv true 1 0 (.conv true 0 1 (.src 1)), .conv true 0 1 (.src 2)] } }) := by
  decide

/-- panic in `then_into_color_unclamped_mut::<2>` at element 1: element 0 is of type 2, element 1 of type 1; the original type 0 is
    **not** restored (the consumed guard holds `None`) -/
example : (runP [.op (.fromColorMut true 1), .panicIn (.thenIntoUnclamped 2) 1] (fresh .boxed 0 100 2 2)).map
      (fun f => match f with | .state s => (s.buf.elems, s.guards) | .leaked _ => ([], [])) =
    some ([.conv false 1 2 (.conv true 0 1 (.src 0)), .conv true 0 1 (.src 1)], []) := by decide

/-- panic in a *nested* conversion (`guard.into_color_mut()` through `DerefMut`) at element 1: the outer guard is alive, so the
    unwinding runs its `Drop`, which converts **every** slot back `1 → 0` — also slot 0, which holds a colour of type 2 -/
example : (runP [.op (.fromColorMut true 1), .panicIn (.fromColorMut false 2) 1] (fresh .slice 0 100 2 2)).map
      (fun f => match f with | .state s => (s.buf.elems, s.guards) | .leaked _ => ([], [])) =
    some ([.conv true 1 0 (.conv false 1 2 (.conv true 0 1 (.src 0))), .conv true 1 0 (.conv true 0 1 (.src 1))], []) := by decide

/-- a single colour: the panic leaves it untouched; a user panic with two nested guards alive restores through both -/
example : runP [.panicIn (.fromColorMut true 1) 0] (fresh .single 0 100 1 1) = some (.state (fresh .single 0 100 1 1)) := by decide
example : (runP [.op (.fromColorMut true 1), .op (.fromColorMut true 2), .userPanic] (fresh .single 0 100 1 1)).map
      (fun f => match f with | .state s => (s.buf.elems, s.guards) | .leaked _ => ([], [])) =
    some ([.conv true 1 0 (.conv true 2 1 (.conv true 1 2 (.conv true 0 1 (.src 0))))], []) := by decide

/-- by-value conversion of a `Vec` of 4 whose conversion panics at element 2: `src 2` is dropped once, the rest is leaked -/
example : runP [.panicIn (.ownedFromColor true 1) 2] (fresh .vec 0 100 6 4) =
    some (.leaked { slots := [.conv true 0 1 (.src 0), .conv true 0 1 (.src 1), .src 2, .src 3], dropped := [.src 2], freed := false }) := by decide

/-- the hypotheses of `panicStep_consuming`, `panicStep_start`, `unwind_spec` and `stepP_panicIn_inv` are met by ordinary states:
    a fresh slice of 3 with one guard alive (invariant by `run_inv` from `fresh_inv`) -/
example : ∃ s g, run [.fromColorMut true 1] (fresh .slice 0 100 3 3) = some s ∧ Inv s ∧ s.guards = [g] ∧ g.current = some 1 ∧
    2 < convCalls s.form s.buf ∧ viewTy s.rootTy s.guards = some 1 ∧
    (stepP (.panicIn .drop 2) s).isSome = true := by
  refine ⟨_, _, rfl, run_inv [.fromColorMut true 1] (fresh .slice 0 100 3 3) _ (fresh_inv _ _ _ _ _ (by simp)) rfl, rfl, rfl, by decide, rfl, by decide⟩
example : (fresh .vec 0 100 6 4).buf.elems.Nodup ∧ 2 < (fresh .vec 0 100 6 4).buf.elems.length := ⟨fresh_nodup _ _ _ _ _, by decide⟩

/-- the history goes on after a caught panic; a "panic" at an index the operation never reaches is not a panic -/
example : (runP [.panicIn (.fromColorMut true 1) 1, .op (.fromColorMut false 2), .op .drop] (fresh .slice 0 100 2 2)).map
      (fun f => match f with | .state s => s.buf.elems | .leaked _ => []) =
    some [.conv false 2 0 (.conv false 0 2 (.conv true 0 1 (.src 0))), .conv false 2 0 (.conv false 0 2 (.src 1))] := by decide
example : runP [.panicIn (.fromColorMut true 1) 2] (fresh .slice 0 100 2 2) = none := by decide
example : runP [.panicIn .deref 0] (fresh .slice 0 100 2 2) = none := by decide

end C13
